import ArrowModel.C20.Model
namespace ArrowModel.C20

/-! ## UTF-8 is a self-synchronising prefix code -/

theorem encodeCode_head_inj (a b : Nat) (x y : List Nat)
    (h : encodeCode a ++ x = encodeCode b ++ y) : a = b ∧ x = y := by
  unfold encodeCode at h
  split at h <;> split at h <;> (try split at h) <;> (try split at h) <;> (try split at h) <;> (try split at h) <;>
    simp only [List.cons_append, List.nil_append, List.cons.injEq] at h <;>
    first
    | (exfalso; omega)
    | (refine ⟨by omega, ?_⟩; simp [h])

/-- a continuation byte `10xxxxxx` -/
def isContB (b : Nat) : Prop := 128 ≤ b ∧ b < 192

theorem encodeCode_shape (c : Nat) :
    ∃ l cs, encodeCode c = l :: cs ∧ ¬ isContB l ∧ ∀ x ∈ cs, isContB x := by
  unfold encodeCode isContB
  split
  · exact ⟨_, _, rfl, by omega, by simp⟩
  split
  · exact ⟨_, _, rfl, by omega, by simp; omega⟩
  split
  · exact ⟨_, _, rfl, by omega, by simp; omega⟩
  · exact ⟨_, _, rfl, by omega, by simp; omega⟩

theorem encodeChar_head_inj (a b : Char) (x y : List Nat)
    (h : encodeChar a ++ x = encodeChar b ++ y) : a = b ∧ x = y := by
  have := encodeCode_head_inj a.toNat b.toNat x y h
  exact ⟨Char.toNat_inj.mp this.1, this.2⟩

theorem encodeChar_shape (c : Char) :
    ∃ l cs, encodeChar c = l :: cs ∧ ¬ isContB l ∧ ∀ x ∈ cs, isContB x := encodeCode_shape c.toNat

theorem encode_append (a b : List Char) : encode (a ++ b) = encode a ++ encode b := by
  induction a with
  | nil => rfl
  | cons c a ih => simp [encode, ih]

theorem encode_eq_nil {s : List Char} (h : encode s = []) : s = [] := by
  cases s with
  | nil => rfl
  | cons c s =>
    obtain ⟨l, cs, hc, _⟩ := encodeChar_shape c
    simp [encode, hc] at h

theorem encode_inj {a b : List Char} (h : encode a = encode b) : a = b := by
  induction a generalizing b with
  | nil => exact (encode_eq_nil h.symm).symm
  | cons c a ih =>
    cases b with
    | nil => exact encode_eq_nil h
    | cons d b =>
      simp only [encode] at h
      obtain ⟨h1, h2⟩ := encodeChar_head_inj c d _ _ h
      rw [h1, ih h2]

/-- **prefix code**: a byte prefix that is itself an encoding is a character prefix -/
theorem encode_prefix_iff (p s : List Char) : encode p <+: encode s ↔ p <+: s := by
  constructor
  · intro h
    induction p generalizing s with
    | nil => exact List.nil_prefix
    | cons c p ih =>
      obtain ⟨t, ht⟩ := h
      cases s with
      | nil =>
        obtain ⟨l, cs, hc, _⟩ := encodeChar_shape c
        simp [encode, hc] at ht
      | cons d s =>
        simp only [encode, List.append_assoc] at ht
        obtain ⟨h1, h2⟩ := encodeChar_head_inj c d _ _ ht
        subst h1
        have := ih s ⟨t, h2⟩
        exact (List.cons_prefix_cons).mpr ⟨rfl, this⟩
  · rintro ⟨t, rfl⟩
    exact ⟨encode t, (encode_append p t).symm⟩

/-- **self-synchronisation**: cutting an encoding at a position that is the end or holds a
non-continuation byte cuts it between two characters. -/
theorem encode_sync (s : List Char) (t r : List Nat) (h : t ++ r = encode s)
    (hr : r = [] ∨ ∃ b r', r = b :: r' ∧ ¬ isContB b) :
    ∃ s1 s2, s = s1 ++ s2 ∧ t = encode s1 ∧ r = encode s2 := by
  induction s generalizing t with
  | nil =>
    simp only [encode, List.append_eq_nil_iff] at h
    exact ⟨[], [], rfl, h.1, h.2⟩
  | cons c s ih =>
    cases t with
    | nil => exact ⟨[], c :: s, rfl, rfl, by simpa using h⟩
    | cons t0 t =>
      simp only [encode] at h
      obtain ⟨l, cs, hc, hl, hcs⟩ := encodeChar_shape c
      rcases List.append_eq_append_iff.mp h with ⟨a', h1, h2⟩ | ⟨c', h1, h2⟩
      · -- encodeChar c = (t0 :: t) ++ a', r = a' ++ encode s
        cases a' with
        | nil =>
          refine ⟨[c], s, rfl, ?_, ?_⟩
          · simp [encode, h1]
          · simpa using h2
        | cons a0 a' =>
          exfalso
          rw [hc] at h1
          simp only [List.cons_append, List.cons.injEq] at h1
          have hmem : a0 ∈ cs := by rw [h1.2]; simp
          have hcont := hcs a0 hmem
          rcases hr with hr | ⟨b, r', hr, hb⟩
          · simp [hr] at h2
          · rw [hr] at h2
            simp only [List.cons_append, List.cons.injEq] at h2
            exact hb (h2.1 ▸ hcont)
      · -- t0 :: t = encodeChar c ++ c', encode s = c' ++ r
        obtain ⟨s1, s2, e1, e2, e3⟩ := ih c' h2.symm
        exact ⟨c :: s1, s2, by simp [e1], by simp [encode, h1, e2], e3⟩

theorem encode_head_lead (c : Char) (s : List Char) :
    ∃ b r', encode (c :: s) = b :: r' ∧ ¬ isContB b := by
  obtain ⟨l, cs, hc, hl, _⟩ := encodeChar_shape c
  exact ⟨l, cs ++ encode s, by simp [encode, hc], hl⟩

theorem encode_lead_or_nil (p : List Char) :
    encode p = [] ∨ ∃ b r', encode p = b :: r' ∧ ¬ isContB b := by
  cases p with
  | nil => exact Or.inl rfl
  | cons c p => exact Or.inr (encode_head_lead c p)

theorem encode_suffix_iff (p s : List Char) : encode p <:+ encode s ↔ p <:+ s := by
  constructor
  · rintro ⟨t, ht⟩
    obtain ⟨s1, s2, e1, _, e3⟩ := encode_sync s t (encode p) ht (encode_lead_or_nil p)
    rw [encode_inj e3, e1]
    exact List.suffix_append s1 s2
  · rintro ⟨t, rfl⟩
    exact ⟨encode t, (encode_append t p).symm⟩

theorem encode_infix_iff (p s : List Char) : encode p <:+: encode s ↔ p <:+: s := by
  constructor
  · rintro ⟨t, u, ht⟩
    cases p with
    | nil => exact List.nil_infix
    | cons c p =>
      obtain ⟨b, r', hb, hlead⟩ := encode_head_lead c p
      rw [List.append_assoc] at ht
      obtain ⟨s1, s2, e1, _, e3⟩ := encode_sync s t (encode (c :: p) ++ u) ht
        (Or.inr ⟨b, r' ++ u, by simp [hb], hlead⟩)
      have : c :: p <+: s2 := (encode_prefix_iff _ _).mp ⟨u, e3⟩
      obtain ⟨v, hv⟩ := this
      exact ⟨s1, v, by rw [e1, ← hv, List.append_assoc]⟩
  · rintro ⟨t, u, rfl⟩
    exact ⟨encode t, encode u, by simp [encode_append]⟩

/-! ## byte kernels -/

theorem zipAll_byteEq_prefix (h n : List Nat) (hl : n.length ≤ h.length) :
    zipAll byteEq h n = n.isPrefixOf h := by
  induction n generalizing h with
  | nil => cases h <;> simp [zipAll]
  | cons a n ih =>
    cases h with
    | nil => simp at hl
    | cons b h =>
      simp only [List.length_cons, Nat.add_le_add_iff_right] at hl
      simp only [zipAll, byteEq, ih h hl, List.isPrefixOf]
      congr 1
      exact BEq.comm

theorem bytesStartsWith_eq (h n : List Nat) : bytesStartsWith byteEq h n = n.isPrefixOf h := by
  unfold bytesStartsWith
  split
  · rename_i hl
    symm
    rw [Bool.eq_false_iff]
    intro hp
    have := (List.isPrefixOf_iff_prefix.mp hp).length_le
    omega
  · exact zipAll_byteEq_prefix h n (by omega)

theorem bytesEndsWith_eq (h n : List Nat) : bytesEndsWith byteEq h n = n.isSuffixOf h := by
  unfold bytesEndsWith List.isSuffixOf
  have := bytesStartsWith_eq h.reverse n.reverse
  unfold bytesStartsWith at this
  simpa using this

theorem equalsBytes_prefixBytes (h n : List Nat) :
    equalsBytes byteEq (prefixBytes h n.length) n = n.isPrefixOf h := by
  unfold equalsBytes prefixBytes
  split
  · rename_i hl
    have : n.isPrefixOf h = false := by
      rw [Bool.eq_false_iff]; intro hp
      have := (List.isPrefixOf_iff_prefix.mp hp).length_le
      omega
    rw [this]
    cases n with
    | nil => simp at hl
    | cons a n => simp
  · rename_i hl
    have hlen : (h.take n.length).length = n.length := by simp; omega
    rw [zipAll_byteEq_prefix _ _ (by omega)]
    simp only [hlen, beq_self_eq_true, Bool.true_and]
    apply Bool.eq_iff_iff.mpr
    rw [List.isPrefixOf_iff_prefix, List.isPrefixOf_iff_prefix]
    constructor
    · intro hp
      exact hp.trans (List.take_prefix _ _)
    · intro hp
      exact List.prefix_take_iff.mpr ⟨hp, by omega⟩

theorem anySuffixB_iff (f : List Nat → Bool) (s : List Nat) :
    anySuffixB f s = true ↔ ∃ t, t <:+ s ∧ f t = true := by
  induction s with
  | nil => simp [anySuffixB]
  | cons x s ih =>
    simp only [anySuffixB, Bool.or_eq_true, ih]
    constructor
    · rintro (h | ⟨t, ht, hf⟩)
      · exact ⟨_, List.suffix_refl _, h⟩
      · exact ⟨t, ht.trans (List.suffix_cons x s), hf⟩
    · rintro ⟨t, ht, hf⟩
      rcases List.suffix_cons_iff.mp ht with rfl | ht
      · exact Or.inl hf
      · exact Or.inr ⟨t, ht, hf⟩

theorem memmem_iff (h n : List Nat) : memmem h n = true ↔ n <:+: h := by
  unfold memmem
  rw [anySuffixB_iff]
  constructor
  · rintro ⟨t, ⟨u, rfl⟩, hp⟩
    obtain ⟨v, rfl⟩ := List.isPrefixOf_iff_prefix.mp hp
    exact ⟨u, v, by simp⟩
  · rintro ⟨u, v, rfl⟩
    exact ⟨n ++ v, ⟨u, by simp⟩, List.isPrefixOf_iff_prefix.mpr ⟨v, rfl⟩⟩

theorem anySuffix_iff (f : List Char → Bool) (s : List Char) :
    anySuffix f s = true ↔ ∃ t, t <:+ s ∧ f t = true := by
  induction s with
  | nil => simp [anySuffix]
  | cons x s ih =>
    simp only [anySuffix, Bool.or_eq_true, ih]
    constructor
    · rintro (h | ⟨t, ht, hf⟩)
      · exact ⟨_, List.suffix_refl _, h⟩
      · exact ⟨t, ht.trans (List.suffix_cons x s), hf⟩
    · rintro ⟨t, ht, hf⟩
      rcases List.suffix_cons_iff.mp ht with rfl | ht
      · exact Or.inl hf
      · exact Or.inr ⟨t, ht, hf⟩

theorem isInfix_iff (p s : List Char) : isInfix p s = true ↔ p <:+: s := by
  unfold isInfix
  rw [anySuffix_iff]
  constructor
  · rintro ⟨t, ⟨u, rfl⟩, hp⟩
    obtain ⟨v, rfl⟩ := List.isPrefixOf_iff_prefix.mp hp
    exact ⟨u, v, by simp⟩
  · rintro ⟨u, v, rfl⟩
    exact ⟨p ++ v, ⟨u, by simp⟩, List.isPrefixOf_iff_prefix.mpr ⟨v, rfl⟩⟩

theorem equalsBytes_suffixBytes (h n : List Nat) :
    equalsBytes byteEq (suffixBytes h n.length) n = n.isSuffixOf h := by
  unfold equalsBytes suffixBytes
  split
  · rename_i hl
    have : n.isSuffixOf h = false := by
      rw [Bool.eq_false_iff]; intro hp
      have := (List.isSuffixOf_iff_suffix.mp hp).length_le
      omega
    rw [this]
    cases n with
    | nil => simp at hl
    | cons a n => simp
  · rename_i hl
    have hlen : (h.drop (h.length - n.length)).length = n.length := by simp; omega
    rw [zipAll_byteEq_prefix _ _ (by omega)]
    simp only [hlen, beq_self_eq_true, Bool.true_and]
    apply Bool.eq_iff_iff.mpr
    rw [List.isPrefixOf_iff_prefix, List.isSuffixOf_iff_suffix]
    constructor
    · intro hp
      have : n = h.drop (h.length - n.length) := hp.eq_of_length (by omega)
      rw [this]
      exact List.drop_suffix _ _
    · rintro ⟨t, rfl⟩
      simp

/-! ## LIKE -/

def isSpecial (c : Char) : Bool := c == '%' || c == '_' || c == '\\'

theorem containsLikePattern_encodeCode (n : Nat) :
    containsLikePattern (encodeCode n) = (n == 37 || n == 95 || n == 92) := by
  unfold containsLikePattern encodeCode
  split
  · simp
  · have h : (n == 37) = false ∧ (n == 95) = false ∧ (n == 92) = false := by
      simp only [beq_eq_false_iff_ne]; omega
    rw [h.1, h.2.1, h.2.2]
    split
    · simp; omega
    split
    · simp; omega
    · simp; omega

theorem containsLikePattern_encodeChar (c : Char) :
    containsLikePattern (encodeChar c) = isSpecial c := by
  unfold encodeChar isSpecial
  rw [containsLikePattern_encodeCode]
  have e1 : (c == '%') = (c.toNat == 37) := by
    apply Bool.eq_iff_iff.mpr; simp [← Char.toNat_inj]
  have e2 : (c == '_') = (c.toNat == 95) := by
    apply Bool.eq_iff_iff.mpr; simp [← Char.toNat_inj]
  have e3 : (c == '\\') = (c.toNat == 92) := by
    apply Bool.eq_iff_iff.mpr; simp [← Char.toNat_inj]
  rw [e1, e2, e3]

theorem containsLikePattern_encode (p : List Char) :
    containsLikePattern (encode p) = p.any isSpecial := by
  induction p with
  | nil => rfl
  | cons c p ih =>
    have : containsLikePattern (encodeChar c ++ encode p) =
        (containsLikePattern (encodeChar c) || containsLikePattern (encode p)) := by
      simp [containsLikePattern]
    simp [encode, this, ih, containsLikePattern_encodeChar]

theorem tokenise_plain_append (q r : List Char) (hq : q.any isSpecial = false) :
    tokenise (q ++ r) = q.map Tok.lit ++ tokenise r := by
  induction q with
  | nil => rfl
  | cons c q ih =>
    simp only [List.any_cons, Bool.or_eq_false_iff] at hq
    have hc := hq.1
    simp only [isSpecial, Bool.or_eq_false_iff, beq_eq_false_iff_ne, ne_eq] at hc
    simp only [List.cons_append, List.map_cons]
    rw [tokenise.eq_def]
    simp [hc, ih hq.2]

theorem likeMatchG_lits (eqv : Char → Char → Bool) (q : List Char) (toks : List Tok) (s : List Char) :
    likeMatchG eqv (q.map Tok.lit ++ toks) s =
      (isPrefixG eqv q s && likeMatchG eqv toks (s.drop q.length)) := by
  induction q generalizing s with
  | nil => simp [isPrefixG]
  | cons c q ih =>
    cases s with
    | nil => simp [likeMatchG, isPrefixG]
    | cons x s => simp [likeMatchG, isPrefixG, ih, Bool.and_assoc]

theorem isPrefixG_beq (q s : List Char) : isPrefixG (· == ·) q s = q.isPrefixOf s := by
  induction q generalizing s with
  | nil => simp [isPrefixG]
  | cons c q ih =>
    cases s with
    | nil => simp [isPrefixG]
    | cons x s => simp [isPrefixG, ih, List.isPrefixOf]

theorem likeMatchG_many_nil (eqv : Char → Char → Bool) (s : List Char) :
    likeMatchG eqv [Tok.many] s = true := by
  simp only [likeMatchG]
  rw [anySuffix_iff]
  exact ⟨[], List.nil_suffix, rfl⟩

theorem eqG_eq_prefix_len (eqv : Char → Char → Bool) (q s : List Char) :
    eqG eqv q s = (isPrefixG eqv q s && (s.drop q.length).isEmpty) := by
  induction q generalizing s with
  | nil => cases s <;> simp [eqG, isPrefixG]
  | cons c q ih =>
    cases s with
    | nil => simp [eqG, isPrefixG]
    | cons x s => simp [eqG, isPrefixG, ih, Bool.and_assoc]

theorem eqG_beq (q s : List Char) : eqG (· == ·) q s = (q == s) := by
  induction q generalizing s with
  | nil => cases s <;> simp [eqG]
  | cons c q ih =>
    cases s with
    | nil => simp [eqG]
    | cons x s => simp [eqG, ih]

/-- no wildcard: LIKE is (pointwise) equality -/
theorem likeMatchG_plain (eqv : Char → Char → Bool) (q s : List Char) :
    likeMatchG eqv (q.map Tok.lit) s = eqG eqv q s := by
  have := likeMatchG_lits eqv q [] s
  simp only [List.append_nil] at this
  rw [this, eqG_eq_prefix_len]
  simp [likeMatchG]

/-- `q%`: prefix -/
theorem likeMatchG_prefix (eqv : Char → Char → Bool) (q s : List Char) :
    likeMatchG eqv (q.map Tok.lit ++ [Tok.many]) s = isPrefixG eqv q s := by
  rw [likeMatchG_lits, likeMatchG_many_nil, Bool.and_true]

/-- pointwise-related suffix test -/
def isSuffixG (eqv : Char → Char → Bool) (q s : List Char) : Bool := anySuffix (eqG eqv q) s

/-- `%q`: suffix -/
theorem likeMatchG_suffix (eqv : Char → Char → Bool) (q s : List Char) :
    likeMatchG eqv (Tok.many :: q.map Tok.lit) s = isSuffixG eqv q s := by
  simp only [likeMatchG, isSuffixG]
  congr 1
  funext t
  exact likeMatchG_plain eqv q t

theorem isSuffixG_beq (q s : List Char) : isSuffixG (· == ·) q s = q.isSuffixOf s := by
  apply Bool.eq_iff_iff.mpr
  unfold isSuffixG
  rw [anySuffix_iff, List.isSuffixOf_iff_suffix]
  constructor
  · rintro ⟨t, ht, he⟩
    rw [eqG_beq] at he
    rw [eq_of_beq he]; exact ht
  · intro h
    exact ⟨q, h, by rw [eqG_beq]; simp⟩

/-- `%q%`: infix -/
theorem likeMatchG_infix (eqv : Char → Char → Bool) (q s : List Char) :
    likeMatchG eqv (Tok.many :: (q.map Tok.lit ++ [Tok.many])) s = anySuffix (isPrefixG eqv q) s := by
  simp only [likeMatchG]
  congr 1
  funext t
  exact likeMatchG_prefix eqv q t

/-! ## regex translation -/

def conv : Tok → RxItem
  | .lit c => .lit c
  | .one => .any
  | .many => .star

theorem rxBody_eq (p : List Char) : rxBody p = (tokenise p).map conv := by
  fun_induction tokenise p <;> simp_all [rxBody, conv]

theorem rxMatchHere_conv (eqv : Char → Char → Bool) (toks : List Tok) (s : List Char) :
    rxMatchHere eqv (toks.map conv) true s = likeMatchG eqv toks s := by
  induction toks generalizing s with
  | nil => simp [rxMatchHere, likeMatchG]
  | cons t toks ih =>
    cases t with
    | lit c => cases s <;> simp [rxMatchHere, likeMatchG, conv, ih]
    | one => cases s <;> simp [rxMatchHere, likeMatchG, conv, ih]
    | many =>
      simp only [List.map_cons, conv, rxMatchHere, likeMatchG]
      congr 1
      funext t
      exact ih t

theorem anySuffix_true (s : List Char) : anySuffix (fun _ => true) s = true := by
  cases s <;> simp [anySuffix]

/-- a trailing `.*$` is the same as no end anchor at all -/
theorem rxMatchHere_star_end (eqv : Char → Char → Bool) (items : List RxItem) (s : List Char) :
    rxMatchHere eqv (items ++ [RxItem.star]) true s = rxMatchHere eqv items false s := by
  induction items generalizing s with
  | nil =>
    simp only [List.nil_append, rxMatchHere]
    simp
    rw [anySuffix_iff]
    exact ⟨[], List.nil_suffix, by simp⟩
  | cons it items ih =>
    cases it with
    | lit c => cases s <;> simp [rxMatchHere, ih]
    | any => cases s <;> simp [rxMatchHere, ih]
    | star =>
      simp only [List.cons_append, rxMatchHere]
      congr 1
      funext t
      exact ih t

theorem getLast?_eq_some_append {α} (l : List α) (a : α) (h : l.getLast? = some a) :
    l = l.dropLast ++ [a] :=
  by
  have hne : l ≠ [] := by rintro rfl; simp at h
  have h1 := List.dropLast_concat_getLast hne
  rw [List.getLast?_eq_some_getLast hne] at h
  simp only [Option.some.injEq] at h
  rw [h] at h1
  exact h1.symm

/-- the body of `regex_like` after the optional leading `%` -/
theorem regexBody_correct (eqv : Char → Char → Bool) (body s : List Char) :
    (if (rxBody body).getLast? = some RxItem.star
      then rxMatchHere eqv (rxBody body).dropLast false s
      else rxMatchHere eqv (rxBody body) true s) = likeMatchG eqv (tokenise body) s := by
  split
  · rename_i h
    rw [← rxMatchHere_star_end, ← getLast?_eq_some_append _ _ h, rxBody_eq, rxMatchHere_conv]
  · rw [rxBody_eq, rxMatchHere_conv]

theorem tokenise_percent (rest : List Char) : tokenise ('%' :: rest) = Tok.many :: tokenise rest := by
  simp [tokenise]

theorem regexLike_percent (rest : List Char) :
    regexLike ('%' :: rest) = regexTail false (rxBody rest) := rfl

theorem regexLike_other (p : List Char) (h : ∀ rest, p ≠ '%' :: rest) :
    regexLike p = regexTail true (rxBody p) := by
  unfold regexLike
  split
  · rename_i rest; exact absurd rfl (h rest)
  · rfl

theorem regexLike_isMatch (eqv : Char → Char → Bool) (p s : List Char) :
    (regexLike p).isMatch eqv s = likeMatchG eqv (tokenise p) s := by
  by_cases hp : ∃ rest, p = '%' :: rest
  · obtain ⟨rest, rfl⟩ := hp
    rw [tokenise_percent, regexLike_percent]
    simp only [likeMatchG, regexTail]
    split
    · rename_i h
      simp only [Rx.isMatch, Bool.false_eq_true, if_false]
      congr 1; funext t
      have := regexBody_correct eqv rest t
      simpa [h] using this
    · rename_i h
      simp only [Rx.isMatch, Bool.false_eq_true, if_false]
      congr 1; funext t
      have := regexBody_correct eqv rest t
      simpa [h] using this
  · have hp' : ∀ rest, p ≠ '%' :: rest := fun rest h => hp ⟨rest, h⟩
    rw [regexLike_other p hp']
    simp only [regexTail]
    have := regexBody_correct eqv p s
    split
    · rename_i h
      simpa [Rx.isMatch, h] using this
    · rename_i h
      simpa [Rx.isMatch, h] using this

open ArrowModel.Generated.C20

theorem tokenise_plain (p : List Char) (h : p.any isSpecial = false) : tokenise p = p.map Tok.lit := by
  have := tokenise_plain_append p [] h
  simpa [tokenise] using this

theorem dropEnd_eq (p : List Char) : dropEnd p = p.dropLast := by
  simp [dropEnd, LIKE_TRIM_END, List.dropLast_eq_take]

theorem dropStart_eq (p : List Char) : dropStart p = p.tail := by
  simp [dropStart, LIKE_TRIM_START]

theorem dropBoth_eq (p : List Char) : dropBoth p = p.dropLast.tail := by
  simp [dropBoth, LIKE_CONTAINS_TRIM_END, LIKE_CONTAINS_TRIM_START, List.dropLast_eq_take]

theorem dropEndG_eq (p : List Char) : dropEndG p = p.dropLast := by
  simp [dropEndG, LIKE_GUARD_STARTSWITH, List.dropLast_eq_take]

theorem dropStartG_eq (p : List Char) : dropStartG p = p.tail := by
  simp [dropStartG, LIKE_GUARD_ENDSWITH]

theorem dropBothG_eq (p : List Char) : dropBothG p = p.dropLast.tail := by
  simp [dropBothG, LIKE_GUARD_CONTAINS_END, LIKE_GUARD_CONTAINS_START, List.dropLast_eq_take]

theorem ilike_slices (p : List Char) :
    p.take (p.length - ILIKE_GUARD_STARTSWITH) = p.dropLast ∧ p.take (p.length - ILIKE_TRIM_END) = p.dropLast ∧
    p.drop ILIKE_GUARD_ENDSWITH = p.tail ∧ p.drop ILIKE_TRIM_START = p.tail := by
  simp [ILIKE_GUARD_STARTSWITH, ILIKE_TRIM_END, ILIKE_GUARD_ENDSWITH, ILIKE_TRIM_START, List.dropLast_eq_take]

theorem eval_eq (p s : List Char) :
    (Pred.eq p).eval (· == ·) s = (p == s) := by
  simp only [Pred.eval]
  apply Bool.eq_iff_iff.mpr
  simp only [Bool.and_eq_true, beq_iff_eq]
  constructor
  · rintro ⟨_, h⟩; exact (encode_inj h).symm
  · rintro rfl; simp

theorem eval_startsWith (q s : List Char) :
    (Pred.startsWith q).eval (· == ·) s = q.isPrefixOf s := by
  simp only [Pred.eval, bytesStartsWith_eq]
  apply Bool.eq_iff_iff.mpr
  rw [List.isPrefixOf_iff_prefix, List.isPrefixOf_iff_prefix]
  exact encode_prefix_iff q s

theorem eval_endsWith (q s : List Char) :
    (Pred.endsWith q).eval (· == ·) s = q.isSuffixOf s := by
  simp only [Pred.eval, bytesEndsWith_eq]
  apply Bool.eq_iff_iff.mpr
  rw [List.isSuffixOf_iff_suffix, List.isSuffixOf_iff_suffix]
  exact encode_suffix_iff q s

theorem eval_contains (q s : List Char) :
    (Pred.contains q).eval (· == ·) s = isInfix q s := by
  simp only [Pred.eval]
  apply Bool.eq_iff_iff.mpr
  rw [memmem_iff, isInfix_iff]
  exact encode_infix_iff q s

theorem like_no_wildcard (p s : List Char) (h : p.any isSpecial = false) :
    likeMatch (tokenise p) s = (p == s) := by
  rw [tokenise_plain p h]
  unfold likeMatch
  rw [likeMatchG_plain, eqG_beq]

theorem like_trailing_percent (q s : List Char) (h : q.any isSpecial = false) :
    likeMatch (tokenise (q ++ ['%'])) s = q.isPrefixOf s := by
  rw [tokenise_plain_append q _ h]
  unfold likeMatch
  rw [show tokenise ['%'] = [Tok.many] by simp [tokenise], likeMatchG_prefix, isPrefixG_beq]

theorem like_leading_percent (q s : List Char) (h : q.any isSpecial = false) :
    likeMatch (tokenise ('%' :: q)) s = q.isSuffixOf s := by
  rw [tokenise_percent, tokenise_plain q h]
  unfold likeMatch
  rw [likeMatchG_suffix, isSuffixG_beq]

theorem anySuffix_congr (f g : List Char → Bool) (s : List Char) (h : ∀ t, f t = g t) :
    anySuffix f s = anySuffix g s := by
  have : f = g := funext h
  rw [this]

theorem like_both_percent (q s : List Char) (h : q.any isSpecial = false) :
    likeMatch (tokenise ('%' :: (q ++ ['%']))) s = isInfix q s := by
  rw [tokenise_percent, tokenise_plain_append q _ h]
  unfold likeMatch
  rw [show tokenise ['%'] = [Tok.many] by simp [tokenise], likeMatchG_infix]
  unfold isInfix
  exact anySuffix_congr _ _ s (fun t => isPrefixG_beq q t)

theorem getLast?_beq_some {p : List Char} {c : Char} (h : (p.getLast? == some c) = true) :
    p = p.dropLast ++ [c] :=
  getLast?_eq_some_append p c (by simpa using h)

theorem head?_beq_some {p : List Char} {c : Char} (h : (p.head? == some c) = true) :
    p = c :: p.tail := by
  cases p with
  | nil => simp at h
  | cons d p => simp at h; simp [h]

theorem classifyLike_eval (p s : List Char) :
    (classifyLike p).eval (· == ·) s = likeMatch (tokenise p) s := by
  unfold classifyLike
  simp only [containsLikePattern_encode, dropEnd_eq, dropStart_eq, dropBoth_eq, dropEndG_eq,
    dropStartG_eq, dropBothG_eq]
  split
  · rename_i h
    simp only [Bool.not_eq_true', ] at h
    rw [eval_eq, like_no_wildcard p s (by simpa using h)]
  split
  · rename_i _ h
    simp only [Bool.and_eq_true, Bool.not_eq_true'] at h
    have hp := getLast?_beq_some h.1
    rw [eval_startsWith]
    conv => rhs; rw [hp]
    rw [like_trailing_percent _ _ (by simpa using h.2)]
  split
  · rename_i _ _ h
    simp only [Bool.and_eq_true, Bool.not_eq_true'] at h
    have hp := head?_beq_some h.1
    rw [eval_endsWith]
    conv => rhs; rw [hp]
    rw [like_leading_percent _ _ (by simpa using h.2)]
  split
  · rename_i _ h2 _ h
    simp only [Bool.and_eq_true, Bool.not_eq_true'] at h
    obtain ⟨⟨hh, hl⟩, hplain⟩ := h
    have hp1 := getLast?_beq_some hl
    have hp2 : p.dropLast = '%' :: p.dropLast.tail := by
      cases hd : p.dropLast with
      | nil =>
        exfalso
        rw [hd] at hp1
        apply h2
        rw [hp1]; simp
      | cons c r =>
        rw [hd] at hp1
        rw [hp1] at hh
        simp at hh
        simp [hh]
    rw [eval_contains]
    conv => rhs; rw [hp1, hp2]
    rw [List.cons_append, like_both_percent _ _ (by simpa using hplain)]
  · unfold likeMatch
    simp only [Pred.eval]
    exact regexLike_isMatch _ p s



/-! ## substring: char-boundary check ⇒ valid UTF-8 -/

theorem boundary_split (s : List Char) (i : Nat) (hi : i ≤ (encode s).length)
    (h : isCharBoundary (encode s) i = true) :
    ∃ s1 s2, s = s1 ++ s2 ∧ (encode s).take i = encode s1 ∧ (encode s).drop i = encode s2 := by
  apply encode_sync s _ _ (List.take_append_drop i (encode s))
  unfold isCharBoundary at h
  split at h
  · rename_i h0; subst h0
    simpa using encode_lead_or_nil s
  split at h
  · left
    apply List.drop_eq_nil_of_le
    omega
  · rename_i _ hlt
    right
    have hlt' : i < (encode s).length := by omega
    refine ⟨(encode s)[i], (encode s).drop (i + 1), (List.drop_eq_getElem_cons hlt'), ?_⟩
    simp only [List.getD_eq_getElem?_getD, List.getElem?_eq_getElem hlt', Option.getD_some,
      Bool.or_eq_true, decide_eq_true_eq] at h
    unfold isContB
    omega

theorem boundary_take (v : List Nat) (st e : Nat) (he : e ≤ v.length) (hse : st ≤ e)
    (h : isCharBoundary v st = true) : isCharBoundary (v.take e) st = true := by
  unfold isCharBoundary at h ⊢
  by_cases h0 : st = 0
  · simp [h0]
  · simp only [h0, if_false] at h ⊢
    have hl : (v.take e).length = e := by simp; omega
    by_cases h1 : st = e
    · simp [hl, h1]
    · have : st < e := by omega
      have h2 : ¬ st ≥ v.length := by omega
      have h3 : ¬ st ≥ (v.take e).length := by omega
      simp only [h2, h3, if_false] at h ⊢
      simpa [List.getD_eq_getElem?_getD, List.getElem?_take, this] using h

/-- a slice between two character boundaries is the encoding of a run of characters -/
theorem slice_valid (s : List Char) (st e : Nat) (he : e ≤ (encode s).length)
    (hst : isCharBoundary (encode s) st = true) (hen : isCharBoundary (encode s) e = true) :
    ∃ m, ((encode s).take e).drop st = encode m ∧ m <:+: s := by
  by_cases hse : st ≤ e
  · obtain ⟨s1, s2, e1, e2, _⟩ := boundary_split s e he hen
    have hb := boundary_take (encode s) st e he hse hst
    rw [e2] at hb
    have hl : (encode s1).length = e := by rw [← e2]; simp; omega
    obtain ⟨a, m, f1, _, f3⟩ := boundary_split s1 st (by omega) hb
    refine ⟨m, by rw [e2, f3], ?_⟩
    rw [e1, f1]
    exact ⟨a, s2, rfl⟩
  · refine ⟨[], ?_, List.nil_infix⟩
    simp only [encode]
    apply List.drop_eq_nil_of_le
    simp; omega

theorem isCharBoundary_zero (v : List Nat) : isCharBoundary v 0 = true := by simp [isCharBoundary]
theorem isCharBoundary_length (v : List Nat) : isCharBoundary v v.length = true := by
  unfold isCharBoundary; split <;> simp



theorem subStart_eq_clamp (n : Nat) (start : Int) : subStart n start = clampStart n start := by
  unfold subStart clampStart pairAt
  simp only [SUBSTR_POS_BASE, SUBSTR_POS_CLAMP, SUBSTR_NEG_BASE, if_true, Nat.succ_ne_zero, if_false]
  split <;> split <;> (try split) <;> omega

theorem subEnd_eq (n st : Nat) (len : Option Nat) :
    subEnd n st len = match len with | some l => min (l + st) n | none => n := by
  unfold subEnd pairAt
  cases len <;> simp [SUBSTR_END_CLAMP]

theorem subEnd_le (n st : Nat) (len : Option Nat) : subEnd n st len ≤ n := by
  rw [subEnd_eq]; cases len <;> simp only [] <;> omega

theorem byteSubstring_valid (s : List Char) (start : Int) (len : Option Nat) (r : List Nat)
    (h : byteSubstring true (encode s) start len = .ok r) :
    ∃ m, r = encode m ∧ m <:+: s := by
  unfold byteSubstring at h
  simp only [Bool.not_true, Bool.or_false] at h
  split at h
  · rename_i hok
    simp only [SubRes.ok.injEq] at h
    subst h
    simp only [Bool.and_eq_true, Bool.or_eq_true, decide_eq_true_eq] at hok
    obtain ⟨hs, he⟩ := hok
    apply slice_valid _ _ _ (subEnd_le _ _ _)
    · rcases hs with hs | hs
      · subst hs; simp [subStart, isCharBoundary_zero]
      · exact hs
    · cases len with
      | none => simp [subEnd_eq, isCharBoundary_length]
      | some l => simpa using he
  · simp at h

/-- the clamped byte range of the specification -/
theorem byteSubstring_eq_spec (check : Bool) (v : List Nat) (start : Int) (len : Option Nat)
    (r : List Nat) (h : byteSubstring check v start len = .ok r) :
    r = substrSpec v start len := by
  unfold byteSubstring at h
  simp only [] at h
  split at h
  · simp only [SubRes.ok.injEq] at h
    subst h
    unfold substrSpec
    rw [subStart_eq_clamp]
    cases len with
    | none =>
      simp only [subEnd_eq]
      rw [List.take_of_length_le (by simp)]
    | some l =>
      simp only [subEnd_eq]
      rw [List.drop_take]
      by_cases hc : clampStart v.length start ≤ v.length
      · by_cases hl : l + clampStart v.length start ≤ v.length
        · congr 1; omega
        · rw [List.take_of_length_le (by simp; omega), List.take_of_length_le (by simp; omega)]
      · exfalso; apply hc; unfold clampStart; split <;> omega
  · simp at h



/-! ## the StringView arms agree with the generic arms, for any byte kernel -/

theorem zipAll_take (k : Nat → Nat → Bool) (h n : List Nat) :
    zipAll k (h.take n.length) n = zipAll k h n := by
  induction n generalizing h with
  | nil => cases h <;> simp [zipAll]
  | cons a n ih => cases h <;> simp [zipAll, ih]

theorem zipAll_eq_all_zip (k : Nat → Nat → Bool) (a b : List Nat) :
    zipAll k a b = (a.zip b).all (fun p => k p.1 p.2) := by
  induction a generalizing b with
  | nil => simp [zipAll]
  | cons x a ih => cases b <;> simp [zipAll, ih]

theorem zipAll_append (k : Nat → Nat → Bool) (a x b y : List Nat) (h : a.length = b.length) :
    zipAll k (a ++ x) (b ++ y) = (zipAll k a b && zipAll k x y) := by
  induction a generalizing b with
  | nil => cases b <;> simp_all [zipAll]
  | cons c a ih =>
    cases b with
    | nil => simp at h
    | cons d b => simp [zipAll, ih b (by simpa using h), Bool.and_assoc]

theorem zipAll_reverse (k : Nat → Nat → Bool) (a b : List Nat) (h : a.length = b.length) :
    zipAll k a.reverse b.reverse = zipAll k a b := by
  induction a generalizing b with
  | nil => cases b <;> simp_all [zipAll]
  | cons c a ih =>
    cases b with
    | nil => simp at h
    | cons d b =>
      simp only [List.reverse_cons]
      rw [zipAll_append _ _ _ _ _ (by simpa using h), ih b (by simpa using h)]
      simp [zipAll, Bool.and_comm]

theorem zipAll_append_left (k : Nat → Nat → Bool) (a x b : List Nat) (h : a.length = b.length) :
    zipAll k (a ++ x) b = zipAll k a b := by
  have := zipAll_append k a x b [] h
  simp only [List.append_nil] at this
  rw [this]
  cases x <;> simp [zipAll]

theorem equalsBytes_prefix_gen (k : Nat → Nat → Bool) (h n : List Nat) :
    equalsBytes k (prefixBytes h n.length) n = bytesStartsWith k h n := by
  unfold equalsBytes prefixBytes bytesStartsWith
  by_cases hl : h.length < n.length
  · have : n.length > h.length := hl
    simp only [hl, if_true]
    cases n with
    | nil => simp at hl
    | cons a n => simp
  · have h1 : ¬ n.length > h.length := by omega
    have hlen : (h.take n.length).length = n.length := by simp; omega
    simp only [hl, if_false, hlen, beq_self_eq_true, Bool.true_and, zipAll_take]

theorem equalsBytes_suffix_gen (k : Nat → Nat → Bool) (h n : List Nat) :
    equalsBytes k (suffixBytes h n.length) n = bytesEndsWith k h n := by
  unfold equalsBytes suffixBytes bytesEndsWith
  by_cases hl : h.length < n.length
  · have : n.length > h.length := hl
    simp only [hl, if_true]
    cases n with
    | nil => simp at hl
    | cons a n => simp
  · have h1 : ¬ n.length > h.length := by omega
    have hlen : (h.drop (h.length - n.length)).length = n.length := by simp; omega
    simp only [hl, if_false, hlen, beq_self_eq_true, Bool.true_and]
    conv => rhs; rw [← List.take_append_drop (h.length - n.length) h, List.reverse_append]
    rw [zipAll_append_left _ _ _ _ (by simp; omega), zipAll_reverse _ _ _ hlen]

theorem evalView_eq_eval (eqv : Char → Char → Bool) (pr : Pred) (h : List Char) :
    pr.evalView eqv h = pr.eval eqv h := by
  cases pr <;> simp [Pred.evalView, Pred.eval, equalsBytes_prefix_gen, equalsBytes_suffix_gen]



/-! ## ASCII case-insensitive fast paths -/

def isAsciiStr (s : List Char) : Bool := s.all (fun c => c.toNat < 128)

theorem bytesAscii_encodeCode (n : Nat) : bytesAscii (encodeCode n) = decide (n < 128) := by
  unfold bytesAscii encodeCode
  split
  · simp [*]
  · rename_i h
    have : decide (n < 128) = false := by simp; omega
    rw [this]
    split
    · simp
    split
    · simp
    · simp

theorem bytesAscii_encode (s : List Char) : bytesAscii (encode s) = isAsciiStr s := by
  induction s with
  | nil => rfl
  | cons c s ih =>
    have : bytesAscii (encodeChar c ++ encode s) = (bytesAscii (encodeChar c) && bytesAscii (encode s)) := by
      simp [bytesAscii]
    rw [encode, this, ih]
    simp [encodeChar, bytesAscii_encodeCode, isAsciiStr]

theorem encode_ascii (s : List Char) (h : isAsciiStr s = true) : encode s = s.map Char.toNat := by
  induction s with
  | nil => rfl
  | cons c s ih =>
    simp only [isAsciiStr, List.all_cons, Bool.and_eq_true, decide_eq_true_eq] at h
    have hs : isAsciiStr s = true := by simpa [isAsciiStr] using h.2
    simp [encode, encodeChar, encodeCode, h.1, ih hs]

theorem char_le_iff (a b : Char) : a ≤ b ↔ a.toNat ≤ b.toNat := by
  rw [Char.le_def]
  exact UInt32.le_iff_toNat_le

theorem ofNat_toNat (n : Nat) (hv : n.isValidChar) : (Char.ofNat n).toNat = n := by
  unfold Char.ofNat
  rw [dif_pos hv]
  unfold Char.ofNatAux Char.toNat
  simp [UInt32.toNat_ofNatLT]

theorem asciiLower_toNat (c : Char) : (asciiLower c).toNat = asciiLowerByte c.toNat := by
  unfold asciiLower asciiLowerByte
  by_cases h : 'A' ≤ c ∧ c ≤ 'Z'
  · have h' : 65 ≤ c.toNat ∧ c.toNat ≤ 90 := by
      rw [char_le_iff, char_le_iff] at h; exact h
    rw [if_pos h, if_pos h']
    have hv : (c.toNat + 32).isValidChar := by
      unfold Nat.isValidChar; omega
    exact ofNat_toNat _ hv
  · have h' : ¬ (65 ≤ c.toNat ∧ c.toNat ≤ 90) := by
      rw [char_le_iff, char_le_iff] at h; exact h
    rw [if_neg h, if_neg h']

theorem asciiFoldEq_bytes (a b : Char) :
    asciiFoldEq a b = byteEqIgnoreAsciiCase a.toNat b.toNat := by
  unfold asciiFoldEq byteEqIgnoreAsciiCase
  rw [← asciiLower_toNat, ← asciiLower_toNat]
  apply Bool.eq_iff_iff.mpr
  simp [Char.toNat_inj]

theorem asciiFoldEq_comm (a b : Char) : asciiFoldEq a b = asciiFoldEq b a := by
  unfold asciiFoldEq; exact BEq.comm



theorem zipAll_fold (q s : List Char) :
    zipAll byteEqIgnoreAsciiCase (s.map Char.toNat) (q.map Char.toNat) =
      (List.zipWith (fun a b => asciiFoldEq a b) q s).all id := by
  induction q generalizing s with
  | nil => cases s <;> simp [zipAll]
  | cons a q ih =>
    cases s with
    | nil => simp [zipAll]
    | cons b s =>
      simp [zipAll, ih, asciiFoldEq_bytes b a, asciiFoldEq_comm a b]

theorem isPrefixG_zip (eqv : Char → Char → Bool) (q s : List Char) :
    isPrefixG eqv q s = (decide (q.length ≤ s.length) && (List.zipWith (fun a b => eqv a b) q s).all id) := by
  induction q generalizing s with
  | nil => simp [isPrefixG]
  | cons a q ih =>
    cases s with
    | nil => simp [isPrefixG]
    | cons b s =>
      simp only [isPrefixG, ih, List.length_cons, Nat.add_le_add_iff_right, List.zipWith_cons_cons,
        List.all_cons, id]
      cases eqv a b <;> simp

theorem eqG_zip (eqv : Char → Char → Bool) (q s : List Char) :
    eqG eqv q s = (decide (q.length = s.length) && (List.zipWith (fun a b => eqv a b) q s).all id) := by
  induction q generalizing s with
  | nil => cases s <;> simp [eqG]
  | cons a q ih =>
    cases s with
    | nil => simp [eqG]
    | cons b s =>
      simp only [eqG, ih, List.length_cons, Nat.add_right_cancel_iff, List.zipWith_cons_cons,
        List.all_cons, id]
      cases eqv a b <;> simp

/-- `IStartsWithAscii` on ASCII strings = prefix up to ASCII case -/
theorem istartsWith_ascii (q s : List Char) (hq : isAsciiStr q = true) (hs : isAsciiStr s = true) :
    bytesStartsWith byteEqIgnoreAsciiCase (encode s) (encode q) = isPrefixG asciiFoldEq q s := by
  rw [encode_ascii q hq, encode_ascii s hs, isPrefixG_zip]
  unfold bytesStartsWith
  simp only [List.length_map, zipAll_fold]
  by_cases h : q.length > s.length
  · have : ¬ q.length ≤ s.length := by omega
    simp [h, this]
  · have : q.length ≤ s.length := by omega
    simp [h, this]

/-- `IEqAscii` (`str::eq_ignore_ascii_case`) on ASCII strings -/
theorem ieq_ascii (q s : List Char) (hq : isAsciiStr q = true) (hs : isAsciiStr s = true) :
    strEqIgnoreAsciiCase (encode s) (encode q) = eqG asciiFoldEq q s := by
  rw [encode_ascii q hq, encode_ascii s hs, eqG_zip]
  unfold strEqIgnoreAsciiCase
  simp only [List.length_map, zipAll_fold]
  congr 1
  apply Bool.eq_iff_iff.mpr
  simp only [beq_iff_eq, decide_eq_true_eq]
  exact eq_comm

theorem eqG_length (eqv : Char → Char → Bool) (q t : List Char) (h : eqG eqv q t = true) :
    q.length = t.length := by
  rw [eqG_zip] at h
  simp only [Bool.and_eq_true, decide_eq_true_eq] at h
  exact h.1

theorem isSuffixG_drop (eqv : Char → Char → Bool) (q s : List Char) :
    isSuffixG eqv q s = (decide (q.length ≤ s.length) && eqG eqv q (s.drop (s.length - q.length))) := by
  apply Bool.eq_iff_iff.mpr
  unfold isSuffixG
  rw [anySuffix_iff]
  simp only [Bool.and_eq_true, decide_eq_true_eq]
  constructor
  · rintro ⟨t, ht, he⟩
    have hl := eqG_length _ _ _ he
    have hle := ht.length_le
    have := List.suffix_iff_eq_drop.mp ht
    rw [hl, ← this]
    exact ⟨by omega, he⟩
  · rintro ⟨_, he⟩
    exact ⟨_, List.drop_suffix _ _, he⟩

theorem isAsciiStr_drop (s : List Char) (n : Nat) (h : isAsciiStr s = true) :
    isAsciiStr (s.drop n) = true := by
  unfold isAsciiStr at h ⊢
  rw [List.all_eq_true] at h ⊢
  intro c hc
  exact h c (List.mem_of_mem_drop hc)

/-- `IEndsWithAscii` on ASCII strings = suffix up to ASCII case -/
theorem iendsWith_ascii (q s : List Char) (hq : isAsciiStr q = true) (hs : isAsciiStr s = true) :
    bytesEndsWith byteEqIgnoreAsciiCase (encode s) (encode q) = isSuffixG asciiFoldEq q s := by
  rw [← equalsBytes_suffix_gen, isSuffixG_drop]
  rw [encode_ascii q hq, encode_ascii s hs]
  unfold equalsBytes suffixBytes
  simp only [List.length_map]
  by_cases h : s.length < q.length
  · have : ¬ q.length ≤ s.length := by omega
    simp only [h, if_true, this, decide_false, Bool.false_and]
    cases q with
    | nil => simp at h
    | cons a q => simp
  · have h2 : q.length ≤ s.length := by omega
    simp only [h, if_false, h2, decide_true, Bool.true_and]
    rw [← List.map_drop, zipAll_fold, eqG_zip]
    simp only [List.length_map, List.length_drop]
    congr 1
    apply Bool.eq_iff_iff.mpr
    simp only [beq_iff_eq, decide_eq_true_eq]
    omega



theorem anySuffix_congr' (f g : List Char → Bool) (s : List Char) (h : ∀ t, t <:+ s → f t = g t) :
    anySuffix f s = anySuffix g s := by
  induction s with
  | nil => simp [anySuffix, h [] (List.suffix_refl _)]
  | cons x s ih =>
    simp only [anySuffix]
    rw [h _ (List.suffix_refl _), ih (fun t ht => h t (ht.trans (List.suffix_cons x s)))]

/-- LIKE only looks at the relation on (pattern literal, subject character) pairs -/
theorem likeMatchG_congr (e1 e2 : Char → Char → Bool) (toks : List Tok) (s : List Char)
    (h : ∀ c, Tok.lit c ∈ toks → ∀ b ∈ s, e1 c b = e2 c b) :
    likeMatchG e1 toks s = likeMatchG e2 toks s := by
  induction toks generalizing s with
  | nil => simp [likeMatchG]
  | cons t toks ih =>
    have ih' : ∀ s', (∀ b ∈ s', b ∈ s) → likeMatchG e1 toks s' = likeMatchG e2 toks s' :=
      fun s' hs' => ih s' (fun c hc b hb => h c (List.mem_cons_of_mem _ hc) b (hs' b hb))
    cases t with
    | lit c =>
      cases s with
      | nil => simp [likeMatchG]
      | cons x s =>
        simp only [likeMatchG]
        rw [h c (by simp) x (by simp), ih' s (fun b hb => by simp [hb])]
    | one =>
      cases s with
      | nil => simp [likeMatchG]
      | cons x s =>
        simp only [likeMatchG]
        exact ih' s (fun b hb => by simp [hb])
    | many =>
      simp only [likeMatchG]
      apply anySuffix_congr'
      intro t ht
      exact ih' t (fun b hb => ht.subset hb)

theorem lit_mem_tokenise (p : List Char) (c : Char) (h : Tok.lit c ∈ tokenise p) : c ∈ p := by
  fun_induction tokenise p <;> simp_all <;> grind



theorem isAsciiStr_of_subset (q p : List Char) (hsub : ∀ c ∈ q, c ∈ p) (h : isAsciiStr p = true) :
    isAsciiStr q = true := by
  unfold isAsciiStr at h ⊢
  rw [List.all_eq_true] at h ⊢
  exact fun c hc => h c (hsub c hc)

theorem isAsciiStr_mem (p : List Char) (h : isAsciiStr p = true) (c : Char) (hc : c ∈ p) :
    c.toNat < 128 := by
  unfold isAsciiStr at h
  rw [List.all_eq_true] at h
  simpa using h c hc

theorem like_fold_ascii (eqv : Char → Char → Bool)
    (hfold : ∀ a b : Char, a.toNat < 128 → b.toNat < 128 → eqv a b = asciiFoldEq a b)
    (p s : List Char) (hp : isAsciiStr p = true) (hs : isAsciiStr s = true) :
    likeMatchG eqv (tokenise p) s = likeMatchG asciiFoldEq (tokenise p) s :=
  likeMatchG_congr _ _ _ _ (fun c hc b hb =>
    hfold c b (isAsciiStr_mem p hp c (lit_mem_tokenise p c hc)) (isAsciiStr_mem s hs b hb))

theorem classifyILike_fast_ascii (eqv : Char → Char → Bool) (p s : List Char)
    (hp : isAsciiStr p = true) (hs : isAsciiStr s = true)
    (hrx : (regexLike p).isMatch eqv s = likeMatchG asciiFoldEq (tokenise p) s) :
    (classifyILike p true).eval eqv s = likeMatchG asciiFoldEq (tokenise p) s := by
  unfold classifyILike
  simp only [containsLikePattern_encode, (ilike_slices p).1, (ilike_slices p).2.1,
    (ilike_slices p).2.2.1, (ilike_slices p).2.2.2, bytesAscii_encode, hp, Bool.and_self, if_true]
  split
  · rename_i h
    simp only [Bool.not_eq_true'] at h
    simp only [Pred.eval]
    rw [ieq_ascii p s hp hs, tokenise_plain p (by simpa using h), likeMatchG_plain]
  split
  · rename_i _ h
    simp only [Bool.and_eq_true, Bool.not_eq_true'] at h
    have hpe := getLast?_beq_some h.1.1
    have hq : isAsciiStr p.dropLast = true :=
      isAsciiStr_of_subset _ p (fun c hc => List.dropLast_subset p hc) hp
    simp only [Pred.eval]
    rw [istartsWith_ascii _ s hq hs]
    conv => rhs; rw [hpe]
    rw [tokenise_plain_append _ _ (by simpa using h.2),
      show tokenise ['%'] = [Tok.many] by simp [tokenise], likeMatchG_prefix]
  split
  · rename_i _ _ h
    simp only [Bool.and_eq_true, Bool.not_eq_true'] at h
    have hpe := head?_beq_some h.1
    have hq : isAsciiStr p.tail = true :=
      isAsciiStr_of_subset _ p (fun c hc => List.mem_of_mem_tail hc) hp
    simp only [Pred.eval]
    rw [iendsWith_ascii _ s hq hs]
    conv => rhs; rw [hpe]
    rw [tokenise_percent, tokenise_plain _ (by simpa using h.2), likeMatchG_suffix]
  · simp only [Pred.eval]
    exact hrx



/-! ## substring_by_char -/

theorem encode_take_drop (s : List Char) (i : Nat) :
    (encode s).take (byteLen (s.take i)) = encode (s.take i) ∧
    (encode s).drop (byteLen (s.take i)) = encode (s.drop i) := by
  have h : encode s = encode (s.take i) ++ encode (s.drop i) := by
    rw [← encode_append, List.take_append_drop]
  unfold byteLen
  constructor
  · rw [h, List.take_left']; rfl
  · rw [h, List.drop_left']; rfl

theorem byteLen_le (s : List Char) (i : Nat) : byteLen (s.take i) ≤ byteLen s := by
  have h : encode s = encode (s.take i) ++ encode (s.drop i) := by
    rw [← encode_append, List.take_append_drop]
  unfold byteLen; rw [h]; simp

theorem length_le_byteLen (s : List Char) : s.length ≤ byteLen s := by
  induction s with
  | nil => simp [byteLen, encode]
  | cons c s ih =>
    obtain ⟨l, cs, hc, _⟩ := encodeChar_shape c
    simp only [byteLen, encode, List.length_append, hc, List.length_cons] at ih ⊢
    omega

/-- slicing the encoding between the byte offsets of two character positions -/
theorem slice_chars (s : List Char) (a l : Nat) :
    ((encode s).take (byteLen (s.take a) + byteLen ((s.drop a).take l))).drop (byteLen (s.take a)) =
      encode ((s.drop a).take l) := by
  have h : encode s = encode (s.take a) ++ (encode ((s.drop a).take l) ++ encode ((s.drop a).drop l)) := by
    rw [← encode_append, ← encode_append, List.take_append_drop, List.take_append_drop]
  unfold byteLen
  rw [h, List.take_append, List.drop_append]
  simp

theorem clampStart_le (n : Nat) (start : Int) : clampStart n start ≤ n := by
  unfold clampStart; split <;> omega

theorem utf8StartIdx_eq (n : Nat) (start : Int) : utf8StartIdx n start = clampStart n start := by
  unfold utf8StartIdx clampStart
  generalize hc : SUBSTRC_NTH_BACK_ADJ = c
  have h1 : c = 1 := by rw [← hc]; rfl
  subst h1
  split
  · split <;> omega
  · simp only []
    split <;> omega

/-- the UTF-8 path (`utf8_bounds`) -/
theorem substringByChar_utf8 (s : List Char) (start : Int) (len : Option Nat) :
    substringByChar false s start len = encode (substrChars s start len) := by
  unfold substringByChar utf8Bounds substrChars substrSpec
  simp only [Bool.false_eq_true, if_false]
  rw [utf8StartIdx_eq]
  generalize clampStart s.length start = a
  cases len with
  | none =>
    simp only []
    rw [List.take_of_length_le (show (encode s).length ≤ byteLen s from Nat.le_refl _)]
    exact (encode_take_drop s a).2
  | some l =>
    simp only []
    by_cases h1 : l ≥ byteLen s - byteLen (s.take a)
    · simp only [h1, if_true]
      rw [List.take_of_length_le (show (encode s).length ≤ byteLen s from Nat.le_refl _), (encode_take_drop s a).2]
      have : (s.drop a).length ≤ l := by
        have h2 := length_le_byteLen (s.drop a)
        have h3 : byteLen s = byteLen (s.take a) + byteLen (s.drop a) := by
          unfold byteLen
          conv => lhs; rw [← List.take_append_drop a s, encode_append]
          simp
        omega
      rw [List.take_of_length_le this]
    · simp only [h1, if_false]
      by_cases h2 : l < (s.drop a).length
      · simp only [h2, if_true]
        exact slice_chars s a l
      · simp only [h2, if_false]
        rw [List.take_of_length_le (show (encode s).length ≤ byteLen s from Nat.le_refl _), (encode_take_drop s a).2,
          List.take_of_length_le (show (s.drop a).length ≤ l by omega)]



/-- the ASCII fast path (`ascii_bounds`): byte arithmetic is character arithmetic -/
theorem substringByChar_ascii (s : List Char) (start : Int) (len : Option Nat)
    (hs : isAsciiStr s = true) :
    substringByChar true s start len = encode (substrChars s start len) := by
  have hsub : isAsciiStr (substrChars s start len) = true := by
    apply isAsciiStr_of_subset _ s _ hs
    intro c hc
    unfold substrChars substrSpec at hc
    cases len with
    | none => exact List.mem_of_mem_drop hc
    | some l => exact List.mem_of_mem_drop (List.mem_of_mem_take hc)
  rw [encode_ascii _ hsub]
  unfold substringByChar asciiBounds substrChars substrSpec
  simp only [if_true, encode_ascii s hs, List.length_map]
  have hidx : (if start ≥ 0 then min start.toNat s.length else s.length - (-start).toNat) =
      clampStart s.length start := by
    unfold clampStart; split <;> omega
  rw [hidx]
  have hle := clampStart_le s.length start
  generalize clampStart s.length start = a at hle ⊢
  cases len with
  | none =>
    simp only []
    rw [List.take_of_length_le (show (s.map Char.toNat).length ≤ s.length by simp), List.map_drop]
  | some l =>
    simp only []
    rw [← List.map_take, ← List.map_drop, List.drop_take]
    by_cases h : a + l ≤ s.length
    · rw [Nat.min_eq_left h]; congr 2; omega
    · rw [Nat.min_eq_right (by omega)]
      rw [List.take_of_length_le (show (s.drop a).length ≤ s.length - a by simp),
        List.take_of_length_le (show (s.drop a).length ≤ l by simp; omega)]

theorem concatModel_eq (a b : List Char) : concatModel a b = encode (a ++ b) := by
  simp [concatModel, encode_append]

theorem bitLengthModel_eq (s : List Char) : bitLengthModel s = bitLength s := by
  simp [bitLengthModel, bitLength, BIT_LENGTH_FACTOR, Nat.mul_comm]



/-! ## the regex text -/

theorem suffix2_append (x : List Char) (a b : Char) :
    ['.', '*'].isSuffixOf (x ++ [a, b]) = (a == '.' && b == '*') := by
  apply Bool.eq_iff_iff.mpr
  rw [List.isSuffixOf_iff_suffix]
  constructor
  · rintro ⟨t, ht⟩
    have := congrArg List.reverse ht
    simp at this
    simp only [Bool.and_eq_true, beq_iff_eq]
    exact ⟨this.2.1.symm, this.1.symm⟩
  · intro h
    simp only [Bool.and_eq_true, beq_iff_eq] at h
    exact ⟨x, by rw [h.1, h.2]⟩

theorem suffix1_ne (x : List Char) (b : Char) (hb : b ≠ '*') :
    ['.', '*'].isSuffixOf (x ++ [b]) = false := by
  rw [Bool.eq_false_iff]
  intro h
  rw [List.isSuffixOf_iff_suffix] at h
  obtain ⟨t, ht⟩ := h
  have := congrArg List.reverse ht
  simp at this
  exact hb this.1.symm

/-- the textual test `result.ends_with(".*")` of `regex_like` is true exactly when the last
translated item is the `.*` of a `%` (a literal `*` is always rendered as `\*`) -/
theorem render_endsWith_dotStar (pre : List Char) (hpre : pre = [] ∨ pre = ['^']) (items : List RxItem) :
    ['.', '*'].isSuffixOf (renderBody pre items) = (items.getLast? == some RxItem.star) := by
  unfold renderBody
  rcases List.eq_nil_or_concat items with rfl | ⟨init, last, rfl⟩
  · rcases hpre with rfl | rfl <;> decide
  · rw [List.concat_eq_append]
    have hl : (init ++ [last]).getLast? = some last := by simp
    rw [hl]
    simp only [List.flatMap_append, List.flatMap_cons, List.flatMap_nil, List.append_nil]
    rw [← List.append_assoc]
    cases last with
    | star => simp only [renderItem]; rw [suffix2_append]; rfl
    | any => simp only [renderItem]; rw [suffix1_ne _ _ (by decide)]; rfl
    | lit c =>
      simp only [renderItem]
      split
      · rename_i hm
        rw [suffix2_append]
        simp
      · rename_i hm
        rw [suffix1_ne]
        · simp
        · rintro rfl
          exact hm (by decide)



/-! ## regexp_is_match: the cache never changes a row's answer -/

section
variable {R : Type} (compile : List Char → Option R) (isMatch : R → List Char → Bool)

theorem rxLoop_eq_spec (rows : List RxRow) (cache : List (List Char × R))
    (hc : ∀ k re, cacheGet cache k = some re → compile k = some re) :
    rxLoop compile isMatch rows cache = rxSpecAll compile isMatch rows := by
  induction rows generalizing cache with
  | nil => rfl
  | cons row rest ih =>
    unfold rxLoop rxSpecAll rxRowSpec
    cases hv : row.value with
    | none => simp [ih cache hc]
    | some v =>
      cases hp : row.pattern with
      | none => simp [ih cache hc]
      | some p =>
        simp only []
        by_cases hcp : completePattern p row.flag = []
        · simp [hcp, ih cache hc]
        · simp only [hcp, if_false]
          cases hg : cacheGet cache (completePattern p row.flag) with
          | some re =>
            simp only [hc _ _ hg, ih cache hc]
          | none =>
            cases hcomp : compile (completePattern p row.flag) with
            | none => rfl
            | some re =>
              simp only []
              rw [ih]
              intro k re' hk
              unfold cacheGet at hk
              simp only [List.find?_cons] at hk
              by_cases hkeq : (completePattern p row.flag == k) = true
              · simp only [hkeq] at hk
                simp only [Option.map_some, Option.some.injEq] at hk
                rw [← eq_of_beq hkeq, ← hk]; exact hcomp
              · simp only [hkeq] at hk
                exact hc k re' hk

theorem rxSpecAll_eq_some_iff (rows : List RxRow) (out : List (Option Bool)) :
    rxSpecAll compile isMatch rows = some out ↔ rows.map (rxRowSpec compile isMatch) = out.map some := by
  induction rows generalizing out with
  | nil => cases out <;> simp [rxSpecAll]
  | cons row rest ih =>
    unfold rxSpecAll
    cases h : rxRowSpec compile isMatch row with
    | none => cases out <;> simp [h]
    | some o =>
      cases out with
      | nil => simp [h]
      | cons o' out' =>
        simp only [Option.map_eq_some_iff, List.cons.injEq, List.map_cons, h, Option.some.injEq]
        constructor
        · rintro ⟨a, ha, rfl, rfl⟩
          exact ⟨rfl, (ih a).mp ha⟩
        · rintro ⟨rfl, h2⟩
          exact ⟨out', (ih out').mpr h2, rfl, rfl⟩

theorem regexpIsMatchModel_eq_spec (rows : List RxRow) :
    regexpIsMatchModel compile isMatch rows = rxSpecAll compile isMatch rows :=
  rxLoop_eq_spec compile isMatch rows [] (fun k re h => by simp [cacheGet] at h)

theorem rxSpec_rows_independent (rows : List RxRow) (out : List (Option Bool))
    (h : rxSpecAll compile isMatch rows = some out) :
    out.length = rows.length ∧
    ∀ i (h1 : i < rows.length) (h2 : i < out.length), rxRowSpec compile isMatch rows[i] = some out[i] := by
  rw [rxSpecAll_eq_some_iff] at h
  have hl : out.length = rows.length := by
    have := congrArg List.length h; simpa using this.symm
  refine ⟨hl, fun i h1 h2 => ?_⟩
  have := congrArg (fun l => l[i]?) h
  simpa [List.getElem?_map, List.getElem?_eq_getElem h1, List.getElem?_eq_getElem h2] using this

theorem rxSpec_perm (rows rows' : List RxRow) (out : List (Option Bool)) (hp : rows.Perm rows')
    (h : rxSpecAll compile isMatch rows = some out) :
    ∃ out', rxSpecAll compile isMatch rows' = some out' ∧ out.Perm out' := by
  rw [rxSpecAll_eq_some_iff] at h
  refine ⟨rows'.filterMap (rxRowSpec compile isMatch), ?_, ?_⟩
  · rw [rxSpecAll_eq_some_iff]
    have hall : ∀ r ∈ rows', ∃ o, rxRowSpec compile isMatch r = some o := by
      intro r hr
      have hr' : r ∈ rows := hp.mem_iff.mpr hr
      have : rxRowSpec compile isMatch r ∈ rows.map (rxRowSpec compile isMatch) := List.mem_map_of_mem hr'
      rw [h] at this
      obtain ⟨o, _, ho⟩ := List.mem_map.mp this
      exact ⟨o, ho.symm⟩
    clear h hp
    induction rows' with
    | nil => rfl
    | cons r rest ih =>
      obtain ⟨o, ho⟩ := hall r (by simp)
      simp only [List.map_cons, List.filterMap_cons, ho]
      rw [ih (fun r' hr' => hall r' (by simp [hr']))]
  · have h1 : rows.filterMap (rxRowSpec compile isMatch) = out := by
      have := congrArg (List.filterMap id) h
      simpa [List.filterMap_map] using this
    rw [← h1]
    exact hp.filterMap _

theorem completePattern_flag_ne (p f : List Char) : completePattern p (some f) ≠ completePattern p none := by
  intro h
  have := congrArg List.length h
  simp [completePattern] at this
  omega
end

end ArrowModel.C20
