import ArrowModel.C20.Spec
import ArrowModel.Generated.C20
/-
C20 — algorithm model of `arrow-string`: `Predicate::like` / `ilike` classification and
evaluation (`predicate.rs`), `regex_like`, the byte kernels `starts_with` / `ends_with` /
`equals_bytes` / `memmem`, `substring` (`byte_substring`, `view_substring_range`,
`fixed_size_binary_substring`), `substring_by_char` (`ascii_bounds`, `utf8_bounds`),
`length`, `bit_length`, `concat_elements_bytes`.

A Rust `&str` is modelled as `List Char` (its type invariant: valid UTF-8) and its bytes as
`encode s : List Nat`; everything the Rust code does on bytes is done on `encode s` here.
-/
namespace ArrowModel.C20
open ArrowModel.Generated.C20

/-! ## byte kernels (`predicate.rs`, `binary_predicate.rs`) -/

/-- `zip(a, b).all(kernel)` — stops at the shorter of the two -/
def zipAll (k : Nat → Nat → Bool) : List Nat → List Nat → Bool
  | a :: as, b :: bs => k a b && zipAll k as bs
  | _, _ => true

/-- `equals_kernel` -/
def byteEq (a b : Nat) : Bool := a == b

/-- `u8::to_ascii_lowercase` -/
def asciiLowerByte (b : Nat) : Nat := if 65 ≤ b ∧ b ≤ 90 then b + 32 else b

/-- `equals_ignore_ascii_case_kernel` (`u8::eq_ignore_ascii_case`) -/
def byteEqIgnoreAsciiCase (a b : Nat) : Bool := asciiLowerByte a == asciiLowerByte b

/-- `fn starts_with(haystack, needle, kernel)` -/
def bytesStartsWith (k : Nat → Nat → Bool) (h n : List Nat) : Bool :=
  if n.length > h.length then false else zipAll k h n

/-- `fn ends_with(haystack, needle, kernel)` — zips the reversed byte iterators -/
def bytesEndsWith (k : Nat → Nat → Bool) (h n : List Nat) : Bool :=
  if n.length > h.length then false else zipAll k h.reverse n.reverse

/-- `fn equals_bytes(lhs, rhs, kernel)` -/
def equalsBytes (k : Nat → Nat → Bool) (l r : List Nat) : Bool :=
  l.length == r.length && zipAll k l r

/-- `GenericByteViewArray::prefix_bytes_iter(n)`: the first `n` bytes, or `[]` when shorter -/
def prefixBytes (h : List Nat) (n : Nat) : List Nat := if h.length < n then [] else h.take n

/-- `GenericByteViewArray::suffix_bytes_iter(n)`: the last `n` bytes, or `[]` when shorter -/
def suffixBytes (h : List Nat) (n : Nat) : List Nat := if h.length < n then [] else h.drop (h.length - n)

/-- some suffix of `h` satisfies `f` -/
def anySuffixB (f : List Nat → Bool) : List Nat → Bool
  | [] => f []
  | x :: s => f (x :: s) || anySuffixB f s

/-- `memchr::memmem::find(h, n).is_some()` (external crate — modelled by its contract:
`n` occurs in `h` as a contiguous run of bytes) -/
def memmem (h n : List Nat) : Bool := anySuffixB (fun t => n.isPrefixOf t) h

/-- `str::eq_ignore_ascii_case` : same length and bytes equal up to ASCII case -/
def strEqIgnoreAsciiCase (a b : List Nat) : Bool :=
  a.length == b.length && zipAll byteEqIgnoreAsciiCase a b

/-! ## `regex_like`: LIKE pattern → regular expression -/

/-- the regular expressions `regex_like` can produce -/
inductive RxItem where
  /-- an (escaped if necessary) literal character -/
  | lit (c : Char)
  /-- `.` with `dot_matches_new_line(true)`: any one scalar value -/
  | any
  /-- `.*` -/
  | star
  deriving Repr, DecidableEq

/-- `^`? items `$`? -/
structure Rx where
  anchorStart : Bool
  items : List RxItem
  anchorEnd : Bool
  deriving Repr, DecidableEq

/-- the `while let Some(c) = chars_iter.next()` loop of `regex_like`.  `\` + next char →
that char as a literal (escaped for the regex engine when it is a regex metacharacter —
in the AST simply a literal); trailing `\` → literal backslash; `%` → `.*`; `_` → `.`;
anything else → literal (escaped when it is a metacharacter). -/
def rxBody : List Char → List RxItem
  | [] => []
  | '\\' :: [] => [.lit '\\']
  | '\\' :: c :: rest => .lit c :: rxBody rest
  | '%' :: rest => .star :: rxBody rest
  | '_' :: rest => .any :: rxBody rest
  | c :: rest => .lit c :: rxBody rest

/-- `regex_syntax::is_meta_character` (external crate) -/
def isMetaChar (c : Char) : Bool :=
  ['\\', '.', '+', '*', '?', '(', ')', '|', '[', ']', '{', '}', '^', '$', '#', '&', '-', '~'].contains c

/-- the text `regex_like` pushes for one item: literals are backslash-escaped when they are regex
metacharacters, `_` → `.`, `%` → `.*` -/
def renderItem : RxItem → List Char
  | .lit c => if isMetaChar c then ['\\', c] else [c]
  | .any => ['.']
  | .star => ['.', '*']

/-- the text of `result` after the loop (`pre` is `"^"` or `""`) -/
def renderBody (pre : List Char) (items : List RxItem) : List Char := pre ++ items.flatMap renderItem

/-- the end of `regex_like`: `if result.ends_with(".*") { pop; pop } else { push('$') }` -/
def regexTail (as : Bool) (items : List RxItem) : Rx :=
  if items.getLast? = some .star then ⟨as, items.dropLast, false⟩ else ⟨as, items, true⟩

/-- `fn regex_like(pattern, case_insensitive)`: a leading `%` is skipped instead of emitting
`^.*`; a trailing `.*` is popped instead of emitting `.*$`.  (In the Rust code the second
test is textual, `result.ends_with(".*")`; the only way the produced text can end in an
unescaped `*` preceded by `.` is a final `%`, because a literal `*` is always emitted as
`\*`.) -/
def regexLike (p : List Char) : Rx :=
  match p with
  | '%' :: rest => regexTail false (rxBody rest)
  | _ => regexTail true (rxBody p)

/-- match `items` at the *start* of `s`; with `ae` the match must end at the end of `s`
(`$` without multi-line).  `eqv` is how the engine compares a literal with a subject
character: equality, or Unicode simple case folding with `case_insensitive(true)`. -/
def rxMatchHere (eqv : Char → Char → Bool) : List RxItem → Bool → List Char → Bool
  | [], ae, s => !ae || s.isEmpty
  | .lit c :: r, ae, s =>
    match s with
    | [] => false
    | x :: s => eqv c x && rxMatchHere eqv r ae s
  | .any :: r, ae, s =>
    match s with
    | [] => false
    | _ :: s => rxMatchHere eqv r ae s
  | .star :: r, ae, s => anySuffix (rxMatchHere eqv r ae) s

/-- `Regex::is_match` (external crate — modelled by its documented contract): unanchored
search, i.e. the expression matches starting at *some* character position; `^` pins the
start to position 0. -/
def Rx.isMatch (eqv : Char → Char → Bool) (r : Rx) (s : List Char) : Bool :=
  if r.anchorStart then rxMatchHere eqv r.items r.anchorEnd s
  else anySuffix (rxMatchHere eqv r.items r.anchorEnd) s

/-! ## `Predicate` -/

/-- `enum Predicate` -/
inductive Pred where
  | eq (v : List Char)
  | contains (v : List Char)
  | startsWith (v : List Char)
  | endsWith (v : List Char)
  | ieqAscii (v : List Char)
  | istartsWithAscii (v : List Char)
  | iendsWithAscii (v : List Char)
  | regex (r : Rx)
  deriving Repr, DecidableEq

/-- `fn contains_like_pattern`: `memchr3(b'%', b'_', b'\\', pattern.as_bytes()).is_some()` -/
def containsLikePattern (bs : List Nat) : Bool := bs.any (fun b => b == 37 || b == 95 || b == 92)

/-- `&pattern[..pattern.len() - 1]` when `pattern.ends_with('%')` (`%` is one byte, so the
byte slice drops exactly the last character) -/
def dropEnd (p : List Char) : List Char := p.take (p.length - LIKE_TRIM_END)
/-- `&pattern[1..]` when `pattern.starts_with('%')` -/
def dropStart (p : List Char) : List Char := p.drop LIKE_TRIM_START
/-- `&pattern[1..pattern.len() - 1]` (the Contains shortcut) -/
def dropBoth (p : List Char) : List Char :=
  (p.take (p.length - LIKE_CONTAINS_TRIM_END)).drop LIKE_CONTAINS_TRIM_START

/-- the slices tested by the *guards* of `Predicate::like` (same expressions as the payloads,
read separately from the source so that editing only one of the two is noticed) -/
def dropEndG (p : List Char) : List Char := p.take (p.length - LIKE_GUARD_STARTSWITH)
def dropStartG (p : List Char) : List Char := p.drop LIKE_GUARD_ENDSWITH
def dropBothG (p : List Char) : List Char :=
  (p.take (p.length - LIKE_GUARD_CONTAINS_END)).drop LIKE_GUARD_CONTAINS_START

/-- `Predicate::like(pattern)` -/
def classifyLike (p : List Char) : Pred :=
  let clp (q : List Char) := containsLikePattern (encode q)
  if !clp p then .eq p
  else if p.getLast? == some '%' && !clp (dropEndG p) then .startsWith (dropEnd p)
  else if p.head? == some '%' && !clp (dropStartG p) then .endsWith (dropStart p)
  else if p.head? == some '%' && p.getLast? == some '%' && !clp (dropBothG p) then
    .contains (dropBoth p)
  else .regex (regexLike p)

/-- `str::is_ascii` on the bytes -/
def bytesAscii (bs : List Nat) : Bool := bs.all (· < 128)

/-- `pattern.ends_with("\\%")` -/
def endsWithEscapedPercent (p : List Char) : Bool := ['\\', '%'].isSuffixOf p

/-- `Predicate::ilike(pattern, is_ascii)`; `isAscii` = "every haystack of the array is ASCII"
(`l.is_ascii()`, scalar pattern) or `false` (array pattern, `op_binary`). -/
def classifyILike (p : List Char) (isAscii : Bool) : Pred :=
  let clp (q : List Char) := containsLikePattern (encode q)
  if isAscii && bytesAscii (encode p) then
    if !clp p then .ieqAscii p
    else if p.getLast? == some '%' && !endsWithEscapedPercent p
        && !clp (p.take (p.length - ILIKE_GUARD_STARTSWITH)) then
      .istartsWithAscii (p.take (p.length - ILIKE_TRIM_END))
    else if p.head? == some '%' && !clp (p.drop ILIKE_GUARD_ENDSWITH) then
      .iendsWithAscii (p.drop ILIKE_TRIM_START)
    else .regex (regexLike p)
  else .regex (regexLike p)

/-- `Predicate::evaluate(haystack)` and the non-view arms of `evaluate_array`
(`eqv`: literal comparison of the regex engine, see `rxMatchHere`) -/
def Pred.eval (eqv : Char → Char → Bool) (pr : Pred) (h : List Char) : Bool :=
  let hb := encode h
  match pr with
  | .eq v => hb.length == (encode v).length && hb == encode v
  | .ieqAscii v => strEqIgnoreAsciiCase hb (encode v)
  | .contains v => memmem hb (encode v)
  | .startsWith v => bytesStartsWith byteEq hb (encode v)
  | .istartsWithAscii v => bytesStartsWith byteEqIgnoreAsciiCase hb (encode v)
  | .endsWith v => bytesEndsWith byteEq hb (encode v)
  | .iendsWithAscii v => bytesEndsWith byteEqIgnoreAsciiCase hb (encode v)
  | .regex r => r.isMatch eqv h

/-- the `StringViewArray` arms of `Predicate::evaluate_array`
(`prefix_bytes_iter` / `suffix_bytes_iter` + `equals_bytes`) -/
def Pred.evalView (eqv : Char → Char → Bool) (pr : Pred) (h : List Char) : Bool :=
  let hb := encode h
  match pr with
  | .startsWith v => equalsBytes byteEq (prefixBytes hb (encode v).length) (encode v)
  | .istartsWithAscii v => equalsBytes byteEqIgnoreAsciiCase (prefixBytes hb (encode v).length) (encode v)
  | .endsWith v => equalsBytes byteEq (suffixBytes hb (encode v).length) (encode v)
  | .iendsWithAscii v => equalsBytes byteEqIgnoreAsciiCase (suffixBytes hb (encode v).length) (encode v)
  | pr => pr.eval eqv h

/-- `like` / `nlike` on one row (`evaluate(..) != negate`) -/
def likeModel (neg : Bool) (p s : List Char) : Bool := ((classifyLike p).eval (· == ·) s) != neg

/-! ## `substring` (byte indexed) -/

/-- `str::is_char_boundary(i)` -/
def isCharBoundary (v : List Nat) (i : Nat) : Bool :=
  if i = 0 then true
  else if i ≥ v.length then i == v.length
  else let b := v.getD i 0; b < 128 || b ≥ 192

inductive SubRes where
  | ok (bytes : List Nat)
  /-- `ArrowError::ComputeError("… invalid utf-8 boundary")` -/
  | err
  deriving Repr, DecidableEq

/-- `pair[i]` of `offsets.windows(2)` relative to the element: `pair[0] = 0`, `pair[1] = n`
(the indices are read from the source on every run) -/
def pairAt (n i : Nat) : Int := if i = 0 then 0 else (n : Int)

/-- `new_start` of `byte_substring` / `view_substring_range` relative to the element:
`start > 0` → `min(start, n)`; `0` → `0`; `start < 0` → `max(n + start, 0)` -/
def subStart (n : Nat) (start : Int) : Nat :=
  (if start > 0 then min (pairAt n SUBSTR_POS_BASE + start) (pairAt n SUBSTR_POS_CLAMP)
   else if start = 0 then 0 else max (pairAt n SUBSTR_NEG_BASE + start) 0).toNat

/-- `new_end`: `min(length + new_start, pair[1])`, or `pair[1]` when no length is given -/
def subEnd (n st : Nat) (len : Option Nat) : Nat :=
  match len with
  | some l => min (l + st) (pairAt n SUBSTR_END_CLAMP).toNat
  | none => n

/-- one element of `byte_substring` / `string_view_substring` (offsets relative to the
element, `pair[0] = 0`, `pair[1] = v.length`).  `check` = the array is a string array
(`check_char_boundary` / `is_char_boundary`); binary arrays are never checked.
`len` is the requested length already converted to the offset type.  Note the start is
checked only when `start ≠ 0`. -/
def byteSubstring (check : Bool) (v : List Nat) (start : Int) (len : Option Nat) : SubRes :=
  let st := subStart v.length start
  let e := subEnd v.length st len
  let okStart := start = 0 || !check || isCharBoundary v st
  let okEnd := len.isNone || !check || isCharBoundary v e
  if okStart && okEnd then .ok ((v.take e).drop st) else .err

/-! ## `substring_by_char` -/

def byteLen (s : List Char) : Nat := (encode s).length

/-- `fn ascii_bounds(val, start, length)` — byte arithmetic, valid when one char = one byte -/
def asciiBounds (n : Nat) (start : Int) (len : Option Nat) : Nat × Nat :=
  let so := if start ≥ 0 then min start.toNat n else n - (-start).toNat
  let eo := match len with
    | none => n
    | some l => min (so + l) n
  (so, eo)

/-- the character index `utf8_bounds` starts at, for a string of `n` characters:
`char_indices().nth(start)` (or the end), resp. `char_indices().nth_back(back - 1)` (or 0) -/
def utf8StartIdx (n : Nat) (start : Int) : Nat :=
  if start ≥ 0 then (if start.toNat < n then start.toNat else n)
  else (let j := (-start).toNat - SUBSTRC_NTH_BACK_ADJ
        if j < n then n - 1 - j else 0)

/-- `fn utf8_bounds(val, start, length)`: `char_indices().nth(k)` is the byte length of the
first `k` characters (or "none" when there are not that many); `nth_back(back-1)` is the
byte offset of the `back`-th character from the end. -/
def utf8Bounds (s : List Char) (start : Int) (len : Option Nat) : Nat × Nat :=
  let n := byteLen s
  let startIdx : Nat := utf8StartIdx s.length start
  let so := byteLen (s.take startIdx)
  let eo := match len with
    | none => n
    | some l =>
      if l ≥ n - so then n
      else
        let rest := s.drop startIdx
        if l < rest.length then so + byteLen (rest.take l) else n
  (so, eo)

/-- one element of `substring_by_char`; `arrayAscii` = `array.is_ascii()` -/
def substringByChar (arrayAscii : Bool) (s : List Char) (start : Int) (len : Option Nat) : List Nat :=
  let v := encode s
  let (so, eo) := if arrayAscii then asciiBounds v.length start len else utf8Bounds s start len
  (v.take eo).drop so

/-! ## `length`, `bit_length`, `concat_elements` -/

/-- `length_impl`: `offsets[i+1] - offsets[i]` -/
def lengthModel (s : List Char) : Nat := (encode s).length
/-- `bit_length_impl`: `(offsets[i+1] - offsets[i]) * 8` -/
def bitLengthModel (s : List Char) : Nat := (encode s).length * BIT_LENGTH_FACTOR
/-- `bit_length` of `Utf8View` / `BinaryView`: `(*view as i32).wrapping_mul(8)` (the low 32 bits of
a view are the length) -/
def bitLengthModelView (s : List Char) : Nat := (encode s).length * BIT_LENGTH_FACTOR_VIEW
/-- `concat_elements_bytes`: the two value slices appended -/
def concatModel (a b : List Char) : List Nat := encode a ++ encode b

/-! ## `regexp_is_match` with an array of patterns and an array of flags: the per-batch cache

`regexp_is_match` compiles every *complete pattern* `format!("(?{flag}){pattern}")` (or the bare
pattern when the flag is null) once per call and keeps it in `patterns: HashMap<String, Regex>`
keyed by that complete pattern.  The regex engine is a parameter (`compile`, `isMatch`). -/


/-- one row of the three zipped input arrays -/
structure RxRow where
  value : Option (List Char)
  pattern : Option (List Char)
  flag : Option (List Char)

/-- the cache key and the text that is compiled: `(?flags)pattern`, or the pattern alone -/
def completePattern (p : List Char) (f : Option (List Char)) : List Char :=
  match f with
  | some f => ['(', '?'] ++ f ++ [')'] ++ p
  | none => p

section
variable {R : Type} (compile : List Char → Option R) (isMatch : R → List Char → Bool)

/-- `patterns.get(&pattern)` -/
def cacheGet (cache : List (List Char × R)) (k : List Char) : Option R :=
  (cache.find? (fun e => e.1 == k)).map (·.2)

/-- specification of one row on its own: null unless value and pattern are both present; an empty
complete pattern matches everything; `none` = "Regular expression did not compile" -/
def rxRowSpec (row : RxRow) : Option (Option Bool) :=
  match row.value, row.pattern with
  | some v, some p =>
    let cp := completePattern p row.flag
    if cp = [] then some (some true)
    else match compile cp with
      | none => none
      | some re => some (some (isMatch re v))
  | _, _ => some none

/-- every row on its own; the first compile error aborts the call -/
def rxSpecAll : List RxRow → Option (List (Option Bool))
  | [] => some []
  | row :: rest =>
    match rxRowSpec compile isMatch row with
    | none => none
    | some o => (rxSpecAll rest).map (o :: ·)

/-- the loop of `regexp_is_match` as written, threading the cache through the rows -/
def rxLoop : List RxRow → List (List Char × R) → Option (List (Option Bool))
  | [], _ => some []
  | row :: rest, cache =>
    match row.value, row.pattern with
    | some v, some p =>
      let cp := completePattern p row.flag
      if cp = [] then (rxLoop rest cache).map (some true :: ·)
      else match cacheGet cache cp with
        | some re => (rxLoop rest cache).map (some (isMatch re v) :: ·)
        | none =>
          match compile cp with
          | none => none
          | some re => (rxLoop rest ((cp, re) :: cache)).map (some (isMatch re v) :: ·)
    | _, _ => (rxLoop rest cache).map (none :: ·)

def regexpIsMatchModel (rows : List RxRow) : Option (List (Option Bool)) := rxLoop compile isMatch rows []
end

/-! ## UTF-8 decoding (used by the driver to read case lines, and by tests) -/

def isCont (b : Nat) : Bool := 128 ≤ b && b < 192

def decode : List Nat → Nat → Option (List Char)
  | [], _ => some []
  | _, 0 => none
  | b :: rest, fuel + 1 =>
    if b < 128 then (decode rest fuel).map (Char.ofNat b :: ·)
    else if 192 ≤ b ∧ b < 224 then
      match rest with
      | b1 :: r => if isCont b1 then (decode r fuel).map (Char.ofNat ((b - 192) * 64 + (b1 - 128)) :: ·) else none
      | _ => none
    else if 224 ≤ b ∧ b < 240 then
      match rest with
      | b1 :: b2 :: r =>
        if isCont b1 && isCont b2 then
          (decode r fuel).map (Char.ofNat ((b - 224) * 4096 + (b1 - 128) * 64 + (b2 - 128)) :: ·)
        else none
      | _ => none
    else if 240 ≤ b ∧ b < 248 then
      match rest with
      | b1 :: b2 :: b3 :: r =>
        if isCont b1 && isCont b2 && isCont b3 then
          (decode r fuel).map
            (Char.ofNat ((b - 240) * 262144 + (b1 - 128) * 4096 + (b2 - 128) * 64 + (b3 - 128)) :: ·)
        else none
      | _ => none
    else none

/-- bytes → string; `none` unless the bytes are exactly the encoding of the result -/
def decodeUtf8 (bs : List Nat) : Option (List Char) :=
  match decode bs (bs.length + 1) with
  | some s => if encode s == bs then some s else none
  | none => none

end ArrowModel.C20
