import ArrowModel.Common.Proto
import ArrowModel.C20.Spec
import ArrowModel.C20.Model
/-
C20 driver: one case per line → one canonical answer per line.

Strings travel as hex of their UTF-8 bytes; a list of rows is comma separated with `~` = null
row, `_` = empty string, and `-` = no rows.  Boolean results are one character per row
(`0`, `1`, `n` = null).  Answers come from the *algorithm model*; the specification is
evaluated as well and `MODEL-SPEC-MISMATCH` is printed when they differ (the theorems say
they cannot).
-/
namespace ArrowModel.C20
open ArrowModel.Proto

abbrev Row := Option (List Char)

def parseRow (t : String) : Option Row :=
  if t = "~" then some none
  else if t = "_" then some (some [])
  else do
    let bs ← parseHex t
    let s ← decodeUtf8 bs
    pure (some s)

def parseRows (t : String) : Option (List Row) :=
  if t = "-" then some [] else (t.splitOn ",").mapM parseRow

def showBytesRow (r : Option (List Nat)) : String :=
  match r with
  | none => "~"
  | some [] => "_"
  | some bs => toHex bs

def showRows (rs : List (Option (List Nat))) : String :=
  if rs.isEmpty then "-" else ",".intercalate (rs.map showBytesRow)

def showTri (rs : List (Option Bool)) : String :=
  if rs.isEmpty then "-" else
  String.ofList (rs.map (fun r => match r with | none => 'n' | some true => '1' | some false => '0'))

/-- broadcast a single pattern over all rows -/
def alignPats (pats : List Row) (n : Nat) : Option (List Row) :=
  match pats with
  | [p] => some (List.replicate n p)
  | _ => if pats.length = n then some pats else none

def rowAscii (r : Row) : Bool :=
  match r with
  | none => true
  | some s => bytesAscii (encode s)

/-- evaluate a two-string predicate row-wise; `f` returns `(model answers, spec answer)` -/
def rowwise (pats hays : List Row) (f : List Char → List Char → List Bool × Bool) : String :=
  let rs := List.zipWith (fun p h =>
    match p, h with
    | some p, some h =>
      let (ms, sp) := f p h
      if ms.all (· == sp) then some (some sp) else none
    | _, _ => some none) pats hays
  if rs.all Option.isSome then showTri (rs.map (fun r => r.getD none))
  else "MODEL-SPEC-MISMATCH " ++ showTri (rs.map (fun r => r.getD none))

def parseLen (t : String) : Option (Option Nat) :=
  if t = "N" then some none else t.toNat?.map some

def handle (toks : List String) : String :=
  match toks with
  | [op, _var, pats, hays] =>
    match parseRows pats, parseRows hays with
    | some pats, some hays =>
      if op = "rx" || op = "rxm" then "SKIP" else
      if op = "concat" && pats.length ≠ hays.length then "ERR:compute" else
      -- a single haystack with several patterns: the haystack is the scalar operand
      let hays := if hays.length = 1 && pats.length > 1 then List.replicate pats.length (hays.headD none) else hays
      match alignPats pats hays.length with
      | none => "ERR:invalid-arg"   -- `like_op`: "Cannot compare arrays of different lengths"
      | some pats =>
        match op with
        | "like" | "nlike" =>
          let neg := op = "nlike"
          rowwise pats hays (fun p h =>
            let pr := classifyLike p
            ([pr.eval (· == ·) h != neg, pr.evalView (· == ·) h != neg], like p h != neg))
        | "ilike" | "nilike" =>
          -- the model of ILIKE is ASCII only (Unicode case folding lives in the regex crate)
          if !(pats.all rowAscii && hays.all rowAscii) then "SKIP" else
          let neg := op = "nilike"
          rowwise pats hays (fun p h =>
            let fast := classifyILike p true     -- scalar pattern, `l.is_ascii()` holds
            let slow := classifyILike p false    -- array pattern
            ([fast.eval asciiFoldEq h != neg, fast.evalView asciiFoldEq h != neg,
              slow.eval asciiFoldEq h != neg], ilikeAscii p h != neg))
        | "sw" =>
          rowwise pats hays (fun p h =>
            ([(Pred.startsWith p).eval (· == ·) h, (Pred.startsWith p).evalView (· == ·) h], isPrefix p h))
        | "ew" =>
          rowwise pats hays (fun p h =>
            ([(Pred.endsWith p).eval (· == ·) h, (Pred.endsWith p).evalView (· == ·) h], isSuffix p h))
        | "ct" =>
          rowwise pats hays (fun p h => ([(Pred.contains p).eval (· == ·) h], isInfix p h))
        | "eqi" =>
          rowwise pats hays (fun p h => ([(Pred.ieqAscii p).eval (· == ·) h], eqG asciiFoldEq p h))
        | "rx" => "SKIP"
        | "concat" =>
          let rs := List.zipWith (fun a b =>
            match a, b with
            | some a, some b => some (concatModel a b)
            | _, _ => none) pats hays
          let sp := List.zipWith (fun a b =>
            match a, b with
            | some a, some b => some (encode (a ++ b))
            | _, _ => none) pats hays
          if rs == sp then showRows rs else "MODEL-SPEC-MISMATCH " ++ showRows rs
        | _ => "bad-op"
    | _, _ => "bad-op"
  -- regexp with per-row flags: the regex engine is external (oracle in the harness)
  | ["rxf", _, _, _, _] => "SKIP"
  | ["rxmf", _, _, _, _] => "SKIP"
  | ["substr", kind, start, len, hays] =>
    match parseInt start, parseLen len, parseRows hays with
    | some start, some len, some hays =>
      let check := kind.startsWith "s"
      let rs := hays.map (fun h => h.map (fun s => byteSubstring check (encode s) start len))
      if rs.any (fun r => r == some .err) then "ERR:compute" else
      let out := rs.map (fun r => match r with | some (.ok b) => some b | _ => none)
      let sp := hays.map (fun h => h.map (fun s => substrSpec (encode s) start len))
      let valid := !check || out.all (fun r => match r with | some b => (decodeUtf8 b).isSome | none => true)
      if out == sp && valid then showRows out else "MODEL-SPEC-MISMATCH " ++ showRows out
    | _, _, _ => "bad-op"
  | ["substrc", _var, start, len, hays] =>
    match parseInt start, parseLen len, parseRows hays with
    | some start, some len, some hays =>
      let ascii := hays.all rowAscii
      let out := hays.map (fun h => h.map (fun s => substringByChar ascii s start len))
      let sp := hays.map (fun h => h.map (fun s => encode (substrChars s start len)))
      if out == sp then showRows out else "MODEL-SPEC-MISMATCH " ++ showRows out
    | _, _, _ => "bad-op"
  | ["len", _kind, hays] =>
    match parseRows hays with
    | some hays =>
      showList (fun h : Row => match h with | none => "~" | some s => toString (lengthModel s)) hays
    | none => "bad-op"
  | ["bitlen", kind, hays] =>
    match parseRows hays with
    | some hays =>
      -- kinds 2, 6, 10 are the view encodings (separate code path in `bit_length`)
      let view := kind = "2" || kind = "6" || kind = "10" || kind = "15"
      showList (fun h : Row => match h with
        | none => "~"
        | some s => toString (if view then bitLengthModelView s else bitLengthModel s)) hays
    | none => "bad-op"
  | _ => "bad-op"

end ArrowModel.C20
