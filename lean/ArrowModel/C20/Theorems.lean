import ArrowModel.C20.Lemmas
/-
C20 — property theorems.  "LIKE/ILIKE, starts_with, ends_with, contains, substring … return,
for every row, the result of the straightforward definition on Unicode scalar values."

All statements quantify over *every* pattern and *every* subject string (no length bound).
`List Char` is a sequence of Unicode scalar values; `encode` is its UTF-8 byte string, which
is what the Rust kernels operate on.
-/
namespace ArrowModel.C20

/-! ## (2) UTF-8: byte-level prefix / suffix / infix = character-level -/

/-- **`starts_with` on bytes is `starts_with` on characters**: the UTF-8 encoding of `p` is a
byte prefix of the encoding of `s` iff `p` is a character prefix of `s` (UTF-8 is a prefix
code).  This is why the byte kernels shared by Utf8 / LargeUtf8 / Utf8View / dictionary values
give character-level answers. -/
theorem utf8_prefix (p s : List Char) : encode p <+: encode s ↔ p <+: s := encode_prefix_iff p s

/-- **`ends_with`**: byte suffix ⇔ character suffix (UTF-8 is self-synchronising: an encoding
can only start at a character boundary of another encoding). -/
theorem utf8_suffix (p s : List Char) : encode p <:+ encode s ↔ p <:+ s := encode_suffix_iff p s

/-- **`contains`** (`memmem` on bytes): byte infix ⇔ character infix. -/
theorem utf8_infix (p s : List Char) : encode p <:+: encode s ↔ p <:+: s := encode_infix_iff p s

example : encode ['é', 'a'] <:+: encode ['x', 'é', 'a', '€'] := (utf8_infix _ _).mpr ⟨['x'], ['€'], rfl⟩

/-- equality of encodings is equality of strings -/
theorem utf8_injective (a b : List Char) (h : encode a = encode b) : a = b := encode_inj h

/-! ## (1) every rewrite of `Predicate::like` equals LIKE -/

/-- `Predicate::Eq`: a pattern without `%`, `_`, `\` matches exactly itself, and the byte
comparison `haystack.len() == v.len() && haystack == v` decides that. -/
theorem like_rewrite_eq (p s : List Char) (h : containsLikePattern (encode p) = false) :
    (Pred.eq p).eval (· == ·) s = likeMatch (tokenise p) s := by
  rw [containsLikePattern_encode] at h
  rw [eval_eq, like_no_wildcard p s h]

/-- `Predicate::StartsWith`: `q%` with `q` free of `%`, `_`, `\` ⇔ `q` is a character prefix,
decided by the byte kernel `starts_with`. -/
theorem like_rewrite_startsWith (q s : List Char) (h : containsLikePattern (encode q) = false) :
    (Pred.startsWith q).eval (· == ·) s = likeMatch (tokenise (q ++ ['%'])) s := by
  rw [containsLikePattern_encode] at h
  rw [eval_startsWith, like_trailing_percent q s h]

/-- `Predicate::EndsWith`: `%q` ⇔ `q` is a character suffix, decided by the byte kernel
`ends_with`. -/
theorem like_rewrite_endsWith (q s : List Char) (h : containsLikePattern (encode q) = false) :
    (Pred.endsWith q).eval (· == ·) s = likeMatch (tokenise ('%' :: q)) s := by
  rw [containsLikePattern_encode] at h
  rw [eval_endsWith, like_leading_percent q s h]

/-- `Predicate::Contains`: `%q%` ⇔ `q` occurs in the subject, decided by `memmem` on bytes. -/
theorem like_rewrite_contains (q s : List Char) (h : containsLikePattern (encode q) = false) :
    (Pred.contains q).eval (· == ·) s = likeMatch (tokenise ('%' :: (q ++ ['%']))) s := by
  rw [containsLikePattern_encode] at h
  rw [eval_contains, like_both_percent q s h]

example : containsLikePattern (encode ['é', '.', '\n']) = false := by decide

/-- **`regex_like` denotes LIKE** — for *every* pattern (not only those that reach the regex
fallback) and every literal-comparison relation `eqv` of the engine (equality for LIKE,
case folding for ILIKE): searching the translated expression (`^` dropped after a leading
`%`, `.*$` dropped for a trailing `%`, `.` = any scalar value including newline) gives
exactly `likeMatchG eqv`: `_` is exactly one scalar value, `%` any sequence. -/
theorem regex_like_denotes_like (eqv : Char → Char → Bool) (p s : List Char) :
    (regexLike p).isMatch eqv s = likeMatchG eqv (tokenise p) s := regexLike_isMatch eqv p s

/-- **`like`**: whatever strategy `Predicate::like` selects for a pattern — equality, prefix,
suffix, substring or regular expression, including all escape shapes (`\%`, `\_`, `\\`, `\x`,
trailing `\`) — evaluating it on the UTF-8 bytes of the subject is LIKE on scalar values. -/
theorem like_correct (p s : List Char) :
    (classifyLike p).eval (· == ·) s = like p s := classifyLike_eval p s

/-- **`nlike`** is the complement (`evaluate(..) != negate`). -/
theorem nlike_correct (p s : List Char) : likeModel true p s = !(like p s) := by
  simp [likeModel, classifyLike_eval, like]

theorem like_model_correct (p s : List Char) : likeModel false p s = like p s := by
  simp [likeModel, classifyLike_eval, like]

end ArrowModel.C20
