import ArrowModel.C20.Lemmas
/-
C20 — property theorems.  "LIKE/ILIKE, starts_with, ends_with, contains, substring … return,
for every row, the result of the straightforward definition on Unicode scalar values."

All statements quantify over *every* pattern and *every* subject string (no length bound).
`List Char` is a sequence of Unicode scalar values; `encode` is its UTF-8 byte string, which
is what the Rust kernels operate on.
-/
namespace ArrowModel.C20
open ArrowModel.Generated.C20

/-! ## (2) UTF-8: byte-level prefix / suffix / infix = character-level -/

/-- **`starts_with` on bytes is `starts_with` on characters**: the UTF-8 encoding of `p` is a
byte prefix of the encoding of `s` iff `p` is a character prefix of `s` (UTF-8 is a prefix
code).  This is why the byte kernels shared by Utf8 / LargeUtf8 / Utf8View / dictionary values
give character-level answers. -/
theorem utf8_prefix (p s : List Char) : encode p <+: encode s ↔ p <+: s := encode_prefix_iff p s

/-- **`ends_with`**: byte suffix ⇔ character suffix (UTF-8 is self-synchronising: an encoding
can only start at a character boundary of another encoding). -/
theorem utf8_suffix (p s : List Char) : encode p <:+ encode s ↔ p <:+ s := encode_suffix_iff p s

/-- **`contains`** (`memmem` on bytes): byte infix ⇔ character infix. -/
theorem utf8_infix (p s : List Char) : encode p <:+: encode s ↔ p <:+: s := encode_infix_iff p s

example : encode ['é', 'a'] <:+: encode ['x', 'é', 'a', '€'] := (utf8_infix _ _).mpr ⟨['x'], ['€'], rfl⟩

/-- equality of encodings is equality of strings -/
theorem utf8_injective (a b : List Char) (h : encode a = encode b) : a = b := encode_inj h

/-! ## (1) every rewrite of `Predicate::like` equals LIKE -/

/-- `Predicate::Eq`: a pattern without `%`, `_`, `\` matches exactly itself, and the byte
comparison `haystack.len() == v.len() && haystack == v` decides that. -/
theorem like_rewrite_eq (p s : List Char) (h : containsLikePattern (encode p) = false) :
    (Pred.eq p).eval (· == ·) s = likeMatch (tokenise p) s := by
  rw [containsLikePattern_encode] at h
  rw [eval_eq, like_no_wildcard p s h]

/-- `Predicate::StartsWith`: `q%` with `q` free of `%`, `_`, `\` ⇔ `q` is a character prefix,
decided by the byte kernel `starts_with`. -/
theorem like_rewrite_startsWith (q s : List Char) (h : containsLikePattern (encode q) = false) :
    (Pred.startsWith q).eval (· == ·) s = likeMatch (tokenise (q ++ ['%'])) s := by
  rw [containsLikePattern_encode] at h
  rw [eval_startsWith, like_trailing_percent q s h]

/-- `Predicate::EndsWith`: `%q` ⇔ `q` is a character suffix, decided by the byte kernel
`ends_with`. -/
theorem like_rewrite_endsWith (q s : List Char) (h : containsLikePattern (encode q) = false) :
    (Pred.endsWith q).eval (· == ·) s = likeMatch (tokenise ('%' :: q)) s := by
  rw [containsLikePattern_encode] at h
  rw [eval_endsWith, like_leading_percent q s h]

/-- `Predicate::Contains`: `%q%` ⇔ `q` occurs in the subject, decided by `memmem` on bytes. -/
theorem like_rewrite_contains (q s : List Char) (h : containsLikePattern (encode q) = false) :
    (Pred.contains q).eval (· == ·) s = likeMatch (tokenise ('%' :: (q ++ ['%']))) s := by
  rw [containsLikePattern_encode] at h
  rw [eval_contains, like_both_percent q s h]

example : containsLikePattern (encode ['é', '.', '\n']) = false := by decide

/-- **`regex_like` denotes LIKE** — for *every* pattern (not only those that reach the regex
fallback) and every literal-comparison relation `eqv` of the engine (equality for LIKE,
case folding for ILIKE): searching the translated expression (`^` dropped after a leading
`%`, `.*$` dropped for a trailing `%`, `.` = any scalar value including newline) gives
exactly `likeMatchG eqv`: `_` is exactly one scalar value, `%` any sequence. -/
theorem regex_like_denotes_like (eqv : Char → Char → Bool) (p s : List Char) :
    (regexLike p).isMatch eqv s = likeMatchG eqv (tokenise p) s := regexLike_isMatch eqv p s

/-- the textual test `result.ends_with(".*")` at the end of `regex_like` is true exactly when the
last translated item is the `.*` of an unescaped `%`: a literal `*` is always rendered `\*`, so
the model's `regexTail` (which looks at the last *item*) mirrors the code (which looks at the
last two *characters*). -/
theorem regex_text_tail (pre : List Char) (hpre : pre = [] ∨ pre = ['^']) (items : List RxItem) :
    ['.', '*'].isSuffixOf (renderBody pre items) = (items.getLast? == some RxItem.star) :=
  render_endsWith_dotStar pre hpre items

example : renderBody ['^'] (rxBody ['a', '\\', '*', '_', '%']) = ['^', 'a', '\\', '*', '.', '.', '*'] := by decide

/-- **`like`**: whatever strategy `Predicate::like` selects for a pattern — equality, prefix,
suffix, substring or regular expression, including all escape shapes (`\%`, `\_`, `\\`, `\x`,
trailing `\`) — evaluating it on the UTF-8 bytes of the subject is LIKE on scalar values. -/
theorem like_correct (p s : List Char) :
    (classifyLike p).eval (· == ·) s = like p s := classifyLike_eval p s

/-- **`nlike`** is the complement (`evaluate(..) != negate`). -/
theorem nlike_correct (p s : List Char) : likeModel true p s = !(like p s) := by
  simp [likeModel, classifyLike_eval, like]

theorem like_model_correct (p s : List Char) : likeModel false p s = like p s := by
  simp [likeModel, classifyLike_eval, like]

/-- **Utf8View gives the same answers**: the `StringViewArray` arms of
`Predicate::evaluate_array` (`prefix_bytes_iter` / `suffix_bytes_iter` + `equals_bytes`, which
look only at the first / last `needle.len()` bytes) agree with the generic arms used for Utf8,
LargeUtf8 and dictionary values — for every predicate, byte kernel and haystack. -/
theorem view_path_agrees (eqv : Char → Char → Bool) (pr : Pred) (h : List Char) :
    pr.evalView eqv h = pr.eval eqv h := evalView_eq_eval eqv pr h

/-! ## (3) ILIKE: the ASCII fast paths -/

/-- `ilike` with an array pattern (`Predicate::ilike(p, false)`) always uses the translated
regular expression, which denotes ILIKE w.r.t. the engine's case-folding relation `eqv`. -/
theorem ilike_array_pattern (eqv : Char → Char → Bool) (p s : List Char) :
    (classifyILike p false).eval eqv s = likeMatchG eqv (tokenise p) s := by
  simp [classifyILike, Pred.eval, regexLike_isMatch]

/-- **The ASCII fast paths of `ilike` are sound.**  When the pattern is ASCII and every haystack
of the array is ASCII (the `is_ascii` guards), `IEqAscii` / `IStartsWithAscii` /
`IEndsWithAscii` — byte comparisons up to ASCII case — give exactly what the case-insensitive
regular expression would give, for *any* engine folding relation `eqv` that restricted to ASCII
is "equal up to ASCII case" (Unicode simple case folding relates an ASCII letter only to its
other-case ASCII counterpart *among ASCII characters*; K/KELVIN SIGN and s/LONG S need a
non-ASCII character, which the guards exclude). -/
theorem ilike_ascii_fast_path (eqv : Char → Char → Bool)
    (hfold : ∀ a b : Char, a.toNat < 128 → b.toNat < 128 → eqv a b = asciiFoldEq a b)
    (p s : List Char) (hp : isAsciiStr p = true) (hs : isAsciiStr s = true) :
    (classifyILike p true).eval eqv s = likeMatchG eqv (tokenise p) s := by
  rw [like_fold_ascii eqv hfold p s hp hs]
  apply classifyILike_fast_ascii eqv p s hp hs
  rw [regexLike_isMatch, like_fold_ascii eqv hfold p s hp hs]

example : isAsciiStr ['K', 'e', '%'] = true ∧ isAsciiStr ['k', 'E', 'l', 'v', 'i', 'n'] = true := by decide

/-- … and therefore scalar and array patterns agree on ASCII data. -/
theorem ilike_scalar_eq_array (eqv : Char → Char → Bool)
    (hfold : ∀ a b : Char, a.toNat < 128 → b.toNat < 128 → eqv a b = asciiFoldEq a b)
    (p s : List Char) (hp : isAsciiStr p = true) (hs : isAsciiStr s = true) :
    (classifyILike p true).eval eqv s = (classifyILike p false).eval eqv s := by
  rw [ilike_ascii_fast_path eqv hfold p s hp hs, ilike_array_pattern]

/-- the `is_ascii()` guards are character-level statements: the bytes of a string are all
`< 0x80` iff all its scalar values are -/
theorem is_ascii_bytes_iff_chars (s : List Char) : bytesAscii (encode s) = isAsciiStr s :=
  bytesAscii_encode s

/-! ## (4) substring -/

/-- **`substring` on string arrays returns valid UTF-8 or an error**: whenever the boundary
checks of `byte_substring` / `string_view_substring` pass, the returned bytes are the encoding
of a contiguous run of the input's characters — for every start (positive, zero, negative,
beyond the string) and every length. -/
theorem substring_valid_or_error (s : List Char) (start : Int) (len : Option Nat) :
    byteSubstring true (encode s) start len = .err ∨
    ∃ m, byteSubstring true (encode s) start len = .ok (encode m) ∧ m <:+: s := by
  cases h : byteSubstring true (encode s) start len with
  | err => exact Or.inl rfl
  | ok r =>
    obtain ⟨m, hm, hin⟩ := byteSubstring_valid s start len r h
    exact Or.inr ⟨m, by rw [hm], hin⟩

example : byteSubstring true (encode ['a', 'é', 'b']) 1 (some 1) = .err := by decide
example : byteSubstring true (encode ['a', 'é', 'b']) (-3) (some 2) = .ok (encode ['é']) := by decide

/-- **`substring` returns the clamped byte range** (string and binary arrays alike): when no
error is raised the result is bytes `[clamp(start), clamp(start) + len)` of the value, with
negative `start` counted from the end and everything clamped to the value. -/
theorem substring_range (check : Bool) (v : List Nat) (start : Int) (len : Option Nat) (r : List Nat)
    (h : byteSubstring check v start len = .ok r) : r = substrSpec v start len :=
  byteSubstring_eq_spec check v start len r h

/-- binary arrays are never rejected -/
theorem substring_binary_total (v : List Nat) (start : Int) (len : Option Nat) :
    byteSubstring false v start len = .ok (substrSpec v start len) := by
  cases h : byteSubstring false v start len with
  | err => simp [byteSubstring] at h
  | ok r => rw [byteSubstring_eq_spec false v start len r h]

/-- **`substring_by_char`, UTF-8 path** (`utf8_bounds`): the bytes cut out are exactly the
encoding of the character-indexed substring — always valid UTF-8, never an error. -/
theorem substring_by_char_utf8 (s : List Char) (start : Int) (len : Option Nat) :
    substringByChar false s start len = encode (substrChars s start len) :=
  substringByChar_utf8 s start len

/-- **`substring_by_char`, ASCII fast path** (`ascii_bounds`, taken when `array.is_ascii()`):
byte arithmetic equals character arithmetic. -/
theorem substring_by_char_ascii (s : List Char) (start : Int) (len : Option Nat)
    (hs : isAsciiStr s = true) :
    substringByChar true s start len = encode (substrChars s start len) :=
  substringByChar_ascii s start len hs

example : substringByChar false ['a', 'é', '€', 'b'] (-3) (some 2) = encode ['é', '€'] := by decide

/-! ## length / concatenation -/

/-- `concat_elements`: the concatenated bytes are the encoding of the concatenated strings
(hence valid UTF-8). -/
theorem concat_valid (a b : List Char) : concatModel a b = encode (a ++ b) := concatModel_eq a b

/-- `bit_length` is 8 × `length` (the factor is read from the source on every run). -/
theorem bit_length_eq (s : List Char) : bitLengthModel s = 8 * lengthModel s := by
  rw [bitLengthModel_eq]; rfl

/-! ## regexp_is_match with per-row patterns and flags -/

/-- **The per-batch regex cache is transparent**: the loop of `regexp_is_match` (compiled
expressions cached in a map keyed by the complete pattern `(?flags)pattern`) returns, for every
list of rows and every regex engine, exactly what matching each row on its own returns — row `i`
is matched with `pattern_i` under `flags_i`; the first row that does not compile aborts the call. -/
theorem regexp_cache_transparent {R : Type} (compile : List Char → Option R) (isMatch : R → List Char → Bool)
    (rows : List RxRow) :
    regexpIsMatchModel compile isMatch rows = rxSpecAll compile isMatch rows :=
  regexpIsMatchModel_eq_spec compile isMatch rows

/-- **Row independence**: the answer at position `i` is a function of row `i` alone (its value,
pattern and flags) — no other row of the batch, earlier or later, influences it. -/
theorem regexp_rows_independent {R : Type} (compile : List Char → Option R) (isMatch : R → List Char → Bool)
    (rows : List RxRow) (out : List (Option Bool))
    (h : regexpIsMatchModel compile isMatch rows = some out) :
    out.length = rows.length ∧
    ∀ i (h1 : i < rows.length) (h2 : i < out.length), rxRowSpec compile isMatch rows[i] = some out[i] := by
  rw [regexp_cache_transparent] at h
  exact rxSpec_rows_independent compile isMatch rows out h

/-- **Order independence**: permuting the rows permutes the answers. -/
theorem regexp_order_independent {R : Type} (compile : List Char → Option R) (isMatch : R → List Char → Bool)
    (rows rows' : List RxRow) (out : List (Option Bool)) (hp : rows.Perm rows')
    (h : regexpIsMatchModel compile isMatch rows = some out) :
    ∃ out', regexpIsMatchModel compile isMatch rows' = some out' ∧ out.Perm out' := by
  rw [regexp_cache_transparent] at h ⊢
  exact rxSpec_perm compile isMatch rows rows' out hp h

/-- the cache key separates a flagged pattern from the same pattern without flags (and, being the
text that is compiled, two rows share an entry only when they compile the same expression) -/
theorem regexp_cache_key_separates_flags (p f : List Char) :
    completePattern p (some f) ≠ completePattern p none := completePattern_flag_ne p f

/-- non-vacuity: a toy engine (compile = identity, match = "value starts with the expression") on
the same pattern under two different flags -/
example : regexpIsMatchModel (R := List Char) some (fun re v => re.isPrefixOf v)
    [⟨some ['(', '?', 'i', ')', 'a'], some ['a'], some ['i']⟩, ⟨some ['(', '?', 'i', ')', 'a'], some ['a'], none⟩]
    = some [some true, some false] := by decide

/-- **source-shape pins**: the guard expressions of `Predicate::like` / `ilike`
(`is_ascii && pattern.is_ascii()`, the order Eq → StartsWith → EndsWith → Contains → Regex, the
slices tested), `contains_like_pattern` (memchr3 over `%`, `_`, `\`), the operands of
`byte_substring`'s bounds (each wrapped in `check_char_boundary`, overflow-safe), the skipping of
null slots, the saturation of `start` / `length` into the offset type, `nth_back(back - 1)` and the
regex cache of `regexp_is_match` / `regexp_match` (keyed by `format!("(?{flag}){pattern}")`) are
re-read from the source on every run by regular expressions spanning the whole expression; an
edit makes the item LOST (value 0) and this theorem — and those built on the values — fail. -/
theorem source_shape_pins :
    LIKE_GUARD_STARTSWITH = 1 ∧ LIKE_GUARD_ENDSWITH = 1 ∧ LIKE_GUARD_CONTAINS_START = 1 ∧
    LIKE_GUARD_CONTAINS_END = 1 ∧ LIKE_TRIM_END = 1 ∧ LIKE_TRIM_START = 1 ∧
    LIKE_CONTAINS_TRIM_START = 1 ∧ LIKE_CONTAINS_TRIM_END = 1 ∧ LIKE_SPECIAL_COUNT = 3 ∧
    ILIKE_TRIM_END = 1 ∧ ILIKE_GUARD_STARTSWITH = 1 ∧ ILIKE_TRIM_START = 1 ∧ ILIKE_GUARD_ENDSWITH = 1 ∧
    SUBSTR_POS_BASE = 0 ∧ SUBSTR_POS_CLAMP = 1 ∧ SUBSTR_NEG_BASE = 1 ∧ SUBSTR_END_CLAMP = 1 ∧
    SUBSTR_SAT_I32 = 32 ∧ SUBSTR_SAT_I64 = 64 ∧ SUBSTR_SAT_VIEW = 64 ∧ SUBSTR_NULL_SKIP = 1 ∧
    SUBSTRC_NTH_BACK_ADJ = 1 ∧ BIT_LENGTH_FACTOR = 8 ∧ BIT_LENGTH_FACTOR_VIEW = 8 ∧
    REGEXP_CACHE_KEY = 3 ∧ REGEXP_MATCH_CACHE_KEY = 1 := by decide

theorem bit_length_view_eq (s : List Char) : bitLengthModelView s = 8 * lengthModel s := by
  simp [bitLengthModelView, lengthModel, ArrowModel.Generated.C20.BIT_LENGTH_FACTOR_VIEW, Nat.mul_comm]

/-- non-vacuity of the folding hypothesis: ASCII folding itself satisfies it -/
example (p s : List Char) (hp : isAsciiStr p = true) (hs : isAsciiStr s = true) :
    (classifyILike p true).eval asciiFoldEq s = ilikeAscii p s :=
  ilike_ascii_fast_path asciiFoldEq (fun _ _ _ _ => rfl) p s hp hs

end ArrowModel.C20
