/-
C20 — specification: the "straightforward definition on Unicode scalar values" the
property appeals to.  Strings are `List Char` (a `Char` is a Unicode scalar value), byte
strings are `List Nat`.  Import-free.
-/
namespace ArrowModel.C20

/-! ## LIKE patterns -/

/-- a LIKE pattern element -/
inductive Tok where
  /-- a literal character -/
  | lit (c : Char)
  /-- `_`: exactly one character -/
  | one
  /-- `%`: any sequence of characters (including none, including newlines) -/
  | many
  deriving Repr, DecidableEq

/-- Pattern tokeniser.  Escape rule **as arrow-string implements it** (`regex_like`):
a backslash makes the *next character, whatever it is,* a literal (so `\%`, `\_`, `\\` are
the literal `%`, `_`, `\`, and `\a` is the literal `a` — the backslash is dropped); a
*trailing* backslash (nothing follows) is a literal backslash (Snowflake behaviour; not an
error as in PostgreSQL). -/
def tokenise : List Char → List Tok
  | [] => []
  | '\\' :: [] => [.lit '\\']
  | '\\' :: c :: rest => .lit c :: tokenise rest
  | '%' :: rest => .many :: tokenise rest
  | '_' :: rest => .one :: tokenise rest
  | c :: rest => .lit c :: tokenise rest

/-- `f` holds for some suffix of `s` (including `s` itself and `[]`) -/
def anySuffix (f : List Char → Bool) : List Char → Bool
  | [] => f []
  | x :: s => f (x :: s) || anySuffix f s

/-- LIKE matching, generic in the relation `eqv` used to compare a pattern literal with a
subject character (`eqv = (· == ·)` for LIKE; a case-folding relation for ILIKE).
`_` consumes exactly one character, `%` any sequence — no character is special on the
subject side (newlines included).  The whole subject must be consumed. -/
def likeMatchG (eqv : Char → Char → Bool) : List Tok → List Char → Bool
  | [], s => s.isEmpty
  | .lit c :: p, s =>
    match s with
    | [] => false
    | x :: s => eqv c x && likeMatchG eqv p s
  | .one :: p, s =>
    match s with
    | [] => false
    | _ :: s => likeMatchG eqv p s
  | .many :: p, s => anySuffix (likeMatchG eqv p) s

/-- SQL `LIKE` on Unicode scalar values -/
def likeMatch : List Tok → List Char → Bool := likeMatchG (· == ·)

/-- `s LIKE p` for a pattern given as text -/
def like (p s : List Char) : Bool := likeMatch (tokenise p) s

/-- ASCII lower-casing of a character (identity outside `A`–`Z`) -/
def asciiLower (c : Char) : Char :=
  if 'A' ≤ c ∧ c ≤ 'Z' then Char.ofNat (c.toNat + 32) else c

/-- equality up to ASCII case (simple case folding restricted to ASCII) -/
def asciiFoldEq (a b : Char) : Bool := asciiLower a == asciiLower b

/-- `s ILIKE p` when pattern and subject are ASCII -/
def ilikeAscii (p s : List Char) : Bool := likeMatchG asciiFoldEq (tokenise p) s

/-! ## prefix / suffix / infix on characters -/

def isPrefix (p s : List Char) : Bool := p.isPrefixOf s
def isSuffix (p s : List Char) : Bool := p.isSuffixOf s
/-- `p` occurs in `s` as a contiguous run of characters -/
def isInfix (p s : List Char) : Bool := anySuffix (fun t => p.isPrefixOf t) s

/-- pointwise-related prefix test (for the case-insensitive variants) -/
def isPrefixG (eqv : Char → Char → Bool) : List Char → List Char → Bool
  | [], _ => true
  | _ :: _, [] => false
  | a :: p, b :: s => eqv a b && isPrefixG eqv p s

/-- pointwise-related equality -/
def eqG (eqv : Char → Char → Bool) : List Char → List Char → Bool
  | [], [] => true
  | a :: p, b :: s => eqv a b && eqG eqv p s
  | _, _ => false

/-! ## UTF-8 -/

/-- UTF-8 encoding of one scalar value (RFC 3629), 1–4 bytes -/
def encodeCode (c : Nat) : List Nat :=
  if c < 0x80 then [c]
  else if c < 0x800 then [0xC0 + c / 64, 0x80 + c % 64]
  else if c < 0x10000 then [0xE0 + c / 4096, 0x80 + c / 64 % 64, 0x80 + c % 64]
  else [0xF0 + c / 262144, 0x80 + c / 4096 % 64, 0x80 + c / 64 % 64, 0x80 + c % 64]

def encodeChar (c : Char) : List Nat := encodeCode c.toNat

/-- UTF-8 encoding of a string -/
def encode : List Char → List Nat
  | [] => []
  | c :: s => encodeChar c ++ encode s

/-- a byte string is valid UTF-8 iff it is the encoding of some scalar-value sequence -/
def ValidUtf8 (bs : List Nat) : Prop := ∃ s : List Char, bs = encode s

/-! ## substring / length / concatenation -/

/-- clamp a (possibly negative = from the end) start index into `[0, n]` -/
def clampStart (n : Nat) (start : Int) : Nat :=
  if start ≥ 0 then min start.toNat n else n - min (-start).toNat n

/-- generic substring on a sequence: `start ≥ 0` counts from the front, `start < 0` from the
back; `len = none` means "to the end"; everything is clamped to the sequence. -/
def substrSpec {α} (xs : List α) (start : Int) (len : Option Nat) : List α :=
  let a := clampStart xs.length start
  match len with
  | none => xs.drop a
  | some l => (xs.drop a).take l

/-- character-indexed substring (`substring_by_char`) -/
def substrChars (s : List Char) (start : Int) (len : Option Nat) : List Char := substrSpec s start len

/-- `length`: number of bytes of the UTF-8 encoding (arrow's `length` is byte length) -/
def byteLength (s : List Char) : Nat := (encode s).length
def bitLength (s : List Char) : Nat := 8 * (encode s).length

end ArrowModel.C20
