import ArrowModel.Common.Proto
import ArrowModel.C09.Physical
import ArrowModel.C09.Driver
import ArrowModel.C02.Spec
import ArrowModel.C02.Model
/-
C02 driver.  Arrays are given in the C09 physical dump grammar
`A(type;len;offset;nulls;buffers;children)` (see `ArrowModel/C09/Driver.lean`; the validity
bitmap shares the array's offset).

  C02 eq <A> <B>            → `eq=<equalModel> spec=<logicallyEqualB>`; `MODEL-SPEC-MISMATCH …` if they differ
  C02 dec <A>               → the decoded logical column (`decode`), i.e. what accessors must read back
  C02 slice <o> <l> <A>     → `decode (sliceModel A o l)`; checked against `sliceSpec o l (decode A)`
  C02 take <idx,…> <A>      → `decode (takeFixed A idx)`; checked against `takeSpec idx (decode A)`
  C02 filter <bits> <A>     → `decode (filterFixed A mask)`; checked against `filterSpec mask (decode A)`
  C02 col …                 → `SKIP` (oracle-only cases: read-back, kernel battery, commutation)

Logical column syntax: values separated by `,` (`-` = empty column); `N` null, `b0|b1` bool,
`x<hex>` bytes (fixed-width values little-endian, strings as UTF-8), `[v,…]` list, `{v,…}` struct.
`SKIP`: a type outside the model (union), an array that is not well-formed for the specification
validator, a struct node with a non-zero offset or a run-ends child with a non-zero offset (the
specification and arrow-rs read these differently, see props/C02.json).
-/
namespace ArrowModel.C02
open ArrowModel.Proto ArrowModel.Physical

mutual
partial def showVal : Val → String
  | .null => "N"
  | .bool b => if b then "b1" else "b0"
  | .int i => s!"i{i}"
  | .bytes bs => if bs.isEmpty then "x" else "x" ++ toHex bs
  | .list vs => "[" ++ ",".intercalate (vs.map showVal) ++ "]"
  | .struct vs => "{" ++ ",".intercalate (vs.map showVal) ++ "}"
  | .union i v => s!"u{i}:" ++ showVal v
end

def showCol (c : List Val) : String := if c.isEmpty then "-" else ",".intercalate (c.map showVal)

def showOptCol : Option (List Val) → String
  | some c => showCol c
  | none => "UNDECODABLE"

mutual
/-- no struct node with a non-zero offset, no run-ends child with a non-zero offset -/
partial def plainOffsets : ArrayData → Bool
  | ⟨t, _, o, _, _, cs⟩ =>
    (match t with
     | .struct _ => o == 0
     | .ree _ _ => (match cs with | re :: _ => re.offset == 0 | [] => true)
     | _ => true) && cs.all plainOffsets
end

def covered (d : ArrayData) : Bool := modelled d.type && wellFormedB d && plainOffsets d

def parseMask (s : String) : Option (List Bool) :=
  if s = "-" then some [] else s.toList.mapM (fun c => if c = '1' then some true else if c = '0' then some false else none)

def checked (model spec : Option (List Val)) : String :=
  if model = spec then showOptCol model
  else s!"MODEL-SPEC-MISMATCH model={showOptCol model} spec={showOptCol spec}"

def fixedWidth : DType → Option Nat
  | .prim w => some w
  | .fsb w => some w
  | _ => none

def handle (toks : List String) : String :=
  match toks with
  | ["eq", a, b] =>
    match C09.parseArray a, C09.parseArray b with
    | some a, some b =>
      if !(covered a && covered b) then "SKIP" else
      let m := equalModel a b
      let s := logicallyEqualB a b
      if m == s then s!"eq={showBool m} spec={showBool s}"
      else s!"MODEL-SPEC-MISMATCH eq={showBool m} spec={showBool s}"
    | _, _ => "bad-op"
  | ["dec", a] =>
    match C09.parseArray a with
    | some a => if !(wellFormedB a && plainOffsets a) then "SKIP" else showOptCol (decode a)
    | none => "bad-op"
  | ["slice", o, l, a] =>
    match o.toNat?, l.toNat?, C09.parseArray a with
    | some o, some l, some a =>
      if !(wellFormedB a && plainOffsets a) || a.len < o + l then "SKIP" else
      checked (decode (sliceModel a o l)) ((decode a).map (sliceSpec o l))
    | _, _, _ => "bad-op"
  | ["take", idx, a] =>
    match parseList String.toNat? idx, C09.parseArray a with
    | some idx, some a =>
      match fixedWidth a.type with
      | some w =>
        if !wellFormedB a then "SKIP" else
        match takeFixed w a idx with
        | some r => checked (decode r) ((decode a).bind (takeSpec idx))
        | none => if ((decode a).bind (takeSpec idx)).isNone then "ERR" else "MODEL-SPEC-MISMATCH model=ERR"
      | none => "SKIP"
    | _, _ => "bad-op"
  | ["filter", mask, a] =>
    match parseMask mask, C09.parseArray a with
    | some mask, some a =>
      match fixedWidth a.type with
      | some w =>
        if !wellFormedB a then "SKIP" else
        match filterFixed w a mask with
        | some r => checked (decode r) ((decode a).map (filterSpec mask))
        | none => "ERR"
      | none => "SKIP"
    | _, _ => "bad-op"
  | "col" :: _ => "SKIP"
  | _ => "bad-op"

end ArrowModel.C02
