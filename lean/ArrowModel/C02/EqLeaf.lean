import ArrowModel.C02.Lemmas
/-
C02 helper lemmas for the leaf cases of `equalModel`: `BitSliceIterator` / `contains_nulls`,
byte-range chunking, `equal_nulls`, the declared null count, decoding of fixed-width leaves and
the three paths of `primitive_equal` / `fixed_binary_equal`.
-/
namespace ArrowModel.C02
open ArrowModel.Physical

/-! ### `bitSlices` -/

theorem bitSlicesAux_all_true : ∀ (l : List Bool) (pos s : Nat), (∀ b ∈ l, b = true) →
    bitSlicesAux l pos (some s) = [(s, pos + l.length)]
  | [], pos, s, _ => by simp [bitSlicesAux]
  | true :: r, pos, s, h => by
    have := bitSlicesAux_all_true r (pos + 1) s (fun b hb => h b (List.mem_cons_of_mem _ hb))
    simp [bitSlicesAux, this]; omega
  | false :: r, pos, s, h => by simp at h

/-- every index covered by a slice is a set bit, every set bit is covered, slices stay in range -/
theorem bitSlicesAux_spec : ∀ (l : List Bool) (pos : Nat) (cur : Option Nat),
    (∀ s, cur = some s → s ≤ pos) →
    (∀ p ∈ bitSlicesAux l pos cur, p.1 ≤ p.2 ∧ p.2 ≤ pos + l.length ∧
        (∀ i, p.1 ≤ i → i < p.2 → (∃ s, cur = some s ∧ s ≤ i ∧ i < pos) ∨ (pos ≤ i ∧ l[i - pos]? = some true))) ∧
    (∀ i, ((∃ s, cur = some s ∧ s ≤ i ∧ i < pos) ∨ (pos ≤ i ∧ l[i - pos]? = some true)) →
        ∃ p ∈ bitSlicesAux l pos cur, p.1 ≤ i ∧ i < p.2)
  | [], pos, none, _ => by simp [bitSlicesAux]
  | [], pos, some s, hc => by
    have := hc s rfl
    simp only [bitSlicesAux]
    refine ⟨fun p hp => ?_, fun i hi => ?_⟩
    · rw [List.mem_singleton] at hp
      subst hp
      exact ⟨this, by simp, fun i h1 h2 => Or.inl ⟨s, rfl, h1, h2⟩⟩
    · rcases hi with ⟨s', hs', h4, h5⟩ | ⟨_, h5⟩
      · cases hs'; exact ⟨(s, pos), List.mem_singleton.2 rfl, h4, h5⟩
      · simp at h5
  | true :: r, pos, none, _ => by
    have ih := bitSlicesAux_spec r (pos + 1) (some pos) (by intro s h; cases h; omega)
    simp only [bitSlicesAux]
    refine ⟨fun p hp => ?_, fun i hi => ?_⟩
    · obtain ⟨h1, h2, h3⟩ := ih.1 p hp
      refine ⟨h1, by simp; omega, fun i hi1 hi2 => ?_⟩
      right
      rcases h3 i hi1 hi2 with ⟨s, hs, h4, h5⟩ | ⟨h4, h5⟩
      · cases hs
        have : i = pos := by omega
        subst this; simp
      · refine ⟨by omega, ?_⟩
        have : i - pos = (i - (pos + 1)) + 1 := by omega
        rw [this]; simpa using h5
    · apply ih.2
      rcases hi with ⟨s, hs, _⟩ | ⟨h4, h5⟩
      · cases hs
      · by_cases hip : i = pos
        · left; exact ⟨pos, rfl, by omega, by omega⟩
        · right
          refine ⟨by omega, ?_⟩
          have : i - pos = (i - (pos + 1)) + 1 := by omega
          rw [this] at h5; simpa using h5
  | true :: r, pos, some s, hc => by
    have hs := hc s rfl
    have ih := bitSlicesAux_spec r (pos + 1) (some s) (by intro s' h; cases h; omega)
    simp only [bitSlicesAux]
    refine ⟨fun p hp => ?_, fun i hi => ?_⟩
    · obtain ⟨h1, h2, h3⟩ := ih.1 p hp
      refine ⟨h1, by simp; omega, fun i hi1 hi2 => ?_⟩
      rcases h3 i hi1 hi2 with ⟨s', hs', h4, h5⟩ | ⟨h4, h5⟩
      · cases hs'
        by_cases hip : i = pos
        · right; subst hip; simp
        · left; exact ⟨s, rfl, h4, by omega⟩
      · right
        refine ⟨by omega, ?_⟩
        have : i - pos = (i - (pos + 1)) + 1 := by omega
        rw [this]; simpa using h5
    · apply ih.2
      rcases hi with ⟨s', hs', h4, h5⟩ | ⟨h4, h5⟩
      · cases hs'; left; exact ⟨s, rfl, h4, by omega⟩
      · by_cases hip : i = pos
        · left; exact ⟨s, rfl, by omega, by omega⟩
        · right
          refine ⟨by omega, ?_⟩
          have : i - pos = (i - (pos + 1)) + 1 := by omega
          rw [this] at h5; simpa using h5
  | false :: r, pos, none, _ => by
    have ih := bitSlicesAux_spec r (pos + 1) none (by intro s h; cases h)
    simp only [bitSlicesAux]
    refine ⟨fun p hp => ?_, fun i hi => ?_⟩
    · obtain ⟨h1, h2, h3⟩ := ih.1 p hp
      refine ⟨h1, by simp; omega, fun i hi1 hi2 => ?_⟩
      right
      rcases h3 i hi1 hi2 with ⟨s, hs, _⟩ | ⟨h4, h5⟩
      · cases hs
      · refine ⟨by omega, ?_⟩
        have : i - pos = (i - (pos + 1)) + 1 := by omega
        rw [this]; simpa using h5
    · apply ih.2
      rcases hi with ⟨s, hs, _⟩ | ⟨h4, h5⟩
      · cases hs
      · by_cases hip : i = pos
        · subst hip; simp at h5
        · right
          refine ⟨by omega, ?_⟩
          have : i - pos = (i - (pos + 1)) + 1 := by omega
          rw [this] at h5; simpa using h5
  | false :: r, pos, some s, hc => by
    have hs := hc s rfl
    have ih := bitSlicesAux_spec r (pos + 1) none (by intro s h; cases h)
    simp only [bitSlicesAux]
    refine ⟨fun p hp => ?_, fun i hi => ?_⟩
    · rcases List.mem_cons.1 hp with hp | hp
      · subst hp
        refine ⟨hs, by simp, fun i hi1 hi2 => ?_⟩
        left; exact ⟨s, rfl, hi1, hi2⟩
      · obtain ⟨h1, h2, h3⟩ := ih.1 p hp
        refine ⟨h1, by simp; omega, fun i hi1 hi2 => ?_⟩
        right
        rcases h3 i hi1 hi2 with ⟨s, hs, _⟩ | ⟨h4, h5⟩
        · cases hs
        · refine ⟨by omega, ?_⟩
          have : i - pos = (i - (pos + 1)) + 1 := by omega
          rw [this]; simpa using h5
    · rcases hi with ⟨s', hs', h4, h5⟩ | ⟨h4, h5⟩
      · cases hs'
        exact ⟨(s, pos), List.mem_cons_self, h4, h5⟩
      · by_cases hip : i = pos
        · subst hip; simp at h5
        · obtain ⟨p, hp, hp2⟩ := ih.2 i (Or.inr ⟨by omega, by
            have : i - pos = (i - (pos + 1)) + 1 := by omega
            rw [this] at h5; simpa using h5⟩)
          exact ⟨p, List.mem_cons_of_mem _ hp, hp2⟩

theorem bitSlices_spec (l : List Bool) :
    (∀ p ∈ bitSlices l, p.1 ≤ p.2 ∧ p.2 ≤ l.length ∧ ∀ i, p.1 ≤ i → i < p.2 → l[i]? = some true) ∧
    (∀ i, l[i]? = some true → ∃ p ∈ bitSlices l, p.1 ≤ i ∧ i < p.2) := by
  have h := bitSlicesAux_spec l 0 none (by intro s h; cases h)
  refine ⟨fun p hp => ?_, fun i hi => ?_⟩
  · obtain ⟨h1, h2, h3⟩ := h.1 p hp
    refine ⟨h1, by simpa using h2, fun i hi1 hi2 => ?_⟩
    rcases h3 i hi1 hi2 with ⟨s, hs, _⟩ | ⟨_, h5⟩
    · cases hs
    · simpa using h5
  · exact h.2 i (Or.inr ⟨Nat.zero_le _, by simpa using hi⟩)

theorem nullBits_length (n : Nulls) (s len : Nat) : (nullBits n s len).length = len := by
  simp [nullBits]

theorem nullBits_getElem? (n : Nulls) (s len i : Nat) :
    (nullBits n s len)[i]? = if i < len then some (nbit n (s + i)) else none := by
  simp [nullBits]
  split <;> simp_all

/-- `contains_nulls` is false exactly when every bit of the range is set -/
theorem containsNulls_eq_false_iff (n : Nulls) (off len : Nat) :
    containsNulls (some n) off len = false ↔ ∀ i, i < len → nbit n (off + i) = true := by
  unfold containsNulls
  constructor
  · intro h i hi
    have hs := bitSlices_spec (nullBits n off len)
    cases hh : (bitSlices (nullBits n off len)).head? with
    | none => simp [hh] at h; omega
    | some p =>
      obtain ⟨s, e⟩ := p
      simp [hh] at h
      have hp : (s, e) ∈ bitSlices (nullBits n off len) := List.mem_of_mem_head? hh
      have := (hs.1 _ hp).2.2 i (by simp [h.1]) (by simp [h.2, hi])
      rw [nullBits_getElem?] at this
      simpa [hi] using this
  · intro h
    cases len with
    | zero => simp [nullBits, bitSlices, bitSlicesAux]
    | succ m =>
      have hall : ∀ b ∈ nullBits n off (m + 1), b = true := by
        intro b hb
        simp [nullBits] at hb
        obtain ⟨i, hi, rfl⟩ := hb
        exact h i hi
      obtain ⟨r, hr⟩ : ∃ r, nullBits n off (m + 1) = true :: r := by
        have hl := nullBits_length n off (m + 1)
        cases hq : nullBits n off (m + 1) with
        | nil => simp [hq] at hl
        | cons b r => exact ⟨r, by rw [hall b (by simp [hq])]⟩
      have hl := nullBits_length n off (m + 1)
      simp only
      rw [hr] at hl hall ⊢
      simp only [bitSlices, bitSlicesAux]
      rw [bitSlicesAux_all_true _ _ _ (fun b hb => hall b (List.mem_cons_of_mem _ hb))]
      simp at hl ⊢
      omega

theorem containsNulls_none (off len : Nat) : containsNulls none off len = false := rfl

/-! ### byte ranges -/

/-- a range of `n` chunks of `w` bytes is equal iff every chunk is -/
theorem take_drop_chunks (w : Nat) (l r : List Nat) : ∀ (n ls rs : Nat),
    ls + n * w ≤ l.length → rs + n * w ≤ r.length →
    ((l.drop ls).take (n * w) = (r.drop rs).take (n * w) ↔
      ∀ i, i < n → (l.drop (ls + i * w)).take w = (r.drop (rs + i * w)).take w)
  | 0, ls, rs, _, _ => by simp
  | n + 1, ls, rs, hl, hr => by
    have e : (n + 1) * w = w + n * w := by rw [Nat.add_mul]; omega
    rw [e, List.take_add, List.take_add, List.drop_drop, List.drop_drop]
    have ih := take_drop_chunks w l r n (ls + w) (rs + w) (by omega) (by omega)
    constructor
    · intro h
      have hlen : (List.take w (List.drop ls l)).length = (List.take w (List.drop rs r)).length := by
        simp; omega
      obtain ⟨h1, h2⟩ := List.append_inj h hlen
      intro i hi
      cases i with
      | zero => simpa using h1
      | succ j =>
        have := ih.1 h2 j (by omega)
        have e1 : ls + (j + 1) * w = ls + w + j * w := by rw [Nat.add_mul]; omega
        have e2 : rs + (j + 1) * w = rs + w + j * w := by rw [Nat.add_mul]; omega
        rw [e1, e2]; exact this
    · intro h
      have h0 := h 0 (by omega)
      simp at h0
      rw [h0]
      congr 1
      apply ih.2
      intro j hj
      have := h (j + 1) (by omega)
      have e1 : ls + (j + 1) * w = ls + w + j * w := by rw [Nat.add_mul]; omega
      have e2 : rs + (j + 1) * w = rs + w + j * w := by rw [Nat.add_mul]; omega
      rw [e1, e2] at this; exact this

theorem zip_self_all {α} (f : α × α → Bool) : ∀ (l : List α), (l.zip l).all f = l.all (fun x => f (x, x))
  | [] => rfl
  | x :: l => by simp [zip_self_all f l]

/-- the `w` bytes of the slot at physical position `p` -/
def slotBytes (buf : List Nat) (w p : Nat) : List Nat := (buf.drop (p * w)).take w

theorem isValid_none {d : ArrayData} (h : d.nulls = none) (i : Nat) : d.isValid i = true := by
  simp [ArrayData.isValid, ArrayData.validAt, h]

theorem isValid_some {d : ArrayData} {n : Nulls} (h : d.nulls = some n) (i : Nat) : d.isValid i = nbit n i := by
  simp [ArrayData.isValid, ArrayData.validAt, h, nbit]

theorem nullBits_congr {na nb : Nulls} {sa sb n : Nat} (h : ∀ i, i < n → nbit na (sa + i) = nbit nb (sb + i)) :
    nullBits na sa n = nullBits nb sb n := by
  unfold nullBits
  apply List.map_congr_left
  intro i hi
  exact h i (List.mem_range.1 hi)

/-- **`primitive_equal` / `fixed_binary_equal`** (all three paths: no nulls → one slice compare;
dense nulls → per slot; sparse nulls → zip of `BitSliceIterator`s) return true exactly when
every slot that is valid on the left has the same `w` bytes on both sides — given that the
validity masks agree on the range (checked by `equal_nulls` before) and the buffers cover it. -/
theorem fixedEqual_iff (w : Nat) (a b : ArrayData) (la lb : List Nat) (sa sb n : Nat)
    (hba : a.buffers = [la]) (hbb : b.buffers = [lb])
    (hla : (a.offset + sa + n) * w ≤ la.length) (hlb : (b.offset + sb + n) * w ≤ lb.length)
    (hm : ∀ i, i < n → a.isValid (sa + i) = b.isValid (sb + i)) :
    fixedEqual w a b sa sb n = true ↔
      ∀ i, i < n → a.isValid (sa + i) = true →
        slotBytes la w (a.offset + sa + i) = slotBytes lb w (b.offset + sb + i) := by
  have hla' : a.offset * w + sa * w + n * w ≤ la.length := by
    have : (a.offset + sa + n) * w = a.offset * w + sa * w + n * w := by simp [Nat.add_mul]
    omega
  have hlb' : b.offset * w + sb * w + n * w ≤ lb.length := by
    have : (b.offset + sb + n) * w = b.offset * w + sb * w + n * w := by simp [Nat.add_mul]
    omega
  have hslot : ∀ i, slotBytes la w (a.offset + sa + i) = (la.drop (a.offset * w + sa * w + i * w)).take w := by
    intro i; simp [slotBytes, Nat.add_mul]
  have hslotb : ∀ i, slotBytes lb w (b.offset + sb + i) = (lb.drop (b.offset * w + sb * w + i * w)).take w := by
    intro i; simp [slotBytes, Nat.add_mul]
  have hchunk := take_drop_chunks w la lb n (a.offset * w + sa * w) (b.offset * w + sb * w) hla' hlb'
  unfold fixedEqual
  rw [hba, hbb]
  simp only
  by_cases hc : containsNulls a.nulls sa n = false
  · -- no nulls in the range: one slice comparison
    simp only [hc, Bool.not_false, if_true]
    have hv : ∀ i, i < n → a.isValid (sa + i) = true := by
      intro i hi
      cases hn : a.nulls with
      | none => exact isValid_none hn _
      | some na =>
        rw [isValid_some hn]
        rw [hn] at hc
        exact (containsNulls_eq_false_iff na sa n).1 hc i hi
    simp only [equalLen, List.drop_drop, beq_iff_eq]
    rw [hchunk]
    constructor
    · intro h i hi _; rw [hslot, hslotb]; exact h i hi
    · intro h i hi; rw [← hslot, ← hslotb]; exact h i hi (hv i hi)
  · have hc' : containsNulls a.nulls sa n = true := by simpa using hc
    simp only [hc', Bool.not_true]
    cases hn : a.nulls with
    | none => rw [hn] at hc'; simp [containsNulls] at hc'
    | some na =>
      -- some slot is null on the left, hence on the right: the right has a bitmap
      have hex : ∃ i, i < n ∧ nbit na (sa + i) = false := by
        rw [hn] at hc
        apply Classical.byContradiction
        intro hne
        apply hc
        apply (containsNulls_eq_false_iff na sa n).2
        intro i hi
        cases hv : nbit na (sa + i) with
        | true => rfl
        | false => exact absurd ⟨i, hi, hv⟩ hne
      cases hnb : b.nulls with
      | none =>
        obtain ⟨i, hi, h⟩ := hex
        have := hm i hi
        rw [isValid_some hn, isValid_none hnb, h] at this
        cases this
      | some nb =>
        have hm' : ∀ i, i < n → nbit na (sa + i) = nbit nb (sb + i) := by
          intro i hi
          have := hm i hi
          rwa [isValid_some hn, isValid_some hnb] at this
        simp only [Bool.false_eq_true, if_false]
        have hslice : ∀ i, i < n →
            (equalLen (List.drop (a.offset * w) la) (List.drop (b.offset * w) lb) ((sa + i) * w) ((sb + i) * w) w = true ↔
              slotBytes la w (a.offset + sa + i) = slotBytes lb w (b.offset + sb + i)) := by
          intro i _
          simp [equalLen, slotBytes, List.drop_drop, Nat.add_mul, Nat.add_assoc]
        by_cases hd : denseNulls a = true
        · simp only [hd, if_true, List.all_eq_true, List.mem_range]
          constructor
          · intro h i hi hv
            have := h i hi
            rw [isValid_some hn] at hv
            simp only [hv, hm' i hi ▸ hv, Bool.not_true, Bool.false_or, beq_self_eq_true, Bool.true_and] at this
            exact (hslice i hi).1 this
          · intro h i hi
            cases hv : nbit na (sa + i) with
            | false => simp
            | true =>
              have := h i hi (by rw [isValid_some hn]; exact hv)
              simp only [← hm' i hi, hv, Bool.not_true, Bool.false_or, beq_self_eq_true, Bool.true_and]
              exact (hslice i hi).2 this
        · simp only [hd, Bool.false_eq_true, if_false]
          rw [← nullBits_congr hm', zip_self_all]
          simp only [List.all_eq_true, beq_self_eq_true, Bool.true_and]
          have hs := bitSlices_spec (nullBits na sa n)
          constructor
          · intro h i hi hv
            rw [isValid_some hn] at hv
            obtain ⟨p, hp, hp1, hp2⟩ := hs.2 i (by rw [nullBits_getElem?]; simp [hi, hv])
            have hb := (hs.1 p hp)
            have hpn : p.2 ≤ n := by simpa [nullBits_length] using hb.2.1
            have := h p hp
            simp only [equalLen, List.drop_drop, beq_iff_eq] at this
            have hc2 := take_drop_chunks w la lb (p.2 - p.1) (a.offset * w + (sa + p.1) * w) (b.offset * w + (sb + p.1) * w)
              (by
                have : (a.offset + sa + n) * w = a.offset * w + (sa + p.1) * w + (p.2 - p.1) * w + (n - p.2) * w := by
                  rw [← Nat.add_mul, ← Nat.add_mul, ← Nat.add_mul]; congr 1; omega
                omega)
              (by
                have : (b.offset + sb + n) * w = b.offset * w + (sb + p.1) * w + (p.2 - p.1) * w + (n - p.2) * w := by
                  rw [← Nat.add_mul, ← Nat.add_mul, ← Nat.add_mul]; congr 1; omega
                omega)
            have := hc2.1 this (i - p.1) (by omega)
            have e1 : a.offset * w + (sa + p.1) * w + (i - p.1) * w = (a.offset + sa + i) * w := by
              rw [← Nat.add_mul, ← Nat.add_mul]; congr 1; omega
            have e2 : b.offset * w + (sb + p.1) * w + (i - p.1) * w = (b.offset + sb + i) * w := by
              rw [← Nat.add_mul, ← Nat.add_mul]; congr 1; omega
            rw [e1, e2] at this
            exact this
          · intro h p hp
            have hb := (hs.1 p hp)
            have hpn : p.2 ≤ n := by simpa [nullBits_length] using hb.2.1
            simp only [equalLen, List.drop_drop, beq_iff_eq]
            have hc2 := take_drop_chunks w la lb (p.2 - p.1) (a.offset * w + (sa + p.1) * w) (b.offset * w + (sb + p.1) * w)
              (by
                have : (a.offset + sa + n) * w = a.offset * w + (sa + p.1) * w + (p.2 - p.1) * w + (n - p.2) * w := by
                  rw [← Nat.add_mul, ← Nat.add_mul, ← Nat.add_mul]; congr 1; omega
                omega)
              (by
                have : (b.offset + sb + n) * w = b.offset * w + (sb + p.1) * w + (p.2 - p.1) * w + (n - p.2) * w := by
                  rw [← Nat.add_mul, ← Nat.add_mul, ← Nat.add_mul]; congr 1; omega
                omega)
            apply hc2.2
            intro j hj
            have hv := hb.2.2 (p.1 + j) (by omega) (by omega)
            rw [nullBits_getElem?] at hv
            have hjn : p.1 + j < n := by omega
            simp only [hjn, if_true, Option.some.injEq] at hv
            have := h (p.1 + j) hjn (by rw [isValid_some hn]; exact hv)
            have e1 : a.offset * w + (sa + p.1) * w + j * w = (a.offset + sa + (p.1 + j)) * w := by
              rw [← Nat.add_mul, ← Nat.add_mul]; congr 1; omega
            have e2 : b.offset * w + (sb + p.1) * w + j * w = (b.offset + sb + (p.1 + j)) * w := by
              rw [← Nat.add_mul, ← Nat.add_mul]; congr 1; omega
            rw [e1, e2]
            exact this

/-- `equal_nulls` is true exactly when the validity of the two ranges agrees slot by slot
(a missing bitmap = all valid), whichever of the four (Some/None) cases applies -/
theorem equalNulls_iff (a b : ArrayData) (sa sb n : Nat) :
    equalNulls a b sa sb n = true ↔ ∀ i, i < n → a.isValid (sa + i) = b.isValid (sb + i) := by
  unfold equalNulls
  cases hna : a.nulls with
  | none =>
    cases hnb : b.nulls with
    | none => simp [isValid_none hna, isValid_none hnb]
    | some nb =>
      simp only [Bool.not_eq_true', containsNulls_eq_false_iff]
      constructor
      · intro h i hi; rw [isValid_none hna, isValid_some hnb, h i hi]
      · intro h i hi; have := h i hi; rw [isValid_none hna, isValid_some hnb] at this; exact this.symm
  | some na =>
    cases hnb : b.nulls with
    | none =>
      simp only [Bool.not_eq_true', containsNulls_eq_false_iff]
      constructor
      · intro h i hi; rw [isValid_some hna, isValid_none hnb, h i hi]
      · intro h i hi; have := h i hi; rw [isValid_some hna, isValid_none hnb] at this; exact this
    | some nb =>
      simp only [equalBits, List.all_eq_true, List.mem_range, beq_iff_eq]
      constructor
      · intro h i hi
        rw [isValid_some hna, isValid_some hnb]
        have := h i hi
        simpa [nbit, Nat.add_assoc] using this
      · intro h i hi
        have := h i hi
        rw [isValid_some hna, isValid_some hnb] at this
        simpa [nbit, Nat.add_assoc] using this

/-- under the bitmap rule the declared null count is the number of invalid slots -/
theorem nullCountOf_eq {d : ArrayData} (h : NullsOk d) :
    nullCountOf d = ((List.range d.len).filter (fun i => !d.isValid i)).length := by
  unfold nullCountOf
  unfold NullsOk at h
  cases hn : d.nulls with
  | none => simp [isValid_none hn, List.filter_eq_nil_iff.2]
  | some n =>
    simp only [hn] at h
    obtain ⟨h1, _, h3⟩ := h
    simp only [h3, countNulls, h1]
    congr 1
    apply List.filter_congr
    intro i _
    rw [isValid_some hn]
    simp [nbit, bne]

/-- value of slot `i` of a fixed-width leaf -/
def leafSlot (d : ArrayData) (buf : List Nat) (w i : Nat) : Val :=
  if d.isValid i then .bytes (slotBytes buf w (d.offset + i)) else .null

/-- a well-formed fixed-width leaf decodes, slot by slot, to its valid payloads -/
theorem decode_fixed {d : ArrayData} {w : Nat} {buf : List Nat}
    (ht : d.type = .prim w ∨ d.type = .fsb w) (hn : NullsOk d) (hc : d.children = [])
    (hb : d.buffers = [buf]) (hl : (d.offset + d.len) * w ≤ buf.length) :
    decode d = some ((List.range d.len).map (leafSlot d buf w)) := by
  rw [decode_eq, hc]
  simp only [decodeAll]
  rw [tabulateM_eq_some_iff]
  refine ⟨by simp, fun i hi => ?_⟩
  have hi : i < d.len := by simpa using hi
  have hslot : (d.offset + i) * w + w ≤ buf.length := by
    have : (d.offset + i + 1) * w ≤ (d.offset + d.len) * w := Nat.mul_le_mul_right _ (by omega)
    rw [Nat.add_mul] at this; omega
  have hv : d.validAt i = some (d.isValid i) := by
    unfold ArrayData.isValid ArrayData.validAt
    unfold NullsOk at hn
    cases hnn : d.nulls with
    | none => simp
    | some n =>
      simp only [hnn] at hn
      have : (n.off + i) / 8 < n.bytes.length := by omega
      simp [bitAt, List.getElem?_eq_getElem this]
  have hr : readBytes buf w (d.offset + i) = some (slotBytes buf w (d.offset + i)) := by
    simp [readBytes, sliceChecked, slotBytes, hslot]
  simp only [List.getElem_map, List.getElem_range, leafSlot]
  unfold slotVal
  rw [hv]
  cases hvi : d.isValid i with
  | false => simp
  | true =>
    rcases ht with ht | ht <;> simp [ht, hb, hr]

theorem wf_fixed {d : ArrayData} {w : Nat} (h : WellFormed d) (ht : d.type = .prim w ∨ d.type = .fsb w) :
    NullsOk d ∧ d.children = [] ∧ ∃ buf, d.buffers = [buf] ∧ (d.offset + d.len) * w ≤ buf.length := by
  obtain ⟨t, l, o, n, bs, cs⟩ := d
  rw [WellFormed] at h
  have h1 := h.1
  unfold LocalWF at h1
  simp only at ht
  rcases ht with ht | ht <;> (subst ht; simpa using h1)

theorem leafSlot_eq_iff (a b : ArrayData) (la lb : List Nat) (w i : Nat) :
    leafSlot a la w i = leafSlot b lb w i ↔
      (a.isValid i = b.isValid i ∧ (a.isValid i = true → slotBytes la w (a.offset + i) = slotBytes lb w (b.offset + i))) := by
  unfold leafSlot
  cases a.isValid i <;> cases b.isValid i <;> simp

theorem fixed_core (w : Nat) (a b : ArrayData) (la lb : List Nat)
    (hna : NullsOk a) (hnb : NullsOk b) (hba : a.buffers = [la]) (hbb : b.buffers = [lb])
    (hla : (a.offset + a.len) * w ≤ la.length) (hlb : (b.offset + b.len) * w ≤ lb.length)
    (hlen : a.len = b.len) :
    (nullCountOf a == nullCountOf b && equalNulls a b 0 0 a.len && fixedEqual w a b 0 0 a.len) = true ↔
      (List.range a.len).map (leafSlot a la w) = (List.range b.len).map (leafSlot b lb w) := by
  rw [← hlen, List.map_inj_left]
  simp only [List.mem_range, leafSlot_eq_iff, Bool.and_eq_true, beq_iff_eq]
  rw [equalNulls_iff]
  simp only [Nat.zero_add]
  constructor
  · rintro ⟨⟨_, hm⟩, hf⟩ i hi
    have := (fixedEqual_iff w a b la lb 0 0 a.len hba hbb (by simpa using hla) (by simpa [hlen] using hlb)
      (by simpa using hm)).1 hf i hi
    simp only [Nat.zero_add, Nat.add_zero] at this
    exact ⟨hm i hi, this⟩
  · intro h
    have hm : ∀ i, i < a.len → a.isValid i = b.isValid i := fun i hi => (h i hi).1
    refine ⟨⟨?_, hm⟩, ?_⟩
    · rw [nullCountOf_eq hna, nullCountOf_eq hnb, ← hlen]
      congr 1
      apply List.filter_congr
      intro i hi
      rw [hm i (List.mem_range.1 hi)]
    · apply (fixedEqual_iff w a b la lb 0 0 a.len hba hbb (by simpa using hla) (by simpa [hlen] using hlb)
        (by simpa using hm)).2
      intro i hi hv
      simp only [Nat.zero_add, Nat.add_zero] at hv ⊢
      exact (h i hi).2 hv

end ArrowModel.C02
