import ArrowModel.C02.TakeLemmas
/-
C02: the range form of "`equal_range` is logical equality" (`RangeOK t`), the interface for the
induction over the type tree, and its instances for the fixed-width leaves.
-/
namespace ArrowModel.C02
open ArrowModel.Physical

/-- every buffer of every node consists of bytes -/
def BytesOkTree : ArrayData → Prop
  | ⟨_, _, _, _, bs, cs⟩ => (∀ buf ∈ bs, ∀ x ∈ buf, x < 256) ∧ BytesOkAll cs
where BytesOkAll : List ArrayData → Prop
  | [] => True
  | c :: cs => BytesOkTree c ∧ BytesOkAll cs

theorem BytesOkTree.root {d : ArrayData} (h : BytesOkTree d) : BytesOk d := by
  obtain ⟨t, l, o, n, bs, cs⟩ := d
  rw [BytesOkTree] at h
  exact h.1

/-- **range form of "`equal_range` is logical equality" for the type `t`** — the induction
hypothesis / interface for parents (`list_equal`, `fixed_list_equal`, `struct_equal`,
`dictionary_equal` call `equal_range` on sub-ranges of their children) -/
def RangeOK (t : DType) : Prop :=
  ∀ (a b : ArrayData) (va vb : List Val) (sa sb n : Nat),
    a.type = t → b.type = t → WellFormed a → WellFormed b → BytesOkTree a → BytesOkTree b →
    decode a = some va → decode b = some vb → sa + n ≤ a.len → sb + n ≤ b.len →
    ((equalNulls a b sa sb n && equalValuesT t a b sa sb n) = true ↔ sliceSpec sa n va = sliceSpec sb n vb)

theorem sliceSpec_eq_iff {α} (va vb : List α) (sa sb n : Nat) (ha : sa + n ≤ va.length) (hb : sb + n ≤ vb.length) :
    sliceSpec sa n va = sliceSpec sb n vb ↔ ∀ i, (h : i < n) → va[sa + i]'(by omega) = vb[sb + i]'(by omega) := by
  constructor
  · intro h i hi
    have := congrArg (fun l => l[i]?) h
    simp only [sliceSpec, List.getElem?_take, hi, if_true, List.getElem?_drop] at this
    rw [List.getElem?_eq_getElem (by omega), List.getElem?_eq_getElem (by omega)] at this
    exact Option.some.inj this
  · intro h
    apply List.ext_getElem
    · simp [sliceSpec]; omega
    · intro i h1 h2
      have hi : i < n := by simp [sliceSpec] at h1; omega
      simp only [sliceSpec, List.getElem_take, List.getElem_drop]
      exact h i hi

theorem decode_length {d : ArrayData} {vs : List Val} (h : decode d = some vs) : vs.length = d.len := by
  rw [decode_eq] at h
  cases hc : decodeAll d.children with
  | none => simp [hc] at h
  | some cvs =>
    simp only [hc] at h
    exact ((tabulateM_eq_some_iff _ _ _).1 h).1

theorem leafSlot_eq_iff2 (a b : ArrayData) (la lb : List Nat) (w i j : Nat) :
    leafSlot a la w i = leafSlot b lb w j ↔
      (a.isValid i = b.isValid j ∧ (a.isValid i = true → slotBytes la w (a.offset + i) = slotBytes lb w (b.offset + j))) := by
  unfold leafSlot
  cases a.isValid i <;> cases b.isValid j <;> simp

/-- fixed-width leaves -/
theorem rangeOK_fixed (w : Nat) (t : DType) (ht : t = .prim w ∨ t = .fsb w) : RangeOK t := by
  intro a b va vb sa sb n hta htb hwa hwb _ _ hda hdb hsa hsb
  have hta' : a.type = .prim w ∨ a.type = .fsb w := by rw [hta]; exact ht
  have htb' : b.type = .prim w ∨ b.type = .fsb w := by rw [htb]; exact ht
  obtain ⟨hna, hca, la, hba, hla⟩ := wf_fixed hwa hta'
  obtain ⟨hnb, hcb, lb, hbb, hlb⟩ := wf_fixed hwb htb'
  rw [decode_fixed hta' hna hca hba hla] at hda
  rw [decode_fixed htb' hnb hcb hbb hlb] at hdb
  have hva := Option.some.inj hda
  have hvb := Option.some.inj hdb
  subst hva hvb
  rw [sliceSpec_eq_iff _ _ sa sb n (by simpa using hsa) (by simpa using hsb)]
  have hev : equalValuesT t a b sa sb n = fixedEqual w a b sa sb n := by
    rcases ht with ht | ht <;> rw [ht] <;> simp [equalValuesT]
  rw [hev, Bool.and_eq_true, equalNulls_iff]
  have hla' : (a.offset + sa + n) * w ≤ la.length :=
    Nat.le_trans (Nat.mul_le_mul_right _ (by omega)) hla
  have hlb' : (b.offset + sb + n) * w ≤ lb.length :=
    Nat.le_trans (Nat.mul_le_mul_right _ (by omega)) hlb
  constructor
  · rintro ⟨hm, hf⟩ i hi
    simp only [List.getElem_map, List.getElem_range]
    rw [leafSlot_eq_iff2]
    have := (fixedEqual_iff w a b la lb sa sb n hba hbb hla' hlb' hm).1 hf i hi
    refine ⟨hm i hi, fun hv => ?_⟩
    simpa [Nat.add_assoc] using this hv
  · intro h
    have h' : ∀ i, i < n → leafSlot a la w (sa + i) = leafSlot b lb w (sb + i) := by
      intro i hi
      have := h i hi
      simpa only [List.getElem_map, List.getElem_range] using this
    have hm : ∀ i, i < n → a.isValid (sa + i) = b.isValid (sb + i) :=
      fun i hi => ((leafSlot_eq_iff2 _ _ _ _ _ _ _).1 (h' i hi)).1
    refine ⟨hm, (fixedEqual_iff w a b la lb sa sb n hba hbb hla' hlb' hm).2 ?_⟩
    intro i hi hv
    have := ((leafSlot_eq_iff2 _ _ _ _ _ _ _).1 (h' i hi)).2 hv
    simpa [Nat.add_assoc] using this

end ArrowModel.C02
