import ArrowModel.C02.Spec
import ArrowModel.C02.Model
namespace ArrowModel.C02
open ArrowModel.Physical

theorem map_some_inj {α} : ∀ (a b : List α), a.map some = b.map some → a = b
  | [], b, h => by cases b <;> simp_all
  | x :: a, b, h => by
    cases b with
    | nil => simp at h
    | cons y b => simp at h; rw [h.1, map_some_inj a b h.2]

theorem mapM_eq_some_iff {α β} (f : α → Option β) : ∀ (xs : List α) (ys : List β),
    xs.mapM f = some ys ↔ xs.map f = ys.map some
  | [], ys => by cases ys <;> simp
  | x :: xs, ys => by
    rw [List.mapM_cons]
    cases hfx : f x with
    | none => cases ys <;> simp [hfx]
    | some y =>
      cases hr : xs.mapM f with
      | none =>
        have := mapM_eq_some_iff f xs
        cases ys with
        | nil => simp
        | cons y' ys' =>
          simp [hfx]
          intro _ h
          have := (this ys').2 h
          simp [hr] at this
      | some r =>
        have h1 := (mapM_eq_some_iff f xs r).1 hr
        cases ys with
        | nil => simp
        | cons y' ys' =>
          simp [hfx, h1]
          intro _
          constructor
          · intro h; rw [h]
          · intro h; exact map_some_inj _ _ h

theorem tabulateM_eq_some_iff {α} (n : Nat) (f : Nat → Option α) (vs : List α) :
    tabulateM n f = some vs ↔ vs.length = n ∧ ∀ i, (h : i < vs.length) → f i = some vs[i] := by
  unfold tabulateM
  rw [mapM_eq_some_iff]
  constructor
  · intro h
    have hl : vs.length = n := by
      have := congrArg List.length h
      simpa using this.symm
    refine ⟨hl, fun i hi => ?_⟩
    have := congrArg (fun l => l[i]?) h
    simp [hl ▸ hi, List.getElem?_eq_getElem hi] at this
    have hi' : i < n := hl ▸ hi
    simpa [hi'] using this
  · intro ⟨hl, h⟩
    apply List.ext_getElem
    · simp [hl]
    · intro i h1 h2
      simp at h1 h2
      simp [h i h2]

/-- slot `i` of the zero-copy slice is slot `o + i` of the original (every type constructor) -/
theorem slotVal_slice (d : ArrayData) (cvs : List (List Val)) (o l i : Nat) :
    slotVal (slice d o l) cvs i = slotVal d cvs (o + i) := by
  have hv : (slice d o l).validAt i = d.validAt (o + i) := by
    unfold ArrayData.validAt slice
    cases d.nulls <;> simp [Nulls.slice, Nat.add_assoc]
  unfold slotVal
  rw [hv]
  simp only [slice, Nat.add_assoc]

theorem decode_children_slice (d : ArrayData) (o l : Nat) :
    decode (slice d o l) =
      match decodeAll d.children with
      | none => none
      | some cvs => tabulateM l (fun i => slotVal d cvs (o + i)) := by
  obtain ⟨t, n, off, nulls, bs, cs⟩ := d
  show decode ⟨t, l, off + o, nulls.map (·.slice o l), bs, cs⟩ = _
  rw [decode]
  cases decodeAll cs with
  | none => rfl
  | some cvs =>
    simp only
    congr 1
    funext i
    exact slotVal_slice ⟨t, n, off, nulls, bs, cs⟩ cvs o l i

theorem decode_eq (d : ArrayData) :
    decode d =
      match decodeAll d.children with
      | none => none
      | some cvs => tabulateM d.len (slotVal d cvs) := by
  obtain ⟨t, n, off, nulls, bs, cs⟩ := d
  rw [decode]
  rfl

theorem decodeAll_eq_some_iff : ∀ (cs : List ArrayData) (cvs : List (List Val)),
    decodeAll cs = some cvs ↔ cs.map decode = cvs.map some
  | [], cvs => by cases cvs <;> simp [decodeAll]
  | c :: cs, cvs => by
    rw [decodeAll]
    cases hc : decode c with
    | none => cases cvs <;> simp [hc]
    | some v =>
      cases hr : decodeAll cs with
      | none =>
        cases cvs with
        | nil => simp
        | cons v' cvs' =>
          simp [hc]
          intro _ h
          have := (decodeAll_eq_some_iff cs cvs').2 h
          simp [hr] at this
      | some r =>
        have h1 := (decodeAll_eq_some_iff cs r).1 hr
        cases cvs with
        | nil => simp
        | cons v' cvs' =>
          simp [hc, h1]
          intro _
          constructor
          · intro h; rw [h]
          · intro h; exact map_some_inj _ _ h

end ArrowModel.C02
