import ArrowModel.C02.Lemmas
import ArrowModel.C02.EqLeaf
import ArrowModel.C02.EqBool
import ArrowModel.C02.TakeLemmas
import ArrowModel.C02.EqNested
/-
C02 — property statements.

Vocabulary: `decode : ArrayData → Option (List Val)` is the abstraction function of the shared
physical library (written from the Arrow columnar specification); `LogicallyEqual a b` is
`a.type = b.type ∧ decode a = decode b`; fixed-width values are `Val.bytes` of their
little-endian bytes, so floats are compared by bit pattern, as `arrow-data/src/equal` does.
-/
namespace ArrowModel.C02
open ArrowModel.Physical

/-! ## Theorem 1 — `==` is logical equality -/

/-- **Equality of fixed-width arrays is logical equality** (all primitive types — integers, floats
by bit pattern, decimals, dates/times/intervals — and `FixedSizeBinary`): for well-formed `a b`,
`ArrayData::eq` / `Array::eq` (`equal`, `equal_nulls`, `primitive_equal` / `fixed_binary_equal`
with all three of their paths) holds exactly when the data types coincide and the arrays decode
to the same column.  Offsets, bitmap presence, padding and bytes under null slots play no role. -/
theorem equalModel_fixed_iff {a b : ArrayData} {w : Nat} (hwa : WellFormed a) (hwb : WellFormed b)
    (ht : a.type = .prim w ∨ a.type = .fsb w) :
    equalModel a b = true ↔ LogicallyEqual a b := by
  unfold LogicallyEqual
  by_cases hty : a.type = b.type
  · have htb : b.type = .prim w ∨ b.type = .fsb w := by rw [← hty]; exact ht
    obtain ⟨hna, hca, la, hba, hla⟩ := wf_fixed hwa ht
    obtain ⟨hnb, hcb, lb, hbb, hlb⟩ := wf_fixed hwb htb
    rw [decode_fixed ht hna hca hba hla, decode_fixed htb hnb hcb hbb hlb]
    have hev : equalValuesT a.type a b 0 0 a.len = fixedEqual w a b 0 0 a.len := by
      rcases ht with ht | ht <;> rw [ht] <;> simp [equalValuesT]
    unfold equalModel baseEqual
    rw [hev]
    by_cases hlen : a.len = b.len
    · have := fixed_core w a b la lb hna hnb hba hbb hla hlb hlen
      simp only [hty, hlen, decide_true, beq_self_eq_true, Bool.true_and, true_and, Option.some.injEq] at this ⊢
      rw [← this]
    · constructor
      · intro h; simp [hlen] at h
      · rintro ⟨_, h⟩
        have := congrArg List.length (Option.some.inj h)
        simp at this
        exact absurd this hlen
  · constructor
    · intro h; simp [equalModel, baseEqual, hty] at h
    · rintro ⟨h, _⟩; exact absurd h hty

/-- Int32 `[1, null]`, once compact with a zeroed null slot, once at offset 1 with garbage under
the null and in the padding: both well-formed, logically equal, and `equalModel` says so. -/
example :
    wellFormedB ⟨.prim 4, 2, 0, some ⟨[1], 0, 2, 1⟩, [[1, 0, 0, 0, 0, 0, 0, 0]], []⟩ = true ∧
    wellFormedB ⟨.prim 4, 2, 1, some ⟨[0xfa], 1, 2, 1⟩, [[9, 9, 9, 9, 1, 0, 0, 0, 7, 7, 7, 7]], []⟩ = true ∧
    equalModel ⟨.prim 4, 2, 0, some ⟨[1], 0, 2, 1⟩, [[1, 0, 0, 0, 0, 0, 0, 0]], []⟩
      ⟨.prim 4, 2, 1, some ⟨[0xfa], 1, 2, 1⟩, [[9, 9, 9, 9, 1, 0, 0, 0, 7, 7, 7, 7]], []⟩ = true ∧
    logicallyEqualB ⟨.prim 4, 2, 0, some ⟨[1], 0, 2, 1⟩, [[1, 0, 0, 0, 0, 0, 0, 0]], []⟩
      ⟨.prim 4, 2, 1, some ⟨[0xfa], 1, 2, 1⟩, [[9, 9, 9, 9, 1, 0, 0, 0, 7, 7, 7, 7]], []⟩ = true := by
  decide

/-- **Equality of Boolean arrays is logical equality**: for well-formed Boolean arrays made of
bytes, `==` (`equal_nulls` + `boolean_equal` with the byte-aligned fast path, the unaligned
`equal_bits` path and the null path) holds exactly when the arrays decode to the same column —
whatever the bit offsets. -/
theorem equalModel_bool_iff {a b : ArrayData} (hwa : WellFormed a) (hwb : WellFormed b)
    (hya : BytesOk a) (hyb : BytesOk b) (ht : a.type = .bool) :
    equalModel a b = true ↔ LogicallyEqual a b := by
  unfold LogicallyEqual
  by_cases hty : a.type = b.type
  · have htb : b.type = .bool := by rw [← hty]; exact ht
    obtain ⟨hna, hca, la, hba, hla⟩ := wf_bool hwa ht
    obtain ⟨hnb, hcb, lb, hbb, hlb⟩ := wf_bool hwb htb
    rw [decode_bool ht hna hca hba hla, decode_bool htb hnb hcb hbb hlb]
    have hya' : ∀ x ∈ la, x < 256 := hya la (by rw [hba]; simp)
    have hyb' : ∀ x ∈ lb, x < 256 := hyb lb (by rw [hbb]; simp)
    unfold equalModel baseEqual
    rw [ht]
    simp only [equalValuesT]
    by_cases hlen : a.len = b.len
    · simp only [← ht, hty, hlen, decide_true, beq_self_eq_true, Bool.true_and, true_and, Option.some.injEq]
      rw [← hlen, List.map_inj_left]
      simp only [List.mem_range, boolSlot_eq_iff, Bool.and_eq_true, beq_iff_eq]
      rw [equalNulls_iff]
      have hbe := boolEqual_iff a b la lb 0 0 a.len hba hbb (by simpa using hla) (by simpa [hlen] using hlb) hya' hyb'
      simp only [Nat.zero_add, Nat.add_zero] at hbe ⊢
      rw [hbe]
      constructor
      · rintro ⟨⟨_, hm⟩, hf⟩ i hi
        exact ⟨hm i hi, hf i hi⟩
      · intro h
        have hm : ∀ i, i < a.len → a.isValid i = b.isValid i := fun i hi => (h i hi).1
        refine ⟨⟨?_, hm⟩, fun i hi => (h i hi).2⟩
        rw [nullCountOf_eq hna, nullCountOf_eq hnb, ← hlen]
        congr 1
        apply List.filter_congr
        intro i hi
        rw [hm i (List.mem_range.1 hi)]
    · constructor
      · intro h; simp [hlen] at h
      · rintro ⟨_, h⟩
        have := congrArg List.length (Option.some.inj h)
        simp at this
        exact absurd this hlen
  · constructor
    · intro h; simp [equalModel, baseEqual, hty] at h
    · rintro ⟨h, _⟩; exact absurd h hty

/-- Boolean `[true, null, false]` at bit offset 0 and at bit offset 3 with garbage around it -/
example :
    equalModel ⟨.bool, 3, 0, some ⟨[5], 0, 3, 1⟩, [[1]], []⟩ ⟨.bool, 3, 3, some ⟨[0x2f], 3, 3, 1⟩, [[0xcf]], []⟩ = true ∧
    logicallyEqualB ⟨.bool, 3, 0, some ⟨[5], 0, 3, 1⟩, [[1]], []⟩ ⟨.bool, 3, 3, some ⟨[0x2f], 3, 3, 1⟩, [[0xcf]], []⟩ = true := by
  decide

/-- **`==` is logical equality — what is proved so far**: well-formed arrays of any fixed-width
type (primitives, FixedSizeBinary) or Boolean.  PARTIAL: for Null, Utf8/Binary (+Large), List,
FixedSizeList, Struct, Dictionary and RunEndEncoded the same equivalence is checked by the driver
on every generated pair (`eq=` must equal `spec=`, and both must equal the real `==`), not proved. -/
theorem equalModel_iff_partial {a b : ArrayData} (hwa : WellFormed a) (hwb : WellFormed b)
    (hya : BytesOk a) (hyb : BytesOk b)
    (ht : (∃ w, a.type = .prim w ∨ a.type = .fsb w) ∨ a.type = .bool) :
    equalModel a b = true ↔ (a.type = b.type ∧ decode a = decode b) := by
  rcases ht with ⟨w, ht⟩ | ht
  · exact equalModel_fixed_iff hwa hwb ht
  · exact equalModel_bool_iff hwa hwb hya hyb ht

/-- the three paths of `boolean_equal` on an arbitrary sub-range with arbitrary (independent) bit
offsets of the two operands — the form in which list / struct / fixed-size-list parents call it;
the fast-path guard (`lhs_start`, `rhs_start`, `lhs.offset()`, `rhs.offset()` all multiples of 8)
and its byte indexing `start / 8 + offset / 8` are part of the model, so a guard that lets
`start % 8 + offset % 8 = 8` through makes this theorem false -/
theorem boolEqual_range (a b : ArrayData) (la lb : List Nat) (sa sb n : Nat)
    (hba : a.buffers = [la]) (hbb : b.buffers = [lb])
    (hla : a.offset + sa + n ≤ 8 * la.length) (hlb : b.offset + sb + n ≤ 8 * lb.length)
    (hya : ∀ x ∈ la, x < 256) (hyb : ∀ x ∈ lb, x < 256) :
    boolEqual a b sa sb n = true ↔
      ∀ i, i < n → a.isValid (sa + i) = true → bitOf la (a.offset + sa + i) = bitOf lb (b.offset + sb + i) :=
  boolEqual_iff a b la lb sa sb n hba hbb hla hlb hya hyb

/-- `equal_nulls` compares validity slot by slot in all four (Some/None) combinations: a missing
bitmap equals an all-valid bitmap (the `(Some, None)` case goes through `contains_nulls`) -/
theorem equalNulls_logical (a b : ArrayData) (sa sb n : Nat) :
    equalNulls a b sa sb n = true ↔ ∀ i, i < n → a.isValid (sa + i) = b.isValid (sb + i) :=
  equalNulls_iff a b sa sb n

/-- `contains_nulls` (first `BitSliceIterator` slice ≠ whole range) is exact -/
theorem containsNulls_exact (n : Nulls) (off len : Nat) :
    containsNulls (some n) off len = false ↔ ∀ i, i < len → nbit n (off + i) = true :=
  containsNulls_eq_false_iff n off len

/-- the three paths of `primitive_equal` / `fixed_binary_equal` on an arbitrary sub-range (as
called from list / struct / dictionary parents), see `fixedEqual_iff` -/
theorem fixedEqual_range (w : Nat) (a b : ArrayData) (la lb : List Nat) (sa sb n : Nat)
    (hba : a.buffers = [la]) (hbb : b.buffers = [lb])
    (hla : (a.offset + sa + n) * w ≤ la.length) (hlb : (b.offset + sb + n) * w ≤ lb.length)
    (hm : ∀ i, i < n → a.isValid (sa + i) = b.isValid (sb + i)) :
    fixedEqual w a b sa sb n = true ↔
      ∀ i, i < n → a.isValid (sa + i) = true →
        slotBytes la w (a.offset + sa + i) = slotBytes lb w (b.offset + sb + i) :=
  fixedEqual_iff w a b la lb sa sb n hba hbb hla hlb hm

/-- **`equal_range` on a fixed-width child is logical equality of the addressed rows**: for
well-formed, decodable `a b` of a fixed-width type and any two sub-ranges `[sa, sa+n)`, `[sb, sb+n)`,
`equal_nulls && equal_values` is true iff rows `sa..sa+n` of `decode a` equal rows `sb..sb+n` of
`decode b`.  This is the form parents need (`RangeOK` is the induction interface for
List / FixedSizeList / Struct / Dictionary, whose step lemmas are not proved yet). -/
theorem equalRange_fixed_logical (w : Nat) : RangeOK (.prim w) ∧ RangeOK (.fsb w) :=
  ⟨rangeOK_fixed w _ (Or.inl rfl), rangeOK_fixed w _ (Or.inr rfl)⟩

/-- **Dictionary: `==` is NOT equality of the denoted values when the dictionary holds a null.**
`a = keys [0]` (valid) into values `[null]`, `b = keys [null]` into values `[5]`: both are
well-formed and denote the column `[null]`, but `equal` compares the keys' null count and
bitmaps, so `a != b` (reproduced on the real code: corpus line `C02 eq A(d1s<p1>;1;0;-;00;…)`).
Any theorem `equalModel ↔ decode-equality` for Dictionary therefore needs the hypothesis that
the dictionary values contain no nulls (which is what the generator produces). -/
theorem dict_null_value_not_logical :
    wellFormedB ⟨.dict 1 true (.prim 1), 1, 0, none, [[0]], [⟨.prim 1, 1, 0, some ⟨[0], 0, 1, 1⟩, [[5]], []⟩]⟩ = true ∧
    wellFormedB ⟨.dict 1 true (.prim 1), 1, 0, some ⟨[0], 0, 1, 1⟩, [[0]], [⟨.prim 1, 1, 0, none, [[5]], []⟩]⟩ = true ∧
    logicallyEqualB ⟨.dict 1 true (.prim 1), 1, 0, none, [[0]], [⟨.prim 1, 1, 0, some ⟨[0], 0, 1, 1⟩, [[5]], []⟩]⟩
      ⟨.dict 1 true (.prim 1), 1, 0, some ⟨[0], 0, 1, 1⟩, [[0]], [⟨.prim 1, 1, 0, none, [[5]], []⟩]⟩ = true ∧
    equalModel ⟨.dict 1 true (.prim 1), 1, 0, none, [[0]], [⟨.prim 1, 1, 0, some ⟨[0], 0, 1, 1⟩, [[5]], []⟩]⟩
      ⟨.dict 1 true (.prim 1), 1, 0, some ⟨[0], 0, 1, 1⟩, [[0]], [⟨.prim 1, 1, 0, none, [[5]], []⟩]⟩ = false := by
  decide

/-! ## Theorem 2 — slicing -/

/-- **Slice law (every type constructor of the physical library).**  Reading the zero-copy
slice `[o, o+l)` of an array gives exactly rows `o .. o+l` of the original column: `Array::slice`
/ `ArrayData::slice` (non-struct) only bump `offset`, set `len` and re-base the validity bitmap,
and every accessor adds `offset`. -/
theorem decode_slice {d : ArrayData} {vs : List Val} (o l : Nat)
    (h : decode d = some vs) (hb : o + l ≤ d.len) :
    decode (slice d o l) = some (sliceSpec o l vs) := by
  rw [decode_children_slice]
  rw [decode_eq] at h
  cases hc : decodeAll d.children with
  | none => simp [hc] at h
  | some cvs =>
    simp only [hc] at h ⊢
    rw [tabulateM_eq_some_iff] at h ⊢
    obtain ⟨hl, hv⟩ := h
    have hlen : (sliceSpec o l vs).length = l := by
      simp [sliceSpec]; omega
    refine ⟨hlen, fun i hi => ?_⟩
    have hi' : o + i < vs.length := by omega
    rw [hv (o + i) hi']
    simp [sliceSpec]

example : decode (slice ⟨.prim 1, 3, 0, none, [[7, 8, 9]], []⟩ 1 2) = some [.bytes [8], .bytes [9]] := by
  decide

/-- `ArrayData::slice` as written agrees with the specification slice on every non-struct type -/
theorem sliceModel_eq_slice (d : ArrayData) (o l : Nat) (h : ∀ fs, d.type ≠ .struct fs) :
    sliceModel d o l = slice d o l := by
  obtain ⟨t, n, off, nulls, bs, cs⟩ := d
  cases t <;> simp_all [sliceModel, slice]

/-- hence the slice law for the model of `ArrayData::slice` (non-struct root) -/
theorem decode_sliceModel {d : ArrayData} {vs : List Val} (o l : Nat)
    (hs : ∀ fs, d.type ≠ .struct fs) (h : decode d = some vs) (hb : o + l ≤ d.len) :
    decode (sliceModel d o l) = some (sliceSpec o l vs) := by
  rw [sliceModel_eq_slice d o l hs]; exact decode_slice o l h hb

/-- a two-row struct column `{1},{2}` with a one-byte child -/
def wStruct2 : ArrayData :=
  ⟨.struct (.cons 0 (.prim 1) true .nil), 2, 0, none, [], [⟨.prim 1, 2, 0, none, [[1, 2]], []⟩]⟩

/-- **`ArrayData::slice` on a Struct is not the specification slice**: it bumps the parent offset
*and* slices the children, so under the specification's reading (child slot = parent offset + i,
which is also what `StructArray::from(ArrayData)` does) row 1 can no longer be read: the sliced
array is not even decodable (`make_array(data.slice(1, 1))` panics in arrow-rs), while the
specification slice reads `{2}`. -/
theorem sliceModel_struct_not_spec :
    decode wStruct2 = some [.struct [.bytes [1]], .struct [.bytes [2]]] ∧
    decode (slice wStruct2 1 1) = some [.struct [.bytes [2]]] ∧
    decode (sliceModel wStruct2 1 1) = none := by
  decide

/-! ## Theorem 3 — congruence of physical kernels -/

/-- **Congruence of slicing**: logically equal inputs give logically equal slices (and the
slice of a decodable array is decodable): the result is a function of the logical column. -/
theorem slice_congr {d₁ d₂ : ArrayData} {vs : List Val} (o l : Nat)
    (h₁ : decode d₁ = some vs) (h₂ : decode d₂ = some vs)
    (hb₁ : o + l ≤ d₁.len) (hb₂ : o + l ≤ d₂.len) :
    decode (slice d₁ o l) = decode (slice d₂ o l) := by
  rw [decode_slice o l h₁ hb₁, decode_slice o l h₂ hb₂]

/-- **Physical `take` on fixed-width layouts is a function of the logical column**: decoding
the array built by the model of `take` (gather the `w`-byte payloads — including whatever lies
under null slots — and pack a fresh validity bitmap) gives `takeSpec idx` of the decoded input;
an out-of-bounds index fails on both sides. -/
theorem decode_takeFixed {d : ArrayData} {w : Nat} (hw : WellFormed d)
    (ht : d.type = .prim w ∨ d.type = .fsb w) (idx : List Nat) :
    (takeFixed w d idx).bind decode = (decode d).bind (takeSpec idx) :=
  decode_takeFixed_aux hw ht idx

/-- **Physical `filter` on fixed-width layouts** = `filterSpec` of the decoded column -/
theorem decode_filterFixed {d : ArrayData} {w : Nat} (hw : WellFormed d)
    (ht : d.type = .prim w ∨ d.type = .fsb w) (mask : List Bool) (hm : mask.length = d.len) :
    (filterFixed w d mask).bind decode = (decode d).map (filterSpec mask) :=
  decode_filterFixed_aux hw ht mask hm

/-- **Congruence of `take`**: logically equal inputs (whatever their offsets, bitmaps, padding,
bytes under nulls) give logically equal outputs and the same success / failure outcome -/
theorem takeFixed_congr {d₁ d₂ : ArrayData} {w : Nat} (h₁ : WellFormed d₁) (h₂ : WellFormed d₂)
    (t₁ : d₁.type = .prim w ∨ d₁.type = .fsb w) (t₂ : d₂.type = .prim w ∨ d₂.type = .fsb w)
    (h : decode d₁ = decode d₂) (idx : List Nat) :
    (takeFixed w d₁ idx).bind decode = (takeFixed w d₂ idx).bind decode := by
  rw [decode_takeFixed h₁ t₁, decode_takeFixed h₂ t₂, h]

/-- **Congruence of `filter`** -/
theorem filterFixed_congr {d₁ d₂ : ArrayData} {w : Nat} (h₁ : WellFormed d₁) (h₂ : WellFormed d₂)
    (t₁ : d₁.type = .prim w ∨ d₁.type = .fsb w) (t₂ : d₂.type = .prim w ∨ d₂.type = .fsb w)
    (h : decode d₁ = decode d₂) (mask : List Bool) (m₁ : mask.length = d₁.len) (m₂ : mask.length = d₂.len) :
    (filterFixed w d₁ mask).bind decode = (filterFixed w d₂ mask).bind decode := by
  rw [decode_filterFixed h₁ t₁ mask m₁, decode_filterFixed h₂ t₂ mask m₂, h]

/-- hypotheses are satisfiable by an Int8 array at offset 1 with a null and garbage around it;
its decoded column is `[7, null, 9]` and `takeSpec [2, 1, 0]` of that is `[9, null, 7]` -/
example :
    wellFormedB ⟨.prim 1, 3, 1, some ⟨[0x0a], 1, 3, 1⟩, [[9, 7, 8, 9]], []⟩ = true ∧
    (decode ⟨.prim 1, 3, 1, some ⟨[0x0a], 1, 3, 1⟩, [[9, 7, 8, 9]], []⟩).bind (takeSpec [2, 1, 0])
      = some [.bytes [9], .null, .bytes [7]] := by decide

/-! ## Theorem 4 — row-wise kernels commute with row selection (specification level) -/

/-- unary row-wise kernel ∘ take = take ∘ kernel, including the failure outcome
(an out-of-bounds index fails on both sides) -/
theorem mapSpec_takeSpec {α β} (f : α → β) (idx : List Nat) (c : List α) :
    (takeSpec idx c).map (mapSpec f) = takeSpec idx (mapSpec f c) := by
  unfold takeSpec mapSpec
  induction idx with
  | nil => simp
  | cons i idx ih =>
    rw [List.mapM_cons, List.mapM_cons]
    rw [List.getElem?_map]
    cases c[i]? with
    | none => simp
    | some x =>
      rw [← ih]
      cases idx.mapM (fun i => c[i]?) <;> simp

/-- the same with nullable indices, for kernels that map the null row to the null row -/
theorem mapSpec_takeNullSpec {α β} (f : α → β) (na : α) (nb : β) (hf : f na = nb)
    (idx : List (Option Nat)) (c : List α) :
    (takeNullSpec na idx c).map (mapSpec f) = takeNullSpec nb idx (mapSpec f c) := by
  unfold takeNullSpec mapSpec
  induction idx with
  | nil => simp
  | cons i idx ih =>
    rw [List.mapM_cons, List.mapM_cons]
    rw [← ih]
    cases hr : idx.mapM (fun i => match i with | none => some na | some i => c[i]?) with
    | none => cases i <;> simp [List.getElem?_map] <;> cases c[_]? <;> simp
    | some r =>
      cases i with
      | none => simp [hf]
      | some i => simp [List.getElem?_map]; cases c[i]? <;> simp

/-- binary row-wise kernel ∘ take = take ∘ kernel -/
theorem zipSpec_takeSpec {α β γ} (f : α → β → γ) (idx : List Nat) (c : List α) (d : List β)
    {a : List α} {b : List β} (ha : takeSpec idx c = some a) (hb : takeSpec idx d = some b) :
    takeSpec idx (zipSpec f c d) = some (zipSpec f a b) := by
  unfold takeSpec zipSpec at *
  induction idx generalizing a b with
  | nil => simp_all
  | cons i idx ih =>
    rw [List.mapM_cons] at ha hb ⊢
    cases hci : c[i]? with
    | none => simp [hci] at ha
    | some x =>
      cases hdi : d[i]? with
      | none => simp [hdi] at hb
      | some y =>
        cases hra : idx.mapM (fun i => c[i]?) with
        | none => simp [hci, hra] at ha
        | some ra =>
          cases hrb : idx.mapM (fun i => d[i]?) with
          | none => simp [hdi, hrb] at hb
          | some rb =>
            simp [hci, hra] at ha
            simp [hdi, hrb] at hb
            subst ha hb
            rw [ih hra hrb]
            simp [List.getElem?_zipWith, hci, hdi]

/-- row-wise kernels commute with `slice` -/
theorem mapSpec_sliceSpec {α β} (f : α → β) (o l : Nat) (c : List α) :
    mapSpec f (sliceSpec o l c) = sliceSpec o l (mapSpec f c) := by
  simp [mapSpec, sliceSpec, List.map_take, List.map_drop]

theorem zipSpec_sliceSpec {α β γ} (f : α → β → γ) (o l : Nat) (c : List α) (d : List β) :
    zipSpec f (sliceSpec o l c) (sliceSpec o l d) = sliceSpec o l (zipSpec f c d) := by
  simp [zipSpec, sliceSpec, List.take_zipWith, List.drop_zipWith]

/-- row-wise kernels commute with `concat` -/
theorem mapSpec_concatSpec {α β} (f : α → β) (cs : List (List α)) :
    mapSpec f (concatSpec cs) = concatSpec (cs.map (mapSpec f)) := by
  simp only [mapSpec, concatSpec, List.map_flatten]
  rfl

theorem zipSpec_append {α β γ} (f : α → β → γ) (c₁ c₂ : List α) (d₁ d₂ : List β)
    (h : c₁.length = d₁.length) :
    zipSpec f (c₁ ++ c₂) (d₁ ++ d₂) = zipSpec f c₁ d₁ ++ zipSpec f c₂ d₂ := by
  simp [zipSpec, List.zipWith_append h]

/-- row-wise kernels commute with `filter` -/
theorem mapSpec_filterSpec {α β} (f : α → β) : ∀ (m : List Bool) (c : List α),
    mapSpec f (filterSpec m c) = filterSpec m (mapSpec f c)
  | [], c => by cases c <;> simp [filterSpec, mapSpec]
  | true :: m, [] => by simp [filterSpec, mapSpec]
  | false :: m, [] => by simp [filterSpec, mapSpec]
  | true :: m, x :: c => by
    have := mapSpec_filterSpec f m c
    simp_all [filterSpec, mapSpec]
  | false :: m, x :: c => by
    have := mapSpec_filterSpec f m c
    simp_all [filterSpec, mapSpec]

example : mapSpec (· + 1) (sliceSpec 1 2 [1, 2, 3, 4]) = [3, 4] := by decide
example : takeSpec [2, 0] [10, 20, 30] = some [30, 10] := by decide


/-! ## Source ties -/

open ArrowModel.Generated.C02 in
/-- **Shape ties to `/repo`** (regenerated by `tools/translate.py` on every run from
`tools/items/C02.py`): the guard, index and operand expressions of `arrow-data/src/equal/*` and of
`ArrayData::slice` that `Model.lean` mirrors are still spelled as they were when the model was
written — the `boolean_equal` fast-path guard over all four of `lhs_start, rhs_start, lhs.offset(),
rhs.offset()` and its byte indexing `start / 8 + offset / 8`, the four cases of `equal_nulls`,
`contains_nulls`, the three paths of `primitive_equal`, `byte_view_equal`'s null test at
`lhs_start + idx` and inline limit 12, which start/offset struct / fixed-size-list / list /
dictionary parents pass to their children, the Struct case of `ArrayData::slice`, and the
`is_valid(idx).then_some(..)` of arrow-select's dictionary-value interning (`masked_primitives_to_bytes`,
`masked_bytes`: a null dictionary value is never interned by the bytes under it).  An edit to
any of them makes the item LOST and this theorem false. -/
theorem source_shape_ties :
    NULL_SLICES_SELECTIVITY_THRESHOLD_lost = false ∧
    (BOOL_FAST_PATH_GUARD_lost = false ∧ BOOL_FAST_PATH_GUARD = 8) ∧
    (BOOL_FAST_PATH_INDEX_lost = false ∧ BOOL_FAST_PATH_INDEX = 8) ∧
    (BOOL_SUFFIX_lost = false ∧ BOOL_SUFFIX = 8) ∧
    (BOOL_NULL_PATH_lost = false ∧ BOOL_NULL_PATH = 2) ∧
    (EQUAL_NULLS_CASES_lost = false ∧ EQUAL_NULLS_CASES = 2) ∧
    (CONTAINS_NULLS_SHAPE_lost = false ∧ CONTAINS_NULLS_SHAPE = 0) ∧
    (EQUAL_TOP_lost = false ∧ EQUAL_TOP = 0) ∧
    (PRIM_BASE_lost = false ∧ PRIM_BASE = 0) ∧
    (PRIM_NO_NULLS_lost = false ∧ PRIM_NO_NULLS = 2) ∧
    (PRIM_SWITCH_lost = false ∧ PRIM_SWITCH = 2) ∧
    (PRIM_DENSE_lost = false ∧ PRIM_DENSE = 2) ∧
    (PRIM_SPARSE_lost = false ∧ PRIM_SPARSE = 2) ∧
    (VIEW_NULL_INDEX_INLINE_lost = false ∧ VIEW_NULL_INDEX_INLINE = 12) ∧
    (STRUCT_CHILD_START_lost = false ∧ STRUCT_CHILD_START = 1) ∧
    (FSL_CHILD_START_lost = false ∧ FSL_CHILD_START = 2) ∧
    (LIST_REBASE_lost = false ∧ LIST_REBASE = 2) ∧
    (DICT_KEYS_lost = false ∧ DICT_KEYS = 1) ∧
    (VAR_OFFSETS_lost = false ∧ VAR_OFFSETS = 1) ∧
    (MERGE_PRIMITIVE_VALUE_VALIDITY_lost = false ∧ MERGE_PRIMITIVE_VALUE_VALIDITY = 2) ∧
    (MERGE_BYTES_VALUE_VALIDITY_lost = false ∧ MERGE_BYTES_VALUE_VALIDITY = 2) ∧
    (SLICE_STRUCT_lost = false ∧ SLICE_STRUCT = 2) := by
  decide

end ArrowModel.C02
