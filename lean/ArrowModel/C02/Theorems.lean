import ArrowModel.C02.Lemmas
/-
C02 — property statements.

Vocabulary: `decode : ArrayData → Option (List Val)` is the abstraction function of the shared
physical library (written from the Arrow columnar specification); `LogicallyEqual a b` is
`a.type = b.type ∧ decode a = decode b`; fixed-width values are `Val.bytes` of their
little-endian bytes, so floats are compared by bit pattern, as `arrow-data/src/equal` does.
-/
namespace ArrowModel.C02
open ArrowModel.Physical

/-! ## Theorem 2 — slicing -/

/-- **Slice law (every type constructor of the physical library).**  Reading the zero-copy
slice `[o, o+l)` of an array gives exactly rows `o .. o+l` of the original column: `Array::slice`
/ `ArrayData::slice` (non-struct) only bump `offset`, set `len` and re-base the validity bitmap,
and every accessor adds `offset`. -/
theorem decode_slice {d : ArrayData} {vs : List Val} (o l : Nat)
    (h : decode d = some vs) (hb : o + l ≤ d.len) :
    decode (slice d o l) = some (sliceSpec o l vs) := by
  rw [decode_children_slice]
  rw [decode_eq] at h
  cases hc : decodeAll d.children with
  | none => simp [hc] at h
  | some cvs =>
    simp only [hc] at h ⊢
    rw [tabulateM_eq_some_iff] at h ⊢
    obtain ⟨hl, hv⟩ := h
    have hlen : (sliceSpec o l vs).length = l := by
      simp [sliceSpec]; omega
    refine ⟨hlen, fun i hi => ?_⟩
    have hi' : o + i < vs.length := by omega
    rw [hv (o + i) hi']
    simp [sliceSpec]

example : decode (slice ⟨.prim 1, 3, 0, none, [[7, 8, 9]], []⟩ 1 2) = some [.bytes [8], .bytes [9]] := by
  decide

/-- `ArrayData::slice` as written agrees with the specification slice on every non-struct type -/
theorem sliceModel_eq_slice (d : ArrayData) (o l : Nat) (h : ∀ fs, d.type ≠ .struct fs) :
    sliceModel d o l = slice d o l := by
  obtain ⟨t, n, off, nulls, bs, cs⟩ := d
  cases t <;> simp_all [sliceModel, slice]

/-- hence the slice law for the model of `ArrayData::slice` (non-struct root) -/
theorem decode_sliceModel {d : ArrayData} {vs : List Val} (o l : Nat)
    (hs : ∀ fs, d.type ≠ .struct fs) (h : decode d = some vs) (hb : o + l ≤ d.len) :
    decode (sliceModel d o l) = some (sliceSpec o l vs) := by
  rw [sliceModel_eq_slice d o l hs]; exact decode_slice o l h hb

/-- a two-row struct column `{1},{2}` with a one-byte child -/
def wStruct2 : ArrayData :=
  ⟨.struct (.cons 0 (.prim 1) true .nil), 2, 0, none, [], [⟨.prim 1, 2, 0, none, [[1, 2]], []⟩]⟩

/-- **`ArrayData::slice` on a Struct is not the specification slice**: it bumps the parent offset
*and* slices the children, so under the specification's reading (child slot = parent offset + i,
which is also what `StructArray::from(ArrayData)` does) row 1 can no longer be read: the sliced
array is not even decodable (`make_array(data.slice(1, 1))` panics in arrow-rs), while the
specification slice reads `{2}`. -/
theorem sliceModel_struct_not_spec :
    decode wStruct2 = some [.struct [.bytes [1]], .struct [.bytes [2]]] ∧
    decode (slice wStruct2 1 1) = some [.struct [.bytes [2]]] ∧
    decode (sliceModel wStruct2 1 1) = none := by
  decide

/-! ## Theorem 3 — congruence of physical kernels -/

/-- **Congruence of slicing**: logically equal inputs give logically equal slices (and the
slice of a decodable array is decodable): the result is a function of the logical column. -/
theorem slice_congr {d₁ d₂ : ArrayData} {vs : List Val} (o l : Nat)
    (h₁ : decode d₁ = some vs) (h₂ : decode d₂ = some vs)
    (hb₁ : o + l ≤ d₁.len) (hb₂ : o + l ≤ d₂.len) :
    decode (slice d₁ o l) = decode (slice d₂ o l) := by
  rw [decode_slice o l h₁ hb₁, decode_slice o l h₂ hb₂]

/-! ## Theorem 4 — row-wise kernels commute with row selection (specification level) -/

/-- unary row-wise kernel ∘ take = take ∘ kernel, including the failure outcome
(an out-of-bounds index fails on both sides) -/
theorem mapSpec_takeSpec {α β} (f : α → β) (idx : List Nat) (c : List α) :
    (takeSpec idx c).map (mapSpec f) = takeSpec idx (mapSpec f c) := by
  unfold takeSpec mapSpec
  induction idx with
  | nil => simp
  | cons i idx ih =>
    rw [List.mapM_cons, List.mapM_cons]
    rw [List.getElem?_map]
    cases c[i]? with
    | none => simp
    | some x =>
      rw [← ih]
      cases idx.mapM (fun i => c[i]?) <;> simp

/-- the same with nullable indices, for kernels that map the null row to the null row -/
theorem mapSpec_takeNullSpec {α β} (f : α → β) (na : α) (nb : β) (hf : f na = nb)
    (idx : List (Option Nat)) (c : List α) :
    (takeNullSpec na idx c).map (mapSpec f) = takeNullSpec nb idx (mapSpec f c) := by
  unfold takeNullSpec mapSpec
  induction idx with
  | nil => simp
  | cons i idx ih =>
    rw [List.mapM_cons, List.mapM_cons]
    rw [← ih]
    cases hr : idx.mapM (fun i => match i with | none => some na | some i => c[i]?) with
    | none => cases i <;> simp [List.getElem?_map] <;> cases c[_]? <;> simp
    | some r =>
      cases i with
      | none => simp [hf]
      | some i => simp [List.getElem?_map]; cases c[i]? <;> simp

/-- binary row-wise kernel ∘ take = take ∘ kernel -/
theorem zipSpec_takeSpec {α β γ} (f : α → β → γ) (idx : List Nat) (c : List α) (d : List β)
    {a : List α} {b : List β} (ha : takeSpec idx c = some a) (hb : takeSpec idx d = some b) :
    takeSpec idx (zipSpec f c d) = some (zipSpec f a b) := by
  unfold takeSpec zipSpec at *
  induction idx generalizing a b with
  | nil => simp_all
  | cons i idx ih =>
    rw [List.mapM_cons] at ha hb ⊢
    cases hci : c[i]? with
    | none => simp [hci] at ha
    | some x =>
      cases hdi : d[i]? with
      | none => simp [hdi] at hb
      | some y =>
        cases hra : idx.mapM (fun i => c[i]?) with
        | none => simp [hci, hra] at ha
        | some ra =>
          cases hrb : idx.mapM (fun i => d[i]?) with
          | none => simp [hdi, hrb] at hb
          | some rb =>
            simp [hci, hra] at ha
            simp [hdi, hrb] at hb
            subst ha hb
            rw [ih hra hrb]
            simp [List.getElem?_zipWith, hci, hdi]

/-- row-wise kernels commute with `slice` -/
theorem mapSpec_sliceSpec {α β} (f : α → β) (o l : Nat) (c : List α) :
    mapSpec f (sliceSpec o l c) = sliceSpec o l (mapSpec f c) := by
  simp [mapSpec, sliceSpec, List.map_take, List.map_drop]

theorem zipSpec_sliceSpec {α β γ} (f : α → β → γ) (o l : Nat) (c : List α) (d : List β) :
    zipSpec f (sliceSpec o l c) (sliceSpec o l d) = sliceSpec o l (zipSpec f c d) := by
  simp [zipSpec, sliceSpec, List.take_zipWith, List.drop_zipWith]

/-- row-wise kernels commute with `concat` -/
theorem mapSpec_concatSpec {α β} (f : α → β) (cs : List (List α)) :
    mapSpec f (concatSpec cs) = concatSpec (cs.map (mapSpec f)) := by
  simp only [mapSpec, concatSpec, List.map_flatten]
  rfl

theorem zipSpec_append {α β γ} (f : α → β → γ) (c₁ c₂ : List α) (d₁ d₂ : List β)
    (h : c₁.length = d₁.length) :
    zipSpec f (c₁ ++ c₂) (d₁ ++ d₂) = zipSpec f c₁ d₁ ++ zipSpec f c₂ d₂ := by
  simp [zipSpec, List.zipWith_append h]

/-- row-wise kernels commute with `filter` -/
theorem mapSpec_filterSpec {α β} (f : α → β) : ∀ (m : List Bool) (c : List α),
    mapSpec f (filterSpec m c) = filterSpec m (mapSpec f c)
  | [], c => by cases c <;> simp [filterSpec, mapSpec]
  | true :: m, [] => by simp [filterSpec, mapSpec]
  | false :: m, [] => by simp [filterSpec, mapSpec]
  | true :: m, x :: c => by
    have := mapSpec_filterSpec f m c
    simp_all [filterSpec, mapSpec]
  | false :: m, x :: c => by
    have := mapSpec_filterSpec f m c
    simp_all [filterSpec, mapSpec]

example : mapSpec (· + 1) (sliceSpec 1 2 [1, 2, 3, 4]) = [3, 4] := by decide
example : takeSpec [2, 0] [10, 20, 30] = some [30, 10] := by decide

end ArrowModel.C02
