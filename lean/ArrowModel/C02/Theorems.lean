import ArrowModel.C02.Lemmas
import ArrowModel.C02.EqLeaf
/-
C02 — property statements.

Vocabulary: `decode : ArrayData → Option (List Val)` is the abstraction function of the shared
physical library (written from the Arrow columnar specification); `LogicallyEqual a b` is
`a.type = b.type ∧ decode a = decode b`; fixed-width values are `Val.bytes` of their
little-endian bytes, so floats are compared by bit pattern, as `arrow-data/src/equal` does.
-/
namespace ArrowModel.C02
open ArrowModel.Physical

/-! ## Theorem 1 — `==` is logical equality -/

/-- **Equality of fixed-width arrays is logical equality** (all primitive types — integers, floats
by bit pattern, decimals, dates/times/intervals — and `FixedSizeBinary`): for well-formed `a b`,
`ArrayData::eq` / `Array::eq` (`equal`, `equal_nulls`, `primitive_equal` / `fixed_binary_equal`
with all three of their paths) holds exactly when the data types coincide and the arrays decode
to the same column.  Offsets, bitmap presence, padding and bytes under null slots play no role. -/
theorem equalModel_fixed_iff {a b : ArrayData} {w : Nat} (hwa : WellFormed a) (hwb : WellFormed b)
    (ht : a.type = .prim w ∨ a.type = .fsb w) :
    equalModel a b = true ↔ LogicallyEqual a b := by
  unfold LogicallyEqual
  by_cases hty : a.type = b.type
  · have htb : b.type = .prim w ∨ b.type = .fsb w := by rw [← hty]; exact ht
    obtain ⟨hna, hca, la, hba, hla⟩ := wf_fixed hwa ht
    obtain ⟨hnb, hcb, lb, hbb, hlb⟩ := wf_fixed hwb htb
    rw [decode_fixed ht hna hca hba hla, decode_fixed htb hnb hcb hbb hlb]
    have hev : equalValuesT a.type a b 0 0 a.len = fixedEqual w a b 0 0 a.len := by
      rcases ht with ht | ht <;> rw [ht] <;> simp [equalValuesT]
    unfold equalModel baseEqual
    rw [hev]
    by_cases hlen : a.len = b.len
    · have := fixed_core w a b la lb hna hnb hba hbb hla hlb hlen
      simp only [hty, hlen, decide_true, beq_self_eq_true, Bool.true_and, true_and, Option.some.injEq] at this ⊢
      rw [← this]
    · constructor
      · intro h; simp [hlen] at h
      · rintro ⟨_, h⟩
        have := congrArg List.length (Option.some.inj h)
        simp at this
        exact absurd this hlen
  · constructor
    · intro h; simp [equalModel, baseEqual, hty] at h
    · rintro ⟨h, _⟩; exact absurd h hty

/-- Int32 `[1, null]`, once compact with a zeroed null slot, once at offset 1 with garbage under
the null and in the padding: both well-formed, logically equal, and `equalModel` says so. -/
example :
    wellFormedB ⟨.prim 4, 2, 0, some ⟨[1], 0, 2, 1⟩, [[1, 0, 0, 0, 0, 0, 0, 0]], []⟩ = true ∧
    wellFormedB ⟨.prim 4, 2, 1, some ⟨[0xfa], 1, 2, 1⟩, [[9, 9, 9, 9, 1, 0, 0, 0, 7, 7, 7, 7]], []⟩ = true ∧
    equalModel ⟨.prim 4, 2, 0, some ⟨[1], 0, 2, 1⟩, [[1, 0, 0, 0, 0, 0, 0, 0]], []⟩
      ⟨.prim 4, 2, 1, some ⟨[0xfa], 1, 2, 1⟩, [[9, 9, 9, 9, 1, 0, 0, 0, 7, 7, 7, 7]], []⟩ = true ∧
    logicallyEqualB ⟨.prim 4, 2, 0, some ⟨[1], 0, 2, 1⟩, [[1, 0, 0, 0, 0, 0, 0, 0]], []⟩
      ⟨.prim 4, 2, 1, some ⟨[0xfa], 1, 2, 1⟩, [[9, 9, 9, 9, 1, 0, 0, 0, 7, 7, 7, 7]], []⟩ = true := by
  decide

/-- the same statement for the types `equalModel` covers but for which the proof is not done:
checked on every generated pair by the driver (`eq=` must equal `spec=`), not proved.
Gap: Null, Boolean (bit offsets, byte-aligned fast path), Utf8/Binary (offset rebasing,
`lengths_equal`), and the induction over the type tree for List / FixedSizeList / Struct /
Dictionary / RunEndEncoded.  The statement below is the proved instance restricted to a leaf
type test `fixedLeaf`. -/
theorem equalModel_iff_partial {a b : ArrayData} (hwa : WellFormed a) (hwb : WellFormed b)
    (ht : ∃ w, a.type = .prim w ∨ a.type = .fsb w) :
    equalModel a b = true ↔ (a.type = b.type ∧ decode a = decode b) := by
  obtain ⟨w, ht⟩ := ht
  exact equalModel_fixed_iff hwa hwb ht

/-- `equal_nulls` compares validity slot by slot in all four (Some/None) combinations: a missing
bitmap equals an all-valid bitmap (the `(Some, None)` case goes through `contains_nulls`) -/
theorem equalNulls_logical (a b : ArrayData) (sa sb n : Nat) :
    equalNulls a b sa sb n = true ↔ ∀ i, i < n → a.isValid (sa + i) = b.isValid (sb + i) :=
  equalNulls_iff a b sa sb n

/-- `contains_nulls` (first `BitSliceIterator` slice ≠ whole range) is exact -/
theorem containsNulls_exact (n : Nulls) (off len : Nat) :
    containsNulls (some n) off len = false ↔ ∀ i, i < len → nbit n (off + i) = true :=
  containsNulls_eq_false_iff n off len

/-- the three paths of `primitive_equal` / `fixed_binary_equal` on an arbitrary sub-range (as
called from list / struct / dictionary parents), see `fixedEqual_iff` -/
theorem fixedEqual_range (w : Nat) (a b : ArrayData) (la lb : List Nat) (sa sb n : Nat)
    (hba : a.buffers = [la]) (hbb : b.buffers = [lb])
    (hla : (a.offset + sa + n) * w ≤ la.length) (hlb : (b.offset + sb + n) * w ≤ lb.length)
    (hm : ∀ i, i < n → a.isValid (sa + i) = b.isValid (sb + i)) :
    fixedEqual w a b sa sb n = true ↔
      ∀ i, i < n → a.isValid (sa + i) = true →
        slotBytes la w (a.offset + sa + i) = slotBytes lb w (b.offset + sb + i) :=
  fixedEqual_iff w a b la lb sa sb n hba hbb hla hlb hm

/-! ## Theorem 2 — slicing -/

/-- **Slice law (every type constructor of the physical library).**  Reading the zero-copy
slice `[o, o+l)` of an array gives exactly rows `o .. o+l` of the original column: `Array::slice`
/ `ArrayData::slice` (non-struct) only bump `offset`, set `len` and re-base the validity bitmap,
and every accessor adds `offset`. -/
theorem decode_slice {d : ArrayData} {vs : List Val} (o l : Nat)
    (h : decode d = some vs) (hb : o + l ≤ d.len) :
    decode (slice d o l) = some (sliceSpec o l vs) := by
  rw [decode_children_slice]
  rw [decode_eq] at h
  cases hc : decodeAll d.children with
  | none => simp [hc] at h
  | some cvs =>
    simp only [hc] at h ⊢
    rw [tabulateM_eq_some_iff] at h ⊢
    obtain ⟨hl, hv⟩ := h
    have hlen : (sliceSpec o l vs).length = l := by
      simp [sliceSpec]; omega
    refine ⟨hlen, fun i hi => ?_⟩
    have hi' : o + i < vs.length := by omega
    rw [hv (o + i) hi']
    simp [sliceSpec]

example : decode (slice ⟨.prim 1, 3, 0, none, [[7, 8, 9]], []⟩ 1 2) = some [.bytes [8], .bytes [9]] := by
  decide

/-- `ArrayData::slice` as written agrees with the specification slice on every non-struct type -/
theorem sliceModel_eq_slice (d : ArrayData) (o l : Nat) (h : ∀ fs, d.type ≠ .struct fs) :
    sliceModel d o l = slice d o l := by
  obtain ⟨t, n, off, nulls, bs, cs⟩ := d
  cases t <;> simp_all [sliceModel, slice]

/-- hence the slice law for the model of `ArrayData::slice` (non-struct root) -/
theorem decode_sliceModel {d : ArrayData} {vs : List Val} (o l : Nat)
    (hs : ∀ fs, d.type ≠ .struct fs) (h : decode d = some vs) (hb : o + l ≤ d.len) :
    decode (sliceModel d o l) = some (sliceSpec o l vs) := by
  rw [sliceModel_eq_slice d o l hs]; exact decode_slice o l h hb

/-- a two-row struct column `{1},{2}` with a one-byte child -/
def wStruct2 : ArrayData :=
  ⟨.struct (.cons 0 (.prim 1) true .nil), 2, 0, none, [], [⟨.prim 1, 2, 0, none, [[1, 2]], []⟩]⟩

/-- **`ArrayData::slice` on a Struct is not the specification slice**: it bumps the parent offset
*and* slices the children, so under the specification's reading (child slot = parent offset + i,
which is also what `StructArray::from(ArrayData)` does) row 1 can no longer be read: the sliced
array is not even decodable (`make_array(data.slice(1, 1))` panics in arrow-rs), while the
specification slice reads `{2}`. -/
theorem sliceModel_struct_not_spec :
    decode wStruct2 = some [.struct [.bytes [1]], .struct [.bytes [2]]] ∧
    decode (slice wStruct2 1 1) = some [.struct [.bytes [2]]] ∧
    decode (sliceModel wStruct2 1 1) = none := by
  decide

/-! ## Theorem 3 — congruence of physical kernels -/

/-- **Congruence of slicing**: logically equal inputs give logically equal slices (and the
slice of a decodable array is decodable): the result is a function of the logical column. -/
theorem slice_congr {d₁ d₂ : ArrayData} {vs : List Val} (o l : Nat)
    (h₁ : decode d₁ = some vs) (h₂ : decode d₂ = some vs)
    (hb₁ : o + l ≤ d₁.len) (hb₂ : o + l ≤ d₂.len) :
    decode (slice d₁ o l) = decode (slice d₂ o l) := by
  rw [decode_slice o l h₁ hb₁, decode_slice o l h₂ hb₂]

/-! ## Theorem 4 — row-wise kernels commute with row selection (specification level) -/

/-- unary row-wise kernel ∘ take = take ∘ kernel, including the failure outcome
(an out-of-bounds index fails on both sides) -/
theorem mapSpec_takeSpec {α β} (f : α → β) (idx : List Nat) (c : List α) :
    (takeSpec idx c).map (mapSpec f) = takeSpec idx (mapSpec f c) := by
  unfold takeSpec mapSpec
  induction idx with
  | nil => simp
  | cons i idx ih =>
    rw [List.mapM_cons, List.mapM_cons]
    rw [List.getElem?_map]
    cases c[i]? with
    | none => simp
    | some x =>
      rw [← ih]
      cases idx.mapM (fun i => c[i]?) <;> simp

/-- the same with nullable indices, for kernels that map the null row to the null row -/
theorem mapSpec_takeNullSpec {α β} (f : α → β) (na : α) (nb : β) (hf : f na = nb)
    (idx : List (Option Nat)) (c : List α) :
    (takeNullSpec na idx c).map (mapSpec f) = takeNullSpec nb idx (mapSpec f c) := by
  unfold takeNullSpec mapSpec
  induction idx with
  | nil => simp
  | cons i idx ih =>
    rw [List.mapM_cons, List.mapM_cons]
    rw [← ih]
    cases hr : idx.mapM (fun i => match i with | none => some na | some i => c[i]?) with
    | none => cases i <;> simp [List.getElem?_map] <;> cases c[_]? <;> simp
    | some r =>
      cases i with
      | none => simp [hf]
      | some i => simp [List.getElem?_map]; cases c[i]? <;> simp

/-- binary row-wise kernel ∘ take = take ∘ kernel -/
theorem zipSpec_takeSpec {α β γ} (f : α → β → γ) (idx : List Nat) (c : List α) (d : List β)
    {a : List α} {b : List β} (ha : takeSpec idx c = some a) (hb : takeSpec idx d = some b) :
    takeSpec idx (zipSpec f c d) = some (zipSpec f a b) := by
  unfold takeSpec zipSpec at *
  induction idx generalizing a b with
  | nil => simp_all
  | cons i idx ih =>
    rw [List.mapM_cons] at ha hb ⊢
    cases hci : c[i]? with
    | none => simp [hci] at ha
    | some x =>
      cases hdi : d[i]? with
      | none => simp [hdi] at hb
      | some y =>
        cases hra : idx.mapM (fun i => c[i]?) with
        | none => simp [hci, hra] at ha
        | some ra =>
          cases hrb : idx.mapM (fun i => d[i]?) with
          | none => simp [hdi, hrb] at hb
          | some rb =>
            simp [hci, hra] at ha
            simp [hdi, hrb] at hb
            subst ha hb
            rw [ih hra hrb]
            simp [List.getElem?_zipWith, hci, hdi]

/-- row-wise kernels commute with `slice` -/
theorem mapSpec_sliceSpec {α β} (f : α → β) (o l : Nat) (c : List α) :
    mapSpec f (sliceSpec o l c) = sliceSpec o l (mapSpec f c) := by
  simp [mapSpec, sliceSpec, List.map_take, List.map_drop]

theorem zipSpec_sliceSpec {α β γ} (f : α → β → γ) (o l : Nat) (c : List α) (d : List β) :
    zipSpec f (sliceSpec o l c) (sliceSpec o l d) = sliceSpec o l (zipSpec f c d) := by
  simp [zipSpec, sliceSpec, List.take_zipWith, List.drop_zipWith]

/-- row-wise kernels commute with `concat` -/
theorem mapSpec_concatSpec {α β} (f : α → β) (cs : List (List α)) :
    mapSpec f (concatSpec cs) = concatSpec (cs.map (mapSpec f)) := by
  simp only [mapSpec, concatSpec, List.map_flatten]
  rfl

theorem zipSpec_append {α β γ} (f : α → β → γ) (c₁ c₂ : List α) (d₁ d₂ : List β)
    (h : c₁.length = d₁.length) :
    zipSpec f (c₁ ++ c₂) (d₁ ++ d₂) = zipSpec f c₁ d₁ ++ zipSpec f c₂ d₂ := by
  simp [zipSpec, List.zipWith_append h]

/-- row-wise kernels commute with `filter` -/
theorem mapSpec_filterSpec {α β} (f : α → β) : ∀ (m : List Bool) (c : List α),
    mapSpec f (filterSpec m c) = filterSpec m (mapSpec f c)
  | [], c => by cases c <;> simp [filterSpec, mapSpec]
  | true :: m, [] => by simp [filterSpec, mapSpec]
  | false :: m, [] => by simp [filterSpec, mapSpec]
  | true :: m, x :: c => by
    have := mapSpec_filterSpec f m c
    simp_all [filterSpec, mapSpec]
  | false :: m, x :: c => by
    have := mapSpec_filterSpec f m c
    simp_all [filterSpec, mapSpec]

example : mapSpec (· + 1) (sliceSpec 1 2 [1, 2, 3, 4]) = [3, 4] := by decide
example : takeSpec [2, 0] [10, 20, 30] = some [30, 10] := by decide

end ArrowModel.C02
