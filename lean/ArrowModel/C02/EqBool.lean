import ArrowModel.C02.EqLeaf
/-
C02 helper lemmas for `boolean_equal` (bit/byte level) and the Boolean leaf.
-/
namespace ArrowModel.C02
open ArrowModel.Physical

/-- bit `p` of an LSB-first bitmap (false outside) -/
def bitOf (buf : List Nat) (p : Nat) : Bool := bitAt buf p == some true

theorem bitOf_eq (buf : List Nat) (p : Nat) (h : p / 8 < buf.length) :
    bitOf buf p = (buf[p / 8]).testBit (p % 8) := by
  simp [bitOf, bitAt, List.getElem?_eq_getElem h]

theorem byte_eq_iff {x y : Nat} (hx : x < 256) (hy : y < 256) :
    x = y ↔ ∀ t, t < 8 → x.testBit t = y.testBit t := by
  constructor
  · intro h t _; rw [h]
  · intro h
    apply Nat.eq_of_testBit_eq
    intro t
    by_cases ht : t < 8
    · exact h t ht
    · have h8 : 2 ^ 8 ≤ 2 ^ t := Nat.pow_le_pow_right (by omega) (by omega)
      rw [Nat.testBit_lt_two_pow (by omega : x < 2 ^ t), Nat.testBit_lt_two_pow (by omega : y < 2 ^ t)]

theorem equalBits_iff (l r : List Nat) (s s' n : Nat) :
    equalBits l r s s' n = true ↔ ∀ i, i < n → bitOf l (s + i) = bitOf r (s' + i) := by
  simp [equalBits, bitOf, List.all_eq_true]

theorem take_one_drop (l : List Nat) (p : Nat) (h : p < l.length) : (l.drop p).take 1 = [l[p]] := by
  rw [List.drop_eq_getElem_cons h, List.take_succ_cons, List.take_zero]

theorem equalLen_bytes_iff (l r : List Nat) (k k' q : Nat) (hl : k + q ≤ l.length) (hr : k' + q ≤ r.length) :
    equalLen l r k k' q = true ↔ ∀ j, j < q → l[k + j]? = r[k' + j]? := by
  have := take_drop_chunks 1 l r q k k' (by omega) (by omega)
  simp only [Nat.mul_one] at this
  simp only [equalLen, beq_iff_eq]
  rw [this]
  constructor
  · intro h j hj
    have := h j hj
    have h1 : k + j < l.length := by omega
    have h2 : k' + j < r.length := by omega
    rw [List.getElem?_eq_getElem h1, List.getElem?_eq_getElem h2]
    rw [take_one_drop l _ h1, take_one_drop r _ h2] at this
    simpa using this
  · intro h j hj
    have := h j hj
    have h1 : k + j < l.length := by omega
    have h2 : k' + j < r.length := by omega
    rw [List.getElem?_eq_getElem h1, List.getElem?_eq_getElem h2] at this
    rw [take_one_drop l _ h1, take_one_drop r _ h2]
    simp at this
    rw [this]

/-- whole bytes are equal iff their 8 bits are (bytes `< 256`) -/
theorem bytes_bits_iff (l r : List Nat) (k k' q : Nat) (hl : k + q ≤ l.length) (hr : k' + q ≤ r.length)
    (hyl : ∀ x ∈ l, x < 256) (hyr : ∀ x ∈ r, x < 256) :
    (∀ j, j < q → l[k + j]? = r[k' + j]?) ↔ ∀ i, i < 8 * q → bitOf l (8 * k + i) = bitOf r (8 * k' + i) := by
  constructor
  · intro h i hi
    have h1 : (8 * k + i) / 8 = k + i / 8 := by omega
    have h2 : (8 * k' + i) / 8 = k' + i / 8 := by omega
    have hb1 : (8 * k + i) / 8 < l.length := by omega
    have hb2 : (8 * k' + i) / 8 < r.length := by omega
    rw [bitOf_eq _ _ hb1, bitOf_eq _ _ hb2]
    have := h (i / 8) (by omega)
    rw [List.getElem?_eq_getElem (by omega), List.getElem?_eq_getElem (by omega)] at this
    have := Option.some.inj this
    simp only [h1, h2]
    rw [this]
    congr 1; omega
  · intro h j hj
    have h1 : k + j < l.length := by omega
    have h2 : k' + j < r.length := by omega
    rw [List.getElem?_eq_getElem h1, List.getElem?_eq_getElem h2]
    congr 1
    apply (byte_eq_iff (hyl _ (List.getElem_mem h1)) (hyr _ (List.getElem_mem h2))).2
    intro t ht
    have := h (8 * j + t) (by omega)
    have e1 : (8 * k + (8 * j + t)) / 8 = k + j := by omega
    have e2 : (8 * k' + (8 * j + t)) / 8 = k' + j := by omega
    have hb1 : (8 * k + (8 * j + t)) / 8 < l.length := by omega
    have hb2 : (8 * k' + (8 * j + t)) / 8 < r.length := by omega
    rw [bitOf_eq _ _ hb1, bitOf_eq _ _ hb2] at this
    simp only [e1, e2] at this
    have m1 : (8 * k + (8 * j + t)) % 8 = t := by omega
    have m2 : (8 * k' + (8 * j + t)) % 8 = t := by omega
    rw [m1, m2] at this
    exact this

/-- **`boolean_equal`** (byte-aligned fast path with its whole-byte compare and bit suffix, the
unaligned `equal_bits` path, and the `BitIndexIterator` path under nulls) is true exactly when
every slot that is valid on the left holds the same bit on both sides.  Needs the buffers to
cover the ranges and to consist of bytes. -/
theorem boolEqual_iff (a b : ArrayData) (la lb : List Nat) (sa sb n : Nat)
    (hba : a.buffers = [la]) (hbb : b.buffers = [lb])
    (hla : a.offset + sa + n ≤ 8 * la.length) (hlb : b.offset + sb + n ≤ 8 * lb.length)
    (hya : ∀ x ∈ la, x < 256) (hyb : ∀ x ∈ lb, x < 256) :
    boolEqual a b sa sb n = true ↔
      ∀ i, i < n → a.isValid (sa + i) = true → bitOf la (a.offset + sa + i) = bitOf lb (b.offset + sb + i) := by
  unfold boolEqual
  rw [hba, hbb]
  simp only
  by_cases hc : containsNulls a.nulls sa n = false
  · simp only [hc, Bool.not_false, if_true]
    have hv : ∀ i, i < n → a.isValid (sa + i) = true := by
      intro i hi
      cases hn : a.nulls with
      | none => exact isValid_none hn _
      | some na =>
        rw [isValid_some hn]
        rw [hn] at hc
        exact (containsNulls_eq_false_iff na sa n).1 hc i hi
    have hall : (∀ i, i < n → a.isValid (sa + i) = true → bitOf la (a.offset + sa + i) = bitOf lb (b.offset + sb + i)) ↔
        ∀ i, i < n → bitOf la (a.offset + sa + i) = bitOf lb (b.offset + sb + i) :=
      ⟨fun h i hi => h i hi (hv i hi), fun h i hi _ => h i hi⟩
    rw [hall]
    by_cases hal : (sa % 8 == 0 && sb % 8 == 0 && a.offset % 8 == 0 && b.offset % 8 == 0) = true
    · -- byte-aligned fast path
      simp only [hal, if_true]
      simp only [Bool.and_eq_true, beq_iff_eq] at hal
      obtain ⟨⟨⟨h1, h2⟩, h3⟩, h4⟩ := hal
      have hq := equalLen_bytes_iff la lb (sa / 8 + a.offset / 8) (sb / 8 + b.offset / 8) (n / 8) (by omega) (by omega)
      have hb := bytes_bits_iff la lb (sa / 8 + a.offset / 8) (sb / 8 + b.offset / 8) (n / 8) (by omega) (by omega) hya hyb
      have hpa : ∀ i, 8 * (sa / 8 + a.offset / 8) + i = a.offset + sa + i := by intro i; omega
      have hpb : ∀ i, 8 * (sb / 8 + b.offset / 8) + i = b.offset + sb + i := by intro i; omega
      simp only [hpa, hpb] at hb
      have hsuf := equalBits_iff la lb (sa + (n - n % 8) + a.offset) (sb + (n - n % 8) + b.offset) (n % 8)
      by_cases hE : equalLen la lb (sa / 8 + a.offset / 8) (sb / 8 + b.offset / 8) (n / 8) = true
      · have hbits := hb.1 (hq.1 hE)
        simp only [hE, Bool.not_true, Bool.and_false, Bool.false_eq_true, if_false]
        by_cases hr : n % 8 = 0
        · simp only [hr, beq_self_eq_true, if_true, true_iff]
          intro i hi; exact hbits i (by omega)
        · have hr' : (n % 8 == 0) = false := by simpa using hr
          simp only [hr', Bool.false_eq_true, if_false]
          rw [hsuf]
          constructor
          · intro h i hi
            by_cases hlt : i < 8 * (n / 8)
            · exact hbits i hlt
            · have := h (i - (n - n % 8)) (by omega)
              have e1 : sa + (n - n % 8) + a.offset + (i - (n - n % 8)) = a.offset + sa + i := by omega
              have e2 : sb + (n - n % 8) + b.offset + (i - (n - n % 8)) = b.offset + sb + i := by omega
              rw [e1, e2] at this; exact this
          · intro h i hi
            have := h ((n - n % 8) + i) (by omega)
            have e1 : sa + (n - n % 8) + a.offset + i = a.offset + sa + ((n - n % 8) + i) := by omega
            have e2 : sb + (n - n % 8) + b.offset + i = b.offset + sb + ((n - n % 8) + i) := by omega
            rw [e1, e2]; exact this
      · have hE' : equalLen la lb (sa / 8 + a.offset / 8) (sb / 8 + b.offset / 8) (n / 8) = false := by simpa using hE
        have hpos : n / 8 > 0 := by
          apply Nat.pos_of_ne_zero
          intro h0
          rw [h0] at hE
          exact hE (by simp [equalLen])
        simp only [hE', Bool.not_false, Bool.and_true, decide_eq_true_eq, hpos, if_true, Bool.false_eq_true, false_iff]
        intro h
        apply hE
        apply hq.2
        apply hb.2
        intro i hi
        exact h i (by omega)
    · have hal' : (sa % 8 == 0 && sb % 8 == 0 && a.offset % 8 == 0 && b.offset % 8 == 0) = false := by simpa using hal
      simp only [hal', Bool.false_eq_true, if_false]
      rw [equalBits_iff]
      constructor
      · intro h i hi
        have := h i hi
        have e1 : sa + a.offset + i = a.offset + sa + i := by omega
        have e2 : sb + b.offset + i = b.offset + sb + i := by omega
        rw [e1, e2] at this; exact this
      · intro h i hi
        have e1 : sa + a.offset + i = a.offset + sa + i := by omega
        have e2 : sb + b.offset + i = b.offset + sb + i := by omega
        rw [e1, e2]; exact h i hi
  · have hc' : containsNulls a.nulls sa n = true := by simpa using hc
    simp only [hc', Bool.not_true, Bool.false_eq_true, if_false]
    cases hn : a.nulls with
    | none => rw [hn] at hc'; simp [containsNulls] at hc'
    | some na =>
      simp only [List.all_eq_true, List.mem_filter, List.mem_range, beq_iff_eq, and_imp]
      constructor
      · intro h i hi hv
        rw [isValid_some hn] at hv
        have := h i hi hv
        have e1 : sa + a.offset + i = a.offset + sa + i := by omega
        have e2 : sb + b.offset + i = b.offset + sb + i := by omega
        rw [e1, e2] at this
        simpa [bitOf] using this
      · intro h i hi hv
        have := h i hi (by rw [isValid_some hn]; exact hv)
        have e1 : sa + a.offset + i = a.offset + sa + i := by omega
        have e2 : sb + b.offset + i = b.offset + sb + i := by omega
        rw [e1, e2]
        simpa [bitOf] using this

/-- every buffer consists of bytes -/
def BytesOk (d : ArrayData) : Prop := ∀ buf ∈ d.buffers, ∀ x ∈ buf, x < 256

theorem wf_bool {d : ArrayData} (h : WellFormed d) (ht : d.type = .bool) :
    NullsOk d ∧ d.children = [] ∧ ∃ buf, d.buffers = [buf] ∧ d.offset + d.len ≤ 8 * buf.length := by
  obtain ⟨t, l, o, n, bs, cs⟩ := d
  rw [WellFormed] at h
  have h1 := h.1
  unfold LocalWF at h1
  simp only at ht
  subst ht
  simpa using h1

def boolSlot (d : ArrayData) (buf : List Nat) (i : Nat) : Val :=
  if d.isValid i then .bool (bitOf buf (d.offset + i)) else .null

theorem validAt_eq {d : ArrayData} (hn : NullsOk d) {i : Nat} (hi : i < d.len) :
    d.validAt i = some (d.isValid i) := by
  unfold ArrayData.isValid ArrayData.validAt
  unfold NullsOk at hn
  cases hnn : d.nulls with
  | none => simp
  | some n =>
    simp only [hnn] at hn
    have : (n.off + i) / 8 < n.bytes.length := by omega
    simp [bitAt, List.getElem?_eq_getElem this]

theorem decode_bool {d : ArrayData} {buf : List Nat}
    (ht : d.type = .bool) (hn : NullsOk d) (hc : d.children = [])
    (hb : d.buffers = [buf]) (hl : d.offset + d.len ≤ 8 * buf.length) :
    decode d = some ((List.range d.len).map (boolSlot d buf)) := by
  rw [decode_eq, hc]
  simp only [decodeAll]
  rw [tabulateM_eq_some_iff]
  refine ⟨by simp, fun i hi => ?_⟩
  have hi : i < d.len := by simpa using hi
  have hbit : bitAt buf (d.offset + i) = some (bitOf buf (d.offset + i)) := by
    have : (d.offset + i) / 8 < buf.length := by omega
    simp [bitOf, bitAt, List.getElem?_eq_getElem this]
  simp only [List.getElem_map, List.getElem_range, boolSlot]
  unfold slotVal
  rw [validAt_eq hn hi]
  cases hvi : d.isValid i with
  | false => simp
  | true => simp [ht, hb, hbit]

theorem boolSlot_eq_iff (a b : ArrayData) (la lb : List Nat) (i : Nat) :
    boolSlot a la i = boolSlot b lb i ↔
      (a.isValid i = b.isValid i ∧ (a.isValid i = true → bitOf la (a.offset + i) = bitOf lb (b.offset + i))) := by
  unfold boolSlot
  cases a.isValid i <;> cases b.isValid i <;> simp

end ArrowModel.C02
