import ArrowModel.C02.EqBool
/-
C02 helper lemmas for the physical `take` / `filter` model: bit packing, chunk flattening.
-/
namespace ArrowModel.C02
open ArrowModel.Physical

theorem bitsToByte_testBit : ∀ (l : List Bool) (k : Nat), (bitsToByte l).testBit k = l.getD k false
  | [], k => by simp [bitsToByte]
  | b :: r, 0 => by
    simp only [bitsToByte, Nat.testBit_zero, List.getD_cons_zero]
    cases b <;> simp <;> omega
  | b :: r, k + 1 => by
    simp only [bitsToByte, Nat.testBit_succ, List.getD_cons_succ]
    have : ((if b = true then 1 else 0) + 2 * bitsToByte r) / 2 = bitsToByte r := by
      cases b <;> simp <;> omega
    rw [this]
    exact bitsToByte_testBit r k

theorem packBits_cons (b : Bool) (r : List Bool) :
    packBits (b :: r) = bitsToByte ((b :: r).take 8) :: packBits ((b :: r).drop 8) := by
  rw [packBits]

/-- bit `k` of the packed bitmap is `bs[k]` -/
theorem bitAt_packBits : ∀ (fuel : Nat) (bs : List Bool) (k : Nat), bs.length ≤ fuel → (hk : k < bs.length) →
    bitAt (packBits bs) k = some bs[k]
  | 0, bs, k, hf, hk => by omega
  | fuel + 1, [], k, hf, hk => by simp at hk
  | fuel + 1, b :: r, k, hf, hk => by
    rw [packBits_cons]
    by_cases h8 : k < 8
    · have h0 : k / 8 = 0 := by omega
      have hm : k % 8 = k := by omega
      simp only [bitAt, h0, hm, List.getElem?_cons_zero, Option.map_some, bitsToByte_testBit]
      congr 1
      rw [List.getD_eq_getElem?_getD, List.getElem?_take]
      simp [h8, List.getElem?_eq_getElem hk]
    · have hd : k / 8 = (k - 8) / 8 + 1 := by omega
      have hm : k % 8 = (k - 8) % 8 := by omega
      have hlen : ((b :: r).drop 8).length ≤ fuel := by simp at hf ⊢; omega
      have hk' : k - 8 < ((b :: r).drop 8).length := by simp at hk ⊢; omega
      have ih := bitAt_packBits fuel ((b :: r).drop 8) (k - 8) hlen hk'
      simp only [bitAt, hd, hm, List.getElem?_cons_succ] at ih ⊢
      rw [ih]
      congr 1
      simp only [List.getElem_drop]
      congr 1; omega

theorem packBits_length : ∀ (fuel : Nat) (bs : List Bool), bs.length ≤ fuel → bs.length ≤ 8 * (packBits bs).length
  | 0, bs, hf => by omega
  | fuel + 1, [], hf => by simp
  | fuel + 1, b :: r, hf => by
    rw [packBits_cons]
    have hlen : ((b :: r).drop 8).length ≤ fuel := by simp at hf ⊢; omega
    have := packBits_length fuel ((b :: r).drop 8) hlen
    simp at this ⊢
    omega

/-- chunk `k` of a flattened list of `w`-byte chunks -/
theorem slot_flatten (w : Nat) : ∀ (cs : List (List Nat)) (k : Nat), (∀ c ∈ cs, c.length = w) → (hk : k < cs.length) →
    (cs.flatten.drop (k * w)).take w = cs[k]
  | [], k, _, hk => by simp at hk
  | c :: cs, 0, h, _ => by
    have hc : c.length = w := h c (by simp)
    simp [← hc]
  | c :: cs, k + 1, h, hk => by
    have hc : c.length = w := h c (by simp)
    have e : (k + 1) * w = c.length + k * w := by rw [Nat.add_mul, hc]; omega
    simp only [List.flatten_cons, e, List.getElem_cons_succ]
    rw [← List.drop_drop, List.drop_left]
    exact slot_flatten w cs k (fun c' hc' => h c' (List.mem_cons_of_mem _ hc')) (by simpa using hk)

theorem flatten_length (w : Nat) : ∀ (cs : List (List Nat)), (∀ c ∈ cs, c.length = w) → cs.flatten.length = cs.length * w
  | [], _ => by simp
  | c :: cs, h => by
    have hc : c.length = w := h c (by simp)
    have := flatten_length w cs (fun c' hc' => h c' (List.mem_cons_of_mem _ hc'))
    simp [this, hc, Nat.add_mul]; omega

theorem mapM_none_of_mem {α β} (f : α → Option β) : ∀ (xs : List α) (x : α), x ∈ xs → f x = none → xs.mapM f = none
  | [], x, h, _ => by simp at h
  | y :: ys, x, h, hf => by
    rw [List.mapM_cons]
    rcases List.mem_cons.1 h with rfl | h
    · simp [hf]
    · have := mapM_none_of_mem f ys x h hf
      cases f y <;> simp [this]

theorem takeSpec_map {α} (idx : List Nat) (c : List α) (g : Nat → α)
    (h : ∀ i ∈ idx, c[i]? = some (g i)) : takeSpec idx c = some (idx.map g) := by
  unfold takeSpec
  rw [mapM_eq_some_iff]
  simp only [List.map_map]
  apply List.map_congr_left
  intro i hi
  simp [h i hi]

/-- the gathered validity bitmap -/
def takeNulls (n : Nulls) (idx : List Nat) : Nulls :=
  ⟨packBits (idx.map (fun i => nbit n i)), 0, idx.length, countNulls (packBits (idx.map (fun i => nbit n i))) 0 idx.length⟩

/-- the array `takeFixed` builds when all indices are in bounds -/
def takeResult (w : Nat) (d : ArrayData) (buf : List Nat) (idx : List Nat) : ArrayData :=
  ⟨d.type, idx.length, 0, d.nulls.map (fun n => takeNulls n idx),
    [(idx.map (fun i => (buf.drop ((d.offset + i) * w)).take w)).flatten], []⟩

theorem takeFixed_eq {w : Nat} {d : ArrayData} {buf : List Nat} {idx : List Nat} (hb : d.buffers = [buf])
    (hall : idx.all (fun i => decide (i < d.len)) = true) :
    takeFixed w d idx = some (takeResult w d buf idx) := by
  unfold takeFixed takeResult takeNulls
  rw [hb]
  simp only [hall, if_true]

theorem decode_takeResult {d : ArrayData} {w : Nat} {buf : List Nat} (idx : List Nat)
    (ht : d.type = .prim w ∨ d.type = .fsb w) (hl : (d.offset + d.len) * w ≤ buf.length)
    (hall' : ∀ i ∈ idx, i < d.len) :
    decode (takeResult w d buf idx) = some (idx.map (leafSlot d buf w)) := by
  have hchunk : ∀ c ∈ idx.map (fun i => (buf.drop ((d.offset + i) * w)).take w), c.length = w := by
    intro c hc
    simp only [List.mem_map] at hc
    obtain ⟨i, hi, rfl⟩ := hc
    have := hall' i hi
    have : (d.offset + i + 1) * w ≤ (d.offset + d.len) * w := Nat.mul_le_mul_right _ (by omega)
    rw [Nat.add_mul] at this
    simp; omega
  have hflen := flatten_length w _ hchunk
  have hrn : NullsOk (takeResult w d buf idx) := by
    unfold NullsOk
    cases hdn : d.nulls with
    | none => simp [takeResult, hdn]
    | some n =>
      simp only [takeResult, takeNulls, hdn, Option.map_some, true_and]
      have := packBits_length _ (idx.map (fun i => nbit n i)) (Nat.le_refl _)
      simp at this ⊢
      omega
  have hdec := decode_fixed (d := takeResult w d buf idx) (w := w) (buf := _) ht hrn rfl rfl (by
    show (0 + idx.length) * w ≤ _
    rw [hflen]; simp)
  rw [hdec]
  congr 1
  apply List.ext_getElem
  · simp [takeResult]
  · intro k h1 h2
    have hk : k < idx.length := by simpa using h2
    simp only [List.getElem_map, List.getElem_range]
    unfold leafSlot
    have hvalid : (takeResult w d buf idx).isValid k = d.isValid idx[k] := by
      cases hdn : d.nulls with
      | none => rw [isValid_none hdn, isValid_none (by simp [takeResult, hdn])]
      | some n =>
        have hrn' : (takeResult w d buf idx).nulls = some (takeNulls n idx) := by
          simp [takeResult, hdn]
        rw [isValid_some hdn, isValid_some hrn']
        unfold nbit takeNulls
        simp only [Nat.zero_add]
        rw [bitAt_packBits _ (idx.map (fun i => nbit n i)) k (Nat.le_refl _) (by simpa using hk)]
        simp [nbit]
    have hbytes : slotBytes (idx.map (fun i => (buf.drop ((d.offset + i) * w)).take w)).flatten w ((takeResult w d buf idx).offset + k)
        = slotBytes buf w (d.offset + idx[k]) := by
      show slotBytes _ w (0 + k) = _
      unfold slotBytes
      rw [Nat.zero_add, slot_flatten w _ k hchunk (by simpa using hk)]
      simp
    rw [hvalid]
    show (if d.isValid idx[k] = true then Val.bytes (slotBytes (idx.map (fun i => (buf.drop ((d.offset + i) * w)).take w)).flatten w ((takeResult w d buf idx).offset + k)) else Val.null) = _
    rw [hbytes]

/-- **Physical `take` on fixed-width layouts is a function of the logical column**: decoding
the array built by the model of `take` (gather the `w`-byte payloads — including whatever lies
under null slots — and pack a fresh validity bitmap) gives `takeSpec idx` of the decoded input;
an out-of-bounds index fails on both sides. -/
theorem decode_takeFixed_aux {d : ArrayData} {w : Nat} (hw : WellFormed d)
    (ht : d.type = .prim w ∨ d.type = .fsb w) (idx : List Nat) :
    (takeFixed w d idx).bind decode = (decode d).bind (takeSpec idx) := by
  obtain ⟨hn, hc, buf, hb, hl⟩ := wf_fixed hw ht
  rw [decode_fixed ht hn hc hb hl]
  simp only [Option.bind_some]
  by_cases hall : idx.all (fun i => decide (i < d.len)) = true
  · have hall' : ∀ i ∈ idx, i < d.len := by simpa using hall
    rw [takeFixed_eq hb hall, Option.bind_some, decode_takeResult idx ht hl hall']
    rw [takeSpec_map idx _ (leafSlot d buf w) (by
      intro i hi
      have := hall' i hi
      simp [this])]
  · have hall' : idx.all (fun i => decide (i < d.len)) = false := by simpa using hall
    have hnone : takeFixed w d idx = none := by
      unfold takeFixed; rw [hb]; simp only [hall', Bool.false_eq_true, if_false]
    rw [hnone, Option.bind_none]
    have : ∃ i ∈ idx, ¬ i < d.len := by
      apply Classical.byContradiction
      intro hne
      apply hall
      simp only [List.all_eq_true, decide_eq_true_eq]
      intro i hi
      exact Classical.byContradiction (fun h => hne ⟨i, hi, h⟩)
    obtain ⟨i, hi, hlt⟩ := this
    symm
    unfold takeSpec
    apply mapM_none_of_mem _ idx i hi
    simp; omega

theorem maskIndices_cons (b : Bool) (m : List Bool) :
    maskIndices (b :: m) = (if b then [0] else []) ++ (maskIndices m).map (· + 1) := by
  unfold maskIndices
  simp only [List.length_cons, List.range_succ_eq_map, List.filter_cons, List.getD_cons_zero, List.filter_map]
  cases b <;> simp [Function.comp_def]

theorem takeSpec_shift {α} (x : α) (c : List α) : ∀ (l : List Nat), takeSpec (l.map (· + 1)) (x :: c) = takeSpec l c
  | [] => by simp [takeSpec]
  | i :: l => by
    have := takeSpec_shift x c l
    unfold takeSpec at this ⊢
    simp only [List.map_cons, List.mapM_cons, List.getElem?_cons_succ, this]

theorem takeSpec_maskIndices {α} : ∀ (mask : List Bool) (vs : List α), mask.length = vs.length →
    takeSpec (maskIndices mask) vs = some (filterSpec mask vs)
  | [], [], _ => by simp [maskIndices, takeSpec, filterSpec]
  | [], _ :: _, h => by simp at h
  | _ :: _, [], h => by simp at h
  | b :: m, x :: vs, h => by
    have ih := takeSpec_maskIndices m vs (by simpa using h)
    rw [maskIndices_cons]
    cases b with
    | false =>
      simp only [Bool.false_eq_true, if_false, List.nil_append, filterSpec]
      rw [takeSpec_shift, ih]
    | true =>
      simp only [if_true, filterSpec]
      have := takeSpec_shift x vs (maskIndices m)
      unfold takeSpec at this ih ⊢
      simp only [List.singleton_append, List.mapM_cons, List.getElem?_cons_zero, this, ih]
      rfl

/-- **Physical `filter` on fixed-width layouts** = `filterSpec` of the decoded column -/
theorem decode_filterFixed_aux {d : ArrayData} {w : Nat} (hw : WellFormed d)
    (ht : d.type = .prim w ∨ d.type = .fsb w) (mask : List Bool) (hm : mask.length = d.len) :
    (filterFixed w d mask).bind decode = (decode d).map (filterSpec mask) := by
  unfold filterFixed
  simp only [hm, if_true]
  rw [decode_takeFixed_aux hw ht]
  obtain ⟨hn, hc, buf, hb, hl⟩ := wf_fixed hw ht
  rw [decode_fixed ht hn hc hb hl]
  simp only [Option.bind_some, Option.map_some]
  exact takeSpec_maskIndices mask _ (by simp [hm])

end ArrowModel.C02
