import ArrowModel.C09.Physical
/-
C02 specification: "array content, equality and kernel results depend only on logical values".

The abstraction function is `ArrowModel.Physical.decode : ArrayData → Option (List Val)` (shared
library written from the Arrow columnar specification, created for C09).  Fixed-width values
(ints, floats, decimals) are `Val.bytes` of their little-endian bytes, so *floats are compared by
bit pattern* (NaN payloads and ±0 are distinguished) — exactly what `arrow-data/src/equal` does.

* `LogicallyEqual a b` – the property's notion of equality: same type and same decoded column;
  `logicallyEqualB` is its executable form (used by the driver, `spec=` field);
* `takeSpec / sliceSpec / concatSpec` – row selection on logical columns;
* `mapSpec f / zipSpec f` – row-wise kernels.
-/
namespace ArrowModel.C02
open ArrowModel.Physical

/-! ## Decidable equality of logical values (`Val` is a nested inductive) -/

mutual
def valBeq : Val → Val → Bool
  | .null, .null => true
  | .bool a, .bool b => a == b
  | .int a, .int b => a == b
  | .bytes a, .bytes b => a == b
  | .list a, .list b => valsBeq a b
  | .struct a, .struct b => valsBeq a b
  | .union i a, .union j b => i == j && valBeq a b
  | _, _ => false
def valsBeq : List Val → List Val → Bool
  | [], [] => true
  | a :: as, b :: bs => valBeq a b && valsBeq as bs
  | _, _ => false
end

mutual
theorem valBeq_iff : ∀ (a b : Val), valBeq a b = true ↔ a = b
  | .null, b => by cases b <;> simp [valBeq]
  | .bool _, b => by cases b <;> simp [valBeq]
  | .int _, b => by cases b <;> simp [valBeq]
  | .bytes _, b => by cases b <;> simp [valBeq]
  | .list a, b => by
      cases b <;> simp [valBeq]
      exact valsBeq_iff a _
  | .struct a, b => by
      cases b <;> simp [valBeq]
      exact valsBeq_iff a _
  | .union _ a, b => by
      cases b <;> simp [valBeq]
      rename_i j b
      rw [valBeq_iff a b]
      exact fun _ => Iff.rfl
theorem valsBeq_iff : ∀ (a b : List Val), valsBeq a b = true ↔ a = b
  | [], b => by cases b <;> simp [valsBeq]
  | a :: as, b => by
      cases b <;> simp [valsBeq]
      rename_i b bs
      rw [valBeq_iff a b, valsBeq_iff as bs]
end

instance : DecidableEq Val := fun a b => decidable_of_iff _ (valBeq_iff a b)

/-! ## Logical equality of arrays -/

/-- **the property's equality**: same data type and same logical column.  Values are compared
as `Val`s, i.e. fixed-width values by their bytes (floats by bit pattern). -/
def LogicallyEqual (a b : ArrayData) : Prop := a.type = b.type ∧ decode a = decode b

/-- executable form (both arrays must decode) -/
def logicallyEqualB (a b : ArrayData) : Bool :=
  decide (a.type = b.type) &&
  match decode a, decode b with
  | some x, some y => decide (x = y)
  | _, _ => false

theorem logicallyEqualB_iff {a b : ArrayData} (ha : (decode a).isSome) :
    logicallyEqualB a b = true ↔ LogicallyEqual a b := by
  unfold logicallyEqualB LogicallyEqual
  cases hda : decode a with
  | none => simp [hda] at ha
  | some x =>
    cases hdb : decode b with
    | none => simp
    | some y => simp

/-! ## Row selection and row-wise kernels on logical columns -/

/-- `take`: row `k` of the result is row `idx[k]` of the input; `none` if an index is out of
bounds (the kernel errors / panics) -/
def takeSpec {α} (idx : List Nat) (c : List α) : Option (List α) := idx.mapM (fun i => c[i]?)

/-- `take` with nullable indices: a null index gives the null row `nul` -/
def takeNullSpec {α} (nul : α) (idx : List (Option Nat)) (c : List α) : Option (List α) :=
  idx.mapM (fun i => match i with | none => some nul | some i => c[i]?)

/-- `slice(o, l)` -/
def sliceSpec {α} (o l : Nat) (c : List α) : List α := (c.drop o).take l

/-- `filter(mask)`: rows whose mask bit is set -/
def filterSpec {α} : List Bool → List α → List α
  | true :: m, x :: c => x :: filterSpec m c
  | false :: m, _ :: c => filterSpec m c
  | _, _ => []

/-- `concat` -/
def concatSpec {α} (cs : List (List α)) : List α := cs.flatten

/-- a unary row-wise kernel -/
def mapSpec {α β} (f : α → β) (c : List α) : List β := c.map f

/-- a binary row-wise kernel (operands of equal length) -/
def zipSpec {α β γ} (f : α → β → γ) (c : List α) (d : List β) : List γ := List.zipWith f c d

end ArrowModel.C02
