import ArrowModel.C09.Physical
import ArrowModel.Generated.C02
/-
C02 model: `arrow-data/src/equal/*.rs` as written, over the physical `ArrayData` of the shared
library `ArrowModel.Physical` (buffers = byte lists, validity = LSB-first bitmap with its own
bit offset), plus `ArrayData::slice` and a physical `take`/`filter` on fixed-width layouts.

Fidelity notes
* word-level bit tricks (`BitChunks`, `BitSliceIterator`'s u64 scanning) are C19's subject; here
  they appear at the level of the bit sequence they iterate over (`nullBits`, `bitSlices`,
  `setBitIndices`), but the *control flow* of every `*_equal` function (fast paths, the
  null-density switch, zip-of-slices, early returns, which side's mask is consulted) is kept;
* Rust panics (`unwrap` on a missing null buffer, slice index out of range, negative offset
  `to_usize().unwrap()`) are not modelled: the model returns `false` / reads `0` there; all
  theorems and all driver answers are about well-formed arrays, where these cannot happen;
* recursion is on the data type of the left array (as `equal_values` dispatches on
  `lhs.data_type()`); for well-formed arrays the child's own type is the declared item type.
-/
namespace ArrowModel.C02
open ArrowModel.Physical
open ArrowModel.Generated.C02

/-! ## Validity helpers -/

/-- `NullBuffer::is_valid(i)` -/
def nbit (n : Nulls) (i : Nat) : Bool := bitAt n.bytes (n.off + i) == some true

/-- the validity bits `start .. start+len` (what `BitSliceIterator::new(validity, offset+start, len)`
and `BitIndexIterator` iterate over) -/
def nullBits (n : Nulls) (start len : Nat) : List Bool := (List.range len).map (fun i => nbit n (start + i))

/-- `BitSliceIterator`: the maximal runs of set bits as half-open `(start, end)` pairs.
`pos` = index of the head of the list, `cur` = start of the run being scanned. -/
def bitSlicesAux : List Bool → Nat → Option Nat → List (Nat × Nat)
  | [], pos, some s => [(s, pos)]
  | [], _, none => []
  | true :: r, pos, none => bitSlicesAux r (pos + 1) (some pos)
  | true :: r, pos, some s => bitSlicesAux r (pos + 1) (some s)
  | false :: r, pos, some s => (s, pos) :: bitSlicesAux r (pos + 1) none
  | false :: r, pos, none => bitSlicesAux r (pos + 1) none

def bitSlices (bits : List Bool) : List (Nat × Nat) := bitSlicesAux bits 0 none

/-- `arrow_data::data::contains_nulls(nulls, offset, len)`: looks at the first slice only -/
def containsNulls (nulls : Option Nulls) (off len : Nat) : Bool :=
  match nulls with
  | none => false
  | some n =>
    match (bitSlices (nullBits n off len)).head? with
    | some (s, e) => s != 0 || e != len
    | none => len != 0

/-- `arrow_data::data::count_nulls(nulls, offset, len)` -/
def countNullsIn (nulls : Option Nulls) (off len : Nat) : Nat :=
  match nulls with
  | none => 0
  | some n => len - ((nullBits n off len).filter id).length

/-- `equal::utils::equal_bits` (compares the two bit ranges chunk by chunk) -/
def equalBits (l r : List Nat) (ls rs len : Nat) : Bool :=
  (List.range len).all (fun i => (bitAt l (ls + i) == some true) == (bitAt r (rs + i) == some true))

/-- `equal::utils::equal_len`: `lhs[ls..ls+len] == rhs[rs..rs+len]` -/
def equalLen (l r : List Nat) (ls rs len : Nat) : Bool := (l.drop ls).take len == (r.drop rs).take len

/-- `equal::utils::equal_nulls` -/
def equalNulls (a b : ArrayData) (sa sb len : Nat) : Bool :=
  match a.nulls, b.nulls with
  | some na, some nb => equalBits na.bytes nb.bytes (na.off + sa) (nb.off + sb) len
  | some na, none => !containsNulls (some na) sa len
  | none, some nb => !containsNulls (some nb) sb len
  | none, none => true

/-- `ArrayData::null_count()` (the declared count) -/
def nullCountOf (d : ArrayData) : Nat :=
  match d.nulls with
  | none => 0
  | some n => n.nullCount

/-- `lhs.null_count() as f64 / lhs.len() as f64 >= NULL_SLICES_SELECTIVITY_THRESHOLD`
(`0/0 = NaN` compares false) -/
def denseNulls (d : ArrayData) : Bool :=
  d.len != 0 && decide (NULL_SLICES_SELECTIVITY_THRESHOLD_num * d.len ≤ NULL_SLICES_SELECTIVITY_THRESHOLD_den * nullCountOf d)

/-! ## Leaf types -/

/-- `primitive_equal::<T>` (`w = size_of::<T>()`) and `fixed_binary_equal` (`w = size`) -/
def fixedEqual (w : Nat) (a b : ArrayData) (sa sb len : Nat) : Bool :=
  match a.buffers, b.buffers with
  | la :: _, lb :: _ =>
    let lv := la.drop (a.offset * w)
    let rv := lb.drop (b.offset * w)
    if !containsNulls a.nulls sa len then
      equalLen lv rv (sa * w) (sb * w) (len * w)
    else
      match a.nulls, b.nulls with
      | some na, some nb =>
        if denseNulls a then
          (List.range len).all (fun i =>
            let lnull := !nbit na (sa + i)
            let rnull := !nbit nb (sb + i)
            lnull || ((lnull == rnull) && equalLen lv rv ((sa + i) * w) ((sb + i) * w) w))
        else
          ((bitSlices (nullBits na sa len)).zip (bitSlices (nullBits nb sb len))).all
            (fun p => p.1.1 == p.2.1 && p.1.2 == p.2.2 &&
              equalLen lv rv ((sa + p.1.1) * w) ((sb + p.2.1) * w) ((p.1.2 - p.1.1) * w))
      | _, _ => false
  | _, _ => false

/-- `boolean_equal` -/
def boolEqual (a b : ArrayData) (sa sb len : Nat) : Bool :=
  match a.buffers, b.buffers with
  | la :: _, lb :: _ =>
    if !containsNulls a.nulls sa len then
      if sa % 8 == 0 && sb % 8 == 0 && a.offset % 8 == 0 && b.offset % 8 == 0 then
        let quot := len / 8
        if quot > 0 && !equalLen la lb (sa / 8 + a.offset / 8) (sb / 8 + b.offset / 8) quot then false
        else
          let rem := len % 8
          if rem == 0 then true
          else equalBits la lb (sa + (len - rem) + a.offset) (sb + (len - rem) + b.offset) rem
      else equalBits la lb (sa + a.offset) (sb + b.offset) len
    else
      match a.nulls with
      | some na =>
        ((List.range len).filter (fun i => nbit na (sa + i))).all (fun i =>
          (bitAt la (sa + a.offset + i) == some true) == (bitAt lb (sb + b.offset + i) == some true))
      | none => false
  | _, _ => false

/-- element `p` of `data.buffer::<T>(0)` for an offsets buffer (`T = i32 / i64`) -/
def offAt (d : ArrayData) (large : Bool) (p : Nat) : Int :=
  match d.buffers with
  | offs :: _ => (readInt offs (offW large) true (d.offset + p)).getD 0
  | [] => 0

/-- `list::lengths_equal` on two offset slices -/
def lengthsEqual : List Int → List Int → Bool
  | [], _ => true
  | _ :: _, [] => false
  | l0 :: lt, r0 :: rt =>
    if l0 == 0 && r0 == 0 then (l0 :: lt) == (r0 :: rt)
    else
      (((l0 :: lt).zip lt).zip ((r0 :: rt).zip rt)).all (fun p => p.1.2 - p.1.1 == p.2.2 - p.2.1)

/-- the offsets `start .. start+count` as a list -/
def offSlice (d : ArrayData) (large : Bool) (start count : Nat) : List Int :=
  (List.range count).map (fun i => offAt d large (start + i))

/-- `variable_size::offset_value_equal` -/
def offsetValueEqual (lv rv : List Nat) (a b : ArrayData) (large : Bool) (lp rp len : Nat) : Bool :=
  let ls := (offAt a large lp).toNat
  let rs := (offAt b large rp).toNat
  let ll := (offAt a large (lp + len) - offAt a large lp).toNat
  let rl := (offAt b large (rp + len) - offAt b large rp).toNat
  if ll == 0 && rl == 0 then true
  else ll == rl && equalLen lv rv ls rs ll

/-- `variable_sized_equal::<T>` -/
def varEqual (large : Bool) (a b : ArrayData) (sa sb len : Nat) : Bool :=
  match a.buffers, b.buffers with
  | [_, lv], [_, rv] =>
    if !containsNulls a.nulls sa len then
      lengthsEqual (offSlice a large sa (len + 1)) (offSlice b large sb (len + 1))
        && offsetValueEqual lv rv a b large sa sb len
    else
      (List.range len).all (fun i =>
        let lnull := match a.nulls with | some n => !nbit n (sa + i) | none => false
        let rnull := match b.nulls with | some n => !nbit n (sb + i) | none => false
        lnull || ((lnull == rnull) && offsetValueEqual lv rv a b large (sa + i) (sb + i) 1))
  | _, _ => false

/-- dictionary key `p` of `data.buffer::<K>(0)` as `usize` -/
def keyAt (d : ArrayData) (kw : Nat) (signed : Bool) (p : Nat) : Nat :=
  match d.buffers with
  | keys :: _ => ((readInt keys kw signed (d.offset + p)).getD 0).toNat
  | [] => 0

/-! ## View arrays (`equal/byte_view.rs`) -/

/-- the 16 bytes of view `p` of `data.buffer::<u128>(0)` -/
def viewAt (d : ArrayData) (p : Nat) : List Nat :=
  match d.buffers with
  | views :: _ => (views.drop ((d.offset + p) * 16)).take 16
  | [] => []

/-- `byte_view_equal`: null slots of the left operand (`lhs.is_null(lhs_start + idx)`) are skipped;
length + 4-byte prefix (`*l as u64`) compared first; inline views (`len <= 12`) compared as whole
`u128`s; long views by the bytes after the prefix in the data buffers they name -/
def viewEqual (a b : ArrayData) (sa sb len : Nat) : Bool :=
  (List.range len).all (fun idx =>
    let lnull := match a.nulls with | some n => !nbit n (sa + idx) | none => false
    if lnull then true else
    let l := viewAt a (sa + idx)
    let r := viewAt b (sb + idx)
    if l.take 8 != r.take 8 then false else
    let n := le32 l 0
    if n ≤ 12 then l == r else
    match (a.buffers.drop 1)[le32 l 8]?, (b.buffers.drop 1)[le32 r 8]? with
    | some lb, some rb =>
      (lb.drop (le32 l 12 + 4)).take (n - 4) == (rb.drop (le32 r 12 + 4)).take (n - 4)
    | _, _ => false)

/-! ## Run-end encoded arrays (`equal/run.rs`, `RunEndBuffer`) -/

/-- view of the run-ends child as `RunArrayData::new` builds it: the *whole* first buffer of
the child as `T` values, logical offset = `child.offset + data.offset + start` -/
structure RunView where
  ends : List Int
  off : Nat
  len : Nat

def allRunEnds (buf : List Nat) (rw : Nat) : List Int :=
  if rw = 0 then [] else (List.range (buf.length / rw)).filterMap (fun j => readInt buf rw true j)

def runView (d : ArrayData) (rw : Nat) (start len : Nat) : RunView :=
  match d.children with
  | re :: _ =>
    match re.buffers with
    | b :: _ => ⟨allRunEnds b rw, re.offset + d.offset + start, len⟩
    | [] => ⟨[], re.offset + d.offset + start, len⟩
  | [] => ⟨[], d.offset + start, len⟩

/-- `RunEndBuffer::get_physical_index` (binary search = number of run ends `≤ offset+i`) -/
def RunView.physicalIndex (v : RunView) (i : Nat) : Nat :=
  (v.ends.takeWhile (fun e => decide (e ≤ ((v.off + i : Nat) : Int)))).length

def RunView.startPhys (v : RunView) : Nat :=
  if v.off == 0 || v.len == 0 then 0 else v.physicalIndex 0

def RunView.maxValue (v : RunView) : Nat := (v.ends.getLast?.getD 0).toNat

def RunView.endPhys (v : RunView) : Nat :=
  if v.len == 0 then 0
  else if v.maxValue == v.off + v.len then v.ends.length - 1
  else v.physicalIndex (v.len - 1)

def RunView.runEnd (v : RunView) (j : Nat) : Nat := (v.ends.getD j 0).toNat

/-- `RunEndBuffer::sliced_values` -/
def RunView.slicedValues (v : RunView) : List Nat :=
  if v.len == 0 then []
  else ((List.range (v.endPhys + 1 - v.startPhys)).map (fun k => min (v.runEnd (v.startPhys + k) - v.off) v.len))

/-- the stepping loop of `run_equal_inner`; `eq1 l r` = `equal_range(values, values, l, r, 1)` -/
def runLoop (eq1 : Nat → Nat → Bool) (l r : RunView) (len : Nat) : Nat → Nat → Nat → Nat → Bool
  | 0, _, _, processed => decide (len ≤ processed)
  | fuel + 1, lp, rp, processed =>
    if len ≤ processed then true
    else if !eq1 lp rp then false
    else
      let lre := l.runEnd lp
      let rre := r.runEnd rp
      let step := min (min (lre - (l.off + processed)) (rre - (r.off + processed))) (len - processed)
      let processed' := processed + step
      -- a non-advancing step (malformed run ends) would loop forever in Rust
      if step == 0 then false else
      runLoop eq1 l r len fuel
        (if l.off + processed' == lre then lp + 1 else lp)
        (if r.off + processed' == rre then rp + 1 else rp)
        processed'

/-! ## `equal_values` / `equal_range` -/

mutual
/-- `equal::equal_values`, dispatching on the (left) data type -/
def equalValuesT : DType → ArrayData → ArrayData → Nat → Nat → Nat → Bool
  | .null, _, _, _, _, _ => true
  | .bool, a, b, sa, sb, len => boolEqual a b sa sb len
  | .prim w, a, b, sa, sb, len => fixedEqual w a b sa sb len
  | .fsb w, a, b, sa, sb, len => fixedEqual w a b sa sb len
  | .utf8 large, a, b, sa, sb, len => varEqual large a b sa sb len
  | .binary large, a, b, sa, sb, len => varEqual large a b sa sb len
  | .view _, a, b, sa, sb, len => viewEqual a b sa sb len
  -- `list_equal::<T>`
  | .list large item _, a, b, sa, sb, len =>
    match a.children, b.children with
    | ca :: _, cb :: _ =>
      if len == 0 then true else
      let lcl := (offAt a large (sa + len)).toNat - (offAt a large sa).toNat
      let rcl := (offAt b large (sb + len)).toNat - (offAt b large sb).toNat
      if lcl == 0 && lcl == rcl then true else
      let lnc := countNullsIn a.nulls sa len
      let rnc := countNullsIn b.nulls sb len
      if lnc != rnc then false else
      if lnc == 0 && rnc == 0 then
        lcl == rcl
          && lengthsEqual (offSlice a large sa len) (offSlice b large sb len)
          && (equalNulls ca cb (offAt a large sa).toNat (offAt b large sb).toNat lcl
              && equalValuesT item ca cb (offAt a large sa).toNat (offAt b large sb).toNat lcl)
      else
        match a.nulls, b.nulls with
        | some na, some nb =>
          (List.range len).all (fun i =>
            let lnull := !nbit na (sa + i)
            let rnull := !nbit nb (sb + i)
            if lnull != rnull then false else
            let los := (offAt a large (sa + i)).toNat
            let loe := (offAt a large (sa + i + 1)).toNat
            let ros := (offAt b large (sb + i)).toNat
            let roe := (offAt b large (sb + i + 1)).toNat
            lnull || (loe - los == roe - ros
              && (equalNulls ca cb los ros (loe - los) && equalValuesT item ca cb los ros (loe - los))))
        | _, _ => false
    | _, _ => false
  -- `fixed_list_equal`
  | .fsl size item _, a, b, sa, sb, len =>
    match a.children, b.children with
    | ca :: _, cb :: _ =>
      if !containsNulls a.nulls sa len then
        equalNulls ca cb ((sa + a.offset) * size) ((sb + b.offset) * size) (size * len)
          && equalValuesT item ca cb ((sa + a.offset) * size) ((sb + b.offset) * size) (size * len)
      else
        match a.nulls, b.nulls with
        | some na, some nb =>
          (List.range len).all (fun i =>
            let lnull := !nbit na (sa + i)
            let rnull := !nbit nb (sb + i)
            lnull || ((lnull == rnull) &&
              (equalNulls ca cb ((sa + i + a.offset) * size) ((sb + i + b.offset) * size) size
                && equalValuesT item ca cb ((sa + i + a.offset) * size) ((sb + i + b.offset) * size) size)))
        | _, _ => false
    | _, _ => false
  -- `struct_equal` (NB: the parent's `offset` is *not* added to the child positions)
  | .struct fs, a, b, sa, sb, len =>
    if !containsNulls a.nulls sa len then
      equalChildValuesT fs a.children b.children sa sb len
    else
      match a.nulls, b.nulls with
      | some na, some nb =>
        (List.range len).all (fun i =>
          let lnull := !nbit na (sa + i)
          let rnull := !nbit nb (sb + i)
          if lnull != rnull then false else
          lnull || equalChildValuesT fs a.children b.children (sa + i) (sb + i) 1)
      | _, _ => false
  -- `dictionary_equal::<K>`
  | .dict kw signed value, a, b, sa, sb, len =>
    match a.children, b.children with
    | va :: _, vb :: _ =>
      if !containsNulls a.nulls sa len then
        (List.range len).all (fun i =>
          equalNulls va vb (keyAt a kw signed (sa + i)) (keyAt b kw signed (sb + i)) 1
            && equalValuesT value va vb (keyAt a kw signed (sa + i)) (keyAt b kw signed (sb + i)) 1)
      else
        match a.nulls, b.nulls with
        | some na, some nb =>
          (List.range len).all (fun i =>
            let lnull := !nbit na (sa + i)
            let rnull := !nbit nb (sb + i)
            lnull || ((lnull == rnull) &&
              (equalNulls va vb (keyAt a kw signed (sa + i)) (keyAt b kw signed (sb + i)) 1
                && equalValuesT value va vb (keyAt a kw signed (sa + i)) (keyAt b kw signed (sb + i)) 1)))
        | _, _ => false
    | _, _ => false
  -- `run_equal` / `run_equal_inner::<R>`
  | .ree rw value, a, b, sa, sb, len =>
    match a.children, b.children with
    | [_, va], [_, vb] =>
      if len == 0 then true else
      let l := runView a rw sa len
      let r := runView b rw sb len
      let lruns := l.endPhys - l.startPhys + 1
      let rruns := r.endPhys - r.startPhys + 1
      if lruns == rruns && l.slicedValues == r.slicedValues then
        equalNulls va vb l.startPhys r.startPhys lruns
          && equalValuesT value va vb l.startPhys r.startPhys lruns
      else
        runLoop (fun lp rp => equalNulls va vb lp rp 1 && equalValuesT value va vb lp rp 1)
          l r len len l.startPhys r.startPhys 0
    | _, _ => false
  -- `union_equal` is not modelled
  | .union _ _, _, _, _, _, _ => false
/-- `structure::equal_child_values`: `zip` of the children, each compared with `equal_range` -/
def equalChildValuesT : Fields → List ArrayData → List ArrayData → Nat → Nat → Nat → Bool
  | .cons _ t _ rest, ca :: cas, cb :: cbs, sa, sb, len =>
    (equalNulls ca cb sa sb len && equalValuesT t ca cb sa sb len)
      && equalChildValuesT rest cas cbs sa sb len
  | _, _, _, _, _, _ => true
end

/-- `equal::equal_range` -/
def equalRange (a b : ArrayData) (sa sb len : Nat) : Bool :=
  equalNulls a b sa sb len && equalValuesT a.type a b sa sb len

/-- `equal::utils::base_equal` (data types compared as `DType`s) -/
def baseEqual (a b : ArrayData) : Bool := decide (a.type = b.type) && a.len == b.len

/-- **`arrow_data::equal::equal`** = `ArrayData: PartialEq` = `Array: PartialEq` (`to_data()`) -/
def equalModel (a b : ArrayData) : Bool :=
  baseEqual a b && nullCountOf a == nullCountOf b
    && equalNulls a b 0 0 a.len && equalValuesT a.type a b 0 0 a.len

/-- does the type tree contain a constructor `equalValuesT` does not model? -/
def modelled : DType → Bool
  | .union _ _ => false
  | .list _ i _ => modelled i
  | .fsl _ i _ => modelled i
  | .dict _ _ v => modelled v
  | .ree _ v => modelled v
  | .struct fs => modelledFields fs
  | _ => true
where modelledFields : Fields → Bool
  | .nil => true
  | .cons _ t _ r => modelled t && modelledFields r

/-! ## `ArrayData::slice` -/

mutual
/-- `ArrayData::slice(offset, length)`: bump offset and length, slice the validity; **for
`Struct` the children are sliced as well** (and the parent offset is bumped too). -/
def sliceModel : ArrayData → Nat → Nat → ArrayData
  | ⟨t, _, off, nulls, bufs, cs⟩, o, l =>
    match t with
    | .struct _ => ⟨t, l, off + o, nulls.map (·.slice o l), bufs, sliceAllModel cs o l⟩
    | _ => ⟨t, l, off + o, nulls.map (·.slice o l), bufs, cs⟩
def sliceAllModel : List ArrayData → Nat → Nat → List ArrayData
  | [], _, _ => []
  | c :: cs, o, l => sliceModel c o l :: sliceAllModel cs o l
end

/-! ## Physical `take` / `filter` on fixed-width layouts (values buffer + validity bitmap) -/

/-- the byte whose bit `j` is `bs[j]` (LSB first) -/
def bitsToByte : List Bool → Nat
  | [] => 0
  | b :: r => (if b then 1 else 0) + 2 * bitsToByte r

/-- pack bits LSB-first into bytes -/
def packBits : List Bool → List Nat
  | [] => []
  | bs@(_ :: _) => bitsToByte (bs.take 8) :: packBits (bs.drop 8)
termination_by bs => bs.length
decreasing_by simp_all; omega

/-- `take` of a fixed-width array (`prim w` / `fsb w`): gather the `w`-byte values at
`idx`, build a fresh validity bitmap iff the input has one; the payload of a null input slot
is copied as is (as `take_native` does).  Indices out of bounds → `none`. -/
def takeFixed (w : Nat) (d : ArrayData) (idx : List Nat) : Option ArrayData :=
  match d.buffers with
  | [buf] =>
    if idx.all (fun i => decide (i < d.len)) then
      let vals := (idx.map (fun i => (buf.drop ((d.offset + i) * w)).take w)).flatten
      let nulls := d.nulls.map (fun n =>
        let bits := idx.map (fun i => nbit n i)
        ({ bytes := packBits bits, off := 0, len := idx.length,
           nullCount := countNulls (packBits bits) 0 idx.length } : Nulls))
      some ⟨d.type, idx.length, 0, nulls, [vals], []⟩
    else none
  | _ => none

/-- the indices selected by a filter mask -/
def maskIndices (mask : List Bool) : List Nat :=
  (List.range mask.length).filter (fun i => mask.getD i false)

/-- `filter` of a fixed-width array = `take` of the selected indices -/
def filterFixed (w : Nat) (d : ArrayData) (mask : List Bool) : Option ArrayData :=
  if mask.length = d.len then takeFixed w d (maskIndices mask) else none

end ArrowModel.C02
