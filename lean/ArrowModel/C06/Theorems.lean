import ArrowModel.C06.Lemmas
/-
C06 — property theorems.  "Row selections behave as sets of row positions: composing,
intersecting, unioning, splitting, offsetting and limiting them … equals the corresponding
operations on the positions they denote", and the reader / offset-limit budget statements.

`Spec.mask s` is the denotation of a run-length selection (one boolean per row);
`Spec.positions s` the ascending list of selected row positions, `Spec.domain s` the number of
rows spanned.  All statements quantify over *every* selector list (any run pattern, zero-length
selectors, unequal lengths); proofs are by induction over the Rust loops' recursion.
-/
namespace ArrowModel.C06
open Spec

/-- **`FromIterator<RowSelector>` / `From<Vec<RowSelector>>`** (dropping zero-length
selectors and merging neighbours) never changes which rows are selected nor the domain. -/
theorem fromIter_denotation (s : List Sel) : mask (fromIter s) = mask s := mask_fromIter s

example : mask (fromIter [(3, true), (0, false), (2, true), (4, false), (1, false)]) =
    mask [(3, true), (0, false), (2, true), (4, false), (1, false)] := fromIter_denotation _

/-- **`RowSelection::intersection`** (selector backing, any two selector lists, including
unequal total lengths and zero-length selectors): row `i` of the result is selected iff it is
selected in both, on the common domain; the tail of the longer operand passes through
unchanged (the behaviour `intersect_row_selections` implements and the mask backing
documents). -/
theorem intersection_pointwise (l r : List Sel) :
    mask (intersectSel l r) = zipTail (· && ·) (mask l) (mask r) := by
  unfold intersectSel; rw [mask_fromIter, mask_interGo]

/-- **`RowSelection::union`**: pointwise OR on the common domain, longer tail passes through. -/
theorem union_pointwise (l r : List Sel) :
    mask (unionSel l r) = zipTail (· || ·) (mask l) (mask r) := by
  unfold unionSel; rw [mask_fromIter, mask_unionGo]

example : mask (intersectSel [(2, true), (4, false), (2, true)] [(1, true), (1, false), (7, true)]) =
    zipTail (· && ·) (mask [(2, true), (4, false), (2, true)]) (mask [(1, true), (1, false), (7, true)]) :=
  intersection_pointwise _ _

/-- **`RowSelection::split_off(n)`** partitions the selection at row `n`: the returned head
denotes the first `n` rows, what remains in `self` denotes the rest — nothing lost, nothing
duplicated, for every `n` (also `0` and beyond the end). -/
theorem splitOff_partitions (s : List Sel) (n : Nat) :
    mask (splitOffSel s n).1 = (mask s).take n ∧ mask (splitOffSel s n).2 = (mask s).drop n :=
  mask_splitOffSel s n

/-- **`RowSelection::and_then`** (`and_then_iter`): whenever it does not panic, the result
spans the domain of `first`, and a row is selected iff `first` selects it and `second`
selects its rank among `first`'s selected rows — composition of selections. -/
theorem andThen_composes (first second out : List Sel)
    (h : andThenSel first second = some out) :
    mask out = compose (mask first) (mask second) := by
  have := andThenGo_mask first second 0 out h
  simpa using this

/-- non-vacuity: the doc-comment example of `and_then` does not panic -/
example : andThenSel [(2, true), (3, false), (1, true), (2, false)] [(1, false), (2, true), (2, false)] =
    some [(2, true), (1, false), (3, true), (2, false)] := by
  simp [andThenSel, andThenGo, andThenTail]

end ArrowModel.C06
