import ArrowModel.C06.Lemmas
/-
C06 — property theorems.  "Row selections behave as sets of row positions: composing,
intersecting, unioning, splitting, offsetting and limiting them … equals the corresponding
operations on the positions they denote", and the reader / offset-limit budget statements.

`Spec.mask s` is the denotation of a run-length selection (one boolean per row);
`Spec.positions s` the ascending list of selected row positions, `Spec.domain s` the number of
rows spanned.  All statements quantify over *every* selector list (any run pattern, zero-length
selectors, unequal lengths); proofs are by induction over the Rust loops' recursion.
-/
namespace ArrowModel.C06
open Spec

/-- denotation of either backing -/
def RS.den : RS → List Bool
  | .sels s => Spec.mask s
  | .bits m => m

/-! ## (1) the algebra equals set operations on positions -/

/-- **`FromIterator<RowSelector>` / `From<Vec<RowSelector>>`** (dropping zero-length
selectors and merging neighbours) never changes which rows are selected nor the domain. -/
theorem fromIter_denotation (s : List Sel) : mask (fromIter s) = mask s := mask_fromIter s

example : mask (fromIter [(3, true), (0, false), (2, true), (4, false), (1, false)]) =
    mask [(3, true), (0, false), (2, true), (4, false), (1, false)] := fromIter_denotation _

/-- **`RowSelection::intersection`** (selector backing, any two selector lists, including
unequal total lengths and zero-length selectors): row `i` of the result is selected iff it is
selected in both, on the common domain; the tail of the longer operand passes through
unchanged (the behaviour `intersect_row_selections` implements and the mask backing
documents). -/
theorem intersection_pointwise (l r : List Sel) :
    mask (intersectSel l r) = zipTail (· && ·) (mask l) (mask r) := by
  unfold intersectSel; rw [mask_fromIter, mask_interGo]

/-- **`RowSelection::union`**: pointwise OR on the common domain, longer tail passes through. -/
theorem union_pointwise (l r : List Sel) :
    mask (unionSel l r) = zipTail (· || ·) (mask l) (mask r) := by
  unfold unionSel; rw [mask_fromIter, mask_unionGo]

example : mask (intersectSel [(2, true), (4, false), (2, true)] [(1, true), (1, false), (7, true)]) =
    zipTail (· && ·) (mask [(2, true), (4, false), (2, true)]) (mask [(1, true), (1, false), (7, true)]) :=
  intersection_pointwise _ _

/-- `intersection` as a set of positions: inside the common domain, a row is in the
intersection iff it is in both selections. -/
theorem intersection_positions (l r : List Sel) (p : Nat) (hl : p < domain l) (hr : p < domain r) :
    p ∈ positions (intersectSel l r) ↔ p ∈ positions l ∧ p ∈ positions r := by
  unfold positions domain at *
  simp only [mem_trueIdx, Nat.zero_le, true_and, Nat.sub_zero, intersection_pointwise]
  rw [zipTail_getElem? _ _ _ _ hl hr, List.getElem?_eq_getElem hl, List.getElem?_eq_getElem hr]
  simp

/-- `union` as a set of positions: inside the common domain, a row is in the union iff it is
in one of the selections. -/
theorem union_positions (l r : List Sel) (p : Nat) (hl : p < domain l) (hr : p < domain r) :
    p ∈ positions (unionSel l r) ↔ p ∈ positions l ∨ p ∈ positions r := by
  unfold positions domain at *
  simp only [mem_trueIdx, Nat.zero_le, true_and, Nat.sub_zero, union_pointwise]
  rw [zipTail_getElem? _ _ _ _ hl hr, List.getElem?_eq_getElem hl, List.getElem?_eq_getElem hr]
  simp

example : (3 : Nat) < domain [(2, true), (4, false)] ∧ (3 : Nat) < domain [(5, false)] := by decide

/-- **`RowSelection::split_off(n)`** partitions the selection at row `n`: the returned head
denotes the first `n` rows, what remains in `self` denotes the rest — nothing lost, nothing
duplicated, for every `n` (also `0` and beyond the end). -/
theorem splitOff_partitions (s : List Sel) (n : Nat) :
    mask (splitOffSel s n).1 = (mask s).take n ∧ mask (splitOffSel s n).2 = (mask s).drop n :=
  mask_splitOffSel s n

/-- **`RowSelection::and_then`** (`and_then_iter`): whenever it does not panic, the result
spans the domain of `first`, and a row is selected iff `first` selects it and `second`
selects its rank among `first`'s selected rows — composition of selections. -/
theorem andThen_composes (first second out : List Sel)
    (h : andThenSel first second = some out) :
    mask out = compose (mask first) (mask second) := by
  have := andThenGo_mask first second 0 out h
  simpa using this

/-- non-vacuity: a four-run selection composed with a three-run one does not panic -/
example : andThenSel [(2, true), (3, false), (1, true), (2, false)] [(1, false), (2, true), (2, false)] =
    some [(2, true), (1, false), (3, true), (2, false)] := by
  simp [andThenSel, andThenGo, andThenTail]

/-- **`RowSelection::offset(k)`** (`offset_selectors`) drops exactly the first `k` selected
positions and keeps all later ones, for every `k` (including `0` and `k ≥ row_count`). -/
theorem offset_drops (s : List Sel) (k : Nat) :
    positions (offsetSel s k) = (positions s).drop k := positions_offsetSel s k

/-- **`RowSelection::limit(k)`** (`limit_selectors`) keeps exactly the first `k` selected
positions (and cuts the domain right after the `k`-th one). -/
theorem limit_keeps (s : List Sel) (k : Nat) :
    positions (limitSel s k) = (positions s).take k := positions_limitSel s k

/-- `limit` at mask level: the result is the prefix of the selection ending at its `k`-th
selected row. -/
theorem limit_denotation (s : List Sel) (k : Nat) :
    mask (limitSel s k) = keepFirst k (mask s) := mask_limitSel s k

/-- **`RowSelection::trim`** removes only trailing unselected rows: same positions. -/
theorem trim_keeps_positions (s : List Sel) : positions (trimSel s) = positions s :=
  positions_trimSel s

/-- **`row_count` / `skipped_row_count`** count the selected positions and the rest of the
domain. -/
theorem counts_exact (s : List Sel) :
    RS.rowCount (.sels s) = (positions s).length ∧
    RS.skippedRowCount (.sels s) + RS.rowCount (.sels s) = domain s := by
  unfold positions domain
  rw [trueIdx_length]
  show sumN (s.filter (fun x => !x.2)) = _ ∧ sumN (s.filter (fun x => x.2)) + sumN (s.filter (fun x => !x.2)) = _
  rw [sumN_filter_select]
  exact ⟨rfl, sumN_filter_skip s⟩

/-! ## (2) constructor invariants -/

/-- **`From<Vec<RowSelector>>` / `collect()` establish the documented invariants**: no
selector of 0 rows, consecutive selectors alternate.  (`intersection` and `union` end in the
same `collect()`, so their results satisfy them too.) -/
theorem fromIter_normal' (s : List Sel) : Normal (fromIter s) := fromIter_normal s

theorem intersection_union_normal (l r : List Sel) :
    Normal (intersectSel l r) ∧ Normal (unionSel l r) :=
  ⟨fromIter_normal _, fromIter_normal _⟩

/-! ## (3) reader loop -/

/-- **The selector-cursor loop of `ParquetRecordBatchReader::next_inner`**, drained: for any
selection that fits the rows available (`domain s ≤ total`) and any batch size `b > 0`, no
error occurs, the concatenation of the produced batches is exactly the selected positions in
order (the tape restricted to `positions s`), every batch has between 1 and `b` rows, and
every batch but the last has exactly `b` rows. -/
theorem reader_selectors_exact (b total : Nat) (hb : 0 < b) (s : List Sel)
    (hfit : domain s ≤ total) :
    ∃ batches, readAll b total (total + 2) (.selectors s) 0 = some batches ∧
      batches.flatten = positions s ∧ (∀ x ∈ batches, 0 < x.length ∧ x.length ≤ b) ∧
      ∀ x ∈ batches.dropLast, x.length = b := by
  unfold domain at hfit
  rw [mask_length] at hfit
  refine readAll_selectors b total hb (total + 2) s 0 (by omega) ?_
  have h1 := trueIdx_length 0 (mask s)
  have h2 := sumN_filter_skip s
  have h3 := mask_length s
  omega

example : domain [(3, true), (4, false), (2, true), (5, false)] ≤ 20 := by decide


/-- **The mask-cursor path (`read_mask_batch` + `MaskCursor::next_mask_chunk`, no loaded row
ranges)**, drained: for any mask (trimmed as `ReadPlanBuilder::build` does), any batch size
`b > 0`, no error occurs, the concatenation of the filtered batches is exactly the selected
positions in order, every batch has between 1 and `b` rows (all but the last exactly `b`).
Together with
`reader_selectors_exact`: both `RowSelectionPolicy` strategies deliver the same rows. -/
theorem reader_mask_exact (b total : Nat) (hb : 0 < b) (m : List Bool) (hfit : m.length ≤ total) :
    ∃ batches, readAll b total (total + 2) (.mask (trimMask m)) 0 = some batches ∧
      batches.flatten = trueIdx 0 m ∧ (∀ x ∈ batches, 0 < x.length ∧ x.length ≤ b) ∧
      ∀ x ∈ batches.dropLast, x.length = b := by
  have hl := trimMask_length m
  have := readAll_mask b total hb (total + 2) (trimMask m) 0 (by omega) (trimMask_trimmed m) (by
    have h1 := trueIdx_length 0 (trimMask m)
    have h2 := countTrue_le_length (trimMask m)
    omega)
  rwa [trimMask_positions] at this

example : ([false, true, true, false, true, false, false] : List Bool).length ≤ 9 := by decide

/-! ## (1b) the mask backing denotes the same operations -/

/-- **`and_then_masks`** (both fast paths and the scatter loop): when it does not panic the
operand lengths agree and the result is the composition — the same as the selector backing
(`andThen_composes`). -/
theorem andThenMasks_composes (m o out : List Bool) (h : andThenMasks m o = some out) :
    out = compose m o ∧ o.length = Spec.countTrue m := andThenMasks_spec m o out h

/-- **`intersect_masks` / `union_masks`** = pointwise with the longer tail passing through,
the same rule the selector backing implements (`intersection_pointwise`, `union_pointwise`). -/
theorem combineMasks_pointwise (f : Bool → Bool → Bool) (a b : List Bool) :
    combineMasks f a b = zipTail f a b := combineMasks_eq f a b

/-- **`split_off_mask`, `limit_mask`, `offset_mask`, `trim_mask`** agree with the selector
backing's meaning: partition at `n`; prefix up to the `k`-th selected row; drop the first `k`
selected positions; same positions. -/
theorem mask_backing_transforms (m : List Bool) (k : Nat) :
    ((splitOffMask m k).1 = m.take k ∧ (splitOffMask m k).2 = m.drop k) ∧
    limitMask m k = keepFirst k m ∧
    trueIdx 0 (offsetMask m k) = (trueIdx 0 m).drop k ∧
    trueIdx 0 (trimMask m) = trueIdx 0 m :=
  ⟨splitOffMask_spec m k, limitMask_spec m k, offsetMask_positions m k, trimMask_positions m⟩


/-! ## (1c) the cached selected-row count of the mask backing -/

/-- **For every operation history the cached count equals the popcount of the mask.**
Starting from any freshly constructed selection (`from_boolean_buffer`, `From<Vec<..>>`) and
applying any sequence of `row_count`, `skipped_row_count`, `clone`, `trim`, `split_off`
(keeping either half), `offset`, `limit`, `and_then`, `intersection`, `union`, the
`MaskSelection::count` cache — as propagated by `split_off` (`with_count(head, …)`,
`with_count(tail, total - head_count)`), `offset`, `limit`, `trim` — is never stale:
`row_count()`, `skipped_row_count()` and `selects_any()` answer from the rows actually
selected.  (This is what `RowGroupFrontier` relies on when it calls `row_count()` and then
`split_off(row_group_rows)` for each row group.) -/
theorem cached_count_is_popcount (start : RS) (ops : List Op) (s : CRS)
    (h : runOps (CRS.ofRS start) ops = some s) :
    s.rowCount.1 = s.toRS.rowCount ∧ s.skippedRowCount.1 = s.toRS.skippedRowCount ∧
    s.selectsAny = s.toRS.selectsAny := by
  have hok := runOps_cacheOk _ s ops (cacheOk_ofRS start) h
  exact ⟨(cacheOk_rowCount s hok).2.1, (cacheOk_skipped s hok).2, cacheOk_selectsAny s hok⟩

/-- each step also denotes what the cache-free model denotes (so the algebra theorems apply
to the cached representation) -/
theorem cached_splitOff_refines (s : CRS) (k : Nat) (h : CacheOk s) :
    (s.splitOff k).1.toRS = (s.toRS.splitOff k).1 ∧ (s.splitOff k).2.toRS = (s.toRS.splitOff k).2 ∧
    CacheOk (s.splitOff k).1 ∧ CacheOk (s.splitOff k).2 :=
  let r := cacheOk_splitOff s k h; ⟨r.2.2.1, r.2.2.2, r.1, r.2.1⟩

/-- non-vacuity: warm the cache, split a sparse mask at its popcount, look at the tail -/
example : (runOps (CRS.ofRS (.bits [false, true, false, false, false, true, false]))
    [.rowCount, .splitTail 2, .rowCount]).isSome = true := by decide


/-! ## (1d) constructors and conversions -/

/-- **`RowSelection::from_consecutive_ranges`**: whenever it does not panic ("out of order")
the result denotes exactly the rows inside the given ranges over `total_rows` rows
(`Spec.rangesBits`: gaps unselected, ranges selected, empty ranges ignored). -/
theorem fromConsecutiveRanges_denotation (ranges : List (Nat × Nat)) (total : Nat) (out : List Sel)
    (h : fromConsecutiveRanges ranges total = some out) :
    mask out = rangesBits total ranges 0 := mask_fromConsecutiveRanges ranges total out h

example : fromConsecutiveRanges [(5, 10), (10, 15), (17, 17), (18, 19)] 20 =
    some [(5, true), (10, false), (3, true), (1, false), (1, true)] := by decide

/-- **`mask_to_selectors` / `MaskRunIter` / `RowSelection::iter` on a mask**: the run-length
form denotes the very mask it was built from — both backings denote the same positions. -/
theorem maskToSelectors_denotation (m : List Bool) : mask (maskToSelectors m) = m :=
  mask_maskToSelectors m

/-- **`and_then_mask_from_selectors`** (mask `and_then` selectors): when it does not panic,
`other` has exactly one row per selected row of the mask and the result is the composition. -/
theorem andThenMaskFromSelectors_composes (m : List Bool) (other : List Sel) (out : List Bool)
    (h : andThenMaskFromSelectors m other = some out) :
    out = compose m (mask other) ∧ (mask other).length = Spec.countTrue m :=
  andThenMaskFromSelectors_spec m other out h

/-- hence every backing combination of `RowSelection::and_then` is composition of the denoted
masks (selectors×mask goes through `MaskRunIter`, i.e. `maskToSelectors`). -/
theorem RS_andThen_composes (a b out : RS) (h : a.andThen b = some out) :
    out.den = compose a.den b.den := by
  cases a with
  | sels f =>
    cases b with
    | sels s =>
      simp only [RS.andThen, Option.map_eq_some_iff] at h
      obtain ⟨o, ho, rfl⟩ := h
      exact andThen_composes f s o ho
    | bits s =>
      simp only [RS.andThen, Option.map_eq_some_iff] at h
      obtain ⟨o, ho, rfl⟩ := h
      have := andThen_composes f (maskToSelectors s) o ho
      rwa [mask_maskToSelectors] at this
  | bits m =>
    cases b with
    | sels s =>
      simp only [RS.andThen, Option.map_eq_some_iff] at h
      obtain ⟨o, ho, rfl⟩ := h
      exact (andThenMaskFromSelectors_spec m s o ho).1
    | bits s =>
      simp only [RS.andThen, Option.map_eq_some_iff] at h
      obtain ⟨o, ho, rfl⟩ := h
      exact (andThenMasks_spec m s o ho).1


/-- **`RowSelection::from_filters`** denotes the concatenation of the (null-free) filters. -/
theorem fromFilters_denotation (fs : List (List Bool)) (out : List Sel)
    (h : fromFilters fs = some out) : mask out = fs.flatten := mask_fromFilters fs out h

example : fromFilters [[false, true, true], [true, false], []] =
    some [(1, true), (3, false), (1, true)] := by decide

/-! ## (4) predicates -/

/-- **One predicate step of `with_predicate_options`** (selector backing, no limit): if the
filters collected from the reader are the predicate evaluated at the currently selected rows
in order (what `predLoop_flatten` + the reader-loop theorems provide), then
`selection.and_then(from_filters(filters))` selects exactly
`{p ∈ positions s | pred p}` and keeps the domain of `s` — nulls having been mapped to
`false` by `prep_null_mask_filter` before. -/
theorem predicate_step_filters_positions (s raw out : List Sel) (filters : List (List Bool))
    (pred : Nat → Bool)
    (hf : filters.flatten = (positions s).map pred)
    (hraw : fromFilters filters = some raw) (hout : andThenSel s raw = some out) :
    positions out = (positions s).filter pred ∧ domain out = domain s := by
  have h1 := andThen_composes s raw out hout
  have h2 := mask_fromFilters filters raw hraw
  unfold positions domain at *
  rw [h1, h2, hf]
  refine ⟨trueIdx_compose_pred (mask s) 0 pred, ?_⟩
  -- `compose` keeps the length of its first argument
  have hlen : ∀ (a b : List Bool), (compose a b).length = a.length := by
    intro a
    induction a with
    | nil => intro b; simp
    | cons x a ih =>
      intro b
      cases x
      · simp [compose, ih]
      · cases b <;> simp [compose, ih]
  exact hlen _ _

/-- the filter-collection loop without a limit concatenates the predicate's values over the
rows the reader delivered (all of them are processed) -/
theorem predLoop_flatten (pred : Nat → Bool) (batches : List (List Nat)) :
    (predLoop pred none batches 0 0).1.flatten = batches.flatten.map pred ∧
    (predLoop pred none batches 0 0).2 = batches.flatten.length := by
  have := predLoop_none pred batches 0 0
  simpa using this

/-- **`BooleanArray::take_n_true(n)`** (the early-termination truncation of the last
predicate): same length, exactly the first `n` matches survive.
`predicate_limit_partial`: that the truncated, padded filter chain of the push decoder
followed by offset/limit yields the same rows as the untruncated one is not proved
(correspondence + in-harness oracle only). -/
theorem predicate_limit_partial (f : List Bool) (n : Nat) :
    (takeNTrue f n).length = f.length ∧
    trueIdx 0 (takeNTrue f n) = (trueIdx 0 f).take n := takeNTrue_spec f n 0

/-! ## (5) offset / limit across row groups -/

/-- **Distributing a global `(offset, limit)` through `RowBudget` across row groups equals
applying it to the concatenation.**  `gs` are the rows of each row group that survive
selection and predicates; per row group the plan keeps `(g.drop offset).take limit`
(`offset_drops`, `limit_keeps`) and the budget is advanced with
`RowBudget::advance(rows_before, rows_after(rows_before))`, stopping when
`RowBudget::is_exhausted`.  Uses the regenerated constants of `RowBudget`. -/
theorem budget_distribution {α} (offset limit : Option Nat) (gs : List (List α)) :
    (distribute ⟨offset, limit⟩ gs).flatten =
      takeOpt limit (gs.flatten.drop (offset.getD 0)) := distribute_flatten _ gs

/-- each row group's share has exactly `RowBudget::rows_after` rows -/
theorem budget_share_length {α} (bd : Budget) (g : List α) :
    (applyBudget bd g).length = bd.rowsAfter g.length := applyBudget_length bd g

example : (distribute ⟨some 3, some 4⟩ [[0, 1], [2, 3, 4], [5, 6, 7, 8]]).flatten = [3, 4, 5, 6] := by
  decide

/-! ## (T) the source expressions the model mirrors are still what they were -/

open ArrowModel.Generated.C06 in
/-- **Shape tie.**  Every critical expression the theorems above are about — the mask
`split_off` count bookkeeping, `split_off_selectors`, `offset_selectors`, `limit_selectors`,
`offset_mask`/`limit_mask` and their count propagation, the `and_then_iter` step, the
`next_inner` selector loop, the `read_mask_batch` loop, the offset-before-limit order of
`build_limited`, the predicate limit truncation/padding, the `RowGroupFrontier` walk
(`row_count() == 0`, `split_off(row_count)`, budget from the *selected* rows) and
`RowBudget::{rows_after, advance, apply_to_plan}`, and the byte-sum / offset expressions of the
value-level `skip` of the PLAIN and DELTA_LENGTH_BYTE_ARRAY byte-array decoders (offset and
view flavours) — is found verbatim (modulo whitespace) in
the current source by `tools/translate.py`.  If any of them is edited, its item is LOST and
this obligation fails, forcing the model and the proofs to be re-examined. -/
theorem source_shape_ties :
    SHAPE_SPLIT_OFF_MASK_COUNT_lost = false ∧ SHAPE_SPLIT_OFF_SELECTORS_lost = false ∧
    SHAPE_OFFSET_SELECTORS_lost = false ∧ SHAPE_LIMIT_SELECTORS_lost = false ∧
    SHAPE_OFFSET_LIMIT_MASK_lost = false ∧ SHAPE_OFFSET_LIMIT_COUNT_lost = false ∧
    SHAPE_AND_THEN_ITER_lost = false ∧ SHAPE_NEXT_INNER_lost = false ∧
    SHAPE_READ_MASK_BATCH_lost = false ∧ SHAPE_BUILD_LIMITED_ORDER_lost = false ∧
    SHAPE_PREDICATE_LIMIT_lost = false ∧ SHAPE_FRONTIER_lost = false ∧
    SHAPE_FRONTIER_PLAN_lost = false ∧ SHAPE_BUDGET_lost = false ∧
    BUDGET_EXHAUSTED_LIMIT_lost = false ∧ BUDGET_DEFAULT_OFFSET_lost = false ∧
    BUDGET_ADVANCE_SKIP_WHEN_lost = false ∧ DEFAULT_AUTO_THRESHOLD_lost = false ∧
    SHAPE_VIEW_DELTA_LENGTH_SKIP_lost = false ∧ SHAPE_BYTES_DELTA_LENGTH_SKIP_lost = false ∧
    SHAPE_VIEW_PLAIN_SKIP_lost = false ∧ SHAPE_BYTES_PLAIN_SKIP_lost = false := by
  decide

end ArrowModel.C06
