/-
C06 — specification.  "Row selections behave as sets of row positions …; the reader returns
exactly the rows obtained by reading everything and then applying, in order, the row-group
choice, the selection, the predicates, the offset and the limit; no batch exceeds the batch
size."

A run-length selection is a list of selectors `(row_count, skip)`.  Its *denotation* is the
boolean mask obtained by expanding every run (`mask`), equivalently the list of selected row
positions (`positions`) together with the number of rows it talks about (`domain`).
Everything below is the naive, list-level meaning the property statement appeals to.
Import-free.
-/
namespace ArrowModel.C06.Spec

/-- expansion of a run-length selection to one boolean per row (`true` = selected) -/
def mask : List (Nat × Bool) → List Bool
  | [] => []
  | (n, skip) :: r => List.replicate n (!skip) ++ mask r

/-- indices (counted from `base`) of the `true` entries -/
def trueIdx (base : Nat) : List Bool → List Nat
  | [] => []
  | true :: m => base :: trueIdx (base + 1) m
  | false :: m => trueIdx (base + 1) m

/-- the selected row positions, ascending -/
def positions (s : List (Nat × Bool)) : List Nat := trueIdx 0 (mask s)

/-- number of rows the selection spans (selected + skipped) -/
def domain (s : List (Nat × Bool)) : Nat := (mask s).length

/-- number of `true`s -/
def countTrue : List Bool → Nat
  | [] => 0
  | true :: m => countTrue m + 1
  | false :: m => countTrue m

/-- pointwise combination on the common prefix; the tail of the longer operand passes through
unchanged (the rule `RowSelection::intersection/union` document for unequal lengths) -/
def zipTail (f : Bool → Bool → Bool) : List Bool → List Bool → List Bool
  | [], b => b
  | a, [] => a
  | x :: a, y :: b => f x y :: zipTail f a b

/-- composition of selections: `b` speaks about the rows selected by `a`
(`a.and_then(b)`): row `i` survives iff `a` selects it and `b` selects its rank among
`a`'s selected rows.  (If `b` is too short the missing entries count as "not selected".) -/
def compose : List Bool → List Bool → List Bool
  | [], _ => []
  | false :: a, b => false :: compose a b
  | true :: a, [] => false :: compose a []
  | true :: a, x :: b => x :: compose a b

/-- un-select the first `k` selected rows (domain unchanged) — `offset k` -/
def clearFirst : Nat → List Bool → List Bool
  | _, [] => []
  | 0, m => m
  | k + 1, true :: m => false :: clearFirst k m
  | k + 1, false :: m => false :: clearFirst (k + 1) m

/-- cut right after the `k`-th selected row — `limit k` -/
def keepFirst : Nat → List Bool → List Bool
  | 0, _ => []
  | _, [] => []
  | k + 1, true :: m => true :: keepFirst k m
  | k + 1, false :: m => false :: keepFirst (k + 1) m

/-- a predicate result for the currently selected rows, nulls already mapped to false:
`pred[j]` decides the `j`-th selected row -/
def applyPred (sel pred : List Bool) : List Bool := compose sel pred

/-- the reference pipeline of the property statement, on the concatenation of the chosen
row groups (`n` rows): selection (or all rows), then each predicate (given as one boolean per
row of the *file*, i.e. evaluated on the full read), then offset, then limit.  Result: the
surviving row positions. -/
def pipeline (n : Nat) (sel : Option (List Bool)) (preds : List (List Bool))
    (offset limit : Option Nat) : List Nat :=
  let base := (List.range n).filter (fun i =>
    match sel with
    | none => true
    | some m => m.getD i false)
  let afterPreds := preds.foldl (fun rows p => rows.filter (fun i => p.getD i false)) base
  let afterOff := afterPreds.drop (offset.getD 0)
  match limit with
  | none => afterOff
  | some l => afterOff.take l

/-- batch lengths when `k` rows are delivered in batches of at most `b` -/
def batchLens (b : Nat) (k : Nat) : List Nat :=
  if b = 0 then [] else List.replicate (k / b) b ++ (if k % b = 0 then [] else [k % b])

/-- pages (given by ascending first-row indexes, the last page is open ended) that contain
at least one selected position -/
def pagesHit (firstRows : List Nat) (pos : List Nat) : List Nat :=
  (List.range firstRows.length).filter (fun i =>
    pos.any (fun p =>
      decide (firstRows.getD i 0 ≤ p) &&
      (match firstRows[i + 1]? with
       | some nx => decide (p < nx)
       | none => true)))

/-- the bitmap denoted by ascending, non-overlapping ranges `(start, end)` over `total` rows,
read left to right from row `lastEnd`: rows between ranges are unselected, rows inside are
selected, empty ranges are ignored -/
def rangesBits (total : Nat) : List (Nat × Nat) → Nat → List Bool
  | [], lastEnd => List.replicate (total - lastEnd) false
  | (st, en) :: r, lastEnd =>
    if en - st = 0 then rangesBits total r lastEnd
    else List.replicate (st - lastEnd) false ++ (List.replicate (en - st) true ++ rangesBits total r en)

end ArrowModel.C06.Spec
