import ArrowModel.C06.Spec
import ArrowModel.C06.Model
/-
C06 — helper lemmas: every model function is related to the list-level specification
(`Spec.mask`, `Spec.zipTail`, `Spec.compose`, …).  Property statements live in Theorems.lean.
-/
namespace ArrowModel.C06
open Spec

theorem rep_add {α} (a b : Nat) (x : α) :
    List.replicate (a + b) x = List.replicate a x ++ List.replicate b x :=
  List.replicate_append_replicate.symm

theorem rep_split {α} (n k : Nat) (x : α) (h : k ≤ n) :
    List.replicate n x = List.replicate k x ++ List.replicate (n - k) x := by
  rw [← rep_add]; congr 1; omega

@[simp] theorem mask_nil : mask [] = [] := rfl
@[simp] theorem mask_cons (n : Nat) (k : Bool) (r : List Sel) :
    mask ((n, k) :: r) = List.replicate n (!k) ++ mask r := rfl

theorem mask_append (a b : List Sel) : mask (a ++ b) = mask a ++ mask b := by
  induction a with
  | nil => rfl
  | cons s a ih => cases s; simp [ih]

theorem mask_length (s : List Sel) : (mask s).length = sumN s := by
  induction s with
  | nil => rfl
  | cons s r ih => cases s; simp [sumN, ih]

/-- `from_iter` loop keeps the denotation -/
theorem mask_normGo (last : Sel) (r : List Sel) : mask (normGo last r) = mask (last :: r) := by
  induction r generalizing last with
  | nil => rfl
  | cons s r ih =>
    obtain ⟨n, k⟩ := s
    obtain ⟨ln, lk⟩ := last
    unfold normGo
    split
    · rename_i h; simp at h; subst h; simp [ih]
    · split
      · rename_i h; simp at h; subst h
        simp [ih, List.replicate_append_replicate, ← List.append_assoc]
      · simp [ih]

theorem mask_fromIter (s : List Sel) : mask (fromIter s) = mask s := by
  induction s with
  | nil => rfl
  | cons a r ih =>
    obtain ⟨n, k⟩ := a
    unfold fromIter
    split
    · rename_i h; simp at h; subst h; simp [ih]
    · exact mask_normGo _ _

/-! zipTail -/
@[simp] theorem zipTail_nil_left (f) (b : List Bool) : zipTail f [] b = b := by
  cases b <;> rfl
@[simp] theorem zipTail_nil_right (f) (a : List Bool) : zipTail f a [] = a := by
  cases a <;> rfl
@[simp] theorem zipTail_cons (f) (x y) (a b : List Bool) :
    zipTail f (x :: a) (y :: b) = f x y :: zipTail f a b := rfl

theorem zipTail_rep (f : Bool → Bool → Bool) (n : Nat) (x y : Bool) (a b : List Bool) :
    zipTail f (List.replicate n x ++ a) (List.replicate n y ++ b) =
      List.replicate n (f x y) ++ zipTail f a b := by
  induction n with
  | zero => simp
  | succ n ih => simp [List.replicate_succ, ih]

theorem zipTail_rep_lt (f : Bool → Bool → Bool) (n m : Nat) (x y : Bool) (a b : List Bool)
    (h : n ≤ m) :
    zipTail f (List.replicate n x ++ a) (List.replicate m y ++ b) =
      List.replicate n (f x y) ++ zipTail f a (List.replicate (m - n) y ++ b) := by
  rw [rep_split m n y h, List.append_assoc, zipTail_rep]

theorem zipTail_rep_ge (f : Bool → Bool → Bool) (n m : Nat) (x y : Bool) (a b : List Bool)
    (h : m ≤ n) :
    zipTail f (List.replicate n x ++ a) (List.replicate m y ++ b) =
      List.replicate m (f x y) ++ zipTail f (List.replicate (n - m) x ++ a) b := by
  rw [rep_split n m x h, List.append_assoc, zipTail_rep]

theorem mask_interGo (l r : List Sel) :
    mask (interGo l r) = zipTail (· && ·) (mask l) (mask r) := by
  fun_induction interGo l r with
  | case1 => simp
  | case2 b rr h ih => obtain ⟨n, k⟩ := b; simp at h; subst h; simpa using ih
  | case3 b rr h ih => obtain ⟨n, k⟩ := b; simp [ih]
  | case4 a lr h ih => obtain ⟨n, k⟩ := a; simp at h; subst h; simpa using ih
  | case5 a lr h ih => obtain ⟨n, k⟩ := a; simp [ih]
  | case6 a lr b rr h ih =>
    obtain ⟨n, k⟩ := a; simp at h; subst h; simpa using ih
  | case7 a lr b rr h1 h2 ih =>
    obtain ⟨m, j⟩ := b; simp at h2; subst h2; simpa using ih
  | case8 a lr b rr h1 h2 h3 h4 ih =>
    obtain ⟨n, k⟩ := a; obtain ⟨m, j⟩ := b
    simp at h3 h4 ⊢
    obtain ⟨rfl, rfl⟩ := h3
    simp at ih
    rw [ih, zipTail_rep_lt _ _ _ _ _ _ _ (by omega)]; simp
  | case9 a lr b rr h1 h2 h3 h4 ih =>
    obtain ⟨n, k⟩ := a; obtain ⟨m, j⟩ := b
    simp at h3 h4 ⊢
    obtain ⟨rfl, rfl⟩ := h3
    simp at ih
    rw [ih, zipTail_rep_ge _ _ _ _ _ _ _ (by omega)]; simp
  | case10 a lr b rr h1 h2 h3 h4 ih =>
    obtain ⟨n, k⟩ := a; obtain ⟨m, j⟩ := b
    simp at h3 h4 ih ⊢
    rw [ih, zipTail_rep_lt _ _ _ _ _ _ _ (by omega)]
    congr 2
    cases k <;> cases j <;> simp_all
  | case11 a lr b rr h1 h2 h3 h4 ih =>
    obtain ⟨n, k⟩ := a; obtain ⟨m, j⟩ := b
    simp at h3 h4 ih ⊢
    rw [ih, zipTail_rep_ge _ _ _ _ _ _ _ (by omega)]
    congr 2
    cases k <;> cases j <;> simp_all

theorem mask_unionGo (l r : List Sel) :
    mask (unionGo l r) = zipTail (· || ·) (mask l) (mask r) := by
  fun_induction unionGo l r with
  | case1 => simp
  | case2 b rr h ih => obtain ⟨n, k⟩ := b; simp at h; subst h; simpa using ih
  | case3 b rr h ih => obtain ⟨n, k⟩ := b; simp [ih]
  | case4 a lr h ih => obtain ⟨n, k⟩ := a; simp at h; subst h; simpa using ih
  | case5 a lr h ih => obtain ⟨n, k⟩ := a; simp [ih]
  | case6 a lr b rr h ih =>
    obtain ⟨n, k⟩ := a; simp at h; subst h; simpa using ih
  | case7 a lr b rr h1 h2 ih =>
    obtain ⟨m, j⟩ := b; simp at h2; subst h2; simpa using ih
  | case8 a lr b rr h1 h2 h3 h4 ih =>
    obtain ⟨n, k⟩ := a; obtain ⟨m, j⟩ := b
    simp at h3 h4 ih ⊢
    obtain ⟨rfl, rfl⟩ := h3
    rw [ih, zipTail_rep_lt _ _ _ _ _ _ _ (by omega)]; simp
  | case9 a lr b rr h1 h2 h3 h4 ih =>
    obtain ⟨n, k⟩ := a; obtain ⟨m, j⟩ := b
    simp at h3 h4 ih ⊢
    obtain ⟨rfl, rfl⟩ := h3
    rw [ih, zipTail_rep_ge _ _ _ _ _ _ _ (by omega)]; simp
  | case10 a lr b rr h1 h2 h3 h4 h5 ih =>
    obtain ⟨n, k⟩ := a; obtain ⟨m, j⟩ := b
    simp at h4 h5 ih ⊢
    obtain ⟨rfl, rfl⟩ := h4
    rw [ih, zipTail_rep_lt _ _ _ _ _ _ _ (by omega)]; simp
  | case11 a lr b rr h1 h2 h3 h4 h5 ih =>
    obtain ⟨n, k⟩ := a; obtain ⟨m, j⟩ := b
    simp at h4 h5 ih ⊢
    obtain ⟨rfl, rfl⟩ := h4
    rw [ih, zipTail_rep_ge _ _ _ _ _ _ _ (by omega)]; simp
  | case12 a lr b rr h1 h2 h3 h4 h5 h6 ih =>
    obtain ⟨n, k⟩ := a; obtain ⟨m, j⟩ := b
    simp at h5 h6 ih ⊢
    obtain ⟨rfl, rfl⟩ := h5
    rw [ih, zipTail_rep_lt _ _ _ _ _ _ _ (by omega)]; simp
  | case13 a lr b rr h1 h2 h3 h4 h5 h6 ih =>
    obtain ⟨n, k⟩ := a; obtain ⟨m, j⟩ := b
    simp at h5 h6 ih ⊢
    obtain ⟨rfl, rfl⟩ := h5
    rw [ih, zipTail_rep_ge _ _ _ _ _ _ _ (by omega)]; simp
  | case14 a lr b rr h1 h2 h3 h4 h5 h6 ih =>
    obtain ⟨n, k⟩ := a; obtain ⟨m, j⟩ := b
    simp at h3 h4 h5 h6 ih ⊢
    rw [ih, zipTail_rep_lt _ _ _ _ _ _ _ (by omega)]
    cases k <;> cases j <;> simp_all
  | case15 a lr b rr h1 h2 h3 h4 h5 h6 ih =>
    obtain ⟨n, k⟩ := a; obtain ⟨m, j⟩ := b
    simp at h3 h4 h5 h6 ih ⊢
    rw [ih, zipTail_rep_ge _ _ _ _ _ _ _ (by omega)]
    cases k <;> cases j <;> simp_all

/-! split_off -/
theorem mask_splitOffSel (s : List Sel) (k : Nat) :
    mask (splitOffSel s k).1 = (mask s).take k ∧ mask (splitOffSel s k).2 = (mask s).drop k := by
  induction s generalizing k with
  | nil => simp [splitOffSel]
  | cons a r ih =>
    obtain ⟨n, j⟩ := a
    unfold splitOffSel
    split
    · rename_i h
      simp only [] at h
      have hk : k ≤ n := by omega
      constructor
      · rw [mask_cons, rep_split n k _ hk, List.append_assoc, List.take_left' (by simp)]
        by_cases h0 : k = 0
        · subst h0; simp
        · have : n ≠ n - k := by omega
          simp [this]; congr 1; omega
      · rw [mask_cons, mask_cons, rep_split n k (!j) hk, List.append_assoc,
          List.drop_left' (by simp)]
    · rename_i h
      simp only [] at h
      have hk : n ≤ k := by omega
      obtain ⟨ih1, ih2⟩ := ih (k - n)
      constructor
      · simp only [mask_cons, ih1]
        simp [List.take_append, List.take_of_length_le, hk]
      · simp only [mask_cons, ih2]
        simp [List.drop_append, List.drop_of_length_le, hk]

@[simp] theorem compose_nil (b : List Bool) : compose [] b = [] := by cases b <;> rfl

theorem compose_rep_false (n : Nat) (a b : List Bool) :
    compose (List.replicate n false ++ a) b = List.replicate n false ++ compose a b := by
  induction n with
  | zero => simp
  | succ n ih => simp [List.replicate_succ, compose, ih]

theorem compose_rep_true (p : Nat) (x : Bool) (a b : List Bool) :
    compose (List.replicate p true ++ a) (List.replicate p x ++ b) =
      List.replicate p x ++ compose a b := by
  induction p with
  | zero => simp
  | succ n ih => simp [List.replicate_succ, compose, ih]

theorem compose_nil_right (a : List Bool) : compose a [] = List.replicate a.length false := by
  induction a with
  | nil => rfl
  | cons x a ih => cases x <;> simp [compose, ih, List.replicate_succ]

theorem andThenTail_spec (first : List Sel) (t t' : Nat) (h : andThenTail t first = some t') :
    t ≤ t' ∧ mask first = List.replicate (t' - t) false := by
  induction first generalizing t with
  | nil => simp [andThenTail] at h; subst h; simp
  | cons v r ih =>
    obtain ⟨n, k⟩ := v
    unfold andThenTail at h
    split at h
    · rename_i h0; simp at h0; subst h0
      obtain ⟨h1, h2⟩ := ih _ h
      exact ⟨h1, by simpa using h2⟩
    · split at h
      · rename_i h0 hk; simp at hk; subst hk
        obtain ⟨h1, h2⟩ := ih _ h
        refine ⟨by omega, ?_⟩
        simp [h2, List.replicate_append_replicate]; omega
      · simp at h

theorem andThenGo_mask (first second : List Sel) (t : Nat) (out : List Sel)
    (h : andThenGo first second t = some out) :
    mask out = List.replicate t false ++ compose (mask first) (mask second) := by
  fun_induction andThenGo first second t generalizing out with
  | case1 first t =>
    simp only [Option.map_eq_some_iff] at h
    obtain ⟨t', ht, rfl⟩ := h
    obtain ⟨h1, h2⟩ := andThenTail_spec _ _ _ ht
    rw [h2, mask_nil, compose_nil_right]
    split
    · simp [List.replicate_append_replicate]; omega
    · rename_i h0; simp at h0; subst h0; simp; omega
  | case2 => simp at h
  | case3 a fr b sr t h0 ih =>
    obtain ⟨m, j⟩ := b; simp at h0; subst h0
    simpa using ih out h
  | case4 a fr b sr t h0 h1 ih =>
    obtain ⟨n, k⟩ := a; simp at h1; subst h1
    simpa using ih out h
  | case5 a fr b sr t h0 h1 h2 ih =>
    obtain ⟨n, k⟩ := a; simp at h2; subst h2
    rw [ih out h]
    simp [compose_rep_false, List.replicate_append_replicate, ← List.append_assoc]
  | case6 a fr b sr t h0 h1 h2 p h3 ih =>
    obtain ⟨n, k⟩ := a; obtain ⟨m, j⟩ := b
    simp at h2 h3; subst h2; subst h3
    rw [ih out h]
    simp only [mask_cons, Bool.not_false, Bool.not_true]
    have hp1 : p ≤ n := Nat.min_le_left _ _
    have hp2 : p ≤ m := Nat.min_le_right _ _
    conv => rhs; rw [rep_split n p true hp1, rep_split m p false hp2]
    simp only [List.append_assoc, compose_rep_true]
    simp [List.replicate_append_replicate, ← List.append_assoc]
  | case7 a fr b sr t h0 h1 h2 p h3 ih =>
    obtain ⟨n, k⟩ := a; obtain ⟨m, j⟩ := b
    simp at h2 h3; subst h2; subst h3
    simp only [Option.map_eq_some_iff] at h
    obtain ⟨o, ho, rfl⟩ := h
    have := ih o ho
    simp only [mask_cons, Bool.not_false, List.replicate_zero, List.nil_append] at this
    have hp1 : p ≤ n := Nat.min_le_left _ _
    have hp2 : p ≤ m := Nat.min_le_right _ _
    simp only [mask_cons, Bool.not_false]
    conv => rhs; rw [rep_split n p true hp1, rep_split m p true hp2]
    simp only [List.append_assoc, compose_rep_true]
    rw [mask_append, mask_cons, this]
    split <;> simp_all

/-! trueIdx / countTrue -/
theorem trueIdx_append (b : Nat) (x y : List Bool) :
    trueIdx b (x ++ y) = trueIdx b x ++ trueIdx (b + x.length) y := by
  induction x generalizing b with
  | nil => simp [trueIdx]
  | cons a x ih =>
    cases a <;> simp [trueIdx, ih] <;> congr 1 <;> omega

theorem trueIdx_rep_false (b n : Nat) : trueIdx b (List.replicate n false) = [] := by
  induction n generalizing b with
  | zero => rfl
  | succ n ih => simp [List.replicate_succ, trueIdx, ih]

theorem trueIdx_rep_true (b n : Nat) : trueIdx b (List.replicate n true) = List.range' b n := by
  induction n generalizing b with
  | zero => rfl
  | succ n ih => simp [List.replicate_succ, trueIdx, ih, List.range'_succ]

theorem trueIdx_length (b : Nat) (m : List Bool) : (trueIdx b m).length = Spec.countTrue m := by
  induction m generalizing b with
  | nil => rfl
  | cons a m ih => cases a <;> simp [trueIdx, Spec.countTrue, ih]

theorem countTrue_append (x y : List Bool) :
    Spec.countTrue (x ++ y) = Spec.countTrue x + Spec.countTrue y := by
  induction x with
  | nil => simp [Spec.countTrue]
  | cons a x ih => cases a <;> simp [Spec.countTrue, ih]; omega

@[simp] theorem countTrue_rep_false (n : Nat) : Spec.countTrue (List.replicate n false) = 0 := by
  induction n with
  | zero => rfl
  | succ n ih => simp [List.replicate_succ, Spec.countTrue, ih]

@[simp] theorem countTrue_rep_true (n : Nat) : Spec.countTrue (List.replicate n true) = n := by
  induction n with
  | zero => rfl
  | succ n ih => simp [List.replicate_succ, Spec.countTrue, ih]

theorem trueIdx_clearFirst (b k : Nat) (m : List Bool) :
    trueIdx b (clearFirst k m) = (trueIdx b m).drop k := by
  induction m generalizing b k with
  | nil => simp [clearFirst, trueIdx]
  | cons a m ih =>
    cases k with
    | zero => simp [clearFirst]
    | succ k => cases a <;> simp [clearFirst, trueIdx, ih]

theorem trueIdx_keepFirst (b k : Nat) (m : List Bool) :
    trueIdx b (keepFirst k m) = (trueIdx b m).take k := by
  induction m generalizing b k with
  | nil => cases k <;> simp [keepFirst, trueIdx]
  | cons a m ih =>
    cases k with
    | zero => simp [keepFirst, trueIdx]
    | succ k => cases a <;> simp [keepFirst, trueIdx, ih]

/-! clearFirst / keepFirst on runs -/
@[simp] theorem clearFirst_zero (m : List Bool) : clearFirst 0 m = m := by
  cases m <;> simp [clearFirst]

theorem clearFirst_rep_false (k n : Nat) (m : List Bool) :
    clearFirst k (List.replicate n false ++ m) = List.replicate n false ++ clearFirst k m := by
  induction n with
  | zero => simp
  | succ n ih =>
    cases k with
    | zero => simp
    | succ k => simp [List.replicate_succ, clearFirst, ih]

theorem clearFirst_rep_true_le (k n : Nat) (m : List Bool) (h : k ≤ n) :
    clearFirst k (List.replicate n true ++ m) =
      List.replicate k false ++ (List.replicate (n - k) true ++ m) := by
  induction k generalizing n with
  | zero => simp
  | succ k ih =>
    cases n with
    | zero => omega
    | succ n =>
      simp [List.replicate_succ, clearFirst, ih n (by omega)]

theorem clearFirst_rep_true_ge (k n : Nat) (m : List Bool) (h : n ≤ k) :
    clearFirst k (List.replicate n true ++ m) =
      List.replicate n false ++ clearFirst (k - n) m := by
  induction n generalizing k with
  | zero => simp
  | succ n ih =>
    cases k with
    | zero => omega
    | succ k => simp [List.replicate_succ, clearFirst, ih k (by omega)]

theorem keepFirst_rep_false (k n : Nat) (m : List Bool) (hk : 0 < k) :
    keepFirst k (List.replicate n false ++ m) = List.replicate n false ++ keepFirst k m := by
  induction n with
  | zero => simp
  | succ n ih =>
    cases k with
    | zero => omega
    | succ k => simp [List.replicate_succ, keepFirst, ih]

theorem keepFirst_rep_true_le (k n : Nat) (m : List Bool) (h : k ≤ n) :
    keepFirst k (List.replicate n true ++ m) = List.replicate k true := by
  induction k generalizing n with
  | zero => simp [keepFirst]
  | succ k ih =>
    cases n with
    | zero => omega
    | succ n => simp [List.replicate_succ, keepFirst, ih n (by omega)]

theorem keepFirst_rep_true_gt (k n : Nat) (m : List Bool) (h : n < k) :
    keepFirst k (List.replicate n true ++ m) = List.replicate n true ++ keepFirst (k - n) m := by
  induction n generalizing k with
  | zero => simp
  | succ n ih =>
    cases k with
    | zero => omega
    | succ k => simp [List.replicate_succ, keepFirst, ih k (by omega)]

/-! offset -/
theorem mask_offsetGo (offset : Nat) (s : List Sel) (sel skp : Nat) (h : sel ≤ offset) :
    mask (offsetGo offset s sel skp) =
      if offset - sel < Spec.countTrue (mask s)
      then List.replicate (skp + sel) false ++ clearFirst (offset - sel) (mask s) else [] := by
  induction s generalizing sel skp with
  | nil => simp [offsetGo, Spec.countTrue]
  | cons a r ih =>
    obtain ⟨n, k⟩ := a
    unfold offsetGo
    cases k with
    | true =>
      simp only [if_true, mask_cons, Bool.not_true]
      rw [ih sel (skp + n) h, countTrue_append, countTrue_rep_false, clearFirst_rep_false]
      simp only [Nat.zero_add]
      split
      · rw [← List.append_assoc, List.replicate_append_replicate]; congr 2; omega
      · rfl
    | false =>
      simp only [Bool.false_eq_true, if_false, mask_cons, Bool.not_false]
      rw [countTrue_append, countTrue_rep_true]
      split
      · rename_i h1
        have : offset - sel < n + Spec.countTrue (mask r) := by omega
        rw [if_pos this, clearFirst_rep_true_le _ _ _ (by omega)]
        simp only [mask_cons, Bool.not_true, Bool.not_false]
        rw [← List.append_assoc (List.replicate (skp + sel) false), List.replicate_append_replicate]
        have e1 : skp + offset = skp + sel + (offset - sel) := by omega
        have e2 : sel + n - offset = n - (offset - sel) := by omega
        rw [e1, e2]
      · rename_i h1
        rw [ih (sel + n) skp (by omega), clearFirst_rep_true_ge _ _ _ (by omega)]
        have e : offset - (sel + n) = offset - sel - n := by omega
        rw [e]
        by_cases hc : offset - sel - n < Spec.countTrue (mask r)
        · have : offset - sel < n + Spec.countTrue (mask r) := by omega
          rw [if_pos hc, if_pos this, ← List.append_assoc, List.replicate_append_replicate]
          congr 2; omega
        · have : ¬ offset - sel < n + Spec.countTrue (mask r) := by omega
          rw [if_neg hc, if_neg this]

theorem positions_offsetSel (s : List Sel) (k : Nat) :
    positions (offsetSel s k) = (positions s).drop k := by
  unfold offsetSel positions
  split
  · rename_i h; subst h; simp
  · rw [mask_offsetGo k s 0 0 (by omega)]
    simp only [Nat.sub_zero, Nat.add_zero, List.replicate_zero, List.nil_append]
    split
    · exact trueIdx_clearFirst 0 k _
    · rename_i h
      have := trueIdx_length 0 (mask s)
      rw [List.drop_of_length_le (by omega)]; rfl

/-! limit -/
theorem mask_limitGo (s : List Sel) (lim : Nat) (h : 0 < lim) :
    mask (limitGo s lim) = keepFirst lim (mask s) := by
  induction s generalizing lim with
  | nil => cases lim <;> simp [limitGo, keepFirst]
  | cons a r ih =>
    obtain ⟨n, k⟩ := a
    unfold limitGo
    cases k with
    | true =>
      simp only [Bool.not_true, Bool.false_eq_true, if_false, mask_cons]
      rw [keepFirst_rep_false _ _ _ h, ih lim h]
    | false =>
      simp only [Bool.not_false, if_true, mask_cons]
      split
      · rename_i h1
        rw [keepFirst_rep_true_le _ _ _ h1]; simp
      · rename_i h1
        rw [keepFirst_rep_true_gt _ _ _ (by omega), mask_cons, ih (lim - n) (by omega)]; simp

theorem mask_limitSel (s : List Sel) (k : Nat) : mask (limitSel s k) = keepFirst k (mask s) := by
  unfold limitSel
  split
  · rename_i h; subst h; simp [keepFirst]
  · exact mask_limitGo s k (by omega)

theorem positions_limitSel (s : List Sel) (k : Nat) :
    positions (limitSel s k) = (positions s).take k := by
  unfold positions; rw [mask_limitSel, trueIdx_keepFirst]

/-! trim -/
theorem mask_trimSel (s : List Sel) :
    ∃ k, mask s = mask (trimSel s) ++ List.replicate k false := by
  induction s with
  | nil => exact ⟨0, rfl⟩
  | cons a r ih =>
    obtain ⟨n, j⟩ := a
    obtain ⟨k, hk⟩ := ih
    unfold trimSel
    split
    · rename_i h0
      rw [h0] at hk
      cases j with
      | true => exact ⟨n + k, by simp [hk, List.replicate_append_replicate]⟩
      | false => exact ⟨k, by simp [hk]⟩
    · rename_i t h0
      exact ⟨k, by simp [hk]⟩

theorem positions_trimSel (s : List Sel) : positions (trimSel s) = positions s := by
  obtain ⟨k, hk⟩ := mask_trimSel s
  unfold positions
  rw [hk, trueIdx_append, trueIdx_rep_false]; simp

/-! counts -/
theorem sumN_filter_select (s : List Sel) :
    sumN (s.filter (fun x => !x.2)) = Spec.countTrue (mask s) := by
  induction s with
  | nil => rfl
  | cons a r ih =>
    obtain ⟨n, j⟩ := a
    cases j <;> simp [List.filter, sumN, countTrue_append, ih]

theorem sumN_filter_skip (s : List Sel) :
    sumN (s.filter (fun x => x.2)) + Spec.countTrue (mask s) = (mask s).length := by
  induction s with
  | nil => rfl
  | cons a r ih =>
    obtain ⟨n, j⟩ := a
    cases j <;> simp [List.filter, sumN, countTrue_append] <;> omega

/-- `limit` as an optional `take` -/
def takeOpt {α} : Option Nat → List α → List α
  | none, l => l
  | some k, l => l.take k

/-- what one row group contributes under a budget: `build_limited` = offset then limit
(`positions_offsetSel`, `positions_limitSel`) -/
def applyBudget {α} (bd : Budget) (g : List α) : List α :=
  takeOpt bd.limit (g.drop (bd.offset.getD 0))

/-- the push decoder's walk over row groups at the level of surviving rows: `g` = rows of one
row group that survive selection and predicates; stop when the budget is exhausted
(`RowGroupFrontier::next_readable_row_group`), otherwise emit the budgeted rows and advance
(`RowBudget::apply_to_plan` / `plan_selected_row_group`). -/
def distribute {α} (bd : Budget) : List (List α) → List (List α)
  | [] => []
  | g :: rest =>
    if bd.isExhausted then []
    else applyBudget bd g :: distribute (bd.advance g.length (bd.rowsAfter g.length)) rest

theorem applyBudget_length {α} (bd : Budget) (g : List α) :
    (applyBudget bd g).length = bd.rowsAfter g.length := by
  unfold applyBudget Budget.rowsAfter takeOpt
  cases bd.limit <;> cases bd.offset <;>
    simp [ArrowModel.Generated.C06.BUDGET_DEFAULT_OFFSET, Nat.min_comm]

theorem take_drop_append {α} (o l : Nat) (g r : List α) :
    ((g ++ r).drop o).take l =
      (g.drop o).take l ++ ((r.drop (o - g.length)).take (l - (g.length - o))) := by
  simp [List.drop_append, List.take_append, List.length_drop]

theorem advance_ss (o l n : Nat) (hl : l ≠ 0) :
    Budget.advance ⟨some o, some l⟩ n (Budget.rowsAfter ⟨some o, some l⟩ n) =
      ⟨some (o - n), some (l - (n - o))⟩ := by
  simp only [Budget.advance, Budget.rowsAfter, Option.getD_some, Option.map_some,
    ArrowModel.Generated.C06.BUDGET_ADVANCE_SKIP_WHEN]
  by_cases h0 : min (n - o) l = 0
  · simp only [h0, ne_eq, not_true_eq_false, if_false, Option.map_some]
    congr 2 <;> omega
  · simp only [h0, ne_eq, not_false_eq_true, if_true, Option.map_some]
    congr 2 <;> omega

theorem advance_ns (l n : Nat) (hl : l ≠ 0) :
    Budget.advance ⟨none, some l⟩ n (Budget.rowsAfter ⟨none, some l⟩ n) =
      ⟨none, some (l - n)⟩ := by
  simp only [Budget.advance, Budget.rowsAfter, Option.getD_none, Option.map_none, Option.map_some,
    ArrowModel.Generated.C06.BUDGET_ADVANCE_SKIP_WHEN, ArrowModel.Generated.C06.BUDGET_DEFAULT_OFFSET,
    Nat.sub_zero]
  by_cases h0 : min n l = 0
  · simp only [h0, ne_eq, not_true_eq_false, if_false]
    congr 2; omega
  · simp only [h0, ne_eq, not_false_eq_true, if_true]
    congr 2; omega

theorem advance_sn (o n : Nat) :
    Budget.advance ⟨some o, none⟩ n (Budget.rowsAfter ⟨some o, none⟩ n) = ⟨some (o - n), none⟩ := by
  simp only [Budget.advance, Budget.rowsAfter, Option.getD_some, Option.map_some, Option.map_none]
  congr 2
  · omega
  · exact ite_self _

theorem advance_nn (n : Nat) :
    Budget.advance ⟨none, none⟩ n (Budget.rowsAfter ⟨none, none⟩ n) = ⟨none, none⟩ := by
  simp only [Budget.advance, Budget.rowsAfter, Option.map_none]
  congr 1
  exact ite_self _

theorem distribute_flatten {α} (bd : Budget) (gs : List (List α)) :
    (distribute bd gs).flatten = applyBudget bd gs.flatten := by
  induction gs generalizing bd with
  | nil => unfold distribute applyBudget takeOpt; cases bd.limit <;> simp
  | cons g rest ih =>
    unfold distribute
    split
    · rename_i hex
      simp [Budget.isExhausted, ArrowModel.Generated.C06.BUDGET_EXHAUSTED_LIMIT] at hex
      simp [applyBudget, takeOpt, hex]
    · rename_i hex
      simp only [List.flatten_cons, ih]
      obtain ⟨off, lim⟩ := bd
      cases lim with
      | none =>
        cases off with
        | none => rw [advance_nn]; simp [applyBudget, takeOpt]
        | some o => rw [advance_sn]; simp [applyBudget, takeOpt, List.drop_append]
      | some l =>
        have hl : l ≠ 0 := by
          intro h; subst h
          simp [Budget.isExhausted, ArrowModel.Generated.C06.BUDGET_EXHAUSTED_LIMIT] at hex
        cases off with
        | none =>
          rw [advance_ns _ _ hl]
          have := take_drop_append 0 l g rest.flatten
          simpa [applyBudget, takeOpt] using this.symm
        | some o =>
          rw [advance_ss _ _ _ hl]
          have := take_drop_append o l g rest.flatten
          simpa [applyBudget, takeOpt] using this.symm

theorem trueIdx_rep_false_append (b n : Nat) (m : List Bool) :
    trueIdx b (List.replicate n false ++ m) = trueIdx (b + n) m := by
  rw [trueIdx_append, trueIdx_rep_false]; simp

theorem trueIdx_rep_true_append (b n : Nat) (m : List Bool) :
    trueIdx b (List.replicate n true ++ m) = List.range' b n ++ trueIdx (b + n) m := by
  rw [trueIdx_append, trueIdx_rep_true]; simp

/-- invariant of the selector-cursor loop of `next_inner` -/
theorem selLoop_ok (b total : Nat) (sels : List Sel) (pos : Nat) (buf : List Nat)
    (hfit : pos + sumN sels ≤ total) (hbuf : buf.length ≤ b) :
    ∃ st, selLoop b total sels pos buf = some st ∧
      ∃ X, st.rows = buf ++ X ∧ X ++ trueIdx st.pos (mask st.sels) = trueIdx pos (mask sels) ∧
      st.pos + sumN st.sels ≤ total ∧ st.rows.length ≤ b ∧
      (st.rows.length = b ∨ trueIdx st.pos (mask st.sels) = []) := by
  fun_induction selLoop b total sels pos buf with
  | case1 pos buf => exact ⟨_, rfl, [], by simp, by simp [trueIdx], by simpa using hfit, hbuf, Or.inr rfl⟩
  | case2 front rest pos buf h =>
    exact ⟨_, rfl, [], by simp, by simp, hfit, hbuf, Or.inl (by simp; omega)⟩
  | case3 front rest pos buf h hs skipped herr =>
    obtain ⟨n, k⟩ := front
    simp [sumN] at hfit
    simp [skipped] at herr
    omega
  | case4 front rest pos buf h hs skipped herr ih =>
    obtain ⟨n, k⟩ := front
    simp at hs; subst hs
    simp [sumN] at hfit
    have hsk : skipped = n := by simp [skipped]; omega
    rw [hsk] at ih ⊢
    obtain ⟨st, h1, X, h2, h3, h4, h5, h6⟩ := ih (by omega) hbuf
    refine ⟨st, h1, X, h2, ?_, h4, h5, h6⟩
    rw [h3, mask_cons]; simp [trueIdx_rep_false_append]
  | case5 front rest pos buf h hs h0 ih =>
    obtain ⟨n, k⟩ := front
    simp at hs h0; subst hs; subst h0
    simp [sumN] at hfit
    obtain ⟨st, h1, X, h2, h3, h4, h5, h6⟩ := ih (by omega) hbuf
    exact ⟨st, h1, X, h2, by simpa using h3, h4, h5, h6⟩
  | case6 front rest pos buf h hs h0 need hgt rec_ hz =>
    obtain ⟨n, k⟩ := front
    simp [sumN] at hfit
    simp [need] at hgt
    simp [rec_, need] at hz
    omega
  | case7 front rest pos buf h hs h0 need hgt rec_ hz ih =>
    obtain ⟨n, k⟩ := front
    simp at hs; subst hs
    simp [sumN] at hfit
    simp [need] at hgt
    have hr : rec_ = need := by simp [rec_, need]; omega
    rw [hr] at ih ⊢
    obtain ⟨st, h1, X, h2, h3, h4, h5, h6⟩ :=
      ih (by simp [sumN, need]; omega) (by simp [need]; omega)
    refine ⟨st, h1, List.range' pos need ++ X, by simp [h2], ?_, h4, h5, h6⟩
    rw [List.append_assoc, h3, mask_cons, mask_cons]
    simp only [Bool.not_false]
    rw [trueIdx_rep_true_append, trueIdx_rep_true_append, ← List.append_assoc,
      List.range'_append_1]
    have e1 : need + (n - need) = n := by simp [need] at *; omega
    have e2 : pos + need + (n - need) = pos + n := by simp [need] at *; omega
    rw [e1, e2]
  | case8 front rest pos buf h hs h0 need hgt rec_ hz =>
    obtain ⟨n, k⟩ := front
    simp [sumN] at hfit
    simp at h0
    simp [rec_] at hz
    omega
  | case9 front rest pos buf h hs h0 need hgt rec_ hz ih =>
    obtain ⟨n, k⟩ := front
    simp at hs; subst hs
    simp [sumN] at hfit
    simp [need] at hgt
    have hr : rec_ = n := by simp [rec_]; omega
    rw [hr] at ih ⊢
    obtain ⟨st, h1, X, h2, h3, h4, h5, h6⟩ := ih (by omega) (by simp; omega)
    refine ⟨st, h1, List.range' pos n ++ X, by simp [h2], ?_, h4, h5, h6⟩
    rw [List.append_assoc, h3, mask_cons]
    simp only [Bool.not_false]
    rw [trueIdx_rep_true_append]

/-- draining the reader with a selector cursor -/
theorem readAll_selectors (b total : Nat) (hb : 0 < b) (fuel : Nat) (s : List Sel) (pos : Nat)
    (hfit : pos + sumN s ≤ total) (hfuel : (trueIdx pos (mask s)).length < fuel) :
    ∃ bs, readAll b total fuel (.selectors s) pos = some bs ∧
      bs.flatten = trueIdx pos (mask s) ∧ (∀ x ∈ bs, 0 < x.length ∧ x.length ≤ b) ∧
      ∀ x ∈ bs.dropLast, x.length = b := by
  induction fuel generalizing s pos with
  | zero => omega
  | succ fuel ih =>
    obtain ⟨st, h1, X, h2, h3, h4, h5, h6⟩ := selLoop_ok b total s pos [] hfit (by simp)
    simp only [List.nil_append] at h2
    unfold readAll
    simp only [show b ≠ 0 by omega, if_false, h1]
    by_cases he : st.rows.isEmpty
    · simp only [he, if_true]
      have hX : X = [] := by rw [← h2]; simpa using he
      have : trueIdx st.pos (mask st.sels) = [] := by
        rcases h6 with h6 | h6
        · rw [h2, hX] at h6; simp at h6; omega
        · exact h6
      refine ⟨[], rfl, ?_, by simp, by simp⟩
      rw [← h3, hX, this]; simp
    · simp only [he, Bool.false_eq_true, if_false]
      have hlen : (trueIdx st.pos (mask st.sels)).length < fuel := by
        have := congrArg List.length h3
        simp at this
        have hx : 0 < X.length := by
          rw [← h2]; exact List.length_pos_iff.mpr (by simpa using he)
        omega
      obtain ⟨bs, hb1, hb2, hb3, hb4⟩ := ih st.sels st.pos h4 hlen
      refine ⟨st.rows :: bs, by simp [hb1], ?_, ?_, ?_⟩
      · simp [hb2, h2, h3]
      · intro x hx
        simp at hx
        rcases hx with rfl | hx
        · exact ⟨List.length_pos_iff.mpr (by simpa using he), h5⟩
        · exact hb3 x hx
      · cases hbs : bs with
        | nil => simp
        | cons y ys =>
          rw [← hbs, List.dropLast_cons_of_ne_nil (by simp [hbs])]
          intro x hx
          simp at hx
          rcases hx with rfl | hx
          · rcases h6 with h6 | h6
            · exact h6
            · exfalso
              rw [h6] at hb2
              have := hb3 y (by simp [hbs])
              rw [hbs] at hb2; simp at hb2
              have := hb2.1; simp [this] at *
          · exact hb4 x hx

/-- the invariants `RowSelection` documents for its selector backing: no zero-length
selector, consecutive selectors alternate between skip and select -/
def Normal : List Sel → Prop
  | [] => True
  | [a] => a.1 ≠ 0
  | a :: b :: r => a.1 ≠ 0 ∧ a.2 ≠ b.2 ∧ Normal (b :: r)

theorem normGo_normal (last : Sel) (r : List Sel) (h : last.1 ≠ 0) :
    Normal (normGo last r) ∧ ∃ n t, normGo last r = (n, last.2) :: t ∧ n ≠ 0 := by
  induction r generalizing last with
  | nil => exact ⟨h, last.1, [], rfl, h⟩
  | cons s r ih =>
    unfold normGo
    split
    · exact ih last h
    · split
      · rename_i h0 hk
        have := ih (last.1 + s.1, last.2) (by simp; omega)
        simpa using this
      · rename_i h0 hk
        obtain ⟨hn, n, t, he, hn0⟩ := ih s h0
        refine ⟨?_, last.1, _, rfl, h⟩
        rw [he]
        refine ⟨h, hk, ?_⟩
        rw [← he]; exact hn

theorem fromIter_normal (s : List Sel) : Normal (fromIter s) := by
  induction s with
  | nil => trivial
  | cons a r ih =>
    unfold fromIter
    split
    · exact ih
    · rename_i h; exact (normGo_normal a r h).1

theorem mem_trueIdx (b p : Nat) (m : List Bool) :
    p ∈ trueIdx b m ↔ b ≤ p ∧ m[p - b]? = some true := by
  induction m generalizing b with
  | nil => simp [trueIdx]
  | cons a m ih =>
    cases a
    · simp only [trueIdx, ih]
      constructor
      · rintro ⟨h1, h2⟩
        refine ⟨by omega, ?_⟩
        have : p - b = (p - (b + 1)) + 1 := by omega
        rw [this]; simpa using h2
      · rintro ⟨h1, h2⟩
        by_cases hp : p = b
        · subst hp; simp at h2
        · have : p - b = (p - (b + 1)) + 1 := by omega
          rw [this] at h2
          exact ⟨by omega, by simpa using h2⟩
    · simp only [trueIdx, List.mem_cons, ih]
      constructor
      · rintro (h | ⟨h1, h2⟩)
        · subst h; simp
        · refine ⟨by omega, ?_⟩
          have : p - b = (p - (b + 1)) + 1 := by omega
          rw [this]; simpa using h2
      · rintro ⟨h1, h2⟩
        by_cases hp : p = b
        · exact Or.inl hp
        · right
          have : p - b = (p - (b + 1)) + 1 := by omega
          rw [this] at h2
          exact ⟨by omega, by simpa using h2⟩

theorem zipTail_getElem? (f : Bool → Bool → Bool) (a b : List Bool) (i : Nat)
    (ha : i < a.length) (hb : i < b.length) :
    (zipTail f a b)[i]? = some (f a[i] b[i]) := by
  induction a generalizing b i with
  | nil => simp at ha
  | cons x a ih =>
    cases b with
    | nil => simp at hb
    | cons y b =>
      cases i with
      | zero => simp
      | succ i => simpa using ih b i (by simpa using ha) (by simpa using hb)


/-! mask backing -/
theorem countTrue_eq (m : List Bool) : countTrue m = Spec.countTrue m := by
  induction m with
  | nil => rfl
  | cons a m ih => cases a <;> simp [countTrue, Spec.countTrue, ih]

theorem combineMasks_eq (f : Bool → Bool → Bool) (a b : List Bool) :
    combineMasks f a b = zipTail f a b := by
  induction a generalizing b with
  | nil => cases b <;> simp [combineMasks]
  | cons x a ih => cases b <;> simp [combineMasks, ih]

theorem scatter_eq (m o : List Bool) : scatter m o = compose m o := by
  induction m generalizing o with
  | nil => cases o <;> simp [scatter]
  | cons x m ih =>
    cases x
    · simp [scatter, compose, ih]
    · cases o <;> simp [scatter, compose, ih]

theorem compose_all_false (m o : List Bool) (h : Spec.countTrue o = 0) :
    compose m o = List.replicate m.length false := by
  induction m generalizing o with
  | nil => simp
  | cons x m ih =>
    cases x
    · simp [compose, ih o h, List.replicate_succ]
    · cases o with
      | nil => simp [compose, ih [] h, List.replicate_succ]
      | cons y o =>
        cases y
        · simp [compose, List.replicate_succ]; exact ih o (by simpa [Spec.countTrue] using h)
        · simp [Spec.countTrue] at h

theorem countTrue_le_length (o : List Bool) : Spec.countTrue o ≤ o.length := by
  induction o with
  | nil => simp [Spec.countTrue]
  | cons z o ih => cases z <;> simp [Spec.countTrue] <;> omega

theorem compose_all_true (m o : List Bool) (hl : o.length = Spec.countTrue m)
    (h : Spec.countTrue o = o.length) : compose m o = m := by
  induction m generalizing o with
  | nil => simp
  | cons x m ih =>
    cases x
    · simp only [compose, List.cons.injEq, true_and]
      exact ih o (by simpa [Spec.countTrue] using hl) h
    · cases o with
      | nil => simp [Spec.countTrue] at hl
      | cons y o =>
        cases y
        · have := countTrue_le_length o
          simp [Spec.countTrue] at h
          omega
        · simp only [compose, List.cons.injEq, true_and]
          exact ih o (by simpa [Spec.countTrue] using hl) (by simpa [Spec.countTrue] using h)

/-- `and_then_masks` (both fast paths and the scatter loop) is composition -/
theorem andThenMasks_spec (m o out : List Bool) (h : andThenMasks m o = some out) :
    out = compose m o ∧ o.length = Spec.countTrue m := by
  unfold andThenMasks at h
  simp only [countTrue_eq] at h
  split at h
  · simp at h
  · rename_i hl
    simp only [ne_eq, Decidable.not_not] at hl
    split at h
    · rename_i h0
      simp at h; subst h
      exact ⟨(compose_all_false m o h0).symm, hl⟩
    · split at h
      · rename_i h0 h1
        simp at h; subst h
        exact ⟨(compose_all_true m o hl (by omega)).symm, hl⟩
      · simp at h; subst h
        exact ⟨scatter_eq m o, hl⟩

theorem splitOffMask_spec (m : List Bool) (k : Nat) :
    (splitOffMask m k).1 = m.take k ∧ (splitOffMask m k).2 = m.drop k := by
  unfold splitOffMask
  split
  · rename_i h; simp [List.take_of_length_le h, List.drop_of_length_le h]
  · simp

theorem limitMask_spec (m : List Bool) (k : Nat) : limitMask m k = keepFirst k m := by
  unfold limitMask
  induction m generalizing k with
  | nil => cases k <;> simp [findNth, keepFirst]
  | cons x m ih =>
    cases k with
    | zero => simp [findNth, keepFirst]
    | succ k => cases x <;> simp [findNth, keepFirst, ih]

theorem findNth_clear (m : List Bool) (k : Nat) (h : k < Spec.countTrue m) :
    List.replicate (findNth m k) false ++ m.drop (findNth m k) = clearFirst k m := by
  induction m generalizing k with
  | nil => simp [Spec.countTrue] at h
  | cons x m ih =>
    cases k with
    | zero => simp [findNth]
    | succ k =>
      cases x
      · simp [findNth, clearFirst, List.replicate_succ]
        exact ih (k + 1) (by simpa [Spec.countTrue] using h)
      · simp [findNth, clearFirst, List.replicate_succ]
        exact ih k (by simp [Spec.countTrue] at h; omega)

/-- `offset_mask` drops the first `k` selected positions -/
theorem offsetMask_positions (m : List Bool) (k : Nat) :
    trueIdx 0 (offsetMask m k) = (trueIdx 0 m).drop k := by
  unfold offsetMask
  simp only [countTrue_eq]
  split
  · rename_i h
    have := trueIdx_length 0 m
    rw [List.drop_of_length_le (by omega)]; rfl
  · rename_i h
    rw [findNth_clear m k (by omega), trueIdx_clearFirst]

theorem trimMask_spec (m : List Bool) : ∃ k, m = trimMask m ++ List.replicate k false := by
  induction m with
  | nil => exact ⟨0, rfl⟩
  | cons x m ih =>
    obtain ⟨k, hk⟩ := ih
    unfold trimMask
    split
    · rename_i h0
      rw [h0] at hk
      cases x
      · exact ⟨k + 1, by simp [hk, List.replicate_succ]⟩
      · exact ⟨k, by simp [hk]⟩
    · exact ⟨k, by simp; exact hk⟩

theorem trimMask_positions (m : List Bool) : trueIdx 0 (trimMask m) = trueIdx 0 m := by
  obtain ⟨k, hk⟩ := trimMask_spec m
  conv => rhs; rw [hk]
  rw [trueIdx_append, trueIdx_rep_false]; simp

theorem takeSelected_spec (m : List Bool) (need : Nat) :
    (takeSelected m need).1 ++ (takeSelected m need).2 = m ∧
    Spec.countTrue (takeSelected m need).1 ≤ need ∧
    (Spec.countTrue (takeSelected m need).1 = need ∨ (takeSelected m need).2 = []) := by
  induction m generalizing need with
  | nil => simp [takeSelected, Spec.countTrue]
  | cons x m ih =>
    unfold takeSelected
    split
    · rename_i h; subst h; simp [Spec.countTrue]
    · rename_i h
      cases x
      · obtain ⟨h1, h2, h3⟩ := ih need
        simp [Spec.countTrue, h1, h2, h3]
      · obtain ⟨h1, h2, h3⟩ := ih (need - 1)
        simp only [if_true, Spec.countTrue, List.cons_append, h1, true_and]
        refine ⟨by omega, ?_⟩
        rcases h3 with h3 | h3
        · left; omega
        · right; exact h3

theorem leadFalse (rem : List Bool) :
    ∃ k rest, rem = List.replicate k false ++ rest ∧ (rem.takeWhile (fun x => !x)).length = k ∧
      rem.drop k = rest ∧ (rest = [] ∨ ∃ r, rest = true :: r) := by
  induction rem with
  | nil => exact ⟨0, [], by simp⟩
  | cons x m ih =>
    cases x
    · obtain ⟨k, rest, h1, h2, h3, h4⟩ := ih
      refine ⟨k + 1, rest, by simp [List.replicate_succ, ← h1], by simp [h2], by simpa using h3, h4⟩
    · exact ⟨0, true :: m, by simp, by simp, by simp, Or.inr ⟨m, rfl⟩⟩

theorem filterRows_range' (p : Nat) (chunk : List Bool) :
    filterRows (List.range' p chunk.length) chunk = trueIdx p chunk := by
  induction chunk generalizing p with
  | nil => simp [filterRows, trueIdx]
  | cons x m ih =>
    cases x <;> simp [List.range'_succ, filterRows, trueIdx, ih]

/-- a mask the `ReadPlan` hands to the cursor: trailing skips removed -/
def Trimmed (rem : List Bool) : Prop := rem.getLast? ≠ some false

theorem trimmed_suffix (a rest : List Bool) (h : Trimmed (a ++ rest)) : Trimmed rest := by
  unfold Trimmed at *
  cases rest with
  | nil => simp
  | cons x r =>
    rw [List.getLast?_append] at h
    cases hl : (x :: r).getLast? with
    | none => simp at hl
    | some v => rw [hl] at h; simpa using h

/-- one `read_mask_batch` call (no loaded ranges) -/
theorem maskLoop_ok (b total : Nat) (hb : 0 < b) (rem : List Bool) (pos : Nat)
    (hfit : pos + rem.length ≤ total) (htrim : Trimmed rem) :
    ∃ st, maskLoop b total (rem.length + 1) rem pos 0 [] [] = some st ∧
      st.rows ++ trueIdx st.pos st.rem = trueIdx pos rem ∧
      st.pos + st.rem.length ≤ total ∧ Trimmed st.rem ∧ st.rows.length ≤ b ∧
      (rem ≠ [] → 0 < st.rows.length) ∧ (st.rows.length = b ∨ st.rem = []) := by
  cases hrem : rem with
  | nil =>
    refine ⟨⟨[], [], pos⟩, ?_, by simp [trueIdx], by simpa [hrem] using hfit, by simp [Trimmed], by simp, by simp, Or.inr rfl⟩
    simp [maskLoop, filterRows]
  | cons x0 m0 =>
    rw [← hrem]
    obtain ⟨k, rest, h1, h2, h3, h4⟩ := leadFalse rem
    have hrest : ∃ r, rest = true :: r := by
      rcases h4 with h4 | h4
      · exfalso
        subst h4
        simp at h1
        have hk : 0 < k := by
          cases k with
          | zero => simp [h1] at hrem
          | succ k => omega
        unfold Trimmed at htrim
        apply htrim
        rw [h1]
        cases k with
        | zero => omega
        | succ k => simp [List.replicate_succ']
      · exact h4
    obtain ⟨r, hr⟩ := hrest
    obtain ⟨t1, t2, t3⟩ := takeSelected_spec rest b
    have hlen : rem.length = k + ((takeSelected rest b).1.length + (takeSelected rest b).2.length) := by
      have := congrArg List.length t1
      rw [h1]; simp at this ⊢; omega
    have hchunk : (takeSelected rest b).1 ≠ [] := by
      rw [hr]; unfold takeSelected; simp [show b ≠ 0 by omega]
    have hclen : 0 < (takeSelected rest b).1.length := List.length_pos_iff.mpr hchunk
    have hfl : rem.length + 1 = (rem.length - 1) + 1 + 1 := by omega
    rw [hfl]
    unfold maskLoop
    have hne : rem.isEmpty = false := by rw [hrem]; rfl
    simp only [show ¬ (0 ≥ b) by omega, hne, Bool.false_eq_true, or_self, if_false, nextMaskChunk,
      h2, h3, Nat.sub_zero]
    have hs : min k (total - pos) = k := by omega
    have hrd : min (takeSelected rest b).1.length (total - (pos + k)) = (takeSelected rest b).1.length := by
      omega
    simp only [hs, ne_eq, not_true_eq_false, if_false, hrd, List.nil_append, Nat.zero_add]
    have hz : ¬ ((takeSelected rest b).1.length = 0) := by omega
    simp only [hz, or_false, if_false]
    unfold maskLoop
    have hstop : countTrue (takeSelected rest b).1 ≥ b ∨ (takeSelected rest b).2.isEmpty = true := by
      rw [countTrue_eq]
      rcases t3 with t3 | t3
      · left; omega
      · right; simp [t3]
    simp only [hstop, if_true]
    refine ⟨_, rfl, ?_, ?_, ?_, ?_, ?_, ?_⟩
    rotate_right 1
    · simp only [filterRows_range', trueIdx_length]
      rcases t3 with t3 | t3
      · exact Or.inl t3
      · exact Or.inr t3
    · simp only [filterRows_range']
      rw [h1, trueIdx_rep_false_append]
      conv => rhs; rw [← t1]
      rw [trueIdx_append]
    · simp; omega
    · have : rem = (List.replicate k false ++ (takeSelected rest b).1) ++ (takeSelected rest b).2 := by
        rw [List.append_assoc, t1, h1]
      rw [this] at htrim
      exact trimmed_suffix _ _ htrim
    · simp only [filterRows_range', trueIdx_length]; exact t2
    · intro _
      simp only [filterRows_range', trueIdx_length]
      rw [hr]; unfold takeSelected
      simp [show b ≠ 0 by omega, Spec.countTrue]

/-- draining the reader with a mask cursor -/
theorem readAll_mask (b total : Nat) (hb : 0 < b) (fuel : Nat) (rem : List Bool) (pos : Nat)
    (hfit : pos + rem.length ≤ total) (htrim : Trimmed rem)
    (hfuel : (trueIdx pos rem).length < fuel) :
    ∃ bs, readAll b total fuel (.mask rem) pos = some bs ∧
      bs.flatten = trueIdx pos rem ∧ (∀ x ∈ bs, 0 < x.length ∧ x.length ≤ b) ∧
      ∀ x ∈ bs.dropLast, x.length = b := by
  induction fuel generalizing rem pos with
  | zero => omega
  | succ fuel ih =>
    obtain ⟨st, h1, h2, h3, h4, h5, h6, h7⟩ := maskLoop_ok b total hb rem pos hfit htrim
    unfold readAll
    simp only [show b ≠ 0 by omega, if_false, h1]
    by_cases he : st.rows.isEmpty
    · simp only [he, if_true]
      have hX : st.rows = [] := by simpa using he
      have hrem : rem = [] := by
        by_cases hr : rem = []
        · exact hr
        · have := h6 hr; rw [hX] at this; simp at this
      refine ⟨[], rfl, ?_, by simp, by simp⟩
      rw [hrem]; simp [trueIdx]
    · simp only [he, Bool.false_eq_true, if_false]
      have hx : 0 < st.rows.length := List.length_pos_iff.mpr (by simpa using he)
      have hlen : (trueIdx st.pos st.rem).length < fuel := by
        have := congrArg List.length h2
        simp at this
        omega
      obtain ⟨bs, hb1, hb2, hb3, hb4⟩ := ih st.rem st.pos h3 h4 hlen
      refine ⟨st.rows :: bs, by simp [hb1], by simp [hb2, h2], ?_, ?_⟩
      · intro x hxm
        simp at hxm
        rcases hxm with rfl | hxm
        · exact ⟨hx, h5⟩
        · exact hb3 x hxm
      · cases hbs : bs with
        | nil => simp
        | cons y ys =>
          rw [← hbs, List.dropLast_cons_of_ne_nil (by simp [hbs])]
          intro x hxm
          simp at hxm
          rcases hxm with rfl | hxm
          · rcases h7 with h7 | h7
            · exact h7
            · exfalso
              rw [h7] at hb2
              have := hb3 y (by simp [hbs])
              rw [hbs] at hb2; simp [trueIdx] at hb2
              have := hb2.1; simp [this] at *
          · exact hb4 x hxm

theorem trimMask_trimmed (m : List Bool) : Trimmed (trimMask m) := by
  induction m with
  | nil => simp [trimMask, Trimmed]
  | cons x m ih =>
    unfold trimMask
    split
    · cases x <;> simp [Trimmed]
    · rename_i t h0
      unfold Trimmed at *
      cases ht : trimMask m with
      | nil => simp [ht] at h0
      | cons y r => rw [ht] at ih; rw [List.getLast?_cons_cons]; exact ih

theorem trimMask_length (m : List Bool) : (trimMask m).length ≤ m.length := by
  obtain ⟨k, hk⟩ := trimMask_spec m
  have := congrArg List.length hk
  simp at this; omega

/-- the cached count, when present, is the popcount of the mask -/
def CacheOk : CRS → Prop
  | .sels _ => True
  | .bits ms => ∀ c, ms.cache = some c → c = countTrue ms.m

theorem countTrue_take_drop (m : List Bool) (k : Nat) :
    countTrue (m.take k) + countTrue (m.drop k) = countTrue m := by
  rw [countTrue_eq, countTrue_eq, countTrue_eq, ← countTrue_append, List.take_append_drop]

theorem cacheOk_ofRS (r : RS) : CacheOk (CRS.ofRS r) := by
  cases r <;> simp [CRS.ofRS, CacheOk]

theorem cacheOk_rowCount (s : CRS) (h : CacheOk s) :
    CacheOk s.rowCount.2 ∧ s.rowCount.1 = s.toRS.rowCount ∧ s.rowCount.2.toRS = s.toRS := by
  cases s with
  | sels s => simp [CRS.rowCount, CacheOk, CRS.toRS, RS.rowCount]
  | bits ms =>
    obtain ⟨m, cache⟩ := ms
    cases cache with
    | none => simp [CRS.rowCount, MaskSel.count, CacheOk, CRS.toRS, RS.rowCount]
    | some c =>
      have := h c rfl
      simp only [] at this
      subst this
      simp [CRS.rowCount, MaskSel.count, CRS.toRS, RS.rowCount]
      exact h

theorem cacheOk_skipped (s : CRS) (h : CacheOk s) :
    CacheOk s.skippedRowCount.2 ∧ s.skippedRowCount.1 = s.toRS.skippedRowCount := by
  cases s with
  | sels s => simp [CRS.skippedRowCount, CacheOk, CRS.toRS, RS.skippedRowCount]
  | bits ms =>
    obtain ⟨m, cache⟩ := ms
    cases cache with
    | none => simp [CRS.skippedRowCount, MaskSel.count, CacheOk, CRS.toRS, RS.skippedRowCount]
    | some c =>
      have := h c rfl
      simp only [] at this
      subst this
      simp [CRS.skippedRowCount, MaskSel.count, CRS.toRS, RS.skippedRowCount]
      exact h

theorem countTrue_pos_iff_any (m : List Bool) : (countTrue m > 0) ↔ m.any id = true := by
  induction m with
  | nil => simp [countTrue]
  | cons a m ih => cases a <;> simp [countTrue, ih]

theorem cacheOk_selectsAny (s : CRS) (h : CacheOk s) : s.selectsAny = s.toRS.selectsAny := by
  cases s with
  | sels s => simp [CRS.selectsAny, CRS.toRS, RS.selectsAny]
  | bits ms =>
    obtain ⟨m, cache⟩ := ms
    cases cache with
    | none =>
      simp only [CRS.selectsAny, CRS.toRS, RS.selectsAny]
      by_cases hc : countTrue m > 0
      · simp [hc, (countTrue_pos_iff_any m).mp hc]
      · have : ¬ (m.any id = true) := fun h2 => hc ((countTrue_pos_iff_any m).mpr h2)
        simp [hc]; simpa using this
    | some c =>
      have := h c rfl
      simp only [] at this
      simp [CRS.selectsAny, CRS.toRS, RS.selectsAny, this]

theorem cacheOk_splitOff (s : CRS) (k : Nat) (h : CacheOk s) :
    CacheOk (s.splitOff k).1 ∧ CacheOk (s.splitOff k).2 ∧
    (s.splitOff k).1.toRS = (s.toRS.splitOff k).1 ∧ (s.splitOff k).2.toRS = (s.toRS.splitOff k).2 := by
  cases s with
  | sels s => simp [CRS.splitOff, CacheOk, CRS.toRS, RS.splitOff]
  | bits ms =>
    obtain ⟨m, cache⟩ := ms
    cases cache with
    | none => simp [CRS.splitOff, CacheOk, CRS.toRS, RS.splitOff]
    | some c =>
      have hc := h c rfl
      simp only [] at hc
      subst hc
      have hsp := splitOffMask_spec m k
      have htd := countTrue_take_drop m k
      simp only [CRS.splitOff, CacheOk, CRS.toRS, RS.splitOff, and_true, Option.some.injEq]
      refine ⟨?_, ?_⟩
      · intro c hc; subst hc
        split
        · rename_i he
          have : (splitOffMask m k).2 = [] := List.isEmpty_iff.mp he
          rw [hsp.2] at this
          rw [hsp.1]
          rw [this] at htd; simp [countTrue] at htd; omega
        · rfl
      · intro c hc; subst hc
        rw [hsp.1, hsp.2]
        split
        · rename_i he
          have : m.drop k = [] := List.isEmpty_iff.mp he
          rw [this]; simp [countTrue]
        · omega

theorem countTrue_offsetMask (m : List Bool) (k : Nat) :
    countTrue (offsetMask m k) = countTrue m - k := by
  have h1 := offsetMask_positions m k
  have h2 := congrArg List.length h1
  rw [trueIdx_length, List.length_drop, trueIdx_length] at h2
  rw [countTrue_eq, countTrue_eq]; exact h2

theorem countTrue_limitMask (m : List Bool) (k : Nat) :
    countTrue (limitMask m k) = min (countTrue m) k := by
  have h2 := congrArg List.length (trueIdx_keepFirst 0 k m)
  rw [trueIdx_length, List.length_take, trueIdx_length] at h2
  rw [limitMask_spec, countTrue_eq, countTrue_eq, h2]; omega

theorem countTrue_trimMask (m : List Bool) : countTrue (trimMask m) = countTrue m := by
  have h2 := congrArg List.length (trimMask_positions m)
  rw [trueIdx_length, trueIdx_length] at h2
  rw [countTrue_eq, countTrue_eq]; exact h2

theorem cacheOk_offset (s : CRS) (k : Nat) (h : CacheOk s) :
    CacheOk (s.offset k) ∧ (s.offset k).toRS = s.toRS.offset k := by
  cases k with
  | zero => cases s <;> simp [CRS.offset, RS.offset, CRS.toRS, h]
  | succ k =>
    cases s with
    | sels s => simp [CRS.offset, CacheOk, CRS.toRS, RS.offset]
    | bits ms =>
      obtain ⟨m, cache⟩ := ms
      simp only [CRS.offset, CacheOk, CRS.toRS, RS.offset, and_true, Option.some.injEq]
      intro c hc; subst hc
      rw [countTrue_offsetMask]
      cases cache with
      | none => simp [MaskSel.count]
      | some c => have := h c rfl; simp only [] at this; simp [MaskSel.count, this]

theorem cacheOk_limit (s : CRS) (k : Nat) (h : CacheOk s) :
    CacheOk (s.limit k) ∧ (s.limit k).toRS = s.toRS.limit k := by
  cases s with
  | sels s => simp [CRS.limit, CacheOk, CRS.toRS, RS.limit]
  | bits ms =>
    obtain ⟨m, cache⟩ := ms
    simp only [CRS.limit, CacheOk, CRS.toRS, RS.limit, and_true]
    intro c hc
    cases cache with
    | none => simp at hc
    | some c0 =>
      have := h c0 rfl; simp only [] at this
      simp at hc; subst hc; subst this
      rw [countTrue_limitMask]

theorem cacheOk_trim (s : CRS) (h : CacheOk s) :
    CacheOk s.trim ∧ s.trim.toRS = s.toRS.trim := by
  cases s with
  | sels s => simp [CRS.trim, CacheOk, CRS.toRS, RS.trim]
  | bits ms =>
    obtain ⟨m, cache⟩ := ms
    simp only [CRS.trim, CacheOk, CRS.toRS, RS.trim, and_true]
    intro c hc
    have := h c hc; simp only [] at this
    rw [countTrue_trimMask]; exact this

/-- one step of an operation history on a `RowSelection` -/
inductive Op where
  | rowCount | skipped | clone | trim
  | splitHead (n : Nat) | splitTail (n : Nat) | offset (k : Nat) | limit (k : Nat)
  | andThen (o : RS) | inter (o : RS) | union (o : RS)

def Op.apply (s : CRS) : Op → Option CRS
  | .rowCount => some s.rowCount.2
  | .skipped => some s.skippedRowCount.2
  | .clone => some s
  | .trim => some s.trim
  | .splitHead n => some (s.splitOff n).1
  | .splitTail n => some (s.splitOff n).2
  | .offset k => some (s.offset k)
  | .limit k => some (s.limit k)
  | .andThen o => s.andThen (CRS.ofRS o)
  | .inter o => some (s.intersection (CRS.ofRS o))
  | .union o => some (s.union (CRS.ofRS o))

def runOps : CRS → List Op → Option CRS
  | s, [] => some s
  | s, op :: rest => match op.apply s with
    | some s' => runOps s' rest
    | none => none

theorem op_cacheOk (s s' : CRS) (op : Op) (h : CacheOk s) (hs : op.apply s = some s') : CacheOk s' := by
  cases op <;> simp only [Op.apply, Option.some.injEq] at hs
  · subst hs; exact (cacheOk_rowCount s h).1
  · subst hs; exact (cacheOk_skipped s h).1
  · subst hs; exact h
  · subst hs; exact (cacheOk_trim s h).1
  · subst hs; exact (cacheOk_splitOff s _ h).1
  · subst hs; exact (cacheOk_splitOff s _ h).2.1
  · subst hs; exact (cacheOk_offset s _ h).1
  · subst hs; exact (cacheOk_limit s _ h).1
  · unfold CRS.andThen at hs
    simp only [Option.map_eq_some_iff] at hs
    obtain ⟨r, _, rfl⟩ := hs; exact cacheOk_ofRS r
  · subst hs; exact cacheOk_ofRS _
  · subst hs; exact cacheOk_ofRS _

theorem runOps_cacheOk (s s' : CRS) (ops : List Op) (h : CacheOk s) (hs : runOps s ops = some s') :
    CacheOk s' := by
  induction ops generalizing s with
  | nil => simp [runOps] at hs; subst hs; exact h
  | cons op rest ih =>
    unfold runOps at hs
    cases ha : op.apply s with
    | none => simp [ha] at hs
    | some s1 => simp only [ha] at hs; exact ih s1 (op_cacheOk s s1 op h ha) hs

theorem rep_succ_true_append (n : Nat) (m : List Bool) :
    List.replicate n true ++ true :: m = List.replicate (n + 1) true ++ m := by
  rw [List.replicate_succ']; simp

theorem rep_succ_false_append (n : Nat) (m : List Bool) :
    List.replicate n false ++ false :: m = List.replicate (n + 1) false ++ m := by
  rw [List.replicate_succ']; simp

/-- `mask_to_selectors` over `set_slices`, generalised over the scan state -/
theorem m2s_slices (m : List Bool) (i lastEnd : Nat) (cur : Option Nat) (total : Nat)
    (ht : total = i + m.length) :
    (cur = none → lastEnd ≤ i →
      mask (m2sGo total (slicesGo m i none) lastEnd) = List.replicate (i - lastEnd) false ++ m) ∧
    (∀ st, cur = some st → lastEnd ≤ st → st ≤ i →
      mask (m2sGo total (slicesGo m i (some st)) lastEnd) =
        List.replicate (st - lastEnd) false ++ (List.replicate (i - st) true ++ m)) := by
  induction m generalizing i lastEnd cur with
  | nil =>
    simp at ht; subst ht
    constructor
    · intro _ hle
      simp only [slicesGo, m2sGo]
      split
      · simp
      · rename_i h; simp at h; subst h; simp
    · intro st _ h1 h2
      simp only [slicesGo, m2sGo, ne_eq, not_true_eq_false, if_false]
      split
      · simp
      · have : st = lastEnd := by omega
        subst this; simp
  | cons x m ih =>
    have ht' : total = (i + 1) + m.length := by simp at ht; omega
    cases x
    · constructor
      · intro _ hle
        simp only [slicesGo]
        rw [(ih (i + 1) lastEnd none ht').1 rfl (by omega)]
        rw [show i + 1 - lastEnd = (i - lastEnd) + 1 by omega, rep_succ_false_append]
      · intro st _ h1 h2
        simp only [slicesGo, m2sGo]
        rw [mask_append, mask_cons, (ih (i + 1) i none ht').1 rfl (by omega)]
        simp only [Bool.not_false, show i + 1 - i = 1 by omega]
        split
        · simp
        · have : st = lastEnd := by omega
          subst this; simp
    · constructor
      · intro _ hle
        simp only [slicesGo]
        rw [(ih (i + 1) lastEnd (some i) ht').2 i rfl hle (by omega)]
        simp [show i + 1 - i = 1 by omega]
      · intro st _ h1 h2
        simp only [slicesGo]
        rw [(ih (i + 1) lastEnd (some st) ht').2 st rfl h1 (by omega)]
        rw [show i + 1 - st = (i - st) + 1 by omega, rep_succ_true_append]

/-- **`mask_to_selectors` / `MaskRunIter`** denote the mask they were built from -/
theorem mask_maskToSelectors (m : List Bool) : mask (maskToSelectors m) = m := by
  unfold maskToSelectors slices
  split
  · rename_i h; have := List.length_eq_zero_iff.mp h; subst this; rfl
  · have := (m2s_slices m 0 0 none m.length (by simp)).1 rfl (by omega)
    simpa using this

theorem mask_dropWhile_zero (o : List Sel) : mask (o.dropWhile (fun s => s.1 = 0)) = mask o := by
  induction o with
  | nil => rfl
  | cons a r ih =>
    obtain ⟨n, k⟩ := a
    by_cases h : n = 0
    · subst h; simp [List.dropWhile, ih]
    · simp [List.dropWhile, h]

theorem dropWhile_head_ne (o : List Sel) (s : Sel) (r : List Sel)
    (h : o.dropWhile (fun s => s.1 = 0) = s :: r) : s.1 ≠ 0 := by
  induction o with
  | nil => simp at h
  | cons a t ih =>
    by_cases h0 : a.1 = 0
    · simp [List.dropWhile, h0] at h; exact ih h
    · simp [List.dropWhile, h0] at h; rw [← h.1]; exact h0

theorem atmsGo_spec (m : List Bool) (other : List Sel) (bits : List Bool) (rest : List Sel)
    (h : atmsGo m other = some (bits, rest)) :
    bits = compose m (mask other) ∧ mask rest = (mask other).drop (Spec.countTrue m) ∧
      Spec.countTrue m ≤ (mask other).length := by
  induction m generalizing other bits rest with
  | nil => simp [atmsGo] at h; obtain ⟨rfl, rfl⟩ := h; simp [Spec.countTrue]
  | cons x m ih =>
    cases x
    · simp only [atmsGo, Option.map_eq_some_iff] at h
      obtain ⟨⟨b1, r1⟩, h1, h2⟩ := h
      simp at h2; obtain ⟨rfl, rfl⟩ := h2
      obtain ⟨e1, e2, e3⟩ := ih other b1 r1 h1
      exact ⟨by simp [compose, e1], by simpa [Spec.countTrue] using e2, by simpa [Spec.countTrue] using e3⟩
    · unfold atmsGo at h
      split at h
      · simp at h
      · rename_i s r hd
        simp only [Option.map_eq_some_iff] at h
        obtain ⟨⟨b1, r1⟩, h1, h2⟩ := h
        simp at h2; obtain ⟨rfl, rfl⟩ := h2
        obtain ⟨n, k⟩ := s
        have hn : n ≠ 0 := dropWhile_head_ne other _ _ hd
        obtain ⟨e1, e2, e3⟩ := ih _ b1 r1 h1
        have hm : mask other = (!k) :: mask ((n - 1, k) :: r) := by
          rw [← mask_dropWhile_zero, hd, mask_cons, mask_cons]
          cases n with
          | zero => omega
          | succ n => simp [List.replicate_succ]
        rw [hm]
        refine ⟨by simp [compose, e1], by simpa [Spec.countTrue] using e2, ?_⟩
        change Spec.countTrue m ≤ (mask ((n - 1, k) :: r)).length at e3
        simp only [Spec.countTrue, List.length_cons]
        omega

theorem any_ne_zero_false (rest : List Sel) (h : rest.any (fun s => decide (s.1 ≠ 0)) = false) :
    mask rest = [] := by
  induction rest with
  | nil => rfl
  | cons a r ih =>
    obtain ⟨n, k⟩ := a
    simp at h
    obtain ⟨h1, h2⟩ := h
    subst h1
    simp; apply ih; simpa using h2

/-- **`and_then_mask_from_selectors`**: when it does not panic, `other` has exactly one row per
selected row of the mask and the result is the composition. -/
theorem andThenMaskFromSelectors_spec (m : List Bool) (other : List Sel) (out : List Bool)
    (h : andThenMaskFromSelectors m other = some out) :
    out = compose m (mask other) ∧ (mask other).length = Spec.countTrue m := by
  unfold andThenMaskFromSelectors at h
  split at h
  · simp at h
  · rename_i bits rest hg
    split at h
    · simp at h
    · rename_i hany
      simp at h; subst h
      obtain ⟨e1, e2, e3⟩ := atmsGo_spec m other _ rest hg
      refine ⟨e1, ?_⟩
      have hr : mask rest = [] := any_ne_zero_false rest (by
        cases hb : rest.any (fun s => decide (s.1 ≠ 0)) with
        | false => rfl
        | true => exact absurd hb hany)
      rw [hr] at e2
      have := congrArg List.length e2
      simp at this; omega

theorem bumpLast_snoc (len : Nat) (a : List Sel) (s : Sel) :
    bumpLast len (a ++ [s]) = a ++ [(s.1 + len, s.2)] := by
  induction a with
  | nil => simp [bumpLast]
  | cons x a ih =>
    cases h : a ++ [s] with
    | nil => simp at h
    | cons y t =>
      simp only [List.cons_append, h]
      unfold bumpLast
      rw [← h, ih]

/-- what `selectors` looks like inside `from_consecutive_ranges`: empty or ending in a select -/
def AccOk (acc : List Sel) : Prop := acc = [] ∨ ∃ a n, acc = a ++ [(n, false)]

theorem fcrGo_spec (total : Nat) (ranges : List (Nat × Nat)) (acc : List Sel) (lastEnd : Nat)
    (out : List Sel) (hacc : AccOk acc) (h : fcrGo total ranges acc lastEnd = some out) :
    mask out = mask acc ++ rangesBits total ranges lastEnd := by
  induction ranges generalizing acc lastEnd with
  | nil =>
    simp only [fcrGo, Option.some.injEq] at h
    subst h
    simp only [rangesBits]
    split
    · simp [mask_append]
    · rename_i h0; simp at h0; subst h0; simp
  | cons r rs ih =>
    obtain ⟨st, en⟩ := r
    simp only [fcrGo] at h
    simp only [rangesBits]
    split at h
    · rename_i h0; rw [if_pos h0]; exact ih acc lastEnd hacc h
    · rename_i h0
      rw [if_neg h0]
      split at h
      · rename_i heq; subst heq
        rcases hacc with rfl | ⟨a, n, rfl⟩
        · simp only [List.isEmpty_nil, if_true] at h
          rw [ih _ _ (Or.inr ⟨[], _, rfl⟩) h]; simp
        · have hne : (a ++ [(n, false)]).isEmpty = false := by simp
          simp only [hne, Bool.false_eq_true, if_false, bumpLast_snoc] at h
          rw [ih _ _ (Or.inr ⟨a, _, rfl⟩) h]
          simp only [mask_append, mask_cons, mask_nil, Bool.not_false, List.append_nil, List.append_assoc]
          simp only [Nat.sub_self, List.replicate_zero, List.append_nil, List.append_assoc, List.nil_append]
          rw [rep_add n (en - st) true, List.append_assoc]
      · split at h
        · rename_i hgt
          rw [ih _ _ (Or.inr ⟨acc ++ [skipS (st - lastEnd)], en - st, by simp⟩) h]
          simp [mask_append]
        · simp at h

/-- **`RowSelection::from_consecutive_ranges`**: whenever it does not panic the result denotes
exactly the rows inside the given ranges, over `total_rows` rows. -/
theorem mask_fromConsecutiveRanges (ranges : List (Nat × Nat)) (total : Nat) (out : List Sel)
    (h : fromConsecutiveRanges ranges total = some out) :
    mask out = rangesBits total ranges 0 := by
  have := fcrGo_spec total ranges [] 0 out (Or.inl rfl) h
  simpa using this

/-- `rangesBits` over the slices of one filter followed by `rest`, generalised over the
`SlicesIterator` scan state; `T` is what `rest` denotes from row `i + f.length` on -/
theorem rangesBits_slices (total : Nat) (rest : List (Nat × Nat)) (T : List Bool)
    (f : List Bool) (i : Nat)
    (hrest : ∀ le, le ≤ i + f.length →
      rangesBits total rest le = List.replicate (i + f.length - le) false ++ T) :
    (∀ le, le ≤ i →
      rangesBits total (slicesGo f i none ++ rest) le = List.replicate (i - le) false ++ (f ++ T)) ∧
    (∀ le st, le ≤ st → st ≤ i →
      rangesBits total (slicesGo f i (some st) ++ rest) le =
        List.replicate (st - le) false ++ (List.replicate (i - st) true ++ (f ++ T))) := by
  induction f generalizing i with
  | nil =>
    simp only [List.length_nil, Nat.add_zero] at hrest
    constructor
    · intro le hle
      simp [slicesGo, hrest le hle]
    · intro le st h1 h2
      simp only [slicesGo, List.cons_append, List.nil_append, rangesBits]
      split
      · rename_i h0
        have : st = i := by omega
        subst this
        simp [hrest le h1]
      · rw [hrest i (by omega)]; simp
  | cons x f ih =>
    have hrest' : ∀ le, le ≤ (i + 1) + f.length →
        rangesBits total rest le = List.replicate ((i + 1) + f.length - le) false ++ T := by
      intro le hle
      have := hrest le (by simp; omega)
      rw [this]; congr 2; simp; omega
    obtain ⟨ih1, ih2⟩ := ih (i + 1) hrest'
    cases x
    · constructor
      · intro le hle
        simp only [slicesGo]
        rw [ih1 le (by omega), show i + 1 - le = (i - le) + 1 by omega, List.cons_append,
          rep_succ_false_append]
      · intro le st h1 h2
        simp only [slicesGo, List.cons_append, rangesBits]
        split
        · rename_i h0
          have : st = i := by omega
          subst this
          rw [ih1 le (by omega)]
          simp only [Nat.sub_self, List.replicate_zero, List.nil_append]
          rw [show st + 1 - le = (st - le) + 1 by omega, rep_succ_false_append]
        · rw [ih1 i (by omega)]
          simp [show i + 1 - i = 1 by omega]
    · constructor
      · intro le hle
        simp only [slicesGo]
        rw [ih2 le i hle (by omega)]
        simp [show i + 1 - i = 1 by omega]
      · intro le st h1 h2
        simp only [slicesGo]
        rw [ih2 le st h1 (by omega), show i + 1 - st = (i - st) + 1 by omega, List.cons_append,
          rep_succ_true_append]

theorem foldl_len (fs : List (List Bool)) (a : Nat) :
    fs.foldl (fun a f => a + f.length) a = a + fs.flatten.length := by
  induction fs generalizing a with
  | nil => simp
  | cons f r ih => simp [ih]; omega

/-- the ranges `from_filters` feeds to `from_consecutive_ranges` denote the concatenated filters -/
theorem rangesBits_filterRanges (fs : List (List Bool)) (off total : Nat)
    (ht : total = off + fs.flatten.length) (le : Nat) (hle : le ≤ off) :
    rangesBits total (filterRanges fs off) le = List.replicate (off - le) false ++ fs.flatten := by
  induction fs generalizing off le with
  | nil =>
    simp at ht; subst ht
    simp [filterRanges, rangesBits]
  | cons f r ih =>
    simp only [filterRanges, slices, List.flatten_cons]
    have ht' : total = (off + f.length) + r.flatten.length := by
      simp only [List.flatten_cons, List.length_append] at ht; omega
    have := (rangesBits_slices total (filterRanges r (off + f.length)) r.flatten f off
      (fun le' hle' => ih (off + f.length) ht' le' hle')).1 le hle
    rw [this]

/-- **`RowSelection::from_filters`** denotes the concatenation of the filters -/
theorem mask_fromFilters (fs : List (List Bool)) (out : List Sel) (h : fromFilters fs = some out) :
    mask out = fs.flatten := by
  unfold fromFilters at h
  have := mask_fromConsecutiveRanges _ _ out h
  rw [this, foldl_len, rangesBits_filterRanges fs 0 _ (by simp) 0 (by omega)]
  simp

/-- `BooleanArray::take_n_true(n)` keeps the length and exactly the first `n` set positions -/
theorem takeNTrue_spec (f : List Bool) (n b : Nat) :
    (takeNTrue f n).length = f.length ∧ trueIdx b (takeNTrue f n) = (trueIdx b f).take n := by
  induction f generalizing n b with
  | nil => simp [takeNTrue, trueIdx]
  | cons x f ih =>
    cases x
    · simp [takeNTrue, trueIdx, (ih n (b + 1)).1, (ih n (b + 1)).2]
    · cases n with
      | zero => simp [takeNTrue, trueIdx, (ih 0 (b + 1)).1, (ih 0 (b + 1)).2]
      | succ n => simp [takeNTrue, trueIdx, (ih n (b + 1)).1, (ih n (b + 1)).2]

/-- the filter-collection loop of `with_predicate_options` without a limit: the filters,
concatenated, are the predicate evaluated on the rows the reader delivered, in order -/
theorem predLoop_none (pred : Nat → Bool) (batches : List (List Nat)) (matched processed : Nat) :
    (predLoop pred none batches matched processed).1.flatten = batches.flatten.map pred ∧
    (predLoop pred none batches matched processed).2 = processed + batches.flatten.length := by
  induction batches generalizing matched processed with
  | nil => simp [predLoop]
  | cons b r ih =>
    simp only [predLoop, List.flatten_cons, List.map_append, List.length_append]
    obtain ⟨h1, h2⟩ := ih (matched + countTrue (b.map pred)) (processed + b.length)
    exact ⟨by rw [h1], by rw [h2]; omega⟩

/-- composing a selection with "the predicate evaluated at its selected rows" keeps exactly
the selected rows where the predicate holds -/
theorem trueIdx_compose_pred (a : List Bool) (b : Nat) (pred : Nat → Bool) :
    trueIdx b (compose a ((trueIdx b a).map pred)) = (trueIdx b a).filter pred := by
  induction a generalizing b with
  | nil => simp [trueIdx]
  | cons x a ih =>
    cases x
    · simp only [trueIdx, compose]; exact ih (b + 1)
    · simp only [trueIdx, List.map_cons, compose, List.filter_cons]
      cases hp : pred b
      · simp only [trueIdx, Bool.false_eq_true, if_false]; exact ih (b + 1)
      · simp only [trueIdx, if_true]; rw [ih (b + 1)]
end ArrowModel.C06
