import ArrowModel.Generated.C06
/-
C06 — algorithm model of `parquet/src/arrow/arrow_reader/selection/*.rs`, `read_plan.rs`,
the reader loop of `arrow_reader/mod.rs` and `RowBudget`/`RowGroupFrontier` of the push
decoder.  Functions mirror the Rust as written: `&mut` state becomes arguments / results,
`peek_mut` + in-place `row_count -=` becomes "replace the head of the list", loops become
recursion, a Rust `panic!/expect/assert!` becomes `none`.  `usize` is modelled by `Nat`
(no overflow: `checked_add(..).unwrap()` never fires on realistic row counts).
-/
namespace ArrowModel.C06
open ArrowModel.Generated.C06

/-- `RowSelector { row_count, skip }` -/
abbrev Sel := Nat × Bool

/-- `RowSelector::skip(n)` -/
@[reducible] def skipS (n : Nat) : Sel := (n, true)
/-- `RowSelector::select(n)` -/
@[reducible] def selS (n : Nat) : Sel := (n, false)

/-- Σ row_count -/
def sumN : List Sel → Nat
  | [] => 0
  | s :: r => s.1 + sumN r

/-! ### `impl FromIterator<RowSelector> for RowSelection` (also `From<Vec<RowSelector>>`) -/

/-- the `for s in filtered` loop; `last` is `selectors.last_mut()` -/
def normGo (last : Sel) : List Sel → List Sel
  | [] => [last]
  | s :: r =>
    if s.1 = 0 then normGo last r
    else if last.2 = s.2 then normGo (last.1 + s.1, last.2) r
    else last :: normGo s r

/-- `RowSelection::from_iter`: drop zero-length selectors, merge neighbours of equal kind -/
def fromIter : List Sel → List Sel
  | [] => []
  | s :: r => if s.1 = 0 then fromIter r else normGo s r

/-! ### `RowSelection::from_consecutive_ranges`, `from_filters` -/

/-- `last.row_count += len` on `selectors.last_mut()` -/
def bumpLast (len : Nat) : List Sel → List Sel
  | [] => []
  | [s] => [(s.1 + len, s.2)]
  | s :: r => s :: bumpLast len r

/-- loop of `from_consecutive_ranges` (`acc` = `selectors`, in order); `none` = `panic!("out of order")` -/
def fcrGo (total : Nat) : List (Nat × Nat) → List Sel → Nat → Option (List Sel)
  | [], acc, lastEnd => some (if lastEnd ≠ total then acc ++ [skipS (total - lastEnd)] else acc)
  | (st, en) :: r, acc, lastEnd =>
    let len := en - st
    if len = 0 then fcrGo total r acc lastEnd
    else if st = lastEnd then
      fcrGo total r (if acc.isEmpty then [selS len] else bumpLast len acc) en
    else if st > lastEnd then fcrGo total r (acc ++ [skipS (st - lastEnd), selS len]) en
    else none

/-- `RowSelection::from_consecutive_ranges(ranges, total_rows)` -/
def fromConsecutiveRanges (ranges : List (Nat × Nat)) (total : Nat) : Option (List Sel) :=
  fcrGo total ranges [] 0

/-- `SlicesIterator` / `BooleanBuffer::set_slices`: maximal runs of `true` as `(start, end)`.
`cur` = open run start, `i` = current index. -/
def slicesGo : List Bool → Nat → Option Nat → List (Nat × Nat)
  | [], i, some st => [(st, i)]
  | [], _, none => []
  | true :: m, i, some st => slicesGo m (i + 1) (some st)
  | true :: m, i, none => slicesGo m (i + 1) (some i)
  | false :: m, i, some st => (st, i) :: slicesGo m (i + 1) none
  | false :: m, i, none => slicesGo m (i + 1) none

def slices (m : List Bool) (base : Nat := 0) : List (Nat × Nat) := slicesGo m base none

/-- the `flat_map` of `from_filters`: slices of each filter shifted by the running offset -/
def filterRanges : List (List Bool) → Nat → List (Nat × Nat)
  | [], _ => []
  | f :: r, off => slices f off ++ filterRanges r (off + f.length)

/-- `RowSelection::from_filters` (filters without nulls) -/
def fromFilters (fs : List (List Bool)) : Option (List Sel) :=
  fromConsecutiveRanges (filterRanges fs 0) (fs.foldl (fun a f => a + f.length) 0)

/-! ### mask ↔ selectors -/

/-- loop of `mask_to_selectors` over `set_slices` -/
def m2sGo (total : Nat) : List (Nat × Nat) → Nat → List Sel
  | [], lastEnd => if lastEnd ≠ total then [skipS (total - lastEnd)] else []
  | (st, en) :: r, lastEnd =>
    (if st > lastEnd then [skipS (st - lastEnd)] else []) ++ selS (en - st) :: m2sGo total r en

/-- `mask_to_selectors` and `MaskRunIter` (both yield the same run sequence) -/
def maskToSelectors (m : List Bool) : List Sel :=
  if m.length = 0 then [] else m2sGo m.length (slices m) 0

/-- `boolean_mask_from_selectors` -/
def selectorsToMask : List Sel → List Bool
  | [] => []
  | s :: r => List.replicate s.1 (!s.2) ++ selectorsToMask r

/-! ### `and_then` (algebra.rs) -/

/-- the trailing `for v in first` loop of `and_then_iter`; `none` = the `assert!(v.skip)` -/
def andThenTail (toSkip : Nat) : List Sel → Option Nat
  | [] => some toSkip
  | v :: r =>
    if v.1 = 0 then andThenTail toSkip r
    else if v.2 then andThenTail (toSkip + v.1) r
    else none

/-- `and_then_iter`; result = the selectors pushed; `none` = a panic -/
def andThenGo : List Sel → List Sel → Nat → Option (List Sel)
  | first, [], toSkip =>
    (andThenTail toSkip first).map (fun t => if t ≠ 0 then [skipS t] else [])
  | [], _ :: _, _ => none
  | a :: fr, b :: sr, toSkip =>
    if b.1 = 0 then andThenGo (a :: fr) sr toSkip
    else if a.1 = 0 then andThenGo fr (b :: sr) toSkip
    else if a.2 then andThenGo fr (b :: sr) (toSkip + a.1)
    else
      let p := min a.1 b.1
      if b.2 then andThenGo ((a.1 - p, a.2) :: fr) ((b.1 - p, b.2) :: sr) (toSkip + p)
      else
        (andThenGo ((a.1 - p, a.2) :: fr) ((b.1 - p, b.2) :: sr) 0).map
          (fun out => (if toSkip ≠ 0 then [skipS toSkip] else []) ++ selS p :: out)
termination_by first second _ => first.length + second.length + sumN first + sumN second
decreasing_by
  all_goals simp only [List.length_cons, sumN]
  all_goals omega

/-- `and_then_row_selections` / `and_then_selectors_with_mask` -/
def andThenSel (first second : List Sel) : Option (List Sel) := andThenGo first second 0

/-- `and_then_mask_from_selectors`: walk the mask; every set bit consumes one row of `other`.
Result `(bits, rest of other)`; `none` = "selection contains less …". -/
def atmsGo : List Bool → List Sel → Option (List Bool × List Sel)
  | [], other => some ([], other)
  | false :: m, other => (atmsGo m other).map (fun r => (false :: r.1, r.2))
  | true :: m, other =>
    match other.dropWhile (fun s => s.1 = 0) with
    | [] => none
    | s :: r => (atmsGo m ((s.1 - 1, s.2) :: r)).map (fun q => ((!s.2) :: q.1, q.2))

def andThenMaskFromSelectors (m : List Bool) (other : List Sel) : Option (List Bool) :=
  match atmsGo m other with
  | none => none
  | some (bits, rest) => if rest.any (fun s => s.1 ≠ 0) then none else some bits

def countTrue : List Bool → Nat
  | [] => 0
  | true :: m => countTrue m + 1
  | false :: m => countTrue m

/-- main loop of `and_then_masks` (after the fast paths): scatter `other` onto the set bits -/
def scatter : List Bool → List Bool → List Bool
  | [], _ => []
  | false :: m, o => false :: scatter m o
  | true :: m, [] => false :: scatter m []
  | true :: m, x :: o => x :: scatter m o

/-- `and_then_masks` -/
def andThenMasks (m other : List Bool) : Option (List Bool) :=
  let selected := countTrue m
  if other.length ≠ selected then none
  else if countTrue other = 0 then some (List.replicate m.length false)
  else if countTrue other = selected then some m
  else some (scatter m other)

/-! ### `intersection`, `union` (algebra.rs) -/

/-- the `from_fn` closure of `intersect_row_selections`: the stream of yielded selectors -/
def interGo : List Sel → List Sel → List Sel
  | [], [] => []
  | [], b :: rr => if b.1 = 0 then interGo [] rr else b :: interGo [] rr
  | a :: lr, [] => if a.1 = 0 then interGo lr [] else a :: interGo lr []
  | a :: lr, b :: rr =>
    if a.1 = 0 then interGo lr (b :: rr)
    else if b.1 = 0 then interGo (a :: lr) rr
    else if !a.2 && !b.2 then
      if a.1 < b.1 then a :: interGo lr ((b.1 - a.1, b.2) :: rr)
      else b :: interGo ((a.1 - b.1, a.2) :: lr) rr
    else
      if a.1 < b.1 then skipS a.1 :: interGo lr ((b.1 - a.1, b.2) :: rr)
      else skipS b.1 :: interGo ((a.1 - b.1, a.2) :: lr) rr
termination_by l r => l.length + r.length
decreasing_by all_goals simp only [List.length_cons, List.length_nil]; all_goals omega

/-- `intersect_row_selections` = closure stream `.collect()` (i.e. through `from_iter`) -/
def intersectSel (l r : List Sel) : List Sel := fromIter (interGo l r)

/-- the `from_fn` closure of `union_row_selections` -/
def unionGo : List Sel → List Sel → List Sel
  | [], [] => []
  | [], b :: rr => if b.1 = 0 then unionGo [] rr else b :: unionGo [] rr
  | a :: lr, [] => if a.1 = 0 then unionGo lr [] else a :: unionGo lr []
  | a :: lr, b :: rr =>
    if a.1 = 0 then unionGo lr (b :: rr)
    else if b.1 = 0 then unionGo (a :: lr) rr
    else if a.2 && b.2 then
      if a.1 < b.1 then skipS a.1 :: unionGo lr ((b.1 - a.1, b.2) :: rr)
      else skipS b.1 :: unionGo ((a.1 - b.1, a.2) :: lr) rr
    else if !a.2 && b.2 then
      if a.1 < b.1 then a :: unionGo lr ((b.1 - a.1, b.2) :: rr)
      else selS b.1 :: unionGo ((a.1 - b.1, a.2) :: lr) rr
    else if a.2 && !b.2 then
      if a.1 < b.1 then selS a.1 :: unionGo lr ((b.1 - a.1, b.2) :: rr)
      else b :: unionGo ((a.1 - b.1, a.2) :: lr) rr
    else
      if a.1 < b.1 then a :: unionGo lr ((b.1 - a.1, b.2) :: rr)
      else b :: unionGo ((a.1 - b.1, a.2) :: lr) rr
termination_by l r => l.length + r.length
decreasing_by all_goals simp only [List.length_cons, List.length_nil]; all_goals omega

/-- `union_row_selections` -/
def unionSel (l r : List Sel) : List Sel := fromIter (unionGo l r)

/-- `intersect_masks` / `union_masks`: bitwise on the common prefix, the longer side's tail
passes through (the word-level kernels `from_bitwise_binary_op`/`apply_bitwise_binary_op`
are C19's subject; here they are their bit-level meaning) -/
def combineMasks (f : Bool → Bool → Bool) : List Bool → List Bool → List Bool
  | [], b => b
  | a, [] => a
  | x :: a, y :: b => f x y :: combineMasks f a b

/-! ### `split_off`, `offset`, `limit`, `trim` — selector backing (selector.rs) -/

/-- `split_off_selectors`; `k` = `row_count - total_count` so far (rows still to go to the
head): the `position` closure stops at the first selector with `total_count > row_count`,
i.e. `s.row_count > k`; `overflow = s.row_count - k`. -/
def splitOffSel : List Sel → Nat → List Sel × List Sel
  | [], _ => ([], [])
  | s :: r, k =>
    if s.1 > k then
      ((if s.1 ≠ s.1 - k then [(s.1 - (s.1 - k), s.2)] else []), (s.1 - k, s.2) :: r)
    else
      let ht := splitOffSel r (k - s.1)
      (s :: ht.1, ht.2)

/-- the `position` closure + rebuild of `offset_selectors`
(`sel` = `selected_count`, `skp` = `skipped_count`) -/
def offsetGo (offset : Nat) : List Sel → Nat → Nat → List Sel
  | [], _, _ => []
  | s :: r, sel, skp =>
    if s.2 then offsetGo offset r sel (skp + s.1)
    else if sel + s.1 > offset then skipS (skp + offset) :: selS (sel + s.1 - offset) :: r
    else offsetGo offset r (sel + s.1) skp

/-- `RowSelection::offset` on selectors -/
def offsetSel (s : List Sel) (offset : Nat) : List Sel :=
  if offset = 0 then s else offsetGo offset s 0 0

/-- loop of `limit_selectors` -/
def limitGo : List Sel → Nat → List Sel
  | [], _ => []
  | s :: r, lim =>
    if !s.2 then
      if s.1 ≥ lim then [(lim, s.2)] else s :: limitGo r (lim - s.1)
    else s :: limitGo r lim

/-- `limit_selectors` -/
def limitSel (s : List Sel) (limit : Nat) : List Sel :=
  if limit = 0 then [] else limitGo s limit

/-- `RowSelection::trim` on selectors: pop trailing skips -/
def trimSel : List Sel → List Sel
  | [] => []
  | s :: r =>
    match trimSel r with
    | [] => if s.2 then [] else [s]
    | t => s :: t

/-! ### the same — mask backing (boolean.rs) -/

/-- `split_off_mask` -/
def splitOffMask (m : List Bool) (k : Nat) : List Bool × List Bool :=
  if k ≥ m.length then (m, []) else (m.take k, m.drop k)

/-- `BooleanBuffer::find_nth_set_bit_position(0, n)` relative to the list head:
one past the `n`-th set bit, `len` if there are fewer, `0` for `n = 0` -/
def findNth : List Bool → Nat → Nat
  | _, 0 => 0
  | [], _ => 0
  | true :: m, n + 1 => findNth m n + 1
  | false :: m, n + 1 => findNth m (n + 1) + 1

/-- `offset_mask` (with `popcount = count_set_bits`) -/
def offsetMask (m : List Bool) (offset : Nat) : List Bool :=
  if offset ≥ countTrue m then []
  else
    let pos := findNth m offset
    List.replicate pos false ++ m.drop pos

/-- `limit_mask` -/
def limitMask (m : List Bool) (limit : Nat) : List Bool := m.take (findNth m limit)

/-- `trim_mask` applied (None = unchanged) -/
def trimMask : List Bool → List Bool
  | [] => []
  | x :: m =>
    match trimMask m with
    | [] => if x then [true] else []
    | t => x :: t

/-! ### `RowSelection` with its two backings (mod.rs) -/

inductive RS where
  | sels : List Sel → RS
  | bits : List Bool → RS

def RS.toSelectors : RS → List Sel
  | .sels s => s
  | .bits m => maskToSelectors m

/-- `RowSelection::and_then` — dispatch on backings -/
def RS.andThen : RS → RS → Option RS
  | .bits m, .bits o => (andThenMasks m o).map .bits
  | .bits m, .sels o => (andThenMaskFromSelectors m o).map .bits
  | .sels f, .sels s => (andThenSel f s).map .sels
  | .sels f, .bits s => (andThenSel f (maskToSelectors s)).map .sels

/-- `RowSelection::intersection` -/
def RS.intersection : RS → RS → RS
  | .bits l, .bits r => .bits (combineMasks (· && ·) l r)
  | l, r => .sels (intersectSel l.toSelectors r.toSelectors)

/-- `RowSelection::union` -/
def RS.union : RS → RS → RS
  | .bits l, .bits r => .bits (combineMasks (· || ·) l r)
  | l, r => .sels (unionSel l.toSelectors r.toSelectors)

/-- `RowSelection::split_off` → (returned head, remaining self) -/
def RS.splitOff : RS → Nat → RS × RS
  | .sels s, k => let ht := splitOffSel s k; (.sels ht.1, .sels ht.2)
  | .bits m, k => let ht := splitOffMask m k; (.bits ht.1, .bits ht.2)

def RS.offset : RS → Nat → RS
  | s, 0 => s
  | .sels s, k => .sels (offsetSel s k)
  | .bits m, k => .bits (offsetMask m k)

def RS.limit : RS → Nat → RS
  | .sels s, k => .sels (limitSel s k)
  | .bits m, k => .bits (limitMask m k)

def RS.trim : RS → RS
  | .sels s => .sels (trimSel s)
  | .bits m => .bits (trimMask m)

/-- `row_count` -/
def RS.rowCount : RS → Nat
  | .sels s => sumN (s.filter (fun x => !x.2))
  | .bits m => countTrue m

/-- `total_row_count` -/
def RS.totalRowCount : RS → Nat
  | .sels s => sumN s
  | .bits m => m.length

/-- `skipped_row_count` -/
def RS.skippedRowCount : RS → Nat
  | .sels s => sumN (s.filter (fun x => x.2))
  | .bits m => m.length - countTrue m

/-- `selects_any` -/
def RS.selectsAny : RS → Bool
  | .sels s => s.any (fun x => !x.2)
  | .bits m => decide (countTrue m > 0)

def RS.isMask : RS → Bool
  | .bits _ => true
  | .sels _ => false

/-- `selection.is_some_and(|s| !s.selects_any())` -/
def nothingSelected : Option RS → Bool
  | some s => !s.selectsAny
  | none => false

/-- `selection.is_some_and(|s| s.row_count() == 0)` -/
def zeroRows : Option RS → Bool
  | some s => s.rowCount == 0
  | none => false

/-- `PartialEq for RowSelection`, mixed-backing arm: walk selectors against `set_slices` -/
def eqMixedGo : List Sel → List (Nat × Nat) → Nat → Bool
  | [], sl, _ => sl.isEmpty
  | s :: r, sl, cursor =>
    let en := cursor + s.1
    if s.2 then
      match sl with
      | (st, _) :: _ => if st < en then false else eqMixedGo r sl en
      | [] => eqMixedGo r sl en
    else
      match sl with
      | (st, se) :: sl' => if st = cursor ∧ se = en then eqMixedGo r sl' en else false
      | [] => false

def RS.eq : RS → RS → Bool
  | .sels a, .sels b => a == b
  | .bits a, .bits b => a == b
  | .bits m, .sels s | .sels s, .bits m =>
    if sumN s ≠ m.length then false else eqMixedGo s (slices m) 0

/-- `impl FromIterator<RowSelection> for RowSelection` (concatenation) -/
def RS.concat (items : List RS) : RS :=
  if items.all RS.isMask then
    .bits (items.flatMap (fun | .bits m => m | .sels _ => []))
  else .sels (fromIter (items.flatMap RS.toSelectors))

/-! ### the cached selected-row count of the mask backing (`MaskSelection::count: OnceLock<usize>`)

`CRS` is `RowSelection` with the cache made explicit: every operation reads / propagates the
cached value exactly where the Rust does (`cached_count()`, `count()`, `with_count(..)`), so a
wrong propagation would surface as a wrong `row_count()` later in the operation history. -/

/-- `MaskSelection { mask, count }` (`cache = some c` ⇔ the `OnceLock` is initialised) -/
structure MaskSel where
  m : List Bool
  cache : Option Nat

/-- `RowSelectionInner` with the count cache -/
inductive CRS where
  | sels : List Sel → CRS
  | bits : MaskSel → CRS

/-- forget the cache -/
def CRS.toRS : CRS → RS
  | .sels s => .sels s
  | .bits ms => .bits ms.m

/-- `RowSelection::from_boolean_buffer` / `From<Vec<RowSelector>>` (cache cold) -/
def CRS.ofRS : RS → CRS
  | .sels s => .sels s
  | .bits m => .bits ⟨m, none⟩

/-- `MaskSelection::count()`: `get_or_init(|| mask.count_set_bits())` → (value, warmed self) -/
def MaskSel.count (ms : MaskSel) : Nat × MaskSel :=
  match ms.cache with
  | some c => (c, ms)
  | none => (countTrue ms.m, ⟨ms.m, some (countTrue ms.m)⟩)

/-- `row_count()` → (value, self afterwards) -/
def CRS.rowCount : CRS → Nat × CRS
  | .sels s => (sumN (s.filter (fun x => !x.2)), .sels s)
  | .bits ms => let r := ms.count; (r.1, .bits r.2)

/-- `skipped_row_count()` = `mask.len() - m.count()` -/
def CRS.skippedRowCount : CRS → Nat × CRS
  | .sels s => (sumN (s.filter (fun x => x.2)), .sels s)
  | .bits ms => let r := ms.count; (ms.m.length - r.1, .bits r.2)

/-- `selects_any()`: cached count if present, else scan (does not initialise the cache) -/
def CRS.selectsAny : CRS → Bool
  | .sels s => s.any (fun x => !x.2)
  | .bits ms =>
    match ms.cache with
    | some c => decide (c > 0)
    | none => ms.m.any id

/-- `RowSelection::split_off`, mask arm with the popcount bookkeeping -/
def CRS.splitOff : CRS → Nat → CRS × CRS
  | .sels s, k => let ht := splitOffSel s k; (.sels ht.1, .sels ht.2)
  | .bits ms, k =>
    let ht := splitOffMask ms.m k
    match ms.cache with
    | some total =>
      let headCount := if ht.2.isEmpty then total else countTrue ht.1
      (.bits ⟨ht.1, some headCount⟩, .bits ⟨ht.2, some (total - headCount)⟩)
    | none => (.bits ⟨ht.1, none⟩, .bits ⟨ht.2, none⟩)

/-- `RowSelection::offset` (mask arm: `count()` then `with_count(.., count.saturating_sub(offset))`) -/
def CRS.offset : CRS → Nat → CRS
  | s, 0 => s
  | .sels s, k => .sels (offsetSel s k)
  | .bits ms, k => let c := ms.count.1; .bits ⟨offsetMask ms.m k, some (c - k)⟩

/-- `RowSelection::limit` (mask arm keeps `count.min(limit)` when cached) -/
def CRS.limit : CRS → Nat → CRS
  | .sels s, k => .sels (limitSel s k)
  | .bits ms, k => .bits ⟨limitMask ms.m k, ms.cache.map (fun c => min c k)⟩

/-- `RowSelection::trim` (count unchanged) -/
def CRS.trim : CRS → CRS
  | .sels s => .sels (trimSel s)
  | .bits ms => .bits ⟨trimMask ms.m, ms.cache⟩

/-- `and_then` / `intersection` / `union`: results are built with a cold cache -/
def CRS.andThen (a b : CRS) : Option CRS := (a.toRS.andThen b.toRS).map CRS.ofRS
def CRS.intersection (a b : CRS) : CRS := CRS.ofRS (a.toRS.intersection b.toRS)
def CRS.union (a b : CRS) : CRS := CRS.ofRS (a.toRS.union b.toRS)

/-! ### `scan_ranges` (ranges.rs) -/

/-- `scan_ranges_from_selectors`.  Pages are given by their `first_row_index`; the result is
the list of page *indexes* pushed (the Rust pushes that page's byte range).
State: `cur` = `current_selector` (mutable count), `rest` = remaining selectors,
`pageIdx`/`pages` = `current_page` and the pages after it, `inc` = `current_page_included`. -/
def scanGo : Sel → List Sel → Nat → List Nat → Nat → Bool → List Nat
  | cur, rest, pageIdx, pages, rowOffset, inc =>
    let push1 := !(cur.2 || inc)
    let inc1 := inc || push1
    let out1 := if push1 then [pageIdx] else []
    match pages with
    | nextFirst :: pages' =>
      if rowOffset + cur.1 > nextFirst then
        let remaining := nextFirst - rowOffset
        out1 ++ scanGo (cur.1 - remaining, cur.2) rest (pageIdx + 1) pages' (rowOffset + remaining) false
      else
        let moved := rowOffset + cur.1 = nextFirst
        match rest with
        | [] => out1
        | c :: rest' =>
          out1 ++ (if moved then scanGo c rest' (pageIdx + 1) pages' (rowOffset + cur.1) false
                   else scanGo c rest' pageIdx (nextFirst :: pages') (rowOffset + cur.1) inc1)
    | [] =>
      -- last page: the second `if !(selector.skip || current_page_included)` (same flag value)
      let out2 := if !(cur.2 || inc1) then [pageIdx] else []
      match rest with
      | [] => out1 ++ out2
      | c :: rest' => out1 ++ out2 ++ scanGo c rest' pageIdx [] rowOffset inc1
termination_by _ rest _ pages _ _ => rest.length + pages.length
decreasing_by
  all_goals simp only [List.length_cons, List.length_nil]
  all_goals omega

/-- `RowSelection::scan_ranges` as page indexes; `firstRows` = `first_row_index` of each page -/
def scanRanges (s : List Sel) (firstRows : List Nat) : List Nat :=
  match s, firstRows with
  | c :: rest, _ :: pages => scanGo c rest 0 pages 0 false
  | _, _ => []

/-! ### execution: cursors and the reader loop (cursor.rs, mod.rs `next_inner`) -/

/-- `auto_selection_strategy(threshold)` → `true` = Mask strategy -/
def autoIsMask (s : RS) (threshold : Nat) : Bool :=
  match s with
  | .sels sel =>
    let nz := sel.filter (fun x => x.1 > 0)
    let total := sumN nz
    let cnt := nz.length
    if cnt = 0 then true else decide (total < cnt * threshold)
  | .bits m =>
    if m.length = 0 then true
    else if threshold = 0 then false
    else
      let minRuns := m.length / threshold + 1
      decide ((maskToSelectors m).length ≥ minRuns)

/-- `RowSelectionPolicy` -/
inductive Policy where
  | selectors
  | mask
  | auto (threshold : Nat)

/-- `resolve_selection_strategy` → `true` = Mask -/
def resolveIsMask (p : Policy) (sel : Option RS) : Bool :=
  match p with
  | .selectors => false
  | .mask => true
  | .auto t =>
    match sel with
    | none => false
    | some s => autoIsMask s t

/-- result of one `next_inner` call on the selector cursor -/
structure SelStep where
  rows : List Nat
  sels : List Sel
  pos : Nat

/-- the `while read_records < batch_size && !selectors_cursor.is_empty()` loop of
`next_inner`.  The array reader is an abstract tape of `total` rows at position `pos`:
`skip_records(n)`/`read_records(n)` advance by `min n (total - pos)`; reading appends the
row ids to `buf`.  `none` = the "failed to skip rows" error. -/
def selLoop (b total : Nat) : List Sel → Nat → List Nat → Option SelStep
  | [], pos, buf => some ⟨buf, [], pos⟩
  | front :: rest, pos, buf =>
    if buf.length ≥ b then some ⟨buf, front :: rest, pos⟩
    else if front.2 then
      let skipped := min front.1 (total - pos)
      if skipped ≠ front.1 then none else selLoop b total rest (pos + skipped) buf
    else if front.1 = 0 then selLoop b total rest pos buf
    else
      let need := b - buf.length
      if front.1 > need then
        -- `return_selector(select(remaining))`, read `need_read`
        let rec_ := min need (total - pos)
        if rec_ = 0 then some ⟨buf, selS (front.1 - need) :: rest, pos⟩
        else selLoop b total (selS (front.1 - need) :: rest) (pos + rec_) (buf ++ List.range' pos rec_)
      else
        let rec_ := min front.1 (total - pos)
        if rec_ = 0 then some ⟨buf, rest, pos⟩
        else selLoop b total rest (pos + rec_) (buf ++ List.range' pos rec_)
termination_by sels _ _ => sumN sels + sels.length
decreasing_by
  all_goals simp only [List.length_cons, sumN]
  all_goals omega

/-- `MaskCursor::next_mask_chunk_non_empty` on the not-yet-consumed part of the mask:
`(initial_skip, chunk bits, rest)`; the chunk ends once `b` rows are selected -/
def takeSelected : List Bool → Nat → List Bool × List Bool
  | [], _ => ([], [])
  | x :: m, need =>
    if need = 0 then ([], x :: m)
    else
      let r := takeSelected m (if x then need - 1 else need)
      (x :: r.1, r.2)

def nextMaskChunk (rem : List Bool) (b : Nat) : Nat × List Bool × List Bool :=
  let skip := (rem.takeWhile (fun x => !x)).length
  let r := takeSelected (rem.drop skip) b
  (skip, r.1, r.2)

/-- keep the rows of `rows` whose mask bit is set (`filter_record_batch`) -/
def filterRows : List Nat → List Bool → List Nat
  | r :: rows, true :: m => r :: filterRows rows m
  | _ :: rows, false :: m => filterRows rows m
  | _, _ => []

structure MaskStep where
  rows : List Nat
  rem : List Bool
  pos : Nat

/-- `read_mask_batch` (without loaded row ranges): loop `while selected_rows < batch_size &&
!mask_cursor.is_empty()`; `acc`/`accMask` = rows buffered by the array reader and the
`FilterMaskAccumulator`.  `none` = one of its errors. -/
def maskLoop (b total : Nat) : (fuel : Nat) → List Bool → Nat → Nat → List Nat → List Bool → Option MaskStep
  | 0, rem, pos, _, acc, accMask => some ⟨filterRows acc accMask, rem, pos⟩
  | fuel + 1, rem, pos, selected, acc, accMask =>
    if selected ≥ b ∨ rem.isEmpty then some ⟨filterRows acc accMask, rem, pos⟩
    else
      let ch := nextMaskChunk rem (b - selected)
      let skipped := min ch.1 (total - pos)
      if skipped ≠ ch.1 then none
      else
        let pos1 := pos + skipped
        let rd := min ch.2.1.length (total - pos1)
        if rd ≠ ch.2.1.length ∨ rd = 0 then none
        else maskLoop b total fuel ch.2.2 (pos1 + rd) (selected + countTrue ch.2.1)
               (acc ++ List.range' pos1 rd) (accMask ++ ch.2.1)

/-- the cursor a `ReadPlan` is built with -/
inductive Cursor where
  | all
  | selectors (s : List Sel)
  | mask (rem : List Bool)

/-- `ReadPlanBuilder::build`: empty selection → `[]`; trim; lower to the strategy's cursor -/
def buildCursor (p : Policy) (sel : Option RS) : Cursor :=
  let sel := match sel with
    | some s => if s.selectsAny then some s else some (.sels [])
    | none => none
  let isMask := resolveIsMask p sel
  match sel with
  | none => .all
  | some s =>
    match isMask, s.trim with
    | true, .bits m => .mask m
    | true, .sels x => .mask (selectorsToMask x)
    | false, .sels x => .selectors x
    | false, .bits m => .selectors (maskToSelectors m)

/-- iterate `next_inner` until it returns `None`; `fuel` bounds the number of batches (the
Rust `for batch in reader` has no structural measure; every batch consumes ≥ 1 row).
Returns the batches (row ids on the tape).  `none` = an `Err` item. -/
def readAll (b total : Nat) : (fuel : Nat) → Cursor → Nat → Option (List (List Nat))
  | 0, _, _ => some []
  | fuel + 1, cur, pos =>
    if b = 0 then some []
    else match cur with
      | .all =>
        let rec_ := min b (total - pos)
        if rec_ = 0 then some []
        else (readAll b total fuel .all (pos + rec_)).map (List.range' pos rec_ :: ·)
      | .selectors s =>
        match selLoop b total s pos [] with
        | none => none
        | some st =>
          if st.rows.isEmpty then some []
          else (readAll b total fuel (.selectors st.sels) st.pos).map (st.rows :: ·)
      | .mask rem =>
        match maskLoop b total (rem.length + 1) rem pos 0 [] [] with
        | none => none
        | some st =>
          if st.rows.isEmpty then some []
          else (readAll b total fuel (.mask st.rem) st.pos).map (st.rows :: ·)

/-- `ParquetRecordBatchReader::new(array_reader, plan)` drained: batches of tape row ids -/
def runReader (b total : Nat) (p : Policy) (sel : Option RS) : Option (List (List Nat)) :=
  readAll b total (total + 2) (buildCursor p sel) 0

/-! ### predicates (`ReadPlanBuilder::with_predicate_options`) -/

/-- `BooleanArray::take_n_true(n)`: keep the first `n` trues, same length -/
def takeNTrue : List Bool → Nat → List Bool
  | [], _ => []
  | true :: m, 0 => false :: takeNTrue m 0
  | true :: m, n + 1 => true :: takeNTrue m n
  | false :: m, n => false :: takeNTrue m n

/-- the `for maybe_batch in reader` loop: `(filters, processed_rows)`;
`pred i` = predicate value (null → false) for tape row `i` -/
def predLoop (pred : Nat → Bool) (limit : Option Nat) :
    List (List Nat) → Nat → Nat → List (List Bool) × Nat
  | [], _, processed => ([], processed)
  | batch :: rest, matched, processed =>
    let filter := batch.map pred
    let processed := processed + batch.length
    match limit with
    | some lim =>
      if lim - matched ≤ filter.length then
        let tr := takeNTrue filter (lim - matched)
        let matched := matched + countTrue tr
        if matched ≥ lim then ([tr], processed)
        else
          let r := predLoop pred limit rest matched processed
          (tr :: r.1, r.2)
      else
        let r := predLoop pred limit rest (matched + countTrue filter) processed
        (filter :: r.1, r.2)
    | none =>
      let r := predLoop pred limit rest (matched + countTrue filter) processed
      (filter :: r.1, r.2)

/-- `with_predicate_options`: evaluate one predicate over the current plan and fold its result
into the selection.  `total` = rows on the tape, `limit`/`totalRows` = `PredicateOptions`. -/
def withPredicate (b total : Nat) (p : Policy) (sel : Option RS) (pred : Nat → Bool)
    (limit : Option Nat) (totalRows : Nat) : Option (Option RS) :=
  let expected : Option Nat := match sel with
    | some s => some s.rowCount
    | none => limit.map (fun _ => totalRows)
  match runReader b total p sel with
  | none => none
  | some batches =>
    let (filters, processed) := predLoop pred limit batches 0 0
    let filters := match expected with
      | some e => if processed < e then filters ++ [List.replicate (e - processed) false] else filters
      | none => filters
    if filters.all (fun f => countTrue f = f.length) then some sel
    else
      let raw : Option RS :=
        if (match sel with | some s => s.isMask | none => false) then some (.bits filters.flatten)
        else (fromFilters filters).map .sels
      match raw with
      | none => none
      | some raw =>
        match sel with
        | some s => (s.andThen raw).map some
        | none => some (some raw)

/-! ### offset / limit (`LimitedReadPlanBuilder::build_limited`) -/

def buildLimited (sel : Option RS) (rowCount : Nat) (offset limit : Option Nat) : Option RS :=
  let sel := match sel with
    | some s => if s.selectsAny then some s else some (.sels [])
    | none => none
  let sel := match offset with
    | none => sel
    | some off =>
      if rowCount < off then some (.sels [])
      else match sel with
        | some s => some (s.offset off)
        | none => some (.sels (fromIter [skipS off, selS (rowCount - off)]))
  match limit with
  | none => sel
  | some lim =>
    match sel with
    | some s => some (s.limit lim)
    | none => some (.sels (fromIter [selS (min lim rowCount)]))

/-! ### the synchronous reader (`ParquetRecordBatchReaderBuilder::build`) -/

/-- the predicate loop of `build()` (`break` once nothing is selected) -/
def applyPreds (b total : Nat) (p : Policy) : Option RS → List (Nat → Bool) → Option (Option RS)
  | sel, [] => some sel
  | sel, pred :: rest =>
    if nothingSelected sel then some sel
    else match withPredicate b total p sel pred none 0 with
      | none => none
      | some sel' => applyPreds b total p sel' rest

/-- whole sync pipeline over the concatenation of the chosen row groups (`total` rows;
`fileRows` = rows in the file, which caps the batch size): batches of tape row ids -/
def syncRead (bs fileRows total : Nat) (p : Policy) (sel : Option RS) (preds : List (Nat → Bool))
    (offset limit : Option Nat) : Option (List (List Nat)) :=
  let b := min bs fileRows
  match applyPreds b total p sel preds with
  | none => none
  | some sel' => runReader b total p (buildLimited sel' total offset limit)

/-! ### the push decoder: `RowBudget`, `RowGroupFrontier`, per-row-group plans -/

/-- `RowBudget { offset, limit }` -/
structure Budget where
  offset : Option Nat
  limit : Option Nat

/-- `RowBudget::is_exhausted` -/
def Budget.isExhausted (bd : Budget) : Bool := bd.limit == some BUDGET_EXHAUSTED_LIMIT

/-- `RowBudget::rows_after` -/
def Budget.rowsAfter (bd : Budget) (rowsBefore : Nat) : Nat :=
  let afterOff := rowsBefore - bd.offset.getD BUDGET_DEFAULT_OFFSET
  match bd.limit with
  | some l => min afterOff l
  | none => afterOff

/-- `RowBudget::advance` -/
def Budget.advance (bd : Budget) (rowsBefore rowsAfter : Nat) : Budget :=
  { offset := bd.offset.map (fun o => o - (rowsBefore - rowsAfter)),
    limit := if rowsAfter ≠ BUDGET_ADVANCE_SKIP_WHEN then bd.limit.map (fun l => l - rowsAfter) else bd.limit }

/-- `RowBudget::selected_row_limit` -/
def Budget.selectedRowLimit (bd : Budget) : Option Nat :=
  bd.limit.map (fun l => l + bd.offset.getD 0)

/-- predicates of one row group in the push decoder (`Filters`/`WaitingOnFilterData` states):
stop as soon as nothing is selected; the last predicate gets the early-termination limit -/
def pushPreds (b total : Nat) (p : Policy) (bd : Budget) :
    Option RS → List (Nat → Bool) → Option (Option RS)
  | sel, [] => some sel
  | sel, pred :: rest =>
    if nothingSelected sel then some sel
    else
      let lim := if rest.isEmpty then bd.selectedRowLimit else none
      match withPredicate b total p sel pred lim total with
      | none => none
      | some sel' => pushPreds b total p bd sel' rest

/-- one row group handed to `RowGroupReaderBuilder`: predicates, `apply_to_plan`, read.
Returns (batches of row ids local to the row group, remaining budget). -/
def pushRowGroup (b rowCount : Nat) (p : Policy) (sel : Option RS) (preds : List (Nat → Bool))
    (bd : Budget) : Option (List (List Nat) × Budget) :=
  match pushPreds b rowCount p bd sel preds with
  | none => none
  | some sel' =>
    -- with predicates: "If nothing is selected, we are done" keeps the budget unchanged
    if !preds.isEmpty && nothingSelected sel' then some ([], bd)
    else
      let before := match sel' with | some s => s.rowCount | none => rowCount
      let planSel := buildLimited sel' rowCount bd.offset bd.limit
      let after := bd.rowsAfter before
      let bd' := bd.advance before after
      if before = 0 ∨ after = 0 then some ([], bd')
      else (runReader b rowCount p planSel).map (fun bs => (bs, bd'))

/-- `RowGroupFrontier::next_readable_row_group` + `try_next_reader`, over the queue of chosen
row groups given as `(first global row id, row count, predicate values of that row group)`.
The frontier's global selection carries its count cache (`CRS`): `selection.row_count()` warms
it, `split_off` propagates it.  Returns the batches as global row ids. -/
def pushGo (b : Nat) (p : Policy) (hasPreds : Bool) :
    List (Nat × Nat × List (Nat → Bool)) → Option CRS → Budget → Option (List (List Nat))
  | [], _, _ => some []
  | (base, rowCount, preds) :: rest, sel, bd =>
    -- `selection.is_some_and(|s| s.row_count() == 0)` (evaluated after `is_exhausted`)
    let probe : Bool × Option CRS :=
      if bd.isExhausted then (true, sel)
      else match sel with
        | some s => let r := s.rowCount; (r.1 == 0, some r.2)
        | none => (false, none)
    if probe.1 then some []
    else
      -- split this row group's slice off the global selection
      let (slice, sel') : Option CRS × Option CRS := match probe.2 with
        | some s => let ht := s.splitOff rowCount; (some ht.1, some ht.2)
        | none => (none, none)
      -- `selection.row_count()` of the slice
      let selectedRows := match slice with | some s => s.rowCount.1 | none => rowCount
      if slice.isSome ∧ selectedRows = 0 then pushGo b p hasPreds rest sel' bd
      else
        let slice : Option RS := if selectedRows = rowCount then none else slice.map CRS.toRS
        -- plan_selected_row_group
        let after := bd.rowsAfter selectedRows
        if !hasPreds ∧ after = 0 then pushGo b p hasPreds rest sel' (bd.advance selectedRows after)
        else match pushRowGroup b rowCount p slice preds bd with
          | none => none
          | some (batches, bd') =>
            (pushGo b p hasPreds rest sel' bd').map (fun r => batches.map (·.map (· + base)) ++ r)

end ArrowModel.C06
