import ArrowModel.Common.Proto
import ArrowModel.C06.Spec
import ArrowModel.C06.Model
/-
C06 driver: one case per line → one canonical answer per line.  Answers are computed by the
*algorithm model*; the list-level specification is evaluated next to it and a
`MODEL-SPEC-MISMATCH` is printed if the two differ (the theorems say they cannot).

Operands: `R:s3,k5,s0,k2` = `RowSelection::from(vec![skip 3, select 5, skip 0, select 2])`
(so it goes through `from_iter`), `M:0110` = `RowSelection::from_boolean_buffer`; `R:-`/`M:-`
are the empty ones.
-/
namespace ArrowModel.C06
open ArrowModel.Proto

def parseSel (t : String) : Option Sel :=
  match t.toList with
  | 's' :: r => (String.ofList r).toNat?.map skipS
  | 'k' :: r => (String.ofList r).toNat?.map selS
  | _ => none

def parseOperand (t : String) : Option RS :=
  if t.startsWith "R:" then (parseList parseSel (t.drop 2).toString).map (fun s => .sels (fromIter s))
  else if t.startsWith "M:" then (parseBits (t.drop 2).toString).map .bits
  else if t.startsWith "M" then
    -- `M<k>:bits` — the same mask stored at bit offset `k` of a larger buffer (layout only)
    match (t.drop 1).toString.splitOn ":" with
    | [k, bits] => if k.toNat?.isSome then (parseBits bits).map .bits else none
    | _ => none
  else none

def showSel (s : Sel) : String := (if s.2 then "s" else "k") ++ toString s.1
def showSels (s : List Sel) : String := showList showSel s

/-- denotation of a model value through the *specification's* `mask` -/
def RS.mask : RS → List Bool
  | .sels s => Spec.mask s
  | .bits m => m

/-- ascending positions as half-open ranges `a-b` -/
def rangesOf : List Nat → List (Nat × Nat)
  | [] => []
  | p :: r =>
    match rangesOf r with
    | (a, b) :: t => if a = p + 1 then (p, b) :: t else (p, p + 1) :: (a, b) :: t
    | [] => [(p, p + 1)]

def showRanges (ps : List Nat) : String := showList (fun r => s!"{r.1}-{r.2}") (rangesOf ps)

/-- canonical answer for a selection: `<domain>|<selected positions>|<raw selectors of iter()>` -/
def showRS (r : RS) : String :=
  s!"{r.mask.length}|{showRanges (Spec.trueIdx 0 r.mask)}|{showSels r.toSelectors}"

def check (model spec : List Bool) (answer : String) : String :=
  if model = spec then answer
  else s!"MODEL-SPEC-MISMATCH model={showBits model} spec={showBits spec}"

def parseRange (t : String) : Option (Nat × Nat) :=
  match t.splitOn "-" with
  | [a, b] => do pure (← a.toNat?, ← b.toNat?)
  | _ => none

def parseFilters (t : String) : Option (List (List Bool)) :=
  if t = "none" then some [] else (t.splitOn ";").mapM parseBits

def parsePolicy (t : String) : Option Policy :=
  match t.toList with
  | ['s'] => some .selectors
  | ['m'] => some .mask
  | ['d'] => some (.auto ArrowModel.Generated.C06.DEFAULT_AUTO_THRESHOLD)
  | 'a' :: r => (String.ofList r).toNat?.map .auto
  | _ => none

def parseOptNat (t : String) : Option (Option Nat) :=
  if t = "-" then some none else t.toNat?.map some

/-- position of each chosen row group: `(file offset of its first row, row count)` -/
def groupBases (sizes : List Nat) (chosen : List Nat) : List (Nat × Nat) :=
  chosen.map (fun g => ((sizes.take g).foldl (· + ·) 0, sizes.getD g 0))

/-- concatenation index → file row id -/
def concatToFile (groups : List (Nat × Nat)) : List Nat :=
  groups.flatMap (fun g => List.range' g.1 g.2)

def showBatches (ids : List Nat) (lens : List Nat) : String :=
  s!"{showRanges ids} {showList toString lens}"

/-- spec for the push decoder's batch lengths: batches never span row groups -/
def pushBatchLens (b : Nat) (groups : List (Nat × Nat)) (ids : List Nat) : List Nat :=
  groups.flatMap (fun g => Spec.batchLens b (ids.filter (fun i => g.1 ≤ i ∧ i < g.1 + g.2)).length)

def handleRead (mode : String) (sizes chosen : List Nat) (sel : Option RS) (pol : Policy)
    (pmasks : List (List Bool)) (off lim : Option Nat) (bs : Nat) : String :=
  let groups := groupBases sizes chosen
  let total := groups.foldl (fun a g => a + g.2) 0
  let fileRows := sizes.foldl (· + ·) 0
  let toFile := concatToFile groups
  let specIdx := Spec.pipeline total (sel.map RS.mask) pmasks off lim
  let specIds := specIdx.map (fun i => toFile.getD i 0)
  if mode = "sync" then
    let preds : List (Nat → Bool) := pmasks.map (fun pm i => pm.getD i false)
    match syncRead bs fileRows total pol sel preds off lim with
    | none => "ERR:read"
    | some batches =>
      let ids := batches.flatten.map (fun i => toFile.getD i 0)
      let lens := batches.map List.length
      let specLens := Spec.batchLens (min bs fileRows) specIds.length
      if ids = specIds ∧ lens = specLens then showBatches ids lens
      else s!"MODEL-SPEC-MISMATCH model={showBatches ids lens} spec={showBatches specIds specLens}"
  else
    -- concatenation offset of each chosen group, to slice the predicate masks
    let cbases := (List.range groups.length).map (fun k => (groups.take k).foldl (fun a g => a + g.2) 0)
    let queue : List (Nat × Nat × List (Nat → Bool)) := (groups.zip cbases).map (fun gc =>
      (gc.1.1, gc.1.2, pmasks.map (fun pm i => pm.getD (gc.2 + i) false)))
    match pushGo bs pol (!pmasks.isEmpty) queue (sel.map CRS.ofRS) ⟨off, lim⟩ with
    | none => "ERR:read"
    | some batches =>
      let ids := batches.flatten
      let lens := batches.map List.length
      let specLens := pushBatchLens bs groups specIds
      if ids = specIds ∧ lens = specLens then showBatches ids lens
      else s!"MODEL-SPEC-MISMATCH model={showBatches ids lens} spec={showBatches specIds specLens}"

/-- an operation history on one `RowSelection` (cache-aware model): observers `r` row_count,
`k` skipped_row_count, `y` selects_any, `t` total_row_count; `c` clone; `h<n>`/`l<n>` split_off
keeping the returned head / the remaining self; `a:`/`i:`/`u:` and_then / intersection / union
with an operand.  Every observation is checked against the popcount of the denoted mask. -/
def runProg (cur : CRS) (ops : List String) (out : List String) : String :=
  match ops with
  | [] =>
    let m := cur.toRS.mask
    let r := cur.rowCount
    let k := r.2.skippedRowCount
    let y := k.2.selectsAny
    let fin := s!"r={r.1} k={k.1} y={showBool y} {showRS cur.toRS}"
    if r.1 = Spec.countTrue m ∧ k.1 = m.length - Spec.countTrue m ∧ y = m.any id then
      " ".intercalate (out.reverse ++ [fin])
    else s!"MODEL-SPEC-MISMATCH stale-count {fin}"
  | op :: rest =>
    let m := cur.toRS.mask
    let arg := (op.drop 1).toString
    match op.take 1 |>.toString with
    | "r" =>
      let r := cur.rowCount
      if r.1 = Spec.countTrue m then runProg r.2 rest (s!"r={r.1}" :: out)
      else s!"MODEL-SPEC-MISMATCH stale-count r={r.1}"
    | "k" =>
      let r := cur.skippedRowCount
      if r.1 = m.length - Spec.countTrue m then runProg r.2 rest (s!"k={r.1}" :: out)
      else s!"MODEL-SPEC-MISMATCH stale-count k={r.1}"
    | "y" =>
      let y := cur.selectsAny
      if y = m.any id then runProg cur rest (s!"y={showBool y}" :: out)
      else s!"MODEL-SPEC-MISMATCH stale-count y={showBool y}"
    | "t" => runProg cur rest (s!"t={cur.toRS.totalRowCount}" :: out)
    | "c" => runProg cur rest out
    | "h" => match arg.toNat? with
      | some n => runProg (cur.splitOff n).1 rest out
      | none => "bad-op"
    | "l" => match arg.toNat? with
      | some n => runProg (cur.splitOff n).2 rest out
      | none => "bad-op"
    | "a" => match parseOperand (arg.drop 1).toString with
      | some o => match cur.andThen (CRS.ofRS o) with
        | some r => runProg r rest out
        | none => "PANIC"
      | none => "bad-op"
    | "i" => match parseOperand (arg.drop 1).toString with
      | some o => runProg (cur.intersection (CRS.ofRS o)) rest out
      | none => "bad-op"
    | "u" => match parseOperand (arg.drop 1).toString with
      | some o => runProg (cur.union (CRS.ofRS o)) rest out
      | none => "bad-op"
    | _ => "bad-op"

/-- drain a mask cursor with `next_mask_chunk(bs)`:
`initial_skip:chunk_rows:selected_rows:mask_start:bits` per chunk -/
def drainMask (bs : Nat) : (fuel : Nat) → List Bool → Nat → List String
  | 0, _, _ => []
  | fuel + 1, rem, position =>
    if rem.isEmpty then []
    else
      let ch := nextMaskChunk rem bs
      s!"{ch.1}:{ch.2.1.length}:{countTrue ch.2.1}:{position + ch.1}:{showBits ch.2.1}" ::
        drainMask bs fuel ch.2.2 (position + ch.1 + ch.2.1.length)

def handlePlan (sel : Option RS) (polTok : String) (pol : Policy) (bs : Nat) : String :=
  let any := match sel with | some s => s.selectsAny | none => true
  let n := match sel with | some s => toString s.rowCount | none => "-"
  let head := s!"any={showBool any} n={n}"
  if polTok = "s" ∨ polTok = "m" ∨ sel.isNone then
    match buildCursor pol sel with
    | .all => s!"{head} all"
    | .selectors s => s!"{head} sel empty={showBool s.isEmpty}"
    | .mask rem =>
      let chunks := drainMask bs (rem.length + 1) rem 0
      -- after draining, the cursor is empty
      s!"{head} mask empty=1 {showList id chunks}"
  else head

def handleWpred (sel : Option RS) (pol : Policy) (bs total : Nat) (pv : List Char)
    (limit : Option Nat) (totalRows : Nat) : String :=
  let pred : Nat → Bool := fun i => pv.getD i '0' == '1'
  match withPredicate bs total pol sel pred limit totalRows with
  | none => "ERR:read"
  | some res =>
    -- specification: rows delivered by the current selection, filtered by the predicate
    -- (null → false), at most `limit` of them; domain = the selection's (or the tape's)
    let base : List Nat := match sel with
      | some s => Spec.trueIdx 0 s.mask
      | none => List.range total
    let want := match limit with
      | some l => (base.filter pred).take l
      | none => base.filter pred
    let got : List Nat := match res with
      | some r => Spec.trueIdx 0 r.mask
      | none => List.range total
    let fits : Bool := match sel with | some s => decide (s.mask.length ≤ total) | none => true
    if fits && got != want then
      s!"MODEL-SPEC-MISMATCH model={showRanges got} spec={showRanges want}"
    else match res with
      | none => "none"
      | some r => showRS r

def handle (toks : List String) : String :=
  match toks with
  | ["from", a] =>
    match parseList parseSel (a.drop 2).toString with
    | some raw => let r := RS.sels (fromIter raw); check r.mask (Spec.mask raw) (showRS r)
    | none => "bad-op"
  | ["ranges", total, rs] =>
    match total.toNat?, parseList parseRange rs with
    | some total, some rs =>
      match fromConsecutiveRanges rs total with
      | none => "PANIC"
      | some s =>
        let spec := (List.range total).map (fun i => rs.any (fun r => r.1 ≤ i ∧ i < r.2))
        check (Spec.mask s) spec (showRS (.sels s))
    | _, _ => "bad-op"
  | ["filters", fs] =>
    match parseFilters fs with
    | some fs =>
      match fromFilters fs with
      | none => "PANIC"
      | some s => check (Spec.mask s) fs.flatten (showRS (.sels s))
    | none => "bad-op"
  | ["andthen", a, b] =>
    match parseOperand a, parseOperand b with
    | some a, some b =>
      match a.andThen b with
      | none => "PANIC"
      | some r => check r.mask (Spec.compose a.mask b.mask) (showRS r)
    | _, _ => "bad-op"
  | ["inter", a, b] =>
    match parseOperand a, parseOperand b with
    | some a, some b =>
      let r := a.intersection b
      check r.mask (Spec.zipTail (· && ·) a.mask b.mask) (showRS r)
    | _, _ => "bad-op"
  | ["union", a, b] =>
    match parseOperand a, parseOperand b with
    | some a, some b =>
      let r := a.union b
      check r.mask (Spec.zipTail (· || ·) a.mask b.mask) (showRS r)
    | _, _ => "bad-op"
  | ["split", a, n] =>
    match parseOperand a, n.toNat? with
    | some a, some n =>
      let ht := a.splitOff n
      check (ht.1.mask ++ [true, true] ++ ht.2.mask) (a.mask.take n ++ [true, true] ++ a.mask.drop n)
        s!"{showRS ht.1} ; {showRS ht.2}"
    | _, _ => "bad-op"
  | ["counts", a] =>
    match parseOperand a with
    | some a =>
      let m := a.mask
      let spec := s!"{(Spec.trueIdx 0 m).length} {m.length - Spec.countTrue m} {m.length} {showBool (m.any id)}"
      let model := s!"{a.rowCount} {a.skippedRowCount} {a.totalRowCount} {showBool a.selectsAny}"
      if model = spec then model else s!"MODEL-SPEC-MISMATCH model={model} spec={spec}"
    | none => "bad-op"
  | ["eq", a, b] =>
    match parseOperand a, parseOperand b with
    | some a, some b =>
      let model := a.eq b
      let spec := a.mask == b.mask
      if model = spec then showBool model else s!"MODEL-SPEC-MISMATCH model={model} spec={spec}"
    | _, _ => "bad-op"
  | ["concat", xs] =>
    match (if xs = "none" then some [] else (xs.splitOn ";").mapM parseOperand) with
    | some items =>
      let r := RS.concat items
      check r.mask (items.flatMap RS.mask) (showRS r)
    | none => "bad-op"
  | ["scan", a, firsts] =>
    match parseOperand a, parseList String.toNat? firsts with
    | some a, some firsts =>
      let model := scanRanges a.toSelectors firsts
      let spec := Spec.pagesHit firsts (Spec.trueIdx 0 a.mask)
      if model = spec then showList toString model
      else s!"MODEL-SPEC-MISMATCH model={showList toString model} spec={showList toString spec}"
    | _, _ => "bad-op"
  | ["runs", a] =>
    match parseOperand a with
    | some (.bits m) =>
      let r := maskToSelectors m
      check (Spec.mask r) m (showSels r)
    | _ => "bad-op"
  | ["default"] => showRS (.sels [])
  | ["plan", a, pol, bs] =>
    match (if a = "-" then some none else (parseOperand a).map some), parsePolicy pol, bs.toNat? with
    | some sel, some p, some bs => handlePlan sel pol p bs
    | _, _, _ => "bad-op"
  | ["wpred", a, pol, bs, total, pv, lim, tr] =>
    match (if a = "-" then some none else (parseOperand a).map some), parsePolicy pol, bs.toNat?,
          total.toNat?, parseOptNat lim, tr.toNat? with
    | some sel, some p, some bs, some total, some lim, some tr =>
      handleWpred sel p bs total (if pv = "e" then [] else pv.toList) lim tr
    | _, _, _, _, _, _ => "bad-op"
  | ["prog", a, ops] =>
    match parseOperand a with
    | some a => runProg (CRS.ofRS a) (if ops = "-" then [] else ops.splitOn ";") []
    | none => "bad-op"
  | ["read", mode, sizes, _pg, _idx, chosen, sel, pol, _preds, pmasks, off, lim, bs, _proj] =>
    match parseList String.toNat? sizes, parseList String.toNat? chosen,
          (if sel = "-" then some none else (parseOperand sel).map some),
          parsePolicy pol, (if pmasks = "-" then some [] else (pmasks.splitOn ";").mapM (fun m => if m = "e" then some [] else parseBits m)),
          parseOptNat off, parseOptNat lim, bs.toNat? with
    | some sizes, some chosen, some sel, some pol, some pmasks, some off, some lim, some bs =>
      let mode := (mode.splitOn ".").headD ""
      if mode = "sync" ∨ mode = "push" ∨ mode = "async" ∨ mode = "pushr" then handleRead mode sizes chosen sel pol pmasks off lim bs
      else "bad-op"
    | _, _, _, _, _, _, _, _ => "bad-op"
  | _ => "bad-op"

end ArrowModel.C06
