import ArrowModel.C19.Spec
import ArrowModel.C19.Model
/-
C19 — helper lemmas (bit-level characterisations of the model's building blocks).
Property statements live in `Theorems.lean`.
-/
namespace ArrowModel.C19
open ArrowModel.Generated.C19

theorem testBit_u64 (x j : Nat) : (u64 x).testBit j = (decide (j < 64) && x.testBit j) := by
  unfold u64; rw [Nat.testBit_mod_two_pow]

theorem testBit_allOnes64 (j : Nat) : allOnes64.testBit j = decide (j < 64) := by
  unfold allOnes64; rw [Nat.testBit_two_pow_sub_one]

theorem testBit_readBytes (v k c j : Nat) :
    (readBytes v k c).testBit j = (decide (j < 8 * c) && v.testBit (8 * k + j)) := by
  unfold readBytes
  rw [Nat.testBit_mod_two_pow, Nat.testBit_shiftRight]

theorem testBit_setRange (d off w x i : Nat) :
    (setRange d off w x).testBit i =
      if i < off then d.testBit i else if i < off + w then x.testBit (i - off) else d.testBit i := by
  unfold setRange
  simp only [Nat.testBit_or, Nat.testBit_mod_two_pow, Nat.testBit_shiftLeft, Nat.testBit_shiftRight]
  by_cases h1 : i < off
  · have a1 : ¬ off ≤ i := by omega
    have a2 : ¬ off + w ≤ i := by omega
    simp [h1, a1, a2]
  · by_cases h2 : i < off + w
    · have a0 : i - off < w := by omega
      have a1 : off ≤ i := by omega
      have a2 : ¬ off + w ≤ i := by omega
      simp [h1, h2, a0, a1, a2]
    · have h3 : off + w ≤ i := by omega
      have h4 : off ≤ i := by omega
      have h5 : ¬ (i - off < w) := by omega
      have h6 : off + w + (i - (off + w)) = i := by omega
      simp [h1, h2, h3, h4, h5, h6]

theorem testBit_readByte (v k j : Nat) :
    (readByte v k).testBit j = (decide (j < 8) && v.testBit (8 * k + j)) := by
  unfold readByte
  rw [show (256 : Nat) = 2 ^ 8 from rfl, Nat.testBit_mod_two_pow, Nat.testBit_shiftRight]

theorem testBit_readU64 (v k j : Nat) :
    (readU64 v k).testBit j = (decide (j < 64) && v.testBit (8 * k + j)) := by
  unfold readU64
  rw [testBit_u64, Nat.testBit_shiftRight]

/-- `BitChunkIterator::next`: chunk `idx` holds bits `64·idx+bo ..+64` of the buffer. -/
theorem testBit_chunkAt (v bo idx j : Nat) (hbo : bo < 8) :
    (chunkAt v bo idx).testBit j = (decide (j < 64) && v.testBit (64 * idx + bo + j)) := by
  unfold chunkAt
  by_cases h0 : bo = 0
  · subst h0
    simp only [if_true, testBit_readU64]
    congr 2; omega
  · simp only [h0, if_false, Nat.testBit_or, Nat.testBit_shiftRight, testBit_u64,
      Nat.testBit_shiftLeft, testBit_readU64, testBit_readByte]
    by_cases hj : j < 64
    · by_cases h1 : bo + j < 64
      · have a1 : ¬ (64 - bo ≤ j) := by omega
        have a2 : 8 * (8 * idx) + (bo + j) = 64 * idx + bo + j := by omega
        simp [hj, h1, a1, a2]
      · have a1 : 64 - bo ≤ j := by omega
        have a3 : j - (64 - bo) < 8 := by omega
        have a2 : 8 * (8 * (idx + 1)) + (j - (64 - bo)) = 64 * idx + bo + j := by omega
        simp [hj, h1, a1, a2, a3]
    · have : ¬ (bo + j < 64) := by omega
      simp [hj, this]

theorem remLoop_inv (v base bo : Nat) (hbo : bo < 8) :
    ∀ (n i bits : Nat), 1 ≤ i →
      (∀ j, bits.testBit j = (decide (j < 64) && decide (j + bo < 8 * i) && v.testBit (8 * base + bo + j))) →
      ∀ j, (remLoop v base bo n i bits).testBit j =
        (decide (j < 64) && decide (j + bo < 8 * (i + n)) && v.testBit (8 * base + bo + j)) := by
  intro n
  induction n with
  | zero => intro i bits _ h j; simpa [remLoop] using h j
  | succ n ih =>
    intro i bits hi h j
    rw [remLoop]
    rw [ih (i + 1) _ (by omega)]
    · congr 2
      have : i + 1 + n = i + (n + 1) := by omega
      rw [this]
    · intro j
      simp only [Nat.testBit_or, testBit_u64, Nat.testBit_shiftLeft, testBit_readByte, h j]
      by_cases hj : j < 64
      · by_cases h1 : j + bo < 8 * i
        · have a1 : j + bo < 8 * (i + 1) := by omega
          have a2 : ¬ (i * 8 - bo ≤ j) := by omega
          simp [hj, h1, a1, a2]
        · by_cases h2 : j + bo < 8 * (i + 1)
          · have a2 : i * 8 - bo ≤ j := by omega
            have a3 : j - (i * 8 - bo) < 8 := by omega
            have a4 : 8 * (base + i) + (j - (i * 8 - bo)) = 8 * base + bo + j := by omega
            simp [hj, h1, h2, a2, a3, a4]
          · have a3 : ¬ (j - (i * 8 - bo) < 8) := by omega
            simp [hj, h1, h2, a3]
      · simp [hj]

/-- `BitChunks::remainder_bits` holds the `remLen` bits after the complete chunks -/
theorem testBit_remainderBits (v bo cl rl j : Nat) (hbo : bo < 8) (hrl : rl < 64) :
    (remainderBits v bo cl rl).testBit j = (decide (j < rl) && v.testBit (64 * cl + bo + j)) := by
  unfold remainderBits
  by_cases h0 : rl = 0
  · subst h0; simp
  · simp only [h0, if_false]
    have hm : u64 (1 <<< rl) = 2 ^ rl := by
      rw [u64, Nat.shiftLeft_eq, Nat.one_mul]
      exact Nat.mod_eq_of_lt (Nat.pow_lt_pow_right (by decide) hrl)
    rw [Nat.testBit_and, hm, Nat.testBit_two_pow_sub_one]
    rw [remLoop_inv v (cl * 8) bo hbo _ 1 _ (by omega)]
    · have hb : 1 ≤ ceilDiv (rl + bo) 8 := by unfold ceilDiv; omega
      have hc : rl + bo ≤ 8 * ceilDiv (rl + bo) 8 := by unfold ceilDiv; omega
      by_cases hj : j < rl
      · have a1 : j < 64 := by omega
        have a2 : j + bo < 8 * (1 + (ceilDiv (rl + bo) 8 - 1)) := by omega
        have a3 : 8 * (cl * 8) + bo + j = 64 * cl + bo + j := by omega
        simp [hj, a1, a2, a3]
      · simp [hj]
    · intro j
      simp only [Nat.testBit_shiftRight, testBit_readByte]
      by_cases h1 : j + bo < 8
      · have a1 : j < 64 := by omega
        have a2 : bo + j < 8 := by omega
        have a3 : 8 * (cl * 8) + (bo + j) = 8 * (cl * 8) + bo + j := by omega
        simp [h1, a1, a2, a3]
      · have a2 : ¬ (bo + j < 8) := by omega
        simp [h1, a2]

theorem iterPadded_length (buf off len : Nat) : (iterPadded buf off len).length = len / 64 + 1 := by
  simp [iterPadded]

theorem iterPadded_getElem? (buf off len k : Nat) (hk : k ≤ len / 64) :
    ∃ w, (iterPadded buf off len)[k]? = some w ∧
      ∀ j, w.testBit j = (decide (j < 64) && decide (64 * k + j < len) && buf.testBit (off + 64 * k + j)) := by
  have hbo : off % 8 < 8 := Nat.mod_lt _ (by decide)
  have hoff : 8 * (off / 8) + off % 8 = off := by omega
  unfold iterPadded
  simp only
  by_cases hlt : k < len / 64
  · refine ⟨chunkAt (buf >>> (8 * (off / 8))) (off % 8) k, ?_, ?_⟩
    · rw [List.getElem?_append_left (by simpa using hlt)]
      simp [hlt]
    · intro j
      rw [testBit_chunkAt _ _ _ _ hbo, Nat.testBit_shiftRight]
      by_cases hj : j < 64
      · have a1 : 64 * k + j < len := by omega
        have a2 : 8 * (off / 8) + (64 * k + off % 8 + j) = off + 64 * k + j := by omega
        simp [hj, a1, a2]
      · simp [hj]
  · have hk' : k = len / 64 := by omega
    subst hk'
    refine ⟨remainderBits (buf >>> (8 * (off / 8))) (off % 8) (len / 64) (len % 64), ?_, ?_⟩
    · rw [List.getElem?_append_right (by simp)]
      simp
    · intro j
      rw [testBit_remainderBits _ _ _ _ _ hbo (Nat.mod_lt _ (by decide)), Nat.testBit_shiftRight]
      by_cases hj : j < len % 64
      · have a0 : j < 64 := by omega
        have a1 : 64 * (len / 64) + j < len := by omega
        have a2 : 8 * (off / 8) + (64 * (len / 64) + off % 8 + j) = off + 64 * (len / 64) + j := by omega
        simp [hj, a0, a1, a2]
      · have a1 : ¬ (64 * (len / 64) + j < len) := by omega
        simp [hj, a1]

theorem testBit_packWords (ws : List Nat) (i : Nat) :
    (packWords ws).testBit i = ((ws[i / 64]?).getD 0).testBit (i % 64) := by
  induction ws generalizing i with
  | nil => simp [packWords]
  | cons w ws ih =>
    simp only [packWords, Nat.testBit_or, testBit_u64, Nat.testBit_shiftLeft]
    by_cases h : i < 64
    · have a1 : i / 64 = 0 := by omega
      have a2 : i % 64 = i := by omega
      have a3 : ¬ (64 ≤ i) := by omega
      simp [h, a1, a2, a3]
    · have a3 : 64 ≤ i := by omega
      have a4 : i / 64 = (i - 64) / 64 + 1 := by omega
      have a5 : (i - 64) % 64 = i % 64 := by omega
      simp [h, a3, ih, a4, a5]


/-! ### `set_bits` -/

theorem mask56 : SET_BITS_56_MASK = 2 ^ 56 - 1 := by decide

structure StepOK (d src ow or len : Nat) (d' n : Nat) : Prop where
  pos : 0 < n
  le : n ≤ len
  frame : ∀ i, i < ow ∨ ow + len ≤ i → d'.testBit i = d.testBit i
  content : (∀ i, ow ≤ i → i < ow + len → d.testBit i = false) →
    (∀ i, ow ≤ i → i < ow + n → d'.testBit i = src.testBit (or + (i - ow))) ∧
    (∀ i, ow + n ≤ i → i < ow + len → d'.testBit i = false)

theorem testBit_orWriteU64 (d k chunk i : Nat) :
    (orWriteU64 d k chunk).testBit i =
      if i < 8 * k then d.testBit i
      else if i < 8 * k + 64 then (chunk.testBit (i - 8 * k) || (decide (i - 8 * k < 8) && d.testBit i))
      else d.testBit i := by
  rw [orWriteU64, testBit_setRange]
  by_cases h1 : i < 8 * k
  · simp [h1]
  · by_cases h2 : i < 8 * k + 64
    · have a : 8 * k + (i - 8 * k) = i := by omega
      simp [h1, h2, Nat.testBit_or, testBit_readByte, a]
    · simp [h1, h2]

theorem setUpto64_ok_B (d src ow or len : Nat) (h64 : len ≥ 64) (hr0 : or % 8 = 0) (_hw0 : ¬ ow % 8 = 0) :
    StepOK d src ow or len (orWriteU64 d (ow / 8) (u64 (readU64 src (or / 8) <<< (ow % 8)))) (64 - ow % 8) := by
  have hws : ow % 8 < 8 := Nat.mod_lt _ (by decide)
  have hor : 8 * (or / 8) + or % 8 = or := by omega
  have how : 8 * (ow / 8) + ow % 8 = ow := by omega
  refine ⟨by omega, by omega, ?_, ?_⟩
  · intro i hi
    rw [testBit_orWriteU64]
    rcases hi with hi | hi
    · by_cases b1 : i < 8 * (ow / 8)
      · simp [b1]
      · have b2 : i < 8 * (ow / 8) + 64 := by omega
        have b3 : i - 8 * (ow / 8) < 8 := by omega
        have b4 : ¬ (ow % 8 ≤ i - 8 * (ow / 8)) := by omega
        simp [b1, b2, b3, b4, testBit_u64, Nat.testBit_shiftLeft]
    · have a1 : ¬ i < 8 * (ow / 8) := by omega
      have a2 : ¬ i < 8 * (ow / 8) + 64 := by omega
      simp [a1, a2]
  · intro hz
    refine ⟨?_, ?_⟩
    · intro i h1 h2
      rw [testBit_orWriteU64]
      have a1 : ¬ i < 8 * (ow / 8) := by omega
      have a2 : i < 8 * (ow / 8) + 64 := by omega
      have a3 : i - 8 * (ow / 8) < 64 := by omega
      have a5 : ow % 8 ≤ i - 8 * (ow / 8) := by omega
      have a6 : i - 8 * (ow / 8) - ow % 8 < 64 := by omega
      have a4 : 8 * (or / 8) + (i - 8 * (ow / 8) - ow % 8) = or + (i - ow) := by omega
      simp [a1, a2, a3, a4, a5, a6, testBit_u64, Nat.testBit_shiftLeft, testBit_readU64,
        hz i h1 (by omega)]
    · intro i h1 h2
      rw [testBit_orWriteU64]
      have a1 : ¬ i < 8 * (ow / 8) := by omega
      have a2 : ¬ i < 8 * (ow / 8) + 64 := by omega
      simp [a1, a2, hz i (by omega) h2]

theorem setUpto64_ok_C (d src ow or len : Nat) (h64 : len ≥ 64) (_hr0 : ¬ or % 8 = 0) (hw0 : ow % 8 = 0) :
    StepOK d src ow or len (writeU64 d (ow / 8) ((readU64 src (or / 8) >>> (or % 8)) &&& SET_BITS_56_MASK)) SET_BITS_56_LEN := by
  have hrs : or % 8 < 8 := Nat.mod_lt _ (by decide)
  have hor : 8 * (or / 8) + or % 8 = or := by omega
  have how : 8 * (ow / 8) + ow % 8 = ow := by omega
  have hl : SET_BITS_56_LEN = 56 := rfl
  rw [hl, mask56]
  refine ⟨by omega, by omega, ?_, ?_⟩
  · intro i hi
    rw [writeU64, testBit_setRange]
    rcases hi with hi | hi
    · have : i < 8 * (ow / 8) := by omega
      simp [this]
    · have a1 : ¬ i < 8 * (ow / 8) := by omega
      have a2 : ¬ i < 8 * (ow / 8) + 64 := by omega
      simp [a1, a2]
  · intro hz
    refine ⟨?_, ?_⟩
    · intro i h1 h2
      rw [writeU64, testBit_setRange, Nat.testBit_and, Nat.testBit_two_pow_sub_one, Nat.testBit_shiftRight,
        testBit_readU64]
      have a1 : ¬ i < 8 * (ow / 8) := by omega
      have a2 : i < 8 * (ow / 8) + 64 := by omega
      have a3 : i - 8 * (ow / 8) < 56 := by omega
      have a5 : or % 8 + (i - 8 * (ow / 8)) < 64 := by omega
      have a4 : 8 * (or / 8) + (or % 8 + (i - 8 * (ow / 8))) = or + (i - ow) := by omega
      simp [a1, a2, a3, a4, a5]
    · intro i h1 h2
      rw [writeU64, testBit_setRange, Nat.testBit_and, Nat.testBit_two_pow_sub_one]
      by_cases b : i < 8 * (ow / 8) + 64
      · have a1 : ¬ i < 8 * (ow / 8) := by omega
        have a3 : ¬ i - 8 * (ow / 8) < 56 := by omega
        simp [a1, b, a3]
      · have a1 : ¬ i < 8 * (ow / 8) := by omega
        simp [a1, b, hz i (by omega) h2]

theorem setUpto64_ok_D (d src ow or len : Nat) (h64 : len ≥ 64) (_hr0 : ¬ or % 8 = 0) (_hw0 : ¬ ow % 8 = 0) :
    StepOK d src ow or len
      (orWriteU64 d (ow / 8) (u64 ((readU64 src (or / 8) >>> (or % 8)) <<< (ow % 8))))
      (64 - max (or % 8) (ow % 8)) := by
  have hrs : or % 8 < 8 := Nat.mod_lt _ (by decide)
  have hws : ow % 8 < 8 := Nat.mod_lt _ (by decide)
  have hor : 8 * (or / 8) + or % 8 = or := by omega
  have how : 8 * (ow / 8) + ow % 8 = ow := by omega
  refine ⟨by omega, by omega, ?_, ?_⟩
  · intro i hi
    rw [testBit_orWriteU64]
    rcases hi with hi | hi
    · by_cases b1 : i < 8 * (ow / 8)
      · simp [b1]
      · have b2 : i < 8 * (ow / 8) + 64 := by omega
        have b3 : i - 8 * (ow / 8) < 8 := by omega
        have b4 : ¬ (ow % 8 ≤ i - 8 * (ow / 8)) := by omega
        simp [b1, b2, b3, b4, testBit_u64, Nat.testBit_shiftLeft]
    · have a1 : ¬ i < 8 * (ow / 8) := by omega
      have a2 : ¬ i < 8 * (ow / 8) + 64 := by omega
      simp [a1, a2]
  · intro hz
    refine ⟨?_, ?_⟩
    · intro i h1 h2
      rw [testBit_orWriteU64]
      have a1 : ¬ i < 8 * (ow / 8) := by omega
      have a2 : i < 8 * (ow / 8) + 64 := by omega
      have a3 : i - 8 * (ow / 8) < 64 := by omega
      have a5 : ow % 8 ≤ i - 8 * (ow / 8) := by omega
      have a6 : or % 8 + (i - 8 * (ow / 8) - ow % 8) < 64 := by omega
      have a4 : 8 * (or / 8) + (or % 8 + (i - 8 * (ow / 8) - ow % 8)) = or + (i - ow) := by omega
      simp [a1, a2, a3, a4, a5, a6, testBit_u64, Nat.testBit_shiftLeft, Nat.testBit_shiftRight, testBit_readU64,
        hz i h1 (by omega)]
    · intro i h1 h2
      rw [testBit_orWriteU64]
      by_cases b : i < 8 * (ow / 8) + 64
      · have a1 : ¬ i < 8 * (ow / 8) := by omega
        have a3 : ¬ (i - 8 * (ow / 8) < 8) := by omega
        have a6 : ¬ (or % 8 + (i - 8 * (ow / 8) - ow % 8) < 64) := by omega
        simp [a1, b, a3, a6, testBit_u64, Nat.testBit_shiftLeft, Nat.testBit_shiftRight, testBit_readU64]
      · have a1 : ¬ i < 8 * (ow / 8) := by omega
        simp [a1, b, hz i (by omega) h2]

theorem setUpto64_ok_E (d src ow or : Nat) :
    StepOK d src ow or 1
      (d ||| (((((readByte src (or / 8) >>> (or % 8)) &&& 1) <<< (ow % 8)) % 256) <<< (8 * (ow / 8)))) 1 := by
  have hrs : or % 8 < 8 := Nat.mod_lt _ (by decide)
  have hws : ow % 8 < 8 := Nat.mod_lt _ (by decide)
  have hor : 8 * (or / 8) + or % 8 = or := by omega
  have how : 8 * (ow / 8) + ow % 8 = ow := by omega
  have key : ∀ i, (d ||| (((((readByte src (or / 8) >>> (or % 8)) &&& 1) <<< (ow % 8)) % 256) <<< (8 * (ow / 8)))).testBit i
      = (d.testBit i || (decide (i = ow) && src.testBit or)) := by
    intro i
    rw [Nat.testBit_or, Nat.testBit_shiftLeft, show (256 : Nat) = 2 ^ 8 from rfl, Nat.testBit_mod_two_pow,
      Nat.testBit_shiftLeft, Nat.testBit_and, Nat.testBit_shiftRight, testBit_readByte,
      show (1 : Nat) = 2 ^ 1 - 1 from rfl, Nat.testBit_two_pow_sub_one]
    by_cases hi : i = ow
    · subst hi
      have a1 : 8 * (i / 8) ≤ i := by omega
      have a2 : i - 8 * (i / 8) < 8 := by omega
      have a3 : i % 8 ≤ i - 8 * (i / 8) := by omega
      have a4 : i - 8 * (i / 8) - i % 8 = 0 := by omega
      simp [a1, a2, a3, a4, hrs, hor]
    · by_cases c1 : 8 * (ow / 8) ≤ i
      · by_cases c2 : i - 8 * (ow / 8) < 8
        · by_cases c3 : ow % 8 ≤ i - 8 * (ow / 8)
          · have a4 : ¬ (i - 8 * (ow / 8) - ow % 8 < 1) := by omega
            simp [hi, c1, c2, c3, a4]
          · simp [hi, c1, c2, c3]
        · simp [hi, c1, c2]
      · simp [hi, c1]
  refine ⟨by omega, by omega, ?_, ?_⟩
  · intro i hi
    have : ¬ i = ow := by omega
    rw [key]; simp [this]
  · intro hz
    refine ⟨?_, ?_⟩
    · intro i h1 h2
      have : i = ow := by omega
      subst this
      rw [key]; simp [hz i (by omega) (by omega)]
    · intro i h1 h2
      omega

theorem setUpto64_ok_F (d src ow or len : Nat) (h2 : 2 ≤ len) (h64 : len < 64) :
    let n := min len (64 - max (or % 8) (ow % 8))
    StepOK d src ow or len
      (d ||| ((u64 ((((readBytes src (or / 8) (ceilDiv (n + or % 8) 8)) >>> (or % 8)) &&& (allOnes64 >>> (64 - n))) <<< (ow % 8))
                % 2 ^ (8 * ceilDiv (n + ow % 8) 8)) <<< (8 * (ow / 8)))) n := by
  intro n
  have hrs : or % 8 < 8 := Nat.mod_lt _ (by decide)
  have hws : ow % 8 < 8 := Nat.mod_lt _ (by decide)
  have hor : 8 * (or / 8) + or % 8 = or := by omega
  have how : 8 * (ow / 8) + ow % 8 = ow := by omega
  have hn1 : 0 < n := by simp only [n]; omega
  have hn2 : n ≤ len := by simp only [n]; omega
  have hn3 : n + or % 8 ≤ 64 := by simp only [n]; omega
  have hn4 : n + ow % 8 ≤ 64 := by simp only [n]; omega
  have hc1 : n + or % 8 ≤ 8 * ceilDiv (n + or % 8) 8 := by unfold ceilDiv; omega
  have hc2 : n + ow % 8 ≤ 8 * ceilDiv (n + ow % 8) 8 := by unfold ceilDiv; omega
  have key : ∀ i, (d ||| ((u64 ((((readBytes src (or / 8) (ceilDiv (n + or % 8) 8)) >>> (or % 8)) &&& (allOnes64 >>> (64 - n))) <<< (ow % 8))
                % 2 ^ (8 * ceilDiv (n + ow % 8) 8)) <<< (8 * (ow / 8)))).testBit i
      = (d.testBit i || (decide (ow ≤ i) && decide (i < ow + n) && src.testBit (or + (i - ow)))) := by
    intro i
    rw [Nat.testBit_or, Nat.testBit_shiftLeft, Nat.testBit_mod_two_pow, testBit_u64, Nat.testBit_shiftLeft,
      Nat.testBit_and, Nat.testBit_shiftRight, Nat.testBit_shiftRight, testBit_allOnes64, testBit_readBytes]
    by_cases c0 : ow ≤ i
    · by_cases c1 : i < ow + n
      · have a1 : 8 * (ow / 8) ≤ i := by omega
        have a2 : i - 8 * (ow / 8) < 8 * ceilDiv (n + ow % 8) 8 := by omega
        have a3 : i - 8 * (ow / 8) < 64 := by omega
        have a4 : ow % 8 ≤ i - 8 * (ow / 8) := by omega
        have a5 : or % 8 + (i - 8 * (ow / 8) - ow % 8) < 8 * ceilDiv (n + or % 8) 8 := by omega
        have a6 : 64 - n + (i - 8 * (ow / 8) - ow % 8) < 64 := by omega
        have a7 : 8 * (or / 8) + (or % 8 + (i - 8 * (ow / 8) - ow % 8)) = or + (i - ow) := by omega
        simp [c0, c1, a1, a2, a3, a4, a5, a6, a7]
      · by_cases a1 : 8 * (ow / 8) ≤ i
        · by_cases a4 : ow % 8 ≤ i - 8 * (ow / 8)
          · have a6 : ¬ (64 - n + (i - 8 * (ow / 8) - ow % 8) < 64) := by omega
            simp [c0, c1, a1, a4, a6]
          · simp [c0, c1, a1, a4]
        · simp [c0, c1, a1]
    · by_cases a1 : 8 * (ow / 8) ≤ i
      · have a4 : ¬ (ow % 8 ≤ i - 8 * (ow / 8)) := by omega
        simp [c0, a1, a4]
      · simp [c0, a1]
  refine ⟨hn1, hn2, ?_, ?_⟩
  · intro i hi
    rw [key]
    rcases hi with hi | hi
    · have : ¬ ow ≤ i := by omega
      simp [this]
    · have : ¬ i < ow + n := by omega
      simp [this]
  · intro hz
    refine ⟨?_, ?_⟩
    · intro i h1 h2
      rw [key]; simp [h1, h2, hz i h1 (by omega)]
    · intro i h1 h2
      have : ¬ i < ow + n := by omega
      rw [key]; simp [this, hz i (by omega) h2]

theorem setUpto64_ok_A (d src ow or len : Nat) (h64 : len ≥ 64) (hr0 : or % 8 = 0) (hw0 : ow % 8 = 0) :
    StepOK d src ow or len (writeU64 d (ow / 8) (readU64 src (or / 8))) 64 := by
  have hor : 8 * (or / 8) + or % 8 = or := by omega
  have how : 8 * (ow / 8) + ow % 8 = ow := by omega
  refine ⟨by omega, by omega, ?_, ?_⟩
  · intro i hi
    rw [writeU64, testBit_setRange]
    rcases hi with hi | hi
    · have : i < 8 * (ow / 8) := by omega
      simp [this]
    · have a1 : ¬ i < 8 * (ow / 8) := by omega
      have a2 : ¬ i < 8 * (ow / 8) + 64 := by omega
      simp [a1, a2]
  · intro hz
    refine ⟨?_, ?_⟩
    · intro i h1 h2
      rw [writeU64, testBit_setRange, testBit_readU64]
      have a1 : ¬ i < 8 * (ow / 8) := by omega
      have a2 : i < 8 * (ow / 8) + 64 := by omega
      have a3 : i - 8 * (ow / 8) < 64 := by omega
      have a4 : 8 * (or / 8) + (i - 8 * (ow / 8)) = or + (i - ow) := by omega
      simp [a1, a2, a3, a4]
    · intro i h1 h2
      rw [writeU64, testBit_setRange]
      have a1 : ¬ i < 8 * (ow / 8) := by omega
      have a2 : ¬ i < 8 * (ow / 8) + 64 := by omega
      simp [a1, a2, hz i (by omega) h2]

theorem setUpto64_ok (d src ow or len : Nat) (hlen : 0 < len) :
    StepOK d src ow or len (setUpto64 d src ow or len).1 (setUpto64 d src ow or len).2.2 := by
  unfold setUpto64
  simp only
  by_cases h64 : len ≥ 64
  · simp only [h64, if_true]
    by_cases hr0 : or % 8 = 0
    · by_cases hw0 : ow % 8 = 0
      · simp only [hr0, hw0, if_true]
        exact setUpto64_ok_A d src ow or len h64 hr0 hw0
      · simp only [hr0, hw0, if_true, if_false]
        have := setUpto64_ok_B d src ow or len h64 hr0 hw0
        exact this
    · by_cases hw0 : ow % 8 = 0
      · simp only [hr0, hw0, if_true, if_false]
        exact setUpto64_ok_C d src ow or len h64 hr0 hw0
      · simp only [hr0, hw0, if_false]
        exact setUpto64_ok_D d src ow or len h64 hr0 hw0
  · simp only [h64, if_false]
    by_cases h1 : len = 1
    · subst h1
      simp only [if_true]
      exact setUpto64_ok_E d src ow or
    · simp only [h1, if_false]
      exact setUpto64_ok_F d src ow or len (by omega) (by omega)

theorem setBitsLoop_ok (src ow or len d0 : Nat) :
    ∀ (k d nulls acc : Nat), k = len - acc → acc ≤ len →
      (∀ i, i < ow ∨ ow + len ≤ i → d.testBit i = d0.testBit i) →
      ((∀ i, ow ≤ i → i < ow + len → d0.testBit i = false) →
        (∀ i, ow ≤ i → i < ow + acc → d.testBit i = src.testBit (or + (i - ow))) ∧
        (∀ i, ow + acc ≤ i → i < ow + len → d.testBit i = false)) →
      (∀ i, i < ow ∨ ow + len ≤ i → (setBitsLoop src ow or len d nulls acc).1.testBit i = d0.testBit i) ∧
      ((∀ i, ow ≤ i → i < ow + len → d0.testBit i = false) →
        ∀ i, ow ≤ i → i < ow + len →
          (setBitsLoop src ow or len d nulls acc).1.testBit i = src.testBit (or + (i - ow))) := by
  intro k
  induction k using Nat.strongRecOn with
  | _ k ih =>
    intro d nulls acc hk hacc hframe hcont
    rw [setBitsLoop]
    by_cases hlt : len > acc
    · simp only [hlt, if_true]
      have st := setUpto64_ok d src (ow + acc) (or + acc) (len - acc) (by omega)
      refine ih (len - (acc + (setUpto64 d src (ow + acc) (or + acc) (len - acc)).2.2)) ?_ _ _ _ rfl ?_ ?_ ?_
      · have := st.pos; omega
      · have := st.le; omega
      · intro i hi
        rw [st.frame i (by omega)]
        exact hframe i hi
      · intro hz
        obtain ⟨c1, c2⟩ := hcont hz
        obtain ⟨s1, s2⟩ := st.content (fun i h1 h2 => c2 i h1 (by omega))
        refine ⟨?_, ?_⟩
        · intro i h1 h2
          by_cases hb : i < ow + acc
          · rw [st.frame i (by omega)]; exact c1 i h1 hb
          · rw [s1 i (by omega) (by omega)]
            congr 1; omega
        · intro i h1 h2
          exact s2 i (by omega) (by omega)
    · simp only [hlt, if_false]
      refine ⟨hframe, ?_⟩
      intro hz i h1 h2
      exact (hcont hz).1 i h1 (by omega)


/-! ### counting -/

def cnt (g : Nat → Bool) (m : Nat) : Nat := ((List.range m).filter g).length

theorem cnt_add (g : Nat → Bool) (a b : Nat) :
    cnt g (a + b) = cnt g a + cnt (fun j => g (a + j)) b := by
  unfold cnt
  rw [List.range_add, List.filter_append, List.length_append, List.filter_map, List.length_map]
  rfl

theorem cnt_split (g : Nat → Bool) (a b : Nat) (h : a ≤ b) :
    cnt g b = cnt g a + cnt (fun j => g (a + j)) (b - a) := by
  have : b = a + (b - a) := by omega
  conv => lhs; rw [this]
  exact cnt_add g a (b - a)

theorem cnt_congr (g h : Nat → Bool) (m : Nat) (e : ∀ i, i < m → g i = h i) : cnt g m = cnt h m := by
  unfold cnt
  congr 1
  apply List.filter_congr
  intro x hx
  exact e x (List.mem_range.mp hx)

theorem cnt_false (m : Nat) : cnt (fun _ => false) m = 0 := by
  unfold cnt; simp

theorem popcount_eq_cnt (w : Nat) : popcount w 64 = cnt (fun j => w.testBit j) 64 := rfl

/-- sum of popcounts of the first `n` full chunks -/
theorem sum_full (g : Nat → Bool) (f : Nat → Nat)
    (hf : ∀ k j, j < 64 → (f k).testBit j = g (64 * k + j)) (n : Nat) :
    (((List.range n).map f).map (fun w => popcount w 64)).sum = cnt g (64 * n) := by
  induction n with
  | zero => simp [cnt]
  | succ n ih =>
    rw [List.range_succ, List.map_append, List.map_append, List.sum_append, ih]
    simp only [List.map_cons, List.map_nil, List.sum_cons, List.sum_nil, Nat.add_zero]
    rw [show 64 * (n + 1) = 64 * n + 64 by omega, cnt_add, popcount_eq_cnt]
    congr 1
    exact cnt_congr _ _ _ (fun j hj => hf n j hj)


end ArrowModel.C19
