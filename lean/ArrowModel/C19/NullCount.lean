import ArrowModel.C19.Theorems
/-
C19 — the zero-bit count returned by `set_bits` (per-step lemma for all five branches).
-/
namespace ArrowModel.C19
open ArrowModel.Generated.C19

theorem cnt_window (g h : Nat → Bool) (ws n : Nat) (hfit : ws + n ≤ 64)
    (hg : ∀ j, j < 64 → g j = (decide (ws ≤ j) && decide (j < ws + n) && h (j - ws))) :
    cnt g 64 = cnt h n := by
  rw [cnt_split g ws 64 (by omega)]
  have z1 : cnt g ws = 0 := by
    rw [← cnt_false ws]
    apply cnt_congr
    intro i hi
    have : ¬ ws ≤ i := by omega
    rw [hg i (by omega)]; simp [this]
  rw [z1, Nat.zero_add, cnt_split _ n (64 - ws) (by omega)]
  have z2 : cnt (fun j => g (ws + (n + j))) (64 - ws - n) = 0 := by
    rw [← cnt_false (64 - ws - n)]
    apply cnt_congr
    intro i hi
    have : ¬ (ws + (n + i) < ws + n) := by omega
    rw [hg _ (by omega)]; simp [this]
  rw [z2, Nat.add_zero]
  apply cnt_congr
  intro i hi
  rw [hg _ (by omega)]
  have a : ws ≤ ws + i := by omega
  have b : ws + i < ws + n := by omega
  have c : ws + i - ws = i := by omega
  simp [a, b, c]

theorem cnt_le (g : Nat → Bool) (m : Nat) : cnt g m ≤ m := by
  unfold cnt
  calc ((List.range m).filter g).length ≤ (List.range m).length := List.length_filter_le _ _
    _ = m := List.length_range

/-- zero bits reported by one `set_upto_64bits` call = number of zero bits among the `n` source
bits it copied -/
theorem setUpto64_nulls (d src ow or len : Nat) (hlen : 0 < len) :
    (setUpto64 d src ow or len).2.1 =
      (setUpto64 d src ow or len).2.2 - cnt (fun t => src.testBit (or + t)) (setUpto64 d src ow or len).2.2 := by
  have hrs : or % 8 < 8 := Nat.mod_lt _ (by decide)
  have hws : ow % 8 < 8 := Nat.mod_lt _ (by decide)
  have hor : 8 * (or / 8) + or % 8 = or := by omega
  unfold setUpto64
  simp only
  by_cases h64 : len ≥ 64
  · simp only [h64, if_true]
    by_cases hr0 : or % 8 = 0
    · by_cases hw0 : ow % 8 = 0
      · simp only [hr0, hw0, if_true]
        rw [popcount_eq_cnt, cnt_window _ (fun t => src.testBit (or + t)) 0 64 (by omega)]
        intro j hj
        rw [testBit_readU64]
        have e : 8 * (or / 8) + j = or + (j - 0) := by omega
        simp [hj, e]
      · simp only [hr0, hw0, if_true, if_false]
        rw [popcount_eq_cnt, cnt_window _ (fun t => src.testBit (or + t)) (ow % 8) (64 - ow % 8) (by omega)]
        intro j hj
        rw [testBit_u64, Nat.testBit_shiftLeft, testBit_readU64]
        by_cases c : ow % 8 ≤ j
        · have a1 : j - ow % 8 < 64 := by omega
          have a2 : j < ow % 8 + (64 - ow % 8) := by omega
          have e : 8 * (or / 8) + (j - ow % 8) = or + (j - ow % 8) := by omega
          simp [hj, c, a1, a2, e]
        · simp [hj, c]
    · by_cases hw0 : ow % 8 = 0
      · simp only [hr0, hw0, if_true, if_false]
        have hl : SET_BITS_56_LEN = 56 := rfl
        rw [hl, mask56, popcount_eq_cnt, cnt_window _ (fun t => src.testBit (or + t)) 0 56 (by omega)]
        intro j hj
        rw [Nat.testBit_and, Nat.testBit_two_pow_sub_one, Nat.testBit_shiftRight, testBit_readU64]
        by_cases c : j < 56
        · have a1 : or % 8 + j < 64 := by omega
          have e : 8 * (or / 8) + (or % 8 + j) = or + (j - 0) := by omega
          simp [c, a1, e]
        · simp [c]
      · simp only [hr0, hw0, if_false]
        rw [popcount_eq_cnt,
          cnt_window _ (fun t => src.testBit (or + t)) (ow % 8) (64 - max (or % 8) (ow % 8)) (by omega)]
        intro j hj
        rw [testBit_u64, Nat.testBit_shiftLeft, Nat.testBit_shiftRight, testBit_readU64]
        by_cases c : ow % 8 ≤ j
        · by_cases c2 : j < ow % 8 + (64 - max (or % 8) (ow % 8))
          · have a1 : or % 8 + (j - ow % 8) < 64 := by omega
            have e : 8 * (or / 8) + (or % 8 + (j - ow % 8)) = or + (j - ow % 8) := by omega
            simp [hj, c, c2, a1, e]
          · have a1 : ¬ (or % 8 + (j - ow % 8) < 64) := by omega
            simp [hj, c, c2, a1]
        · simp [hj, c]
  · simp only [h64, if_false]
    by_cases h1 : len = 1
    · subst h1
      simp only [if_true]
      -- byteChunk is the source bit itself
      have hb : ((readByte src (or / 8) >>> (or % 8)) &&& 1) = if src.testBit or then 1 else 0 := by
        apply Nat.eq_of_testBit_eq
        intro i
        rw [Nat.testBit_and, Nat.testBit_shiftRight, testBit_readByte,
          show (1 : Nat) = 2 ^ 1 - 1 from rfl, Nat.testBit_two_pow_sub_one]
        by_cases hi : i = 0
        · subst hi
          by_cases hs : src.testBit or <;> simp [hs, hrs, hor]
        · have : ¬ i < 1 := by omega
          by_cases hs : src.testBit or
          · have t1 : Nat.testBit 1 i = false := by
              rw [show (1 : Nat) = 2 ^ 1 - 1 from rfl, Nat.testBit_two_pow_sub_one]; simp [this]
            simp [hs, this, t1]
          · simp [hs, this]
      rw [hb]
      have hc : cnt (fun t => src.testBit (or + t)) 1 = if src.testBit or then 1 else 0 := by
        unfold cnt
        by_cases hs : src.testBit or <;> simp [List.range_succ, hs]
      rw [hc]
      by_cases hs : src.testBit or <;> simp [hs]
    · simp only [h1, if_false]
      have hn4 : min len (64 - max (or % 8) (ow % 8)) + ow % 8 ≤ 64 := by omega
      have hn3 : min len (64 - max (or % 8) (ow % 8)) + or % 8 ≤ 64 := by omega
      have hc1 : min len (64 - max (or % 8) (ow % 8)) + or % 8 ≤
          8 * ceilDiv (min len (64 - max (or % 8) (ow % 8)) + or % 8) 8 := by unfold ceilDiv; omega
      rw [popcount_eq_cnt,
        cnt_window _ (fun t => src.testBit (or + t)) (ow % 8) (min len (64 - max (or % 8) (ow % 8))) (by omega)]
      intro j hj
      rw [testBit_u64, Nat.testBit_shiftLeft, Nat.testBit_and, Nat.testBit_shiftRight, Nat.testBit_shiftRight,
        testBit_allOnes64, testBit_readBytes]
      by_cases c : ow % 8 ≤ j
      · by_cases c2 : j < ow % 8 + min len (64 - max (or % 8) (ow % 8))
        · have a1 : or % 8 + (j - ow % 8) < 8 * ceilDiv (min len (64 - max (or % 8) (ow % 8)) + or % 8) 8 := by omega
          have a2 : 64 - min len (64 - max (or % 8) (ow % 8)) + (j - ow % 8) < 64 := by omega
          have e : 8 * (or / 8) + (or % 8 + (j - ow % 8)) = or + (j - ow % 8) := by omega
          simp [hj, c, c2, a1, a2, e]
        · have a2 : ¬ (64 - min len (64 - max (or % 8) (ow % 8)) + (j - ow % 8) < 64) := by omega
          simp [hj, c, c2, a2]
      · simp [hj, c]

theorem setBitsLoop_nulls (src ow or len : Nat) :
    ∀ (k d nulls acc : Nat), k = len - acc → acc ≤ len →
      (setBitsLoop src ow or len d nulls acc).2 =
        nulls + ((len - acc) - cnt (fun t => src.testBit (or + acc + t)) (len - acc)) := by
  intro k
  induction k using Nat.strongRecOn with
  | _ k ih =>
    intro d nulls acc hk hacc
    rw [setBitsLoop]
    by_cases hlt : len > acc
    · simp only [hlt, if_true]
      have st := setUpto64_ok d src (ow + acc) (or + acc) (len - acc) (by omega)
      have hn := setUpto64_nulls d src (ow + acc) (or + acc) (len - acc) (by omega)
      have hpos := st.pos
      have hle := st.le
      rw [ih (len - (acc + (setUpto64 d src (ow + acc) (or + acc) (len - acc)).2.2)) (by omega) _ _ _ rfl (by omega), hn]
      generalize (setUpto64 d src (ow + acc) (or + acc) (len - acc)).2.2 = n at *
      have hs := cnt_split (fun t => src.testBit (or + acc + t)) n (len - acc) (by omega)
      have e : cnt (fun j => src.testBit (or + acc + (n + j))) (len - acc - n) =
          cnt (fun t => src.testBit (or + (acc + n) + t)) (len - (acc + n)) := by
        have : len - acc - n = len - (acc + n) := by omega
        rw [this]
        apply cnt_congr
        intro i _
        congr 1; omega
      have b1 := cnt_le (fun t => src.testBit (or + acc + t)) n
      have b2 := cnt_le (fun t => src.testBit (or + (acc + n) + t)) (len - (acc + n))
      rw [e] at hs
      omega
    · simp only [hlt, if_false]
      have : len - acc = 0 := by omega
      simp [this, cnt]

/-- **`set_bits` returns the number of zero bits of the copied source range.** -/
theorem setBits_nullCount (d src ow or len : Nat) :
    (setBits d src ow or len).2 = len - countTrue (bitsOf src or len) := by
  unfold setBits
  rw [setBitsLoop_nulls src ow or len (len - 0) d 0 0 rfl (by omega)]
  have hspec : countTrue (bitsOf src or len) = cnt (fun i => src.testBit (or + i)) len := by
    unfold countTrue bitsOf cnt
    rw [List.filter_map, List.length_map]
    rfl
  rw [hspec]
  simp

end ArrowModel.C19
