import ArrowModel.C19.Lemmas
import ArrowModel.C19.InPlace
/-
C19 — property theorems.  "Every operation on bit-packed data returns exactly what the same
operation on the corresponding sequence of booleans returns; bits outside the addressed
range are neither read as data nor modified."

All statements quantify over *every* buffer content, offset and length (no bound).
Buffers are naturals (little-endian bytes), `bitsOf v off len` is the logical content.
-/
namespace ArrowModel.C19

/-- **Chunk views** (`BitChunks::iter_padded`, i.e. `BitChunkIterator::next` +
`remainder_bits`): there are exactly `len/64 + 1` words; bit `j` of word `k` is bit
`off + 64k + j` of the buffer when that lies inside the range, and **zero otherwise**
(padding bits are never data). -/
theorem bitChunks_exact (buf off len : Nat) :
    (iterPadded buf off len).length = len / 64 + 1 ∧
    ∀ k, k ≤ len / 64 → ∃ w, (iterPadded buf off len)[k]? = some w ∧
      ∀ j, w.testBit j =
        (decide (j < 64) && decide (64 * k + j < len) && buf.testBit (off + 64 * k + j)) :=
  ⟨iterPadded_length buf off len, fun k hk => iterPadded_getElem? buf off len k hk⟩

/-- **`set_bits` modifies nothing outside the addressed range** — unconditionally, for every
previous destination content, including the bits sharing the boundary bytes. -/
theorem setBits_frame (d src ow or len i : Nat) (h : i < ow ∨ ow + len ≤ i) :
    (setBits d src ow or len).1.testBit i = d.testBit i := by
  unfold setBits
  exact (setBitsLoop_ok src ow or len d (len - 0) d 0 0 rfl (by omega) (fun _ _ => rfl)
    (fun hz => ⟨fun i h1 h2 => by omega, fun i h1 h2 => hz i (by omega) h2⟩)).1 i h

/-- **`set_bits` copies the source range** whenever the destination range was zero
beforehand (the precondition its callers establish: freshly zeroed / appended buffers).
Together with `setBits_frame` the whole destination equals `copyBitsSpec`. -/
theorem setBits_copies (d src ow or len : Nat)
    (hz : ∀ i, ow ≤ i → i < ow + len → d.testBit i = false) (i : Nat) :
    (setBits d src ow or len).1.testBit i = copyBitsSpec d src ow or len i := by
  unfold copyBitsSpec
  by_cases h : ow ≤ i ∧ i < ow + len
  · simp only [h, and_self, if_true]
    unfold setBits
    exact (setBitsLoop_ok src ow or len d (len - 0) d 0 0 rfl (by omega) (fun _ _ => rfl)
      (fun hz => ⟨fun i h1 h2 => by omega, fun i h1 h2 => hz i (by omega) h2⟩)).2 hz i h.1 h.2
  · simp only [h, if_false]
    exact setBits_frame d src ow or len i (by omega)

/-- non-vacuity: a destination with set bits on both sides of a zero range -/
example : ∀ i, 3 ≤ i → i < 3 + 9 → (0xF007 : Nat).testBit i = false := by
  intro i h1 h2
  have : i = 3 ∨ i = 4 ∨ i = 5 ∨ i = 6 ∨ i = 7 ∨ i = 8 ∨ i = 9 ∨ i = 10 ∨ i = 11 := by omega
  rcases this with h | h | h | h | h | h | h | h | h <;> subst h <;> decide

/-- **Word-at-a-time binary construction** (`bitwise_bin_op_helper`,
`BooleanBuffer::from_bitwise_binary_op`): if `op` acts bitwise as `f` on 64-bit words then
bit `i < len` of the result is `f` of the corresponding input bits, for all offsets. -/
theorem binOpWords_pointwise (op : Nat → Nat → Nat) (f : Bool → Bool → Bool)
    (hop : ∀ a b j, j < 64 → (op a b).testBit j = f (a.testBit j) (b.testBit j))
    (l lo r ro len i : Nat) (hi : i < len) :
    (binOpWords op l lo r ro len).testBit i = f (l.testBit (lo + i)) (r.testBit (ro + i)) := by
  unfold binOpWords
  rw [testBit_packWords]
  have hk : i / 64 ≤ len / 64 := Nat.div_le_div_right (by omega)
  obtain ⟨w1, e1, b1⟩ := iterPadded_getElem? l lo len (i / 64) hk
  obtain ⟨w2, e2, b2⟩ := iterPadded_getElem? r ro len (i / 64) hk
  have hm : i % 64 < 64 := Nat.mod_lt _ (by decide)
  have hx : 64 * (i / 64) + i % 64 = i := by omega
  rw [List.getElem?_zipWith, e1, e2]
  simp only [Option.getD_some, testBit_u64, hm, decide_true, Bool.true_and]
  rw [hop _ _ _ hm, b1, b2]
  have a1 : lo + 64 * (i / 64) + i % 64 = lo + i := by omega
  have a2 : ro + 64 * (i / 64) + i % 64 = ro + i := by omega
  simp [hm, hx, hi, a1, a2]

/-- **Word-at-a-time unary construction** (`bitwise_unary_op_helper`). -/
theorem unOpWords_pointwise (op : Nat → Nat) (f : Bool → Bool)
    (hop : ∀ a j, j < 64 → (op a).testBit j = f (a.testBit j))
    (l lo len i : Nat) (hi : i < len) :
    (unOpWords op l lo len).testBit i = f (l.testBit (lo + i)) := by
  unfold unOpWords
  rw [testBit_packWords]
  have hk : i / 64 ≤ len / 64 := Nat.div_le_div_right (by omega)
  obtain ⟨w1, e1, b1⟩ := iterPadded_getElem? l lo len (i / 64) hk
  have hm : i % 64 < 64 := Nat.mod_lt _ (by decide)
  have hx : 64 * (i / 64) + i % 64 = i := by omega
  rw [List.getElem?_map, e1]
  simp only [Option.map_some, Option.getD_some, testBit_u64, hm, decide_true, Bool.true_and]
  rw [hop _ _ hm, b1]
  have a1 : lo + 64 * (i / 64) + i % 64 = lo + i := by omega
  simp [hm, hx, hi, a1]

/-- **Counting** (`count_set_bits_offset`, `UnalignedBitChunk::count_ones`-style: sum of the
popcounts of the padded chunk words) equals the number of `true`s of the logical sequence —
the zero padding of the remainder word never contributes. -/
theorem countSetBits_eq (buf off len : Nat) :
    countSetBits buf off len = countTrue (bitsOf buf off len) := by
  have hbo : off % 8 < 8 := Nat.mod_lt _ (by decide)
  have hoff : 8 * (off / 8) + off % 8 = off := by omega
  have hspec : countTrue (bitsOf buf off len) = cnt (fun i => buf.testBit (off + i)) len := by
    unfold countTrue bitsOf cnt
    rw [List.filter_map, List.length_map]
    rfl
  rw [hspec]
  unfold countSetBits iterPadded
  simp only [List.map_append, List.sum_append, List.map_cons, List.map_nil, List.sum_cons, List.sum_nil,
    Nat.add_zero]
  rw [sum_full (fun i => buf.testBit (off + i))]
  · rw [cnt_split (fun i => buf.testBit (off + i)) (64 * (len / 64)) len (by omega)]
    have hr : len - 64 * (len / 64) = len % 64 := by omega
    rw [hr]
    congr 1
    rw [popcount_eq_cnt, cnt_split _ (len % 64) 64 (by omega)]
    have z : cnt (fun j => (remainderBits (buf >>> (8 * (off / 8))) (off % 8) (len / 64) (len % 64)).testBit (len % 64 + j))
        (64 - len % 64) = 0 := by
      rw [← cnt_false (64 - len % 64)]
      apply cnt_congr
      intro i _
      rw [testBit_remainderBits _ _ _ _ _ hbo (Nat.mod_lt _ (by decide))]
      have : ¬ (len % 64 + i < len % 64) := by omega
      simp [this]
    rw [z, Nat.add_zero]
    apply cnt_congr
    intro i hi
    rw [testBit_remainderBits _ _ _ _ _ hbo (Nat.mod_lt _ (by decide)), Nat.testBit_shiftRight]
    have a2 : 8 * (off / 8) + (64 * (len / 64) + off % 8 + i) = off + (64 * (len / 64) + i) := by omega
    simp [hi, a2]
  · intro k j hj
    rw [testBit_chunkAt _ _ _ _ hbo, Nat.testBit_shiftRight]
    have a2 : 8 * (off / 8) + (64 * k + off % 8 + j) = off + (64 * k + j) := by omega
    simp [hj, a2]

/-- the four word operations used by `buffer_bin_{and,or,xor,and_not}` are bitwise -/
theorem and_bitwise (a b j : Nat) : (a &&& b).testBit j = (a.testBit j && b.testBit j) := Nat.testBit_and ..
theorem or_bitwise (a b j : Nat) : (a ||| b).testBit j = (a.testBit j || b.testBit j) := Nat.testBit_or ..
theorem xor_bitwise (a b j : Nat) : (a ^^^ b).testBit j = (a.testBit j ^^ b.testBit j) := Nat.testBit_xor ..

/-- **In-place binary operation** (`bit_util::apply_bitwise_binary_op`): for every word operation
that acts bitwise as `f`, every destination/source offset and every length, exactly the bits
`[dofs, dofs+len)` of the destination become `f old src`, and **every other bit is unchanged** —
including the bits sharing the first and last byte of the range. -/
theorem applyBinaryOp_exact (op : Nat → Nat → Nat) (f : Bool → Bool → Bool)
    (hop : ∀ a b j, j < 64 → (op a b).testBit j = f (a.testBit j) (b.testBit j))
    (d dofs r ro len i : Nat) :
    (applyBinaryOp op d dofs r ro len).testBit i =
      if dofs ≤ i ∧ i < dofs + len then f (d.testBit i) (r.testBit (ro + (i - dofs))) else d.testBit i := by
  unfold applyBinaryOp
  by_cases h0 : len = 0
  · subst h0
    have : ¬ (dofs ≤ i ∧ i < dofs + 0) := by omega
    simp only [if_true, this, if_false]
  · simp only [h0, if_false]
    by_cases ha : dofs % 8 = 0
    · simp only [ha, if_true]
      exact testBit_alignedBinOp op f hop d dofs r ro len i ha
    · simp only [ha, if_false]
      have hb8 : dofs % 8 < 8 := Nat.mod_lt _ (by decide)
      have hr8 : ro % 8 < 8 := Nat.mod_lt _ (by decide)
      have hro : 8 * (ro / 8) + ro % 8 = ro := by omega
      have hn : min (8 - dofs % 8) len < 8 := by omega
      have hn1 : 0 < min (8 - dofs % 8) len := by omega
      have hmin : min (8 - dofs % 8) (min (8 - dofs % 8) len) = min (8 - dofs % 8) len := by omega
      -- the first partial byte
      have h1 : ∀ t, (alignToByte (fun l => op l (readUpToByte (r >>> (8 * (ro / 8))) (min (8 - dofs % 8) len) (ro % 8)))
            d dofs (min (8 - dofs % 8) len)).testBit t =
          if dofs ≤ t ∧ t < dofs + min (8 - dofs % 8) len then f (d.testBit t) (r.testBit (ro + (t - dofs)))
          else d.testBit t := by
        intro t
        rw [testBit_alignToByte _
          (fun j b => f b ((readUpToByte (r >>> (8 * (ro / 8))) (min (8 - dofs % 8) len) (ro % 8)).testBit j))
          (fun x j hj => hop x _ j (by omega)) d dofs _ t ha, hmin]
        by_cases c : dofs ≤ t ∧ t < dofs + min (8 - dofs % 8) len
        · simp only [c, and_self, if_true]
          rw [testBit_readUpToByte _ _ _ _ hn hr8, Nat.testBit_shiftRight]
          have a1 : t - dofs < min (8 - dofs % 8) len := by omega
          have a2 : 8 * (ro / 8) + (ro % 8 + (t - dofs)) = ro + (t - dofs) := by omega
          simp [a1, a2]
        · simp only [c, if_false]
      by_cases hl : len - min (8 - dofs % 8) len = 0
      · simp only [hl, if_true]
        rw [h1]
        have : min (8 - dofs % 8) len = len := by omega
        rw [this]
      · simp only [hl, if_false]
        have hnn : min (8 - dofs % 8) len = 8 - dofs % 8 := by omega
        have hal : (dofs + min (8 - dofs % 8) len) % 8 = 0 := by omega
        rw [testBit_alignedBinOp op f hop _ _ r _ _ i hal, h1]
        by_cases c1 : dofs ≤ i ∧ i < dofs + min (8 - dofs % 8) len
        · have n2 : ¬ (dofs + min (8 - dofs % 8) len ≤ i ∧
              i < dofs + min (8 - dofs % 8) len + (len - min (8 - dofs % 8) len)) := by omega
          have p : dofs ≤ i ∧ i < dofs + len := by omega
          simp [c1, n2, p]
        · by_cases c2 : dofs + min (8 - dofs % 8) len ≤ i ∧
              i < dofs + min (8 - dofs % 8) len + (len - min (8 - dofs % 8) len)
          · have p : dofs ≤ i ∧ i < dofs + len := by omega
            have e : ro + min (8 - dofs % 8) len + (i - (dofs + min (8 - dofs % 8) len)) = ro + (i - dofs) := by omega
            have n3 : ¬ (i < dofs + min (8 - dofs % 8) len) := by omega
            simp [c2, p, e, n3]
          · have p : ¬ (dofs ≤ i ∧ i < dofs + len) := by omega
            simp [c1, c2, p]

/-- **In-place unary operation** (`bit_util::apply_bitwise_unary_op`): exactly the bits
`[dofs, dofs+len)` become `g old`; every other bit is unchanged. -/
theorem applyUnaryOp_exact (opu : Nat → Nat) (g : Bool → Bool)
    (hop : ∀ a j, j < 64 → (opu a).testBit j = g (a.testBit j))
    (d dofs len i : Nat) :
    (applyUnaryOp opu d dofs len).testBit i =
      if dofs ≤ i ∧ i < dofs + len then g (d.testBit i) else d.testBit i := by
  unfold applyUnaryOp
  by_cases h0 : len = 0
  · subst h0
    have : ¬ (dofs ≤ i ∧ i < dofs + 0) := by omega
    simp only [if_true, this, if_false]
  · simp only [h0, if_false]
    by_cases ha : dofs % 8 = 0
    · simp only [ha, if_true]
      exact testBit_alignedUnOp opu g hop d dofs len i ha
    · simp only [ha, if_false]
      have hb8 : dofs % 8 < 8 := Nat.mod_lt _ (by decide)
      have h1 : ∀ t, (alignToByte opu d dofs len).testBit t =
          if dofs ≤ t ∧ t < dofs + min (8 - dofs % 8) len then g (d.testBit t) else d.testBit t := by
        intro t
        rw [testBit_alignToByte opu (fun _ b => g b) (fun x j hj => hop x j (by omega)) d dofs len t ha]
      by_cases hl : len - (8 - dofs % 8) = 0
      · simp only [hl, if_true]
        rw [h1]
        have : min (8 - dofs % 8) len = len := by omega
        rw [this]
      · simp only [hl, if_false]
        have hnn : min (8 - dofs % 8) len = 8 - dofs % 8 := by omega
        have hal : (dofs + (8 - dofs % 8)) % 8 = 0 := by omega
        rw [testBit_alignedUnOp opu g hop _ _ _ i hal, h1, hnn]
        by_cases c1 : dofs ≤ i ∧ i < dofs + (8 - dofs % 8)
        · have n2 : ¬ (dofs + (8 - dofs % 8) ≤ i ∧ i < dofs + (8 - dofs % 8) + (len - (8 - dofs % 8))) := by omega
          have p : dofs ≤ i ∧ i < dofs + len := by omega
          simp [c1, n2, p]
        · by_cases c2 : dofs + (8 - dofs % 8) ≤ i ∧ i < dofs + (8 - dofs % 8) + (len - (8 - dofs % 8))
          · have p : dofs ≤ i ∧ i < dofs + len := by omega
            have n3 : ¬ (i < dofs + (8 - dofs % 8)) := by omega
            simp [c2, p, n3]
          · have p : ¬ (dofs ≤ i ∧ i < dofs + len) := by omega
            simp [c1, c2, p]

/-- **In-place assignment operators** (`BooleanBuffer` `&=`, `|=`, `^=`;
`bitwise_bin_op_assign`): whichever arm runs — in place on a uniquely owned buffer, or a copy —
the logical result is the pointwise operation of the two operands' bit sequences, for all
offsets of both operands. -/
theorem bitAssign_pointwise (uniq : Bool) (op : Nat → Nat → Nat) (f : Bool → Bool → Bool)
    (hop : ∀ a b j, j < 64 → (op a b).testBit j = f (a.testBit j) (b.testBit j))
    (l lo r ro len : Nat) :
    bitAssign uniq op l lo r ro len =
      (List.range len).map (fun i => f (l.testBit (lo + i)) (r.testBit (ro + i))) := by
  unfold bitAssign
  cases uniq
  · simp only [Bool.false_eq_true, if_false]
    apply List.map_congr_left
    intro i hi
    exact binOpWords_pointwise op f hop l lo r ro len i (List.mem_range.mp hi)
  · simp only [if_true]
    apply List.map_congr_left
    intro i hi
    have hi' := List.mem_range.mp hi
    rw [applyBinaryOp_exact op f hop]
    have c : lo ≤ lo + i ∧ lo + i < lo + len := by omega
    have e : lo + i - lo = i := by omega
    simp [c, e]

/-- non-vacuity: `&&&` is a bitwise word operation in the sense required above -/
example : ∀ a b j : Nat, j < 64 → (a &&& b).testBit j = (a.testBit j && b.testBit j) :=
  fun a b j _ => Nat.testBit_and a b j

open ArrowModel.Generated.C19 in
/-- Tie to the source text: every expression of `/repo` that the model of this property mirrors —
`BitChunks::new` (offset and chunk/remainder split), `BitChunkIterator::next` (word assembled from
the current word and one more byte), `remainder_bits` (byte-wise assembly and final mask), the
`set_bits` loop, all five arms of `set_upto_64bits` and `or_write_u64_bytes`, `NullBuffer::expand`
and the alignment prologue of `apply_bitwise_binary_op` — is found verbatim (modulo whitespace) in
the current source by `tools/translate.py`.  If any of them is edited its item is LOST and this
obligation fails, so the model and the proofs have to be re-read against the new code.  The
captured literals are the word width and byte width the model hard-codes. -/
theorem source_shape_ties :
    (SET_BITS_56_MASK_lost = false ∧
     SET_BITS_56_LEN_lost = false ∧
     SHAPE_BITCHUNKS_NEW_lost = false ∧
     SHAPE_BITCHUNKS_NEXT_lost = false ∧
     SHAPE_REMAINDER_BITS_lost = false ∧
     SHAPE_SET_BITS_LOOP_lost = false ∧
     SHAPE_SET_UPTO_64_SPLIT_lost = false ∧
     SHAPE_SET_UPTO_64_WRITE_SHIFT_lost = false ∧
     SHAPE_SET_UPTO_64_BOTH_SHIFT_lost = false ∧
     SHAPE_SET_UPTO_64_ONE_BIT_lost = false ∧
     SHAPE_SET_UPTO_64_SHORT_lost = false ∧
     SHAPE_OR_WRITE_lost = false ∧
     SHAPE_NULL_EXPAND_lost = false ∧
     SHAPE_APPLY_BINARY_ALIGN_lost = false) ∧
    SHAPE_BITCHUNKS_NEW = 64 ∧ SHAPE_BITCHUNKS_NEXT = 64 ∧ SHAPE_REMAINDER_BITS = 8 ∧
    SHAPE_SET_UPTO_64_SPLIT = 64 ∧ SHAPE_SET_UPTO_64_WRITE_SHIFT = 64 ∧
    SHAPE_SET_UPTO_64_BOTH_SHIFT = 64 ∧ SHAPE_SET_UPTO_64_ONE_BIT = 1 ∧
    SHAPE_SET_UPTO_64_SHORT = 64 ∧ SHAPE_OR_WRITE = 64 := by
  decide

end ArrowModel.C19
