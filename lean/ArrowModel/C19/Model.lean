/-
C19 — algorithm model of the bit-packed mask primitives in `arrow-buffer`.

A byte buffer is a natural number read little-endian: byte `k` is `(v >>> 8k) % 256`,
bit `i` (LSB-first inside a byte, as Arrow bitmaps are) is `v.testBit i`.
Every function mirrors the Rust function named in its doc comment; `u64` arithmetic is
made explicit with `% 2^64`.
Imports only the generated constants (tools/translate.py), so the driver links.
-/
import ArrowModel.Generated.C19
namespace ArrowModel.C19
open ArrowModel.Generated.C19

/-- truncation to a `u64` -/
def u64 (x : Nat) : Nat := x % 2 ^ 64

/-- `u64::MAX` -/
def allOnes64 : Nat := 2 ^ 64 - 1

/-! ### reading -/

/-- `data[k]` -/
def readByte (v k : Nat) : Nat := (v >>> (8 * k)) % 256

/-- `ptr.add(k).cast::<u64>().read_unaligned()` (little endian) -/
def readU64 (v k : Nat) : Nat := u64 (v >>> (8 * k))

/-- `bit_mask.rs::read_bytes_to_u64(data, k, count)` -/
def readBytes (v k count : Nat) : Nat := (v >>> (8 * k)) % 2 ^ (8 * count)

/-- `bit_util::get_bit(data, i)`: `data[i / 8] & (1 << (i % 8)) != 0` -/
def getBit (v i : Nat) : Bool := (readByte v (i / 8) >>> (i % 8)) % 2 = 1

/-- `bit_util::ceil` -/
def ceilDiv (a b : Nat) : Nat := (a + b - 1) / b

/-! ### `BitChunks` (bit_chunk_iterator.rs) -/

/-- `BitChunkIterator::next` for chunk number `idx`; `v` is the buffer from
`byte_offset` on and `bo = offset % 8`. -/
def chunkAt (v bo idx : Nat) : Nat :=
  let cur := readU64 v (8 * idx)
  if bo = 0 then cur
  else
    let next := readByte v (8 * (idx + 1))
    ((cur >>> bo) ||| u64 (next <<< (64 - bo)))

/-- the loop `for i in 1..byte_len { bits |= (byte as u64) << (i*8 - bit_offset) }`
of `BitChunks::remainder_bits`, starting at `i` with `n` iterations left. -/
def remLoop (v base bo : Nat) : Nat → Nat → Nat → Nat
  | 0, _, bits => bits
  | n + 1, i, bits =>
    remLoop v base bo n (i + 1) (bits ||| u64 (readByte v (base + i) <<< (i * 8 - bo)))

/-- `BitChunks::remainder_bits` -/
def remainderBits (v bo chunkLen remLen : Nat) : Nat :=
  if remLen = 0 then 0
  else
    let byteLen := ceilDiv (remLen + bo) 8
    let base := chunkLen * 8
    let bits := readByte v base >>> bo
    let bits := remLoop v base bo (byteLen - 1) 1 bits
    bits &&& (u64 (1 <<< remLen) - 1)

/-- `BitChunks::new(buffer, offset, len).iter_padded()` as a list of words.
`buf` is the whole buffer; the constructor slices it at `offset / 8`. -/
def iterPadded (buf offset len : Nat) : List Nat :=
  let v := buf >>> (8 * (offset / 8))
  let bo := offset % 8
  let chunkLen := len / 64
  let remLen := len % 64
  (List.range chunkLen).map (chunkAt v bo) ++ [remainderBits v bo chunkLen remLen]

/-! ### writing -/

/-- replace bits `[off, off+w)` of `d` by the low `w` bits of `x` -/
def setRange (d off w x : Nat) : Nat :=
  (d % 2 ^ off) ||| ((x % 2 ^ w) <<< off) ||| ((d >>> (off + w)) <<< (off + w))

/-- `write_u64_bytes(data, k, chunk)` -/
def writeU64 (d k chunk : Nat) : Nat := setRange d (8 * k) 64 chunk

/-- `or_write_u64_bytes(data, k, chunk)`: ORs **only the first byte** of the
destination into `chunk`, then overwrites 8 bytes. -/
def orWriteU64 (d k chunk : Nat) : Nat := setRange d (8 * k) 64 (chunk ||| readByte d k)

def popcount (x w : Nat) : Nat := ((List.range w).filter (fun i => x.testBit i)).length

/-- `set_upto_64bits`: returns (new destination, zero bits counted, bits set). -/
def setUpto64 (d src ow or len : Nat) : Nat × Nat × Nat :=
  let rb := or / 8
  let rs := or % 8
  let wb := ow / 8
  let ws := ow % 8
  if len ≥ 64 then
    let chunk := readU64 src rb
    if rs = 0 then
      if ws = 0 then
        (writeU64 d wb chunk, 64 - popcount chunk 64, 64)
      else
        let n := 64 - ws
        let chunk := u64 (chunk <<< ws)
        (orWriteU64 d wb chunk, n - popcount chunk 64, n)
    else if ws = 0 then
      let n := SET_BITS_56_LEN
      let chunk := (chunk >>> rs) &&& SET_BITS_56_MASK
      (writeU64 d wb chunk, n - popcount chunk 64, n)
    else
      let n := 64 - max rs ws
      let chunk := u64 ((chunk >>> rs) <<< ws)
      (orWriteU64 d wb chunk, n - popcount chunk 64, n)
  else if len = 1 then
    let byteChunk := (readByte src rb >>> rs) &&& 1
    (d ||| (((byteChunk <<< ws) % 256) <<< (8 * wb)), byteChunk ^^^ 1, 1)
  else
    let n := min len (64 - max rs ws)
    let bytes := ceilDiv (n + rs) 8
    let chunk := readBytes src rb bytes
    let mask := allOnes64 >>> (64 - n)
    let chunk := (chunk >>> rs) &&& mask
    let chunk := u64 (chunk <<< ws)
    let wbytes := ceilDiv (n + ws) 8
    (d ||| ((chunk % 2 ^ (8 * wbytes)) <<< (8 * wb)), n - popcount chunk 64, n)

theorem setUpto64_pos (d src ow or len : Nat) (h : 0 < len) :
    0 < (setUpto64 d src ow or len).2.2 := by
  unfold setUpto64
  have h1 : or % 8 < 8 := Nat.mod_lt _ (by decide)
  have h2 : ow % 8 < 8 := Nat.mod_lt _ (by decide)
  simp only
  split
  · split
    · split <;> simp <;> omega
    · split <;> simp [SET_BITS_56_LEN] <;> omega
  · split
    · simp
    · simp; omega

/-- the `while len > acc` loop of `set_bits`; returns (destination, null count). -/
def setBitsLoop (src ow or len : Nat) (d nulls acc : Nat) : Nat × Nat :=
  if len > acc then
    setBitsLoop src ow or len
      (setUpto64 d src (ow + acc) (or + acc) (len - acc)).1
      (nulls + (setUpto64 d src (ow + acc) (or + acc) (len - acc)).2.1)
      (acc + (setUpto64 d src (ow + acc) (or + acc) (len - acc)).2.2)
  else (d, nulls)
termination_by len - acc
decreasing_by
  have := setUpto64_pos d src (ow + acc) (or + acc) (len - acc) (by omega)
  omega

/-- `bit_mask::set_bits(write_data, data, offset_write, offset_read, len)` -/
def setBits (d src ow or len : Nat) : Nat × Nat := setBitsLoop src ow or len d 0 0


/-! ### in-place operations (`bit_util::apply_bitwise_binary_op` / `apply_bitwise_unary_op`) -/

/-- `U64UnalignedSlice::zip_modify`: word `k, k+1, …` (at byte `base + 8k`) := `op cur w`. -/
def zipModify (op : Nat → Nat → Nat) (base : Nat) : Nat → List Nat → Nat → Nat
  | _, [], d => d
  | k, w :: ws, d =>
    zipModify op base (k + 1) ws (writeU64 d (base + 8 * k) (u64 (op (readU64 d (base + 8 * k)) w)))

/-- `get_remainder_bits(remainder, remainder_len)` where the slice starts at byte `byteOff` -/
def getRemainderBits (d byteOff remLen : Nat) : Nat :=
  readBytes d byteOff (ceilDiv remLen 8) &&& (u64 (1 <<< remLen) - 1)

/-- `set_remainder_bits(slice, rem, remainder_len)`: keeps the bits of the boundary byte that lie
outside the remainder, writes `ceil(remainder_len/8)` bytes. -/
def setRemainderBits (d byteOff rem remLen : Nat) : Nat :=
  let nbytes := ceilDiv remLen 8
  let current := u64 (readByte d (byteOff + (nbytes - 1)) <<< ((nbytes - 1) * 8))
  let inside := u64 (1 <<< remLen) - 1
  let outside := allOnes64 ^^^ inside
  let combined := (current &&& outside) ||| (rem &&& inside)
  setRange d (8 * byteOff) (8 * nbytes) combined

/-- `byte_aligned_bitwise_bin_op_helper` (`dofs % 8 = 0`) -/
def alignedBinOp (op : Nat → Nat → Nat) (d dofs r ro len : Nat) : Nat :=
  let nChunks := len / 64
  let remLen := len % 64
  let rv := r >>> (8 * (ro / 8))
  let rbo := ro % 8
  let d1 := zipModify op (dofs / 8) 0 ((List.range nChunks).map (chunkAt rv rbo)) d
  if remLen > 0 then
    let off := dofs / 8 + 8 * nChunks
    let left := getRemainderBits d1 off remLen
    let rem := u64 (op left (remainderBits rv rbo nChunks remLen))
    setRemainderBits d1 off rem remLen
  else d1

/-- `read_up_to_byte_from_offset(slice, n, bit_offset)` (`n < 8`): the loop ORs in
`byte << (i*8 - bit_offset)` on a `u8`, i.e. truncated to 8 bits. -/
def readUpToByte (v n bo : Nat) : Nat :=
  let nb := ceilDiv (n + bo) 8
  let bits := readByte v 0 >>> bo
  let bits := if nb > 1 then bits ||| ((readByte v 1 <<< (8 - bo)) % 256) else bits
  bits &&& ((1 <<< n) % 256 - 1)

/-- `align_to_byte(buffer, op, offset_in_bits, remaining_len_in_bits)` (`offset % 8 ≠ 0`) -/
def alignToByte (opu : Nat → Nat) (d off rem : Nat) : Nat :=
  let byteOff := off / 8
  let bo := off % 8
  let first := readByte d byteOff
  let rel := first >>> bo
  let res := opu rel % 256
  let res := (res <<< bo) % 256
  let bits := min (8 - bo) rem
  let mask := ((((1 <<< bits) % 256) - 1) <<< bo) % 256
  let new := (first &&& (255 ^^^ mask)) ||| (res &&& mask)
  setRange d (8 * byteOff) 8 new

/-- `apply_bitwise_binary_op(left, left_offset, right, right_offset, len, op)` -/
def applyBinaryOp (op : Nat → Nat → Nat) (d dofs r ro len : Nat) : Nat :=
  if len = 0 then d
  else if dofs % 8 = 0 then alignedBinOp op d dofs r ro len
  else
    let n := min (8 - dofs % 8) len
    let rf := readUpToByte (r >>> (8 * (ro / 8))) n (ro % 8)
    let d1 := alignToByte (fun l => op l rf) d dofs n
    let len' := len - n
    if len' = 0 then d1 else alignedBinOp op d1 (dofs + n) r (ro + n) len'

/-- `byte_aligned_bitwise_unary_op_helper` (`dofs % 8 = 0`): `apply_unary_op` is `apply_bin_op`
with a dead right operand, as in the Rust. -/
def alignedUnOp (opu : Nat → Nat) (d dofs len : Nat) : Nat :=
  let nChunks := len / 64
  let remLen := len % 64
  let d1 := zipModify (fun a _ => opu a) (dofs / 8) 0 (List.replicate nChunks 0) d
  if remLen > 0 then
    let off := dofs / 8 + 8 * nChunks
    let left := getRemainderBits d1 off remLen
    setRemainderBits d1 off (u64 (opu left)) remLen
  else d1

/-- `apply_bitwise_unary_op(buffer, offset_in_bits, len_in_bits, op)` -/
def applyUnaryOp (opu : Nat → Nat) (d dofs len : Nat) : Nat :=
  if len = 0 then d
  else if dofs % 8 = 0 then alignedUnOp opu d dofs len
  else
    let d1 := alignToByte opu d dofs len
    let n := 8 - dofs % 8
    let len' := len - n
    if len' = 0 then d1 else alignedUnOp opu d1 (dofs + n) len'

/-! ### word-at-a-time construction (`BooleanBuffer::from_bitwise_binary_op`, ops.rs) -/

/-- pack a list of u64 words into a buffer value (word `k` at bits `64k..`) -/
def packWords : List Nat → Nat
  | [] => 0
  | w :: ws => u64 w ||| (packWords ws <<< 64)

/-- `bitwise_bin_op_helper`: zip the padded chunk iterators and apply `op` per word. -/
def binOpWords (op : Nat → Nat → Nat) (l lo r ro len : Nat) : Nat :=
  packWords (List.zipWith (fun a b => u64 (op a b)) (iterPadded l lo len) (iterPadded r ro len))

/-- `bitwise_unary_op_helper` -/
def unOpWords (op : Nat → Nat) (l lo len : Nat) : Nat :=
  packWords ((iterPadded l lo len).map (fun a => u64 (op a)))

/-- `count_set_bits_offset` via chunks: sum of popcounts of the padded words. -/
def countSetBits (buf off len : Nat) : Nat :=
  ((iterPadded buf off len).map (fun w => popcount w 64)).sum

/-- `BooleanBuffer::bitwise_bin_op_assign` (`&=`, `|=`, `^=`): in place through
`apply_bitwise_binary_op` when the buffer is uniquely owned (the result keeps the offset
`lo`), otherwise a fresh buffer from `from_bitwise_binary_op`.  Returns the logical bits. -/
def bitAssign (uniq : Bool) (op : Nat → Nat → Nat) (l lo r ro len : Nat) : List Bool :=
  if uniq then (List.range len).map (fun i => (applyBinaryOp op l lo r ro len).testBit (lo + i))
  else (List.range len).map (fun i => (binOpWords op l lo r ro len).testBit i)

end ArrowModel.C19
