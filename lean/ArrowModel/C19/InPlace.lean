import ArrowModel.C19.Lemmas
/-
C19 — lemmas for the in-place operations (`apply_bitwise_binary_op` and helpers).
-/
namespace ArrowModel.C19

theorem testBit_writeU64_op (d kb x i : Nat) :
    (writeU64 d kb (u64 x)).testBit i =
      if 8 * kb ≤ i ∧ i < 8 * kb + 64 then x.testBit (i - 8 * kb) else d.testBit i := by
  rw [writeU64, testBit_setRange]
  by_cases h1 : i < 8 * kb
  · have : ¬ (8 * kb ≤ i ∧ i < 8 * kb + 64) := by omega
    simp [h1, this]
  · by_cases h2 : i < 8 * kb + 64
    · have a : 8 * kb ≤ i ∧ i < 8 * kb + 64 := by omega
      have b : i - 8 * kb < 64 := by omega
      simp [h1, h2, a, testBit_u64, b]
    · have : ¬ (8 * kb ≤ i ∧ i < 8 * kb + 64) := by omega
      simp [h1, h2, this]

theorem testBit_zipModify (op : Nat → Nat → Nat) (f : Bool → Bool → Bool)
    (hop : ∀ a b j, j < 64 → (op a b).testBit j = f (a.testBit j) (b.testBit j)) (base : Nat) :
    ∀ (ws : List Nat) (k d i : Nat),
      (zipModify op base k ws d).testBit i =
        if 8 * base + 64 * k ≤ i ∧ i < 8 * base + 64 * k + 64 * ws.length then
          f (d.testBit i) (((ws[(i - (8 * base + 64 * k)) / 64]?).getD 0).testBit ((i - (8 * base + 64 * k)) % 64))
        else d.testBit i := by
  intro ws
  induction ws with
  | nil =>
    intro k d i
    have : ¬ (8 * base + 64 * k ≤ i ∧ i < 8 * base + 64 * k + 64 * ([] : List Nat).length) := by simp
    simp only [zipModify, this, if_false]
  | cons w ws ih =>
    intro k d i
    rw [zipModify, ih (k + 1)]
    simp only [List.length_cons]
    have hw : ∀ t, (writeU64 d (base + 8 * k) (u64 (op (readU64 d (base + 8 * k)) w))).testBit t =
        if 8 * base + 64 * k ≤ t ∧ t < 8 * base + 64 * k + 64 then
          f (d.testBit t) (w.testBit (t - (8 * base + 64 * k))) else d.testBit t := by
      intro t
      rw [testBit_writeU64_op]
      have e : 8 * (base + 8 * k) = 8 * base + 64 * k := by omega
      rw [e]
      by_cases c : 8 * base + 64 * k ≤ t ∧ t < 8 * base + 64 * k + 64
      · have b : t - (8 * base + 64 * k) < 64 := by omega
        have e2 : 8 * (base + 8 * k) + (t - (8 * base + 64 * k)) = t := by omega
        simp [c, hop _ _ _ b, testBit_readU64, b, e2]
      · simp [c]
    rw [hw]
    by_cases c1 : 8 * base + 64 * k ≤ i ∧ i < 8 * base + 64 * k + 64
    · have n1 : ¬ (8 * base + 64 * (k + 1) ≤ i ∧ i < 8 * base + 64 * (k + 1) + 64 * ws.length) := by omega
      have p1 : 8 * base + 64 * k ≤ i ∧ i < 8 * base + 64 * k + 64 * (ws.length + 1) := by omega
      have q : (i - (8 * base + 64 * k)) / 64 = 0 := by omega
      have q2 : (i - (8 * base + 64 * k)) % 64 = i - (8 * base + 64 * k) := by omega
      simp [c1, n1, p1, q, q2]
    · by_cases c2 : 8 * base + 64 * (k + 1) ≤ i ∧ i < 8 * base + 64 * (k + 1) + 64 * ws.length
      · have p1 : 8 * base + 64 * k ≤ i ∧ i < 8 * base + 64 * k + 64 * (ws.length + 1) := by omega
        have q : (i - (8 * base + 64 * k)) / 64 = (i - (8 * base + 64 * (k + 1))) / 64 + 1 := by omega
        have q2 : (i - (8 * base + 64 * k)) % 64 = (i - (8 * base + 64 * (k + 1))) % 64 := by omega
        have n2 : ¬ (i < 8 * base + 64 * k + 64) := by omega
        simp [c2, p1, q, q2, n2]
      · have p1 : ¬ (8 * base + 64 * k ≤ i ∧ i < 8 * base + 64 * k + 64 * (ws.length + 1)) := by omega
        simp [c1, c2, p1]

theorem u64_one_shl (n : Nat) (h : n < 64) : u64 (1 <<< n) = 2 ^ n := by
  rw [u64, Nat.shiftLeft_eq, Nat.one_mul]
  exact Nat.mod_eq_of_lt (Nat.pow_lt_pow_right (by decide) h)

theorem testBit_getRemainderBits (d byteOff remLen j : Nat) (h : remLen < 64) :
    (getRemainderBits d byteOff remLen).testBit j = (decide (j < remLen) && d.testBit (8 * byteOff + j)) := by
  unfold getRemainderBits
  rw [Nat.testBit_and, u64_one_shl _ h, Nat.testBit_two_pow_sub_one, testBit_readBytes]
  have hc : remLen ≤ 8 * ceilDiv remLen 8 := by unfold ceilDiv; omega
  by_cases hj : j < remLen
  · have a : j < 8 * ceilDiv remLen 8 := by omega
    simp [hj, a]
  · simp [hj]

theorem testBit_setRemainderBits (d byteOff rem remLen i : Nat) (h0 : 0 < remLen) (h : remLen < 64) :
    (setRemainderBits d byteOff rem remLen).testBit i =
      if 8 * byteOff ≤ i ∧ i < 8 * byteOff + remLen then rem.testBit (i - 8 * byteOff) else d.testBit i := by
  unfold setRemainderBits
  simp only
  have hc : remLen ≤ 8 * ceilDiv remLen 8 := by unfold ceilDiv; omega
  have hc2 : 8 * (ceilDiv remLen 8 - 1) < remLen := by unfold ceilDiv; omega
  have hc3 : 1 ≤ ceilDiv remLen 8 := by unfold ceilDiv; omega
  have hc4 : 8 * ceilDiv remLen 8 ≤ 64 := by unfold ceilDiv; omega
  rw [testBit_setRange]
  by_cases h1 : i < 8 * byteOff
  · have : ¬ (8 * byteOff ≤ i ∧ i < 8 * byteOff + remLen) := by omega
    simp [h1, this]
  · by_cases h2 : i < 8 * byteOff + 8 * ceilDiv remLen 8
    · simp only [h1, h2, if_true, if_false]
      rw [Nat.testBit_or, Nat.testBit_and, Nat.testBit_and, Nat.testBit_xor, testBit_allOnes64,
        u64_one_shl _ h, Nat.testBit_two_pow_sub_one, testBit_u64, Nat.testBit_shiftLeft, testBit_readByte]
      have j64 : i - 8 * byteOff < 64 := by omega
      by_cases h3 : i < 8 * byteOff + remLen
      · have a : 8 * byteOff ≤ i ∧ i < 8 * byteOff + remLen := by omega
        have b : i - 8 * byteOff < remLen := by omega
        simp [a, b, j64]
      · have a : ¬ (8 * byteOff ≤ i ∧ i < 8 * byteOff + remLen) := by omega
        have b : ¬ (i - 8 * byteOff < remLen) := by omega
        have c : (ceilDiv remLen 8 - 1) * 8 ≤ i - 8 * byteOff := by omega
        have e : i - 8 * byteOff - (ceilDiv remLen 8 - 1) * 8 < 8 := by omega
        have g : 8 * (byteOff + (ceilDiv remLen 8 - 1)) + (i - 8 * byteOff - (ceilDiv remLen 8 - 1) * 8) = i := by omega
        simp [a, b, j64, c, e, g]
    · have : ¬ (8 * byteOff ≤ i ∧ i < 8 * byteOff + remLen) := by omega
      simp [h1, h2, this]

theorem testBit_alignedBinOp (op : Nat → Nat → Nat) (f : Bool → Bool → Bool)
    (hop : ∀ a b j, j < 64 → (op a b).testBit j = f (a.testBit j) (b.testBit j))
    (d dofs r ro len i : Nat) (hd : dofs % 8 = 0) :
    (alignedBinOp op d dofs r ro len).testBit i =
      if dofs ≤ i ∧ i < dofs + len then f (d.testBit i) (r.testBit (ro + (i - dofs))) else d.testBit i := by
  have hb : 8 * (dofs / 8) = dofs := by omega
  have hrbo : ro % 8 < 8 := Nat.mod_lt _ (by decide)
  have hro : 8 * (ro / 8) + ro % 8 = ro := by omega
  have hrem : len % 64 < 64 := Nat.mod_lt _ (by decide)
  -- the complete chunks
  have hz : ∀ t, (zipModify op (dofs / 8) 0
        ((List.range (len / 64)).map (chunkAt (r >>> (8 * (ro / 8))) (ro % 8))) d).testBit t =
      if dofs ≤ t ∧ t < dofs + 64 * (len / 64) then f (d.testBit t) (r.testBit (ro + (t - dofs))) else d.testBit t := by
    intro t
    rw [testBit_zipModify op f hop]
    simp only [List.length_map, List.length_range, Nat.mul_zero, Nat.add_zero, hb]
    by_cases c : dofs ≤ t ∧ t < dofs + 64 * (len / 64)
    · simp only [c, and_self, if_true]
      have k1 : (t - dofs) / 64 < len / 64 := by omega
      rw [List.getElem?_map, List.getElem?_range k1]
      simp only [Option.map_some, Option.getD_some]
      rw [testBit_chunkAt _ _ _ _ hrbo, Nat.testBit_shiftRight]
      have k2 : (t - dofs) % 64 < 64 := Nat.mod_lt _ (by decide)
      have k3 : 8 * (ro / 8) + (64 * ((t - dofs) / 64) + ro % 8 + (t - dofs) % 64) = ro + (t - dofs) := by omega
      simp [k2, k3]
    · simp only [c, if_false]
  unfold alignedBinOp
  simp only
  by_cases hr : len % 64 > 0
  · simp only [hr, if_true]
    rw [testBit_setRemainderBits _ _ _ _ _ hr hrem]
    have e8 : 8 * (dofs / 8 + 8 * (len / 64)) = dofs + 64 * (len / 64) := by omega
    rw [e8]
    by_cases c : dofs + 64 * (len / 64) ≤ i ∧ i < dofs + 64 * (len / 64) + len % 64
    · have c' : dofs ≤ i ∧ i < dofs + len := by omega
      have j1 : i - (dofs + 64 * (len / 64)) < 64 := by omega
      have j2 : i - (dofs + 64 * (len / 64)) < len % 64 := by omega
      simp only [c, c', and_self, if_true]
      rw [testBit_u64, hop _ _ _ j1, testBit_getRemainderBits _ _ _ _ hrem, e8, hz,
        testBit_remainderBits _ _ _ _ _ hrbo hrem, Nat.testBit_shiftRight]
      have n1 : ¬ (dofs ≤ i ∧ i < dofs + 64 * (len / 64)) := by omega
      have e1 : dofs + 64 * (len / 64) + (i - (dofs + 64 * (len / 64))) = i := by omega
      have e2 : 8 * (ro / 8) + (64 * (len / 64) + ro % 8 + (i - (dofs + 64 * (len / 64)))) = ro + (i - dofs) := by omega
      simp [j1, j2, n1, e1, e2]
    · simp only [c, if_false]
      rw [hz]
      by_cases c2 : dofs ≤ i ∧ i < dofs + 64 * (len / 64)
      · have c' : dofs ≤ i ∧ i < dofs + len := by omega
        simp [c2, c']
      · have c' : ¬ (dofs ≤ i ∧ i < dofs + len) := by omega
        simp [c2, c']
  · simp only [hr, if_false]
    rw [hz]
    have : len = 64 * (len / 64) := by omega
    rw [← this]

theorem testBit_mod256 (x j : Nat) : (x % 256).testBit j = (decide (j < 8) && x.testBit j) := by
  rw [show (256 : Nat) = 2 ^ 8 from rfl, Nat.testBit_mod_two_pow]

theorem one_shl_mod256 (n : Nat) (h : n < 8) : (1 <<< n) % 256 = 2 ^ n := by
  rw [Nat.shiftLeft_eq, Nat.one_mul]
  exact Nat.mod_eq_of_lt (by
    have : 2 ^ n < 2 ^ 8 := Nat.pow_lt_pow_right (by decide) h
    simpa using this)

/-- `read_up_to_byte_from_offset`: the `n` bits starting at bit `bo` -/
theorem testBit_readUpToByte (v n bo j : Nat) (hn : n < 8) (hbo : bo < 8) :
    (readUpToByte v n bo).testBit j = (decide (j < n) && v.testBit (bo + j)) := by
  unfold readUpToByte
  simp only
  rw [Nat.testBit_and, one_shl_mod256 _ hn, Nat.testBit_two_pow_sub_one]
  by_cases hj : j < n
  · simp only [hj, decide_true, Bool.and_true, Bool.true_and]
    by_cases hnb : ceilDiv (n + bo) 8 > 1
    · simp only [hnb, if_true]
      rw [Nat.testBit_or, Nat.testBit_shiftRight, testBit_readByte, testBit_mod256, Nat.testBit_shiftLeft,
        testBit_readByte]
      by_cases c : bo + j < 8
      · have a : ¬ (8 - bo ≤ j) := by omega
        simp [c, a]
      · have a : 8 - bo ≤ j := by omega
        have b : j < 8 := by omega
        have e : j - (8 - bo) < 8 := by omega
        have g : 8 * 1 + (j - (8 - bo)) = bo + j := by omega
        simp [c, a, b, e, g]
    · simp only [hnb, if_false]
      rw [Nat.testBit_shiftRight, testBit_readByte]
      have c : bo + j < 8 := by unfold ceilDiv at hnb; omega
      simp [c]
  · simp [hj]

/-- `align_to_byte`: only bits `[off, off + min(8 - off%8, rem))` change, to `G (i-off) old`. -/
theorem testBit_alignToByte (opu : Nat → Nat) (G : Nat → Bool → Bool)
    (hG : ∀ x j, j < 8 → (opu x).testBit j = G j (x.testBit j))
    (d off rem i : Nat) (hbo : off % 8 ≠ 0) :
    (alignToByte opu d off rem).testBit i =
      if off ≤ i ∧ i < off + min (8 - off % 8) rem then G (i - off) (d.testBit i) else d.testBit i := by
  have hb8 : off % 8 < 8 := Nat.mod_lt _ (by decide)
  have hoff : 8 * (off / 8) + off % 8 = off := by omega
  unfold alignToByte
  simp only
  rw [testBit_setRange]
  by_cases h1 : i < 8 * (off / 8)
  · have : ¬ (off ≤ i ∧ i < off + min (8 - off % 8) rem) := by omega
    simp [h1, this]
  · by_cases h2 : i < 8 * (off / 8) + 8
    · simp only [h1, h2, if_true, if_false]
      have hbits : min (8 - off % 8) rem < 8 := by omega
      rw [Nat.testBit_or, Nat.testBit_and, Nat.testBit_and, testBit_readByte, Nat.testBit_xor,
        testBit_mod256, Nat.testBit_shiftLeft, one_shl_mod256 _ hbits, Nat.testBit_two_pow_sub_one,
        testBit_mod256, Nat.testBit_shiftLeft, testBit_mod256]
      have t8 : i - 8 * (off / 8) < 8 := by omega
      have e0 : 8 * (off / 8) + (i - 8 * (off / 8)) = i := by omega
      have m255 : (255 : Nat).testBit (i - 8 * (off / 8)) = true := by
        rw [show (255 : Nat) = 2 ^ 8 - 1 from rfl, Nat.testBit_two_pow_sub_one]; simp [t8]
      by_cases c : off ≤ i ∧ i < off + min (8 - off % 8) rem
      · have a1 : off % 8 ≤ i - 8 * (off / 8) := by omega
        have a2 : i - 8 * (off / 8) - off % 8 < min (8 - off % 8) rem := by omega
        have a3 : i - 8 * (off / 8) - off % 8 < 8 := by omega
        have a4 : i - 8 * (off / 8) - off % 8 = i - off := by omega
        have a5 : off % 8 + (i - off) < 8 := by omega
        have a6 : 8 * (off / 8) + (off % 8 + (i - off)) = i := by omega
        simp only [c, and_self, if_true, t8, e0, m255, a1, a2, decide_true, Bool.true_and, Bool.and_true, a4]
        rw [hG _ _ (by omega), Nat.testBit_shiftRight, testBit_readByte]
        have a7 : i - off < min (8 - off % 8) rem := by omega
        have a8 : i - off < 8 := by omega
        simp [a5, a6, a7, a8]
      · simp only [c, if_false, t8, e0, m255, decide_true, Bool.true_and]
        by_cases a1 : off % 8 ≤ i - 8 * (off / 8)
        · have a2 : ¬ (i - 8 * (off / 8) - off % 8 < min (8 - off % 8) rem) := by omega
          simp [a1, a2]
        · simp [a1]
    · have : ¬ (off ≤ i ∧ i < off + min (8 - off % 8) rem) := by omega
      simp [h1, h2, this]

theorem testBit_alignedUnOp (opu : Nat → Nat) (g : Bool → Bool)
    (hop : ∀ a j, j < 64 → (opu a).testBit j = g (a.testBit j))
    (d dofs len i : Nat) (hd : dofs % 8 = 0) :
    (alignedUnOp opu d dofs len).testBit i =
      if dofs ≤ i ∧ i < dofs + len then g (d.testBit i) else d.testBit i := by
  have hb : 8 * (dofs / 8) = dofs := by omega
  have hrem : len % 64 < 64 := Nat.mod_lt _ (by decide)
  have hz : ∀ t, (zipModify (fun a _ => opu a) (dofs / 8) 0 (List.replicate (len / 64) 0) d).testBit t =
      if dofs ≤ t ∧ t < dofs + 64 * (len / 64) then g (d.testBit t) else d.testBit t := by
    intro t
    rw [testBit_zipModify (fun a _ => opu a) (fun a _ => g a) (fun a _ j hj => hop a j hj)]
    simp only [List.length_replicate, Nat.mul_zero, Nat.add_zero, hb]
  unfold alignedUnOp
  simp only
  by_cases hr : len % 64 > 0
  · simp only [hr, if_true]
    rw [testBit_setRemainderBits _ _ _ _ _ hr hrem]
    have e8 : 8 * (dofs / 8 + 8 * (len / 64)) = dofs + 64 * (len / 64) := by omega
    rw [e8]
    by_cases c : dofs + 64 * (len / 64) ≤ i ∧ i < dofs + 64 * (len / 64) + len % 64
    · have c' : dofs ≤ i ∧ i < dofs + len := by omega
      have j1 : i - (dofs + 64 * (len / 64)) < 64 := by omega
      have j2 : i - (dofs + 64 * (len / 64)) < len % 64 := by omega
      simp only [c, c', and_self, if_true]
      rw [testBit_u64, hop _ _ j1, testBit_getRemainderBits _ _ _ _ hrem, e8, hz]
      have n1 : ¬ (dofs ≤ i ∧ i < dofs + 64 * (len / 64)) := by omega
      have e1 : dofs + 64 * (len / 64) + (i - (dofs + 64 * (len / 64))) = i := by omega
      simp [j1, j2, n1, e1]
    · simp only [c, if_false]
      rw [hz]
      by_cases c2 : dofs ≤ i ∧ i < dofs + 64 * (len / 64)
      · have c' : dofs ≤ i ∧ i < dofs + len := by omega
        simp [c2, c']
      · have c' : ¬ (dofs ≤ i ∧ i < dofs + len) := by omega
        simp [c2, c']
  · simp only [hr, if_false]
    rw [hz]
    have : len = 64 * (len / 64) := by omega
    rw [← this]


end ArrowModel.C19
