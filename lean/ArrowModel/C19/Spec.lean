/-
C19 — specification: the "corresponding sequence of booleans" and the naive list
operations every mask primitive is supposed to agree with.  Import-free.
-/
namespace ArrowModel.C19

/-- the logical content of bits `[off, off+len)` of buffer `v` -/
def bitsOf (v off len : Nat) : List Bool := (List.range len).map (fun i => v.testBit (off + i))

/-- a word as the list of its `n` low bits -/
def wordBits (w n : Nat) : List Bool := (List.range n).map (fun i => w.testBit i)

/-- pack a list of booleans into a number, LSB first -/
def packBits : List Bool → Nat
  | [] => 0
  | b :: bs => (if b then 1 else 0) + 2 * packBits bs

/-- split a bit list into words of 64 (last one zero-padded); always ends with the
(possibly empty) remainder word, as `BitChunks::iter_padded` does. -/
def padded64 : Nat → List Bool → List Nat
  | 0, bs => [packBits bs]
  | fuel + 1, bs =>
    if bs.length < 64 then [packBits bs]
    else packBits (bs.take 64) :: padded64 fuel (bs.drop 64)

def countTrue (bs : List Bool) : Nat := (bs.filter id).length

/-- indices of set bits -/
def setIndices (bs : List Bool) : List Nat :=
  (List.range bs.length).filter (fun i => bs.getD i false)

/-- maximal runs of set bits as half-open intervals `(start, end)` -/
def setSlicesAux : List Bool → Nat → Option Nat → List (Nat × Nat)
  | [], i, some s => [(s, i)]
  | [], _, none => []
  | true :: bs, i, some s => setSlicesAux bs (i + 1) (some s)
  | true :: bs, i, none => setSlicesAux bs (i + 1) (some i)
  | false :: bs, i, some s => (s, i) :: setSlicesAux bs (i + 1) none
  | false :: bs, i, none => setSlicesAux bs (i + 1) none

def setSlices (bs : List Bool) : List (Nat × Nat) := setSlicesAux bs 0 none

/-- `BooleanBuffer::find_nth_set_bit_position(start, n)`: `start` when `n = 0`; otherwise one
past the index of the `n`-th (1-based) set bit at or after `start`, or `len` if there are
fewer than `n` such bits. -/
def findNth (bs : List Bool) (start n : Nat) : Nat :=
  if n = 0 then start else
  match ((setIndices bs).filter (fun i => start ≤ i))[n - 1]? with
  | some i => i + 1
  | none => bs.length

/-- destination after copying `len` source bits: the specification of `set_bits`
when the destination range was zero -/
def copyBitsSpec (d src ow or len : Nat) (i : Nat) : Bool :=
  if ow ≤ i ∧ i < ow + len then src.testBit (or + (i - ow)) else d.testBit i

end ArrowModel.C19
