import ArrowModel.Common.Proto
import ArrowModel.C19.Spec
import ArrowModel.C19.Model
/-
C19 driver: one case per line → one canonical answer per line.
Answers are computed by the *algorithm model*; where a list-level specification exists
the driver also evaluates it and prints `MODEL-SPEC-MISMATCH` if the two differ (the
theorems say they cannot).
-/
namespace ArrowModel.C19
open ArrowModel.Proto

def buf (s : String) : Option (Nat × Nat) := do
  let bs ← parseHex s
  pure (bytesToNat bs, bs.length)

def showWords (ws : List Nat) : String := showList toString ws

def bop (name : String) : Option (Bool → Bool → Bool) :=
  match name with
  | "and" => some (· && ·)
  | "or" => some (· || ·)
  | "xor" => some (fun a b => a != b)
  | "andnot" => some (fun a b => a && !b)
  | _ => none

def wop (name : String) : Option (Nat → Nat → Nat) :=
  match name with
  | "and" => some (· &&& ·)
  | "or" => some (· ||| ·)
  | "xor" => some (· ^^^ ·)
  | "andnot" => some (fun a b => a &&& ((2 ^ 64 - 1) ^^^ (b % 2 ^ 64)))
  | _ => none


/-- specification of `BooleanBufferBuilder`: an op sequence refines a `List Bool` -/
def builderStep (bs : List Bool) (op : String) : Option (List Bool) :=
  let k := op.take 1 |>.toString
  let f := (op.drop 1).toString.splitOn ":"
  match k, f with
  | "a", [b] => some (bs ++ [decide (b = "1")])
  | "n", [n, b] => n.toNat?.map (fun n => bs ++ List.replicate n (decide (b = "1")))
  | "s", [i, b] => i.toNat?.bind (fun i => if i < bs.length then some (bs.set i (decide (b = "1"))) else none)
  | "t", [n] => n.toNat?.map (fun n => bs.take n)
  | "r", [n] => n.toNat?.map (fun n => bs.take n ++ List.replicate (n - bs.length) false)
  | "p", [h, s, e] =>
    match buf h, s.toNat?, e.toNat? with
    | some (v, _), some s, some e => some (bs ++ bitsOf v s (e - s))
    | _, _, _ => none
  | "v", [n] => n.toNat?.map (fun n => bs ++ List.replicate n false)
  | "l", [b] => (parseBits b).map (fun b => bs ++ b)
  | "w", [w, n] =>
    match w.toNat?, n.toNat? with
    | some w, some n => some (bs ++ (List.range n).map (fun i => w.testBit i))
    | _, _ => none
  | "b", [h, s, e] =>
    match buf h, s.toNat?, e.toNat? with
    | some (v, _), some s, some e => some (bs ++ bitsOf v s (e - s))
    | _, _, _ => none
  | _, _ => none

/-- specification of `NullBufferBuilder` (validity bits; `finish() = None` means all valid) -/
def nbbStep (bs : List Bool) (op : String) : Option (List Bool) :=
  let k := op.take 1 |>.toString
  let f := (op.drop 1).toString.splitOn ":"
  match k, f with
  | "a", [b] => some (bs ++ [decide (b = "1")])
  | "N", [n] => n.toNat?.map (fun n => bs ++ List.replicate n false)
  | "V", [n] => n.toNat?.map (fun n => bs ++ List.replicate n true)
  | "l", [b] => (parseBits b).map (fun b => bs ++ b)
  | "p", [h, o, l] =>
    match buf h, o.toNat?, l.toNat? with
    | some (v, _), some o, some l => some (bs ++ bitsOf v o l)
    | _, _, _ => none
  | "t", [n] => n.toNat?.map (fun n => bs.take n)
  | "s", [i, b] => i.toNat?.bind (fun i => if i < bs.length then some (bs.set i (decide (b = "1"))) else none)
  | _, _ => none

def nbbRun (ops : String) : Option (List Bool) :=
  if ops = "-" then some [] else
  (ops.splitOn ";").foldlM nbbStep []

def builderRun (ops : String) : Option (List Bool) :=
  if ops = "-" then some [] else
  (ops.splitOn ";").foldlM builderStep []

def check (model spec : String) : String :=
  if model = spec then model else s!"MODEL-SPEC-MISMATCH model={model} spec={spec}"

def handle (toks : List String) : String :=
  match toks with
  | ["chunks", _var, b, off, len] =>
    match buf b, off.toNat?, len.toNat? with
    | some (v, n), some off, some len =>
      if (off + len + 7) / 8 > n then "ERR:oob" else
      check (showWords (iterPadded v off len))
            (showWords (padded64 (len / 64 + 1) (bitsOf v off len)))
    | _, _, _ => "bad-op"
  | ["setbits", d, s, ow, or, len] =>
    match buf d, buf s, ow.toNat?, or.toNat?, len.toNat? with
    | some (dv, dn), some (sv, sn), some ow, some or, some len =>
      if ow + len > 8 * dn ∨ or + len > 8 * sn then "ERR:oob" else
      let r := setBits dv sv ow or len
      let model := s!"{toHex (natToBytes dn r.1)} {r.2}"
      -- the specification applies when the destination range was zero
      if (bitsOf dv ow len).all (· = false) then
        let specBits := (List.range (8 * dn)).map (copyBitsSpec dv sv ow or len)
        let specNulls := len - countTrue (bitsOf sv or len)
        check model s!"{toHex (natToBytes dn (packBits specBits))} {specNulls}"
      else model
    | _, _, _, _, _ => "bad-op"
  | ["binop", name, _var, l, lo, r, ro, len] =>
    match bop name, wop name, buf l, lo.toNat?, buf r, ro.toNat?, len.toNat? with
    | some fb, some fw, some (lv, ln), some lo, some (rv, rn), some ro, some len =>
      if lo + len > 8 * ln ∨ ro + len > 8 * rn then "ERR:oob" else
      check (showBits (bitsOf (binOpWords fw lv lo rv ro len) 0 len))
            (showBits (List.zipWith fb (bitsOf lv lo len) (bitsOf rv ro len)))
    | _, _, _, _, _, _, _ => "bad-op"
  | ["not", _var, l, lo, len] =>
    match buf l, lo.toNat?, len.toNat? with
    | some (lv, ln), some lo, some len =>
      if lo + len > 8 * ln then "ERR:oob" else
      check (showBits (bitsOf (unOpWords (fun a => (2 ^ 64 - 1) ^^^ (a % 2 ^ 64)) lv lo len) 0 len))
            (showBits ((bitsOf lv lo len).map (!·)))
    | _, _, _ => "bad-op"
  | ["count", _var, l, lo, len] =>
    match buf l, lo.toNat?, len.toNat? with
    | some (lv, ln), some lo, some len =>
      if lo + len > 8 * ln then "ERR:oob" else
      check (toString (countSetBits lv lo len)) (toString (countTrue (bitsOf lv lo len)))
    | _, _, _ => "bad-op"
  -- specification-only observables (no algorithm model yet): iterators and searches
  | ["bits", _var, l, lo, len] =>
    match buf l, lo.toNat?, len.toNat? with
    | some (lv, ln), some lo, some len =>
      if lo + len > 8 * ln then "ERR:oob" else showBits (bitsOf lv lo len)
    | _, _, _ => "bad-op"
  | ["hastf", _var, l, lo, len] =>
    match buf l, lo.toNat?, len.toNat? with
    | some (lv, ln), some lo, some len =>
      if lo + len > 8 * ln then "ERR:oob" else
      let bs := bitsOf lv lo len
      s!"{showBool (bs.any id)} {showBool (bs.any (!·))}"
    | _, _, _ => "bad-op"
  | ["indices", _var, l, lo, len] =>
    match buf l, lo.toNat?, len.toNat? with
    | some (lv, ln), some lo, some len =>
      if lo + len > 8 * ln then "ERR:oob" else showList toString (setIndices (bitsOf lv lo len))
    | _, _, _ => "bad-op"
  | ["slices", _var, l, lo, len] =>
    match buf l, lo.toNat?, len.toNat? with
    | some (lv, ln), some lo, some len =>
      if lo + len > 8 * ln then "ERR:oob" else
      showList (fun p => s!"{p.1}:{p.2}") (setSlices (bitsOf lv lo len))
    | _, _, _ => "bad-op"
  | ["findnth", _var, l, lo, len, start, n] =>
    match buf l, lo.toNat?, len.toNat?, start.toNat?, n.toNat? with
    | some (lv, ln), some lo, some len, some start, some n =>
      if lo + len > 8 * ln then "ERR:oob" else toString (findNth (bitsOf lv lo len) start n)
    | _, _, _, _, _ => "bad-op"
  | ["eq", _var, l, lo, r, ro, len] =>
    match buf l, lo.toNat?, buf r, ro.toNat?, len.toNat? with
    | some (lv, ln), some lo, some (rv, rn), some ro, some len =>
      if lo + len > 8 * ln ∨ ro + len > 8 * rn then "ERR:oob" else
      showBool (bitsOf lv lo len == bitsOf rv ro len)
    | _, _, _, _, _ => "bad-op"
  | ["applybin", name, d, dofs, r, ro, len] =>
    match bop name, wop name, buf d, dofs.toNat?, buf r, ro.toNat?, len.toNat? with
    | some fb, some fw, some (dv, dn), some dofs, some (rv, rn), some ro, some len =>
      if dofs + len > 8 * dn ∨ ro + len > 8 * rn then "ERR:oob" else
      check (toHex (natToBytes dn (applyBinaryOp fw dv dofs rv ro len)))
        (toHex (natToBytes dn (packBits ((List.range (8 * dn)).map (fun i =>
          if dofs ≤ i ∧ i < dofs + len then fb (dv.testBit i) (rv.testBit (ro + (i - dofs)))
          else dv.testBit i)))))
    | _, _, _, _, _, _, _ => "bad-op"
  | ["applynot", d, dofs, len] =>
    match buf d, dofs.toNat?, len.toNat? with
    | some (dv, dn), some dofs, some len =>
      if dofs + len > 8 * dn then "ERR:oob" else
      check (toHex (natToBytes dn (applyUnaryOp (fun a => (2 ^ 64 - 1) ^^^ (a % 2 ^ 64)) dv dofs len)))
        (toHex (natToBytes dn (packBits ((List.range (8 * dn)).map (fun i =>
          if dofs ≤ i ∧ i < dofs + len then !(dv.testBit i) else dv.testBit i)))))
    | _, _, _ => "bad-op"
  | ["builder", ops] =>
    match builderRun ops with
    | some bs => showBits bs
    | none => "bad-op"
  | ["bitslice", _var, l, lo, len] =>
    match buf l, lo.toNat?, len.toNat? with
    | some (lv, ln), some lo, some len =>
      if lo + len > 8 * ln then "ERR:oob" else showBits (bitsOf lv lo len)
    | _, _, _ => "bad-op"
  | ["setnull", d, start, count] =>
    match buf d, start.toNat?, count.toNat? with
    | some (dv, dn), some start, some count =>
      if start + count > 8 * dn then "ERR:oob" else
      toHex (natToBytes dn (packBits ((List.range (8 * dn)).map (fun i =>
        if start ≤ i ∧ i < start + count then false else dv.testBit i))))
    | _, _, _ => "bad-op"
  | ["setbit", d, i, v] =>
    match buf d, i.toNat? with
    | some (dv, dn), some i =>
      if i ≥ 8 * dn then "ERR:oob" else
      toHex (natToBytes dn (packBits ((List.range (8 * dn)).map (fun j =>
        if j = i then decide (v = "1") else dv.testBit j))))
    | _, _ => "bad-op"
  | ["quat", len, parts] =>
    match len.toNat?, (parts.splitOn ";").mapM (fun p =>
        match p.splitOn ":" with
        | [b, o] => (match buf b, o.toNat? with
                     | some (v, n), some o => some (v, n, o)
                     | _, _ => none)
        | _ => none) with
    | some len, some [a, b, c, d] =>
      if [a, b, c, d].any (fun (m : Nat × Nat × Nat) => m.2.2 + len > 8 * m.2.1) then "ERR:oob" else
      showBits ((List.range len).map (fun i =>
        let x := a.1.testBit (a.2.2 + i); let y := b.1.testBit (b.2.2 + i)
        let z := c.1.testBit (c.2.2 + i); let w := d.1.testBit (d.2.2 + i)
        (((x || (z && w)) && (z || (x && y))) != w)))
    | _, _ => "bad-op"
  | ["nth", l, lo, len, n, back] =>
    match buf l, lo.toNat?, len.toNat?, n.toNat? with
    | some (lv, ln), some lo, some len, some n =>
      if lo + len > 8 * ln then "ERR:oob" else
      let bs := bitsOf lv lo len
      let sh := fun (o : Option Bool) => match o with | some true => "1" | some false => "0" | none => "n"
      if back = "1" then
        let r := bs.reverse
        s!"{sh r[n]?} {showBits (r.drop (n + 1)).reverse}"
      else s!"{sh bs[n]?} {showBits (bs.drop (n + 1))}"
    | _, _, _, _ => "bad-op"
  | ["nbb", ops] =>
    match nbbRun ops with
    | some bs => showBits bs
    | none => "bad-op"
  | ["assign", name, uniq, l, lo, r, ro, len] =>
    match bop name, wop name, buf l, lo.toNat?, buf r, ro.toNat?, len.toNat? with
    | some fb, some fw, some (lv, ln), some lo, some (rv, rn), some ro, some len =>
      if lo + len > 8 * ln ∨ ro + len > 8 * rn then "ERR:oob" else
      check (showBits (bitAssign (decide (uniq = "1")) fw lv lo rv ro len))
            (showBits (List.zipWith fb (bitsOf lv lo len) (bitsOf rv ro len)))
    | _, _, _, _, _, _, _ => "bad-op"
  | ["unionmany", len, parts] =>
    match len.toNat?, (parts.splitOn ";").mapM (fun p =>
        match p.splitOn ":" with
        | [b, o] => (match buf b, o.toNat? with
                     | some (v, n), some o => some (v, n, o)
                     | _, _ => none)
        | _ => none) with
    | some len, some ms =>
      if ms.any (fun (m : Nat × Nat × Nat) => m.2.2 + len > 8 * m.2.1) then "ERR:oob" else
      let bs := ms.foldl (fun acc (m : Nat × Nat × Nat) => List.zipWith (· && ·) acc (bitsOf m.1 m.2.2 len)) (List.replicate len true)
      s!"{showBits bs} {len - countTrue bs}"
    | _, _ => "bad-op"
  | ["contains", l, lo, r, ro, len] =>
    match buf l, lo.toNat?, buf r, ro.toNat?, len.toNat? with
    | some (lv, ln), some lo, some (rv, rn), some ro, some len =>
      if lo + len > 8 * ln ∨ ro + len > 8 * rn then "ERR:oob" else
      showBool ((List.zipWith (fun a b => !a || b) (bitsOf lv lo len) (bitsOf rv ro len)).all id)
    | _, _, _, _, _ => "bad-op"
  | ["nullunion", l, lo, r, ro, len] =>
    match buf l, lo.toNat?, buf r, ro.toNat?, len.toNat? with
    | some (lv, ln), some lo, some (rv, rn), some ro, some len =>
      if lo + len > 8 * ln ∨ ro + len > 8 * rn then "ERR:oob" else
      let bs := List.zipWith (· && ·) (bitsOf lv lo len) (bitsOf rv ro len)
      s!"{showBits bs} {len - countTrue bs}"
    | _, _, _, _, _ => "bad-op"
  | ["nullexpand", l, lo, len, k] =>
    match buf l, lo.toNat?, len.toNat?, k.toNat? with
    | some (lv, ln), some lo, some len, some k =>
      if lo + len > 8 * ln then "ERR:oob" else
      let bs := ((bitsOf lv lo len).map (fun b => List.replicate k b)).flatten
      s!"{showBits bs} {bs.length - countTrue bs}"
    | _, _, _, _ => "bad-op"
  | ["collect", bits] =>
    match parseBits bits with
    | some bs => showBits bs
    | none => "bad-op"
  | _ => "bad-op"

end ArrowModel.C19
