import ArrowModel.C04.Lemmas
import ArrowModel.C04.ArrayLemmas
/-
C04 — property theorems.  "Writing any sequence of record batches with the IPC file/stream
writer (or the Flight encoder) and reading the bytes back returns … batch by batch, logically
equal columns … for sliced and offset inputs, every write option (alignment, legacy framing,
dictionary resend or delta handling, Flight message size limit) and when dictionaries are
unchanged, extended or replaced between batches."

The theorems cover the four mechanisms the writer implements itself (everything else is
flatbuffers / codecs / tonic, which are external): (a) slice normalisation, (b) framing and
body layout, (c) the dictionary protocol as a writer/reader state machine, (d) Flight splitting.
All statements quantify over *every* buffer content, offset, length, message list, history.
-/
namespace ArrowModel.C04
open ArrowModel.Generated.C04

/-! ## (a) slice normalisation -/

/-- **`reencode_offsets`** (Binary/Utf8/LargeBinary/LargeUtf8/List/LargeList/Map): for every
array whose offsets are monotone on the slice `[off, off+len]`, the re-based offsets together
with the data window `data[start .. start+len')` denote exactly the elements of the original
slice; the new offsets start at 0, have `len+1` entries and end at the window length (so the
written array is itself well-formed). -/
theorem reencodeOffsets_decode {α} (offsets : List Nat) (data : List α) (off len : Nat)
    (h : off + len + 1 ≤ offsets.length) (hm : MonoOn offsets off len) :
    let r := reencodeOffsets offsets off len
    decodeVar r.1 ((data.drop r.2.1).take r.2.2) 0 len = decodeVar offsets data off len ∧
      r.1.length = len + 1 ∧ r.1.getD 0 0 = 0 ∧ r.1.getD len 0 = r.2.2 ∧ MonoOn r.1 0 len := by
  intro r
  refine ⟨decodeVar_reencode offsets data off len h hm, ?_⟩
  have hr : r = _ := reencode_eq offsets off len h
  have g : ∀ j, j ≤ len → ((List.range (len + 1)).map (fun i => offsets.getD (off + i) 0 - offsets.getD off 0)).getD j 0
      = offsets.getD (off + j) 0 - offsets.getD off 0 := by
    intro j hj
    rw [List.getD_eq_getElem?_getD, List.getElem?_map, List.getElem?_range (by omega)]
    simp
  rw [hr]
  refine ⟨by simp, by rw [g 0 (by omega)]; simp, by rw [g len (by omega)], ?_⟩
  intro i j _ hij hj
  rw [g i (by omega), g j (by omega)]
  have := hm (off + i) (off + j) (by omega) (by omega) (by omega)
  omega

/-- non-vacuity: a sliced string array `["bc","","def"]` inside `"abcdefg"` -/
example : MonoOn [0, 1, 3, 3, 6, 7] 1 3 ∧ 1 + 3 + 1 ≤ [0, 1, 3, 3, 6, 7].length := by
  refine ⟨?_, by decide⟩
  intro i j h1 h2 h3
  have : i = 1 ∨ i = 2 ∨ i = 3 ∨ i = 4 := by omega
  have : j = 1 ∨ j = 2 ∨ j = 3 ∨ j = 4 := by omega
  rcases ‹i = 1 ∨ _› with h | h | h | h <;> rcases ‹j = 1 ∨ _› with h' | h' | h' | h' <;> subst h <;> subst h' <;> simp <;> omega

/-- **`get_byte_array_buffers` / `get_list_array_buffers`**: the `(offsets, values)` pair put
into the message body denotes the input slice, including the empty-array special case
(a single `0` offset). -/
theorem getByteArrayBuffers_decode {α} (offsets : List Nat) (data : List α) (off len : Nat)
    (h : off + len + 1 ≤ offsets.length) (hm : MonoOn offsets off len) :
    let r := getByteArrayBuffers offsets data off len
    decodeVar r.1 r.2 0 len = decodeVar offsets data off len ∧ r.1.length = len + 1 := by
  intro r
  by_cases h0 : len = 0
  · subst h0; simp [r, getByteArrayBuffers, decodeVar]
  · have := reencodeOffsets_decode offsets data off len h hm
    simp only [r, getByteArrayBuffers, h0, if_false]
    exact ⟨this.1, this.2.1⟩

/-- **`get_or_truncate_buffer`** (primitive, temporal, decimal, FixedSizeBinary, dictionary
keys, view structs): the written buffer has exactly `len` elements and they are elements
`off .. off+len` of the input buffer — for every offset, also when the source buffer is
longer than needed or is used as is. -/
theorem getOrTruncateBuffer_exact (buf : List Nat) (w off len : Nat) (h : (off + len) * w ≤ buf.length) :
    (getOrTruncateBuffer buf w off len).length = len * w ∧
      fixedElems (getOrTruncateBuffer buf w off len) w 0 len = fixedElems buf w off len :=
  ⟨truncate_length buf w off len h, truncate_elems buf w off len h⟩

example : (2 + 3) * 4 ≤ (List.range 24).length := by decide

/-- **`Buffer::bit_slice`** (Boolean values, validity bitmaps `nulls.inner().sliced()`): the
written bitmap has `ceil(len/8)` bytes and bit `i < len` is bit `off + i` of the input, for
every bit offset (aligned: zero-copy byte slice; unaligned: `BitChunks` re-packing).  Proved
from the C19 theorems about `BitChunks`. -/
theorem bitSlice_exact (v off len : Nat) :
    (bitSlice v off len).2 = ceilDiv len 8 ∧ (bitSlice v off len).1 < 2 ^ (8 * ceilDiv len 8) ∧
      bitsOf (bitSlice v off len).1 0 len = bitsOf v off len :=
  ⟨bitSlice_len v off len, bitSlice_lt v off len, bitSlice_bits v off len⟩

/-- unaligned offsets additionally zero the padding bits of the last byte -/
theorem bitSlice_padding_zero (v off len i : Nat) (ho : off % 8 ≠ 0) (hi : len ≤ i) :
    (bitSlice v off len).1.testBit i = false := bitSlice_pad v off len i ho hi

/-! ## (a′) whole arrays -/

section WholeArray
open ArrowModel.Physical

/-- **Whole-array normalisation (partial).**  For every well-formed, decodable array `d` of the
grammar {boolean, fixed-width primitive, FixedSizeBinary, Utf8/Binary (+Large), FixedSizeList,
Struct, Dictionary keys} (any nesting of these, any offset, validity bitmap at any bit offset) and
every row range `[o, o+l)`, the array `write_array_data` emits for `d.slice(o, l)` — validity
bit-sliced or synthesised, buffers truncated / offsets re-based, children sliced recursively,
offset 0 everywhere — denotes exactly rows `o .. o+l` of `d`.
**Gaps** (hence `_partial`): (1) `List`/`LargeList` nodes (re-based offsets *and* a sliced child)
are modelled and checked by the `warr` correspondence op but not proved; (2) the serialisation
step `readArray (flatten x) = x` and the reader's dropping of a zero-null bitmap are evaluated by
the driver on every `warr` case (`roundTrip`), not proved; (3) Null/Union/RunEnd/Map/views are
outside the model. -/
theorem norm_decode_partial (d : ArrayData) (o l : Nat) (vs : List Val) (hw : WellFormed d)
    (hp : provedA d = true) (hd : decode d = some vs) (hol : o + l ≤ d.len) :
    decode (norm d o l) = some ((vs.drop o).take l) :=
  decode_norm d o l vs hw hp hd hol

/-- the column as a whole: what `writeArray d` serialises denotes `d` -/
theorem writeArray_decode_partial (d : ArrayData) (vs : List Val) (hw : WellFormed d)
    (hp : provedA d = true) (hd : decode d = some vs) :
    writeArray d = flatten (norm d 0 d.len) ∧ decode (norm d 0 d.len) = decode d := by
  refine ⟨rfl, ?_⟩
  rw [decode_norm d 0 d.len vs hw hp hd (by omega), hd]
  have := decode_len hd
  simp [sliceSpec, ← this]

/-- non-vacuity: a sliced struct of (nullable int16, utf8) is in the proved grammar -/
example : provedA ⟨.struct (.cons 0 (.prim 2) true (.cons 1 (.utf8 false) true .nil)), 2, 0, none, [],
    [⟨.prim 2, 2, 1, some ⟨[0b101], 1, 2, 1⟩, [[1, 0, 2, 0, 3, 0]], []⟩,
     ⟨.utf8 false, 2, 0, none, [[1, 0, 0, 0, 2, 0, 0, 0, 3, 0, 0, 0], [0x61, 0x62, 0x63]], []⟩]⟩ = true := by
  decide

/-- **Projection skip accounting** (`RecordBatchDecoder::skip_field` vs `write_array_data`): for
every type of the physical grammar (nested, dictionary, union dense/sparse, run-end …) and every
metadata version `v`, a column with the shape the writer emits under `v` (validity buffer iff
`has_validity_bitmap(type, v)`, buffers per layout, children recursively) occupies exactly
`skipCount t v` field nodes and buffers — so skipping an unprojected column leaves the reader
positioned on the next column.  Uses the *regenerated* shapes of `has_validity_bitmap` and of the
Union arm of `skip_field` (version split 5 in both): if either changes, this theorem no longer
checks. -/
theorem skip_field_accounting (v : Nat) (t : DType) (x : ArrayData) (h : shapeOk v t x = true) :
    (flatten x).1.length = (skipCount t v).1 ∧ (flatten x).2.length = (skipCount t v).2 :=
  flatten_count SKIP_UNION_VALIDITY_BELOW v (by decide) t x h

/-- the same for a column that *is* read (`create_array`), hence projected and full reads
consume the same positions -/
theorem create_array_accounting (v : Nat) (t : DType) (x : ArrayData) (h : shapeOk v t x = true) :
    (flatten x).1.length = (readCount t v).1 ∧ (flatten x).2.length = (readCount t v).2 :=
  flatten_count READ_UNION_VALIDITY_BELOW v (by decide) t x h

/-- non-vacuity: a run-end column written under V4 (no validity buffer of its own; run ends and
values each with theirs) has the writer's shape, and is skipped as 3 nodes / 4 buffers -/
example : shapeOk 4 (.ree 4 (.prim 4))
    ⟨.ree 4 (.prim 4), 1, 0, none, [],
      [⟨.prim 4, 1, 0, some ⟨[1], 0, 1, 0⟩, [[1, 0, 0, 0]], []⟩,
       ⟨.prim 4, 1, 0, some ⟨[1], 0, 1, 0⟩, [[7, 0, 0, 0]], []⟩]⟩ = true ∧
    skipCount (.ree 4 (.prim 4)) 4 = (3, 4) := by decide

/-- non-vacuity: a sparse union column written under V4 (validity buffer + type ids, one Int32
child) has the writer's shape, and is skipped as 2 nodes / 4 buffers -/
example : shapeOk 4 (.union false (.cons 0 (.prim 4) true .nil))
    ⟨.union false (.cons 0 (.prim 4) true .nil), 1, 0, some ⟨[1], 0, 1, 0⟩, [[0]],
      [⟨.prim 4, 1, 0, some ⟨[1], 0, 1, 0⟩, [[7, 0, 0, 0]], []⟩]⟩ = true ∧
    skipCount (.union false (.cons 0 (.prim 4) true .nil)) 4 = (2, 4) := by decide

end WholeArray

/-! ## (b) framing and body layout -/

/-- **`pad_to_alignment`**: for the four alignments `IpcWriteOptions::try_new` accepts (values
regenerated from the source) the mask expression is the least padding to the next multiple. -/
theorem padToAlignment_spec (a len : Nat) (h : ValidAlignment a) :
    padToAlignment a len = padSpec a len ∧ (len + padToAlignment a len) % a = 0 ∧
      padToAlignment a len < a :=
  ⟨padToAlignment_eq a len h, (padToAlignment_ok a len h).1, (padToAlignment_ok a len h).2.1⟩

example : ValidAlignment DEFAULT_ALIGNMENT := Or.inr (Or.inr (Or.inr rfl))

/-- **Body layout** (`encode_sink_buffer` + `write_record_batch` vs `read_buffer`): for every
list of buffers, every recorded `(offset, length)` entry passes the reader's bounds check and
slicing the body there returns exactly the buffers; every buffer starts on an alignment boundary; the body length is a multiple of
the alignment (so `write_encoded_data`'s alignment check passes and `tail_pad` is 0). -/
theorem bodyLayout_roundtrip (a : Nat) (ha : ValidAlignment a) (bufs : List (List Nat)) :
    let r := encodeBody a bufs
    r.1.map (readBuffer r.2) = bufs.map some ∧ (∀ e ∈ r.1, e.1 % a = 0) ∧ r.2.length % a = 0 ∧
      r.1.map (·.2) = bufs.map (·.length) := by
  have h := encodeBody_ok a ha bufs
  have h' := encodeSinkBuffers_ok a ha bufs 0 [] [] rfl (by simp)
  exact ⟨h.1, h.2.1, h.2.2.1, h'.2.2.2.2⟩

/-- **Message sizes** (`write_encoded_data` → the `Block`s of the file footer): the returned
`(padded_header_len, body_len)` add up to the bytes written, and the header part is aligned,
so consecutive messages (and hence every body) start on an alignment boundary. -/
theorem writeEncodedData_sizes (o : WriteOpts) (f : List Nat → Option Nat) (m : Msg)
    (h : ValidAlignment o.alignment) (hw : WfMsg o f m) :
    ∃ bytes, writeEncodedData o m = some (bytes, paddedHeaderLen o m.1.length, m.2.length) ∧
      bytes.length = paddedHeaderLen o m.1.length + m.2.length ∧
      paddedHeaderLen o m.1.length % o.alignment = 0 := by
  refine ⟨_, writeEncodedData_wf o f m h hw, ?_, (paddedHeaderLen_ok o _ h).1⟩
  have h1 := paddedHeaderLen_ok o m.1.length h
  have h2 := paddedMetadataLen_eq o m.1.length h
  have h3 : (writeContinuation o (paddedMetadataLen o m.1.length)).length = prefixSize o := by
    unfold writeContinuation prefixSize
    cases o.legacy <;> simp [le32, marker_eq, PREFIX_LEGACY, PREFIX_MARKER]
  simp only [List.length_append, h3, zeros, List.length_replicate]
  unfold paddedMetadataLen at h2
  omega

/-- **Framing round trip** (`write_message`/`write_continuation`/`write_eos` vs
`MessageReader::maybe_next`/`read_meta_len`): for every list of messages, both framings
(continuation marker or legacy 4-byte prefix) and every valid alignment, parsing the encoded
stream — followed by arbitrary bytes, e.g. the file footer — returns exactly the messages
(metadata zero-padded, which the flatbuffer root ignores), in order, and stops at the
end-of-stream marker. -/
theorem parseStream_encodeStream (o : WriteOpts) (f : List Nat → Option Nat)
    (h : ValidAlignment o.alignment) (msgs : List Msg) (bytes rest : List Nat)
    (he : encodeStream o msgs = some bytes) (hw : ∀ m ∈ msgs, WfMsg o f m) :
    parseStream f (bytes ++ rest) =
      .ok (msgs.map fun m => padMsg (metadataPadding o m.1.length) m) rest := by
  unfold parseStream
  apply parseLoop_encodeStream o f h rest msgs bytes he hw
  have : msgs.length ≤ bytes.length := encodeStream_length o msgs bytes he
  simp only [List.length_append]
  omega

/-- non-vacuity: a message with 5 metadata bytes and an 8-byte body under alignment 8 -/
example : WfMsg ⟨8, false⟩ (fun _ => some 8) ([1, 2, 3, 4, 5], [0, 0, 0, 0, 0, 0, 0, 0]) := by
  refine ⟨by decide, by decide, by decide, rfl⟩

/-- an unaligned body is rejected, never written (`Err("Arrow data not aligned")`) -/
theorem writeEncodedData_unaligned (o : WriteOpts) (m : Msg) (h : m.2.length % o.alignment ≠ 0) :
    writeEncodedData o m = none := by
  simp [writeEncodedData, h]

/-! ## (c) dictionary protocol -/

section Dict
variable {V : Type} [DecidableEq V]

/-- **Stream refinement** (`DictionaryTracker::insert_column` + `compare_dictionaries` vs
`update_dictionaries`): for every history of batches (each dictionary id used once per batch,
as the tracker's id assignment guarantees), either handling mode and either tracker
configuration, a reader that starts in sync with the writer decodes the emitted messages to
exactly the logical columns of the batches written — all of them unless the writer reported
an error, which only happens with `error_on_replacement` (file format); the batches before
the error are still exact.  In particular unchanged / extended / replaced dictionaries
between batches never change what a column denotes. -/
theorem stream_dictionary_refinement (err : Bool) (h : Handling) (hist : List (List (DictCol V)))
    (w : Table V) (hnd : ∀ b ∈ hist, (b.map (·.id)).Nodup) :
    ∃ n, n ≤ hist.length ∧
      readStream w (writeAll err h w hist).1 = some ((hist.take n).map denoteBatch) ∧
      ((writeAll err h w hist).2 = true → n = hist.length) ∧
      ((writeAll err h w hist).2 = false → err = true) :=
  readStream_writeAll err h hist w hnd

/-- `StreamWriter`/`StreamEncoder`/Flight (`error_on_replacement = false`) accept every history
and the reader returns every batch. -/
theorem stream_never_fails (h : Handling) (hist : List (List (DictCol V)))
    (hnd : ∀ b ∈ hist, (b.map (·.id)).Nodup) :
    (writeAll false h Table.empty hist).2 = true ∧
      readStream Table.empty (writeAll false h Table.empty hist).1 = some (hist.map denoteBatch) := by
  obtain ⟨n, _, hr, hok, herr⟩ := readStream_writeAll false h hist Table.empty hnd
  have ok : (writeAll false h Table.empty hist).2 = true := by
    cases hb : (writeAll false h Table.empty hist).2 with
    | true => rfl
    | false => exact absurd (herr hb) (by simp)
  have := hok ok
  subst this
  exact ⟨ok, by simpa using hr⟩

/-- **File refinement** (`FileWriter` with `error_on_replacement = true` vs
`FileReaderBuilder::build`, which loads *all* dictionary blocks before any record batch):
whenever the file writer accepts a history, reading every batch against the *final*
dictionaries returns the logical columns written (keys in bounds), because accepted updates
only ever append (delta) — a replacement is an error, never wrong data. -/
theorem file_dictionary_refinement (h : Handling) (hist : List (List (DictCol V)))
    (hnd : ∀ b ∈ hist, (b.map (·.id)).Nodup)
    (hk : ∀ b ∈ hist, ∀ c ∈ b, KeysInBounds c.dict.length c.keys) :
    ∃ n, n ≤ hist.length ∧
      readFile Table.empty (writeAll true h Table.empty hist).1 = some ((hist.take n).map denoteBatch) ∧
      ((writeAll true h Table.empty hist).2 = true → n = hist.length) := by
  obtain ⟨n, tf, hn, hr, _, hb, hok⟩ := readFile_writeAll_aux h hist Table.empty hnd hk
  exact ⟨n, hn, by simp only [readFile, hr]; exact hb tf (Ext.refl _), hok⟩

/-- **File format + replacement ⇒ error**: with `error_on_replacement` a dictionary that is
neither equal to nor (in delta mode) an extension of the one already written is rejected. -/
theorem file_replacement_is_error (h : Handling) (w : Table V) (c : DictCol V) (old : List V)
    (hw : w c.id = some old) (hne : old ≠ c.dict)
    (hd : h = .resend ∨ c.dict.take old.length ≠ old) :
    encodeColumn true h w c = none := by
  unfold encodeColumn insertColumn
  simp only [hw]
  have : compareDictionaries old c.dict = .notEqual ∨
      (compareDictionaries old c.dict = .delta ∧ h = .resend) := by
    unfold compareDictionaries
    by_cases h1 : old.length = c.dict.length
    · simp [h1, hne]
    · by_cases h2 : c.dict.length < old.length
      · simp [h1, h2]
      · by_cases h3 : c.dict.take old.length = old
        · rcases hd with hd | hd
          · simp [h1, h2, h3, hd]
          · exact absurd h3 hd
        · simp [h1, h2, h3]
  rcases this with e | ⟨e, rfl⟩ <;> simp [e]

/-- non-vacuity: an extended and then replaced dictionary, in bounds, distinct ids -/
example : (∀ b ∈ [[(⟨0, [10, 20], [some 1, none]⟩ : DictCol Nat)], [⟨0, [10, 20, 30], [some 2]⟩], [⟨0, [7], [some 0]⟩]],
    (b.map (·.id)).Nodup) := by decide

end Dict

/-! ## (d) Flight -/

/-- **`split_batch_for_grpc_response`**: for every batch size, size limit `> 0` and row count,
the slices are non-empty, consecutive, in order and cover rows `0 .. num_rows` exactly once
(so concatenating the decoded pieces gives the input rows, without reordering). -/
theorem splitBatch_cover (size maxSize numRows : Nat) (hmax : 0 < maxSize) :
    ∃ slices, splitBatch size maxSize numRows = some slices ∧
      rowsOf slices = List.range numRows ∧ ∀ s ∈ slices, 0 < s.2 ∧ s.1 + s.2 ≤ numRows := by
  unfold splitBatch
  have h0 : maxSize ≠ 0 := by omega
  simp only [h0, if_false]
  refine ⟨_, rfl, ?_, ?_⟩
  · rw [rowsOf_splitLoop _ _ (by omega) _ _ (by omega)]
    simp [List.range_eq_range']
  · intro s hs
    have := splitLoop_lengths _ numRows (by omega) _ _ s hs
    omega

/-- **Zero-row batches produce no slice at all**: `FlightDataEncoder::encode_batch` therefore
emits *no* FlightData for an empty batch — the decoded stream has one batch fewer than the
input.  (This is what the code does; the round-trip property lists empty batches, so the
harness reports it as a finding — the theorem pins the cause.) -/
theorem splitBatch_zero_rows (size maxSize : Nat) (hmax : 0 < maxSize) :
    splitBatch size maxSize 0 = some [] := by
  unfold splitBatch
  have h0 : maxSize ≠ 0 := by omega
  simp [h0, splitLoop]

/-- for a non-empty batch there is at least one slice (no data is dropped) -/
theorem splitBatch_nonempty (size maxSize numRows : Nat) (hmax : 0 < maxSize) (hn : 0 < numRows) :
    ∃ s rest, splitBatch size maxSize numRows = some (s :: rest) := by
  unfold splitBatch
  have h0 : maxSize ≠ 0 := by omega
  simp only [h0, if_false]
  obtain ⟨k, rfl⟩ : ∃ k, numRows = k + 1 := ⟨numRows - 1, by omega⟩
  have hl : ∀ rp, splitLoop rp (k + 1) (k + 1) 0 =
      (0, min rp (k + 1)) :: splitLoop rp (k + 1) k (0 + min rp (k + 1)) := by
    intro rp; rw [splitLoop]; simp
  exact ⟨_, _, by rw [hl]⟩

/-! ## source-shape ties -/

/-- **The expressions the model mirrors still have the shape they were modelled from**: every
`SHAPE_*` item of `tools/items/C04.py` (operand/guard/statement order of `reencode_offsets`,
`get_byte_array_buffers`, `get_list_array_buffers`, `get_or_truncate_buffer`, the validity and
boolean branches of `write_array_data`, `pad_to_alignment`, `MetadataLayout`, `write_encoded_data`,
`write_continuation`, `encode_sink_buffer`, `compare_dictionaries`, `insert_column`,
`encode_dictionaries`, `read_buffer`, `update_dictionaries`, `read_meta_len`, the file reader's
dictionaries-first loop, `Buffer::bit_slice`, `split_batch_for_grpc_response`) is regenerated from
the source on every run; an edit makes its item LOST and this obligation fails, so the change is
reported even when no sampled input distinguishes it. -/
theorem shapes_tied :
    (SHAPE_REENCODE_WINDOW_lost ||
      SHAPE_REENCODE_MATCH_lost ||
      SHAPE_REENCODE_RESULT_lost ||
      SHAPE_BYTE_ARRAY_WINDOW_lost ||
      SHAPE_LIST_CHILD_WINDOW_lost ||
      SHAPE_NEED_TRUNCATE_lost ||
      SHAPE_TRUNCATE_lost ||
      SHAPE_VALIDITY_SLICED_lost ||
      SHAPE_VALIDITY_SYNTH_lost ||
      SHAPE_BOOL_BIT_SLICE_lost ||
      SHAPE_FSL_CHILD_lost ||
      SHAPE_PAD_lost ||
      SHAPE_LAYOUT_lost ||
      SHAPE_ENCODED_DATA_lost ||
      SHAPE_ALIGN_CHECK_lost ||
      SHAPE_CONT_V5_lost ||
      SHAPE_SINK_BUFFER_lost ||
      SHAPE_TAIL_PAD_lost ||
      SHAPE_COMPARE_DICT_lost ||
      SHAPE_COMPARE_DICT_TAIL_lost ||
      SHAPE_COMPARE_DICT_DELTA_lost ||
      SHAPE_INSERT_NEW_lost ||
      SHAPE_INSERT_EQUAL_lost ||
      SHAPE_INSERT_REPLACED_lost ||
      SHAPE_INSERT_DELTA_lost ||
      SHAPE_ENCODE_DICT_UPDATE_lost ||
      SHAPE_READ_BUFFER_lost ||
      SHAPE_READ_BUFFER_SLICE_lost ||
      SHAPE_READ_UNION_TYPE_IDS_lost ||
      SHAPE_READ_UNION_OFFSETS_lost ||
      SHAPE_READ_UNION_ALIGN_lost ||
      SHAPE_READ_UNION_COPY_lost ||
      SHAPE_UPDATE_DICT_lost ||
      SHAPE_UPDATE_DICT_CONCAT_lost ||
      SHAPE_READ_META_PREFIX_lost ||
      SHAPE_WRITE_UNION_lost ||
      SHAPE_WRITE_UNION_DENSE_lost ||
      SHAPE_WRITE_UNION_CHILDREN_lost ||
      SHAPE_REE_EMPTY_lost ||
      SHAPE_READ_META_LEN_lost ||
      SHAPE_FILE_DICTS_FIRST_lost ||
      SHAPE_BIT_SLICE_ALIGNED_lost ||
      SHAPE_FLIGHT_SPLIT_lost) = false := by decide

end ArrowModel.C04
