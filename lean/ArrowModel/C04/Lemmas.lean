import ArrowModel.C04.Spec
import ArrowModel.C04.Model
import ArrowModel.C19.Lemmas
/-
C04 — helper lemmas (list windows, padding arithmetic, framing, dictionary state machine,
Flight split loop).  Core tactics only.
The `bit_slice` lemmas are derived from the C19 theorems about `BitChunks` (the C04 model copies
the C19 definitions verbatim; the `*_eq` lemmas below check that).
-/
namespace ArrowModel.C04
open ArrowModel.Generated.C04

/-! ### (a) slice normalisation -/

theorem window_sub {α} (data : List α) (s l a b : Nat) (h1 : s ≤ a) (h2 : a ≤ b) (h3 : b ≤ s + l) :
    (((data.drop s).take l).drop (a - s)).take ((b - s) - (a - s)) = (data.drop a).take (b - a) := by
  rw [List.drop_take, List.drop_drop, List.take_take]
  have e1 : s + (a - s) = a := by omega
  have e2 : min (b - s - (a - s)) (l - (a - s)) = b - a := by omega
  rw [e1, e2]

theorem slice_getD (offsets : List Nat) (off len i : Nat) (hi : i ≤ len) :
    ((offsets.drop off).take (len + 1)).getD i 0 = offsets.getD (off + i) 0 := by
  simp only [List.getD_eq_getElem?_getD, List.getElem?_take, List.getElem?_drop]
  have : i < len + 1 := by omega
  simp [this]

theorem slice_length (offsets : List Nat) (off len : Nat) (h : off + len + 1 ≤ offsets.length) :
    ((offsets.drop off).take (len + 1)).length = len + 1 := by
  simp; omega

theorem head?_getD_eq {l : List Nat} : l.head?.getD 0 = l.getD 0 0 := by
  cases l <;> simp

theorem getLast?_getD_eq {l : List Nat} : l.getLast?.getD 0 = l.getD (l.length - 1) 0 := by
  rw [List.getLast?_eq_getElem?]
  simp [List.getD_eq_getElem?_getD]

theorem if_map_sub (sl : List Nat) (s : Nat) :
    (if s = 0 then sl else sl.map (· - s)) = sl.map (· - s) := by
  by_cases h0 : s = 0
  · subst h0; simp
  · simp [h0]

theorem reencode_eq (offsets : List Nat) (off len : Nat) (h : off + len + 1 ≤ offsets.length) :
    reencodeOffsets offsets off len =
      ((List.range (len + 1)).map (fun i => offsets.getD (off + i) 0 - offsets.getD off 0),
        offsets.getD off 0, offsets.getD (off + len) 0 - offsets.getD off 0) := by
  unfold reencodeOffsets
  have hl := slice_length offsets off len h
  have hs : ((offsets.drop off).take (len + 1)).head?.getD 0 = offsets.getD off 0 := by
    rw [head?_getD_eq, slice_getD _ _ _ _ (by omega)]; simp
  have he : ((offsets.drop off).take (len + 1)).getLast?.getD 0 = offsets.getD (off + len) 0 := by
    rw [getLast?_getD_eq, hl, slice_getD _ _ _ _ (by omega)]; simp
  have hg := slice_getD offsets off len
  simp only [hs, he]
  generalize (offsets.drop off).take (len + 1) = sl at hl hg
  generalize offsets.getD off 0 = s
  rw [if_map_sub]
  congr 1
  apply List.ext_getElem
  · simp [hl]
  · intro i h1 h2
    simp only [List.length_map, List.length_range] at h2
    simp only [List.getElem_map, List.getElem_range]
    have := hg i (by omega)
    rw [List.getD_eq_getElem?_getD, List.getElem?_eq_getElem (by simpa using h1)] at this
    simp only [Option.getD_some] at this
    rw [this]

theorem decodeVar_reencode {α} (offsets : List Nat) (data : List α) (off len : Nat)
    (h : off + len + 1 ≤ offsets.length) (hm : MonoOn offsets off len) :
    let r := reencodeOffsets offsets off len
    decodeVar r.1 ((data.drop r.2.1).take r.2.2) 0 len = decodeVar offsets data off len := by
  intro r
  have hr : r = _ := reencode_eq offsets off len h
  rw [hr]
  simp only [decodeVar]
  apply List.map_congr_left
  intro i hi
  have hi : i < len := by simpa using hi
  have g : ∀ j, j ≤ len → ((List.range (len + 1)).map (fun i => offsets.getD (off + i) 0 - offsets.getD off 0)).getD j 0
      = offsets.getD (off + j) 0 - offsets.getD off 0 := by
    intro j hj
    rw [List.getD_eq_getElem?_getD, List.getElem?_map, List.getElem?_range (by omega)]
    simp
  rw [Nat.zero_add, g i (by omega), g (i + 1) (by omega)]
  have m1 := hm off (off + i) (by omega) (by omega) (by omega)
  have m2 := hm (off + i) (off + i + 1) (by omega) (by omega) (by omega)
  have m3 := hm (off + i + 1) (off + len) (by omega) (by omega) (by omega)
  have e : off + (i + 1) = off + i + 1 := by omega
  rw [e]
  exact window_sub data _ _ _ _ m1 m2 (by omega)

theorem window_add {α} (data : List α) (s l k m : Nat) (h : k + m ≤ l) :
    (((data.drop s).take l).drop k).take m = (data.drop (s + k)).take m := by
  rw [List.drop_take, List.drop_drop, List.take_take]
  have e2 : min m (l - k) = m := by omega
  rw [e2]

theorem truncate_length (buf : List Nat) (w off len : Nat) (h : (off + len) * w ≤ buf.length) :
    (getOrTruncateBuffer buf w off len).length = len * w := by
  have e : (off + len) * w = off * w + len * w := Nat.add_mul ..
  unfold getOrTruncateBuffer bufferNeedTruncate
  by_cases hc : (off != 0 || decide (len * w < buf.length)) = true
  · simp only [hc, if_true, List.length_take, List.length_drop]; omega
  · simp only [hc]
    simp only [Bool.or_eq_true, bne_iff_ne, ne_eq, decide_eq_true_eq, not_or, Decidable.not_not, Nat.not_lt] at hc
    obtain ⟨h0, h1⟩ := hc
    subst h0
    simp at e h ⊢
    omega

theorem truncate_elems (buf : List Nat) (w off len : Nat) (h : (off + len) * w ≤ buf.length) :
    fixedElems (getOrTruncateBuffer buf w off len) w 0 len = fixedElems buf w off len := by
  have e : (off + len) * w = off * w + len * w := Nat.add_mul ..
  unfold getOrTruncateBuffer bufferNeedTruncate
  by_cases hc : (off != 0 || decide (len * w < buf.length)) = true
  · simp only [hc, if_true, fixedElems]
    apply List.map_congr_left
    intro i hi
    have hi : i < len := by simpa using hi
    have e1 : min (len * w) (buf.length - off * w) = len * w := by omega
    have e2 : (i + 1) * w ≤ len * w := Nat.mul_le_mul_right w (by omega)
    have e3 : (i + 1) * w = i * w + w := by rw [Nat.add_mul]; simp
    rw [e1, Nat.zero_add, window_add _ _ _ _ _ (by omega), Nat.add_mul]
  · simp only [hc]
    simp only [Bool.or_eq_true, bne_iff_ne, ne_eq, decide_eq_true_eq, not_or, Decidable.not_not, Nat.not_lt] at hc
    obtain ⟨h0, _⟩ := hc
    subst h0
    simp

/-! ### `Buffer::bit_slice` (via C19) -/

theorem u64_eq : u64 = C19.u64 := rfl
theorem readByte_eq : readByte = C19.readByte := rfl
theorem readU64_eq : readU64 = C19.readU64 := rfl
theorem chunkAt_eq : chunkAt = C19.chunkAt := rfl
theorem ceilDiv_eq : ceilDiv = C19.ceilDiv := rfl
theorem remLoop_eq (v base bo n i bits : Nat) : remLoop v base bo n i bits = C19.remLoop v base bo n i bits := by
  induction n generalizing i bits with
  | zero => rfl
  | succ n ih => simp only [remLoop, C19.remLoop]; rw [ih]; rfl
theorem remainderBits_eq (v bo cl rl : Nat) : remainderBits v bo cl rl = C19.remainderBits v bo cl rl := by
  unfold remainderBits C19.remainderBits
  simp only [remLoop_eq]
  rfl
theorem packWords_eq (ws : List Nat) : packWords ws = C19.packWords ws := by
  induction ws with
  | nil => rfl
  | cons w ws ih => simp only [packWords, C19.packWords, ih]; rfl

/-- the word list of the unaligned branch of `bit_slice` -/
def bitSliceWords (v off len : Nat) : List Nat :=
  let vb := v >>> (8 * (off / 8))
  let chunks := (List.range (len / 64)).map (chunkAt vb (off % 8))
  if len % 64 > 0 then chunks ++ [remainderBits vb (off % 8) (len / 64) (len % 64)] else chunks

theorem bitSliceWords_getD (v off len k : Nat) :
    ((bitSliceWords v off len)[k]?).getD 0 = ((C19.iterPadded v off len)[k]?).getD 0 := by
  unfold bitSliceWords C19.iterPadded
  simp only [chunkAt_eq, remainderBits_eq]
  by_cases hr : len % 64 > 0
  · simp [hr]
  · have : len % 64 = 0 := by omega
    simp only [this, Nat.lt_irrefl, if_false]
    have hz : C19.remainderBits (v >>> (8 * (off / 8))) (off % 8) (len / 64) 0 = 0 := by
      simp [C19.remainderBits]
    rw [hz]
    by_cases hk : k < len / 64
    · rw [List.getElem?_append_left (by simpa using hk)]
    · rw [List.getElem?_append_right (by simpa using hk)]
      rw [List.getElem?_eq_none (by simpa using hk)]
      simp only [List.length_map, List.length_range, Option.getD_none]
      cases (k - len / 64) <;> simp

theorem testBit_bitSliceWords (v off len i : Nat) :
    (packWords (bitSliceWords v off len)).testBit i = (decide (i < len) && v.testBit (off + i)) := by
  rw [packWords_eq, C19.testBit_packWords, bitSliceWords_getD]
  by_cases hk : i / 64 ≤ len / 64
  · obtain ⟨w, e, b⟩ := C19.iterPadded_getElem? v off len (i / 64) hk
    rw [e, Option.getD_some, b]
    have hm : i % 64 < 64 := Nat.mod_lt _ (by decide)
    have hx : 64 * (i / 64) + i % 64 = i := by omega
    have a1 : off + 64 * (i / 64) + i % 64 = off + i := by omega
    simp [hm, hx, a1]
  · have hl : ¬ i < len := by
      intro h; exact hk (Nat.div_le_div_right (by omega))
    rw [List.getElem?_eq_none (by rw [C19.iterPadded_length]; omega)]
    simp [hl]

theorem testBit_bitSlice (v off len i : Nat) (hi : i < len) :
    (bitSlice v off len).1.testBit i = v.testBit (off + i) := by
  have h8 : i < 8 * ceilDiv len 8 := by unfold ceilDiv; omega
  unfold bitSlice
  by_cases ho : off % 8 = 0
  · simp only [ho, if_true, Nat.testBit_mod_two_pow, h8, decide_true, Bool.true_and, Nat.testBit_shiftRight]
  · simp only [ho, if_false, Nat.testBit_mod_two_pow, h8, decide_true, Bool.true_and]
    have := testBit_bitSliceWords v off len i
    unfold bitSliceWords at this
    simp only [this, hi, decide_true, Bool.true_and]

theorem bitSlice_len (v off len : Nat) : (bitSlice v off len).2 = ceilDiv len 8 := by
  unfold bitSlice; split <;> rfl

theorem bitSlice_lt (v off len : Nat) : (bitSlice v off len).1 < 2 ^ (8 * ceilDiv len 8) := by
  unfold bitSlice; split <;> exact Nat.mod_lt _ (Nat.two_pow_pos _)

theorem bitSlice_bits (v off len : Nat) : bitsOf (bitSlice v off len).1 0 len = bitsOf v off len := by
  unfold bitsOf
  apply List.map_congr_left
  intro i hi
  rw [Nat.zero_add]
  exact testBit_bitSlice v off len i (by simpa using hi)

theorem bitSlice_pad (v off len i : Nat) (ho : off % 8 ≠ 0) (hi : len ≤ i) :
    (bitSlice v off len).1.testBit i = false := by
  unfold bitSlice
  simp only [ho, if_false, Nat.testBit_mod_two_pow]
  have := testBit_bitSliceWords v off len i
  unfold bitSliceWords at this
  have hl : ¬ i < len := by omega
  simp only [this, hl, decide_false, Bool.false_and, Bool.and_false]

/-! ### (b) framing -/

/-- the alignments `IpcWriteOptions::try_new` accepts (regenerated from the source) -/
def ValidAlignment (a : Nat) : Prop := a = ALIGN_0 ∨ a = ALIGN_1 ∨ a = ALIGN_2 ∨ a = ALIGN_3

theorem validAlignment_cases {a : Nat} (h : ValidAlignment a) : a = 8 ∨ a = 16 ∨ a = 32 ∨ a = 64 := h

theorem and7 (x : Nat) : x &&& 7 = x % 8 := Nat.and_two_pow_sub_one_eq_mod x 3
theorem and15 (x : Nat) : x &&& 15 = x % 16 := Nat.and_two_pow_sub_one_eq_mod x 4
theorem and31 (x : Nat) : x &&& 31 = x % 32 := Nat.and_two_pow_sub_one_eq_mod x 5
theorem and63 (x : Nat) : x &&& 63 = x % 64 := Nat.and_two_pow_sub_one_eq_mod x 6

theorem andNot_roundDown (a x : Nat) (h : ValidAlignment a) : andNot x (a - 1) = x - x % a := by
  rcases validAlignment_cases h with h | h | h | h <;> subst h <;> simp [andNot, and7, and15, and31, and63]

theorem padToAlignment_eq (a len : Nat) (h : ValidAlignment a) :
    padToAlignment a len = padSpec a len := by
  unfold padToAlignment padSpec
  simp only [andNot_roundDown a _ h]
  rcases validAlignment_cases h with h | h | h | h <;> subst h <;> omega

theorem padToAlignment_ok (a len : Nat) (h : ValidAlignment a) :
    (len + padToAlignment a len) % a = 0 ∧ padToAlignment a len < a ∧
      (len % a = 0 → padToAlignment a len = 0) := by
  rw [padToAlignment_eq a len h]
  unfold padSpec
  rcases validAlignment_cases h with h | h | h | h <;> subst h <;> omega

theorem marker_eq : continuationMarker = [255, 255, 255, 255] := by decide

theorem readI32_le32 (n : Nat) (hn : n < 2 ^ 31) : readI32 (le32 n) = (n : Int) := by
  unfold readI32 le32
  simp only [List.getD_cons_zero, List.getD_cons_succ]
  have : n % 256 + 256 * (n / 256 % 256) + 65536 * (n / 65536 % 256) + 16777216 * (n / 16777216 % 256) = n := by omega
  rw [this]
  simp [hn]

theorem le32_ne_marker (n : Nat) (hn : n < 2 ^ 31) : le32 n ≠ continuationMarker := by
  rw [marker_eq]; unfold le32
  intro h
  simp only [List.cons.injEq, and_true] at h
  omega

theorem readMetaLen_legacy (n : Nat) (tail : List Nat) (hn : n < 2 ^ 31) :
    readMetaLen (le32 n ++ tail) = if n = 0 then .eos tail else .len n tail := by
  have h1 : (le32 n ++ tail).take 4 = le32 n := by simp [le32]
  have h2 : (le32 n ++ tail).drop 4 = tail := by simp [le32]
  have h3 : ¬ (le32 n ++ tail).length < 4 := by simp [le32]
  have h0 : ¬ (le32 n ++ tail).length = 0 := by simp [le32]
  unfold readMetaLen
  simp only [h0, h3, if_false, h1, h2, le32_ne_marker n hn, readI32_le32 n hn]
  by_cases h0 : n = 0
  · simp [h0]
  · have : ¬ ((n : Int) = 0) := by omega
    have h4 : ¬ ((n : Int) < 0) := by omega
    simp [h0, this, h4]

theorem readMetaLen_marker (n : Nat) (tail : List Nat) (hn : n < 2 ^ 31) :
    readMetaLen (continuationMarker ++ le32 n ++ tail) = if n = 0 then .eos tail else .len n tail := by
  have h1 : (continuationMarker ++ le32 n ++ tail).take 4 = continuationMarker := by simp [marker_eq]
  have h2 : ((continuationMarker ++ le32 n ++ tail).drop 4).take 4 = le32 n := by simp [marker_eq, le32]
  have h2' : ¬ ((continuationMarker ++ le32 n ++ tail).drop 4).length < 4 := by simp [marker_eq, le32]
  have h2'' : (continuationMarker ++ le32 n ++ tail).drop 8 = tail := by simp [marker_eq, le32]
  have h3 : ¬ (continuationMarker ++ le32 n ++ tail).length < 4 := by simp [marker_eq, le32]
  have h0 : ¬ (continuationMarker ++ le32 n ++ tail).length = 0 := by simp [marker_eq, le32]
  unfold readMetaLen
  simp only [h0, h3, if_false, h1, h2, h2', h2'', if_true, readI32_le32 n hn]
  by_cases h0 : n = 0
  · simp [h0]
  · have : ¬ ((n : Int) = 0) := by omega
    have h4 : ¬ ((n : Int) < 0) := by omega
    simp [h0, this, h4]

theorem readMetaLen_cont (o : WriteOpts) (n : Nat) (tail : List Nat) (hn : n < 2 ^ 31) :
    readMetaLen (writeContinuation o n ++ tail) = if n = 0 then .eos tail else .len n tail := by
  unfold writeContinuation
  cases o.legacy
  · simpa using readMetaLen_marker n tail hn
  · simpa using readMetaLen_legacy n tail hn

theorem prefixSize_cases (o : WriteOpts) : prefixSize o = 4 ∨ prefixSize o = 8 := by
  unfold prefixSize; cases o.legacy <;> simp [PREFIX_LEGACY, PREFIX_MARKER]

/-- `padded_header_len` is the prefix + metadata rounded up to the alignment -/
theorem paddedHeaderLen_ok (o : WriteOpts) (n : Nat) (h : ValidAlignment o.alignment) :
    paddedHeaderLen o n % o.alignment = 0 ∧ n + prefixSize o ≤ paddedHeaderLen o n ∧
      paddedHeaderLen o n < n + prefixSize o + o.alignment := by
  unfold paddedHeaderLen
  simp only [andNot_roundDown _ _ h]
  rcases validAlignment_cases h with h | h | h | h <;> rw [h] <;> omega

theorem paddedMetadataLen_eq (o : WriteOpts) (n : Nat) (h : ValidAlignment o.alignment) :
    paddedMetadataLen o n = n + metadataPadding o n := by
  have := paddedHeaderLen_ok o n h
  unfold metadataPadding paddedMetadataLen
  omega

/-- a message the writers can produce: non-empty metadata whose padded length fits an `i32`,
an aligned body, and a `bodyLength` field that survives the metadata padding -/
def WfMsg (o : WriteOpts) (bodyLenOf : List Nat → Option Nat) (m : Msg) : Prop :=
  0 < m.1.length ∧ paddedMetadataLen o m.1.length < 2 ^ 31 ∧ m.2.length % o.alignment = 0 ∧
    bodyLenOf (m.1 ++ zeros (metadataPadding o m.1.length)) = some m.2.length

theorem writeEncodedData_wf (o : WriteOpts) (f : List Nat → Option Nat) (m : Msg)
    (h : ValidAlignment o.alignment) (hw : WfMsg o f m) :
    writeEncodedData o m = some
      (writeContinuation o (paddedMetadataLen o m.1.length) ++ m.1 ++ zeros (metadataPadding o m.1.length) ++ m.2,
        paddedHeaderLen o m.1.length, m.2.length) := by
  obtain ⟨_, _, h3, _⟩ := hw
  unfold writeEncodedData
  have hb : (if m.2.length > 0 then writeBodyData o.alignment m.2 else []) = m.2 := by
    by_cases hz : m.2.length > 0
    · simp only [hz, if_true, writeBodyData, (padToAlignment_ok o.alignment m.2.length h).2.2 h3]
      simp [zeros]
    · have : m.2 = [] := List.eq_nil_of_length_eq_zero (by omega)
      simp [this]
  simp only [h3, ne_eq, not_true_eq_false, if_false, hb]

theorem parseLoop_encodeStream (o : WriteOpts) (f : List Nat → Option Nat)
    (h : ValidAlignment o.alignment) (rest : List Nat) :
    ∀ (msgs : List Msg) (bytes : List Nat), encodeStream o msgs = some bytes →
      (∀ m ∈ msgs, WfMsg o f m) → ∀ fuel, msgs.length < fuel →
      parseLoop f fuel (bytes ++ rest) =
        .ok (msgs.map fun m => padMsg (metadataPadding o m.1.length) m) rest := by
  intro msgs
  induction msgs with
  | nil =>
    intro bytes he _ fuel hf
    simp only [encodeStream, Option.some.injEq] at he
    subst he
    obtain ⟨fuel, rfl⟩ : ∃ k, fuel = k + 1 := ⟨fuel - 1, by simp at hf; omega⟩
    unfold parseLoop writeEos
    rw [readMetaLen_cont o 0 rest (by decide)]
    simp
  | cons m ms ih =>
    intro bytes he hw fuel hf
    have hwm := hw m (by simp)
    rw [encodeStream, writeEncodedData_wf o f m h hwm] at he
    cases hes : encodeStream o ms with
    | none => simp [hes] at he
    | some rest' =>
      simp only [hes, Option.some.injEq] at he
      subst he
      obtain ⟨fuel, rfl⟩ : ∃ k, fuel = k + 1 := ⟨fuel - 1, by simp at hf; omega⟩
      obtain ⟨h1, h2, h3, h4⟩ := hwm
      have hp := paddedMetadataLen_eq o m.1.length h
      have hpos : paddedMetadataLen o m.1.length ≠ 0 := by omega
      unfold parseLoop
      have e : (writeContinuation o (paddedMetadataLen o m.1.length) ++ m.1 ++ zeros (metadataPadding o m.1.length) ++ m.2 ++ rest') ++ rest
          = writeContinuation o (paddedMetadataLen o m.1.length) ++ ((m.1 ++ zeros (metadataPadding o m.1.length)) ++ (m.2 ++ (rest' ++ rest))) := by
        simp [List.append_assoc]
      rw [e, readMetaLen_cont o _ _ h2]
      simp only [hpos, if_false]
      have hl : (m.1 ++ zeros (metadataPadding o m.1.length)).length = paddedMetadataLen o m.1.length := by
        simp [zeros, hp]
      have hge : ¬ ((m.1 ++ zeros (metadataPadding o m.1.length)) ++ (m.2 ++ (rest' ++ rest))).length < paddedMetadataLen o m.1.length := by
        rw [List.length_append, hl]; omega
      simp only [hge, if_false, List.take_left' hl, List.drop_left' hl, h4]
      have hge2 : ¬ (m.2 ++ (rest' ++ rest)).length < m.2.length := by
        rw [List.length_append]; omega
      simp only [hge2, if_false, List.take_left' rfl, List.drop_left' rfl]
      rw [ih rest' hes (fun x hx => hw x (by simp [hx])) fuel (by simp at hf; omega)]
      simp [padMsg, zeros, PADDING_BYTE]

theorem encodeSinkBuffers_ok (a : Nat) (ha : ValidAlignment a) (bufs : List (List Nat)) :
    ∀ (off : Nat) (pre suf : List Nat), pre.length = off → off % a = 0 →
      let r := encodeSinkBuffers a bufs off
      r.2.2 = off + r.2.1.length ∧ r.2.2 % a = 0 ∧
      r.1.map (readBuffer (pre ++ r.2.1 ++ suf)) = bufs.map some ∧
      (∀ e ∈ r.1, e.1 % a = 0) ∧ r.1.map (·.2) = bufs.map (·.length) := by
  induction bufs with
  | nil => intro off pre suf _ h0; simp [encodeSinkBuffers, h0]
  | cons b bs ih =>
    intro off pre suf hp h0
    obtain ⟨p1, p2, _⟩ := padToAlignment_ok a b.length ha
    have hal : (off + b.length + padToAlignment a b.length) % a = 0 := by
      rcases validAlignment_cases ha with h | h | h | h <;> subst h <;> omega
    have := ih (off + b.length + padToAlignment a b.length) (pre ++ b ++ zeros (padToAlignment a b.length)) suf
      (by simp [zeros, hp]; omega) hal
    simp only [encodeSinkBuffers] at this ⊢
    obtain ⟨i1, i2, i3, i4, i5⟩ := this
    refine ⟨by rw [i1]; simp [zeros]; omega, i2, ?_, ?_, by simp [i5]⟩
    · simp only [List.map_cons, List.cons.injEq]
      constructor
      · unfold readBuffer
        have hb : off + b.length ≤ (pre ++ (b ++ zeros (padToAlignment a b.length) ++
            (encodeSinkBuffers a bs (off + b.length + padToAlignment a b.length)).2.1) ++ suf).length := by
          simp only [List.length_append]; omega
        simp only at hb ⊢
        rw [if_pos hb]
        simp only [List.append_assoc]
        rw [List.drop_left' hp, List.take_left' rfl]
      · simpa [List.append_assoc] using i3
    · intro e he
      rcases List.mem_cons.mp he with rfl | he
      · exact h0
      · exact i4 e he

theorem encodeBody_ok (a : Nat) (ha : ValidAlignment a) (bufs : List (List Nat)) :
    let r := encodeBody a bufs
    r.1.map (readBuffer r.2) = bufs.map some ∧ (∀ e ∈ r.1, e.1 % a = 0) ∧ r.2.length % a = 0 ∧
      padToAlignment a (encodeSinkBuffers a bufs 0).2.2 = 0 := by
  have h := encodeSinkBuffers_ok a ha bufs 0 [] [] rfl (by simp)
  simp only at h
  obtain ⟨h1, h2, h3, h4, _⟩ := h
  have hz := (padToAlignment_ok a (encodeSinkBuffers a bufs 0).2.2 ha).2.2 h2
  simp only [encodeBody, hz, zeros, List.replicate_zero, List.append_nil]
  have h1' : (encodeSinkBuffers a bufs 0).2.2 = (encodeSinkBuffers a bufs 0).2.1.length := by omega
  exact ⟨by simpa using h3, h4, by rw [← h1']; exact h2, trivial⟩

/-! ### (c) dictionary protocol -/

section Dict
variable {V : Type} [DecidableEq V]

theorem compare_equal {old new : List V} (h : compareDictionaries old new = .equal) : old = new := by
  unfold compareDictionaries at h
  split at h
  · split at h
    · assumption
    · cases h
  · split at h
    · cases h
    · split at h <;> cases h

theorem compare_delta {old new : List V} (h : compareDictionaries old new = .delta) :
    old ++ new.drop old.length = new := by
  unfold compareDictionaries at h
  split at h
  · split at h <;> cases h
  · split at h
    · cases h
    · split at h
      · rename_i h3
        conv => lhs; arg 1; rw [← h3]
        exact List.take_append_drop _ _
      · cases h

/-- reader applying a run of dictionary messages -/
def applyDicts : Table V → List (DictMsg V) → Option (Table V)
  | t, [] => some t
  | t, m :: ms =>
    match updateDictionaries t m with
    | none => none
    | some t' => applyDicts t' ms

omit [DecidableEq V] in
theorem applyDicts_append (t : Table V) (a b : List (DictMsg V)) :
    applyDicts t (a ++ b) = (applyDicts t a).bind (applyDicts · b) := by
  induction a generalizing t with
  | nil => simp [applyDicts]
  | cons m ms ih =>
    simp only [List.cons_append, applyDicts]
    cases updateDictionaries t m with
    | none => simp
    | some t' => simpa using ih t'

/-- `t'` extends `t`: every dictionary known to `t` is a prefix of the one in `t'` -/
def Ext (t t' : Table V) : Prop := ∀ i d, t i = some d → ∃ ext, t' i = some (d ++ ext)

omit [DecidableEq V] in
theorem Ext.refl (t : Table V) : Ext t t := fun _ d h => ⟨[], by simpa using h⟩

omit [DecidableEq V] in
theorem Ext.trans {a b c : Table V} (h1 : Ext a b) (h2 : Ext b c) : Ext a c := by
  intro i d h
  obtain ⟨e1, h1'⟩ := h1 i d h
  obtain ⟨e2, h2'⟩ := h2 i _ h1'
  exact ⟨e1 ++ e2, by simpa [List.append_assoc] using h2'⟩

omit [DecidableEq V] in
theorem Table.set_same (t : Table V) (k : Nat) (v : List V) : (t.set k v) k = some v := by simp [Table.set]
omit [DecidableEq V] in
theorem Table.set_other (t : Table V) (k i : Nat) (v : List V) (h : i ≠ k) : (t.set k v) i = t i := by simp [Table.set, h]

theorem encodeColumn_sync (err : Bool) (h : Handling) (w w' : Table V) (c : DictCol V) (ms : List (DictMsg V))
    (he : encodeColumn err h w c = some (w', ms)) :
    applyDicts w ms = some w' ∧ w' c.id = some c.dict ∧ (∀ i, i ≠ c.id → w' i = w i) ∧
      (err = true → Ext w w') := by
  unfold encodeColumn insertColumn at he
  cases hw : w c.id with
  | none =>
    simp only [hw, Option.some.injEq, Prod.mk.injEq] at he
    obtain ⟨rfl, rfl⟩ := he
    refine ⟨by simp [applyDicts, updateDictionaries], Table.set_same .., fun i hi => Table.set_other _ _ _ _ hi, ?_⟩
    intro _ i d hd
    by_cases hi : i = c.id
    · subst hi; rw [hw] at hd; cases hd
    · exact ⟨[], by simpa [Table.set_other _ _ _ _ hi] using hd⟩
  | some old =>
    simp only [hw] at he
    cases hc : compareDictionaries old c.dict with
    | equal =>
      simp only [hc, Option.some.injEq, Prod.mk.injEq] at he
      obtain ⟨rfl, rfl⟩ := he
      have := compare_equal hc
      exact ⟨by simp [applyDicts], by rw [hw, this], fun _ _ => rfl, fun _ => Ext.refl _⟩
    | notEqual =>
      simp only [hc] at he
      cases err with
      | true => simp at he
      | false =>
        simp only [Bool.false_eq_true, if_false, Option.some.injEq, Prod.mk.injEq] at he
        obtain ⟨rfl, rfl⟩ := he
        exact ⟨by simp [applyDicts, updateDictionaries], Table.set_same .., fun i hi => Table.set_other _ _ _ _ hi, by simp⟩
    | delta =>
      simp only [hc] at he
      cases h with
      | resend =>
        cases err with
        | true => simp at he
        | false =>
          simp only [Bool.false_eq_true, if_false, Option.some.injEq, Prod.mk.injEq] at he
          obtain ⟨rfl, rfl⟩ := he
          exact ⟨by simp [applyDicts, updateDictionaries], Table.set_same .., fun i hi => Table.set_other _ _ _ _ hi, by simp⟩
      | delta =>
        simp only [Option.some.injEq, Prod.mk.injEq] at he
        obtain ⟨rfl, rfl⟩ := he
        have hd := compare_delta hc
        refine ⟨by simp [applyDicts, updateDictionaries, hw, hd], Table.set_same .., fun i hi => Table.set_other _ _ _ _ hi, ?_⟩
        intro _ i d hdd
        by_cases hi : i = c.id
        · subst hi; rw [hw] at hdd
          have e : old = d := by simpa using hdd
          subst e
          exact ⟨c.dict.drop old.length, by rw [Table.set_same, hd]⟩
        · exact ⟨[], by simpa [Table.set_other _ _ _ _ hi] using hdd⟩

theorem encodeColumn_noerr (h : Handling) (w : Table V) (c : DictCol V) :
    encodeColumn false h w c ≠ none := by
  unfold encodeColumn insertColumn
  cases w c.id with
  | none => simp
  | some old =>
    cases hc : compareDictionaries old c.dict <;> cases h <;> simp [hc]

theorem encodeAllDicts_noerr (h : Handling) (b : List (DictCol V)) :
    ∀ w : Table V, encodeAllDicts false h w b ≠ none := by
  induction b with
  | nil => intro w; simp [encodeAllDicts]
  | cons c cs ih =>
    intro w
    unfold encodeAllDicts
    cases hc : encodeColumn false h w c with
    | none => exact absurd hc (encodeColumn_noerr h w c)
    | some r =>
      obtain ⟨w1, m1⟩ := r
      cases hr : encodeAllDicts false h w1 cs with
      | none => exact absurd hr (ih w1)
      | some r2 => simp [hr]

theorem encodeAllDicts_sync (err : Bool) (h : Handling) (b : List (DictCol V)) :
    ∀ (w w' : Table V) (ms : List (DictMsg V)), (b.map (·.id)).Nodup →
      encodeAllDicts err h w b = some (w', ms) →
      applyDicts w ms = some w' ∧ (∀ c ∈ b, w' c.id = some c.dict) ∧
        (∀ i, i ∉ b.map (·.id) → w' i = w i) ∧ (err = true → Ext w w') := by
  induction b with
  | nil =>
    intro w w' ms _ he
    simp only [encodeAllDicts, Option.some.injEq, Prod.mk.injEq] at he
    obtain ⟨rfl, rfl⟩ := he
    exact ⟨rfl, by simp, fun _ _ => rfl, fun _ => Ext.refl _⟩
  | cons c cs ih =>
    intro w w' ms hnd he
    unfold encodeAllDicts at he
    cases hc : encodeColumn err h w c with
    | none => simp [hc] at he
    | some r =>
      obtain ⟨w1, m1⟩ := r
      simp only [hc] at he
      cases hr : encodeAllDicts err h w1 cs with
      | none => simp [hr] at he
      | some r2 =>
        obtain ⟨w2, m2⟩ := r2
        simp only [hr, Option.some.injEq, Prod.mk.injEq] at he
        obtain ⟨rfl, rfl⟩ := he
        simp only [List.map_cons, List.nodup_cons] at hnd
        obtain ⟨a1, a2, a3, a4⟩ := encodeColumn_sync err h w w1 c m1 hc
        obtain ⟨b1, b2, b3, b4⟩ := ih w1 w2 m2 hnd.2 hr
        refine ⟨by rw [applyDicts_append, a1]; simpa using b1, ?_, ?_, fun e => (a4 e).trans (b4 e)⟩
        · intro c' hc'
          rcases List.mem_cons.mp hc' with rfl | hc'
          · rw [b3 _ hnd.1, a2]
          · exact b2 c' hc'
        · intro i hi
          simp only [List.map_cons, List.mem_cons, not_or] at hi
          rw [b3 i hi.2, a3 i hi.1]

/-- logical content of the dictionary columns of a batch -/
def denoteBatch (b : List (DictCol V)) : List (List (Option V)) := b.map fun c => denoteCol c.dict c.keys

omit [DecidableEq V] in
theorem denoteCol_ext (d ext : List V) (keys : List (Option Nat)) (hk : KeysInBounds d.length keys) :
    denoteCol (d ++ ext) keys = denoteCol d keys := by
  unfold denoteCol
  apply List.map_congr_left
  intro k hk'
  cases k with
  | none => rfl
  | some k =>
    have := hk k hk'
    simp [List.getElem?_append_left this]

omit [DecidableEq V] in
theorem decodeBatch_ok (t : Table V) (b : List (DictCol V))
    (h : ∀ c ∈ b, ∃ ext, t c.id = some (c.dict ++ ext) ∧ (ext = [] ∨ KeysInBounds c.dict.length c.keys)) :
    decodeBatch t (b.map fun c => (c.id, c.keys)) = some (denoteBatch b) := by
  induction b with
  | nil => simp [decodeBatch, denoteBatch]
  | cons c cs ih =>
    obtain ⟨ext, h1, h2⟩ := h c (by simp)
    have := ih (fun c' hc' => h c' (by simp [hc']))
    simp only [List.map_cons, decodeBatch, h1, this, denoteBatch]
    congr 2
    rcases h2 with rfl | h2
    · simp [denoteCol]
    · exact denoteCol_ext _ _ _ h2

omit [DecidableEq V] in
theorem readStream_dicts (t : Table V) (ms : List (DictMsg V)) (r : List (WireMsg V)) :
    readStream t (ms.map .dict ++ r) = (applyDicts t ms).bind (readStream · r) := by
  induction ms generalizing t with
  | nil => simp [applyDicts]
  | cons m ms ih =>
    simp only [List.map_cons, List.cons_append, readStream, applyDicts]
    cases updateDictionaries t m with
    | none => simp
    | some t' => simpa using ih t'

omit [DecidableEq V] in
theorem readAllDictionaries_dicts (t : Table V) (ms : List (DictMsg V)) (r : List (WireMsg V)) :
    readAllDictionaries t (ms.map .dict ++ r) = (applyDicts t ms).bind (readAllDictionaries · r) := by
  induction ms generalizing t with
  | nil => simp [applyDicts]
  | cons m ms ih =>
    simp only [List.map_cons, List.cons_append, readAllDictionaries, applyDicts]
    cases updateDictionaries t m with
    | none => simp
    | some t' => simpa using ih t'

omit [DecidableEq V] in
theorem readBatches_dicts (t : Table V) (ms : List (DictMsg V)) (r : List (WireMsg V)) :
    readBatches t (ms.map .dict ++ r) = readBatches t r := by
  induction ms with
  | nil => simp
  | cons m ms ih => simpa [readBatches] using ih

theorem readStream_writeAll (err : Bool) (h : Handling) (hist : List (List (DictCol V))) :
    ∀ w : Table V, (∀ b ∈ hist, (b.map (·.id)).Nodup) →
      ∃ n, n ≤ hist.length ∧
        readStream w (writeAll err h w hist).1 = some ((hist.take n).map denoteBatch) ∧
        ((writeAll err h w hist).2 = true → n = hist.length) ∧
        ((writeAll err h w hist).2 = false → err = true) := by
  induction hist with
  | nil => intro w _; exact ⟨0, by simp [writeAll, readStream]⟩
  | cons b rest ih =>
    intro w hnd
    unfold writeAll
    cases he : encodeAllDicts err h w b with
    | none =>
      refine ⟨0, by simp, by simp [readStream], by simp, ?_⟩
      intro _
      cases err with
      | true => rfl
      | false => exact absurd he (encodeAllDicts_noerr h b w)
    | some r =>
      obtain ⟨w', ms⟩ := r
      obtain ⟨s1, s2, _, _⟩ := encodeAllDicts_sync err h b w w' ms (hnd b (by simp)) he
      obtain ⟨n, hn, hr, hok, herr⟩ := ih w' (fun b' hb' => hnd b' (by simp [hb']))
      refine ⟨n + 1, by simp; omega, ?_, by simpa using hok, by simpa using herr⟩
      simp only [List.append_assoc, readStream_dicts, s1, Option.bind_some, List.cons_append, List.nil_append,
        readStream, hr, List.take_succ_cons, List.map_cons]
      rw [decodeBatch_ok w' b (fun c hc => ⟨[], by simpa using s2 c hc, Or.inl rfl⟩)]

theorem readFile_writeAll_aux (h : Handling) (hist : List (List (DictCol V))) :
    ∀ w : Table V, (∀ b ∈ hist, (b.map (·.id)).Nodup) →
      (∀ b ∈ hist, ∀ c ∈ b, KeysInBounds c.dict.length c.keys) →
      ∃ n tf, n ≤ hist.length ∧ readAllDictionaries w (writeAll true h w hist).1 = some tf ∧ Ext w tf ∧
        (∀ tf', Ext tf tf' → readBatches tf' (writeAll true h w hist).1 = some ((hist.take n).map denoteBatch)) ∧
        ((writeAll true h w hist).2 = true → n = hist.length) := by
  induction hist with
  | nil => intro w _ _; exact ⟨0, w, by simp [writeAll, readAllDictionaries, readBatches, Ext.refl]⟩
  | cons b rest ih =>
    intro w hnd hk
    unfold writeAll
    cases he : encodeAllDicts true h w b with
    | none => exact ⟨0, w, by simp [readAllDictionaries, readBatches, Ext.refl]⟩
    | some r =>
      obtain ⟨w', ms⟩ := r
      obtain ⟨s1, s2, _, s4⟩ := encodeAllDicts_sync true h b w w' ms (hnd b (by simp)) he
      obtain ⟨n, tf, hn, hr, hext, hb, hok⟩ := ih w' (fun b' hb' => hnd b' (by simp [hb']))
        (fun b' hb' => hk b' (by simp [hb']))
      refine ⟨n + 1, tf, by simp; omega, ?_, (s4 rfl).trans hext, ?_, by simpa using hok⟩
      · simp only [List.append_assoc, readAllDictionaries_dicts, s1, Option.bind_some, List.cons_append,
          List.nil_append, readAllDictionaries, hr]
      · intro tf' hx
        simp only [List.append_assoc, readBatches_dicts, List.cons_append, List.nil_append, readBatches,
          hb tf' hx, List.take_succ_cons, List.map_cons]
        rw [decodeBatch_ok tf' b (fun c hc => by
          obtain ⟨ext, hx'⟩ := (hext.trans hx) c.id c.dict (s2 c hc)
          exact ⟨ext, hx', Or.inr (hk b (by simp) c hc)⟩)]
end Dict

theorem writeContinuation_length_pos (o : WriteOpts) (n : Nat) : 0 < (writeContinuation o n).length := by
  unfold writeContinuation; cases o.legacy <;> simp [le32]

theorem encodeStream_length (o : WriteOpts) (msgs : List Msg) :
    ∀ bytes, encodeStream o msgs = some bytes → msgs.length ≤ bytes.length := by
  induction msgs with
  | nil => intro _ _; simp
  | cons m ms ih =>
    intro bytes he
    rw [encodeStream] at he
    cases hw : writeEncodedData o m with
    | none => simp [hw] at he
    | some r =>
      cases hes : encodeStream o ms with
      | none => simp [hw, hes] at he
      | some rest =>
        simp only [hw, hes, Option.some.injEq] at he
        subst he
        have := ih rest hes
        have hr : 0 < r.1.length := by
          unfold writeEncodedData at hw
          split at hw
          · cases hw
          · simp only [Option.some.injEq] at hw
            subst hw
            have := writeContinuation_length_pos o (paddedMetadataLen o m.1.length)
            simp only [List.length_append]
            omega
        simp only [List.length_cons, List.length_append]
        omega

/-! ### (d) Flight split -/

theorem rowsOf_cons (s : Nat × Nat) (r : List (Nat × Nat)) :
    rowsOf (s :: r) = List.range' s.1 s.2 ++ rowsOf r := by
  simp [rowsOf]

theorem rowsOf_splitLoop (rp n : Nat) (hrp : 0 < rp) :
    ∀ fuel off, n - off ≤ fuel → rowsOf (splitLoop rp n fuel off) = List.range' off (n - off) := by
  intro fuel
  induction fuel with
  | zero =>
    intro off h
    have : n - off = 0 := by omega
    simp [splitLoop, rowsOf, this]
  | succ f ih =>
    intro off h
    unfold splitLoop
    by_cases hlt : off < n
    · simp only [hlt, if_true]
      rw [rowsOf_cons, ih _ (by omega)]
      simp only
      rw [List.range'_append_1]
      congr 1
      omega
    · have : n - off = 0 := by omega
      simp [hlt, rowsOf, this]

theorem splitLoop_lengths (rp n : Nat) (hrp : 0 < rp) :
    ∀ fuel off, ∀ s ∈ splitLoop rp n fuel off, 0 < s.2 ∧ s.2 ≤ rp ∧ off ≤ s.1 ∧ s.1 + s.2 ≤ n := by
  intro fuel
  induction fuel with
  | zero => intro off s hs; simp [splitLoop] at hs
  | succ f ih =>
    intro off s hs
    unfold splitLoop at hs
    by_cases hlt : off < n
    · simp only [hlt, if_true, List.mem_cons] at hs
      rcases hs with h | h
      · subst h; simp only; omega
      · have := ih _ s h; omega
    · simp [hlt] at hs

end ArrowModel.C04
