/-
C04 — specification: the logical content ("denotation") the IPC round-trip property appeals to.
Import-free.  Bytes are `Nat`s `< 256`; a buffer is a `List Nat`.

* variable-size arrays (Binary/Utf8/List/Map…): `decodeVar offsets data off len`
* fixed-width arrays: `fixedElems buf w off len`
* bit-packed buffers (Boolean values, validity): `bitsOf v off len` (buffer as little-endian `Nat`)
* a framed stream denotes its list of messages `(metadata bytes, body bytes)`
* a dictionary column denotes `keys.map (dict[·]?)`
* a Flight split denotes the row ranges `(offset, length)`
-/
namespace ArrowModel.C04

/-! ### slices -/

/-- the `len` elements of a variable-size array starting at logical index `off`: element `i`
is `data[offsets[off+i] .. offsets[off+i+1])` -/
def decodeVar {α} (offsets : List Nat) (data : List α) (off len : Nat) : List (List α) :=
  (List.range len).map fun i =>
    (data.drop (offsets.getD (off + i) 0)).take (offsets.getD (off + i + 1) 0 - offsets.getD (off + i) 0)

/-- the `len` elements of width `w` bytes starting at logical index `off` -/
def fixedElems (buf : List Nat) (w off len : Nat) : List (List Nat) :=
  (List.range len).map fun i => (buf.drop ((off + i) * w)).take w

/-- the logical content of bits `[off, off+len)` of the little-endian buffer `v` -/
def bitsOf (v off len : Nat) : List Bool := (List.range len).map (fun i => v.testBit (off + i))

/-- offsets are non-decreasing on `[off, off+len]` -/
def MonoOn (offsets : List Nat) (off len : Nat) : Prop :=
  ∀ i j, off ≤ i → i ≤ j → j ≤ off + len → offsets.getD i 0 ≤ offsets.getD j 0

/-! ### framing -/

/-- smallest padding that makes `len` a multiple of `a` -/
def padSpec (a len : Nat) : Nat := (a - len % a) % a

/-- an IPC message: flatbuffer metadata bytes and body bytes -/
abbrev Msg := List Nat × List Nat

/-- what a reader gets back for a written message: the metadata followed by `k` zero bytes
(the flatbuffer root ignores them) and the body -/
def padMsg (k : Nat) (m : Msg) : Msg := (m.1 ++ List.replicate k 0, m.2)

/-! ### dictionaries -/

/-- logical values of a dictionary-encoded column -/
def denoteCol {V} (dict : List V) (keys : List (Option Nat)) : List (Option V) :=
  keys.map fun k => k.bind (dict[·]?)

/-- all non-null keys index into the dictionary -/
def KeysInBounds (n : Nat) (keys : List (Option Nat)) : Prop := ∀ k, some k ∈ keys → k < n

/-! ### Flight split -/

/-- rows addressed by a list of `(offset, length)` slices, in order -/
def rowsOf (slices : List (Nat × Nat)) : List Nat :=
  slices.flatMap fun s => List.range' s.1 s.2

end ArrowModel.C04
