/-
C04 — algorithm model of the Arrow IPC writer/reader pieces the round-trip property rests on
(`arrow-ipc/src/writer.rs`, `arrow-ipc/src/reader.rs`, `arrow-flight/src/encode.rs`).

Every function mirrors the Rust function named in its doc comment.  Bytes are `Nat`s, buffers
are `List Nat` (bit-packed buffers: little-endian `Nat`, as in C19).  Flatbuffer
(de)serialisation is an external-crate parameter: a message's metadata is an opaque byte string
and the reader obtains the body length through a function `bodyLenOf` (the concrete accessor
used by the driver, `fbBodyLength`, follows the flatbuffers wire format).
Imports only the generated constants, so the driver links.
-/
import ArrowModel.Generated.C04
namespace ArrowModel.C04
open ArrowModel.Generated.C04

/-! ## (a) slice normalisation -/

/-- `reencode_offsets::<O>(offsets, data)` with `data.offset() = off`, `data.len() = len`:
returns the new offsets, the original start offset and the length of the data window.
(`*x - *start_offset` never underflows for the monotone offsets of a valid array.) -/
def reencodeOffsets (offsets : List Nat) (off len : Nat) : List Nat × Nat × Nat :=
  let offsetSlice := (offsets.drop off).take (len + 1)
  let startOffset := offsetSlice.head?.getD 0
  let endOffset := offsetSlice.getLast?.getD 0
  let newOffsets := if startOffset = 0 then offsetSlice else offsetSlice.map (· - startOffset)
  (newOffsets, startOffset, endOffset - startOffset)

/-- `get_byte_array_buffers::<O>(data)`: (offsets, values); also `get_list_array_buffers`
(the second component is then `child.slice(start, len)`, i.e. the same window of the child's
logical values). -/
def getByteArrayBuffers {α} (offsets : List Nat) (data : List α) (off len : Nat) : List Nat × List α :=
  if len = 0 then ([0], [])
  else
    let r := reencodeOffsets offsets off len
    (r.1, (data.drop r.2.1).take r.2.2)

/-- `buffer_need_truncate` (for a spec that is not `AlwaysNull`) -/
def bufferNeedTruncate (arrayOffset bufLen minLength : Nat) : Bool :=
  arrayOffset != 0 || decide (minLength < bufLen)

/-- `get_or_truncate_buffer(array_data)` for a fixed-width layout of `w` bytes per element -/
def getOrTruncateBuffer (buf : List Nat) (w off len : Nat) : List Nat :=
  let minLength := len * w
  if bufferNeedTruncate off buf.length minLength then
    let byteOffset := off * w
    let bufferLength := min minLength (buf.length - byteOffset)
    (buf.drop byteOffset).take bufferLength
  else buf

/-- `bit_util::ceil` -/
def ceilDiv (a b : Nat) : Nat := (a + b - 1) / b

/-- truncation to a `u64` -/
def u64 (x : Nat) : Nat := x % 2 ^ 64

/-- `data[k]` of a little-endian `Nat` buffer -/
def readByte (v k : Nat) : Nat := (v >>> (8 * k)) % 256

/-- unaligned little-endian `u64` read at byte `k` -/
def readU64 (v k : Nat) : Nat := u64 (v >>> (8 * k))

/-- `BitChunkIterator::next` for chunk `idx` (`v` = buffer from `byte_offset` on, `bo = offset % 8`) -/
def chunkAt (v bo idx : Nat) : Nat :=
  let cur := readU64 v (8 * idx)
  if bo = 0 then cur
  else
    let next := readByte v (8 * (idx + 1))
    ((cur >>> bo) ||| u64 (next <<< (64 - bo)))

/-- loop of `BitChunks::remainder_bits` -/
def remLoop (v base bo : Nat) : Nat → Nat → Nat → Nat
  | 0, _, bits => bits
  | n + 1, i, bits =>
    remLoop v base bo n (i + 1) (bits ||| u64 (readByte v (base + i) <<< (i * 8 - bo)))

/-- `BitChunks::remainder_bits` -/
def remainderBits (v bo chunkLen remLen : Nat) : Nat :=
  if remLen = 0 then 0
  else
    let byteLen := ceilDiv (remLen + bo) 8
    let base := chunkLen * 8
    let bits := readByte v base >>> bo
    let bits := remLoop v base bo (byteLen - 1) 1 bits
    bits &&& (u64 (1 <<< remLen) - 1)

/-- little-endian concatenation of 64-bit words -/
def packWords : List Nat → Nat
  | [] => 0
  | w :: ws => u64 w ||| (packWords ws <<< 64)

/-- `Buffer::bit_slice(offset, len)` (used for Boolean values and for validity
`NullBuffer::inner().sliced()`): returns `(value, byte length)`.  Byte-aligned offsets are a
zero-copy byte slice (bits past `len` in the last byte are whatever the source holds); other
offsets re-pack `BitChunks` words (bits past `len` are zero). -/
def bitSlice (v off len : Nat) : Nat × Nat :=
  let nbytes := ceilDiv len 8
  if off % 8 = 0 then ((v >>> off) % 2 ^ (8 * nbytes), nbytes)
  else
    let vb := v >>> (8 * (off / 8))
    let bo := off % 8
    let chunkLen := len / 64
    let remLen := len % 64
    let chunks := (List.range chunkLen).map (chunkAt vb bo)
    let words := if remLen > 0 then chunks ++ [remainderBits vb bo chunkLen remLen] else chunks
    (packWords words % 2 ^ (8 * nbytes), nbytes)

/-- the synthesised all-valid bitmap of `write_array_data` when `nulls()` is `None`:
`MutableBuffer::new(n).with_bitset(n, true)` with `n = ceil(num_rows, 8)` bytes of `0xFF` -/
def allValidBitmap (numRows : Nat) : List Nat := List.replicate (ceilDiv numRows 8) 255

/-! ## (b) framing -/

/-- `CONTINUATION_MARKER` -/
def continuationMarker : List Nat := List.replicate CONTINUATION_LEN CONTINUATION_BYTE

/-- `&PADDING[..n]` -/
def zeros (n : Nat) : List Nat := List.replicate n PADDING_BYTE

/-- the subset of `IpcWriteOptions` framing depends on -/
structure WriteOpts where
  alignment : Nat
  legacy : Bool
deriving Repr, DecidableEq

/-- `x & !a` on `usize` (`x − (x & a)`) -/
def andNot (x a : Nat) : Nat := x - (x &&& a)

/-- `pad_to_alignment(alignment, len)`: `((len + a) & !a) - len` with `a = alignment - 1` -/
def padToAlignment (alignment len : Nat) : Nat :=
  let a := alignment - 1
  andNot (len + a) a - len

/-- `MetadataLayout::new`: prefix size -/
def prefixSize (o : WriteOpts) : Nat := if o.legacy then PREFIX_LEGACY else PREFIX_MARKER

/-- `MetadataLayout::new`: `padded_header_len` -/
def paddedHeaderLen (o : WriteOpts) (metadataLen : Nat) : Nat :=
  let alignmentMask := o.alignment - 1
  andNot (metadataLen + prefixSize o + alignmentMask) alignmentMask

/-- `MetadataLayout::new`: `padded_metadata_len` -/
def paddedMetadataLen (o : WriteOpts) (metadataLen : Nat) : Nat :=
  paddedHeaderLen o metadataLen - prefixSize o

/-- `MetadataLayout::new`: `metadata_padding` -/
def metadataPadding (o : WriteOpts) (metadataLen : Nat) : Nat :=
  paddedMetadataLen o metadataLen - metadataLen

/-- `i32::to_le_bytes` of `n as i32` (two's complement: the low 32 bits) -/
def le32 (n : Nat) : List Nat := [n % 256, n / 256 % 256, n / 65536 % 256, n / 16777216 % 256]

/-- `write_continuation(write_options, metadata_len)` (V4 non-legacy and V5 write the marker) -/
def writeContinuation (o : WriteOpts) (metadataLen : Nat) : List Nat :=
  if o.legacy then le32 metadataLen else continuationMarker ++ le32 metadataLen

/-- `write_body_data(data, alignment)` -/
def writeBodyData (alignment : Nat) (data : List Nat) : List Nat :=
  data ++ zeros (padToAlignment alignment data.length)

/-- `write_encoded_data(encoded, write_options)` (= `write_message`): the bytes written and the
returned `(padded_header_len, body_len)`; `none` = `Err("Arrow data not aligned")`. -/
def writeEncodedData (o : WriteOpts) (m : List Nat × List Nat) : Option (List Nat × Nat × Nat) :=
  if m.2.length % o.alignment ≠ 0 then none
  else
    let body := if m.2.length > 0 then writeBodyData o.alignment m.2 else []
    some (writeContinuation o (paddedMetadataLen o m.1.length) ++ m.1 ++ zeros (metadataPadding o m.1.length) ++ body,
          paddedHeaderLen o m.1.length, body.length)

/-- `write_eos` -/
def writeEos (o : WriteOpts) : List Nat := writeContinuation o 0

/-- `encode_sink_buffer` over a list of (uncompressed) buffers starting at body offset
`offset`: the `(offset, length)` metadata entries, the body bytes, the final offset -/
def encodeSinkBuffers (alignment : Nat) : List (List Nat) → Nat → List (Nat × Nat) × List Nat × Nat
  | [], offset => ([], [], offset)
  | b :: bs, offset =>
    let padLen := padToAlignment alignment b.length
    let r := encodeSinkBuffers alignment bs (offset + b.length + padLen)
    ((offset, b.length) :: r.1, b ++ zeros padLen ++ r.2.1, r.2.2)

/-- body of a record batch message: `record_batch_to_bytes` + `write_record_batch`
(buffers, each padded, then `tail_pad`); returns `(buffer entries, body bytes)` -/
def encodeBody (alignment : Nat) (bufs : List (List Nat)) : List (Nat × Nat) × List Nat :=
  let r := encodeSinkBuffers alignment bufs 0
  let tailPad := padToAlignment alignment r.2.2
  (r.1, r.2.1 ++ zeros tailPad)

/-- reader side `read_buffer(buf, a_data, None)`: bounds check, then
`a_data.slice_with_length(offset, length)`; `none` = the error for an out-of-bounds entry -/
def readBuffer (body : List Nat) (e : Nat × Nat) : Option (List Nat) :=
  -- `in_bounds` check (offset + length ≤ body length), otherwise `Err(IpcError)`
  if e.1 + e.2 ≤ body.length then some ((body.drop e.1).take e.2) else none

/-- a whole stream of already-encoded messages followed by the end-of-stream marker
(`StreamWriter`: schema message, dictionary/record batch messages, `finish`) -/
def encodeStream (o : WriteOpts) : List (List Nat × List Nat) → Option (List Nat)
  | [] => some (writeEos o)
  | m :: ms =>
    match writeEncodedData o m, encodeStream o ms with
    | some r, some rest => some (r.1 ++ rest)
    | _, _ => none

/-- little-endian `i32` as an `Int` -/
def readI32 (b : List Nat) : Int :=
  let u := b.getD 0 0 + 256 * b.getD 1 0 + 65536 * b.getD 2 0 + 16777216 * b.getD 3 0
  if u < 2 ^ 31 then (u : Int) else (u : Int) - 2 ^ 32

/-- result of `MessageReader::read_meta_len` -/
inductive MetaLen
  | eos (rest : List Nat)            -- `Ok(None)`: EOF or a zero length; the unread input
  | err                              -- `Err(_)`
  | len (n : Nat) (rest : List Nat)  -- `Ok(Some(n))` and the unread input
deriving Repr

/-- `MessageReader::read_meta_len` on the unread input `bs` -/
def readMetaLen (bs : List Nat) : MetaLen :=
  if bs.length = 0 then .eos []         -- `read` returns 0 before any prefix byte → `Ok(None)`
  else if bs.length < 4 then .err       -- the stream ends inside a length prefix → `Err(UnexpectedEof)`
  else
    let first := bs.take 4
    let r : Option (List Nat × List Nat) :=
      if first = continuationMarker then
        (if (bs.drop 4).length < 4 then none else some ((bs.drop 4).take 4, bs.drop 8))
      else some (first, bs.drop 4)
    match r with
    | none => .err                      -- second `read_exact` fails
    | some (lenBytes, rest) =>
      let n := readI32 lenBytes
      if n = 0 then .eos rest
      else if n < 0 then .err
      else .len n.toNat rest

/-- result of parsing a stream -/
inductive Parsed
  | ok (msgs : List (List Nat × List Nat)) (rest : List Nat)
  | err (msgs : List (List Nat × List Nat))
deriving Repr

/-- repeated `MessageReader::maybe_next` until end of stream: the `(metadata, body)` pairs
read and the input left after the end-of-stream marker.  `bodyLenOf` is
`root_as_message(meta).bodyLength()` (`none`: not a valid message / negative length). -/
def parseLoop (bodyLenOf : List Nat → Option Nat) : Nat → List Nat → Parsed
  | 0, _ => .err []
  | fuel + 1, bs =>
    match readMetaLen bs with
    | .eos rest => .ok [] rest
    | .err => .err []
    | .len n rest =>
      if rest.length < n then .err []
      else
        let md := rest.take n
        match bodyLenOf md with
        | none => .err []
        | some bl =>
          let rest := rest.drop n
          if rest.length < bl then .err []
          else
            match parseLoop bodyLenOf fuel (rest.drop bl) with
            | .ok ms r => .ok ((md, rest.take bl) :: ms) r
            | .err ms => .err ((md, rest.take bl) :: ms)

/-- parse a whole stream -/
def parseStream (bodyLenOf : List Nat → Option Nat) (bs : List Nat) : Parsed :=
  parseLoop bodyLenOf (bs.length + 1) bs

/-! ### flatbuffers accessors (wire format of the external `flatbuffers` crate; only used by the
driver to play the role of `bodyLenOf` on real streams) -/

def leAt (m : List Nat) (pos n : Nat) : Nat :=
  ((m.drop pos).take n).foldr (fun b acc => b % 256 + 256 * acc) 0

/-- absolute position of field `idx` of the table at `tbl`, if present -/
def fbField (m : List Nat) (tbl idx : Nat) : Option Nat :=
  let so := leAt m tbl 4
  let soff : Int := if so < 2 ^ 31 then (so : Int) else (so : Int) - 2 ^ 32
  let vt := ((tbl : Int) - soff).toNat
  let vtSize := leAt m vt 2
  let slot := 4 + 2 * idx
  if slot + 2 ≤ vtSize then
    let o := leAt m (vt + slot) 2
    if o = 0 then none else some (tbl + o)
  else none

/-- follow a `uoffset` stored at `pos` -/
def fbIndirect (m : List Nat) (pos : Nat) : Nat := pos + leAt m pos 4

def fbRoot (m : List Nat) : Nat := leAt m 0 4

/-- signed 64-bit scalar field with default 0; `none` if negative -/
def fbI64 (m : List Nat) (tbl idx : Nat) : Option Nat :=
  match fbField m tbl idx with
  | none => some 0
  | some p => let v := leAt m p 8; if v < 2 ^ 63 then some v else none

/-- `Message.header_type` (field 1, `u8`) -/
def fbHeaderType (m : List Nat) : Nat :=
  match fbField m (fbRoot m) 1 with
  | none => 0
  | some p => leAt m p 1

/-- `Message.bodyLength` (field 3, `i64`) -/
def fbBodyLength (m : List Nat) : Option Nat :=
  if m.length < 8 then none else fbI64 m (fbRoot m) 3

/-- table of `Message.header` (field 2) -/
def fbHeader (m : List Nat) : Option Nat := (fbField m (fbRoot m) 2).map (fbIndirect m)

/-- `RecordBatch.length` (field 0) of the table at `tbl` -/
def fbBatchLength (m : List Nat) (tbl : Nat) : Option Nat := fbI64 m tbl 0

/-- `DictionaryBatch`: (id, data table, isDelta) -/
def fbDictionary (m : List Nat) (tbl : Nat) : Option (Nat × Nat × Bool) :=
  match fbI64 m tbl 0, fbField m tbl 1 with
  | some id, some p =>
    let delta := match fbField m tbl 2 with | none => false | some q => leAt m q 1 != 0
    some (id, fbIndirect m p, delta)
  | _, _ => none

/-- `RecordBatch.buffers` (field 2): vector of `Buffer { offset: i64, length: i64 }` -/
def fbBuffers (m : List Nat) (tbl : Nat) : List (Nat × Nat) :=
  match fbField m tbl 2 with
  | none => []
  | some p =>
    let vec := fbIndirect m p
    let n := leAt m vec 4
    (List.range n).map fun i => (leAt m (vec + 4 + 16 * i) 8, leAt m (vec + 4 + 16 * i + 8) 8)

/-! ## (c) dictionary protocol -/

/-- `DictionaryHandling` -/
inductive Handling | resend | delta
deriving Repr, DecidableEq

/-- `DictionaryComparison` -/
inductive DictCmp | notEqual | equal | delta
deriving Repr, DecidableEq

/-- `compare_dictionaries(old, new)` on the dictionaries' logical values -/
def compareDictionaries {V} [DecidableEq V] (old new : List V) : DictCmp :=
  if old.length = new.length then
    (if old = new then .equal else .notEqual)
  else if new.length < old.length then .notEqual
  else if new.take old.length = old then .delta
  else .notEqual

/-- `DictionaryUpdate` -/
inductive DictUpdate (V : Type)
  | none | new | replaced | delta (d : List V)

/-- dictionaries by id (`DictionaryTracker::written` / reader `dictionaries_by_id`) -/
abbrev Table (V : Type) := Nat → Option (List V)

def Table.empty {V} : Table V := fun _ => none
def Table.set {V} (t : Table V) (k : Nat) (v : List V) : Table V := fun i => if i = k then some v else t i

/-- `DictionaryTracker::insert_column(dict_id, column, dict_handling)`; `none` is the
`Err("Dictionary replacement detected when writing IPC file format…")`.  The `ptr_eq` fast
path is subsumed by the value comparison (`ptr_eq` implies equal values). -/
def insertColumn {V} [DecidableEq V] (errorOnReplacement : Bool) (h : Handling)
    (written : Table V) (dictId : Nat) (newValues : List V) : Option (Table V × DictUpdate V) :=
  match written dictId with
  | none => some (written.set dictId newValues, .new)
  | some old =>
    match compareDictionaries old newValues with
    | .equal => some (written, .none)
    | .notEqual =>
      if errorOnReplacement then none else some (written.set dictId newValues, .replaced)
    | .delta =>
      match h with
      | .resend => if errorOnReplacement then none else some (written.set dictId newValues, .replaced)
      | .delta => some (written.set dictId newValues, .delta (newValues.drop old.length))

/-- a `DictionaryBatch` message -/
structure DictMsg (V : Type) where
  id : Nat
  isDelta : Bool
  values : List V
deriving Repr, DecidableEq

/-- a dictionary-encoded column of a batch: dictionary id, dictionary values, keys -/
structure DictCol (V : Type) where
  id : Nat
  dict : List V
  keys : List (Option Nat)
deriving Repr

/-- `encode_dictionaries` for one dictionary column: tracker update + emitted message -/
def encodeColumn {V} [DecidableEq V] (err : Bool) (h : Handling) (w : Table V) (c : DictCol V) :
    Option (Table V × List (DictMsg V)) :=
  match insertColumn err h w c.id c.dict with
  | none => none
  | some (w', .none) => some (w', [])
  | some (w', .new) => some (w', [⟨c.id, false, c.dict⟩])
  | some (w', .replaced) => some (w', [⟨c.id, false, c.dict⟩])
  | some (w', .delta d) => some (w', [⟨c.id, true, d⟩])

/-- `encode_all_dicts(batch)`: all columns in schema order -/
def encodeAllDicts {V} [DecidableEq V] (err : Bool) (h : Handling) :
    Table V → List (DictCol V) → Option (Table V × List (DictMsg V))
  | w, [] => some (w, [])
  | w, c :: cs =>
    match encodeColumn err h w c with
    | none => none
    | some (w', ms) =>
      match encodeAllDicts err h w' cs with
      | none => none
      | some (w'', ms') => some (w'', ms ++ ms')

/-- messages on the wire, flatbuffer/body encoding abstracted: a dictionary batch or a record
batch whose dictionary columns carry `(dictionary id, keys)` -/
inductive WireMsg (V : Type)
  | dict (m : DictMsg V)
  | batch (cols : List (Nat × List (Option Nat)))

/-- `StreamWriter::write` / `FileWriter::write` over a history of batches: the messages
emitted and whether every batch was accepted (writing stops at the first `Err`). -/
def writeAll {V} [DecidableEq V] (err : Bool) (h : Handling) :
    Table V → List (List (DictCol V)) → List (WireMsg V) × Bool
  | _, [] => ([], true)
  | w, b :: rest =>
    match encodeAllDicts err h w b with
    | none => ([], false)
    | some (w', ms) =>
      let r := writeAll err h w' rest
      (ms.map .dict ++ [.batch (b.map fun c => (c.id, c.keys))] ++ r.1, r.2)

/-- reader `update_dictionaries(dictionaries_by_id, is_delta, dict_id, dict_values)`;
`none` = `Err("No existing dictionary for delta dictionary…")` -/
def updateDictionaries {V} (t : Table V) (m : DictMsg V) : Option (Table V) :=
  if !m.isDelta then some (t.set m.id m.values)
  else
    match t m.id with
    | none => none
    | some existing => some (t.set m.id (existing ++ m.values))

/-- decoding the dictionary columns of a record batch against the reader's table
(`create_dictionary_array`; a missing dictionary is an error) -/
def decodeBatch {V} (t : Table V) : List (Nat × List (Option Nat)) → Option (List (List (Option V)))
  | [] => some []
  | c :: cs =>
    match t c.1, decodeBatch t cs with
    | some d, some r => some (c.2.map (fun k => k.bind (d[·]?)) :: r)
    | _, _ => none

/-- `StreamReader`: messages in order, dictionary batches update the table -/
def readStream {V} : Table V → List (WireMsg V) → Option (List (List (List (Option V))))
  | _, [] => some []
  | t, .dict m :: r =>
    match updateDictionaries t m with
    | none => none
    | some t' => readStream t' r
  | t, .batch cols :: r =>
    match decodeBatch t cols, readStream t r with
    | some b, some bs => some (b :: bs)
    | _, _ => none

/-- `FileReaderBuilder::build`: every dictionary block of the footer is read first -/
def readAllDictionaries {V} : Table V → List (WireMsg V) → Option (Table V)
  | t, [] => some t
  | t, .dict m :: r =>
    match updateDictionaries t m with
    | none => none
    | some t' => readAllDictionaries t' r
  | t, .batch _ :: r => readAllDictionaries t r

/-- `FileReader::next` over every record batch block, against a fixed table -/
def readBatches {V} (t : Table V) : List (WireMsg V) → Option (List (List (List (Option V))))
  | [] => some []
  | .dict _ :: r => readBatches t r
  | .batch cols :: r =>
    match decodeBatch t cols, readBatches t r with
    | some b, some bs => some (b :: bs)
    | _, _ => none

/-- `FileReader`: all dictionaries first, then every record batch block against the final table -/
def readFile {V} (t : Table V) (msgs : List (WireMsg V)) : Option (List (List (List (Option V)))) :=
  match readAllDictionaries t msgs with
  | none => none
  | some tf => readBatches tf msgs

/-! ## (d) Flight -/

/-- the `while offset < num_rows` loop of `split_batch_for_grpc_response` -/
def splitLoop (rowsPerBatch numRows : Nat) : Nat → Nat → List (Nat × Nat)
  | 0, _ => []
  | fuel + 1, offset =>
    if offset < numRows then
      let length := min rowsPerBatch (numRows - offset)
      (offset, length) :: splitLoop rowsPerBatch numRows fuel (offset + length)
    else []

/-- `split_batch_for_grpc_response(batch, max_flight_data_size)`: the `(offset, length)` row
slices, from `size = Σ get_buffer_memory_size`; `none` = panic (division by zero). -/
def splitBatch (size maxFlightDataSize numRows : Nat) : Option (List (Nat × Nat)) :=
  if maxFlightDataSize = 0 then none
  else
    let nBatches := max (size / maxFlightDataSize + (if size % maxFlightDataSize ≠ 0 then 1 else 0)) 1
    let rowsPerBatch := max (numRows / nBatches) 1
    some (splitLoop rowsPerBatch numRows numRows 0)

end ArrowModel.C04
