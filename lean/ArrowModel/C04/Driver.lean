import ArrowModel.Common.Proto
import ArrowModel.C04.Spec
import ArrowModel.C04.Model
import ArrowModel.C04.ArrayModel
import ArrowModel.C02.Spec
import ArrowModel.C09.Driver
/-
C04 driver: one case per line → one canonical answer per line.
Answers are computed by the *algorithm model*; where a specification exists the driver also
evaluates it and prints `MODEL-SPEC-MISMATCH` if the two differ (the theorems say they cannot).
-/
namespace ArrowModel.C04
open ArrowModel.Proto
open ArrowModel.Generated.C04

def check (model spec : String) : String :=
  if model = spec then model else s!"MODEL-SPEC-MISMATCH model={model} spec={spec}"

def showNats (xs : List Nat) : String := showList toString xs

/-- `meta:body;meta:body` (hex) -/
def parseMsgs (s : String) : Option (List Msg) :=
  if s = "-" then some [] else
  (s.splitOn ";").mapM fun m =>
    match m.splitOn ":" with
    | [a, b] => do pure ((← parseHex a), (← parseHex b))
    | _ => none

def magic : List Nat := [65, 82, 82, 79, 87, 48 + ARROW_MAGIC_DIGIT]

/-- one parsed message as `type:hdrlen:bodylen[:details]` (hdrlen includes the prefix) -/
def describe (pre : Nat) (m : Msg) : String :=
  let ty := fbHeaderType m.1
  let base := s!"{ty}:{pre + m.1.length}:{m.2.length}"
  match ty, fbHeader m.1 with
  | 3, some t => s!"{base}:{(fbBatchLength m.1 t).getD 0}"
  | 2, some t =>
    match fbDictionary m.1 t with
    | some (id, dt, delta) => s!"{base}:{id}:{showBool delta}:{(fbBatchLength m.1 dt).getD 0}"
    | none => base
  | _, _ => base

/-- dictionary values / keys: `a.b.c` (`-` empty), keys may be `n` for null -/
def parseDots (s : String) : Option (List Nat) :=
  if s = "-" then some [] else (s.splitOn ".").mapM (·.toNat?)

def parseKeys (s : String) : Option (List (Option Nat)) :=
  if s = "-" then some [] else
  (s.splitOn ".").mapM fun k => if k = "n" then some none else k.toNat?.map some

/-- a column `values/keys`; a batch = columns joined by `+`; history = batches joined by `;` -/
def parseHist (s : String) : Option (List (List (DictCol Nat))) :=
  if s = "-" then some [] else
  (s.splitOn ";").mapM fun b =>
    ((b.splitOn "+").zipIdx).mapM fun (c, i) =>
      match c.splitOn "/" with
      | [v, k] => do pure ⟨i, (← parseDots v), (← parseKeys k)⟩
      | _ => none

def showDots (xs : List Nat) : String := if xs.isEmpty then "-" else ".".intercalate (xs.map toString)

def showCol (c : List (Option Nat)) : String :=
  if c.isEmpty then "-" else ".".intercalate (c.map fun | some v => toString v | none => "n")

def showWire : WireMsg Nat → String
  | .dict m => s!"d{m.id}:{showBool m.isDelta}:{showDots m.values}"
  | .batch _ => "b"

def showDecoded (bs : List (List (List (Option Nat)))) : String :=
  if bs.isEmpty then "-" else ";".intercalate (bs.map fun b => "+".intercalate (b.map showCol))

/-! ### whole arrays: the C09 dump grammar, with the validity field extended to
`hex@bitoffset:nullcount` (a `NullBuffer` has a bit offset of its own) -/

open ArrowModel.Physical in
partial def pArr : ArrowModel.C09.P ArrayData := fun cs => do
  let (_, r) ← ArrowModel.C09.pChar 'A' cs
  let (_, r) ← ArrowModel.C09.pChar '(' r
  let (t, r) ← ArrowModel.C09.pType r
  let (_, r) ← ArrowModel.C09.pChar ';' r
  let (len, r) ← ArrowModel.C09.pNat r
  let (_, r) ← ArrowModel.C09.pChar ';' r
  let (off, r) ← ArrowModel.C09.pNat r
  let (_, r) ← ArrowModel.C09.pChar ';' r
  let (ns, r) ← ArrowModel.C09.pUntil (· == ';') r
  let (_, r) ← ArrowModel.C09.pChar ';' r
  let (bs, r) ← ArrowModel.C09.pUntil (· == ';') r
  let (_, r) ← ArrowModel.C09.pChar ';' r
  let bufs ← ArrowModel.C09.parseBufs bs
  let nulls ← (if ns = "-" then some none else
    match ns.splitOn "@" with
    | [h, rest] =>
      match rest.splitOn ":" with
      | [o, c] => do
        let b ← ArrowModel.C09.hexE h
        pure (some { bytes := b, off := (← o.toNat?), len := len, nullCount := (← c.toNat?) : Nulls })
      | _ => none
    | _ => none)
  let rec kids (r : List Char) (acc : List ArrayData) : Option (List ArrayData × List Char) :=
    match r with
    | ')' :: r => some (acc.reverse, r)
    | _ => do
      let (c, r) ← pArr r
      kids r (c :: acc)
  let (cs', r) ← kids r []
  pure (⟨t, len, off, nulls, bufs, cs'⟩, r)

def hexE (b : List Nat) : String := if b.isEmpty then "e" else toHex b

def showWritten (w : List (Nat × Nat) × List (List Nat)) : String :=
  s!"nodes={showList (fun n => s!"{n.1}:{n.2}") w.1} bufs={if w.2.isEmpty then "-" else "|".intercalate (w.2.map hexE)}"

def handle (toks : List String) : String :=
  match toks with
  -- C04 warr <array dump>: field nodes + body buffers of `write_array_data`
  | ["warr", a] =>
    match pArr a.toList with
    | some (d, []) =>
      if !supportedT d.type then "SKIP" else
      if !ArrowModel.Physical.wellFormedB d then "ERR:not-wf" else
      let model := showWritten (writeArray d)
      -- specification: reading the written column back denotes the same logical column
      match roundTrip d with
      | some d' =>
        if ArrowModel.Physical.decode d' = ArrowModel.Physical.decode d ∧ (ArrowModel.Physical.decode d).isSome then model
        else s!"MODEL-SPEC-MISMATCH model={model} decode-differs"
      | none => s!"MODEL-SPEC-MISMATCH model={model} read-failed"
    | _ => "bad-op"
  -- C04 bytes <w> <wrap> <offsets> <data> <off> <len>
  | ["bytes", _w, _wrap, offs, d, off, len] =>
    match parseList (·.toNat?) offs, parseHex d, off.toNat?, len.toNat? with
    | some offsets, some data, some off, some len =>
      if off + len + 1 > offsets.length then "ERR:oob" else
      let r := getByteArrayBuffers offsets data off len
      let model := s!"{showNats r.1} {toHex r.2}"
      if decodeVar r.1 r.2 0 len == decodeVar offsets data off len then model
      else s!"MODEL-SPEC-MISMATCH model={model}"
    | _, _, _, _ => "bad-op"
  -- C04 fixed <w> <wrap> <buf> <off> <len>
  | ["fixed", w, _wrap, b, off, len] =>
    match w.toNat?, parseHex b, off.toNat?, len.toNat? with
    | some w, some buf, some off, some len =>
      if (off + len) * w > buf.length then "ERR:oob" else
      let r := getOrTruncateBuffer buf w off len
      if fixedElems r w 0 len == fixedElems buf w off len && r.length == len * w then toHex r
      else s!"MODEL-SPEC-MISMATCH model={toHex r}"
    | _, _, _, _ => "bad-op"
  -- C04 bits <kind> <wrap> <buf> <off> <len>
  | ["bits", kind, wrap, b, off, len] =>
    match parseHex b, off.toNat?, len.toNat? with
    | some buf, some off, some len =>
      if off + len > 8 * buf.length then "ERR:oob" else
      let v := bytesToNat buf
      -- a validity buffer without any null is dropped when the array is built (`nulls()` is
      -- `None`) and `write_array_data` then synthesises the all-valid bitmap; `ArrayData::slice`
      -- (the list-wrapped variant) keeps the parent's buffer even if the slice has no null
      let considered := if wrap = "1" then bitsOf v 0 (8 * buf.length) else bitsOf v off len
      if kind = "nulls" ∧ considered.all id then toHex (allValidBitmap len) else
      let r := bitSlice v off len
      let model := toHex (natToBytes r.2 r.1)
      if bitsOf r.1 0 len == bitsOf v off len then model else s!"MODEL-SPEC-MISMATCH model={model}"
    | _, _, _ => "bad-op"
  -- C04 allvalid <rows>
  | ["allvalid", n] =>
    match n.toNat? with
    | some n => toHex (allValidBitmap n)
    | none => "bad-op"
  -- C04 pad <alignment> <len>
  | ["pad", a, len] =>
    match a.toNat?, len.toNat? with
    | some a, some len => check (toString (padToAlignment a len)) (toString (padSpec a len))
    | _, _ => "bad-op"
  -- C04 frame <alignment> <legacy> <msgs>
  | ["frame", a, lg, ms] =>
    match a.toNat?, parseMsgs ms with
    | some a, some msgs =>
      let o : WriteOpts := ⟨a, lg = "1"⟩
      match encodeStream o msgs with
      | none => "ERR:mem"
      | some bytes =>
        let lens := msgs.filterMap fun m => (writeEncodedData o m).map fun r => s!"{r.2.1}:{r.2.2}"
        let model := s!"{toHex bytes} {showList id lens}"
        -- specification: parsing the stream gives the messages back (metadata zero-padded)
        let padded := msgs.map fun m => padMsg (metadataPadding o m.1.length) m
        let lookup := fun md => (padded.find? (·.1 = md)).map (·.2.length)
        -- (only meaningful when the padded metadata strings are pairwise distinct and non-empty)
        let distinct := (padded.map (·.1)).eraseDups.length = padded.length ∧ msgs.all (fun m => m.1.length > 0)
        if distinct then
          match parseStream lookup (bytes ++ [1, 2, 3]) with
          | .ok got rest => if got = padded ∧ rest = [1, 2, 3] then model else s!"MODEL-SPEC-MISMATCH model={model}"
          | .err _ => s!"MODEL-SPEC-MISMATCH model={model} parse-error"
        else model
    | _, _ => "bad-op"
  -- C04 stream <legacy> <hex>
  | ["stream", lg, h] =>
    match parseHex h with
    | some bytes =>
      let pre := if lg = "1" then PREFIX_LEGACY else PREFIX_MARKER
      match parseStream fbBodyLength bytes with
      | .ok ms rest => s!"{showList (describe pre) ms} rest={rest.length}"
      | .err ms => s!"{showList (describe pre) ms} ERR:parse"
    | none => "bad-op"
  -- C04 file <alignment> <legacy> <hex>
  | ["file", a, lg, h] =>
    match a.toNat?, parseHex h with
    | some a, some bytes =>
      let pre := if lg = "1" then PREFIX_LEGACY else PREFIX_MARKER
      let hdr := ARROW_MAGIC_LEN + padToAlignment a ARROW_MAGIC_LEN
      if bytes.take ARROW_MAGIC_LEN ≠ magic then "ERR:magic" else
      match parseStream fbBodyLength (bytes.drop hdr) with
      | .ok ms rest =>
        -- blocks as the footer must list them: offset:hdrlen:bodylen, schema message first
        let step := fun (acc : Nat × List String × List String) (m : Msg) =>
          let hl := pre + m.1.length
          let e := s!"{acc.1}:{hl}:{m.2.length}"
          let ty := fbHeaderType m.1
          (acc.1 + hl + m.2.length,
           if ty = 2 then acc.2.1 ++ [e] else acc.2.1,
           if ty = 3 then acc.2.2 ++ [e] else acc.2.2)
        let r := ms.foldl step (hdr, [], [])
        let footerLen := rest.length - 10
        let tailOk := rest.length ≥ 10 ∧ (rest.drop (footerLen + 4)) = magic ∧
          leAt rest footerLen 4 = footerLen
        s!"dict={showList id r.2.1} rec={showList id r.2.2} tail={showBool tailOk}"
      | .err _ => "ERR:parse"
    | _, _ => "bad-op"
  -- C04 dict <fmt> <mode> <hist>
  | ["dict", fmt, mode, _reuse, hs] =>
    match parseHist hs with
    | some hist =>
      let err := fmt = "file"
      let h := if mode = "delta" then Handling.delta else Handling.resend
      let w := writeAll err h Table.empty hist
      let wire := showList showWire w.1
      let decoded := if err then readFile Table.empty w.1 else readStream Table.empty w.1
      let nOk := (w.1.filter fun | .batch _ => true | _ => false).length
      let spec := (hist.take nOk).map fun b => b.map fun c => denoteCol c.dict c.keys
      let status := if w.2 then "ok" else s!"ERR:invalid-arg@{nOk}"
      match decoded with
      | some d =>
        if d = spec then s!"{wire} {showDecoded d} {status}"
        else s!"MODEL-SPEC-MISMATCH model={showDecoded d} spec={showDecoded spec}"
      | none => s!"MODEL-SPEC-MISMATCH model=read-error spec={showDecoded spec}"
    | none => "bad-op"
  -- C04 split <size> <max> <rows>
  | ["split", size, mx, rows] =>
    match size.toNat?, mx.toNat?, rows.toNat? with
    | some size, some mx, some rows =>
      match splitBatch size mx rows with
      | none => "PANIC"
      | some sl =>
        let model := showNats (sl.map (·.2))
        if rowsOf sl = List.range rows then model else s!"MODEL-SPEC-MISMATCH model={model}"
    | _, _, _ => "bad-op"
  -- round-trip cases are checked by the harness oracle; the property demands success
  | "rt" :: _ => "ok"
  | "rtx" :: _ => "ok"
  | "probe" :: _ => "ok"
  | "proj" :: _ => "ok"
  | "schema" :: _ => "ok"
  | _ => "bad-op"

end ArrowModel.C04
