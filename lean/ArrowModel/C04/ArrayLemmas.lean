import ArrowModel.C04.Lemmas
import ArrowModel.C04.ArrayModel
/-
C04 — lemmas for the whole-array model (`C04/ArrayModel.lean`): the array the writer emits for
rows `[o, o+l)` of a well-formed array denotes exactly those rows (`decode_norm`), by mutual
induction over the array tree, composing the bit-slice, truncation and offset re-encoding
lemmas of `C04/Lemmas.lean` with the byte-level readers of the physical library (C09) and the
little-endian and `tabulateM` lemmas (copied from C01/C02 so that this file depends only on the
physical library).  Core tactics only.
-/
namespace ArrowModel.C04
open ArrowModel.Physical ArrowModel.Proto

/-! ### copied helpers (C02: `tabulateM`/`decode` unfolding, C01: little-endian round trip) -/

/-- rows `[o, o+l)` of a column -/
def sliceSpec {α} (o l : Nat) (c : List α) : List α := (c.drop o).take l

theorem map_some_inj {α} : ∀ (a b : List α), a.map some = b.map some → a = b
  | [], b, h => by cases b <;> simp_all
  | x :: a, b, h => by
    cases b with
    | nil => simp at h
    | cons y b => simp at h; rw [h.1, map_some_inj a b h.2]

theorem mapM_eq_some_iff {α β} (f : α → Option β) : ∀ (xs : List α) (ys : List β),
    xs.mapM f = some ys ↔ xs.map f = ys.map some
  | [], ys => by cases ys <;> simp
  | x :: xs, ys => by
    rw [List.mapM_cons]
    cases hfx : f x with
    | none => cases ys <;> simp [hfx]
    | some y =>
      cases hr : xs.mapM f with
      | none =>
        have := mapM_eq_some_iff f xs
        cases ys with
        | nil => simp
        | cons y' ys' =>
          simp [hfx]
          intro _ h
          have := (this ys').2 h
          simp [hr] at this
      | some r =>
        have h1 := (mapM_eq_some_iff f xs r).1 hr
        cases ys with
        | nil => simp
        | cons y' ys' =>
          simp [hfx, h1]
          intro _
          constructor
          · intro h; rw [h]
          · intro h; exact map_some_inj _ _ h

theorem tabulateM_eq_some_iff {α} (n : Nat) (f : Nat → Option α) (vs : List α) :
    tabulateM n f = some vs ↔ vs.length = n ∧ ∀ i, (h : i < vs.length) → f i = some vs[i] := by
  unfold tabulateM
  rw [mapM_eq_some_iff]
  constructor
  · intro h
    have hl : vs.length = n := by
      have := congrArg List.length h
      simpa using this.symm
    refine ⟨hl, fun i hi => ?_⟩
    have := congrArg (fun l => l[i]?) h
    simp [hl ▸ hi, List.getElem?_eq_getElem hi] at this
    have hi' : i < n := hl ▸ hi
    simpa [hi'] using this
  · intro ⟨hl, h⟩
    apply List.ext_getElem
    · simp [hl]
    · intro i h1 h2
      simp at h1 h2
      simp [h i h2]

theorem decode_eq (d : ArrayData) :
    decode d =
      match decodeAll d.children with
      | none => none
      | some cvs => tabulateM d.len (slotVal d cvs) := by
  obtain ⟨t, n, off, nulls, bs, cs⟩ := d
  rw [decode]
  rfl

theorem encLE_length (w v : Nat) : (encLE w v).length = w := by
  induction w generalizing v with
  | zero => rfl
  | succ w ih => simp [encLE, ih]

theorem readLE_append_right (pre bs : List Nat) (p w : Nat) :
    readLE (pre ++ bs) (pre.length + p) w = readLE bs p w := by
  induction w generalizing p with
  | zero => rfl
  | succ w ih =>
    simp only [readLE]
    rw [List.getElem?_append_right (by omega), show pre.length + p - pre.length = p by omega,
      show pre.length + p + 1 = pre.length + (p + 1) by omega, ih]

theorem readLE_encLE (w v : Nat) (post : List Nat) : readLE (encLE w v ++ post) 0 w = some (v % 2 ^ (8 * w)) := by
  induction w generalizing v with
  | zero => simp [readLE, Nat.mod_one]
  | succ w ih =>
    simp only [encLE, readLE, List.cons_append, List.getElem?_cons_zero]
    have h := readLE_append_right [v % 256] (encLE w (v / 256) ++ post) 0 w
    simp only [List.singleton_append, List.length_singleton, Nat.add_zero] at h
    rw [show (0 : Nat) + 1 = 1 by rfl, h, ih]
    simp only [Nat.mod_mod]
    congr 1
    rw [show 8 * (w + 1) = 8 + 8 * w by omega, Nat.pow_add, show (2 : Nat) ^ 8 = 256 by rfl, Nat.mod_mul]

theorem encInts_length (w : Nat) (xs : List Nat) : (encInts w xs).length = xs.length * w := by
  induction xs with
  | nil => simp [encInts]
  | cons x xs ih => simp [encInts, encLE_length, ih, Nat.add_mul]; omega

theorem readLE_encInts (w : Nat) (xs : List Nat) (i : Nat) (hi : i < xs.length) :
    readLE (encInts w xs) (i * w) w = some (xs[i] % 2 ^ (8 * w)) := by
  induction xs generalizing i with
  | nil => simp at hi
  | cons x xs ih =>
    cases i with
    | zero => simp only [encInts, Nat.zero_mul, List.getElem_cons_zero]; exact readLE_encLE w x _
    | succ i =>
      simp only [encInts, List.getElem_cons_succ]
      have h := readLE_append_right (encLE w x) (encInts w xs) (i * w) w
      rw [encLE_length] at h
      rw [show (i + 1) * w = w + i * w by rw [Nat.add_mul]; omega, h]
      exact ih i (by simpa using hi)

/-- reading slot `i` of an encoded offsets buffer gives back the offset, if it fits the signed width -/
theorem readInt_encInts (w : Nat) (xs : List Nat) (i : Nat) (hi : i < xs.length) (hfit : 2 * xs[i] < 2 ^ (8 * w)) :
    readInt (encInts w xs) w true i = some (xs[i] : Int) := by
  unfold readInt
  rw [readLE_encInts w xs i hi]
  have : xs[i] % 2 ^ (8 * w) = xs[i] := Nat.mod_eq_of_lt (by omega)
  simp [this, toSigned, hfit]



theorem testBit_byte_add (b r i : Nat) (hb : b < 256) :
    (b + 256 * r).testBit i = if i < 8 then b.testBit i else r.testBit (i - 8) := by
  have : b + 256 * r = 2 ^ 8 * r + b := by omega
  rw [this, Nat.testBit_two_pow_mul_add _ (by omega)]

theorem testBit_bytesToNat (bs : List Nat) (i : Nat) :
    (bytesToNat bs).testBit i = ((bs[i / 8]?).map (fun b => b.testBit (i % 8))).getD false := by
  induction bs generalizing i with
  | nil => simp [bytesToNat]
  | cons b bs ih =>
    rw [bytesToNat, testBit_byte_add _ _ _ (Nat.mod_lt _ (by decide))]
    by_cases h : i < 8
    · have h0 : i / 8 = 0 := by omega
      have h1 : i % 8 = i := by omega
      simp only [h, if_true, h0, List.getElem?_cons_zero, Option.map_some, Option.getD_some, h1]
      rw [show (256 : Nat) = 2 ^ 8 by rfl, Nat.testBit_mod_two_pow]
      simp [h]
    · have h0 : i / 8 = (i - 8) / 8 + 1 := by omega
      have h1 : i % 8 = (i - 8) % 8 := by omega
      simp only [h, if_false, ih, h0, List.getElem?_cons_succ, h1]

theorem bitAt_eq_testBit (bs : List Nat) (i : Nat) (h : i < 8 * bs.length) :
    bitAt bs i = some ((bytesToNat bs).testBit i) := by
  rw [testBit_bytesToNat]
  unfold bitAt
  have : i / 8 < bs.length := by omega
  rw [List.getElem?_eq_getElem this]
  simp

theorem getElem?_natToBytes (n v k : Nat) (hk : k < n) : (natToBytes n v)[k]? = some ((v >>> (8 * k)) % 256) := by
  induction n generalizing v k with
  | zero => omega
  | succ n ih =>
    cases k with
    | zero => simp [natToBytes]
    | succ k =>
      simp only [natToBytes, List.getElem?_cons_succ]
      rw [ih (v / 256) k (by omega)]
      congr 2
      rw [show 8 * (k + 1) = 8 + 8 * k by omega, Nat.shiftRight_add]
      congr 1
      rw [Nat.shiftRight_eq_div_pow]

theorem natToBytes_length (n v : Nat) : (natToBytes n v).length = n := by
  induction n generalizing v with
  | zero => rfl
  | succ n ih => simp [natToBytes, ih]

theorem bitAt_natToBytes (n v i : Nat) (h : i < 8 * n) : bitAt (natToBytes n v) i = some (v.testBit i) := by
  unfold bitAt
  rw [getElem?_natToBytes n v (i / 8) (by omega)]
  simp only [Option.map_some, Option.some.injEq]
  rw [show (256 : Nat) = 2 ^ 8 by rfl, Nat.testBit_mod_two_pow, Nat.testBit_shiftRight]
  have : 8 * (i / 8) + i % 8 = i := by omega
  simp [this, Nat.mod_lt]

/-- bit `i` of the written bitmap is bit `off + i` of the source -/
theorem bitAt_bitSliceBytes (bytes : List Nat) (off len i : Nat) (hi : i < len)
    (hb : off + len ≤ 8 * bytes.length) :
    bitAt (bitSliceBytes bytes off len) i = bitAt bytes (off + i) := by
  unfold bitSliceBytes
  simp only
  rw [bitSlice_len, bitAt_natToBytes _ _ _ (by unfold ceilDiv; omega), testBit_bitSlice _ _ _ _ hi,
    bitAt_eq_testBit _ _ (by omega)]

theorem bitAt_allValid (l i : Nat) (hi : i < l) : bitAt (allValidBitmap l) i = some true := by
  unfold bitAt allValidBitmap
  have : i / 8 < ceilDiv l 8 := by unfold ceilDiv; omega
  rw [List.getElem?_replicate]
  simp only [this, if_true, Option.map_some, Option.some.injEq]
  have h8 : i % 8 < 8 := Nat.mod_lt _ (by decide)
  have : i % 8 = 0 ∨ i % 8 = 1 ∨ i % 8 = 2 ∨ i % 8 = 3 ∨ i % 8 = 4 ∨ i % 8 = 5 ∨ i % 8 = 6 ∨ i % 8 = 7 := by omega
  rcases this with h | h | h | h | h | h | h | h <;> rw [h] <;> decide

/-! ### validity -/

theorem validAt_norm (nulls : Option Nulls) (t : DType) (len off : Nat) (bufs : List (List Nat)) (cs : List ArrayData)
    (t' : DType) (bufs' : List (List Nat)) (cs' : List ArrayData)
    (o l i : Nat) (hi : i < l) (hol : o + l ≤ len) (hn : NullsOk ⟨t, len, off, nulls, bufs, cs⟩) :
    (⟨t', l, 0, some (writeValidity nulls o l), bufs', cs'⟩ : ArrayData).validAt i =
      (⟨t, len, off, nulls, bufs, cs⟩ : ArrayData).validAt (o + i) := by
  unfold ArrayData.validAt
  cases nulls with
  | none => simp [writeValidity, bitAt_allValid l i hi]
  | some n =>
    simp only [writeValidity, Nat.zero_add]
    unfold NullsOk at hn
    simp only at hn
    rw [bitAt_bitSliceBytes _ _ _ _ hi (by omega)]
    congr 1; omega

/-! ### windows -/

theorem sliceSpec_getElem? {α} (cv : List α) (a l i : Nat) (hi : i < l) :
    (sliceSpec a l cv)[i]? = cv[a + i]? := by
  simp [sliceSpec, List.getElem?_take, hi]

theorem readLE_window (b : List Nat) (a n p w : Nat) (h : p + w ≤ n) :
    readLE ((b.drop a).take n) p w = readLE b (a + p) w := by
  induction w generalizing p with
  | zero => rfl
  | succ w ih =>
    simp only [readLE]
    rw [ih (p + 1) (by omega), List.getElem?_take, List.getElem?_drop]
    have : p < n := by omega
    simp only [this, if_true, Nat.add_assoc]

theorem readLE_full (b : List Nat) (p w : Nat) : readLE b p w = readLE b (0 + p) w := by simp

/-- reading element `i` of a truncated fixed-width buffer = element `off + i` of the source -/
theorem readLE_truncate (b : List Nat) (w off len i : Nat) (hi : i < len) (hb : (off + len) * w ≤ b.length) :
    readLE (getOrTruncateBuffer b w off len) (i * w) w = readLE b ((off + i) * w) w := by
  have e : (off + len) * w = off * w + len * w := Nat.add_mul ..
  have e2 : (i + 1) * w ≤ len * w := Nat.mul_le_mul_right w (by omega)
  have e3 : (i + 1) * w = i * w + w := by rw [Nat.add_mul]; simp
  unfold getOrTruncateBuffer bufferNeedTruncate
  by_cases hc : (off != 0 || decide (len * w < b.length)) = true
  · simp only [hc, if_true]
    have e1 : min (len * w) (b.length - off * w) = len * w := by omega
    rw [e1, readLE_window _ _ _ _ _ (by omega), Nat.add_mul]
  · simp only [hc]
    simp only [Bool.or_eq_true, bne_iff_ne, ne_eq, decide_eq_true_eq, not_or, Decidable.not_not, Nat.not_lt] at hc
    obtain ⟨h0, _⟩ := hc
    subst h0
    simp

theorem readBytes_eq_take (bs : List Nat) (w p : Nat) (h : p * w + w ≤ bs.length) :
    readBytes bs w p = some ((bs.drop (p * w)).take w) := by
  unfold readBytes sliceChecked
  have : p * w ≤ p * w + w ∧ p * w + w ≤ bs.length := ⟨by omega, h⟩
  simp only [this, and_self, if_true]
  congr 2; omega

theorem readBytes_truncate (b : List Nat) (w off len i : Nat) (hi : i < len) (hb : (off + len) * w ≤ b.length) :
    readBytes (getOrTruncateBuffer b w off len) w i = readBytes b w (off + i) := by
  have e : (off + len) * w = off * w + len * w := Nat.add_mul ..
  have e2 : (i + 1) * w ≤ len * w := Nat.mul_le_mul_right w (by omega)
  have e3 : (i + 1) * w = i * w + w := by rw [Nat.add_mul]; simp
  have e4 : (off + i + 1) * w ≤ (off + len) * w := Nat.mul_le_mul_right w (by omega)
  have e5 : (off + i + 1) * w = (off + i) * w + w := by rw [Nat.add_mul]; simp
  rw [readBytes_eq_take _ _ _ (by rw [truncate_length b w off len hb]; omega),
    readBytes_eq_take _ _ _ (by omega)]
  have := congrArg (·[i]?) (truncate_elems b w off len hb)
  simp only [fixedElems, List.getElem?_map, List.getElem?_range hi, Option.map_some, Option.some.injEq, Nat.zero_add] at this
  rw [this]

/-! ### node-level reduction -/

theorem decode_of_slots (d d' : ArrayData) (cvs cvs' : List (List Val)) (vs : List Val) (o l : Nat)
    (hd : decode d = some vs) (hc : decodeAll d.children = some cvs)
    (hc' : decodeAll d'.children = some cvs') (hl : d'.len = l) (hol : o + l ≤ d.len)
    (hs : ∀ i, i < l → slotVal d' cvs' i = slotVal d cvs (o + i)) :
    decode d' = some (sliceSpec o l vs) := by
  rw [decode_eq, hc] at hd
  rw [decode_eq, hc', hl]
  simp only at hd ⊢
  rw [tabulateM_eq_some_iff] at hd ⊢
  obtain ⟨hlen, hv⟩ := hd
  have hlen' : (sliceSpec o l vs).length = l := by simp [sliceSpec]; omega
  refine ⟨hlen', fun i hi => ?_⟩
  rw [hs i (by omega), hv (o + i) (by omega)]
  simp [sliceSpec]

theorem decode_len {d : ArrayData} {vs : List Val} (h : decode d = some vs) : vs.length = d.len := by
  rw [decode_eq] at h
  cases hc : decodeAll d.children with
  | none => simp [hc] at h
  | some cvs =>
    simp only [hc] at h
    exact ((tabulateM_eq_some_iff _ _ _).1 h).1

mutual
/-- nodes for which `decode_norm` is proved -/
def provedA : ArrayData → Bool
  | ⟨t, _, _, _, _, cs⟩ =>
    match t with
    | .bool | .prim _ | .fsb _ | .dict _ _ _ | .utf8 _ | .binary _ => true
    | .fsl _ _ _ | .struct _ => provedAll cs
    | _ => false
def provedAll : List ArrayData → Bool
  | [] => true
  | c :: cs => provedA c && provedAll cs
end

/-! ### per-type slot lemmas -/

theorem slot_prim (w len off : Nat) (nulls : Option Nulls) (b : List Nat) (cs : List ArrayData)
    (cvs cvs' : List (List Val)) (o l i : Nat) (hi : i < l) (hol : o + l ≤ len)
    (hn : NullsOk ⟨.prim w, len, off, nulls, [b], cs⟩) (hb : (off + len) * w ≤ b.length) :
    slotVal ⟨.prim w, l, 0, some (writeValidity nulls o l), [getOrTruncateBuffer b w (off + o) l], []⟩ cvs' i =
      slotVal ⟨.prim w, len, off, nulls, [b], cs⟩ cvs (o + i) := by
  have hb' : (off + o + l) * w ≤ b.length := Nat.le_trans (Nat.mul_le_mul_right w (by omega)) hb
  unfold slotVal
  rw [validAt_norm nulls _ len off [b] cs _ _ _ o l i hi hol hn]
  simp only [Nat.zero_add, readBytes_truncate b w (off + o) l i hi hb', Nat.add_assoc]

theorem slot_fsb (w len off : Nat) (nulls : Option Nulls) (b : List Nat) (cs : List ArrayData)
    (cvs cvs' : List (List Val)) (o l i : Nat) (hi : i < l) (hol : o + l ≤ len)
    (hn : NullsOk ⟨.fsb w, len, off, nulls, [b], cs⟩) (hb : (off + len) * w ≤ b.length) :
    slotVal ⟨.fsb w, l, 0, some (writeValidity nulls o l), [getOrTruncateBuffer b w (off + o) l], []⟩ cvs' i =
      slotVal ⟨.fsb w, len, off, nulls, [b], cs⟩ cvs (o + i) := by
  have hb' : (off + o + l) * w ≤ b.length := Nat.le_trans (Nat.mul_le_mul_right w (by omega)) hb
  unfold slotVal
  rw [validAt_norm nulls _ len off [b] cs _ _ _ o l i hi hol hn]
  simp only [Nat.zero_add, readBytes_truncate b w (off + o) l i hi hb', Nat.add_assoc]

theorem slot_bool (len off : Nat) (nulls : Option Nulls) (b : List Nat) (cs : List ArrayData)
    (cvs cvs' : List (List Val)) (o l i : Nat) (hi : i < l) (hol : o + l ≤ len)
    (hn : NullsOk ⟨.bool, len, off, nulls, [b], cs⟩) (hb : off + len ≤ 8 * b.length) :
    slotVal ⟨.bool, l, 0, some (writeValidity nulls o l), [bitSliceBytes b (off + o) l], []⟩ cvs' i =
      slotVal ⟨.bool, len, off, nulls, [b], cs⟩ cvs (o + i) := by
  unfold slotVal
  rw [validAt_norm nulls _ len off [b] cs _ _ _ o l i hi hol hn]
  simp only [Nat.zero_add, bitAt_bitSliceBytes b (off + o) l i hi (by omega), Nat.add_assoc]

theorem readInt_truncate (b : List Nat) (w : Nat) (sg : Bool) (off len i : Nat) (hi : i < len)
    (hb : (off + len) * w ≤ b.length) :
    readInt (getOrTruncateBuffer b w off len) w sg i = readInt b w sg (off + i) := by
  unfold readInt
  rw [readLE_truncate b w off len i hi hb]

theorem slot_dict (kw : Nat) (sg : Bool) (vt : DType) (len off : Nat) (nulls : Option Nulls) (keys : List Nat)
    (cs : List ArrayData) (cvs : List (List Val)) (o l i : Nat) (hi : i < l) (hol : o + l ≤ len)
    (hn : NullsOk ⟨.dict kw sg vt, len, off, nulls, [keys], cs⟩) (hb : (off + len) * kw ≤ keys.length) :
    slotVal ⟨.dict kw sg vt, l, 0, some (writeValidity nulls o l), [getOrTruncateBuffer keys kw (off + o) l], cs⟩ cvs i =
      slotVal ⟨.dict kw sg vt, len, off, nulls, [keys], cs⟩ cvs (o + i) := by
  have hb' : (off + o + l) * kw ≤ keys.length := Nat.le_trans (Nat.mul_le_mul_right kw (by omega)) hb
  unfold slotVal
  rw [validAt_norm nulls _ len off [keys] cs _ _ _ o l i hi hol hn]
  have e := readInt_truncate keys kw sg (off + o) l i hi hb'
  rcases cvs with _ | ⟨cv, _ | ⟨_, _⟩⟩ <;> simp only [Nat.zero_add, e, Nat.add_assoc]

theorem mapM_map_opt {α β γ} (f : β → Option γ) (g : α → β) (xs : List α) :
    (xs.map g).mapM f = xs.mapM (fun x => f (g x)) := by
  induction xs with
  | nil => rfl
  | cons x xs ih => simp only [List.map_cons, List.mapM_cons, ih]

theorem mapM_congr_opt {α γ} (f g : α → Option γ) (xs : List α) (h : ∀ x, x ∈ xs → f x = g x) :
    xs.mapM f = xs.mapM g := by
  induction xs with
  | nil => rfl
  | cons x xs ih =>
    simp only [List.mapM_cons, h x (by simp), ih (fun y hy => h y (by simp [hy]))]

theorem slot_struct (fs : Fields) (len off : Nat) (nulls : Option Nulls) (cs cs' : List ArrayData)
    (cvs : List (List Val)) (o l i : Nat) (hi : i < l) (hol : o + l ≤ len)
    (hn : NullsOk ⟨.struct fs, len, off, nulls, [], cs⟩) :
    slotVal ⟨.struct fs, l, 0, some (writeValidity nulls o l), [], cs'⟩ (cvs.map (sliceSpec (off + o) l)) i =
      slotVal ⟨.struct fs, len, off, nulls, [], cs⟩ cvs (o + i) := by
  unfold slotVal
  rw [validAt_norm nulls _ len off [] cs _ _ _ o l i hi hol hn]
  simp only [Nat.zero_add, mapM_map_opt]
  rw [mapM_congr_opt _ (fun cv => cv[off + (o + i)]?) cvs (fun cv _ => by
    rw [sliceSpec_getElem? cv (off + o) l i hi, Nat.add_assoc])]

theorem slot_fsl (n : Nat) (it : DType) (nb : Bool) (len off : Nat) (nulls : Option Nulls) (cs cs' : List ArrayData)
    (cv : List Val) (o l i : Nat) (hi : i < l) (hol : o + l ≤ len)
    (hn : NullsOk ⟨.fsl n it nb, len, off, nulls, [], cs⟩) (hcv : (off + len) * n ≤ cv.length) :
    slotVal ⟨.fsl n it nb, l, 0, some (writeValidity nulls o l), [], cs'⟩ [sliceSpec ((off + o) * n) (l * n) cv] i =
      slotVal ⟨.fsl n it nb, len, off, nulls, [], cs⟩ [cv] (o + i) := by
  unfold slotVal
  rw [validAt_norm nulls _ len off [] cs _ _ _ o l i hi hol hn]
  have e1 : (off + len) * n = (off + o + l) * n + (len - o - l) * n := by rw [← Nat.add_mul]; congr 1; omega
  have e2 : (off + o + l) * n = (off + o) * n + l * n := Nat.add_mul ..
  have e3 : (i + 1) * n ≤ l * n := Nat.mul_le_mul_right n (by omega)
  have e4 : (i + 1) * n = i * n + n := by rw [Nat.add_mul]; simp
  have e5 : (off + (o + i)) * n = (off + o) * n + i * n := by rw [← Nat.add_mul]; congr 1; omega
  have hl : (sliceSpec ((off + o) * n) (l * n) cv).length = l * n := by simp [sliceSpec]; omega
  have s1 : sliceChecked (sliceSpec ((off + o) * n) (l * n) cv) (i * n) (i * n + n) =
      sliceChecked cv ((off + (o + i)) * n) ((off + (o + i)) * n + n) := by
    unfold sliceChecked
    have c1 : i * n ≤ i * n + n ∧ i * n + n ≤ (sliceSpec ((off + o) * n) (l * n) cv).length := by omega
    have c2 : (off + (o + i)) * n ≤ (off + (o + i)) * n + n ∧ (off + (o + i)) * n + n ≤ cv.length := by omega
    rw [if_pos c1, if_pos c2]
    simp only [sliceSpec, Nat.add_sub_cancel_left]
    rw [window_add _ _ _ _ _ (by omega), e5]
  simp only [Nat.zero_add, s1]

theorem fieldsMatch_forall (f : Field → ArrayData → Bool) (P : ArrayData → Prop)
    (hP : ∀ fl c, f fl c = true → P c) :
    ∀ (fl : List Field) (cs : List ArrayData), fieldsMatch f fl cs = true → ∀ c, c ∈ cs → P c
  | [], [], _, c, hc => by simp at hc
  | [], _ :: _, h, _, _ => by simp [fieldsMatch] at h
  | _ :: _, [], h, _, _ => by simp [fieldsMatch] at h
  | x :: fl, c' :: cs, h, c, hc => by
    simp only [fieldsMatch, Bool.and_eq_true] at h
    rcases List.mem_cons.mp hc with rfl | hc
    · exact hP x _ h.1
    · exact fieldsMatch_forall f P hP fl cs h.2 c hc

/-! ### variable-size binary: offsets machinery -/

theorem readLE_lt (bs : List Nat) : ∀ (w p v : Nat), readLE bs p w = some v → v < 2 ^ (8 * w)
  | 0, p, v, h => by simp [readLE] at h; omega
  | w + 1, p, v, h => by
    simp only [readLE] at h
    cases h1 : bs[p]? with
    | none => simp [h1] at h
    | some b =>
      cases h2 : readLE bs (p + 1) w with
      | none => simp [h1, h2] at h
      | some r =>
        simp only [h1, h2, Option.some.injEq] at h
        have := readLE_lt bs w (p + 1) r h2
        have e : 2 ^ (8 * (w + 1)) = 256 * 2 ^ (8 * w) := by
          rw [show 8 * (w + 1) = 8 + 8 * w by omega, Nat.pow_add]
        omega

theorem readLE_bound (bs : List Nat) : ∀ (w p v : Nat), readLE bs p (w + 1) = some v → p + (w + 1) ≤ bs.length
  | 0, p, v, h => by
    simp only [readLE] at h
    cases h1 : bs[p]? with
    | none => simp [h1] at h
    | some b => have := (List.getElem?_eq_some_iff.1 h1).1; omega
  | w + 1, p, v, h => by
    rw [readLE] at h
    cases h1 : bs[p]? with
    | none => simp [h1] at h
    | some b =>
      cases h2 : readLE bs (p + 1) (w + 1) with
      | none => simp [h1, h2] at h
      | some r => have := readLE_bound bs w (p + 1) r h2; omega

/-- position `q` of the offsets buffer holds a non-negative offset that `allOffsets` reproduces -/
def GoodOff (offs : List Nat) (w q : Nat) : Prop :=
  ∃ v : Nat, readInt offs w true q = some (v : Int) ∧ 2 * v < 2 ^ (8 * w) ∧
    (allOffsets offs w).getD q 0 = v ∧ q < (allOffsets offs w).length

theorem goodOff_of_readInt (offs : List Nat) (w q : Nat) (a : Int) (hw : 0 < w)
    (h : readInt offs w true q = some a) (ha : 0 ≤ a) : GoodOff offs w q ∧ (allOffsets offs w).getD q 0 = a.toNat := by
  unfold readInt at h
  cases h1 : readLE offs (q * w) w with
  | none => simp [h1] at h
  | some v =>
    simp only [h1, Option.map_some, if_true, Option.some.injEq] at h
    have hlt := readLE_lt offs w (q * w) v h1
    obtain ⟨w', rfl⟩ : ∃ w', w = w' + 1 := ⟨w - 1, by omega⟩
    have hb := readLE_bound offs w' (q * (w' + 1)) v h1
    have hfit : 2 * v < 2 ^ (8 * (w' + 1)) := by
      unfold toSigned at h
      by_cases hc : 2 * v < 2 ^ (8 * (w' + 1))
      · exact hc
      · simp only [hc, if_false] at h
        have : (v : Int) < ((2 ^ (8 * (w' + 1)) : Nat) : Int) := by exact_mod_cast hlt
        omega
    have hav : a = (v : Int) := by
      unfold toSigned at h; simp only [hfit, if_true] at h; exact h.symm
    have hq : q < offs.length / (w' + 1) := by
      have e : (q + 1) * (w' + 1) = q * (w' + 1) + (w' + 1) := by rw [Nat.add_mul]; simp
      have h3 : (q + 1) * (w' + 1) ≤ offs.length := by rw [e]; exact hb
      have := (Nat.le_div_iff_mul_le (show 0 < w' + 1 by omega)).2 h3
      omega
    have hr : readInt offs (w' + 1) true q = some (v : Int) := by
      unfold readInt; rw [h1]; simp [toSigned, hfit]
    have hg : (allOffsets offs (w' + 1)).getD q 0 = v := by
      unfold allOffsets
      rw [List.getD_eq_getElem?_getD, List.getElem?_map, List.getElem?_range hq]
      simp [hr]
    refine ⟨⟨v, hr, hfit, hg, by simp [allOffsets, hq]⟩, ?_⟩
    rw [hg, hav]; simp

theorem offW_pos (lg : Bool) : 0 < offW lg := by unfold offW; split <;> omega

theorem pair_facts (offs : List Nat) (lg : Bool) (lim q : Nat) (h : offsetPairOk offs lg lim q = true) :
    GoodOff offs (offW lg) q ∧ GoodOff offs (offW lg) (q + 1) ∧
      (allOffsets offs (offW lg)).getD q 0 ≤ (allOffsets offs (offW lg)).getD (q + 1) 0 ∧
      (allOffsets offs (offW lg)).getD (q + 1) 0 ≤ lim := by
  unfold offsetPairOk at h
  cases ha : readInt offs (offW lg) true q with
  | none => rw [ha] at h; simp at h
  | some a =>
    cases hb : readInt offs (offW lg) true (q + 1) with
    | none => rw [ha, hb] at h; simp at h
    | some b =>
      rw [ha, hb] at h
      simp only [decide_eq_true_eq] at h
      obtain ⟨g1, e1⟩ := goodOff_of_readInt offs _ q a (offW_pos lg) ha h.1
      obtain ⟨g2, e2⟩ := goodOff_of_readInt offs _ (q + 1) b (offW_pos lg) hb (by omega)
      refine ⟨g1, g2, ?_, ?_⟩
      · rw [e1, e2]; omega
      · rw [e2]; omega

theorem mono_of_steps (O : List Nat) (P l : Nat) (h : ∀ k, k < l → O.getD (P + k) 0 ≤ O.getD (P + k + 1) 0) :
    MonoOn O P l := by
  intro i j hi hij hj
  obtain ⟨d, rfl⟩ : ∃ d, j = i + d := ⟨j - i, by omega⟩
  induction d with
  | zero => exact Nat.le_refl _
  | succ d ih =>
    have := h (i + d - P) (by omega)
    have e : P + (i + d - P) = i + d := by omega
    rw [e] at this
    exact Nat.le_trans (ih (by omega) (by omega)) this

theorem binValue_norm (offs data : List Nat) (lg : Bool) (P l i : Nat) (hi : i < l)
    (H : ∀ k, k < l → offsetPairOk offs lg data.length (P + k) = true) :
    let r := getByteArrayBuffers (allOffsets offs (offW lg)) data P l
    binValue (encInts (offW lg) r.1) r.2 lg i = binValue offs data lg (P + i) := by
  intro r
  have hl0 : l ≠ 0 := by omega
  let O := allOffsets offs (offW lg)
  have steps : ∀ k, k < l → O.getD (P + k) 0 ≤ O.getD (P + k + 1) 0 := fun k hk => (pair_facts _ _ _ _ (H k hk)).2.2.1
  have hm : MonoOn O P l := mono_of_steps O P l steps
  have hlen : P + l + 1 ≤ O.length := by
    have := (pair_facts _ _ _ _ (H (l - 1) (by omega))).2.1
    obtain ⟨_, _, _, _, hq⟩ := this
    have e : P + (l - 1) + 1 = P + l := by omega
    rw [e] at hq; exact hq
  have hlast : O.getD (P + l) 0 ≤ data.length := by
    have := (pair_facts _ _ _ _ (H (l - 1) (by omega))).2.2.2
    have e : P + (l - 1) + 1 = P + l := by omega
    rw [e] at this; exact this
  have hr : r = ((List.range (l + 1)).map (fun i => O.getD (P + i) 0 - O.getD P 0),
      (data.drop (O.getD P 0)).take (O.getD (P + l) 0 - O.getD P 0)) := by
    have hre := reencode_eq O P l hlen
    simp only [r, getByteArrayBuffers, hl0, if_false]
    show ((reencodeOffsets O P l).1, _) = _
    rw [hre]
  -- the written offsets read back
  have fit : ∀ k, k ≤ l → 2 * (O.getD (P + k) 0 - O.getD P 0) < 2 ^ (8 * offW lg) := by
    intro k hk
    have g : GoodOff offs (offW lg) (P + k) := by
      by_cases hk' : k < l
      · exact (pair_facts _ _ _ _ (H k hk')).1
      · have := (pair_facts _ _ _ _ (H (l - 1) (by omega))).2.1
        have e : P + (l - 1) + 1 = P + k := by omega
        rw [e] at this; exact this
    obtain ⟨v, _, hf, hv, _⟩ := g
    have : O.getD (P + k) 0 = v := hv
    omega
  have rd : ∀ k, k ≤ l → readInt (encInts (offW lg) r.1) (offW lg) true k =
      some ((O.getD (P + k) 0 - O.getD P 0 : Nat) : Int) := by
    intro k hk
    rw [hr]
    have hk' : k < ((List.range (l + 1)).map (fun i => O.getD (P + i) 0 - O.getD P 0)).length := by simp; omega
    have := readInt_encInts (offW lg) _ k hk' (by simpa using fit k hk)
    simpa using this
  have m0 := hm P (P + i) (by omega) (by omega) (by omega)
  have m1 := hm (P + i) (P + i + 1) (by omega) (by omega) (by omega)
  have m2 := hm (P + i + 1) (P + l) (by omega) (by omega) (by omega)
  obtain ⟨⟨va, ra, _, ea, _⟩, ⟨vb, rb, _, eb, _⟩, _, _⟩ := pair_facts _ _ _ _ (H i hi)
  have ea' : O.getD (P + i) 0 = va := ea
  have eb' : O.getD (P + i + 1) 0 = vb := eb
  unfold binValue
  rw [rd i (by omega), rd (i + 1) (by omega), ra, rb]
  have e1 : P + (i + 1) = P + i + 1 := by omega
  simp only [Int.natCast_nonneg, and_self, if_true, Int.toNat_natCast, e1]
  rw [hr]
  simp only
  unfold sliceChecked
  have c1 : O.getD (P + i) 0 - O.getD P 0 ≤ O.getD (P + i + 1) 0 - O.getD P 0 ∧
      O.getD (P + i + 1) 0 - O.getD P 0 ≤ ((data.drop (O.getD P 0)).take (O.getD (P + l) 0 - O.getD P 0)).length := by
    simp only [List.length_take, List.length_drop]; omega
  have c2 : va ≤ vb ∧ vb ≤ data.length := by omega
  rw [if_pos c1, if_pos c2, window_sub data _ _ _ _ m0 m1 (by omega), ea', eb']

theorem slot_binary (lg : Bool) (len off : Nat) (nulls : Option Nulls) (offs data : List Nat) (cs : List ArrayData)
    (cvs cvs' : List (List Val)) (o l i : Nat) (hi : i < l) (hol : o + l ≤ len)
    (hn : NullsOk ⟨.binary lg, len, off, nulls, [offs, data], cs⟩)
    (H : ∀ k, k < len → offsetPairOk offs lg data.length (off + k) = true) :
    slotVal ⟨.binary lg, l, 0, some (writeValidity nulls o l),
        [encInts (offW lg) (getByteArrayBuffers (allOffsets offs (offW lg)) data (off + o) l).1,
         (getByteArrayBuffers (allOffsets offs (offW lg)) data (off + o) l).2], []⟩ cvs' i =
      slotVal ⟨.binary lg, len, off, nulls, [offs, data], cs⟩ cvs (o + i) := by
  unfold slotVal
  rw [validAt_norm nulls _ len off [offs, data] cs _ _ _ o l i hi hol hn]
  have := binValue_norm offs data lg (off + o) l i hi (fun k hk => by
    have := H (o + k) (by omega); rwa [← Nat.add_assoc] at this)
  simp only at this
  simp only [Nat.zero_add, this, Nat.add_assoc]

theorem slot_utf8 (lg : Bool) (len off : Nat) (nulls : Option Nulls) (offs data : List Nat) (cs : List ArrayData)
    (cvs cvs' : List (List Val)) (o l i : Nat) (hi : i < l) (hol : o + l ≤ len)
    (hn : NullsOk ⟨.utf8 lg, len, off, nulls, [offs, data], cs⟩)
    (H : ∀ k, k < len → offsetPairOk offs lg data.length (off + k) = true) :
    slotVal ⟨.utf8 lg, l, 0, some (writeValidity nulls o l),
        [encInts (offW lg) (getByteArrayBuffers (allOffsets offs (offW lg)) data (off + o) l).1,
         (getByteArrayBuffers (allOffsets offs (offW lg)) data (off + o) l).2], []⟩ cvs' i =
      slotVal ⟨.utf8 lg, len, off, nulls, [offs, data], cs⟩ cvs (o + i) := by
  unfold slotVal
  rw [validAt_norm nulls _ len off [offs, data] cs _ _ _ o l i hi hol hn]
  have := binValue_norm offs data lg (off + o) l i hi (fun k hk => by
    have := H (o + k) (by omega); rwa [← Nat.add_assoc] at this)
  simp only at this
  simp only [Nat.zero_add, this, Nat.add_assoc]

mutual
theorem decode_norm : ∀ (d : ArrayData) (o l : Nat) (vs : List Val), WellFormed d → provedA d = true →
    decode d = some vs → o + l ≤ d.len → decode (norm d o l) = some (sliceSpec o l vs)
  | ⟨t, len, off, nulls, bufs, cs⟩, o, l, vs, hw, hp, hd, hol => by
    unfold WellFormed at hw
    obtain ⟨hlw, hcs⟩ := hw
    unfold LocalWF at hlw
    obtain ⟨hn, hl⟩ := hlw
    simp only at hol
    have hdc : ∃ cvs, decodeAll cs = some cvs := by
      rw [decode] at hd
      cases hc : decodeAll cs with
      | none => simp [hc] at hd
      | some cvs => exact ⟨cvs, rfl⟩
    obtain ⟨cvs, hc⟩ := hdc
    cases t with
    | prim w =>
      simp only at hl
      obtain ⟨hc0, b, hb, hbl⟩ := hl
      subst hc0; subst hb
      rw [norm]
      exact decode_of_slots _ _ cvs [] vs o l hd hc (by simp [decodeAll]) rfl hol
        (fun i hi => slot_prim w len off nulls b [] cvs [] o l i hi hol hn hbl)
    | fsb w =>
      simp only at hl
      obtain ⟨hc0, b, hb, hbl⟩ := hl
      subst hc0; subst hb
      rw [norm]
      exact decode_of_slots _ _ cvs [] vs o l hd hc (by simp [decodeAll]) rfl hol
        (fun i hi => slot_fsb w len off nulls b [] cvs [] o l i hi hol hn hbl)
    | bool =>
      simp only at hl
      obtain ⟨hc0, b, hb, hbl⟩ := hl
      subst hc0; subst hb
      rw [norm]
      exact decode_of_slots _ _ cvs [] vs o l hd hc (by simp [decodeAll]) rfl hol
        (fun i hi => slot_bool len off nulls b [] cvs [] o l i hi hol hn hbl)
    | dict kw sg vt =>
      simp only at hl
      obtain ⟨keys, v, hb, hcv, _, _, hbl, _⟩ := hl
      subst hb
      rw [norm]
      exact decode_of_slots _ _ cvs cvs vs o l hd hc hc rfl hol
        (fun i hi => slot_dict kw sg vt len off nulls keys cs cvs o l i hi hol hn hbl)
    | struct fs =>
      simp only at hl
      obtain ⟨hb, hfm, _⟩ := hl
      subst hb
      simp only [provedA] at hp
      have hbound : ∀ c, c ∈ cs → off + o + l ≤ c.len :=
        fieldsMatch_forall _ (fun c => off + o + l ≤ c.len)
          (fun fl c h => by
            simp only [Bool.and_eq_true, decide_eq_true_eq] at h
            omega) _ _ hfm
      have hall := decodeAll_normAll cs (off + o) l cvs hcs hp hc hbound
      rw [norm]
      exact decode_of_slots _ _ cvs _ vs o l hd hc hall rfl hol
        (fun i hi => slot_struct fs len off nulls cs _ cvs o l i hi hol hn)
    | fsl n it nb =>
      simp only at hl
      obtain ⟨hb, c, hcc, _, hcl, _⟩ := hl
      subst hb
      simp only [provedA] at hp
      have e1 : (off + len) * n = (off + o + l) * n + (len - o - l) * n := by rw [← Nat.add_mul]; congr 1; omega
      have e2 : (off + o + l) * n = (off + o) * n + l * n := Nat.add_mul ..
      have hbound : ∀ c', c' ∈ cs → (off + o) * n + l * n ≤ c'.len := by
        intro c' hc'; rw [hcc] at hc'; simp at hc'; subst hc'; omega
      have hall := decodeAll_normAll cs ((off + o) * n) (l * n) cvs hcs hp hc hbound
      rw [norm]
      subst hcc
      obtain ⟨cv, rfl⟩ : ∃ cv, cvs = [cv] := by
        rw [decodeAll] at hc
        cases h1 : decode c with
        | none => simp [h1] at hc
        | some v => simp [h1, decodeAll] at hc; exact ⟨v, hc.symm⟩
      have hcv : decode c = some cv := by
        rw [decodeAll] at hc
        cases h1 : decode c with
        | none => simp [h1] at hc
        | some v => simp [h1, decodeAll] at hc; rw [hc]
      have hlen := decode_len hcv
      exact decode_of_slots _ _ [cv] _ vs o l hd hc hall rfl hol
        (fun i hi => slot_fsl n it nb len off nulls [c] _ cv o l i hi hol hn (by omega))
    | binary lg =>
      simp only at hl
      obtain ⟨hc0, offs, data, hb, hor⟩ := hl
      subst hc0; subst hb
      rw [norm]
      refine decode_of_slots _ _ cvs [] vs o l hd hc (by simp [decodeAll]) rfl hol (fun i hi => ?_)
      have H : ∀ k, k < len → offsetPairOk offs lg data.length (off + k) = true := by
        rcases hor with ⟨h0, _⟩ | h
        · omega
        · exact h
      exact slot_binary lg len off nulls offs data [] cvs [] o l i hi hol hn H
    | utf8 lg =>
      simp only at hl
      obtain ⟨hc0, offs, data, hb, hor⟩ := hl
      subst hc0; subst hb
      rw [norm]
      refine decode_of_slots _ _ cvs [] vs o l hd hc (by simp [decodeAll]) rfl hol (fun i hi => ?_)
      have H : ∀ k, k < len → offsetPairOk offs lg data.length (off + k) = true := by
        rcases hor with ⟨h0, _⟩ | h
        · omega
        · exact fun k hk => (h k hk).1
      exact slot_utf8 lg len off nulls offs data [] cvs [] o l i hi hol hn H
    | _ => simp [provedA] at hp
theorem decodeAll_normAll : ∀ (cs : List ArrayData) (a b : Nat) (cvs : List (List Val)), WellFormedAll cs →
    provedAll cs = true → decodeAll cs = some cvs → (∀ c, c ∈ cs → a + b ≤ c.len) →
    decodeAll (normAll cs a b) = some (cvs.map (sliceSpec a b))
  | [], a, b, cvs, _, _, hd, _ => by
    simp only [decodeAll, Option.some.injEq] at hd
    subst hd
    simp [normAll, decodeAll]
  | c :: cs, a, b, cvs, hw, hp, hd, hb => by
    unfold WellFormedAll at hw
    simp only [provedAll, Bool.and_eq_true] at hp
    rw [decodeAll] at hd
    cases h1 : decode c with
    | none => simp [h1] at hd
    | some v =>
      cases h2 : decodeAll cs with
      | none => simp [h1, h2] at hd
      | some vs' =>
        simp only [h1, h2, Option.some.injEq] at hd
        subst hd
        have i1 := decode_norm c a b v hw.1 hp.1 h1 (hb c (by simp))
        have i2 := decodeAll_normAll cs a b vs' hw.2 hp.2 h2 (fun c' hc' => hb c' (by simp [hc']))
        rw [normAll, decodeAll, i1, i2]
        simp
end


/-! ### buffer / field-node accounting (`skip_field`, `create_array` vs `flatten`) -/

/-- children part of `flatten` -/
def chOf (x : ArrayData) : List (Nat × Nat) × List (List Nat) :=
  match x.type with
  | .dict _ _ _ => ([], [])
  | _ => flattenAll x.children

theorem flatten_lengths (x : ArrayData) :
    (flatten x).1.length = 1 + (chOf x).1.length ∧
    (flatten x).2.length = (if x.nulls.isSome then 1 else 0) + x.buffers.length + (chOf x).2.length := by
  obtain ⟨t, len, off, nulls, bufs, cs⟩ := x
  cases t <;> cases nulls <;> simp [flatten, chOf] <;> omega

theorem hv_true (t : DType) (v : Nat) (h1 : t ≠ .null) (h2 : ∀ d f, t ≠ .union d f) (h3 : ∀ r w, t ≠ .ree r w) :
    hasValidityBitmap t v = true := by
  unfold hasValidityBitmap
  split <;> cases t <;> simp_all

theorem nodeOk_iff (v : Nat) (t : DType) (x : ArrayData) (nb : Nat) (h : nodeOk v t x nb = true) :
    x.type = t ∧ x.nulls.isSome = hasValidityBitmap t v ∧ x.buffers.length = nb := by
  simpa [nodeOk, and_assoc] using h

mutual
/-- **the writer's output for a column and the reader's consumption agree**: an array with the
shape `write_array_data` produces for type `t` under version `v` flattens to exactly
`consumeCount k t v` field nodes and buffers, when the reader's Union arm uses the writer's
version split `k`. -/
theorem flatten_count (k v : Nat) (hk : k = Generated.C04.HAS_VALIDITY_SPLIT_VERSION) :
    ∀ (t : DType) (x : ArrayData), shapeOk v t x = true →
      (flatten x).1.length = (consumeCount k t v).1 ∧ (flatten x).2.length = (consumeCount k t v).2
  | .null, x, h => by
    simp only [shapeOk, Bool.and_eq_true, List.isEmpty_iff] at h
    obtain ⟨hn, hc⟩ := h
    obtain ⟨ht, hv, hb⟩ := nodeOk_iff _ _ _ _ hn
    have := flatten_lengths x
    have hv' : hasValidityBitmap .null v = false := by unfold hasValidityBitmap; split <;> rfl
    simp only [chOf, ht, hc, flattenAll, hv, hv', hb] at this
    simp [consumeCount, this]
  | .bool, x, h => by
    simp only [shapeOk, Bool.and_eq_true, List.isEmpty_iff] at h
    obtain ⟨hn, hc⟩ := h
    obtain ⟨ht, hv, hb⟩ := nodeOk_iff _ _ _ _ hn
    have := flatten_lengths x
    simp only [chOf, ht, hc, flattenAll, hv, hv_true .bool v (by simp) (by simp) (by simp), hb] at this
    simp [consumeCount, this]
  | .prim w, x, h => by
    simp only [shapeOk, Bool.and_eq_true, List.isEmpty_iff] at h
    obtain ⟨hn, hc⟩ := h
    obtain ⟨ht, hv, hb⟩ := nodeOk_iff _ _ _ _ hn
    have := flatten_lengths x
    simp only [chOf, ht, hc, flattenAll, hv, hv_true (.prim w) v (by simp) (by simp) (by simp), hb] at this
    simp [consumeCount, this]
  | .fsb w, x, h => by
    simp only [shapeOk, Bool.and_eq_true, List.isEmpty_iff] at h
    obtain ⟨hn, hc⟩ := h
    obtain ⟨ht, hv, hb⟩ := nodeOk_iff _ _ _ _ hn
    have := flatten_lengths x
    simp only [chOf, ht, hc, flattenAll, hv, hv_true (.fsb w) v (by simp) (by simp) (by simp), hb] at this
    simp [consumeCount, this]
  | .utf8 l, x, h => by
    simp only [shapeOk, Bool.and_eq_true, List.isEmpty_iff] at h
    obtain ⟨hn, hc⟩ := h
    obtain ⟨ht, hv, hb⟩ := nodeOk_iff _ _ _ _ hn
    have := flatten_lengths x
    simp only [chOf, ht, hc, flattenAll, hv, hv_true (.utf8 l) v (by simp) (by simp) (by simp), hb] at this
    simp [consumeCount, this]
  | .binary l, x, h => by
    simp only [shapeOk, Bool.and_eq_true, List.isEmpty_iff] at h
    obtain ⟨hn, hc⟩ := h
    obtain ⟨ht, hv, hb⟩ := nodeOk_iff _ _ _ _ hn
    have := flatten_lengths x
    simp only [chOf, ht, hc, flattenAll, hv, hv_true (.binary l) v (by simp) (by simp) (by simp), hb] at this
    simp [consumeCount, this]
  | .view u, x, h => by
    simp only [shapeOk, Bool.and_eq_true, List.isEmpty_iff] at h
    obtain ⟨hn, hc⟩ := h
    obtain ⟨ht, hv, hb⟩ := nodeOk_iff _ _ _ _ hn
    have := flatten_lengths x
    simp only [chOf, ht, hc, flattenAll, hv, hv_true (.view u) v (by simp) (by simp) (by simp), hb] at this
    simp [consumeCount, this]
  | .dict kw s val, x, h => by
    simp only [shapeOk] at h
    obtain ⟨ht, hv, hb⟩ := nodeOk_iff _ _ _ _ h
    have := flatten_lengths x
    simp only [chOf, ht, hv, hv_true (.dict kw s val) v (by simp) (by simp) (by simp), hb] at this
    simp [consumeCount, this]
  | .list l item n, x, h => by
    simp only [shapeOk, Bool.and_eq_true] at h
    obtain ⟨hn, hc⟩ := h
    obtain ⟨ht, hv, hb⟩ := nodeOk_iff _ _ _ _ hn
    cases hcs : x.children with
    | nil => simp [hcs] at hc
    | cons c rest =>
      cases rest with
      | cons _ _ => simp [hcs] at hc
      | nil =>
        simp only [hcs] at hc
        have ih := flatten_count k v hk item c hc
        have := flatten_lengths x
        simp only [chOf, ht, hcs, flattenAll, hv, hv_true (.list l item n) v (by simp) (by simp) (by simp), hb,
          List.append_nil, ↓reduceIte] at this
        obtain ⟨t1, t2⟩ := this
        have ih1 := ih.1
        have ih2 := ih.2
        refine ⟨?_, ?_⟩ <;> simp only [consumeCount] <;> omega
  | .fsl kk item n, x, h => by
    simp only [shapeOk, Bool.and_eq_true] at h
    obtain ⟨hn, hc⟩ := h
    obtain ⟨ht, hv, hb⟩ := nodeOk_iff _ _ _ _ hn
    cases hcs : x.children with
    | nil => simp [hcs] at hc
    | cons c rest =>
      cases rest with
      | cons _ _ => simp [hcs] at hc
      | nil =>
        simp only [hcs] at hc
        have ih := flatten_count k v hk item c hc
        have := flatten_lengths x
        simp only [chOf, ht, hcs, flattenAll, hv, hv_true (.fsl kk item n) v (by simp) (by simp) (by simp), hb,
          List.append_nil, ↓reduceIte] at this
        obtain ⟨t1, t2⟩ := this
        have ih1 := ih.1
        have ih2 := ih.2
        refine ⟨?_, ?_⟩ <;> simp only [consumeCount] <;> omega
  | .struct fs, x, h => by
    simp only [shapeOk, Bool.and_eq_true] at h
    obtain ⟨hn, hc⟩ := h
    obtain ⟨ht, hv, hb⟩ := nodeOk_iff _ _ _ _ hn
    have ih := flattenAll_count k v hk fs x.children hc
    have := flatten_lengths x
    simp only [chOf, ht, hv, hv_true (.struct fs) v (by simp) (by simp) (by simp), hb, ↓reduceIte] at this
    obtain ⟨t1, t2⟩ := this
    have ih1 := ih.1
    have ih2 := ih.2
    refine ⟨?_, ?_⟩ <;> simp only [consumeCount] <;> omega
  | .union dense fs, x, h => by
    simp only [shapeOk, Bool.and_eq_true] at h
    obtain ⟨hn, hc⟩ := h
    obtain ⟨ht, hv, hb⟩ := nodeOk_iff _ _ _ _ hn
    have ih := flattenAll_count k v hk fs x.children hc
    have := flatten_lengths x
    have hvb : hasValidityBitmap (.union dense fs) v = decide (v < k) := by
      unfold hasValidityBitmap; rw [hk]; split <;> simp [*]
    by_cases hvk : v < k
    all_goals
      simp only [chOf, ht, hv, hvb, hb, hvk, decide_true, decide_false, ↓reduceIte, Bool.false_eq_true] at this
      obtain ⟨t1, t2⟩ := this
      have ih1 := ih.1
      have ih2 := ih.2
      refine ⟨?_, ?_⟩ <;> simp only [consumeCount, hvk, ↓reduceIte] <;> cases dense <;> simp at t2 ⊢ <;> omega
  | .ree rwd val, x, h => by
    simp only [shapeOk, Bool.and_eq_true] at h
    obtain ⟨hn, hc⟩ := h
    obtain ⟨ht, hv, hb⟩ := nodeOk_iff _ _ _ _ hn
    cases hcs : x.children with
    | nil => simp [hcs] at hc
    | cons re rest =>
      cases rest with
      | nil => simp [hcs] at hc
      | cons vals rest2 =>
        cases rest2 with
        | cons _ _ => simp [hcs] at hc
        | nil =>
          simp only [hcs, Bool.and_eq_true, List.isEmpty_iff] at hc
          obtain ⟨⟨hre, hrec⟩, hvals⟩ := hc
          obtain ⟨rt, rv, rb⟩ := nodeOk_iff _ _ _ _ hre
          have ih := flatten_count k v hk val vals hvals
          have hre1 := flatten_lengths re
          simp only [chOf, rt, hrec, flattenAll, rv, hv_true (.prim rwd) v (by simp) (by simp) (by simp), rb, List.length_nil, ↓reduceIte] at hre1
          have := flatten_lengths x
          have hvb : hasValidityBitmap (.ree rwd val) v = false := by
            unfold hasValidityBitmap; split <;> rfl
          simp only [chOf, ht, hcs, flattenAll, hv, hvb, hb, List.append_nil, List.length_append, List.length_nil, Bool.false_eq_true, ↓reduceIte] at this
          obtain ⟨r1, r2⟩ := hre1
          obtain ⟨t1, t2⟩ := this
          have ih1 := ih.1
          have ih2 := ih.2
          refine ⟨?_, ?_⟩ <;> simp only [consumeCount] <;> omega
theorem flattenAll_count (k v : Nat) (hk : k = Generated.C04.HAS_VALIDITY_SPLIT_VERSION) :
    ∀ (fs : Fields) (cs : List ArrayData), shapeFields v fs cs = true →
      (flattenAll cs).1.length = (consumeFields k fs v).1 ∧ (flattenAll cs).2.length = (consumeFields k fs v).2
  | .nil, [], _ => by simp [flattenAll, consumeFields]
  | .nil, _ :: _, h => by simp [shapeFields] at h
  | .cons _ _ _ _, [], h => by simp [shapeFields] at h
  | .cons _ t _ r, c :: cs, h => by
    simp only [shapeFields, Bool.and_eq_true] at h
    have i1 := flatten_count k v hk t c h.1
    have i2 := flattenAll_count k v hk r cs h.2
    simp only [flattenAll, consumeFields, List.length_append, ← i1.1, ← i1.2, ← i2.1, ← i2.2, and_self]
end
end ArrowModel.C04
