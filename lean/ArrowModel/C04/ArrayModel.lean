/-
C04 — whole-array model of `write_array_data` (arrow-ipc/src/writer.rs) and of
`RecordBatchDecoder::create_array` (reader.rs) over the physical layout of
`ArrowModel.Physical` (C09), for the type grammar

  boolean · fixed-width primitive · FixedSizeBinary · Utf8/Binary (+Large) · List/LargeList ·
  FixedSizeList · Struct · Dictionary keys

composed from the normalisation functions of `C04/Model.lean`.  For these types
`has_validity_bitmap` is true under metadata V4 and V5 alike, so the version does not appear.

`norm d o l` is what the writer emits for rows `[o, o+l)` of `d` (i.e. for the `ArrayData`
`d.slice(o, l)` it is handed), as an `ArrayData` with offset 0 everywhere whose buffers are
*exactly* the body buffers (validity first — kept even when it has no null, as the writer
always emits it) and whose null counts are the field-node null counts.  `flatten` lists the
field nodes and buffers in the pre-order the flatbuffer `RecordBatch` uses; `writeArray` is
their composition.  `readArray` rebuilds an `ArrayData` from a type, nodes and buffers.

Struct nodes: arrow-rs slices the children of a struct eagerly (`ArrayData::slice`,
`StructArray::to_data`) and `write_array_data` never applies the struct's own offset to them;
every struct `ArrayData` the writer can be handed has offset 0 at the point where its children
are still unsliced, where this coincides with the specification's reading (child slot =
parent offset + i) used here.
-/
import ArrowModel.Common.Proto
import ArrowModel.C09.Physical
import ArrowModel.C04.Model
namespace ArrowModel.C04
open ArrowModel.Physical ArrowModel.Proto

/-- types covered by the whole-array model -/
def supportedT : DType → Bool
  | .bool | .prim _ | .fsb _ | .utf8 _ | .binary _ => true
  | .list _ item _ => supportedT item
  | .fsl _ item _ => supportedT item
  | .struct fs => supportedF fs
  | .dict _ _ _ => true
  | _ => false
where supportedF : Fields → Bool
  | .nil => true
  | .cons _ t _ r => supportedT t && supportedF r

/-- `w` little-endian bytes of `v` -/
def encLE : Nat → Nat → List Nat
  | 0, _ => []
  | w + 1, v => v % 256 :: encLE w (v / 256)

/-- a buffer of `w`-byte little-endian integers -/
def encInts (w : Nat) : List Nat → List Nat
  | [] => []
  | x :: xs => encLE w x ++ encInts w xs

/-- the offsets buffer as naturals (`offsets.typed_data::<O>()`) -/
def allOffsets (offs : List Nat) (w : Nat) : List Nat :=
  (List.range (offs.length / w)).map fun i => ((readInt offs w true i).getD 0).toNat

/-- `Buffer::bit_slice` on a byte buffer -/
def bitSliceBytes (bytes : List Nat) (off len : Nat) : List Nat :=
  let r := bitSlice (bytesToNat bytes) off len
  natToBytes r.2 r.1

/-- the validity buffer and null count `write_array_data` emits for rows `[o, o+l)`:
synthesised all-valid bitmap when `nulls()` is `None`, `nulls.inner().sliced()` otherwise -/
def writeValidity (nulls : Option Nulls) (o l : Nat) : Nulls :=
  match nulls with
  | none => ⟨allValidBitmap l, 0, l, 0⟩
  | some n => ⟨bitSliceBytes n.bytes (n.off + o) l, 0, l, countNulls n.bytes (n.off + o) l⟩

mutual
/-- what `write_array_data` emits for `d.slice(o, l)` (see the header) -/
def norm : ArrayData → Nat → Nat → ArrayData
  | ⟨t, len, off, nulls, bufs, cs⟩, o, l =>
    let v := some (writeValidity nulls o l)
    match t with
    | .bool =>
      match bufs with
      | [b] => ⟨t, l, 0, v, [bitSliceBytes b (off + o) l], []⟩
      | _ => ⟨t, l, off + o, nulls.map (·.slice o l), bufs, cs⟩
    | .prim w =>
      match bufs with
      | [b] => ⟨t, l, 0, v, [getOrTruncateBuffer b w (off + o) l], []⟩
      | _ => ⟨t, l, off + o, nulls.map (·.slice o l), bufs, cs⟩
    | .fsb w =>
      match bufs with
      | [b] => ⟨t, l, 0, v, [getOrTruncateBuffer b w (off + o) l], []⟩
      | _ => ⟨t, l, off + o, nulls.map (·.slice o l), bufs, cs⟩
    | .utf8 lg =>
      match bufs with
      | [offs, data] =>
        let r := getByteArrayBuffers (allOffsets offs (offW lg)) data (off + o) l
        ⟨t, l, 0, v, [encInts (offW lg) r.1, r.2], []⟩
      | _ => ⟨t, l, off + o, nulls.map (·.slice o l), bufs, cs⟩
    | .binary lg =>
      match bufs with
      | [offs, data] =>
        let r := getByteArrayBuffers (allOffsets offs (offW lg)) data (off + o) l
        ⟨t, l, 0, v, [encInts (offW lg) r.1, r.2], []⟩
      | _ => ⟨t, l, off + o, nulls.map (·.slice o l), bufs, cs⟩
    | .list lg _ _ =>
      match bufs with
      | [offs] =>
        if l = 0 then ⟨t, 0, 0, v, [encInts (offW lg) [0]], normAll cs 0 0⟩
        else
          let r := reencodeOffsets (allOffsets offs (offW lg)) (off + o) l
          ⟨t, l, 0, v, [encInts (offW lg) r.1], normAll cs r.2.1 r.2.2⟩
      | _ => ⟨t, l, off + o, nulls.map (·.slice o l), bufs, cs⟩
    | .fsl n _ _ => ⟨t, l, 0, v, [], normAll cs ((off + o) * n) (l * n)⟩
    | .struct _ => ⟨t, l, 0, v, [], normAll cs (off + o) l⟩
    | .dict kw _ _ =>
      match bufs with
      | [keys] => ⟨t, l, 0, v, [getOrTruncateBuffer keys kw (off + o) l], cs⟩
      | _ => ⟨t, l, off + o, nulls.map (·.slice o l), bufs, cs⟩
    | _ => ⟨t, l, off + o, nulls.map (·.slice o l), bufs, cs⟩
def normAll : List ArrayData → Nat → Nat → List ArrayData
  | [], _, _ => []
  | c :: cs, o, l => norm c o l :: normAll cs o l
end

mutual
/-- field nodes `(length, null_count)` and body buffers in `RecordBatch` order (pre-order;
dictionary values travel in their own message) -/
def flatten : ArrayData → List (Nat × Nat) × List (List Nat)
  | ⟨t, len, _, nulls, bufs, cs⟩ =>
    let nc := match nulls with | some n => n.nullCount | none => 0
    let vb := match nulls with | some n => [n.bytes] | none => []
    let ch := match t with
      | .dict _ _ _ => ([], [])
      | _ => flattenAll cs
    ((len, nc) :: ch.1, vb ++ bufs ++ ch.2)
def flattenAll : List ArrayData → List (Nat × Nat) × List (List Nat)
  | [] => ([], [])
  | c :: cs =>
    let a := flatten c
    let b := flattenAll cs
    (a.1 ++ b.1, a.2 ++ b.2)
end

/-! ## buffer / field-node accounting per type and metadata version

`RecordBatchDecoder::skip_field` (projection excludes the column) and `create_array` must consume
exactly the field nodes and buffers the writer emitted for the column's subtree; what the writer
emits depends on `has_validity_bitmap(type, version)`. -/

/-- `has_validity_bitmap(data_type, write_options)` for metadata version `v` (4 or 5) -/
def hasValidityBitmap (t : DType) (v : Nat) : Bool :=
  if v < Generated.C04.HAS_VALIDITY_SPLIT_VERSION then
    (match t with | .null | .ree _ _ => false | _ => true)
  else
    (match t with | .null | .union _ _ | .ree _ _ => false | _ => true)

mutual
/-- `(field nodes, buffers)` consumed for a column of type `t` under metadata version `v`;
`unionBelow` is the version below which the Union arm consumes a validity buffer -/
def consumeCount (unionBelow : Nat) : DType → Nat → Nat × Nat
  | .null, _ => (1, 0)
  | .bool, _ => (1, 2)
  | .prim _, _ => (1, 2)
  | .fsb _, _ => (1, 2)
  | .utf8 _, _ => (1, 3)
  | .binary _, _ => (1, 3)
  -- Utf8View/BinaryView: validity + views + `variadic_count` data buffers; modelled for count 0
  -- (all strings inline); the general case is exercised by the `proj` op only
  | .view _, _ => (1, 2)
  | .list _ item _, v => let c := consumeCount unionBelow item v; (1 + c.1, 2 + c.2)
  | .fsl _ item _, v => let c := consumeCount unionBelow item v; (1 + c.1, 1 + c.2)
  | .struct fs, v => let c := consumeFields unionBelow fs v; (1 + c.1, 1 + c.2)
  | .dict _ _ _, _ => (1, 2)
  | .ree _ value, v =>
    -- run ends are a primitive child: node + validity + values
    let b := consumeCount unionBelow value v
    (1 + 1 + b.1, 2 + b.2)
  | .union dense fs, v =>
    let own := (if v < unionBelow then 1 else 0) + 1 + (if dense then 1 else 0)
    let c := consumeFields unionBelow fs v
    (1 + c.1, own + c.2)
def consumeFields (unionBelow : Nat) : Fields → Nat → Nat × Nat
  | .nil, _ => (0, 0)
  | .cons _ t _ r, v =>
    let a := consumeCount unionBelow t v
    let b := consumeFields unionBelow r v
    (a.1 + b.1, a.2 + b.2)
end

/-- `RecordBatchDecoder::skip_field` -/
def skipCount : DType → Nat → Nat × Nat := consumeCount Generated.C04.SKIP_UNION_VALIDITY_BELOW
/-- `RecordBatchDecoder::create_array` -/
def readCount : DType → Nat → Nat × Nat := consumeCount Generated.C04.READ_UNION_VALIDITY_BELOW

/-- one node of a written column: type, validity present iff `has_validity_bitmap`, `nb` buffers -/
def nodeOk (v : Nat) (t : DType) (x : ArrayData) (nb : Nat) : Bool :=
  decide (x.type = t) && (x.nulls.isSome == hasValidityBitmap t v) && x.buffers.length == nb

mutual
/-- the structural shape of what `write_array_data` emits for a column of type `t` under
metadata version `v` (buffer counts per layout, validity per `has_validity_bitmap`) -/
def shapeOk (v : Nat) : DType → ArrayData → Bool
  | .null, x => nodeOk v .null x 0 && x.children.isEmpty
  | .bool, x => nodeOk v .bool x 1 && x.children.isEmpty
  | .prim w, x => nodeOk v (.prim w) x 1 && x.children.isEmpty
  | .fsb w, x => nodeOk v (.fsb w) x 1 && x.children.isEmpty
  | .utf8 l, x => nodeOk v (.utf8 l) x 2 && x.children.isEmpty
  | .binary l, x => nodeOk v (.binary l) x 2 && x.children.isEmpty
  | .view u, x => nodeOk v (.view u) x 1 && x.children.isEmpty
  | .list l item n, x =>
    nodeOk v (.list l item n) x 1 && (match x.children with | [c] => shapeOk v item c | _ => false)
  | .fsl k item n, x =>
    nodeOk v (.fsl k item n) x 0 && (match x.children with | [c] => shapeOk v item c | _ => false)
  | .struct fs, x => nodeOk v (.struct fs) x 0 && shapeFields v fs x.children
  | .dict kw s val, x => nodeOk v (.dict kw s val) x 1
  | .ree rw val, x =>
    nodeOk v (.ree rw val) x 0 &&
      (match x.children with
        | [re, vals] => nodeOk v (.prim rw) re 1 && re.children.isEmpty && shapeOk v val vals
        | _ => false)
  | .union dense fs, x =>
    nodeOk v (.union dense fs) x (if dense then 2 else 1) && shapeFields v fs x.children
def shapeFields (v : Nat) : Fields → List ArrayData → Bool
  | .nil, [] => true
  | .cons _ t _ r, c :: cs => shapeOk v t c && shapeFields v r cs
  | _, _ => false
end

/-- dictionary value arrays in pre-order (delivered to the reader by the dictionary protocol) -/
def dictChildren : ArrayData → List ArrayData
  | ⟨t, _, _, _, _, cs⟩ =>
    match t with
    | .dict _ _ _ => cs
    | _ => dictChildrenAll cs
where dictChildrenAll : List ArrayData → List ArrayData
  | [] => []
  | c :: cs => dictChildren c ++ dictChildrenAll cs

/-- `write_array_data(array_data)` for a whole column -/
def writeArray (d : ArrayData) : List (Nat × Nat) × List (List Nat) := flatten (norm d 0 d.len)

/-- reader state: remaining field nodes, buffers, dictionaries -/
abbrev RState := List (Nat × Nat) × List (List Nat) × List ArrayData

/-- `RecordBatchDecoder::create_array`: rebuild an array of type `t` from the next field
nodes and buffers (`next_node` / `next_buffer`); the validity buffer is attached only when the
node's null count is positive (`null_bit_buffer((null_count > 0).then_some(..))`) -/
def readArray : DType → RState → Option (ArrayData × RState)
  | t, (nd :: ns, vb :: bs, ds) =>
    let nulls : Option Nulls := if nd.2 > 0 then some ⟨vb, 0, nd.1, nd.2⟩ else none
    match t with
    | .bool | .prim _ | .fsb _ =>
      match bs with
      | b :: bs => some (⟨t, nd.1, 0, nulls, [b], []⟩, (ns, bs, ds))
      | _ => none
    | .utf8 _ | .binary _ =>
      match bs with
      | o :: b :: bs => some (⟨t, nd.1, 0, nulls, [o, b], []⟩, (ns, bs, ds))
      | _ => none
    | .list _ item _ =>
      match bs with
      | o :: bs =>
        match readArray item (ns, bs, ds) with
        | some (c, st) => some (⟨t, nd.1, 0, nulls, [o], [c]⟩, st)
        | none => none
      | _ => none
    | .fsl _ item _ =>
      match readArray item (ns, bs, ds) with
      | some (c, st) => some (⟨t, nd.1, 0, nulls, [], [c]⟩, st)
      | none => none
    | .struct fs =>
      match readFields fs (ns, bs, ds) with
      | some (cs, st) => some (⟨t, nd.1, 0, nulls, [], cs⟩, st)
      | none => none
    | .dict _ _ _ =>
      match bs, ds with
      | k :: bs, dv :: ds => some (⟨t, nd.1, 0, nulls, [k], [dv]⟩, (ns, bs, ds))
      | _, _ => none
    | _ => none
  | _, _ => none
where readFields : Fields → RState → Option (List ArrayData × RState)
  | .nil, st => some ([], st)
  | .cons _ t _ r, st =>
    match readArray t st with
    | none => none
    | some (c, st) =>
      match readFields r st with
      | none => none
      | some (cs, st) => some (c :: cs, st)

/-- write a column and read it back -/
def roundTrip (d : ArrayData) : Option ArrayData :=
  let w := writeArray d
  match readArray d.type (w.1, w.2, dictChildren d) with
  | some (d', ([], [], [])) => some d'
  | _ => none

end ArrowModel.C04
