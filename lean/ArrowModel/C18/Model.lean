import ArrowModel.C18.Spec
import ArrowModel.Generated.C18
/-
C18 — models of the Rust code as written.

(a) IPC stream framing: `IpcMessageSinkExt::{write_continuation, write_encoded_data, write_eos}`
    and `MetadataLayout::new` (arrow-ipc/src/writer.rs) on the write side,
    `MessageReader::{read_meta_len, maybe_next}` (arrow-ipc/src/reader.rs) on the read side.
(b) trailer checks: `ParquetMetaDataReader::parse_metadata` + `FooterTail::try_new`
    (parquet/src/file/metadata/{reader,footer_tail}.rs) and `FileReaderBuilder::build` +
    `read_footer_length` (arrow-ipc/src/reader.rs).
(c) sink faults: `std::io::Write::write_all` over a sink whose individual `write`/`flush`
    calls can fail, be short or be interrupted, and `?` propagation through a writer that is a
    list of such calls.
(d) line-delimited JSON record framing: `TapeDecoder` as a byte automaton, `Decoder::flush`.
-/
namespace ArrowModel.C18
open ArrowModel.Generated.C18

/-! ## (a) IPC stream -/

/-- `CONTINUATION_MARKER` (arrow-ipc/src/lib.rs) -/
def contMarker : Bytes := List.replicate CONTINUATION_LEN CONTINUATION_BYTE

/-- `IpcWriteOptions`: legacy framing (no continuation marker) and alignment -/
structure Opts where
  legacy : Bool
  align : Nat

/-- `MetadataLayout::new`: `prefix_size` -/
def prefixSize (o : Opts) : Nat := if o.legacy then PREFIX_LEGACY else PREFIX_MARKER

/-- `MetadataLayout::new`: `padded_metadata_len` for a flatbuffer of `n` bytes
(`(n + prefix + mask) & !mask` is rounding up to a multiple of the power-of-two alignment) -/
def paddedMetaLen (o : Opts) (n : Nat) : Nat :=
  (n + prefixSize o + (o.align - 1)) / o.align * o.align - prefixSize o

/-- `MetadataLayout::new`: `metadata_padding` -/
def metaPadding (o : Opts) (n : Nat) : Nat := paddedMetaLen o n - n

/-- a message as handed to the sink: the flatbuffer `Message` and the body (`arrow_data`,
already padded buffer by buffer; its length is the flatbuffer's `bodyLength`) -/
structure Msg where
  md : Bytes
  body : Bytes
  deriving Repr, DecidableEq

/-- the metadata bytes on the wire: flatbuffer + `PADDING[..metadata_padding]` -/
def wireMeta (o : Opts) (m : Msg) : Bytes :=
  m.md ++ List.replicate (metaPadding o m.md.length) PADDING_BYTE

/-- what a reader hands back for a message: (padded metadata, body) -/
def wire (o : Opts) (m : Msg) : Bytes × Bytes := (wireMeta o m, m.body)

/-- `write_continuation(write_options, metadata_len)` -/
def lenPrefix (o : Opts) (n : Nat) : Bytes :=
  (if o.legacy then [] else contMarker) ++ le32 n

/-- `write_encoded_data` / `write_record_batch`: prefix, metadata, padding, body -/
def encodeMsg (o : Opts) (m : Msg) : Bytes :=
  lenPrefix o (wireMeta o m).length ++ (wireMeta o m ++ m.body)

/-- `write_eos` -/
def eosBytes (o : Opts) : Bytes := lenPrefix o 0

/-- the stream a `StreamWriter` produces for `msgs`; `eos` = `finish` was reached -/
def encodeStream (o : Opts) : List Msg → Bool → Bytes
  | [], eos => if eos then eosBytes o else []
  | m :: ms, eos => encodeMsg o m ++ encodeStream o ms eos

/-- bytes a frame occupies -/
def frameLen (o : Opts) (m : Msg) : Nat := prefixSize o + (wireMeta o m).length + m.body.length

/-- `Read::read_exact(n)` on the remaining input: `none` = `UnexpectedEof` -/
def readExact (n : Nat) (bs : Bytes) : Option (Bytes × Bytes) :=
  if n ≤ bs.length then some (bs.take n, bs.drop n) else none

/-- result of one `MessageReader::maybe_next` -/
inductive Next where
  | msg (md body rest : Bytes)
  | eos
  | err
  deriving Repr, DecidableEq

/-- `MessageReader::maybe_next` (with `read_meta_len` inlined), parametrised by
`bodyLenOf` = `root_as_message(meta)` + `usize::try_from(message.bodyLength())`
(`none` = either fails).

* the first length word is read byte-wise: nothing there → `Ok(None)`; 1–3 bytes → `UnexpectedEof` error
* the word is the continuation marker → second `read_exact(4)?` (EOF here is an error)
* length 0 → `Ok(None)`; negative `i32` → error
* `take(meta_len).read_to_end` short → error; body `read_exact` short → error -/
def next (bodyLenOf : Bytes → Option Nat) (bs : Bytes) : Next :=
  if bs.length = 0 then .eos else
  match readExact META_LEN_BYTES bs with
  | none => .err
  | some (w, r1) =>
    match (if w = contMarker then readExact META_LEN_BYTES r1 else some (w, r1)) with
    | none => .err
    | some (w2, r2) =>
      let v := le32val w2
      if v = 0 then .eos
      else if 2 ^ 31 ≤ v then .err
      else if r2.length < v then .err
      else
        match bodyLenOf (r2.take v) with
        | none => .err
        | some bl =>
          if (r2.drop v).length < bl then .err
          else .msg (r2.take v) ((r2.drop v).take bl) ((r2.drop v).drop bl)

theorem next_rest_lt {f : Bytes → Option Nat} {bs md body rest : Bytes}
    (h : next f bs = .msg md body rest) : rest.length < bs.length := by
  unfold next at h
  have hm : META_LEN_BYTES = 4 := rfl
  rw [hm] at h
  unfold readExact at h
  split at h
  · cases h
  · split at h
    · cases h
    · rename_i w r1 h1
      split at h
      · cases h
      · rename_i w2 r2 h2
        have hbs : 4 ≤ bs.length := by
          by_cases hh : 4 ≤ bs.length
          · exact hh
          · simp [hh] at h1
        have hr1 : r1.length = bs.length - 4 := by
          simp [hbs] at h1
          rw [← h1.2]; simp
        have hr2 : r2.length ≤ r1.length := by
          split at h2
          · split at h2
            · simp at h2; rw [← h2.2]; simp
            · cases h2
          · simp at h2; rw [h2.2]; exact Nat.le_refl _
        simp only [] at h
        split at h
        · cases h
        · split at h
          · cases h
          · split at h
            · cases h
            · split at h
              · cases h
              · split at h
                · cases h
                · simp at h
                  rw [← h.2.2]
                  simp
                  omega

/-- `StreamReader`'s loop over `maybe_next`: all messages up to the first `Ok(None)`/`Err` -/
def parseAll (bodyLenOf : Bytes → Option Nat) (bs : Bytes) : List (Bytes × Bytes) × End :=
  match h : next bodyLenOf bs with
  | .msg md body rest =>
    let r := parseAll bodyLenOf rest
    ((md, body) :: r.1, r.2)
  | .eos => ([], .eos)
  | .err => ([], .err)
termination_by bs.length
decreasing_by exact next_rest_lt h

/-- well-formed written message: non-empty metadata whose padded length fits an `i32`, and
the flatbuffer's `bodyLength` is the length of the body that follows -/
def WFMsg (o : Opts) (bodyLenOf : Bytes → Option Nat) (m : Msg) : Prop :=
  0 < (wireMeta o m).length ∧ (wireMeta o m).length < 2 ^ 31 ∧
  bodyLenOf (wireMeta o m) = some m.body.length

/-! ### push decoder (`StreamDecoder`) -/

/-- result of driving `StreamDecoder::decode` from a fresh `Header` state over the remaining
input until a message completes or the input runs out -/
inductive PNext where
  | msg (md body rest : Bytes)
  | clean      -- nothing read: `Header { read: 0, continuation: false }` (`finish` → Ok)
  | done       -- end-of-stream marker read, nothing after it (`finish` → Ok)
  | short      -- input exhausted inside a message (`finish` → "Unexpected End of Stream")
  | err        -- `decode` returned an error
  deriving Repr, DecidableEq

/-- `StreamDecoder::decode` (arrow-ipc/src/reader/stream.rs) on one buffer holding `bs`, from
the `Header` state to the completion of one message:
* `Header`: 4 bytes; the first word may be the continuation marker (then 4 more); size 0 →
  `Finished` (any further byte → "Unexpected EOS" error); the size is a `u32` (no sign check)
* `Message { size }`: `size` bytes, then `MessageBuffer::try_new` (abstract: `bodyLenOf`)
* `Body`: processed while the buffer is non-empty or the pending body is empty
  (`while !buffer.is_empty() || self.has_pending_empty_body()`), so a message is complete
  exactly when its last byte has arrived. -/
def pushNext (bodyLenOf : Bytes → Option Nat) (bs : Bytes) : PNext :=
  if bs.length = 0 then .clean
  else
    match readExact META_LEN_BYTES bs with
    | none => .short
    | some (w, r1) =>
      match (if w = contMarker then readExact META_LEN_BYTES r1 else some (w, r1)) with
      | none => .short
      | some (w2, r2) =>
        let v := le32val w2
        if v = 0 then (if r2.length = 0 then .done else .err)
        else if r2.length < v then .short
        else
          match bodyLenOf (r2.take v) with
          | none => .err
          | some bl =>
            if (r2.drop v).length < bl then .short
            else .msg (r2.take v) ((r2.drop v).take bl) ((r2.drop v).drop bl)

theorem pushNext_rest_lt {f : Bytes → Option Nat} {bs md body rest : Bytes}
    (h : pushNext f bs = .msg md body rest) : rest.length < bs.length := by
  unfold pushNext at h
  have hm : META_LEN_BYTES = 4 := rfl
  rw [hm] at h
  unfold readExact at h
  split at h
  · cases h
  · split at h
    · cases h
    · rename_i w r1 h1
      split at h
      · cases h
      · rename_i w2 r2 h2
        have hbs : 4 ≤ bs.length := by
          by_cases hh : 4 ≤ bs.length
          · exact hh
          · simp [hh] at h1
        have hr1 : r1.length = bs.length - 4 := by
          simp [hbs] at h1
          rw [← h1.2]; simp
        have hr2 : r2.length ≤ r1.length := by
          split at h2
          · split at h2
            · simp at h2; rw [← h2.2]; simp
            · cases h2
          · simp at h2; rw [h2.2]; exact Nat.le_refl _
        simp only [] at h
        split at h
        · split at h <;> cases h
        · split at h
          · cases h
          · split at h
            · cases h
            · split at h
              · cases h
              · simp at h
                rw [← h.2.2]
                simp
                omega

/-- feed the whole input, collect the messages, then `finish` -/
def pushAll (bodyLenOf : Bytes → Option Nat) (bs : Bytes) : List (Bytes × Bytes) × End :=
  match h : pushNext bodyLenOf bs with
  | .msg md body rest =>
    let r := pushAll bodyLenOf rest
    ((md, body) :: r.1, r.2)
  | .clean => ([], .eos)
  | .done => ([], .eos)
  | .short => ([], .err)
  | .err => ([], .err)
termination_by bs.length
decreasing_by exact pushNext_rest_lt h



/-! ## (b) trailers -/

/-- a footer format: accepted magics, their common length, and whether the 4-byte length
is read as `i32` (IPC file: `read_footer_length`) or `u32` (Parquet: `FooterTail::try_new`) -/
structure TrailerFmt where
  magics : List Bytes
  magicLen : Nat
  signed : Bool

def TrailerFmt.size (f : TrailerFmt) : Nat := 4 + f.magicLen

inductive Verdict where
  | reject
  | maybeAccept (metaLen : Nat)
  deriving DecidableEq, Repr

/-- the part of the check that looks at the last `size` bytes (`FooterTail::try_new` /
`read_footer_length`) and then compares the announced length with the file size
(`footer_metadata_len > file_size → NeedMoreData` / `seek(End(-10 - footer_len))` failing) -/
def trailerCheckTail (f : TrailerFmt) (fileLen : Nat) (tail : Bytes) : Verdict :=
  let magic := tail.drop 4
  if !f.magics.contains magic then .reject
  else
    let len := le32val (tail.take 4)
    if f.signed && decide (2 ^ 31 ≤ len) then .reject
    else if f.size + len > fileLen then .reject
    else .maybeAccept len

/-- the whole check: file too short for a trailer (`file_size < FOOTER_SIZE` /
`seek(End(-10))` before the start) → reject; else read the tail and check it -/
def trailerCheck (f : TrailerFmt) (file : Bytes) : Verdict :=
  if file.length < f.size then .reject
  else trailerCheckTail f file.length (file.drop (file.length - f.size))

/-- `PARQUET_MAGIC` = `PAR1`, `PARQUET_MAGIC_ENCR_FOOTER` = `PARE` -/
def parquetMagic : Bytes := [0x50, 0x41, 0x52, 0x30 + PARQUET_MAGIC_DIGIT]
def parquetMagicEncr : Bytes := [0x50, 0x41, 0x52, 0x45]
def parquetFmt : TrailerFmt := ⟨[parquetMagicEncr, parquetMagic], PARQUET_MAGIC_LEN, false⟩

/-- `ARROW_MAGIC` = `ARROW1` -/
def arrowMagic : Bytes := [0x41, 0x52, 0x52, 0x4f, 0x57, 0x30 + ARROW_MAGIC_DIGIT]
def ipcFmt : TrailerFmt := ⟨[arrowMagic], ARROW_MAGIC_LEN, true⟩

/-- a file as the writers produce it: leading magic, payload, metadata, length, magic -/
def mkFile (magic0 payload md magic : Bytes) : Bytes :=
  magic0 ++ payload ++ md ++ le32 md.length ++ magic

/-! ## (c) sink faults -/

/-- response of the sink to one raw `write`/`flush` call -/
inductive Resp where
  | ok                 -- accepts everything offered
  | short (n : Nat)    -- `write` returns `Ok(min n len)` (`Ok(0)` makes `write_all` fail with `WriteZero`)
  | interrupted        -- `Err(ErrorKind::Interrupted)`
  | fail               -- any other `Err`
  deriving Repr, DecidableEq

/-- `Write::write_all(buf)` against a sink that answers its raw calls with `sched` (then `ok`
forever): `while !buf.is_empty() { match write(buf) { Ok(0) → Err(WriteZero), Ok(n) → buf =
&buf[n..], Err(Interrupted) → retry, Err(e) → return Err(e) } }`.
Returns the unused schedule, the bytes the sink holds, and whether it returned `Ok`. -/
def writeAll : List Resp → Bytes → Bytes → List Resp × Bytes × Bool
  | sched, acc, [] => (sched, acc, true)
  | [], acc, buf => ([], acc ++ buf, true)
  | .ok :: s, acc, buf => (s, acc ++ buf, true)
  | .short n :: s, acc, b :: buf =>
    if n = 0 then (s, acc, false) else writeAll s (acc ++ (b :: buf).take n) ((b :: buf).drop n)
  | .interrupted :: s, acc, b :: buf => writeAll s acc (b :: buf)
  | .fail :: s, acc, _ :: _ => (s, acc, false)

/-- `Write::flush()`: one raw call; anything but success is returned as an error
(`Interrupted` is not retried by callers of `flush`) -/
def flushCall : List Resp → List Resp × Bool
  | [] => ([], true)
  | .ok :: s => (s, true)
  | .short _ :: s => (s, true)
  | .interrupted :: s => (s, false)
  | .fail :: s => (s, false)

/-- a writer: run its calls in order, stop at the first error (`?`).  Returns the bytes the
sink holds and whether the writer reported success. -/
def runWriter : List Resp → Bytes → List Call → Bytes × Bool
  | _, acc, [] => (acc, true)
  | sched, acc, .write bs :: cs =>
    match writeAll sched acc bs with
    | (s', acc', true) => runWriter s' acc' cs
    | (_, acc', false) => (acc', false)
  | sched, acc, .flush :: cs =>
    match flushCall sched with
    | (s', true) => runWriter s' acc cs
    | (_, false) => (acc, false)

/-! ### a writer that tracks an incomplete state -/

/-- `runWriter` that also returns the unused part of the schedule -/
def runCalls : List Resp → Bytes → List Call → List Resp × Bytes × Bool
  | s, acc, [] => (s, acc, true)
  | sched, acc, .write bs :: cs =>
    match writeAll sched acc bs with
    | (s', acc', true) => runCalls s' acc' cs
    | (s', acc', false) => (s', acc', false)
  | sched, acc, .flush :: cs =>
    match flushCall sched with
    | (s', true) => runCalls s' acc cs
    | (s', false) => (s', acc, false)

/-- a writer that tracks an incomplete state (Parquet `SerializedFileWriter`: a row group whose
`on_close` did not complete leaves `row_group_index ≠ row_groups.len()`, and
`assert_previous_writer_closed` then refuses `next_row_group`/`finish`/`close`/`into_inner`) -/
structure WState where
  sched : List Resp
  acc : Bytes
  poisoned : Bool

/-- one API call (`write`, `flush`, `finish`, …) = a list of sink calls; it is refused without
touching the sink once an earlier call failed, and a failure poisons the writer -/
def apiCall (st : WState) (cs : List Call) : WState × Bool :=
  if st.poisoned then (st, false)
  else
    match runCalls st.sched st.acc cs with
    | (s', acc', ok) => (⟨s', acc', !ok⟩, ok)

/-- a session: API calls in order (the caller may keep calling after an error) -/
def apiSeq : WState → List (List Call) → WState × List Bool
  | st, [] => (st, [])
  | st, c :: cs =>
    let r := apiCall st c
    let rs := apiSeq r.1 cs
    (rs.1, r.2 :: rs.2)

/-- a writer with a `failed` flag (arrow-ipc `StreamWriter`/`FileWriter`, arrow-json `Writer`,
arrow-avro `Writer`, parquet `AsyncArrowWriter`): every API call that runs records a failure in
the flag (`poisoned' = poisoned || !ok`); a *guarded* call (`check_not_failed()?` / `if
self.failed { return Err }` at its start) refuses without touching the sink.  Which calls are
guarded differs per writer (IPC/Avro: `write` and `finish`; JSON: `finish`; async Parquet:
every `do_write`, hence `flush`/`finish`/`close`), `finish` is guarded in all of them. -/
def apiCallG (guarded : Bool) (st : WState) (cs : List Call) : WState × Bool :=
  if guarded && st.poisoned then (st, false)
  else
    match runCalls st.sched st.acc cs with
    | (s', acc', ok) => (⟨s', acc', st.poisoned || !ok⟩, ok)

def apiSeqG : WState → List (Bool × List Call) → WState × List Bool
  | st, [] => (st, [])
  | st, (g, c) :: cs =>
    let r := apiCallG g st c
    let rs := apiSeqG r.1 cs
    (rs.1, r.2 :: rs.2)

/-- all bytes of a session's calls, in order -/
def sessionOutput (ops : List (List Call)) : Bytes := output ops.flatten


/-! ## (d) line-delimited records -/

/-- A record tokenizer as a byte automaton (`TapeDecoder::decode`): `idle` is the state
between records (`TapeDecoder::has_partial_row() = false`). -/
structure Tokenizer (σ : Type) where
  step : σ → Nat → σ
  idle : σ

def Tokenizer.run {σ} (t : Tokenizer σ) (s : σ) (bs : Bytes) : σ := bs.foldl t.step s

/-- number of times the automaton *returns* to `idle` (completed records) -/
def Tokenizer.completed {σ} [DecidableEq σ] (t : Tokenizer σ) : σ → Bytes → Nat
  | _, [] => 0
  | s, b :: bs =>
    let s' := t.step s b
    (if s ≠ t.idle ∧ s' = t.idle then 1 else 0) + t.completed s' bs

/-- `Decoder::decode(all bytes)` then `Decoder::flush()`: number of complete rows, and
`Truncated record` error iff the tokenizer is not idle -/
def decodeRecords {σ} [DecidableEq σ] (t : Tokenizer σ) (bs : Bytes) : Nat × End :=
  (t.completed t.idle bs, if t.run t.idle bs = t.idle then .eos else .err)

/-- a record is *prime* for a tokenizer: starting idle, the tokenizer is busy after every
proper non-empty prefix and idle again exactly at the end (JSON: the closing brace) -/
def Prime (t : Tokenizer σ) (r : Bytes) : Prop :=
  2 ≤ r.length ∧ t.run t.idle r = t.idle ∧
  ∀ j, 0 < j → j < r.length → t.run t.idle (r.take j) ≠ t.idle

/-- the delimiter written between records (`\n`) -/
def newline : Nat := 10

def encodeRecords : List Bytes → Bytes
  | [] => []
  | r :: rs => r ++ newline :: encodeRecords rs

/-- a concrete tokenizer for JSON objects: nesting depth and string/escape state;
whitespace outside a record keeps it idle.  State: (depth, inString, escaped). -/
def jsonTok : Tokenizer (Nat × Bool × Bool) where
  idle := (0, false, false)
  step := fun (d, inStr, esc) b =>
    if inStr then
      if esc then (d, true, false)
      else if b = 92 then (d, true, true)
      else if b = 34 then (d, false, false)
      else (d, true, false)
    else if b = 34 then (d, true, false)
    else if b = 123 ∨ b = 91 then (d + 1, false, false)
    else if b = 125 ∨ b = 93 then (d - 1, false, false)
    else (d, false, false)

end ArrowModel.C18
