/-
C18 — specification: what "a truncated stream decodes to a prefix", "a truncated footer
file is rejected unless the prefix ends in a trailer", and "the sink holds a prefix of the
fault-free output" mean.  Import-free; bytes are `List Nat`.
-/
namespace ArrowModel.C18

abbrev Bytes := List Nat

/-- every element is a byte -/
def IsBytes (bs : Bytes) : Prop := ∀ b ∈ bs, b < 256

/-- how the decoded sequence ended: `eos` = the reader reported end of data (`Ok(None)`),
`err` = the reader reported an error -/
inductive End where
  | eos
  | err
  deriving DecidableEq, Repr

def End.show : End → String
  | .eos => "eos"
  | .err => "err"

/-! ### (a) self-delimiting stream: the frame-size level specification -/

/-- What decoding the first `k` bytes of a stream made of frames of sizes `frames`
(followed by an end-of-stream marker of `eosLen` bytes, `0` = none written) must give:
the number of frames that lie completely within the first `k` bytes, and whether the
reader then reports end-of-data or an error.

The tail rule is the one `MessageReader::read_meta_len` implements: nothing left is end of
data (`read` returns 0 before any byte of the length word), a cut anywhere inside a frame
(first or second length word, metadata, body) or inside the end-of-stream marker is an error. -/
def specDecode : List Nat → Nat → Nat → Nat × End
  | [], eosLen, k => (0, if k = 0 then .eos else if k < eosLen then .err else .eos)
  | f :: fs, eosLen, k =>
    if f ≤ k then
      let r := specDecode fs eosLen (k - f)
      (r.1 + 1, r.2)
    else (0, if k = 0 then .eos else .err)

/-- Frame-size level specification of the push decoder (`StreamDecoder::decode` + `finish`),
only a cut exactly at a frame boundary (or after a complete end-of-stream marker) is accepted by
`finish`; a frame is complete as soon as its last byte is there — also a frame with an empty
body (`has_pending_empty_body`).  `frames` are `(frame size, body length)`; the count and the
end agree with `specDecode`. -/
def specDecodePush : List (Nat × Nat) → Nat → Nat → Nat × End
  | [], eosLen, k => (0, if k = 0 then .eos else if k < eosLen then .err else .eos)
  | (f, _body) :: fs, eosLen, k =>
    if f ≤ k then
      let r := specDecodePush fs eosLen (k - f)
      (r.1 + 1, r.2)
    else (0, if k = 0 then .eos else .err)

/-- Avro object container, frame-size level, as `arrow_avro::reader::Reader::read` behaves *as
written*: a cut inside the header (magic, metadata map, 16-byte sync marker; `header` bytes) is
an error (also the empty file); after the header the rows of the blocks that lie completely
within the first `k` bytes are returned and the reader then reports end of data — a cut inside a
block is NOT an error (`fill_buf` returning nothing sets `finished` whatever the block decoder
holds); `blocks` are `(block size, rows)`. Correspondence only (no byte-level model). -/
def specAvro (header : Nat) : List (Nat × Nat) → Nat → Nat × End
  | bs, k =>
    if k < header then (0, .err) else
    let rec go : List (Nat × Nat) → Nat → Nat
      | [], _ => 0
      | (sz, rows) :: rest, r => if sz ≤ r then rows + go rest (r - sz) else 0
    (go bs (k - header), .eos)

/-! ### (b) footer formats -/

/-- little-endian 4-byte encoding -/
def le32 (n : Nat) : Bytes := [n % 256, n / 256 % 256, n / 65536 % 256, n / 16777216 % 256]

/-- **The premise of the footer theorem.**  `file` ends in a well-formed trailer: it is
`pre ++ meta ++ le32 |meta| ++ magic` for one of the format's magics, with the length
representable (`u32` for Parquet, non-negative `i32` for the IPC file format). -/
def EndsInTrailer (magics : List Bytes) (signed : Bool) (file : Bytes) : Prop :=
  ∃ pre md magic, magic ∈ magics ∧ md.length < (if signed then 2 ^ 31 else 2 ^ 32) ∧
    file = pre ++ md ++ le32 md.length ++ magic

/-- value of a 4-byte little-endian word -/
def le32val : Bytes → Nat
  | [a, b, c, d] => a % 256 + 256 * (b % 256) + 65536 * (c % 256) + 16777216 * (d % 256)
  | _ => 0

/-- Decidable form of `EndsInTrailer`, evaluated by the driver on every generated
truncation from the file length and its last `4 + magicLen` bytes `tail` only. -/
def endsInTrailerB (magics : List Bytes) (signed : Bool) (fileLen : Nat) (tail : Bytes) : Bool :=
  magics.contains (tail.drop 4) &&
  decide (le32val (tail.take 4) < (if signed then 2 ^ 31 else 2 ^ 32)) &&
  decide (le32val (tail.take 4) + tail.length ≤ fileLen)

/-! ### (c) sink -/

/-- a writer is a deterministic list of calls on its sink -/
inductive Call where
  | write (bs : Bytes)
  | flush
  deriving Repr

/-- the fault-free output: the concatenation of everything passed to `write_all` -/
def output : List Call → Bytes
  | [] => []
  | .write bs :: cs => bs ++ output cs
  | .flush :: cs => output cs

/-! ### (d) line-delimited records -/

/-- number of records (given by their lengths, each followed by a 1-byte delimiter) that lie
completely within the first `k` bytes, and whether the cut is inside a record -/
def specRecords : List Nat → Nat → Nat × End
  | [], _ => (0, .eos)
  | r :: rs, k =>
    if r ≤ k then
      let x := specRecords rs (k - r - 1)
      (x.1 + 1, x.2)
    else (0, if k = 0 then .eos else .err)

end ArrowModel.C18
