import ArrowModel.Common.Proto
import ArrowModel.C18.Spec
import ArrowModel.C18.Model
/-
C18 driver: one case per line → one canonical answer per line.

  ipcs <reader> <spec> <legacy> <eos> <msgs> <k>      → batches=<n> end=eos|err
      msgs = `kind:metaLen:bodyLen,…` (kind s = schema, d = dictionary, r = record batch) of the
      real stream; the model rebuilds a stream with these frame sizes, cuts it at `k`, runs
      `parseAll` (reader `sr`/`srb`) and compares with `specDecode`; reader `sd` (push
      decoder) is answered from `specDecodePush`.
  ipcf <spec> <len> <k> <tail>   /  pqf <reader> <spec> <len> <k> <tail>   → reject | SKIP
      tail = last min(k, trailer size) bytes of the prefix; `reject` when the model's trailer
      check rejects, `SKIP` when the prefix ends in a well-formed trailer (the theorem's premise
      fails; counted, never compared).
  sink <calls> <sched>                                 → <accepted hex> ok|err
  wfault <writer> <spec> <sched> <trace>               → accepted=<n> res=ok|err
  rfault <reader> <spec> <mode> <k> <n>                → res=err | res=ok batches=<n> | SKIP
  jsont <spec> <batch> <k> <hex>                       → rows=<n> end=eos|err
  avrot <spec> <header> <size:rows,…> <k>              → rows=<n> end=eos|err   (specAvro; avrorf/avrowf = rfault/wfault)
  pqasync <spec> <E|T> <k> <n>                         → res=err | SKIP
-/
namespace ArrowModel.C18
open ArrowModel.Proto

def check (model spec : String) : String :=
  if model = spec then model else s!"MODEL-SPEC-MISMATCH model={model} spec={spec}"

def le64 (n : Nat) : Bytes := (List.range 8).map (fun i => n / 256 ^ i % 256)
def le64val (bs : Bytes) : Nat := bytesToNat (bs.take 8)

/-- the driver's instance of `bodyLenOf`: the first 8 metadata bytes hold the body length -/
def drvBodyLen (md : Bytes) : Option Nat := if md.length < 8 then none else some (le64val md)

structure MsgDesc where
  kind : String
  metaLen : Nat
  bodyLen : Nat

def parseMsg (s : String) : Option MsgDesc :=
  match s.splitOn ":" with
  | [k, m, b] => do
    let m ← m.toNat?
    let b ← b.toNat?
    pure ⟨k, m, b⟩
  | _ => none

def mkMsg (d : MsgDesc) : Msg :=
  ⟨le64 d.bodyLen ++ List.replicate (d.metaLen - 8) 0, List.replicate d.bodyLen 170⟩

def countR (ds : List MsgDesc) : Nat := (ds.filter (fun d => d.kind = "r")).length

def handleIpcs (reader : String) (legacy eos : Bool) (ds : List MsgDesc) (k : Nat) : String :=
  if ds.any (fun d => d.metaLen < 8 ∨ d.metaLen ≥ 2 ^ 31) then "SKIP" else
  -- alignment 1: the metadata lengths given are already the padded ones
  let o : Opts := ⟨legacy, 1⟩
  let msgs := ds.map mkMsg
  let eosLen := if eos then prefixSize o else 0
  if reader = "sd" then
    let sp := specDecodePush (msgs.map (fun m => (frameLen o m, m.body.length))) eosLen k
    let (ms, e) := pushAll drvBodyLen ((encodeStream o msgs eos).take k)
    if ms != (msgs.take ms.length).map (wire o) then
      "MODEL-SPEC-MISMATCH decoded messages are not the written ones" else
    check s!"batches={countR (ds.take ms.length)} end={e.show}" s!"batches={countR (ds.take sp.1)} end={sp.2.show}"
  else
    let bytes := (encodeStream o msgs eos).take k
    let (ms, e) := parseAll drvBodyLen bytes
    let sp := specDecode (msgs.map (frameLen o)) eosLen k
    let okContent := ms == (msgs.take ms.length).map (wire o)
    let ans (n : Nat) (e : End) : String :=
      -- `StreamReader::try_new` needs the schema message: none → "empty stream" error
      if n = 0 then "batches=0 end=err" else s!"batches={countR (ds.take n)} end={e.show}"
    if !okContent then "MODEL-SPEC-MISMATCH decoded messages are not the written ones" else
    check (ans ms.length e) (ans sp.1 sp.2)

def handleTrailer (f : TrailerFmt) (k : Nat) (tail : Bytes) : String :=
  if tail.length ≠ min k f.size then "bad-case" else
  let file := List.replicate (k - tail.length) 0 ++ tail
  let model := match trailerCheck f file with
    | .reject => "reject"
    | .maybeAccept _ => "SKIP"
  let spec := if f.size ≤ k ∧ endsInTrailerB f.magics f.signed k tail then "SKIP" else "reject"
  check model spec

def parseCall (s : String) : Option Call :=
  if s = "f" then some .flush
  else if s.startsWith "w" then (parseHex (s.drop 1).toString).map .write
  else none

/-- schedule items: `o`, `s<n>`, `i`, `f`, `t`, `z` (= `s0`), and `o*<count>` -/
def parseResp (s : String) : Option (List Resp) :=
  if s = "o" then some [.ok]
  else if s = "i" then some [.interrupted]
  else if s = "f" ∨ s = "t" then some [.fail]   -- `t`: transient (the sink recovers afterwards)
  else if s = "z" then some [.short 0]
  else if s.startsWith "o*" then (s.drop 2).toString.toNat?.map (fun n => List.replicate n .ok)
  else if s.startsWith "s" then (s.drop 1).toString.toNat?.map (fun n => [.short n])
  else none

def parseSched (s : String) : Option (List Resp) :=
  if s = "-" then some [] else (s.splitOn ",").mapM parseResp |>.map List.flatten

/-- trace items: `w<size>` / `f` -/
def parseTrace (s : String) : Option (List Call) :=
  if s = "-" then some [] else
  (s.splitOn ",").mapM (fun t =>
    if t = "f" then some Call.flush
    else if t.startsWith "w" then (t.drop 1).toString.toNat?.map (fun n => Call.write (List.replicate n 0))
    else none)

def showOk (b : Bool) : String := if b then "ok" else "err"

def handle (toks0 : List String) : String :=
  -- the Parquet binary uses its own op names (replay lines are routed by op)
  let toks := match toks0 with
    | "pqwfault" :: r => "wfault" :: r
    | "pqrfault" :: r => "rfault" :: r
    | "avrowf" :: r => "wfault" :: "ocf" :: r
    | "avrorf" :: r => "rfault" :: "ocf" :: r
    | t => t
  match toks with
  | ["ipcs", reader, _spec, legacy, eos, msgs, k] =>
    match parseList parseMsg msgs, k.toNat? with
    | some ds, some k => handleIpcs reader (legacy = "1") (eos = "1") ds k
    | _, _ => "bad-op"
  | ["ipcf", _spec, _len, k, tail] =>
    match k.toNat?, parseHex tail with
    | some k, some t => handleTrailer ipcFmt k t
    | _, _ => "bad-op"
  | ["pqf", _reader, _spec, _len, k, tail] =>
    match k.toNat?, parseHex tail with
    | some k, some t => handleTrailer parquetFmt k t
    | _, _ => "bad-op"
  | ["sink", calls, sched] =>
    match (if calls = "-" then some [] else (calls.splitOn ";").mapM parseCall), parseSched sched with
    | some cs, some s =>
      let r := runWriter s [] cs
      -- specification: the sink holds a prefix of the fault-free output, all of it when ok
      let out := output cs
      if !(r.1.isPrefixOf out) || (r.2 && r.1 != out) then
        s!"MODEL-SPEC-MISMATCH sink={toHex r.1} output={toHex out} ok={r.2}"
      else s!"{toHex r.1} {showOk r.2}"
    | _, _ => "bad-op"
  | ["wfault", _writer, _spec, sched, trace] =>
    match parseSched sched, parseTrace trace with
    | some s, some cs =>
      let r := runWriter s [] cs
      s!"accepted={r.1.length} res={showOk r.2}"
    | _, _ => "bad-op"
  | ["rfault", _reader, _spec, mode, _k, n] =>
    -- the property itself: a failing call must surface as an error; a short read must not
    -- change the result; `Interrupted` may be retried or reported (not predicted)
    if mode = "E" then "res=err"
    else if mode = "S" ∨ mode = "A" then s!"res=ok batches={n}"
    else if mode = "I" then "SKIP"
    else "bad-op"
  | ["avrot", _spec, hdr, blocks, k] =>
    let pb (s : String) : Option (Nat × Nat) :=
      match s.splitOn ":" with
      | [a, b] => do pure ((← a.toNat?), (← b.toNat?))
      | _ => none
    match hdr.toNat?, parseList pb blocks, k.toNat? with
    | some h, some bs, some k =>
      let r := specAvro h bs k
      s!"rows={r.1} end={r.2.show}"
    | _, _, _ => "bad-op"
  | ["pqasync", _spec, mode, _k, _n] =>
    -- a failing fetch must surface as an error; an abandoned (never completing) fetch is
    -- cancellation, outside the property's fault list: recorded, not predicted
    if mode = "E" then "res=err" else if mode = "T" then "SKIP" else "bad-op"
  | ["jsont", _spec, batch, k, hex] =>
    match batch.toNat?, k.toNat?, parseHex hex with
    | some b, some k, some bytes =>
      let (c, e) := decodeRecords jsonTok (bytes.take k)
      let rows := if e = .err ∧ b > 0 then c / b * b else c
      s!"rows={rows} end={e.show}"
    | _, _, _ => "bad-op"
  | _ => "bad-op"

end ArrowModel.C18
