import ArrowModel.C18.Model
/-
C18 — helper lemmas: (a) one step of `MessageReader::maybe_next` on a truncated stream,
(b) the trailer check vs the existential "ends in a trailer", (c) `write_all` / writer runs
leave a prefix of the fault-free output in the sink.
-/
namespace ArrowModel.C18
open ArrowModel.Generated.C18

/-! ## (a) stream framing -/

theorem le32_length (n : Nat) : (le32 n).length = 4 := rfl

theorem le32val_le32 {n : Nat} (h : n < 2 ^ 32) : le32val (le32 n) = n := by
  simp only [le32, le32val]
  omega

theorem contMarker_eq : contMarker = [255, 255, 255, 255] := by decide

theorem le32_ne_contMarker {n : Nat} (h : n < 2 ^ 31) : le32 n ≠ contMarker := by
  rw [contMarker_eq]
  simp only [le32]
  intro hh
  simp at hh
  omega

/-- the rest of `next` once the length word `n` has been read and `T` is what remains -/
def nextBody (f : Bytes → Option Nat) (n : Nat) (T : Bytes) : Next :=
  if T.length < n then .err
  else
    match f (T.take n) with
    | none => .err
    | some bl =>
      if (T.drop n).length < bl then .err
      else .msg (T.take n) ((T.drop n).take bl) ((T.drop n).drop bl)

theorem readExact_append {w : Bytes} {k : Nat} (hw : w.length = k) (T : Bytes) :
    readExact k (w ++ T) = some (w, T) := by
  subst hw; simp [readExact]

theorem next_lenPrefix (f : Bytes → Option Nat) (o : Opts) {n : Nat} (h0 : 0 < n) (h : n < 2 ^ 31)
    (T : Bytes) : next f (lenPrefix o n ++ T) = nextBody f n T := by
  have hm : META_LEN_BYTES = 4 := rfl
  have hv : le32val (le32 n) = n := le32val_le32 (by omega)
  have hn0 : ¬ n = 0 := by omega
  have hn1 : ¬ 2 ^ 31 ≤ n := by omega
  have e2 : readExact 4 (le32 n ++ T) = some (le32 n, T) := readExact_append (le32_length n) T
  have hne0 : ¬ (lenPrefix o n ++ T).length = 0 := by
    have h1 : (lenPrefix o n).length = (if o.legacy then 0 else contMarker.length) + 4 := by
      unfold lenPrefix; cases o.legacy <;> simp [le32_length]
    simp only [List.length_append]; omega
  unfold next
  rw [if_neg hne0]
  unfold lenPrefix nextBody
  rw [hm]
  cases o.legacy
  · have e1 : readExact 4 (contMarker ++ le32 n ++ T) = some (contMarker, le32 n ++ T) := by
      rw [List.append_assoc]; exact readExact_append (by decide) _
    simp only [Bool.false_eq_true, if_false, e1, e2, if_true, hv, hn0, hn1]
    rfl
  · have hne : ¬ le32 n = contMarker := le32_ne_contMarker h
    simp only [if_true, List.nil_append, e2, hne, if_false, hv, hn0, hn1]
    rfl

theorem next_nil {f : Bytes → Option Nat} : next f [] = .eos := by
  simp [next]

/-- EOF inside the first length word is an error -/
theorem next_short {f : Bytes → Option Nat} {bs : Bytes} (h0 : 0 < bs.length) (h : bs.length < 4) :
    next f bs = .err := by
  have hm : META_LEN_BYTES = 4 := rfl
  unfold next
  rw [if_neg (by omega), hm]
  have : readExact 4 bs = none := by simp [readExact]; omega
  simp only [this]


theorem take_append_ge {W Y : Bytes} {j : Nat} (h : W.length ≤ j) :
    (W ++ Y).take j = W ++ Y.take (j - W.length) := by
  rw [List.take_append]
  rw [List.take_of_length_le h]

theorem take_append_lt {W Y : Bytes} {j : Nat} (h : j ≤ W.length) :
    (W ++ Y).take j = W.take j := by
  rw [List.take_append]
  have : j - W.length = 0 := by omega
  simp [this]

theorem take_left' {W Y : Bytes} : (W ++ Y).take W.length = W := by simp
theorem drop_left' {W Y : Bytes} : (W ++ Y).drop W.length = Y := by simp

theorem nextBody_take (f : Bytes → Option Nat) (W B S : Bytes) (hf : f W = some B.length) (j : Nat) :
    nextBody f W.length ((W ++ (B ++ S)).take j) =
      if W.length + B.length ≤ j then .msg W B (S.take (j - W.length - B.length)) else .err := by
  unfold nextBody
  by_cases h1 : j < W.length
  · have : ((W ++ (B ++ S)).take j).length < W.length := by simp; omega
    simp only [this, if_true]
    have : ¬ W.length + B.length ≤ j := by omega
    simp only [this, if_false]
  · have hj : W.length ≤ j := by omega
    rw [take_append_ge hj]
    have hl : ¬ (W ++ (B ++ S).take (j - W.length)).length < W.length := by simp
    simp only [hl, if_false, take_left', drop_left', hf]
    by_cases h2 : j - W.length < B.length
    · have : ((B ++ S).take (j - W.length)).length < B.length := by simp; omega
      simp only [this, if_true]
      have : ¬ W.length + B.length ≤ j := by omega
      simp only [this, if_false]
    · have hj2 : B.length ≤ j - W.length := by omega
      rw [take_append_ge hj2]
      have : ¬ (B ++ S.take (j - W.length - B.length)).length < B.length := by simp
      simp only [this, if_false, take_left', drop_left']
      have : W.length + B.length ≤ j := by omega
      simp only [this, if_true]


theorem lenPrefix_length (o : Opts) (n : Nat) : (lenPrefix o n).length = prefixSize o := by
  unfold lenPrefix prefixSize
  cases o.legacy <;> simp [contMarker_eq, le32_length] <;> decide

theorem prefixSize_ge (o : Opts) : 4 ≤ prefixSize o := by
  unfold prefixSize; cases o.legacy <;> decide

theorem prefixSize_le (o : Opts) : prefixSize o ≤ 8 := by
  unfold prefixSize; cases o.legacy <;> decide

theorem prefixSize_cases (o : Opts) : (o.legacy = true ∧ prefixSize o = 4) ∨ (o.legacy = false ∧ prefixSize o = 8) := by
  unfold prefixSize; cases o.legacy <;> decide

theorem encodeMsg_length (o : Opts) (m : Msg) : (encodeMsg o m).length = frameLen o m := by
  unfold encodeMsg frameLen
  simp [lenPrefix_length]; omega

/-- EOF inside the second length word (after a continuation marker) is an error -/
theorem next_marker_short {f : Bytes → Option Nat} {T : Bytes} (h : T.length < 4) :
    next f (contMarker ++ T) = .err := by
  have hm : META_LEN_BYTES = 4 := rfl
  unfold next
  rw [if_neg (by rw [contMarker_eq]; simp), hm]
  have e1 : readExact 4 (contMarker ++ T) = some (contMarker, T) := readExact_append (by decide) _
  have e2 : readExact 4 T = none := by simp [readExact]; omega
  simp only [e1, if_true, e2]

/-- one step of the reader on a truncated stream that starts with a well-formed frame -/
theorem next_frame_take (f : Bytes → Option Nat) (o : Opts) (m : Msg) (hwf : WFMsg o f m)
    (S : Bytes) (k : Nat) :
    next f ((encodeMsg o m ++ S).take k) =
      if frameLen o m ≤ k then .msg (wireMeta o m) m.body (S.take (k - frameLen o m))
      else if k = 0 then .eos else .err := by
  obtain ⟨h0, h31, hb⟩ := hwf
  have hP := lenPrefix_length o (wireMeta o m).length
  have hP4 := prefixSize_ge o
  have hFL : frameLen o m = prefixSize o + (wireMeta o m).length + m.body.length := rfl
  have hlen : (encodeMsg o m ++ S).length = frameLen o m + S.length := by
    unfold encodeMsg; simp [hP]; omega
  by_cases hk0 : k = 0
  · subst hk0
    have : ¬ frameLen o m ≤ 0 := by omega
    simp only [this, if_false, if_true, List.take_zero, next_nil]
  · by_cases hk4 : k < 4
    · have hl : ((encodeMsg o m ++ S).take k).length = k := by
        rw [List.length_take]; exact Nat.min_eq_left (by omega)
      rw [next_short (by omega) (by omega)]
      have : ¬ frameLen o m ≤ k := by omega
      simp only [this, if_false, hk0]
    · by_cases hkP : k < prefixSize o
      · -- only possible with a continuation marker: cut inside the second word
        rcases prefixSize_cases o with ⟨hl, hp⟩ | ⟨hl, hp⟩
        · omega
        · have : ¬ frameLen o m ≤ k := by omega
          simp only [this, if_false, hk0]
          unfold encodeMsg lenPrefix
          simp only [hl, Bool.false_eq_true, if_false]
          rw [List.append_assoc, List.append_assoc]
          rw [take_append_ge (by rw [contMarker_eq]; simp; omega)]
          apply next_marker_short
          simp [contMarker_eq]; omega
      · have hk : prefixSize o ≤ k := by omega
        unfold encodeMsg
        rw [List.append_assoc, take_append_ge (by omega), hP, List.append_assoc]
        rw [next_lenPrefix f o h0 h31, nextBody_take f _ _ _ hb]
        by_cases hc : frameLen o m ≤ k
        · have : (wireMeta o m).length + m.body.length ≤ k - prefixSize o := by omega
          simp only [this, hc, if_true]
          congr 2; omega
        · have : ¬ (wireMeta o m).length + m.body.length ≤ k - prefixSize o := by omega
          simp only [this, hc, if_false, hk0]


theorem parseAll_of_eos {f : Bytes → Option Nat} {bs : Bytes} (h : next f bs = .eos) :
    parseAll f bs = ([], .eos) := by
  unfold parseAll
  split <;> simp_all

theorem parseAll_of_err {f : Bytes → Option Nat} {bs : Bytes} (h : next f bs = .err) :
    parseAll f bs = ([], .err) := by
  unfold parseAll
  split <;> simp_all

theorem parseAll_of_msg {f : Bytes → Option Nat} {bs a b r : Bytes} (h : next f bs = .msg a b r) :
    parseAll f bs = ((a, b) :: (parseAll f r).1, (parseAll f r).2) := by
  rw [parseAll]
  split <;> simp_all

theorem next_eosBytes (f : Bytes → Option Nat) (o : Opts) : next f (eosBytes o) = .eos := by
  have hm : META_LEN_BYTES = 4 := rfl
  cases h : o.legacy <;>
    simp [eosBytes, lenPrefix, h, next, readExact, contMarker_eq, le32, le32val, hm]

theorem eosBytes_length (o : Opts) : (eosBytes o).length = prefixSize o := lenPrefix_length o 0

theorem parseAll_tail (f : Bytes → Option Nat) (o : Opts) (eos : Bool) (k : Nat) :
    parseAll f ((if eos then eosBytes o else []).take k) =
      ([], if k = 0 then .eos else if k < (if eos then prefixSize o else 0) then .err else .eos) := by
  by_cases hk0 : k = 0
  · subst hk0
    simp only [List.take_zero, if_true]
    exact parseAll_of_eos next_nil
  · simp only [hk0, if_false]
    cases eos
    · simp only [Bool.false_eq_true, if_false, List.take_nil]
      have : ¬ k < 0 := by omega
      simp only [this, if_false]
      exact parseAll_of_eos next_nil
    · simp only [if_true]
      by_cases hk : k < prefixSize o
      · simp only [hk, if_true]
        apply parseAll_of_err
        by_cases hk4 : k < 4
        · have hl : ((eosBytes o).take k).length = k := by
            rw [List.length_take, eosBytes_length]; exact Nat.min_eq_left (by omega)
          exact next_short (by omega) (by omega)
        · rcases prefixSize_cases o with ⟨hl, hp⟩ | ⟨hl, hp⟩
          · omega
          · unfold eosBytes lenPrefix
            simp only [hl, Bool.false_eq_true, if_false]
            rw [take_append_ge (by rw [contMarker_eq]; simp; omega)]
            apply next_marker_short
            simp [contMarker_eq]; omega
      · simp only [hk, if_false]
        rw [List.take_of_length_le (by rw [eosBytes_length]; omega)]
        exact parseAll_of_eos (next_eosBytes f o)


/-! ### push decoder -/

/-- the rest of `pushNext` once the size word `n` has been read and `T` is what remains -/
def pushBody (f : Bytes → Option Nat) (n : Nat) (T : Bytes) : PNext :=
  if T.length < n then .short
  else
    match f (T.take n) with
    | none => .err
    | some bl =>
      if (T.drop n).length < bl then .short
      else .msg (T.take n) ((T.drop n).take bl) ((T.drop n).drop bl)

theorem pushNext_lenPrefix (f : Bytes → Option Nat) (o : Opts) {n : Nat} (h0 : 0 < n) (h : n < 2 ^ 31)
    (T : Bytes) : pushNext f (lenPrefix o n ++ T) = pushBody f n T := by
  have hm : META_LEN_BYTES = 4 := rfl
  have hv : le32val (le32 n) = n := le32val_le32 (by omega)
  have hn0 : ¬ n = 0 := by omega
  have e2 : readExact 4 (le32 n ++ T) = some (le32 n, T) := readExact_append (le32_length n) T
  have hne0 : ¬ (lenPrefix o n ++ T).length = 0 := by
    have h1 := lenPrefix_length o n
    have h2 := prefixSize_ge o
    simp only [List.length_append]; omega
  unfold pushNext
  rw [if_neg hne0]
  unfold lenPrefix pushBody
  rw [hm]
  cases o.legacy
  · have e1 : readExact 4 (contMarker ++ le32 n ++ T) = some (contMarker, le32 n ++ T) := by
      rw [List.append_assoc]; exact readExact_append (by decide) _
    simp only [Bool.false_eq_true, if_false, e1, e2, if_true, hv, hn0]
    rfl
  · have hne : ¬ le32 n = contMarker := le32_ne_contMarker h
    simp only [if_true, List.nil_append, e2, hne, if_false, hv, hn0]
    rfl

theorem pushNext_nil {f : Bytes → Option Nat} : pushNext f [] = .clean := by
  simp [pushNext]

theorem pushNext_short {f : Bytes → Option Nat} {bs : Bytes} (h0 : 0 < bs.length) (h : bs.length < 4) :
    pushNext f bs = .short := by
  have hm : META_LEN_BYTES = 4 := rfl
  unfold pushNext
  rw [if_neg (by omega), hm]
  have : readExact 4 bs = none := by simp [readExact]; omega
  simp only [this]

theorem pushNext_marker_short {f : Bytes → Option Nat} {T : Bytes} (h : T.length < 4) :
    pushNext f (contMarker ++ T) = .short := by
  have hm : META_LEN_BYTES = 4 := rfl
  unfold pushNext
  rw [if_neg (by rw [contMarker_eq]; simp), hm]
  have e1 : readExact 4 (contMarker ++ T) = some (contMarker, T) := readExact_append (by decide) _
  have e2 : readExact 4 T = none := by simp [readExact]; omega
  simp only [e1, if_true, e2]

theorem pushBody_take (f : Bytes → Option Nat) (W B S : Bytes) (hf : f W = some B.length) (j : Nat)
    (hj : j ≤ (W ++ (B ++ S)).length) :
    pushBody f W.length ((W ++ (B ++ S)).take j) =
      if W.length + B.length ≤ j
      then .msg W B (S.take (j - W.length - B.length)) else .short := by
  simp only [List.length_append] at hj
  unfold pushBody
  by_cases h1 : j < W.length
  · have : ((W ++ (B ++ S)).take j).length < W.length := by simp; omega
    simp only [this, if_true]
    have : ¬ (W.length + B.length ≤ j) := by omega
    simp only [this, if_false]
  · have hj1 : W.length ≤ j := by omega
    rw [take_append_ge hj1]
    have hl : ¬ (W ++ (B ++ S).take (j - W.length)).length < W.length := by simp
    simp only [hl, if_false, take_left', drop_left', hf]
    have hlen : ((B ++ S).take (j - W.length)).length = j - W.length := by simp; omega
    rw [hlen]
    by_cases hc : W.length + B.length ≤ j
    · simp only [hc, if_true]
      have a2 : ¬ j - W.length < B.length := by omega
      simp only [a2, if_false]
      rw [take_append_ge (by omega)]
      simp only [take_left', drop_left']
    · simp only [hc, if_false]
      have a2 : j - W.length < B.length := by omega
      simp only [a2, if_true]

/-- one step of the push decoder on a truncated stream that starts with a well-formed frame -/
theorem pushNext_frame_take (f : Bytes → Option Nat) (o : Opts) (m : Msg) (hwf : WFMsg o f m)
    (S : Bytes) (k : Nat) (hk : k ≤ (encodeMsg o m ++ S).length) :
    pushNext f ((encodeMsg o m ++ S).take k) =
      if frameLen o m ≤ k
      then .msg (wireMeta o m) m.body (S.take (k - frameLen o m))
      else if k = 0 then .clean else .short := by
  obtain ⟨h0, h31, hb⟩ := hwf
  have hP := lenPrefix_length o (wireMeta o m).length
  have hP4 := prefixSize_ge o
  have hFL : frameLen o m = prefixSize o + (wireMeta o m).length + m.body.length := rfl
  by_cases hk0 : k = 0
  · subst hk0
    have : ¬ (frameLen o m ≤ 0) := by omega
    simp only [this, if_false, if_true, List.take_zero, pushNext_nil]
  · by_cases hk4 : k < 4
    · have hl : ((encodeMsg o m ++ S).take k).length = k := by rw [List.length_take]; exact Nat.min_eq_left hk
      rw [pushNext_short (by omega) (by omega)]
      have : ¬ (frameLen o m ≤ k) := by omega
      simp only [this, if_false, hk0]
    · by_cases hkP : k < prefixSize o
      · rcases prefixSize_cases o with ⟨hl, hp⟩ | ⟨hl, hp⟩
        · omega
        · have : ¬ (frameLen o m ≤ k) := by omega
          simp only [this, if_false, hk0]
          unfold encodeMsg lenPrefix
          simp only [hl, Bool.false_eq_true, if_false]
          rw [List.append_assoc, List.append_assoc]
          rw [take_append_ge (by rw [contMarker_eq]; simp; omega)]
          apply pushNext_marker_short
          simp [contMarker_eq]; omega
      · have hkp : prefixSize o ≤ k := by omega
        have hlen : (encodeMsg o m ++ S).length = prefixSize o + ((wireMeta o m) ++ (m.body ++ S)).length := by
          unfold encodeMsg; simp [hP]
        unfold encodeMsg
        rw [List.append_assoc, take_append_ge (by omega), hP, List.append_assoc]
        rw [pushNext_lenPrefix f o h0 h31, pushBody_take f _ _ _ hb _ (by omega)]
        by_cases hc : frameLen o m ≤ k
        · have : (wireMeta o m).length + m.body.length ≤ k - prefixSize o := by omega
          simp only [this, hc, if_true]
          congr 2; omega
        · have : ¬ ((wireMeta o m).length + m.body.length ≤ k - prefixSize o) := by omega
          simp only [this, hc, if_false, hk0]

theorem pushAll_of_msg {f : Bytes → Option Nat} {bs a b r : Bytes} (h : pushNext f bs = .msg a b r) :
    pushAll f bs = ((a, b) :: (pushAll f r).1, (pushAll f r).2) := by
  rw [pushAll]
  split <;> simp_all

theorem pushAll_of_clean {f : Bytes → Option Nat} {bs : Bytes} (h : pushNext f bs = .clean) :
    pushAll f bs = ([], .eos) := by
  unfold pushAll; split <;> simp_all

theorem pushAll_of_done {f : Bytes → Option Nat} {bs : Bytes} (h : pushNext f bs = .done) :
    pushAll f bs = ([], .eos) := by
  unfold pushAll; split <;> simp_all

theorem pushAll_of_short {f : Bytes → Option Nat} {bs : Bytes} (h : pushNext f bs = .short) :
    pushAll f bs = ([], .err) := by
  unfold pushAll; split <;> simp_all

theorem pushNext_eosBytes (f : Bytes → Option Nat) (o : Opts) : pushNext f (eosBytes o) = .done := by
  have hm : META_LEN_BYTES = 4 := rfl
  cases h : o.legacy <;>
    simp [eosBytes, lenPrefix, h, pushNext, readExact, contMarker_eq, le32, le32val, hm]

theorem pushAll_tail (f : Bytes → Option Nat) (o : Opts) (eos : Bool) (k : Nat)
    (hk : k ≤ (if eos then eosBytes o else []).length) :
    pushAll f ((if eos then eosBytes o else []).take k) =
      ([], if k = 0 then .eos else if k < (if eos then prefixSize o else 0) then .err else .eos) := by
  by_cases hk0 : k = 0
  · subst hk0
    simp only [List.take_zero, if_true]
    exact pushAll_of_clean pushNext_nil
  · simp only [hk0, if_false]
    cases eos
    · simp at hk; omega
    · simp only [if_true] at hk ⊢
      rw [eosBytes_length] at hk
      by_cases hkp : k < prefixSize o
      · simp only [hkp, if_true]
        apply pushAll_of_short
        by_cases hk4 : k < 4
        · apply pushNext_short
          · simp [eosBytes_length]; omega
          · simp; omega
        · rcases prefixSize_cases o with ⟨hl, hp⟩ | ⟨hl, hp⟩
          · omega
          · unfold eosBytes lenPrefix
            simp only [hl, Bool.false_eq_true, if_false]
            rw [take_append_ge (by rw [contMarker_eq]; simp; omega)]
            apply pushNext_marker_short
            simp [contMarker_eq]; omega
      · simp only [hkp, if_false]
        rw [List.take_of_length_le (by rw [eosBytes_length]; omega)]
        exact pushAll_of_done (pushNext_eosBytes f o)


/-! ## (b) trailers -/



theorem le32val_lt (w : Bytes) : le32val w < 2 ^ 32 := by
  unfold le32val
  split
  · omega
  · omega

theorem le32_le32val {w : Bytes} (hw : w.length = 4) (hb : IsBytes w) : le32 (le32val w) = w := by
  match w, hw with
  | [a, b, c, d], _ =>
    have ha : a < 256 := hb a (by simp)
    have hb' : b < 256 := hb b (by simp)
    have hc : c < 256 := hb c (by simp)
    have hd : d < 256 := hb d (by simp)
    simp only [le32, le32val]
    congr 1
    · omega
    · congr 1
      · omega
      · congr 1
        · omega
        · congr 1; omega

theorem IsBytes.take {bs : Bytes} (h : IsBytes bs) (k : Nat) : IsBytes (bs.take k) :=
  fun b hb => h b (List.mem_of_mem_take hb)

theorem IsBytes.drop {bs : Bytes} (h : IsBytes bs) (k : Nat) : IsBytes (bs.drop k) :=
  fun b hb => h b (List.mem_of_mem_drop hb)

/-- the model's check on (length, tail) is the decidable premise `endsInTrailerB` -/
theorem trailerCheckTail_ne_reject (f : TrailerFmt) (fileLen : Nat) (tail : Bytes)
    (ht : tail.length = f.size) :
    trailerCheckTail f fileLen tail ≠ .reject ↔ endsInTrailerB f.magics f.signed fileLen tail = true := by
  unfold trailerCheckTail endsInTrailerB
  have hlt := le32val_lt (tail.take 4)
  by_cases hmem : tail.drop 4 ∈ f.magics <;> cases hs : f.signed <;> simp [ht, hmem] <;> omega


theorem endsInTrailerB_of_trailer (magics : List Bytes) (signed : Bool) (magicLen : Nat)
    (hml : ∀ g ∈ magics, g.length = magicLen) (file : Bytes)
    (h : EndsInTrailer magics signed file) :
    4 + magicLen ≤ file.length ∧
      endsInTrailerB magics signed file.length (file.drop (file.length - (4 + magicLen))) = true := by
  obtain ⟨pre, md, magic, hmem, hlen, rfl⟩ := h
  have hg := hml magic hmem
  have hl4 := le32_length md.length
  have hlt : md.length < 2 ^ 32 := by cases signed <;> simp at hlen <;> omega
  constructor
  · simp [hg, hl4]; omega
  · have hd : (pre ++ md ++ le32 md.length ++ magic).length - (4 + magicLen) = (pre ++ md).length := by
      simp [hg, hl4]; omega
    rw [hd, List.append_assoc (pre ++ md), List.drop_left]
    unfold endsInTrailerB
    have t4 : (le32 md.length ++ magic).take 4 = le32 md.length := by
      rw [← hl4]; exact List.take_left
    have d4 : (le32 md.length ++ magic).drop 4 = magic := by
      rw [← hl4]; exact List.drop_left
    rw [t4, d4, le32val_le32 hlt]
    simp [hmem, hlen, hg, hl4]

theorem trailer_of_endsInTrailerB (magics : List Bytes) (signed : Bool) (magicLen : Nat)
    (file : Bytes) (hb : IsBytes file) (hsz : 4 + magicLen ≤ file.length)
    (h : endsInTrailerB magics signed file.length (file.drop (file.length - (4 + magicLen))) = true) :
    EndsInTrailer magics signed file := by
  unfold endsInTrailerB at h
  simp only [Bool.and_eq_true, decide_eq_true_eq] at h
  obtain ⟨⟨hmem, hbound⟩, hfit⟩ := h
  have hmem' : (file.drop (file.length - (4 + magicLen))).drop 4 ∈ magics := by simpa using hmem
  generalize htail : file.drop (file.length - (4 + magicLen)) = tail at *
  have htl : tail.length = 4 + magicLen := by rw [← htail]; simp; omega
  generalize hn : le32val (tail.take 4) = n at *
  have hw : le32 n = tail.take 4 := by
    rw [← hn]
    apply le32_le32val
    · simp; omega
    · rw [← htail]; exact (hb.drop _).take _
  -- split the part before the tail into pre ++ md
  let front := file.take (file.length - (4 + magicLen))
  have hfront : front.length = file.length - (4 + magicLen) := by simp [front]
  refine ⟨front.take (front.length - n), front.drop (front.length - n), tail.drop 4, hmem', ?_, ?_⟩
  · have : (front.drop (front.length - n)).length = n := by simp; omega
    rw [this]; exact hbound
  · have hmd : (front.drop (front.length - n)).length = n := by simp; omega
    rw [hmd, hw, List.take_append_drop, List.append_assoc, List.take_append_drop, ← htail]
    simp [front]


/-! ## (c) sink -/

/-- what one `write_all` leaves in the sink: `acc` plus a prefix of `buf`, all of it iff `Ok` -/
theorem writeAll_spec (s : List Resp) (acc buf : Bytes) :
    ∃ t, (writeAll s acc buf).2.1 = acc ++ t ∧ t <+: buf ∧
      ((writeAll s acc buf).2.2 = true → t = buf) := by
  fun_induction writeAll s acc buf with
  | case1 sched acc => exact ⟨[], by simp, List.prefix_refl _, fun _ => rfl⟩
  | case2 acc buf _ => exact ⟨buf, rfl, List.prefix_refl _, fun _ => rfl⟩
  | case3 s acc buf _ => exact ⟨buf, rfl, List.prefix_refl _, fun _ => rfl⟩
  | case4 s acc b buf => exact ⟨[], by simp, List.nil_prefix, fun h => by simp at h⟩
  | case5 n s acc b buf hn ih =>
    obtain ⟨t, h1, h2, h3⟩ := ih
    refine ⟨(b :: buf).take n ++ t, ?_, ?_, ?_⟩
    · rw [h1]; simp
    · have := (List.prefix_append_right_inj ((b :: buf).take n)).mpr h2
      rwa [List.take_append_drop] at this
    · intro hok
      rw [h3 hok, List.take_append_drop]
  | case6 s acc b buf ih => exact ih
  | case7 s acc b buf => exact ⟨[], by simp, List.nil_prefix, fun h => by simp at h⟩


theorem runWriter_spec (calls : List Call) (s : List Resp) (acc : Bytes) :
    ∃ t, (runWriter s acc calls).1 = acc ++ t ∧ t <+: output calls ∧
      ((runWriter s acc calls).2 = true → t = output calls) := by
  induction calls generalizing s acc with
  | nil => exact ⟨[], by simp [runWriter], by simp [output], fun _ => by simp [output]⟩
  | cons c cs ih =>
    cases c with
    | write bs =>
      obtain ⟨t, h1, h2, h3⟩ := writeAll_spec s acc bs
      simp only [runWriter, output]
      generalize hw : writeAll s acc bs = w at *
      obtain ⟨s', acc', ok⟩ := w
      simp only at h1 h3
      cases ok with
      | true =>
        simp only
        obtain ⟨u, g1, g2, g3⟩ := ih s' acc'
        have ht : t = bs := h3 rfl
        refine ⟨bs ++ u, ?_, ?_, ?_⟩
        · rw [g1, h1, ht]; simp
        · exact (List.prefix_append_right_inj bs).mpr g2
        · intro hok; rw [g3 hok]
      | false =>
        simp only
        refine ⟨t, h1, ?_, fun h => by simp at h⟩
        exact List.IsPrefix.trans h2 (List.prefix_append _ _)
    | flush =>
      simp only [runWriter, output]
      generalize hf : flushCall s = w
      obtain ⟨s', ok⟩ := w
      cases ok with
      | true => simp only; exact ih s' acc
      | false => simp only; exact ⟨[], by simp, List.nil_prefix, fun h => by simp at h⟩

/-- no failing response: every raw call is `ok` or a non-empty short write -/
def Benign : Resp → Prop
  | .ok => True
  | .short n => 0 < n
  | _ => False

theorem writeAll_benign (s : List Resp) (acc buf : Bytes) (hs : ∀ r ∈ s, Benign r) :
    (writeAll s acc buf).2.2 = true ∧ ∀ r ∈ (writeAll s acc buf).1, Benign r := by
  fun_induction writeAll s acc buf with
  | case1 sched acc => exact ⟨rfl, hs⟩
  | case2 acc buf _ => exact ⟨rfl, hs⟩
  | case3 s acc buf _ => exact ⟨rfl, fun r hr => hs r (List.mem_cons_of_mem _ hr)⟩
  | case4 s acc b buf => exact absurd (hs (.short 0) (List.mem_cons_self ..)) (by simp [Benign])
  | case5 n s acc b buf hn ih => exact ih (fun r hr => hs r (List.mem_cons_of_mem _ hr))
  | case6 s acc b buf ih => exact absurd (hs .interrupted (List.mem_cons_self ..)) (by simp [Benign])
  | case7 s acc b buf => exact absurd (hs .fail (List.mem_cons_self ..)) (by simp [Benign])

theorem runWriter_benign (calls : List Call) (s : List Resp) (acc : Bytes) (hs : ∀ r ∈ s, Benign r) :
    (runWriter s acc calls).2 = true := by
  induction calls generalizing s acc with
  | nil => simp [runWriter]
  | cons c cs ih =>
    cases c with
    | write bs =>
      obtain ⟨h1, h2⟩ := writeAll_benign s acc bs hs
      simp only [runWriter]
      generalize hw : writeAll s acc bs = w at *
      obtain ⟨s', acc', ok⟩ := w
      simp only at h1 h2
      subst h1
      exact ih s' acc' h2
    | flush =>
      simp only [runWriter]
      match s, hs with
      | [], _ => simp only [flushCall]; exact ih [] acc (by simp)
      | .ok :: s, hs => simp only [flushCall]; exact ih s acc (fun r hr => hs r (List.mem_cons_of_mem _ hr))
      | .short n :: s, hs => simp only [flushCall]; exact ih s acc (fun r hr => hs r (List.mem_cons_of_mem _ hr))
      | .interrupted :: s, hs => exact absurd (hs .interrupted (List.mem_cons_self ..)) (by simp [Benign])
      | .fail :: s, hs => exact absurd (hs .fail (List.mem_cons_self ..)) (by simp [Benign])

/-- `Interrupted` is retried by `write_all`: it does not change what a write does -/
theorem writeAll_interrupted (s : List Resp) (acc buf : Bytes) :
    (writeAll (.interrupted :: s) acc buf).2 = (writeAll s acc buf).2 ∨ buf = [] := by
  cases buf with
  | nil => right; rfl
  | cons b buf => left; simp [writeAll]


/-! ### sessions of a state-tracking writer -/

theorem runCalls_eq (s : List Resp) (acc : Bytes) (cs : List Call) :
    ((runCalls s acc cs).2.1, (runCalls s acc cs).2.2) = runWriter s acc cs := by
  induction cs generalizing s acc with
  | nil => rfl
  | cons c cs ih =>
    cases c with
    | write bs =>
      simp only [runCalls, runWriter]
      generalize writeAll s acc bs = w
      obtain ⟨s', acc', ok⟩ := w
      cases ok
      · rfl
      · exact ih s' acc'
    | flush =>
      simp only [runCalls, runWriter]
      generalize flushCall s = w
      obtain ⟨s', ok⟩ := w
      cases ok
      · rfl
      · exact ih s' acc

theorem apiCall_poisoned (st : WState) (cs : List Call) (h : st.poisoned = true) :
    (apiCall st cs).1.poisoned = true ∧ (apiCall st cs).2 = false := by
  simp [apiCall, h]

theorem apiCall_false (st : WState) (cs : List Call) (h : (apiCall st cs).2 = false) :
    (apiCall st cs).1.poisoned = true := by
  unfold apiCall at h ⊢
  by_cases hp : st.poisoned = true
  · simp [hp]
  · simp only [hp] at h ⊢
    generalize runCalls st.sched st.acc cs = w at h ⊢
    obtain ⟨s', acc', ok⟩ := w
    simp at h ⊢
    exact h

theorem apiSeq_poisoned (st : WState) (ops : List (List Call)) (h : st.poisoned = true) :
    ∀ b ∈ (apiSeq st ops).2, b = false := by
  induction ops generalizing st with
  | nil => simp [apiSeq]
  | cons c cs ih =>
    obtain ⟨h1, h2⟩ := apiCall_poisoned st c h
    intro b hb
    simp only [apiSeq, List.mem_cons] at hb
    rcases hb with rfl | hb
    · exact h2
    · exact ih _ h1 b hb

theorem apiSeq_false_poisons (st : WState) (ops : List (List Call))
    (h : false ∈ (apiSeq st ops).2) : (apiSeq st ops).1.poisoned = true := by
  induction ops generalizing st with
  | nil => simp [apiSeq] at h
  | cons c cs ih =>
    simp only [apiSeq, List.mem_cons] at h ⊢
    rcases h with h | h
    · have hp := apiCall_false st c h.symm
      -- poisoned stays poisoned through the rest
      clear ih h
      generalize (apiCall st c).1 = st1 at hp
      induction cs generalizing st1 with
      | nil => simpa [apiSeq] using hp
      | cons d ds ih2 => simp only [apiSeq]; exact ih2 _ (apiCall_poisoned st1 d hp).1
    · exact ih _ h

theorem apiSeq_append (st : WState) (l1 l2 : List (List Call)) :
    apiSeq st (l1 ++ l2) =
      ((apiSeq (apiSeq st l1).1 l2).1, (apiSeq st l1).2 ++ (apiSeq (apiSeq st l1).1 l2).2) := by
  induction l1 generalizing st with
  | nil => simp [apiSeq]
  | cons c cs ih => simp only [List.cons_append, apiSeq, ih, List.cons_append]

theorem output_append (a b : List Call) : output (a ++ b) = output a ++ output b := by
  induction a with
  | nil => rfl
  | cons c cs ih => cases c <;> simp [output, ih]

theorem apiCall_spec (st : WState) (cs : List Call) :
    ∃ t, (apiCall st cs).1.acc = st.acc ++ t ∧ t <+: output cs ∧ ((apiCall st cs).2 = true → t = output cs) := by
  unfold apiCall
  by_cases hp : st.poisoned = true
  · simp only [hp, if_true]
    exact ⟨[], by simp, List.nil_prefix, fun h => by simp at h⟩
  · simp only [hp]
    have e := runCalls_eq st.sched st.acc cs
    obtain ⟨t, h1, h2, h3⟩ := runWriter_spec cs st.sched st.acc
    rw [← e] at h1 h3
    generalize runCalls st.sched st.acc cs = w at h1 h3 ⊢
    obtain ⟨s', acc', ok⟩ := w
    exact ⟨t, h1, h2, h3⟩


/-! ## (d) record framing -/
section Records
variable {σ : Type}

theorem Tokenizer.run_append (t : Tokenizer σ) (s : σ) (a b : Bytes) :
    t.run s (a ++ b) = t.run (t.run s a) b := by
  simp [Tokenizer.run, List.foldl_append]

variable [DecidableEq σ]

theorem Tokenizer.completed_append (t : Tokenizer σ) (s : σ) (a b : Bytes) :
    t.completed s (a ++ b) = t.completed s a + t.completed (t.run s a) b := by
  induction a generalizing s with
  | nil => simp [Tokenizer.completed, Tokenizer.run]
  | cons x xs ih =>
    simp only [List.cons_append, Tokenizer.completed, ih, Tokenizer.run, List.foldl_cons]
    omega

theorem completed_take_prime (t : Tokenizer σ) (r : Bytes) (hp : Prime t r) (j : Nat)
    (hj : j < r.length) : t.completed t.idle (r.take j) = 0 := by
  induction j with
  | zero => simp [Tokenizer.completed]
  | succ j ih =>
    have hj' : j < r.length := by omega
    rw [List.take_succ_eq_append_getElem hj', Tokenizer.completed_append, ih hj']
    simp only [Tokenizer.completed, Nat.zero_add, Nat.add_zero]
    have : t.step (t.run t.idle (r.take j)) r[j] = t.run t.idle (r.take (j + 1)) := by
      rw [List.take_succ_eq_append_getElem hj', Tokenizer.run_append]; rfl
    rw [this]
    have hne := hp.2.2 (j + 1) (by omega) hj
    simp [hne]

theorem completed_prime (t : Tokenizer σ) (r : Bytes) (hp : Prime t r) :
    t.completed t.idle r = 1 := by
  obtain ⟨h2, hrun, hbusy⟩ := hp
  have hn : r.length - 1 < r.length := by omega
  have hr : r = r.take (r.length - 1) ++ [r[r.length - 1]] := by
    rw [← List.take_succ_eq_append_getElem hn]
    have : r.length - 1 + 1 = r.length := by omega
    rw [this, List.take_length]
  have h0 := completed_take_prime t r ⟨h2, hrun, hbusy⟩ (r.length - 1) hn
  have hne := hbusy (r.length - 1) (by omega) hn
  have hstep : t.step (t.run t.idle (r.take (r.length - 1))) r[r.length - 1] = t.idle := by
    have : t.run t.idle r = t.step (t.run t.idle (r.take (r.length - 1))) r[r.length - 1] := by
      conv => lhs; rw [hr]
      rw [Tokenizer.run_append]; rfl
    rw [← this, hrun]
  rw [hr, Tokenizer.completed_append, h0]
  simp only [Tokenizer.completed, Nat.zero_add, Nat.add_zero]
  simp [hne, hstep]

theorem specRecords_zero (ls : List Nat) (h : ∀ l ∈ ls, 0 < l) : specRecords ls 0 = (0, .eos) := by
  cases ls with
  | nil => rfl
  | cons l ls =>
    have : ¬ l ≤ 0 := by have := h l (List.mem_cons_self ..); omega
    simp [specRecords, this]

end Records

end ArrowModel.C18
