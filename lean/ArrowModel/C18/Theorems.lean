import ArrowModel.C18.Lemmas
/-
C18 — property statements.

(a) `stream_truncation_exact`, `stream_truncation_prefix`, `stream_roundtrip`,
    `push_truncation_exact`, `push_truncation_prefix` (StreamDecoder)
(b) `trailerCheck_reject_iff`, `truncated_footer_rejected_unless_trailer` (+ Parquet / IPC
    instances), `truncated_footer_rejected_of_no_inner_magic`, `short_prefix_rejected`
(c) `sink_prefix`, `sink_ok_complete`, `sink_benign_ok`, `writer_source_shape`,
    `sticky_failure`, `session_spec`, `parquet_writer_state_shape`,
    `finish_refuses_after_failure`, `writer_failed_state_shape`
(d) `records_truncation`
-/
namespace ArrowModel.C18
open ArrowModel.Generated.C18

/-! ## constants the statements below depend on (regenerated from /repo on every run) -/

/-- the values the framing theorems are proved for; a change of the continuation marker, the
prefix sizes, the width of the length word or the padding byte in /repo breaks this. -/
theorem ipc_stream_constants :
    contMarker = [255, 255, 255, 255] ∧ META_LEN_BYTES = 4 ∧
    PREFIX_MARKER = CONTINUATION_LEN + META_LEN_BYTES ∧ PREFIX_LEGACY = META_LEN_BYTES ∧
    PADDING_BYTE = 0 ∧
    (CONTINUATION_BYTE_lost || CONTINUATION_LEN_lost || META_LEN_BYTES_lost || PREFIX_MARKER_lost ||
      PREFIX_LEGACY_lost || PADDING_BYTE_lost) = false := by decide

/-- Parquet: `FOOTER_SIZE` = 4-byte length + magic; magics `PAR1`/`PARE`; both size checks of
`parse_metadata` are still in the source. -/
theorem parquet_trailer_constants :
    FOOTER_SIZE = parquetFmt.size ∧ FOOTER_MAGIC_OFFSET = 4 ∧ FOOTER_LEN_BYTES = 4 ∧
    parquetMagic = [0x50, 0x41, 0x52, 0x31] ∧ PARQUET_MAGIC_ENCR_LEN = PARQUET_MAGIC_LEN ∧
    (∀ g ∈ parquetFmt.magics, g.length = parquetFmt.magicLen) ∧
    (FOOTER_SIZE_lost || PARQUET_MAGIC_LEN_lost || PARQUET_MAGIC_DIGIT_lost || PARQUET_MAGIC_ENCR_LEN_lost ||
      FOOTER_MAGIC_OFFSET_lost || FOOTER_LEN_BYTES_lost || PARSE_METADATA_CHECKS_lost) = false := by decide

/-- IPC file: the 10-byte trailer is a 4-byte `i32` length + `ARROW1`. -/
theorem ipc_trailer_constants :
    IPC_TRAILER_SIZE = ipcFmt.size ∧ IPC_TRAILER_SEEK = ipcFmt.size ∧ IPC_TRAILER_MAGIC_OFFSET = 4 ∧
    IPC_TRAILER_LEN_BYTES = 4 ∧ arrowMagic = [0x41, 0x52, 0x52, 0x4f, 0x57, 0x31] ∧
    (∀ g ∈ ipcFmt.magics, g.length = ipcFmt.magicLen) ∧
    (IPC_TRAILER_SIZE_lost || IPC_TRAILER_SEEK_lost || IPC_TRAILER_MAGIC_OFFSET_lost ||
      IPC_TRAILER_LEN_BYTES_lost || ARROW_MAGIC_LEN_lost || ARROW_MAGIC_DIGIT_lost) = false := by decide


/-- **Source shape of the modelled readers**: the guards that `next`/`pushNext`/`trailerCheck`,
`decodeRecords` and `specAvro` mirror are still written the way they were modelled
(`read_meta_len`: nothing before the first word → `Ok(None)`, a cut inside it → error, `?` on the second word, `0` →
`Ok(None)`, negative → error; `maybe_next`: short metadata → error, body `read_exact`;
`read_footer_length` and the `End(-10 - footer_len)` seek; `FooterTail` magic comparison;
`StreamDecoder::{decode, finish}` loop condition, end-of-stream state and accepted final states;
`Decoder::flush` → `TapeDecoder::finish` "Truncated record"; Avro `Reader::read` end-of-input). -/
theorem reader_source_shape :
    (SHAPE_READ_META_LEN_EOF_lost || SHAPE_READ_META_LEN_MARKER_lost || SHAPE_MAYBE_NEXT_CHECKS_lost ||
      SHAPE_READ_BODY_EXACT_lost || SHAPE_READ_FOOTER_LENGTH_lost || SHAPE_FILE_READER_SEEKS_lost ||
      SHAPE_FOOTER_TAIL_MAGIC_lost || SHAPE_STREAM_DECODER_FINISH_lost || SHAPE_STREAM_DECODER_LOOP_lost ||
      SHAPE_JSON_FLUSH_lost || SHAPE_JSON_TAPE_FINISH_lost || SHAPE_AVRO_READ_EOF_lost) = false := by decide

/-! ## (a) self-delimiting stream -/

/-- **Truncated IPC stream, exact form.**  For every list of well-formed messages, with or
without the end-of-stream marker, in either framing (continuation marker or legacy), and
EVERY truncation length `k`, the loop over `MessageReader::maybe_next` applied to the first `k`
bytes of the written stream returns exactly the messages whose frames lie completely within
those `k` bytes — bit-for-bit the (padded metadata, body) pairs that were written, in order —
and then reports end-of-data or an error as `specDecode` says: nothing left (or a complete
end-of-stream marker) → end of data, a cut anywhere inside a frame or inside the end-of-stream
marker → error.

For the Rust code: `StreamReader` on a stream cut at any byte never hands
`RecordBatchDecoder` a message that was not written, nor a modified one, nor one out of order.
`bodyLenOf` (flatbuffer parsing) is arbitrary: the only fact used is that it returns the
written body length on the written metadata. -/
theorem stream_truncation_exact (f : Bytes → Option Nat) (o : Opts) (msgs : List Msg)
    (hwf : ∀ m ∈ msgs, WFMsg o f m) (eos : Bool) (k : Nat) :
    parseAll f ((encodeStream o msgs eos).take k) =
      (((msgs.take (specDecode (msgs.map (frameLen o)) (if eos then prefixSize o else 0) k).1).map (wire o)),
       (specDecode (msgs.map (frameLen o)) (if eos then prefixSize o else 0) k).2) := by
  induction msgs generalizing k with
  | nil =>
    simp only [encodeStream, List.map_nil, specDecode, List.take_nil]
    exact parseAll_tail f o eos k
  | cons m ms ih =>
    have hm := hwf m (List.mem_cons_self ..)
    have hms : ∀ x ∈ ms, WFMsg o f x := fun x hx => hwf x (List.mem_cons_of_mem _ hx)
    simp only [encodeStream, List.map_cons, specDecode]
    have hstep := next_frame_take f o m hm (encodeStream o ms eos) k
    by_cases hc : frameLen o m ≤ k
    · simp only [hc, if_true] at hstep ⊢
      rw [parseAll_of_msg hstep, ih hms]
      simp [wire]
    · simp only [hc, if_false] at hstep ⊢
      by_cases hk0 : k = 0
      · simp only [hk0, if_true] at hstep ⊢
        rw [parseAll_of_eos hstep]; simp
      · simp only [hk0, if_false] at hstep ⊢
        rw [parseAll_of_err hstep]; simp

/-- non-trivial instance: two messages (one with a body), framing with marker, alignment 8 -/
example : ∃ (f : Bytes → Option Nat) (msgs : List Msg), msgs.length = 2 ∧
    ∀ m ∈ msgs, WFMsg ⟨false, 8⟩ f m :=
  ⟨fun md => some (md.headD 0), [⟨[0, 7, 7], []⟩, ⟨[8, 1, 2, 3, 4, 5, 6, 7, 9], [1, 2, 3, 4, 5, 6, 7, 8]⟩], rfl, by
    intro m hm
    simp at hm
    rcases hm with rfl | rfl <;> exact ⟨by decide, by decide, by decide⟩⟩

/-- **Truncated IPC stream, prefix form** (the property statement): whatever the cut, the
decoded messages are a prefix of the written ones. -/
theorem stream_truncation_prefix (f : Bytes → Option Nat) (o : Opts) (msgs : List Msg)
    (hwf : ∀ m ∈ msgs, WFMsg o f m) (eos : Bool) (k : Nat) :
    (parseAll f ((encodeStream o msgs eos).take k)).1 <+: msgs.map (wire o) := by
  rw [stream_truncation_exact f o msgs hwf eos k]
  exact List.IsPrefix.map _ (List.take_prefix _ _)

theorem specDecode_full (frames : List Nat) (e k : Nat) (hk : frames.sum + e ≤ k) :
    specDecode frames e k = (frames.length, .eos) := by
  induction frames generalizing k with
  | nil =>
    simp only [specDecode, List.length_nil]
    simp only [List.sum_nil] at hk
    by_cases h4 : k = 0
    · simp [h4]
    · have : ¬ k < e := by omega
      simp [h4, this]
  | cons x xs ih =>
    simp only [List.sum_cons] at hk
    have hx : x ≤ k := by omega
    simp only [specDecode, hx, if_true, List.length_cons]
    rw [ih (k - x) (by omega)]

theorem encodeStream_length (o : Opts) (msgs : List Msg) (eos : Bool) :
    (encodeStream o msgs eos).length = (msgs.map (frameLen o)).sum + (if eos then prefixSize o else 0) := by
  induction msgs with
  | nil => cases eos <;> simp [encodeStream, eosBytes_length]
  | cons m ms ih => simp [encodeStream, encodeMsg_length, ih]; omega

/-- **Round trip** (the untruncated case): the complete stream decodes to exactly the written
messages followed by end of data — with or without the end-of-stream marker. -/
theorem stream_roundtrip (f : Bytes → Option Nat) (o : Opts) (msgs : List Msg)
    (hwf : ∀ m ∈ msgs, WFMsg o f m) (eos : Bool) :
    parseAll f (encodeStream o msgs eos) = (msgs.map (wire o), .eos) := by
  have h := stream_truncation_exact f o msgs hwf eos (encodeStream o msgs eos).length
  rw [List.take_length] at h
  rw [h, specDecode_full _ _ _
    (by rw [encodeStream_length]; exact Nat.le_refl _)]
  simp

/-- **Truncated IPC stream through the push decoder** (`StreamDecoder::decode` on the prefix
as one buffer, then `finish`).  For every message list, either framing, EOS marker or not, and
every truncation length `k` of the written stream, the push decoder yields exactly the messages
`specDecodePush` counts — a frame is complete when it lies within the `k` bytes (also a frame
with an empty body) — unmodified and in order; `finish` succeeds exactly at a frame boundary
or after a complete end-of-stream marker; every other cut is "Unexpected End of Stream". -/
theorem push_truncation_exact (f : Bytes → Option Nat) (o : Opts) (msgs : List Msg)
    (hwf : ∀ m ∈ msgs, WFMsg o f m) (eos : Bool) (k : Nat)
    (hk : k ≤ (encodeStream o msgs eos).length) :
    pushAll f ((encodeStream o msgs eos).take k) =
      (((msgs.take (specDecodePush (msgs.map (fun m => (frameLen o m, m.body.length)))
          (if eos then prefixSize o else 0) k).1).map (wire o)),
       (specDecodePush (msgs.map (fun m => (frameLen o m, m.body.length)))
          (if eos then prefixSize o else 0) k).2) := by
  induction msgs generalizing k with
  | nil =>
    simp only [encodeStream, List.map_nil, specDecodePush, List.take_nil]
    exact pushAll_tail f o eos k hk
  | cons m ms ih =>
    have hm := hwf m (List.mem_cons_self ..)
    have hms : ∀ x ∈ ms, WFMsg o f x := fun x hx => hwf x (List.mem_cons_of_mem _ hx)
    simp only [encodeStream] at hk
    simp only [encodeStream, List.map_cons, specDecodePush]
    have hstep := pushNext_frame_take f o m hm (encodeStream o ms eos) k hk
    have hlen : (encodeMsg o m ++ encodeStream o ms eos).length = frameLen o m + (encodeStream o ms eos).length := by
      simp [encodeMsg_length]
    by_cases hc : frameLen o m ≤ k
    · simp only [hc, if_true] at hstep ⊢
      rw [pushAll_of_msg hstep, ih hms _ (by omega)]
      simp [wire]
    · simp only [hc, if_false] at hstep ⊢
      by_cases hk0 : k = 0
      · simp only [hk0, if_true] at hstep ⊢
        rw [pushAll_of_clean hstep]; simp
      · simp only [hk0, if_false] at hstep ⊢
        rw [pushAll_of_short hstep]; simp


/-- prefix form for the push decoder -/
theorem push_truncation_prefix (f : Bytes → Option Nat) (o : Opts) (msgs : List Msg)
    (hwf : ∀ m ∈ msgs, WFMsg o f m) (eos : Bool) (k : Nat)
    (hk : k ≤ (encodeStream o msgs eos).length) :
    (pushAll f ((encodeStream o msgs eos).take k)).1 <+: msgs.map (wire o) := by
  rw [push_truncation_exact f o msgs hwf eos k hk]
  exact List.IsPrefix.map _ (List.take_prefix _ _)

/-- the length word written (`padded_metadata_len`) is the length of metadata + padding that
follows it, for every positive alignment (`MetadataLayout::new`) -/
theorem wireMeta_length_eq_padded (o : Opts) (ha : 0 < o.align) (m : Msg) :
    (wireMeta o m).length = paddedMetaLen o m.md.length := by
  unfold wireMeta metaPadding paddedMetaLen
  simp only [List.length_append, List.length_replicate]
  have h1 := Nat.div_add_mod (m.md.length + prefixSize o + (o.align - 1)) o.align
  have h2 := Nat.mod_lt (m.md.length + prefixSize o + (o.align - 1)) ha
  rw [Nat.mul_comm] at h1
  generalize (m.md.length + prefixSize o + (o.align - 1)) / o.align * o.align = t at *
  omega


/-! ## (b) footer formats -/

/-- **Trailer check = "ends in a trailer".**  The check as written (file shorter than the
trailer → reject; magic compare; length sign; `trailer + announced length > file size` →
reject) rejects a byte string exactly when it is *not* of the form
`pre ++ md ++ le32 |md| ++ magic`. -/
theorem trailerCheck_reject_iff (f : TrailerFmt) (hml : ∀ g ∈ f.magics, g.length = f.magicLen)
    (file : Bytes) (hb : IsBytes file) :
    trailerCheck f file = .reject ↔ ¬ EndsInTrailer f.magics f.signed file := by
  unfold trailerCheck
  by_cases hsz : file.length < f.size
  · simp only [hsz, if_true, true_iff]
    intro h
    have := (endsInTrailerB_of_trailer f.magics f.signed f.magicLen hml file h).1
    unfold TrailerFmt.size at hsz; omega
  · simp only [hsz, if_false]
    have hlen : (file.drop (file.length - f.size)).length = f.size := by simp; omega
    have key := trailerCheckTail_ne_reject f file.length _ hlen
    constructor
    · intro hr h
      have hB := (endsInTrailerB_of_trailer f.magics f.signed f.magicLen hml file h).2
      exact (key.mpr hB) hr
    · intro hn
      apply Classical.byContradiction
      intro hr
      exact hn (trailer_of_endsInTrailerB f.magics f.signed f.magicLen file hb
        (by unfold TrailerFmt.size at hsz; omega) (key.mp hr))

/-- **Truncated footer file (the conditional property).**  Every prefix of any byte string
that does not itself end in a well-formed trailer is rejected by the trailer check.  The
premise is needed: `embedded_file_counterexample` below shows a well-formed file with a proper
prefix that passes the check (a payload may legitimately embed a complete file), so the
unconditional statement "every proper prefix is rejected" is false. -/
theorem truncated_footer_rejected_unless_trailer (f : TrailerFmt)
    (hml : ∀ g ∈ f.magics, g.length = f.magicLen) (file : Bytes) (hb : IsBytes file) (k : Nat)
    (h : ¬ EndsInTrailer f.magics f.signed (file.take k)) :
    trailerCheck f (file.take k) = .reject :=
  (trailerCheck_reject_iff f hml _ (hb.take k)).mpr h

/-- Parquet instance (`ParquetMetaDataReader::parse_metadata`, magics `PAR1`/`PARE`). -/
theorem parquet_truncation_rejected (file : Bytes) (hb : IsBytes file) (k : Nat)
    (h : ¬ EndsInTrailer parquetFmt.magics false (file.take k)) :
    trailerCheck parquetFmt (file.take k) = .reject :=
  truncated_footer_rejected_unless_trailer parquetFmt parquet_trailer_constants.2.2.2.2.2.1 file hb k h

/-- IPC file instance (`FileReaderBuilder::build`, magic `ARROW1`, `i32` footer length). -/
theorem ipc_file_truncation_rejected (file : Bytes) (hb : IsBytes file) (k : Nat)
    (h : ¬ EndsInTrailer ipcFmt.magics true (file.take k)) :
    trailerCheck ipcFmt (file.take k) = .reject :=
  truncated_footer_rejected_unless_trailer ipcFmt ipc_trailer_constants.2.2.2.2.2.1 file hb k h

/-- The decidable premise the driver evaluates from (prefix length, last bytes of the prefix)
is the existential one. -/
theorem endsInTrailerB_iff (f : TrailerFmt) (hml : ∀ g ∈ f.magics, g.length = f.magicLen)
    (file : Bytes) (hb : IsBytes file) (hsz : f.size ≤ file.length) :
    endsInTrailerB f.magics f.signed file.length (file.drop (file.length - f.size)) = true ↔
      EndsInTrailer f.magics f.signed file :=
  ⟨trailer_of_endsInTrailerB f.magics f.signed f.magicLen file hb hsz,
   fun h => (endsInTrailerB_of_trailer f.magics f.signed f.magicLen hml file h).2⟩

/-- a prefix shorter than the trailer is always rejected (Parquet: `k < 8`, IPC: `k < 10`) -/
theorem short_prefix_rejected (f : TrailerFmt) (file : Bytes) (k : Nat) (hk : k < f.size) :
    trailerCheck f (file.take k) = .reject := by
  unfold trailerCheck
  have : (file.take k).length < f.size := by simp; omega
  rw [if_pos this]

/-- **Unconditional rejection when the magic does not recur.**  If no magic ends at any
interior position `j` (`size ≤ j < |file|`) of a file, every proper prefix is rejected — this
is the situation for files whose payload does not happen to contain `PAR1`/`ARROW1`. -/
theorem truncated_footer_rejected_of_no_inner_magic (f : TrailerFmt) (file : Bytes)
    (hfree : ∀ j, f.size ≤ j → j < file.length → (file.take j).drop (j - f.magicLen) ∉ f.magics)
    (k : Nat) (hk : k < file.length) : trailerCheck f (file.take k) = .reject := by
  unfold trailerCheck
  by_cases hsz : (file.take k).length < f.size
  · rw [if_pos hsz]
  · rw [if_neg hsz]
    have hkl : (file.take k).length = k := by simp; omega
    rw [hkl] at hsz ⊢
    have hk2 : f.size ≤ k := by omega
    have hnot := hfree k hk2 hk
    unfold trailerCheckTail
    have hd : ((file.take k).drop (k - f.size)).drop 4 = (file.take k).drop (k - f.magicLen) := by
      rw [List.drop_drop]; congr 1; unfold TrailerFmt.size at hk2 ⊢; omega
    rw [hd]
    have : f.magics.contains ((file.take k).drop (k - f.magicLen)) = false := by simpa using hnot
    simp only [this, Bool.not_false, if_true]

/-- **The unconditional claim is false**: a well-formed Parquet-shaped file whose payload
embeds a complete file has a proper prefix that passes the trailer check. -/
theorem embedded_file_counterexample :
    ∃ payload md : Bytes, ∃ k,
      k < (mkFile parquetMagic payload md parquetMagic).length ∧
      trailerCheck parquetFmt ((mkFile parquetMagic payload md parquetMagic).take k) ≠ .reject :=
  ⟨mkFile parquetMagic [1, 2] [7] parquetMagic, [9, 9], 19, by decide, by decide⟩

/-- non-trivial instance of the conditional theorem: a well-formed file cut inside its
metadata does not end in a trailer -/
example : trailerCheck parquetFmt ((mkFile parquetMagic [1, 2, 3] [7, 7] parquetMagic).take 10) = .reject := by
  decide

/-! ## (c) sink faults -/

/-- **Bytes accepted before a fault are a prefix of the fault-free output**, for every writer
(list of `write_all`/`flush` calls) and every fault schedule (errors, short writes,
`Interrupted`, `Ok(0)`), whatever was in the sink before. -/
theorem sink_prefix (calls : List Call) (sched : List Resp) :
    (runWriter sched [] calls).1 <+: output calls := by
  obtain ⟨t, h1, h2, _⟩ := runWriter_spec calls sched []
  rw [h1]; simpa using h2

/-- **`finish` reports success only if the sink accepted every byte.** -/
theorem sink_ok_complete (calls : List Call) (sched : List Resp)
    (hok : (runWriter sched [] calls).2 = true) : (runWriter sched [] calls).1 = output calls := by
  obtain ⟨t, h1, _, h3⟩ := runWriter_spec calls sched []
  rw [h1, h3 hok]; simp

/-- **Short writes alone never make a writer fail or lose bytes** (`write_all` loops). -/
theorem sink_benign_ok (calls : List Call) (sched : List Resp) (hs : ∀ r ∈ sched, Benign r) :
    runWriter sched [] calls = (output calls, true) := by
  have hok := runWriter_benign calls sched [] hs
  have := sink_ok_complete calls sched hok
  exact Prod.ext this hok


/-- **Source shape of the modelled write paths.**  `sink_benign_ok`/`sink_ok_complete` are about
writers whose every byte goes through `write_all`; these items (regenerated from /repo) are lost
as soon as a bare `.write(` appears in `FileWriter::finish`, `StreamWriter::finish`,
`write_continuation`, `write_encoded_data`/`write_eos`, the `W: Write` sink
(`write_slice`, `write_record_batch`), the IPC file header, or the Parquet header / footer /
`TrackedWrite::write_all`, or when their sequence of calls changes. -/
theorem writer_source_shape :
    (SHAPE_FILE_FINISH_lost || SHAPE_STREAM_FINISH_lost || SHAPE_FILE_HEADER_lost ||
      SHAPE_WRITE_CONTINUATION_lost || SHAPE_WRITE_ENCODED_lost || SHAPE_WRITE_SLICE_lost ||
      SHAPE_WRITE_RECORD_BATCH_lost || SHAPE_PARQUET_FOOTER_lost || SHAPE_PARQUET_HEADER_lost ||
      SHAPE_TRACKED_WRITE_ALL_lost) = false := by decide

/-- **Sticky failure.**  In any session (any schedule of sink faults, the caller free to keep
calling after errors), once an API call has reported failure every later call — in particular
every later `finish`/`close`/`into_inner` — reports failure. -/
theorem sticky_failure (st : WState) (before after : List (List Call))
    (h : false ∈ (apiSeq st before).2) :
    ∀ b ∈ (apiSeq (apiSeq st before).1 after).2, b = false :=
  apiSeq_poisoned _ after (apiSeq_false_poisons st before h)

/-- **A later success means nothing was lost.**  If the LAST call of a session (the `finish`)
reports ok, then every call before it reported ok and the sink holds exactly the bytes of all
calls; in any case the sink holds a prefix of them. -/
theorem session_spec (ops : List (List Call)) (st : WState) :
    ∃ t, (apiSeq st ops).1.acc = st.acc ++ t ∧ t <+: sessionOutput ops ∧
      ((∀ b ∈ (apiSeq st ops).2, b = true) → t = sessionOutput ops) := by
  induction ops generalizing st with
  | nil => exact ⟨[], by simp [apiSeq], by simp [sessionOutput, output], fun _ => by simp [sessionOutput, output]⟩
  | cons c cs ih =>
    obtain ⟨t, h1, h2, h3⟩ := apiCall_spec st c
    obtain ⟨u, g1, g2, g3⟩ := ih (apiCall st c).1
    simp only [apiSeq, sessionOutput, List.flatten_cons, output_append]
    by_cases hok : (apiCall st c).2 = true
    · have ht := h3 hok
      refine ⟨t ++ u, ?_, ?_, ?_⟩
      · rw [g1, h1]; simp
      · rw [ht]; exact (List.prefix_append_right_inj _).mpr g2
      · intro hall
        rw [ht, g3 (fun b hb => hall b (List.mem_cons_of_mem _ hb))]; rfl
    · -- the call failed: the writer is poisoned, nothing more reaches the sink
      have hf : (apiCall st c).2 = false := by simpa using hok
      have hp := apiCall_false st c hf
      have hu : u = [] := by
        have : ∀ (ops : List (List Call)) (s : WState), s.poisoned = true → (apiSeq s ops).1.acc = s.acc := by
          intro ops
          induction ops with
          | nil => intro s _; rfl
          | cons d ds ihd =>
            intro s hs
            simp only [apiSeq]
            have := apiCall_poisoned s d hs
            rw [ihd _ this.1]
            simp [apiCall, hs]
        have h := this cs _ hp
        rw [g1] at h
        simpa using h
      refine ⟨t, by rw [g1, h1, hu]; simp, List.IsPrefix.trans h2 (List.prefix_append _ _), ?_⟩
      intro hall
      have := hall (apiCall st c).2 (List.mem_cons_self ..)
      rw [hf] at this; cases this


theorem apiCallG_poisoned_mono (g : Bool) (st : WState) (cs : List Call) (h : st.poisoned = true) :
    (apiCallG g st cs).1.poisoned = true := by
  unfold apiCallG
  cases g
  · simp only [Bool.false_and, Bool.false_eq_true, if_false]
    generalize runCalls st.sched st.acc cs = w
    obtain ⟨s', acc', ok⟩ := w
    simp [h]
  · simp [h]

theorem apiCallG_false_poisons (g : Bool) (st : WState) (cs : List Call)
    (h : (apiCallG g st cs).2 = false) : (apiCallG g st cs).1.poisoned = true := by
  by_cases hp : st.poisoned = true
  · exact apiCallG_poisoned_mono g st cs hp
  · unfold apiCallG at h ⊢
    have hp' : st.poisoned = false := by simpa using hp
    simp only [hp', Bool.and_false, Bool.false_eq_true, if_false, Bool.false_or] at h ⊢
    generalize runCalls st.sched st.acc cs = w at h ⊢
    obtain ⟨s', acc', ok⟩ := w
    simp at h ⊢
    exact h

theorem apiSeqG_poisoned (st : WState) (ops : List (Bool × List Call))
    (h : st.poisoned = true ∨ false ∈ (apiSeqG st ops).2) : (apiSeqG st ops).1.poisoned = true := by
  induction ops generalizing st with
  | nil => simpa [apiSeqG] using h
  | cons c cs ih =>
    obtain ⟨g, c⟩ := c
    simp only [apiSeqG, List.mem_cons] at h ⊢
    apply ih
    rcases h with h | h | h
    · exact Or.inl (apiCallG_poisoned_mono g st c h)
    · exact Or.inl (apiCallG_false_poisons g st c h.symm)
    · exact Or.inr h

/-- **After a failed call no later `finish` reports success** (writers with a `failed` flag).
For every fault schedule and every session of API calls — guarded or not, the caller free to keep
calling after errors — if any call reported failure then a subsequent guarded call (`finish`,
`close`, `into_inner`; for IPC and Avro also `write`) reports failure and leaves the sink
untouched.  This is the law the repaired arrow-ipc, arrow-json, arrow-avro writers and
`AsyncArrowWriter` implement (guards pinned by `writer_failed_state_shape`); the sync Parquet
writers are covered by `sticky_failure`. -/
theorem finish_refuses_after_failure (st : WState) (ops : List (Bool × List Call)) (fin : List Call)
    (h : st.poisoned = true ∨ false ∈ (apiSeqG st ops).2) :
    (apiCallG true (apiSeqG st ops).1 fin).2 = false ∧
    (apiCallG true (apiSeqG st ops).1 fin).1.acc = (apiSeqG st ops).1.acc := by
  have hp := apiSeqG_poisoned st ops h
  simp [apiCallG, hp]

/-- non-trivial session: an unguarded `write` fails half-way, another unguarded write succeeds
(arrow-json), the guarded `finish` still refuses -/
example : (apiSeqG ⟨[.short 1, .fail], [], false⟩
    [(false, [.write [1, 2, 3]]), (false, [.write [4]]), (true, [.write [93]])]).2 = [false, true, false] := by
  decide

/-- **Source shape of the `failed` guards**: arrow-ipc `FileWriter`/`StreamWriter` (`write` and
`finish` start with `check_not_failed()?`, an `IoError` of `write` sets the flag, `finish` holds it
while the end-of-stream marker / footer is written and clears it only after the flush), arrow-json
`Writer` (both `write_all` sites set it, `finish` starts with the guard), arrow-avro `Writer`
(`write`/`finish` guarded, an `IoError` sets it), `AsyncArrowWriter` (`do_write` guarded and sets
it when the awaited write fails; `finish` goes through `do_write`). -/
theorem writer_failed_state_shape :
    (SHAPE_IPC_FILE_FAILED_GUARDS_lost || SHAPE_IPC_STREAM_FAILED_GUARDS_lost || SHAPE_JSON_FAILED_GUARDS_lost ||
      SHAPE_AVRO_FAILED_GUARDS_lost || SHAPE_ASYNC_FAILED_GUARDS_lost) = false := by decide

/-- **Source shape of the state tracking in `SerializedFileWriter`** (what makes it an instance of
`WState`): in `next_row_group`'s `on_close` the bloom filters are written (`write_bloom_filters(…)?`)
BEFORE `row_groups.push(metadata)`, so a failure there leaves the row group uncounted;
`assert_previous_writer_closed` compares `row_group_index` with `row_groups.len()` (and refuses a
finished writer); `finish` starts with that assertion and `write_metadata` sets `finished` first.
Reordering the push, or dropping one of the checks, loses the item. -/
theorem parquet_writer_state_shape :
    (SHAPE_ON_CLOSE_ORDER_lost || SHAPE_ASSERT_PREV_CLOSED_lost || SHAPE_FINISH_ASSERTS_lost ||
      SHAPE_NEXT_RG_ASSERTS_lost || SHAPE_WRITE_METADATA_FINISHED_lost) = false := by decide

/-- non-trivial session: the second call fails half-way, the caller calls `finish` twice more -/
example : (apiSeq ⟨[.ok, .short 1, .fail], [], false⟩
    [[.write [1, 2]], [.write [3, 4, 5], .flush], [.write [9]], [.write [9]]]).2 = [true, false, false, false] := by
  decide

/-- non-trivial schedule: a short write, an interrupt, then a failure in the second call -/
example : runWriter [.short 2, .interrupted, .ok, .fail] [] [.write [1, 2, 3], .flush, .write [4, 5]] =
    ([1, 2, 3], false) := by decide

/-- a hard error while bytes are pending is returned (`write_all` does not swallow it) -/
theorem writeAll_fail (s : List Resp) (acc : Bytes) (b : Nat) (buf : Bytes) :
    writeAll (.fail :: s) acc (b :: buf) = (s, acc, false) := rfl

/-! ## (d) line-delimited records -/

/-- **Line-delimited records, every truncation length.**  For any tokenizer for which each
written record is prime and the delimiter keeps it idle, decoding the first `k` bytes of
`r₁ \n r₂ \n …` and then flushing yields exactly the number of records whose last byte is
within the `k` bytes, and `Decoder::flush`'s "Truncated record" error iff the cut is strictly
inside a record.  (Partial with respect to arrow-json: that `TapeDecoder` is such a tokenizer
for the writer's records is checked by the correspondence run with `jsonTok`, not proved.) -/
theorem records_truncation {σ : Type} [DecidableEq σ] (t : Tokenizer σ) (hnl : t.step t.idle newline = t.idle)
    (rs : List Bytes) (hp : ∀ r ∈ rs, Prime t r) (k : Nat) :
    decodeRecords t ((encodeRecords rs).take k) = specRecords (rs.map List.length) k := by
  induction rs generalizing k with
  | nil => simp [encodeRecords, decodeRecords, specRecords, Tokenizer.completed, Tokenizer.run]
  | cons r rs ih =>
    have hr := hp r (List.mem_cons_self ..)
    have hrs : ∀ x ∈ rs, Prime t x := fun x hx => hp x (List.mem_cons_of_mem _ hx)
    simp only [encodeRecords, List.map_cons, specRecords]
    by_cases hk : r.length ≤ k
    · simp only [hk, if_true]
      rw [take_append_ge hk]
      cases hm : k - r.length with
      | zero =>
        have hz : 0 - 1 = 0 := rfl
        rw [hz, specRecords_zero _ (by
          intro l hl
          simp only [List.mem_map] at hl
          obtain ⟨x, hx, rfl⟩ := hl
          have := (hrs x hx).1; omega)]
        simp [decodeRecords, completed_prime t r hr, hr.2.1]
      | succ m =>
        have hz : m + 1 - 1 = m := by omega
        rw [hz, ← ih hrs m]
        have hX : List.take (m + 1) (newline :: encodeRecords rs) = newline :: List.take m (encodeRecords rs) := rfl
        rw [hX]
        generalize List.take m (encodeRecords rs) = X
        have hc : t.completed t.idle (r ++ newline :: X) = t.completed t.idle X + 1 := by
          rw [Tokenizer.completed_append, completed_prime t r hr, hr.2.1]
          simp only [Tokenizer.completed, hnl]
          simp
          omega
        have hrn : t.run t.idle (r ++ newline :: X) = t.run t.idle X := by
          rw [Tokenizer.run_append, hr.2.1]
          simp only [Tokenizer.run, List.foldl_cons, hnl]
        simp only [decodeRecords, hc, hrn]
    · simp only [hk, if_false]
      have hk' : k < r.length := by omega
      rw [take_append_lt (by omega)]
      simp only [decodeRecords, completed_take_prime t r hr k hk']
      by_cases h0 : k = 0
      · subst h0; simp [Tokenizer.run]
      · have := hr.2.2 k (by omega) hk'
        simp [h0, this]


/-- `jsonTok` keeps idle on the delimiter, and a JSON object is prime for it -/
example : jsonTok.step jsonTok.idle newline = jsonTok.idle := by decide

example : Prime jsonTok [123, 34, 97, 125, 34, 58, 49, 125] := by
  refine ⟨by decide, by decide, ?_⟩
  intro j h0 hj
  have : j = 1 ∨ j = 2 ∨ j = 3 ∨ j = 4 ∨ j = 5 ∨ j = 6 ∨ j = 7 := by simp at hj; omega
  rcases this with rfl | rfl | rfl | rfl | rfl | rfl | rfl <;> decide

end ArrowModel.C18
