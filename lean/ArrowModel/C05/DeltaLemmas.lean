import ArrowModel.C05.Lemmas
/-
C05 — lemmas about DELTA_BINARY_PACKED (wrapping arithmetic, width sufficiency, one mini block)
and the list-level cores of DELTA_LENGTH_BYTE_ARRAY / DELTA_BYTE_ARRAY.
-/
namespace ArrowModel.C05
open ArrowModel.Generated.C05

/-- wrapping core of DELTA_BINARY_PACKED: what the decoder adds back is what the encoder
subtracted, for every bit pattern (overflow included) -/
theorem delta_core {n : Nat} (v last md : BitVec n) :
    BitVec.ofNat n ((v - last) - md).toNat + md + last = v := by
  rw [BitVec.ofNat_toNat, BitVec.setWidth_eq, BitVec.sub_add_cancel, BitVec.sub_add_cancel]

/-- the decoder's running reconstruction `v = raw + min_delta + last_value` -/
def recon {n : Nat} (md : BitVec n) : BitVec n → List Nat → List (BitVec n)
  | _, [] => []
  | last, r :: rs => (BitVec.ofNat n r + md + last) :: recon md (BitVec.ofNat n r + md + last) rs

/-- deltas of a value sequence relative to the value before it -/
def deltasFrom {n : Nat} : BitVec n → List (BitVec n) → List (BitVec n)
  | _, [] => []
  | last, x :: xs => (x - last) :: deltasFrom x xs

theorem recon_deltas {n : Nat} (md : BitVec n) : ∀ (xs : List (BitVec n)) (last : BitVec n),
    recon md last ((deltasFrom last xs).map (fun d => (d - md).toNat)) = xs := by
  intro xs
  induction xs with
  | nil => intro last; rfl
  | cons x xs ih =>
    intro last
    simp only [deltasFrom, List.map_cons, recon, delta_core, ih]

theorem deltasOf_eq_deltasFrom {n : Nat} (x : BitVec n) (xs : List (BitVec n)) :
    deltasOf (x :: xs) = deltasFrom x xs := by
  induction xs generalizing x with
  | nil => rfl
  | cons y ys ih => simp [deltasOf, deltasFrom, ih]

theorem lt_two_pow_numRequiredBits (x : Nat) : x < 2 ^ numRequiredBits x := by
  unfold numRequiredBits
  by_cases h : x = 0
  · subst h; simp
  · simp only [h, if_false]; exact Nat.lt_log2_self

/-- signed `min ≤ d ≤ max` makes the unsigned distance to `min` at most that of `max` (i64) -/
theorem dist_le_64 (m d M : BitVec 64) (h1 : m.sle d) (h2 : d.sle M) : (d - m).toNat ≤ (M - m).toNat := by
  have : (d - m).ule (M - m) := by bv_decide
  simpa [BitVec.ule] using this

/-- the same for i32 -/
theorem dist_le_32 (m d M : BitVec 32) (h1 : m.sle d) (h2 : d.sle M) : (d - m).toNat ≤ (M - m).toNat := by
  have : (d - m).ule (M - m) := by bv_decide
  simpa [BitVec.ule] using this

theorem sminList_le {n : Nat} : ∀ (ds : List (BitVec n)) (m : BitVec n),
    (sminList m ds).toInt ≤ m.toInt ∧ ∀ d ∈ ds, (sminList m ds).toInt ≤ d.toInt := by
  intro ds
  induction ds with
  | nil => intro m; exact ⟨Int.le_refl _, by simp⟩
  | cons x xs ih =>
    intro m
    simp only [sminList]
    obtain ⟨h1, h2⟩ := ih (if x.slt m then x else m)
    by_cases hx : x.slt m
    · simp only [hx, if_true] at h1 h2 ⊢
      have hx' : x.toInt < m.toInt := by simpa [BitVec.slt] using hx
      refine ⟨by omega, ?_⟩
      intro d hd
      rcases List.mem_cons.mp hd with h | h
      · subst h; exact h1
      · exact h2 d h
    · have hxf : x.slt m = false := by simpa using hx
      simp only [hxf, Bool.false_eq_true, if_false] at h1 h2 ⊢
      have hx' : ¬ (x.toInt < m.toInt) := by simpa [BitVec.slt] using hx
      refine ⟨h1, ?_⟩
      intro d hd
      rcases List.mem_cons.mp hd with h | h
      · subst h; omega
      · exact h2 d h

theorem smaxList_ge {n : Nat} : ∀ (ds : List (BitVec n)) (m : BitVec n),
    m.toInt ≤ (smaxList m ds).toInt ∧ ∀ d ∈ ds, d.toInt ≤ (smaxList m ds).toInt := by
  intro ds
  induction ds with
  | nil => intro m; exact ⟨Int.le_refl _, by simp⟩
  | cons x xs ih =>
    intro m
    simp only [smaxList]
    obtain ⟨h1, h2⟩ := ih (if m.slt x then x else m)
    by_cases hx : m.slt x
    · simp only [hx, if_true] at h1 h2 ⊢
      have hx' : m.toInt < x.toInt := by simpa [BitVec.slt] using hx
      refine ⟨by omega, ?_⟩
      intro d hd
      rcases List.mem_cons.mp hd with h | h
      · subst h; exact h1
      · exact h2 d h
    · have hxf : m.slt x = false := by simpa using hx
      simp only [hxf, Bool.false_eq_true, if_false] at h1 h2 ⊢
      have hx' : ¬ (m.toInt < x.toInt) := by simpa [BitVec.slt] using hx
      refine ⟨h1, ?_⟩
      intro d hd
      rcases List.mem_cons.mp hd with h | h
      · subst h; omega
      · exact h2 d h

theorem sle_of_toInt_le {n : Nat} (a b : BitVec n) (h : a.toInt ≤ b.toInt) : a.sle b = true := by
  simp [BitVec.sle, h]

/-- **one mini block round-trips** (INT64): the values packed for a mini block — deltas minus
the block's minimum, at the width of the mini block's maximum — fit the width, so unpacking
them and running the decoder's reconstruction from the previous value returns the values,
whatever the padding and whatever follows -/
theorem deltaMiniBlock_roundtrip64_partial (last : BitVec 64) (xs : List (BitVec 64)) (blockDeltas : List (BitVec 64))
    (pad : List Nat) (rest : List Bool)
    (hsub : ∀ d ∈ deltasFrom last xs, d ∈ blockDeltas)
    (h8 : (xs.length + pad.length) % 8 = 0) (hpad : ∀ p ∈ pad, p = 0) :
    let ds := deltasFrom last xs
    let minDelta := sminList (blockDeltas.headD 0) blockDeltas
    let maxDelta := smaxList (ds.headD 0) ds
    let width := numRequiredBits (maxDelta - minDelta).toNat
    recon minDelta last
      (unpack width xs.length
        (bitsOfBytes (packBytes width (ds.map (fun d => (d - minDelta).toNat) ++ pad)) ++ rest)) = xs := by
  intro ds minDelta maxDelta width
  have hlen : ds.length = xs.length := by
    show (deltasFrom last xs).length = xs.length
    clear hsub h8
    induction xs generalizing last with
    | nil => rfl
    | cons x xs ih => simp [deltasFrom, ih]
  have hfit : ∀ v ∈ ds.map (fun d => (d - minDelta).toNat) ++ pad, v < 2 ^ width := by
    intro v hv
    rcases List.mem_append.mp hv with h | h
    · obtain ⟨d, hd, rfl⟩ := List.mem_map.mp h
      have hmin := (sminList_le blockDeltas (blockDeltas.headD 0)).2 d (hsub d hd)
      have hmax := (smaxList_ge ds (ds.headD 0)).2 d hd
      have := dist_le_64 minDelta d maxDelta (sle_of_toInt_le _ _ hmin) (sle_of_toInt_le _ _ hmax)
      exact Nat.lt_of_le_of_lt this (lt_two_pow_numRequiredBits _)
    · rw [hpad v h]; exact Nat.two_pow_pos _
  rw [bitsOfBytes_packBytes width _ (by simp [hlen]; exact h8)]
  rw [unpack_pack width _ rest xs.length (by simp [hlen]) hfit]
  rw [List.take_append_of_le_length (by simp [hlen]), List.take_of_length_le (by simp [hlen])]
  exact recon_deltas minDelta xs last


/-- **one mini block round-trips** (INT32): the values packed for a mini block — deltas minus
the block's minimum, at the width of the mini block's maximum — fit the width, so unpacking
them and running the decoder's reconstruction from the previous value returns the values,
whatever the padding and whatever follows -/
theorem deltaMiniBlock_roundtrip32_partial (last : BitVec 32) (xs : List (BitVec 32)) (blockDeltas : List (BitVec 32))
    (pad : List Nat) (rest : List Bool)
    (hsub : ∀ d ∈ deltasFrom last xs, d ∈ blockDeltas)
    (h8 : (xs.length + pad.length) % 8 = 0) (hpad : ∀ p ∈ pad, p = 0) :
    let ds := deltasFrom last xs
    let minDelta := sminList (blockDeltas.headD 0) blockDeltas
    let maxDelta := smaxList (ds.headD 0) ds
    let width := numRequiredBits (maxDelta - minDelta).toNat
    recon minDelta last
      (unpack width xs.length
        (bitsOfBytes (packBytes width (ds.map (fun d => (d - minDelta).toNat) ++ pad)) ++ rest)) = xs := by
  intro ds minDelta maxDelta width
  have hlen : ds.length = xs.length := by
    show (deltasFrom last xs).length = xs.length
    clear hsub h8
    induction xs generalizing last with
    | nil => rfl
    | cons x xs ih => simp [deltasFrom, ih]
  have hfit : ∀ v ∈ ds.map (fun d => (d - minDelta).toNat) ++ pad, v < 2 ^ width := by
    intro v hv
    rcases List.mem_append.mp hv with h | h
    · obtain ⟨d, hd, rfl⟩ := List.mem_map.mp h
      have hmin := (sminList_le blockDeltas (blockDeltas.headD 0)).2 d (hsub d hd)
      have hmax := (smaxList_ge ds (ds.headD 0)).2 d hd
      have := dist_le_32 minDelta d maxDelta (sle_of_toInt_le _ _ hmin) (sle_of_toInt_le _ _ hmax)
      exact Nat.lt_of_le_of_lt this (lt_two_pow_numRequiredBits _)
    · rw [hpad v h]; exact Nat.two_pow_pos _
  rw [bitsOfBytes_packBytes width _ (by simp [hlen]; exact h8)]
  rw [unpack_pack width _ rest xs.length (by simp [hlen]) hfit]
  rw [List.take_append_of_le_length (by simp [hlen]), List.take_of_length_le (by simp [hlen])]
  exact recon_deltas minDelta xs last


/-! ### byte-array encodings: the list-level cores -/

/-- the decoder side of DELTA_BYTE_ARRAY: `previous_value[0..prefix_len] ++ suffix` -/
def dbaJoin : List Nat → List (Nat × List Nat) → List (List Nat)
  | _, [] => []
  | prev, (k, suf) :: rest => (prev.take k ++ suf) :: dbaJoin (prev.take k ++ suf) rest

theorem take_commonPrefix (prev x : List Nat) :
    prev.take (commonPrefixLen prev x) ++ x.drop (commonPrefixLen prev x) = x := by
  induction prev generalizing x with
  | nil => simp [commonPrefixLen]
  | cons a as ih =>
    cases x with
    | nil => simp [commonPrefixLen]
    | cons b bs =>
      simp only [commonPrefixLen]
      by_cases h : a = b
      · subst h; simp [ih bs]
      · simp [h]

/-- prefix / suffix splitting of DELTA_BYTE_ARRAY is inverted by prefix re-use -/
theorem dbaJoin_dbaSplit (xs : List (List Nat)) : ∀ prev, dbaJoin prev (dbaSplit prev xs) = xs := by
  induction xs with
  | nil => intro prev; rfl
  | cons x xs ih =>
    intro prev
    simp only [dbaSplit, dbaJoin, take_commonPrefix, ih]

/-- the decoder side of DELTA_LENGTH_BYTE_ARRAY: cut the concatenated data by the lengths -/
def splitLens : List Nat → List Nat → List (List Nat)
  | [], _ => []
  | n :: ns, data => data.take n :: splitLens ns (data.drop n)

theorem splitLens_flatten (xs : List (List Nat)) (rest : List Nat) :
    splitLens (xs.map List.length) (xs.flatten ++ rest) = xs := by
  induction xs with
  | nil => rfl
  | cons x xs ih =>
    simp only [List.map_cons, List.flatten_cons, splitLens, List.append_assoc]
    rw [List.take_left' rfl, List.drop_left' rfl, ih]


/-! ### BYTE_STREAM_SPLIT -/


theorem getD_flatMap_chunks (f : Nat → List Nat) (n : Nat) (hf : ∀ k, (f k).length = n) :
    ∀ (m s k i : Nat), k < m → i < n →
      ((List.range' s m).flatMap f).getD (k * n + i) 0 = (f (s + k)).getD i 0 := by
  intro m
  induction m with
  | zero => intro s k i hk; omega
  | succ m ih =>
    intro s k i hk hi
    rw [List.range'_succ, List.flatMap_cons]
    cases k with
    | zero =>
      simp only [Nat.zero_mul, Nat.zero_add, Nat.add_zero]
      rw [List.getD_eq_getElem?_getD, List.getD_eq_getElem?_getD, List.getElem?_append_left (by rw [hf]; exact hi)]
    | succ k =>
      rw [List.getD_eq_getElem?_getD, List.getElem?_append_right (by rw [hf]; rw [Nat.add_mul]; omega), hf,
        show (k + 1) * n + i - n = k * n + i by rw [Nat.add_mul]; omega, ← List.getD_eq_getElem?_getD,
        ih (s + 1) k i (by omega) hi, show s + 1 + k = s + (k + 1) by omega]

/-- **BYTE_STREAM_SPLIT round trip**: transposing back returns every value -/
theorem byteStreamJoin_split (size : Nat) (xs : List (List Nat)) (h : ∀ x ∈ xs, x.length = size) :
    byteStreamJoin size xs.length (byteStreamSplit size xs) = xs := by
  apply List.ext_getElem
  · simp [byteStreamJoin]
  · intro i h1 h2
    have hx := h xs[i] (List.getElem_mem h2)
    simp only [byteStreamJoin, List.getElem_map, List.getElem_range]
    apply List.ext_getElem
    · simp [hx]
    · intro k hk1 hk2
      have hk : k < size := by simpa using hk1
      simp only [List.getElem_map, List.getElem_range]
      unfold byteStreamSplit
      rw [List.range_eq_range', getD_flatMap_chunks (fun k => xs.map (fun b => b.getD k 0)) xs.length (by simp) size 0 k i hk h2]
      simp [List.getD_eq_getElem?_getD, h2, hk2]

end ArrowModel.C05
