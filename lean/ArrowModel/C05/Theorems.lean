import ArrowModel.C05.Lemmas
import ArrowModel.C05.LevelsLemmas
import ArrowModel.C05.DeltaLemmas
/-
C05 — property theorems.  "Parquet write then read returns the same values": the parts of
the write/read pipeline that are *formats with an encoder and a decoder* are proved to
round-trip for every input, on the models of `Model.lean` (tied to /repo by the
correspondence run and the regenerated constants):

* LSB-first bit packing (`BitWriter::put_value` layout / `BitReader::get_batch`),
* ULEB128 and zig-zag (`put_vlq_int`, `put_zigzag_vlq_int`, `get_vlq_int`, `get_zigzag_vlq_int`),
* the RLE / bit-packing hybrid used for definition levels, repetition levels, dictionary
  indices and booleans: the `RleEncoder` state machine (`put`, `flush_buffered_values`,
  `flush`, the `repeat_count ≥ 8` rule, groups of 8, at most 63 groups per bit-packed run)
  followed by `RleDecoder::set_data` + `get_batch`,
* Dremel shredding: the level/value stream of a column is the concatenation of the streams
  of its rows, so it does not depend on how rows are split into `write()` calls.

All statements quantify over every bit width, value list and run decomposition (no bound
other than the reader's 32-bit run counters).
-/
namespace ArrowModel.C05
open ArrowModel.Generated.C05

/-- **Zig-zag round trip** for every `i64`: the line of `get_zigzag_vlq_int` inverts the line
of `put_zigzag_vlq_int` (shift amounts are regenerated from the source). -/
theorem zigzag_roundtrip_i64 (v : BitVec 64) : zigzagDec (zigzagEnc v) = v := zigzag_roundtrip v

/-- **ULEB128 round trip** for every `u64`: `BitReader::get_vlq_int` (7-bit groups, continuation
bit `0x80`, at most `MAX_VLQ_BYTE_LEN` bytes) reads back the value `varint-encode` wrote and
stops exactly behind it, whatever follows. -/
theorem uleb_roundtrip (n : Nat) (rest : List Nat) (h : n < 2 ^ 64) :
    getVlq (bitsOfBytes (uleb n ++ rest)) = .ok n (bitsOfBytes rest) := getVlq_uleb n rest h

example : (18446744073709551615 : Nat) < 2 ^ 64 := by decide

/-- **Bit packing round trip** for every width and value list: reading `k ≤ n` fields of
width `w` from the LSB-first packing of `n` values `< 2^w` returns the first `k` values,
whatever follows the packed data. -/
theorem bitpack_roundtrip (w : Nat) (vals : List Nat) (rest : List Bool) (k : Nat)
    (hk : k ≤ vals.length) (hv : ∀ v ∈ vals, v < 2 ^ w) :
    unpack w k (vals.flatMap (bitsLE w) ++ rest) = vals.take k := unpack_pack w vals rest k hk hv

example : ∀ v ∈ [5, 0, 7, 3], v < 2 ^ 3 := by decide

/-- whole groups of 8 values occupy whole bytes: the byte string of a bit-packed run, read
back as bits, is exactly the concatenation of the `w`-bit fields -/
theorem packBytes_bits (w : Nat) (vs : List Nat) (h : vs.length % 8 = 0) :
    bitsOfBytes (packBytes w vs) = vs.flatMap (bitsLE w) := bitsOfBytes_packBytes w vs h

/-- **The encoder emits a valid decomposition.**  For every input, the runs chosen by the
`RleEncoder` state machine (`put*` then `flush`) are non-empty, bit-packed runs consist of
whole groups of 8, and the runs denote exactly the input followed by fewer than 8 zeros of
padding (in the last bit-packed run). -/
theorem rleEncoder_runs (xs : List Nat) :
    (∃ k, k < 8 ∧ runsValues (rleRuns xs) = xs ++ List.replicate k 0) ∧ ∀ r ∈ rleRuns xs, r.Ok :=
  rleRuns_values xs

/-- **Format-level round trip**: *any* valid run sequence (not only the one `RleEncoder`
chooses) decodes, through `RleDecoder::set_data` + `get_batch(n)`, to its first `n` values. -/
theorem rleDecoder_any_valid_runs (w : Nat) (runs : List Run) (hvalid : ∀ r ∈ runs, r.Valid w)
    (n : Nat) (hn : n ≤ (runsValues runs).length) :
    rleDecode w (encodeRuns w runs) n = .ok ((runsValues runs).take n) :=
  rleDecode_runs w runs hvalid n hn

example : ∀ r ∈ [Run.rle 3 1, Run.packed [0, 1, 2, 3, 3, 2, 1, 0], Run.rle 100 2], r.Valid 2 := by
  intro r hr
  simp only [List.mem_cons, List.not_mem_nil, or_false] at hr
  rcases hr with h | h | h <;> subst h <;> simp [Run.Valid] <;> decide

/-- **RLE / bit-packing hybrid round trip.**  For every bit width `w`, every value list with
all values `< 2^w` (and fewer than `2^31 - 8` values, the reader's run counters being 32
bit): decoding `xs.length` values from the serialisation of the runs the encoder state
machine produces returns `xs`. -/
theorem rle_roundtrip (w : Nat) (xs : List Nat) (hv : ∀ x ∈ xs, x < 2 ^ w) (hl : xs.length + 8 < 2 ^ 31) :
    rleDecode w (encodeRuns w (rleRuns xs)) xs.length = .ok xs := rle_roundtrip_runs w xs hv hl

example : (∀ x ∈ [1, 1, 1, 1, 1, 1, 1, 1, 1, 2, 3], x < 2 ^ 2) ∧ [1, 1, 1, 1, 1, 1, 1, 1, 1, 2, 3].length + 8 < 2 ^ 31 := by
  decide

/-- PARTIAL (gap): `rle_roundtrip` is about `encodeRuns w (rleRuns xs)`, the run-level
state machine; the byte-level `RleEncoder` model with the `BitWriter` accumulator and the
back-patched indicator byte (`rleEncode`) is proved equal to it only for inputs the driver
evaluates (checked on every `rle-enc` case, `MODEL-SPEC-MISMATCH` otherwise).  What is proved
here is the bulk path used by `LevelEncoder`: once the encoder is accumulating a run,
`extend_run(1)` is the same as `put(value)`. -/
theorem extendRun_eq_put_partial (s : RleEnc) (v : Nat) (h : s.isAccumulatingRle v = true) :
    s.put v = s.extendRun 1 := by
  simp only [RleEnc.isAccumulatingRle, Bool.and_eq_true, decide_eq_true_eq, BIT_PACK_GROUP_SIZE] at h
  obtain ⟨h8, hc⟩ := h
  have h8' : 8 ≤ s.rep := of_decide_eq_true h8
  unfold RleEnc.put RleEnc.extendRun
  simp only [hc, if_true, BIT_PACK_GROUP_SIZE]
  rw [if_pos (show s.rep + 1 > 8 by omega)]

/-- **Batch-split independence of shredding**: the definition/repetition level and value
streams of a column are the concatenation of the streams of any partition of its rows into
write batches. -/
theorem shred_partition (p : List Layer) (parts : List (List (ValOf p))) :
    shredCol p parts.flatten = (parts.map (shredCol p)).flatten := by
  unfold shredCol
  induction parts with
  | nil => simp
  | cons a as ih => simp [List.flatMap_append, ih]

/-- **Record assembly inverts shredding**, for every layer path (any nesting of nullable /
required leaves, structs and lists) and every value: cutting the entry stream at the
repetition levels and reading nulls / empty lists off the definition levels gives the value
back — nulls at every level and empty lists included. -/
theorem assemble_inverts_shred (p : List Layer) (d k r : Nat) (v : ValOf p) :
    assemble p d k (shred p d k r v) = some v := assemble_shred p d k r v

/-- the same for a whole column: rows are delimited by repetition level 0 -/
theorem assembleCol_inverts_shredCol (p : List Layer) (rows : List (ValOf p)) :
    assembleCol p (shredCol p rows) = some rows := assembleCol_shredCol p rows

example (rows : List (Option (List (Option Nat)))) :
    assembleCol [.opt, .rep, .opt] (shredCol [.opt, .rep, .opt] rows) = some rows :=
  assembleCol_inverts_shredCol [.opt, .rep, .opt] rows

/-- **`write_leaf`, all three paths** (all-null fast path; bulk fill of long null-heavy ranges,
gated by the regenerated `BULK_FILL_MIN_LEN` / 50 % threshold, with the `+ range.start` rebase
of `non_null_indices`; per-element path): for every validity buffer and every sub-range the
levels and non-null indices are exactly those of the element-by-element writer. -/
theorem writeLeaf_all_paths (nl : Bool) (valid : Option (List Bool)) (n d k a b : Nat)
    (hwf : ∀ bs, valid = some bs → bs.length = n) (hb : b ≤ n) :
    writeLeaf nl valid d k a b = rangeLv (.leaf nl valid n) d k a b := writeLeaf_eq nl valid n d k a b hwf hb

/-- **The run-batched `LevelInfoBuilder` equals the textbook row-by-row shredder** on every
well-formed array whose leaf path has at most one list level (nullable / required leaf,
struct and list nodes in any order around it): all-null fast paths, null / non-null run
batching of `write_struct`, Null / Empty / NonEmpty run classification of `write_list_impl`,
the batched child write and the `write_list_direct` re-stamping of slot starts, for every
sub-range `a..b`. -/
theorem levelBuilder_batched_eq_textbook (arr : PArr) (hwf : arr.WF) (hd : arr.Direct)
    (d k a b : Nat) (hab : a ≤ b) (hb : b ≤ arr.len) :
    bwrite arr d k a b = rangeLv arr d k a b := bwrite_eq_rangeLv arr hwf hd d k a b hab hb

example : (PArr.list true (some [true, false]) [0, 2, 2] (.leaf true (some [true, false]) 2)).WF ∧
    (PArr.list true (some [true, false]) [0, 2, 2] (.leaf true (some [true, false]) 2)).Direct := by
  refine ⟨⟨?_, ?_, ?_, ?_⟩, ⟨rfl, trivial⟩⟩
  · intro bs h; cases h; rfl
  · intro i hi
    have : i = 0 ∨ i = 1 := by simp at hi; omega
    rcases this with h | h <;> subst h <;> decide
  · intro i hi
    have : i = 0 ∨ i = 1 ∨ i = 2 := by simp at hi; omega
    rcases this with h | h | h <;> subst h <;> decide
  · intro bs h; cases h; rfl

/-- PARTIAL (gap): for nested lists (a list whose elements contain another list) the builder
re-stamps by the backward scan of `write_list_scan`; `stampScan` models it as written and the
driver / `#eval` agree with the textbook writer on examples, but only the run decomposition
part is proved for it: whatever `emit_non_empty_run` does, batching by maximal runs is sound. -/
theorem listRuns_sound_partial {κ : Type} [DecidableEq κ] (cls : Nat → κ) (E : κ × Nat × Nat → Lv)
    (S : Nat → Lv) (a b : Nat)
    (H : ∀ kind s e, a ≤ s → s < e → e ≤ b → (∀ i, s ≤ i → i < e → cls i = kind) →
      E (kind, s, e) = Lv.cat ((List.range' s (e - s)).map S)) :
    Lv.cat ((runsOf cls a b).map E) = Lv.cat ((List.range' a (b - a)).map S) := runsOf_cat cls E S a b H

/-- the two `+ range.start` rebases of `non_null_indices` in `write_leaf` are still in the source
(regenerated on every run; dropping one makes this fail, as it would make `writeLeaf_all_paths`
false for the code) -/
theorem leaf_rebase_present : LEAF_BULK_REBASE_lost = false ∧ LEAF_ITER_REBASE_lost = false := by decide

/-- **DELTA_BINARY_PACKED, wrapping core**: for every bit pattern of value, previous value and
block minimum (overflow / wrap-around included), `raw + min_delta + last_value` restores the
value whose delta was stored as `(value - last_value) - min_delta`. -/
theorem delta_wrapping_core {n : Nat} (v last md : BitVec n) :
    BitVec.ofNat n ((v - last) - md).toNat + md + last = v := delta_core v last md

/-- PARTIAL (gap: the header, the sequencing of blocks / mini blocks and the width bytes in the
decoder state machine `deltaGetLoop` are compared with the real decoder, not proved): one
INT64 mini block of `flush_block_values` — deltas minus the block minimum, packed at the width
of the mini block's maximum, zero padded — is unpacked and reconstructed to the original
values, for every value list incl. wrap-around. -/
theorem delta_miniblock_i64_partial (last : BitVec 64) (xs blockDeltas : List (BitVec 64))
    (pad : List Nat) (rest : List Bool) (hsub : ∀ d ∈ deltasFrom last xs, d ∈ blockDeltas)
    (h8 : (xs.length + pad.length) % 8 = 0) (hpad : ∀ p ∈ pad, p = 0) :
    let ds := deltasFrom last xs
    let minDelta := sminList (blockDeltas.headD 0) blockDeltas
    let width := numRequiredBits (smaxList (ds.headD 0) ds - minDelta).toNat
    recon minDelta last (unpack width xs.length
      (bitsOfBytes (packBytes width (ds.map (fun d => (d - minDelta).toNat) ++ pad)) ++ rest)) = xs :=
  deltaMiniBlock_roundtrip64_partial last xs blockDeltas pad rest hsub h8 hpad

/-- the same for INT32 -/
theorem delta_miniblock_i32_partial (last : BitVec 32) (xs blockDeltas : List (BitVec 32))
    (pad : List Nat) (rest : List Bool) (hsub : ∀ d ∈ deltasFrom last xs, d ∈ blockDeltas)
    (h8 : (xs.length + pad.length) % 8 = 0) (hpad : ∀ p ∈ pad, p = 0) :
    let ds := deltasFrom last xs
    let minDelta := sminList (blockDeltas.headD 0) blockDeltas
    let width := numRequiredBits (smaxList (ds.headD 0) ds - minDelta).toNat
    recon minDelta last (unpack width xs.length
      (bitsOfBytes (packBytes width (ds.map (fun d => (d - minDelta).toNat) ++ pad)) ++ rest)) = xs :=
  deltaMiniBlock_roundtrip32_partial last xs blockDeltas pad rest hsub h8 hpad

example : (∀ d ∈ deltasFrom (5 : BitVec 64) [9223372036854775807#64, 0#64], d ∈ deltasFrom (5 : BitVec 64) [9223372036854775807#64, 0#64]) :=
  fun _ h => h

/-- PARTIAL (gap: the two length streams are DELTA_BINARY_PACKED, see above): the prefix /
suffix split of `DeltaByteArrayEncoder::put` is inverted by the decoder's
`previous[..prefix_len] ++ suffix`. -/
theorem dba_prefix_suffix_partial (xs : List (List Nat)) (prev : List Nat) :
    dbaJoin prev (dbaSplit prev xs) = xs := dbaJoin_dbaSplit xs prev

/-- PARTIAL (same gap): cutting the concatenated data of DELTA_LENGTH_BYTE_ARRAY by the lengths
returns the byte arrays. -/
theorem dlba_split_partial (xs : List (List Nat)) (rest : List Nat) :
    splitLens (xs.map List.length) (xs.flatten ++ rest) = xs := splitLens_flatten xs rest

/-- **BYTE_STREAM_SPLIT round trip** for every list of equal-width values. -/
theorem byteStreamSplit_roundtrip (size : Nat) (xs : List (List Nat)) (h : ∀ x ∈ xs, x.length = size) :
    byteStreamJoin size xs.length (byteStreamSplit size xs) = xs := byteStreamJoin_split size xs h

example : ∀ x ∈ [[1, 2, 3, 4], [5, 6, 7, 8]], x.length = 4 := by decide

/-- **Source shapes**: the guard conditions, level arithmetic and wrapping expressions the models
of `RleEncoder`, `BitWriter` / `BitReader`, `LevelInfoBuilder` and `DeltaBitPackEncoder` were
written from are still literally present in the sources (regenerated by `tools/translate.py` on
every run; an edit of any of these 40 fragments makes its item LOST and this theorem false, so the
change is reported even when the sampled correspondence would not see it). -/
theorem source_shapes_present :
    SH_RLE_PUT_SKIP_lost = false ∧
    SH_RLE_PUT_FLUSH_lost = false ∧
    SH_RLE_PUT_RESET_lost = false ∧
    SH_RLE_GROUP_FULL_lost = false ∧
    SH_RLE_FBV_GUARD_lost = false ∧
    SH_RLE_FBV_CLOSE_lost = false ∧
    SH_RLE_MAX_GROUPS_lost = false ∧
    SH_RLE_FLUSH_ALLREP_lost = false ∧
    SH_RLE_FLUSH_PAD_lost = false ∧
    SH_RLE_VALUE_WIDTH_lost = false ∧
    SH_RLE_DEC_ZERO_lost = false ∧
    SH_RLE_DEC_ORDER_lost = false ∧
    SH_BW_PUT_lost = false ∧
    SH_BW_CARRY_lost = false ∧
    SH_BR_GET_lost = false ∧
    SH_BR_VLQ_LIMIT_lost = false ∧
    SH_RLE_BOOL_EMPTY_FLUSH_lost = false ∧
    SH_LV_CHUNK_BOUNDS_lost = false ∧
    SH_BR_BOUND_lost = false ∧
    SH_LV_LIST_DEF_lost = false ∧
    SH_LV_STRUCT_DEF_lost = false ∧
    SH_LV_LIST_REP_lost = false ∧
    SH_LV_START_REP_lost = false ∧
    SH_LV_NULLS_lost = false ∧
    SH_LV_EMPTIES_lost = false ∧
    SH_LV_CLASSIFY_lost = false ∧
    SH_LV_STAMP_lost = false ∧
    SH_LV_CHILD_RANGE_lost = false ∧
    SH_LV_STRUCT_NULL_lost = false ∧
    SH_LV_LEAF_ALLNULL_lost = false ∧
    SH_LV_LEAF_DEF_lost = false ∧
    SH_LV_LEAF_BULK_SET_lost = false ∧
    SH_LV_LEAF_MAXDEF_lost = false ∧
    SH_DL_SUB32_lost = false ∧
    SH_DL_WIDTH_lost = false ∧
    SH_DL_DELTA_lost = false ∧
    SH_DL_MIN_lost = false ∧
    SH_DL_PACKED_lost = false ∧
    SH_DL_DEC_ADD_lost = false ∧
    SH_DBA_PREFIX_lost = false := by
  decide

/-- **Format constants** the specification (`encodeRun`, `uleb`, `Run.Valid`) and the proofs
hard-code, as regenerated from the current sources by `tools/translate.py`: a change of any
of these literals in `rle.rs` / `bit_util.rs` / `encoding/mod.rs` / `decoding.rs` breaks this
theorem (and the model changes with it). -/
theorem format_constants :
    BIT_PACK_GROUP_SIZE = 8 ∧ MAX_GROUPS_PER_BIT_PACKED_RUN ≤ 128 ∧
    RLE_INDICATOR_SHIFT = 1 ∧ BP_INDICATOR_SHIFT = 1 ∧ BP_INDICATOR_FLAG = 1 ∧
    DEC_INDICATOR_FLAG_MASK = 1 ∧ DEC_BP_SHIFT = 1 ∧ DEC_RLE_SHIFT = 1 ∧
    VLQ_CONT_MASK = 2 ^ 64 - 128 ∧ VLQ_PAYLOAD_MASK = 127 ∧ VLQ_CONT_BIT = 128 ∧
    VLQ_SHIFT = 7 ∧ VLQ_READ_SHIFT = 7 ∧ 7 * MAX_VLQ_BYTE_LEN ≥ 64 ∧
    ZIGZAG_ENC_SHL = 1 ∧ ZIGZAG_ENC_SAR = 63 ∧ ZIGZAG_DEC_SHR = 1 ∧
    (DELTA_MINI_BLOCK_SIZE_I32 * DEFAULT_NUM_MINI_BLOCKS) % DELTA_BLOCK_MULTIPLE = 0 ∧
    (DELTA_MINI_BLOCK_SIZE_I64 * DEFAULT_NUM_MINI_BLOCKS) % DELTA_BLOCK_MULTIPLE = 0 ∧
    DELTA_MINI_BLOCK_SIZE_I32 % DELTA_MINI_BLOCK_MULTIPLE = 0 ∧
    DELTA_MINI_BLOCK_SIZE_I64 % DELTA_MINI_BLOCK_MULTIPLE = 0 ∧
    0 < BULK_FILL_MIN_LEN ∧ 0 < BULK_FILL_NULL_FACTOR ∧
    -- a bit-packed run's group count fits the single indicator byte the encoder reserves
    ((MAX_GROUPS_PER_BIT_PACKED_RUN - 1) <<< BP_INDICATOR_SHIFT ||| BP_INDICATOR_FLAG) < 256 := by
  decide

end ArrowModel.C05
