import ArrowModel.C05.Lemmas
/-
C05 — property theorems.  "Parquet write then read returns the same values": the parts of
the write/read pipeline that are *formats with an encoder and a decoder* are proved to
round-trip for every input, on the models of `Model.lean` (tied to /repo by the
correspondence run and the regenerated constants):

* LSB-first bit packing (`BitWriter::put_value` layout / `BitReader::get_batch`),
* ULEB128 and zig-zag (`put_vlq_int`, `put_zigzag_vlq_int`, `get_vlq_int`, `get_zigzag_vlq_int`),
* the RLE / bit-packing hybrid used for definition levels, repetition levels, dictionary
  indices and booleans: the `RleEncoder` state machine (`put`, `flush_buffered_values`,
  `flush`, the `repeat_count ≥ 8` rule, groups of 8, at most 63 groups per bit-packed run)
  followed by `RleDecoder::set_data` + `get_batch`,
* Dremel shredding: the level/value stream of a column is the concatenation of the streams
  of its rows, so it does not depend on how rows are split into `write()` calls.

All statements quantify over every bit width, value list and run decomposition (no bound
other than the reader's 32-bit run counters).
-/
namespace ArrowModel.C05
open ArrowModel.Generated.C05

/-- **Zig-zag round trip** for every `i64`: the line of `get_zigzag_vlq_int` inverts the line
of `put_zigzag_vlq_int` (shift amounts are regenerated from the source). -/
theorem zigzag_roundtrip_i64 (v : BitVec 64) : zigzagDec (zigzagEnc v) = v := zigzag_roundtrip v

/-- **ULEB128 round trip** for every `u64`: `BitReader::get_vlq_int` (7-bit groups, continuation
bit `0x80`, at most `MAX_VLQ_BYTE_LEN` bytes) reads back the value `varint-encode` wrote and
stops exactly behind it, whatever follows. -/
theorem uleb_roundtrip (n : Nat) (rest : List Nat) (h : n < 2 ^ 64) :
    getVlq (bitsOfBytes (uleb n ++ rest)) = .ok n (bitsOfBytes rest) := getVlq_uleb n rest h

example : (18446744073709551615 : Nat) < 2 ^ 64 := by decide

/-- **Bit packing round trip** for every width and value list: reading `k ≤ n` fields of
width `w` from the LSB-first packing of `n` values `< 2^w` returns the first `k` values,
whatever follows the packed data. -/
theorem bitpack_roundtrip (w : Nat) (vals : List Nat) (rest : List Bool) (k : Nat)
    (hk : k ≤ vals.length) (hv : ∀ v ∈ vals, v < 2 ^ w) :
    unpack w k (vals.flatMap (bitsLE w) ++ rest) = vals.take k := unpack_pack w vals rest k hk hv

example : ∀ v ∈ [5, 0, 7, 3], v < 2 ^ 3 := by decide

/-- whole groups of 8 values occupy whole bytes: the byte string of a bit-packed run, read
back as bits, is exactly the concatenation of the `w`-bit fields -/
theorem packBytes_bits (w : Nat) (vs : List Nat) (h : vs.length % 8 = 0) :
    bitsOfBytes (packBytes w vs) = vs.flatMap (bitsLE w) := bitsOfBytes_packBytes w vs h

/-- **The encoder emits a valid decomposition.**  For every input, the runs chosen by the
`RleEncoder` state machine (`put*` then `flush`) are non-empty, bit-packed runs consist of
whole groups of 8, and the runs denote exactly the input followed by fewer than 8 zeros of
padding (in the last bit-packed run). -/
theorem rleEncoder_runs (xs : List Nat) :
    (∃ k, k < 8 ∧ runsValues (rleRuns xs) = xs ++ List.replicate k 0) ∧ ∀ r ∈ rleRuns xs, r.Ok :=
  rleRuns_values xs

/-- **Format-level round trip**: *any* valid run sequence (not only the one `RleEncoder`
chooses) decodes, through `RleDecoder::set_data` + `get_batch(n)`, to its first `n` values. -/
theorem rleDecoder_any_valid_runs (w : Nat) (runs : List Run) (hvalid : ∀ r ∈ runs, r.Valid w)
    (n : Nat) (hn : n ≤ (runsValues runs).length) :
    rleDecode w (encodeRuns w runs) n = .ok ((runsValues runs).take n) :=
  rleDecode_runs w runs hvalid n hn

example : ∀ r ∈ [Run.rle 3 1, Run.packed [0, 1, 2, 3, 3, 2, 1, 0], Run.rle 100 2], r.Valid 2 := by
  intro r hr
  simp only [List.mem_cons, List.not_mem_nil, or_false] at hr
  rcases hr with h | h | h <;> subst h <;> simp [Run.Valid] <;> decide

/-- **RLE / bit-packing hybrid round trip.**  For every bit width `w`, every value list with
all values `< 2^w` (and fewer than `2^31 - 8` values, the reader's run counters being 32
bit): decoding `xs.length` values from the serialisation of the runs the encoder state
machine produces returns `xs`. -/
theorem rle_roundtrip (w : Nat) (xs : List Nat) (hv : ∀ x ∈ xs, x < 2 ^ w) (hl : xs.length + 8 < 2 ^ 31) :
    rleDecode w (encodeRuns w (rleRuns xs)) xs.length = .ok xs := rle_roundtrip_runs w xs hv hl

example : (∀ x ∈ [1, 1, 1, 1, 1, 1, 1, 1, 1, 2, 3], x < 2 ^ 2) ∧ [1, 1, 1, 1, 1, 1, 1, 1, 1, 2, 3].length + 8 < 2 ^ 31 := by
  decide

/-- PARTIAL (gap): `rle_roundtrip` is about `encodeRuns w (rleRuns xs)`, the run-level
state machine; the byte-level `RleEncoder` model with the `BitWriter` accumulator and the
back-patched indicator byte (`rleEncode`) is proved equal to it only for inputs the driver
evaluates (checked on every `rle-enc` case, `MODEL-SPEC-MISMATCH` otherwise).  What is proved
here is the bulk path used by `LevelEncoder`: once the encoder is accumulating a run,
`extend_run(1)` is the same as `put(value)`. -/
theorem extendRun_eq_put_partial (s : RleEnc) (v : Nat) (h : s.isAccumulatingRle v = true) :
    s.put v = s.extendRun 1 := by
  simp only [RleEnc.isAccumulatingRle, Bool.and_eq_true, decide_eq_true_eq, BIT_PACK_GROUP_SIZE] at h
  obtain ⟨h8, hc⟩ := h
  have h8' : 8 ≤ s.rep := of_decide_eq_true h8
  unfold RleEnc.put RleEnc.extendRun
  simp only [hc, if_true, BIT_PACK_GROUP_SIZE]
  rw [if_pos (show s.rep + 1 > 8 by omega)]

/-- **Batch-split independence of shredding**: the definition/repetition level and value
streams of a column are the concatenation of the streams of any partition of its rows into
write batches. -/
theorem shred_partition (p : List Layer) (parts : List (List (ValOf p))) :
    shredCol p parts.flatten = (parts.map (shredCol p)).flatten := by
  unfold shredCol
  induction parts with
  | nil => simp
  | cons a as ih => simp [List.flatMap_append, ih]

/-- **Format constants** the specification (`encodeRun`, `uleb`, `Run.Valid`) and the proofs
hard-code, as regenerated from the current sources by `tools/translate.py`: a change of any
of these literals in `rle.rs` / `bit_util.rs` / `encoding/mod.rs` / `decoding.rs` breaks this
theorem (and the model changes with it). -/
theorem format_constants :
    BIT_PACK_GROUP_SIZE = 8 ∧ MAX_GROUPS_PER_BIT_PACKED_RUN ≤ 128 ∧
    RLE_INDICATOR_SHIFT = 1 ∧ BP_INDICATOR_SHIFT = 1 ∧ BP_INDICATOR_FLAG = 1 ∧
    DEC_INDICATOR_FLAG_MASK = 1 ∧ DEC_BP_SHIFT = 1 ∧ DEC_RLE_SHIFT = 1 ∧
    VLQ_CONT_MASK = 2 ^ 64 - 128 ∧ VLQ_PAYLOAD_MASK = 127 ∧ VLQ_CONT_BIT = 128 ∧
    VLQ_SHIFT = 7 ∧ VLQ_READ_SHIFT = 7 ∧ 7 * MAX_VLQ_BYTE_LEN ≥ 64 ∧
    ZIGZAG_ENC_SHL = 1 ∧ ZIGZAG_ENC_SAR = 63 ∧ ZIGZAG_DEC_SHR = 1 ∧
    (DELTA_MINI_BLOCK_SIZE_I32 * DEFAULT_NUM_MINI_BLOCKS) % DELTA_BLOCK_MULTIPLE = 0 ∧
    (DELTA_MINI_BLOCK_SIZE_I64 * DEFAULT_NUM_MINI_BLOCKS) % DELTA_BLOCK_MULTIPLE = 0 ∧
    DELTA_MINI_BLOCK_SIZE_I32 % DELTA_MINI_BLOCK_MULTIPLE = 0 ∧
    DELTA_MINI_BLOCK_SIZE_I64 % DELTA_MINI_BLOCK_MULTIPLE = 0 ∧
    -- a bit-packed run's group count fits the single indicator byte the encoder reserves
    ((MAX_GROUPS_PER_BIT_PACKED_RUN - 1) <<< BP_INDICATOR_SHIFT ||| BP_INDICATOR_FLAG) < 256 := by
  decide

end ArrowModel.C05
