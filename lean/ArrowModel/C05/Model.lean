/-
C05 — algorithm model of the Parquet level / value encoders and decoders in
`parquet/src/util/bit_util.rs`, `parquet/src/encodings/rle.rs`,
`parquet/src/encodings/encoding/mod.rs`, `parquet/src/encodings/decoding.rs`, and of the
record assembly from definition / repetition levels.

Writers are modelled *as written* (state machines over byte lists, `u64` accumulator made
explicit).  Readers are modelled on the remaining input as a bit string (LSB-first in each
byte): the position of `BitReader` is "how many bits were dropped", `get_value` takes `w`
bits, byte alignment drops `length % 8` bits.  The word-at-a-time fast paths of
`BitReader::get_batch` (`unpack8/16/32/64`) are represented by their contract (equal to
repeated `get_value`), which the correspondence run checks against the real decoder.
Imports only the generated constants, the specification and core.
-/
import ArrowModel.Generated.C05
import ArrowModel.C05.Spec
namespace ArrowModel.C05
open ArrowModel.Generated.C05

/-- truncation to a `u64` -/
def u64 (x : Nat) : Nat := x % 2 ^ 64
/-- truncation to a `u32` -/
def u32 (x : Nat) : Nat := x % 2 ^ 32

/-- `bit_util::ceil(a, b)` -/
def ceilDiv (a b : Nat) : Nat := (a + b - 1) / b

/-- `bit_util::num_required_bits(x)`: `64 - x.leading_zeros()` -/
def numRequiredBits (x : Nat) : Nat := x.log2 + (if x = 0 then 0 else 1)

/-! ### `BitWriter` (bit_util.rs) -/

structure BitWriter where
  /-- `buffer` -/
  buf : List Nat := []
  /-- `buffered_values` (a `u64`) -/
  bv : Nat := 0
  /-- `bit_offset` -/
  off : Nat := 0
  deriving Repr

namespace BitWriter

/-- `BitWriter::flush` -/
def flush (s : BitWriter) : BitWriter :=
  { buf := s.buf ++ leBytes (ceilDiv s.off 8) s.bv, bv := 0, off := 0 }

/-- `BitWriter::put_value(v, num_bits)` -/
def putValue (s : BitWriter) (v w : Nat) : BitWriter :=
  let bv := u64 (s.bv ||| (v <<< s.off))
  let off := s.off + w
  if 64 ≤ off then
    let rem := off - 64
    { buf := s.buf ++ leBytes 8 bv, off := rem,
      -- `v.checked_shr(num_bits - bit_offset).unwrap_or(0)`
      bv := if 64 ≤ w - rem then 0 else v >>> (w - rem) }
  else { s with bv := bv, off := off }

/-- `BitWriter::skip(num_bytes)`: returns the writer and the offset of the reserved bytes -/
def skip (s : BitWriter) (n : Nat) : BitWriter × Nat :=
  let s := s.flush
  ({ s with buf := s.buf ++ List.replicate n 0 }, s.buf.length)

/-- `BitWriter::put_aligned(val, num_bytes)` for a value of `size` bytes -/
def putAligned (s : BitWriter) (val size numBytes : Nat) : BitWriter :=
  let s := s.flush
  { s with buf := s.buf ++ leBytes (min numBytes size) val }

/-- `BitWriter::put_aligned_offset::<u8>(val, 1, offset)` / `write_at` -/
def writeAt (s : BitWriter) (offset val : Nat) : BitWriter :=
  { s with buf := s.buf.set offset (val % 256) }

/-- the loop of `BitWriter::put_vlq_int`; `fuel` bounds the iterations (10 suffice for a u64) -/
def putVlqLoop : Nat → BitWriter → Nat → BitWriter
  | 0, s, _ => s
  | fuel + 1, s, v =>
    if v &&& VLQ_CONT_MASK ≠ 0 then
      putVlqLoop fuel (s.putAligned ((v &&& VLQ_PAYLOAD_MASK) ||| VLQ_CONT_BIT) 1 1) (v >>> VLQ_SHIFT)
    else s.putAligned (v &&& VLQ_PAYLOAD_MASK) 1 1

/-- `BitWriter::put_vlq_int(v)` for `v : u64` -/
def putVlq (s : BitWriter) (v : Nat) : BitWriter := putVlqLoop (MAX_VLQ_BYTE_LEN + 1) s (u64 v)

/-- `BitWriter::consume` -/
def consume (s : BitWriter) : List Nat := s.flush.buf

end BitWriter

/-- the zig-zag line of `put_zigzag_vlq_int`: `((v << 1) ^ (v >> 63)) as u64` -/
def zigzagEnc (v : BitVec 64) : BitVec 64 := (v <<< ZIGZAG_ENC_SHL) ^^^ (v.sshiftRight ZIGZAG_ENC_SAR)

/-- the zig-zag line of `get_zigzag_vlq_int`: `(u >> 1) as i64 ^ -((u & 1) as i64)` -/
def zigzagDec (u : BitVec 64) : BitVec 64 := (u >>> ZIGZAG_DEC_SHR) ^^^ (-(u &&& 1))

/-! ### `BitWriter` / `BitReader` call sequences (every public entry point, in any order) -/

inductive BwOp where
  | value (w v : Nat)          -- put_value
  | aligned (n v : Nat)        -- put_aligned::<u64>(v, n)
  | skip (n : Nat)             -- skip(n)
  | nextPtr (n : Nat)          -- get_next_byte_ptr(n), then the slice is filled with 1, 2, …
  | writeAt (off v : Nat)      -- write_at
  | alignedAt (off v : Nat)    -- put_aligned_offset::<u8>(v, 1, off)
  | vlq (v : Nat)              -- put_vlq_int
  | zigzag (v : Int)           -- put_zigzag_vlq_int
  | flush

def BitWriter.step (s : BitWriter) : BwOp → BitWriter
  | .value w v => s.putValue v w
  | .aligned n v => s.putAligned v 8 n
  | .skip n => (s.skip n).1
  | .nextPtr n =>
    let (s', off) := s.skip n
    (List.range n).foldl (fun b i => b.writeAt (off + i) (i + 1)) s'
  | .writeAt off v => s.writeAt off v
  | .alignedAt off v => s.writeAt off v
  | .vlq v => s.putVlq v
  | .zigzag v => s.putVlq (zigzagEnc (BitVec.ofInt 64 v)).toNat
  | .flush => s.flush

/-- `bytes_written()` -/
def BitWriter.bytesWritten (s : BitWriter) : Nat := s.buf.length + ceilDiv s.off 8

/-! ### `RleEncoder` (rle.rs), as written -/

structure RleEnc where
  /-- `bit_width` -/
  w : Nat
  bw : BitWriter := {}
  /-- `buffered_values[..num_buffered_values]` -/
  buffered : List Nat := []
  /-- `current_value` -/
  cur : Nat := 0
  /-- `repeat_count` -/
  rep : Nat := 0
  /-- `bit_packed_count` -/
  bpc : Nat := 0
  /-- `indicator_byte_pos` (`none` = -1) -/
  ind : Option Nat := none
  deriving Repr

namespace RleEnc

/-- `flush_rle_run` -/
def flushRleRun (s : RleEnc) : RleEnc :=
  let bw := s.bw.putVlq (s.rep <<< RLE_INDICATOR_SHIFT)
  let bw := bw.putAligned s.cur 8 (ceilDiv s.w 8)
  { s with bw := bw, buffered := [], rep := 0 }

/-- `finish_bit_packed_run` -/
def finishBitPackedRun (s : RleEnc) : RleEnc :=
  let numGroups := s.bpc / BIT_PACK_GROUP_SIZE
  let indicator := ((numGroups <<< BP_INDICATOR_SHIFT) ||| BP_INDICATOR_FLAG) % 256
  { s with bw := s.bw.writeAt (s.ind.getD 0) indicator, ind := none, bpc := 0 }

/-- `flush_bit_packed_run(end_current_run)` -/
def flushBitPackedRun (s : RleEnc) (endRun : Bool) : RleEnc :=
  let s := match s.ind with
    | some _ => s
    | none => let (bw, pos) := s.bw.skip 1; { s with bw := bw, ind := some pos }
  let bw := s.buffered.foldl (fun b v => b.putValue v s.w) s.bw
  let s := { s with bw := bw, buffered := [] }
  if endRun then s.finishBitPackedRun else s

/-- `flush_buffered_values` -/
def flushBufferedValues (s : RleEnc) : RleEnc :=
  if s.rep ≥ BIT_PACK_GROUP_SIZE then
    let s := { s with buffered := [] }
    if s.bpc > 0 then s.finishBitPackedRun else s
  else
    let s := { s with bpc := s.bpc + s.buffered.length }
    let numGroups := s.bpc / BIT_PACK_GROUP_SIZE
    let s := if numGroups + 1 ≥ MAX_GROUPS_PER_BIT_PACKED_RUN then s.flushBitPackedRun true
             else s.flushBitPackedRun false
    { s with rep := 0 }

/-- `RleEncoder::put(value)` -/
def put (s : RleEnc) (value : Nat) : RleEnc :=
  let go (s : RleEnc) : RleEnc :=
    let s := { s with buffered := s.buffered ++ [value] }
    if s.buffered.length = BIT_PACK_GROUP_SIZE then s.flushBufferedValues else s
  if s.cur = value then
    let s := { s with rep := s.rep + 1 }
    if s.rep > BIT_PACK_GROUP_SIZE then s else go s
  else
    let s := if s.rep ≥ BIT_PACK_GROUP_SIZE then s.flushRleRun else s
    go { s with rep := 1, cur := value }

/-- `is_accumulating_rle(value)` -/
def isAccumulatingRle (s : RleEnc) (value : Nat) : Bool :=
  decide (s.rep ≥ BIT_PACK_GROUP_SIZE) && decide (s.cur = value)

/-- `extend_run(count)` -/
def extendRun (s : RleEnc) (count : Nat) : RleEnc := { s with rep := s.rep + count }

/-- `RleEncoder::flush` -/
def flush (s : RleEnc) : RleEnc :=
  if s.bpc > 0 ∨ s.rep > 0 ∨ s.buffered.length > 0 then
    let allRepeat := s.bpc = 0 ∧ (s.rep = s.buffered.length ∨ s.buffered.length = 0)
    if s.rep > 0 ∧ allRepeat then s.flushRleRun
    else
      let s := if s.buffered.length > 0 then
          { s with buffered := s.buffered ++ List.replicate (BIT_PACK_GROUP_SIZE - s.buffered.length) 0 }
        else s
      let s := { s with bpc := s.bpc + s.buffered.length }
      let s := s.flushBitPackedRun true
      { s with rep := 0 }
  else s

/-- `RleEncoder::consume` -/
def consume (s : RleEnc) : List Nat := s.flush.bw.consume

end RleEnc

/-- `RleEncoder::new(w, _)`, `put` every value, `consume` -/
def rleEncode (w : Nat) (xs : List Nat) : List Nat :=
  (xs.foldl RleEnc.put { w := w }).consume

/-! ### the same state machine at the level of runs

`RunEnc` is `RleEncoder` with the byte writer abstracted: completed runs are kept as
`Run`s, the open bit-packed run as the list of its values.  The control flow (`put`,
`flush_buffered_values`, `flush`) is the same line by line. -/

structure RunEnc where
  /-- completed runs, in order -/
  done : List Run := []
  /-- values of the open bit-packed run (`bit_packed_count = open.length`;
  `indicator_byte_pos ≥ 0` iff a bit-packed run is open) -/
  opn : List Nat := []
  buffered : List Nat := []
  cur : Nat := 0
  rep : Nat := 0
  deriving Repr

namespace RunEnc

def flushRleRun (s : RunEnc) : RunEnc :=
  { s with done := s.done ++ [.rle s.rep s.cur], buffered := [], rep := 0 }

def finishBitPackedRun (s : RunEnc) : RunEnc :=
  { s with done := s.done ++ [.packed s.opn], opn := [] }

def flushBitPackedRun (s : RunEnc) (endRun : Bool) : RunEnc :=
  let s := { s with opn := s.opn ++ s.buffered, buffered := [] }
  if endRun then s.finishBitPackedRun else s

def flushBufferedValues (s : RunEnc) : RunEnc :=
  if s.rep ≥ BIT_PACK_GROUP_SIZE then
    let s := { s with buffered := [] }
    if s.opn.length > 0 then s.finishBitPackedRun else s
  else
    let numGroups := (s.opn.length + s.buffered.length) / BIT_PACK_GROUP_SIZE
    let s := if numGroups + 1 ≥ MAX_GROUPS_PER_BIT_PACKED_RUN then s.flushBitPackedRun true
             else s.flushBitPackedRun false
    { s with rep := 0 }

/-- the tail of `put`: buffer the value, flush a full group -/
def push (s : RunEnc) (value : Nat) : RunEnc :=
  let s := { s with buffered := s.buffered ++ [value] }
  if s.buffered.length = BIT_PACK_GROUP_SIZE then s.flushBufferedValues else s

def put (s : RunEnc) (value : Nat) : RunEnc :=
  if s.cur = value then
    let s := { s with rep := s.rep + 1 }
    if s.rep > BIT_PACK_GROUP_SIZE then s else s.push value
  else
    let s := if s.rep ≥ BIT_PACK_GROUP_SIZE then s.flushRleRun else s
    ({ s with rep := 1, cur := value }).push value

def flush (s : RunEnc) : RunEnc :=
  if s.opn.length > 0 ∨ s.rep > 0 ∨ s.buffered.length > 0 then
    let allRepeat := s.opn.length = 0 ∧ (s.rep = s.buffered.length ∨ s.buffered.length = 0)
    if s.rep > 0 ∧ allRepeat then s.flushRleRun
    else
      let s := if s.buffered.length > 0 then
          { s with buffered := s.buffered ++ List.replicate (BIT_PACK_GROUP_SIZE - s.buffered.length) 0 }
        else s
      let s := s.flushBitPackedRun true
      { s with rep := 0 }
  else s

end RunEnc

/-- the run decomposition `RleEncoder` chooses for a value sequence -/
def rleRuns (xs : List Nat) : List Run := (xs.foldl RunEnc.put {}).flush.done

/-! ### `BitReader` / `RleDecoder` on the remaining input as a bit string -/

/-- byte alignment of the reader (`byte_offset = get_byte_offset(); bit_offset = 0`): the
input is a whole number of bytes, so the bits to skip are `length % 8` -/
def alignBits (bits : List Bool) : List Bool := bits.drop (bits.length % 8)

/-- `n` values of width `w` from the front of the bit string (`BitReader::get_batch` when
enough bits remain) -/
def unpack (w n : Nat) (bits : List Bool) : List Nat := (List.range n).map (fieldAt bits w)

inductive Vlq where
  | ok (v : Nat) (rest : List Bool)
  | eof
  deriving Repr

/-- the loop of `BitReader::get_vlq_int`; the accumulator is an `i64`, kept as its 64-bit
pattern; `left` = bytes still allowed: a varint longer than `MAX_VLQ_BYTE_LEN` bytes yields `None` -/
def getVlqLoop : Nat → Nat → Nat → List Bool → Vlq
  | left, shift, acc, bits =>
    if bits.length < 8 then .eof else
    match left with
    | 0 => .eof   -- a varint longer than `MAX_VLQ_BYTE_LEN` bytes: `None`, nothing consumed
    | left + 1 =>
      let byte := ofBits (bits.take 8)
      let acc := acc ||| u64 ((byte &&& VLQ_PAYLOAD_MASK) <<< shift)
      if byte &&& VLQ_CONT_BIT = 0 then .ok acc (bits.drop 8)
      else getVlqLoop left (shift + VLQ_READ_SHIFT) acc (bits.drop 8)

/-- `BitReader::get_vlq_int` (value as a `u64` pattern) -/
def getVlq (bits : List Bool) : Vlq := getVlqLoop MAX_VLQ_BYTE_LEN 0 0 (alignBits bits)

/-- `BitReader::get_aligned::<u64>(num_bytes)` -/
def getAligned (numBytes : Nat) (bits : List Bool) : Option (Nat × List Bool) :=
  let bits := alignBits bits
  if bits.length < 8 * numBytes then none
  else some (ofBits (bits.take (8 * numBytes)), bits.drop (8 * numBytes))

/-- arithmetic `>> 1` of an `i64` given as its 64-bit pattern -/
def sar1 (u : Nat) : Nat := if u < 2 ^ 63 then u / 2 else u / 2 + 2 ^ 63

inductive DecRes where
  | ok (vals : List Nat)
  | err
  | panic
  deriving Repr, DecidableEq

def DecRes.prepend (xs : List Nat) : DecRes → DecRes
  | .ok ys => .ok (xs ++ ys)
  | e => e

inductive Reload where
  | rle (count value : Nat) (rest : List Bool)
  | packed (count : Nat) (rest : List Bool)
  /-- `Ok(false)`: end of input, or a zero indicator (which is consumed) -/
  | stop (rest : List Bool)
  | err
  | panic

/-- `RleDecoder::reload` -/
def reload (w : Nat) (bits : List Bool) : Reload :=
  match getVlq bits with
  | .eof => .stop (alignBits bits)
  | .ok ind rest =>
    if ind = 0 then .stop rest
    else if ind &&& DEC_INDICATOR_FLAG_MASK = 1 then
      .packed (u32 (u64 (sar1 ind * BIT_PACK_GROUP_SIZE))) rest
    else
      match getAligned (ceilDiv w 8) rest with
      | some (v, rest') => .rle (u32 (sar1 ind)) v rest'
      | none => .err

/-- the loop of `RleDecoder::get_batch` for a buffer of `n` values.  `fuel` bounds the
number of loop iterations. -/
def getBatchLoop (w : Nat) : Nat → List Bool → Nat → Nat → Nat → Nat → DecRes
  | 0, _, _, _, _, _ => .ok []
  | fuel + 1, bits, rleLeft, bpLeft, cur, n =>
    if n = 0 then .ok []
    else if rleLeft > 0 then
      let k := min n rleLeft
      (getBatchLoop w fuel bits (rleLeft - k) bpLeft cur (n - k)).prepend (List.replicate k cur)
    else if bpLeft > 0 then
      let m := min n bpLeft
      -- `BitReader::get_batch`: fewer values when the remaining bits do not suffice
      let k := if bits.length < w * m then bits.length / w else m
      if k = 0 then getBatchLoop w fuel bits 0 0 cur n
      else (getBatchLoop w fuel (bits.drop (k * w)) 0 (bpLeft - k) cur (n - k)).prepend (unpack w k bits)
    else
      match reload w bits with
      | .stop _ => .ok []
      | .err => .err
      | .panic => .panic
      | .rle c v rest => getBatchLoop w fuel rest c 0 v n
      | .packed c rest => getBatchLoop w fuel rest 0 c cur n

/-- `RleDecoder::new(w); set_data(bytes); get_batch(&mut [_; n])` -/
def rleDecode (w : Nat) (bytes : List Nat) (n : Nat) : DecRes :=
  let bits := bitsOfBytes bytes
  -- `set_data` performs the first `reload` (propagating its error, ignoring its flag) even
  -- when `n = 0`
  match reload w bits with
  | .err => .err
  | .panic => .panic
  | .stop rest => getBatchLoop w (n + bits.length + 2) rest 0 0 0 n
  | .rle c v rest => getBatchLoop w (n + bits.length + 2) rest c 0 v n
  | .packed c rest => getBatchLoop w (n + bits.length + 2) rest 0 c 0 n

/-! ### `BitReader` call sequences -/

inductive BrOp where
  | value (w : Nat)            -- get_value::<u64>(w)
  | batch (n w : Nat)          -- get_batch::<u64>(&mut [_; n], w)
  | skip (n w : Nat)           -- skip(n, w)
  | aligned (n : Nat)          -- get_aligned::<u64>(n)
  | alignedBytes (n : Nat)     -- get_aligned_bytes(n)
  | vlq
  | zigzag
  | offset                     -- get_byte_offset

/-- one `BitReader` call on the remaining bits; `total` = input length in bits.  Returns the
printed observation and the new state; `none` = the call panics. -/
def brStep (total : Nat) (bits : List Bool) : BrOp → Option (String × List Bool)
  | .value w =>
    if bits.length < w then some ("none", bits)
    else some (toString (ofBits (bits.take w)), bits.drop w)
  | .batch n w =>
    let k := if bits.length < w * n then bits.length / w else n
    some ("[" ++ ",".intercalate ((unpack w k bits).map toString) ++ "]", bits.drop (k * w))
  | .skip n w =>
    let k := if bits.length < w * n then bits.length / w else n
    some (toString k, bits.drop (k * w))
  | .aligned n =>
    match getAligned n bits with
    | some (v, rest) => some (toString v, rest)
    | none => some ("none", alignBits bits)
  | .alignedBytes n =>
    let b := alignBits bits
    let k := min n (b.length / 8)
    some ("x" ++ String.ofList (((List.range k).map (fun i => fieldAt b 8 i)).flatMap (fun v =>
      [Nat.digitChar (v / 16), Nat.digitChar (v % 16)])), b.drop (8 * k))
  | .vlq =>
    match getVlq bits with
    | .ok v rest => some (toString v, rest)
    | .eof => some ("none", alignBits bits)
  | .zigzag =>
    match getVlq bits with
    | .ok v rest => some (toString (zigzagDec (BitVec.ofNat 64 v)).toInt, rest)
    | .eof => some ("none", alignBits bits)
  | .offset => some (toString ((total - bits.length + 7) / 8), bits)

/-! ### DELTA_BINARY_PACKED (`DeltaBitPackEncoder` / `DeltaBitPackDecoder`)

Values are `BitVec n` with `n = 32` (INT32) or `n = 64` (INT64); the Rust code computes on
`i64` holding the sign-extended `i32`, which is the same arithmetic. -/

/-- mini block size the encoder picks for the physical type -/
def deltaMiniSize (n : Nat) : Nat := if n = 32 then DELTA_MINI_BLOCK_SIZE_I32 else DELTA_MINI_BLOCK_SIZE_I64

/-- signed minimum (`cmp::min` over `i64`) -/
def sminList {n : Nat} : BitVec n → List (BitVec n) → BitVec n
  | m, [] => m
  | m, d :: ds => sminList (if d.slt m then d else m) ds

/-- signed maximum -/
def smaxList {n : Nat} : BitVec n → List (BitVec n) → BitVec n
  | m, [] => m
  | m, d :: ds => smaxList (if m.slt d then d else m) ds

/-- the `i64` the encoder hands to `put_zigzag_vlq_int`, as ULEB128 bytes -/
def zigzagVlq {n : Nat} (v : BitVec n) : List Nat := uleb (zigzagEnc (v.signExtend 64)).toNat

/-- mini blocks of one block in `flush_block_values`: width bytes and packed data.
`ds` = deltas not yet written, `k` = mini blocks still to describe. -/
def deltaMiniBlocks {n : Nat} (mini : Nat) (minDelta : BitVec n) : Nat → List (BitVec n) → List Nat × List Nat
  | 0, _ => ([], [])
  | k + 1, ds =>
    if ds.isEmpty then (List.replicate (k + 1) 0, [])
    else
      let cur := ds.take mini
      let maxDelta := smaxList (cur.headD 0) cur
      let width := numRequiredBits (maxDelta - minDelta).toNat
      let vals := cur.map (fun d => (d - minDelta).toNat)
      let vals := vals ++ List.replicate (mini - cur.length) 0
      let (ws, data) := deltaMiniBlocks mini minDelta k (ds.drop mini)
      (width :: ws, packBytes width vals ++ data)

/-- `flush_block_values` for one block of deltas (`1 ≤ ds.length ≤ block_size`) -/
def deltaBlock {n : Nat} (mini numMini : Nat) (ds : List (BitVec n)) : List Nat :=
  let minDelta := sminList (ds.headD 0) ds
  let (ws, data) := deltaMiniBlocks mini minDelta numMini ds
  zigzagVlq minDelta ++ ws ++ data

/-- all blocks; `fuel` bounds the number of blocks -/
def deltaBlocks {n : Nat} (mini numMini : Nat) : Nat → List (BitVec n) → List Nat
  | 0, _ => []
  | fuel + 1, ds =>
    if ds.isEmpty then [] else
    deltaBlock mini numMini (ds.take (mini * numMini)) ++ deltaBlocks mini numMini fuel (ds.drop (mini * numMini))

/-- consecutive wrapping differences `x[i+1] - x[i]` -/
def deltasOf {n : Nat} : List (BitVec n) → List (BitVec n)
  | a :: b :: rest => (b - a) :: deltasOf (b :: rest)
  | _ => []

/-- `DeltaBitPackEncoder::<T>::new(); put(xs) …; flush_buffer()` -/
def deltaEncode {n : Nat} (xs : List (BitVec n)) : List Nat :=
  let mini := deltaMiniSize n
  let numMini := DEFAULT_NUM_MINI_BLOCKS
  uleb (mini * numMini) ++ uleb numMini ++ uleb xs.length ++ zigzagVlq (xs.headD 0)
    ++ deltaBlocks mini numMini xs.length (deltasOf xs)

/-- result of reading a zig-zag varint as the target type (`T::T::from_i64`) -/
def fromI64 (n : Nat) (v : BitVec 64) : Option (BitVec n) :=
  let t := v.truncate n
  if t.signExtend 64 = v then some t else none

structure DeltaDec (n : Nat) where
  bits : List Bool
  valuesPerMini : Nat
  miniPerBlock : Nat
  minDelta : BitVec n := 0
  widths : List Nat := []
  miniIdx : Nat := 0
  miniRemaining : Nat := 0
  last : BitVec n := 0

/-- `next_block` -/
def DeltaDec.nextBlock {n : Nat} (s : DeltaDec n) (valuesLeft : Nat) : Option (DeltaDec n) :=
  match getVlq s.bits with
  | .ok u rest =>
    match fromI64 n (zigzagDec (BitVec.ofNat 64 u)) with
    | none => none
    | some md =>
      -- `get_aligned_bytes(&mut widths, mini_blocks_per_block)` (the reader is byte aligned here)
      let avail := min s.miniPerBlock (rest.length / 8)
      let ws := (List.range avail).map (fun i => fieldAt rest 8 i)
      let rest := rest.drop (8 * avail)
      -- trailing mini blocks get width 0
      let ws := (List.range ws.length).map (fun i =>
        if valuesLeft ≤ i * s.valuesPerMini then 0 else ws.getD i 0)
      if ws.length ≠ s.miniPerBlock then none
      else some { s with bits := rest, minDelta := md, widths := ws, miniIdx := 0,
                         miniRemaining := s.valuesPerMini }
  | _ => none

/-- the `while read != to_read` loop of `DeltaBitPackDecoder::get` -/
def deltaGetLoop {n : Nat} : Nat → DeltaDec n → Nat → DecRes
  | 0, _, _ => .ok []
  | fuel + 1, s, toRead =>
    if toRead = 0 then .ok [] else
    let s? : Option (DeltaDec n) :=
      if s.miniRemaining = 0 then
        if s.miniIdx + 1 < s.widths.length then
          some { s with miniIdx := s.miniIdx + 1, miniRemaining := s.valuesPerMini }
        else s.nextBlock toRead
      else some s
    match s? with
    | none => .err
    | some s =>
      let bw := s.widths.getD s.miniIdx 0
      if bw > n then .err else
      let batch := min s.miniRemaining toRead
      if s.bits.length < bw * batch then .err else
      let raw := unpack bw batch s.bits
      -- `v = raw + min_delta + last_value` (wrapping), running
      let vals := (raw.foldl (fun (acc : List (BitVec n) × BitVec n) r =>
          let v := BitVec.ofNat n r + s.minDelta + acc.2
          (acc.1 ++ [v], v)) ([], s.last))
      let s := { s with bits := s.bits.drop (batch * bw), last := vals.2,
                        miniRemaining := s.miniRemaining - batch }
      (deltaGetLoop fuel s (toRead - batch)).prepend (vals.1.map BitVec.toNat)

/-- `DeltaBitPackDecoder::<T>::new(); set_data(bytes, _); get(&mut [_; cap])`; values as
`n`-bit patterns -/
def deltaDecode (n : Nat) (bytes : List Nat) (cap : Nat) : DecRes :=
  let bits := bitsOfBytes bytes
  match getVlq bits with
  | .ok blockSize r1 =>
    match getVlq r1 with
    | .ok miniPerBlock r2 =>
      if 2 ^ 63 ≤ blockSize ∨ 2 ^ 63 ≤ miniPerBlock then .err else
      if miniPerBlock = 0 then .err else
      match getVlq r2 with
      | .ok total r3 =>
        if 2 ^ 63 ≤ total then .err else
        match getVlq r3 with
        | .ok fv r4 =>
          match fromI64 n (zigzagDec (BitVec.ofNat 64 fv)) with
          | none => .err
          | some first =>
            if blockSize % DELTA_BLOCK_MULTIPLE ≠ 0 then .err else
            if blockSize % miniPerBlock ≠ 0 then .err else
            let vpm := blockSize / miniPerBlock
            if vpm % DELTA_MINI_BLOCK_MULTIPLE ≠ 0 then .err else
            if cap = 0 then .ok [] else
            -- `buffer[0] = first_value; values_left -= 1` happens before the loop even when the
            -- header announces no value at all: the count wraps (release build) and the loop
            -- runs into the end of the input
            if total = 0 then .err else
            let toRead := min cap total
            let s : DeltaDec n := { bits := r4, valuesPerMini := vpm, miniPerBlock := miniPerBlock, last := first }
            (deltaGetLoop (toRead + 2) s (toRead - 1)).prepend [first.toNat]
        | _ => .err
      | _ => .err
    | _ => .err
  | _ => .err

/-! ### other value encodings (bytes only; decoders are exercised by the harness) -/

/-- PLAIN for fixed-width little-endian values of `size` bytes -/
def plainFixed (size : Nat) (xs : List Nat) : List Nat := xs.flatMap (leBytes size)

/-- PLAIN for BYTE_ARRAY: 4-byte little-endian length, then the bytes -/
def plainByteArray (xs : List (List Nat)) : List Nat := xs.flatMap (fun b => leBytes 4 b.length ++ b)

/-- PLAIN for BOOLEAN: one bit per value, LSB first -/
def plainBool (xs : List Bool) : List Nat := bytesOfBits xs

/-- BYTE_STREAM_SPLIT of values given as byte strings of equal length `size` -/
def byteStreamSplit (size : Nat) (xs : List (List Nat)) : List Nat :=
  (List.range size).flatMap (fun k => xs.map (fun b => b.getD k 0))

/-- inverse transposition -/
def byteStreamJoin (size n : Nat) (bytes : List Nat) : List (List Nat) :=
  (List.range n).map (fun i => (List.range size).map (fun k => bytes.getD (k * n + i) 0))

/-- DELTA_LENGTH_BYTE_ARRAY -/
def dlbaEncode (xs : List (List Nat)) : List Nat :=
  deltaEncode (xs.map (fun b => BitVec.ofNat 32 b.length)) ++ xs.flatten

def commonPrefixLen : List Nat → List Nat → Nat
  | a :: as, b :: bs => if a = b then commonPrefixLen as bs + 1 else 0
  | _, _ => 0

/-- prefix lengths and suffixes of `DeltaByteArrayEncoder::put` -/
def dbaSplit : List Nat → List (List Nat) → List (Nat × List Nat)
  | _, [] => []
  | prev, x :: xs => let k := commonPrefixLen prev x; (k, x.drop k) :: dbaSplit x xs

/-- DELTA_BYTE_ARRAY -/
def dbaEncode (xs : List (List Nat)) : List Nat :=
  let ps := dbaSplit [] xs
  deltaEncode (ps.map (fun p => BitVec.ofNat 32 p.1)) ++ dlbaEncode (ps.map (·.2))

/-- RLE value encoding for BOOLEAN (`RleValueEncoder`): 4-byte length prefix -/
def rleBoolEncode (xs : List Bool) : List Nat :=
  let body := rleEncode 1 (xs.map (fun b => if b then 1 else 0))
  leBytes 4 body.length ++ body

/-- `Interner::intern` over a value list: distinct values in first-occurrence order -/
def dictUniques {α} [BEq α] : List α → List α → List α
  | acc, [] => acc
  | acc, x :: xs => if acc.contains x then dictUniques acc xs else dictUniques (acc ++ [x]) xs

/-- `DictEncoder::write_indices`: bit-width byte, then the hybrid-RLE encoded indices -/
def dictIndexPage {α} [BEq α] (xs : List α) : List Nat :=
  let us := dictUniques [] xs
  let bw := numRequiredBits (us.length - 1)
  bw :: rleEncode bw (xs.map (fun x => us.idxOf x))

/-! ### `LevelInfoBuilder` (arrow_writer/levels.rs): the run-batched writer along one leaf path

What the builder produces for one leaf is `ArrayLevels`: repetition levels, definition levels
and `non_null_indices` (indices into the leaf array).  `Lv` is that triple (an absent level
stream — `max_rep_level = 0` or `max_def_level = 0` — is represented by its constant value). -/

structure Lv where
  reps : List Nat
  defs : List Nat
  idxs : List Nat
  deriving DecidableEq, Repr

def Lv.nil : Lv := ⟨[], [], []⟩
def Lv.app (a b : Lv) : Lv := ⟨a.reps ++ b.reps, a.defs ++ b.defs, a.idxs ++ b.idxs⟩
/-- `extend_uniform_levels(def, rep, count)` / `append_*_level_run` -/
def Lv.uniform (r d n : Nat) : Lv := ⟨List.replicate n r, List.replicate n d, []⟩
def Lv.cat (xs : List Lv) : Lv := xs.foldr Lv.app Lv.nil

/-- physical Arrow arrays along one leaf path.  `valid = none`: no validity buffer.  The leaf
values themselves do not matter for level generation (its length does). -/
inductive PArr where
  | leaf (nullable : Bool) (valid : Option (List Bool)) (len : Nat)
  | strct (nullable : Bool) (valid : Option (List Bool)) (child : PArr)
  | list (nullable : Bool) (valid : Option (List Bool)) (offsets : List Nat) (child : PArr)
  deriving Repr

/-- `NullBuffer::is_valid(i)` -/
def isValidAt (valid : Option (List Bool)) (i : Nat) : Bool :=
  match valid with
  | none => true
  | some bs => bs.getD i true

/-- `NullBuffer::null_count()` -/
def nullCount (bs : List Bool) : Nat := (bs.filter (fun b => !b)).length

def b2n (b : Bool) : Nat := if b then 1 else 0

/-- `child_has_no_nested_rep` -/
def PArr.noList : PArr → Bool
  | .leaf .. => true
  | .strct _ _ c => c.noList
  | .list .. => false

/-- `LevelInfoBuilder::write_leaf(info, a..b)`; `d`/`k` = definition / repetition level of the
parent context.  Three paths: all-null fast path, bulk fill (long, null-heavy ranges), and
the per-element path. -/
def writeLeaf (nl : Bool) (valid : Option (List Bool)) (d k a b : Nat) : Lv :=
  let len := b - a
  let maxDef := d + b2n nl
  match valid with
  | none => ⟨List.replicate len k, List.replicate len maxDef, List.range' a len⟩
  | some bs =>
    if nullCount bs = bs.length then Lv.uniform k (maxDef - 1) len
    else if BULK_FILL_MIN_LEN ≤ len ∧ bs.length ≤ nullCount bs * BULK_FILL_NULL_FACTOR then
      -- `nulls.slice(range.start, len)`, `valid_indices()`, `buf.resize(..); buf[base + i] = max_def`,
      -- `non_null_indices.extend(valid_indices().map(|i| i + range.start))`
      let rangeNulls := (bs.drop a).take len
      let validIdx := (List.range len).filter (fun i => rangeNulls.getD i true)
      ⟨List.replicate len k,
       (List.range len).map (fun i => if rangeNulls.getD i true then maxDef else maxDef - 1),
       validIdx.map (fun i => i + a)⟩
    else
      -- `range.map(|i| max_def - !valid(i))`, `BitIndexIterator(offset + start, len).map(|i| i + start)`
      ⟨List.replicate len k,
       (List.range' a len).map (fun i => maxDef - (if bs.getD i true then 0 else 1)),
       ((List.range len).filter (fun i => bs.getD (a + i) true)).map (fun i => i + a)⟩

/-- the run detection loop shared by `write_list_impl` (`run_kind`, `run_start`, flush on a
change of classification) and `write_struct` (`last_null_idx` / `last_non_null_idx`):
`n` slots still to look at, `i` the next slot, `(rk, rs)` the open run -/
def runsLoop {κ : Type} [DecidableEq κ] (cls : Nat → κ) : Nat → Nat → κ → Nat → List (κ × Nat × Nat)
  | 0, i, rk, rs => [(rk, rs, i)]
  | n + 1, i, rk, rs =>
    if cls i ≠ rk then (rk, rs, i) :: runsLoop cls n (i + 1) (cls i) i
    else runsLoop cls n (i + 1) rk rs

/-- maximal runs of equal classification of the slots `a..b` -/
def runsOf {κ : Type} [DecidableEq κ] (cls : Nat → κ) (a b : Nat) : List (κ × Nat × Nat) :=
  if b ≤ a then [] else runsLoop cls (b - a - 1) (a + 1) (cls a) a

/-- `write_struct` -/
def writeStruct (nl : Bool) (valid : Option (List Bool)) (child : Nat → Nat → Nat → Nat → Lv) (d k a b : Nat) : Lv :=
  let ctxDef := d + b2n nl
  match valid with
  | none => child ctxDef k a b
  | some bs =>
    if nullCount bs = bs.length then Lv.uniform k (ctxDef - 1) (b - a)
    else Lv.cat ((runsOf (fun i => bs.getD i true) a b).map (fun run =>
      if run.1 then child ctxDef k run.2.1 run.2.2 else Lv.uniform k (ctxDef - 1) (run.2.2 - run.2.1)))

inductive SlotKind where
  | null | empty | nonEmpty
  deriving DecidableEq, Repr

/-- re-stamping of `write_list_direct`: `rep_levels[batch_base + (offset - values_start)] = list_start_rep`
for every slot of the run -/
def stampDirect (o : Nat → Nat) (startRep s e : Nat) (reps : List Nat) : List Nat :=
  (List.range' s (e - s)).foldl (fun l i => l.set (o i - o s) startRep) reps

/-- the backward scan of `write_list_scan` over the reversed batch: count element starts
(`rep ≤ ctx.rep_level`), stamp when the count reaches the next slot boundary -/
def scanLoop (ctxRep startRep : Nat) : List Nat → Nat → List Nat → List Nat
  | [], _, _ => []
  | r :: rs, _, [] => r :: rs
  | r :: rs, seen, bd :: bds =>
    if r ≤ ctxRep then
      if seen + 1 = bd then startRep :: scanLoop ctxRep startRep rs (seen + 1) bds
      else r :: scanLoop ctxRep startRep rs (seen + 1) (bd :: bds)
    else r :: scanLoop ctxRep startRep rs seen (bd :: bds)

def stampScan (o : Nat → Nat) (ctxRep startRep s e : Nat) (reps : List Nat) : List Nat :=
  (scanLoop ctxRep startRep reps.reverse 0
    ((List.range' s (e - s)).reverse.map (fun i => o e - o i))).reverse

/-- `write_list_impl` with `write_list_direct` or `write_list_scan` as `emit_non_empty_run` -/
def writeListImpl (nl : Bool) (valid : Option (List Bool)) (offs : List Nat) (childNoList : Bool)
    (child : Nat → Nat → Nat → Nat → Lv) (d k a b : Nat) : Lv :=
  let ctxDef := d + b2n nl + 1
  let o := fun i => offs.getD i 0
  let cls := fun i =>
    if !isValidAt valid i then SlotKind.null
    else if o i = o (i + 1) then SlotKind.empty else SlotKind.nonEmpty
  Lv.cat ((runsOf cls a b).map (fun run =>
    match run.1 with
    | .null => Lv.uniform k (ctxDef - 2) (run.2.2 - run.2.1)
    | .empty => Lv.uniform k (ctxDef - 1) (run.2.2 - run.2.1)
    | .nonEmpty =>
      let c := child ctxDef (k + 1) (o run.2.1) (o run.2.2)
      { c with reps := if childNoList then stampDirect o k run.2.1 run.2.2 c.reps
                       else stampScan o (k + 1) k run.2.1 run.2.2 c.reps }))

/-- `write_list`: the all-null fast path, else `write_list_impl` -/
def writeList (nl : Bool) (valid : Option (List Bool)) (offs : List Nat) (childNoList : Bool)
    (child : Nat → Nat → Nat → Nat → Lv) (d k a b : Nat) : Lv :=
  match valid with
  | some bs =>
    if nullCount bs = bs.length then Lv.uniform k (d + b2n nl + 1 - 2) (b - a)
    else writeListImpl nl valid offs childNoList child d k a b
  | none => writeListImpl nl valid offs childNoList child d k a b

/-- `LevelInfoBuilder::write(range)` -/
def bwrite : PArr → Nat → Nat → Nat → Nat → Lv
  | .leaf nl valid _, d, k, a, b => writeLeaf nl valid d k a b
  | .strct nl valid c, d, k, a, b => writeStruct nl valid (bwrite c) d k a b
  | .list nl valid offs c, d, k, a, b => writeList nl valid offs c.noList (bwrite c) d k a b

/-- the textbook writer on the same arrays: one slot at a time, `r` = repetition level of the
slot's first entry -/
def slotLv : PArr → Nat → Nat → Nat → Nat → Lv
  | .leaf nl valid _, d, _, r, i =>
    if isValidAt valid i then ⟨[r], [d + b2n nl], [i]⟩ else ⟨[r], [d + b2n nl - 1], []⟩
  | .strct nl valid c, d, k, r, i =>
    if isValidAt valid i then slotLv c (d + b2n nl) k r i else ⟨[r], [d + b2n nl - 1], []⟩
  | .list nl valid offs c, d, k, r, i =>
    let o := fun i => offs.getD i 0
    if !isValidAt valid i then ⟨[r], [d + b2n nl + 1 - 2], []⟩
    else if o i = o (i + 1) then ⟨[r], [d + b2n nl + 1 - 1], []⟩
    else (slotLv c (d + b2n nl + 1) (k + 1) r (o i)).app
      (Lv.cat ((List.range' (o i + 1) (o (i + 1) - o i - 1)).map (slotLv c (d + b2n nl + 1) (k + 1) (k + 1))))

/-- the textbook writer on a range of slots -/
def rangeLv (arr : PArr) (d k a b : Nat) : Lv := Lv.cat ((List.range' a (b - a)).map (slotLv arr d k k))

/-- array lengths, and well-formedness: validity buffers as long as the array, offsets
non-decreasing and inside the child -/
def PArr.len : PArr → Nat
  | .leaf _ _ n => n
  | .strct _ _ c => c.len
  | .list _ _ offs _ => offs.length - 1

def PArr.WF : PArr → Prop
  | .leaf _ valid n => ∀ bs, valid = some bs → bs.length = n
  | .strct _ valid c => (∀ bs, valid = some bs → bs.length = c.len) ∧ c.WF
  | .list _ valid offs c =>
    (∀ bs, valid = some bs → bs.length = offs.length - 1) ∧
    (∀ i, i + 1 < offs.length → offs.getD i 0 ≤ offs.getD (i + 1) 0) ∧
    (∀ i, i < offs.length → offs.getD i 0 ≤ c.len) ∧ c.WF

/-! ### record assembly from levels (the reader side of Dremel)

The entry stream of a list (or of a column) is cut in front of every entry whose repetition
level says "a new element of this list starts here" (`rep ≤ lvl`); each piece is one
element and is assembled with the rest of the path. -/

/-- cut an entry stream in front of every entry with `rep ≤ lvl` (other than the first) -/
def groups (lvl : Nat) : List Entry → List (List Entry)
  | [] => []
  | [e] => [[e]]
  | e :: e' :: es =>
    if lvl < e'.rep then
      match groups lvl (e' :: es) with
      | g :: gs => (e :: g) :: gs
      | [] => [[e]]
    else [e] :: groups lvl (e' :: es)

/-- `mapM` for `Option` -/
def mapOpt {α β : Type} (f : α → Option β) : List α → Option (List β)
  | [] => some []
  | x :: xs =>
    match f x, mapOpt f xs with
    | some y, some ys => some (y :: ys)
    | _, _ => none

/-- assemble the value of path `p` from exactly its own entries: `d` = definition level
reached so far, `k` = number of enclosing lists -/
def assemble : (p : List Layer) → (d k : Nat) → List Entry → Option (ValOf p)
  | [], _, _, es =>
    match es with
    | [⟨_, _, some v⟩] => some v
    | _ => none
  | .opt :: p, d, k, es =>
    match es with
    | [] => none
    | e :: _ =>
      if e.dfn ≤ d then some (none : Option (ValOf p))
      else (assemble p (d + 1) k es).map (fun x => (some x : Option (ValOf p)))
  | .rep :: p, d, k, es =>
    match es with
    | [] => none
    | e :: _ =>
      if e.dfn ≤ d then some ([] : List (ValOf p))
      else (mapOpt (assemble p (d + 1) (k + 1)) (groups (k + 1) es) : Option (List (ValOf p)))

/-- assemble every row of a column: rows start at repetition level 0 -/
def assembleCol (p : List Layer) (es : List Entry) : Option (List (ValOf p)) :=
  mapOpt (assemble p 0 0) (groups 0 es)

end ArrowModel.C05
