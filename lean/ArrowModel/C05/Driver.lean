import ArrowModel.Common.Proto
import ArrowModel.C05.Spec
import ArrowModel.C05.Model
/-
C05 driver: one case per line → one canonical answer per line.  Answers are computed by
the algorithm model; where the specification gives the same observable the driver also
evaluates it and prints `MODEL-SPEC-MISMATCH` when the two differ (the theorems say they
cannot).  `e2e` cases are end-to-end only: the property demands that reading back yields
exactly the canonical dump of the input carried by the case line, so that dump *is* the
expected answer.
-/
namespace ArrowModel.C05
open ArrowModel.Proto

def check (model spec : String) : String :=
  if model = spec then model else s!"MODEL-SPEC-MISMATCH model={model} spec={spec}"

def showRes (f : Nat → String) : DecRes → String
  | .ok vs => "ok:" ++ showList f vs
  | .err => "ERR:dec"
  | .panic => "PANIC"

def showSigned (n : Nat) (x : Nat) : String := toString (BitVec.ofNat n x).toInt

def parseNats (s : String) : Option (List Nat) := parseList (fun t => t.toNat?) s
def parseInts (s : String) : Option (List Int) := parseList parseInt s
def parseByteArrays (s : String) : Option (List (List Nat)) :=
  parseList (fun t => if t = "x" then some [] else parseHex (t.drop 1).toString) s

/-! value grammar of the `levels` op -/

def layersOf (s : String) : Option (List Layer) :=
  s.toList.filterMap (fun c => if c = 'S' then none else some c) |>.mapM (fun c =>
    if c = 'o' ∨ c = 's' then some Layer.opt else if c = 'r' then some Layer.rep else none)

def parseNatChars : List Char → Nat → Nat × List Char
  | c :: cs, acc => if c.isDigit then parseNatChars cs (acc * 10 + (c.toNat - '0'.toNat)) else (acc, c :: cs)
  | [], acc => (acc, [])

/-- `n` | `!`v for an optional layer, `[v,…]` for a list layer, decimal for the leaf -/
def parseVal : (p : List Layer) → Nat → List Char → Option (ValOf p × List Char)
  | [], _, cs =>
    match cs with
    | c :: _ => if c.isDigit then some (parseNatChars cs 0) else none
    | [] => none
  | .opt :: p, fuel, cs =>
    match cs with
    | 'n' :: rest => some ((none : Option (ValOf p)), rest)
    | '!' :: rest => (parseVal p fuel rest).map (fun r => ((some r.1 : Option (ValOf p)), r.2))
    | _ => none
  | .rep :: p, fuel, cs =>
    match cs with
    | '[' :: ']' :: rest => some (([] : List (ValOf p)), rest)
    | '[' :: rest =>
      let rec items : Nat → List Char → Option (List (ValOf p) × List Char)
        | 0, _ => none
        | f + 1, cs =>
          match parseVal p fuel cs with
          | none => none
          | some (x, ',' :: cs') => (items f cs').map (fun r => (x :: r.1, r.2))
          | some (x, ']' :: cs') => some ([x], cs')
          | some _ => none
      items fuel rest
    | _ => none

def showVal : (p : List Layer) → ValOf p → String
  | [], v => let n : Nat := v; toString n
  | .opt :: p, v =>
    match (v : Option (ValOf p)) with
    | none => "n"
    | some x => "!" ++ showVal p x
  | .rep :: p, v => "[" ++ ",".intercalate ((v : List (ValOf p)).map (showVal p)) ++ "]"

def showEntries (es : List Entry) : String :=
  let vals := es.filterMap (·.val)
  s!"rep={showList toString (es.map (·.rep))} def={showList toString (es.map (·.dfn))} vals={showList toString vals}"

def levelsOp (path rows : String) : String :=
  match layersOf path with
  | none => "bad-op"
  | some p =>
    match parseVal (.rep :: p) (rows.length + 1) rows.toList with
    | some (rs, []) =>
      let es := shredCol p (rs : List (ValOf p))
      let back := match assembleCol p es with
        | some rs' => showVal (.rep :: p) rs'
        | none => "assemble-failed"
      if back = showVal (.rep :: p) rs then showEntries es
      else s!"MODEL-SPEC-MISMATCH assemble={back}"
    | _ => "bad-op"

def bvList (n : Nat) (xs : List Int) : List (BitVec n) := xs.map (BitVec.ofInt n)

def encOp (enc ty vals : String) : String :=
  let fixedSize : Option Nat := match ty with
    | "i32" | "f32" => some 4
    | "i64" | "f64" => some 8
    | _ => none
  match enc, fixedSize with
  | "plain", some sz =>
    match parseInts vals with
    | some xs => toHex (plainFixed sz (xs.map (fun x => (BitVec.ofInt (8 * sz) x).toNat)))
    | none => "bad-op"
  | "bss", some sz =>
    match parseInts vals with
    | some xs =>
      let bs := xs.map (fun x => leBytes sz (BitVec.ofInt (8 * sz) x).toNat)
      let out := byteStreamSplit sz bs
      if byteStreamJoin sz bs.length out = bs then toHex out else "MODEL-SPEC-MISMATCH bss"
    | none => "bad-op"
  | "dict", some sz =>
    match parseInts vals with
    | some xs =>
      let ps := xs.map (fun x => (BitVec.ofInt (8 * sz) x).toNat)
      s!"{toHex (plainFixed sz (dictUniques [] ps))} {toHex (dictIndexPage ps)}"
    | none => "bad-op"
  | "delta", some sz =>
    match parseInts vals with
    | some xs =>
      if sz = 4 then toHex (deltaEncode (bvList 32 xs)) else toHex (deltaEncode (bvList 64 xs))
    | none => "bad-op"
  | _, _ =>
    if ty = "bool" then
      match parseBits vals with
      | some bs =>
        if enc = "plain" then toHex (plainBool bs)
        else if enc = "rle" then toHex (rleBoolEncode bs)
        else "SKIP"
      | none => "bad-op"
    else if ty = "ba" ∨ ty.startsWith "flba" then
      match parseByteArrays vals with
      | some xs =>
        if enc = "plain" then toHex (if ty = "ba" then plainByteArray xs else xs.flatten)
        else if enc = "dlba" then toHex (dlbaEncode xs)
        else if enc = "dba" then toHex (dbaEncode xs)
        else if enc = "dict" then
          let us := dictUniques [] xs
          s!"{toHex (if ty = "ba" then plainByteArray us else us.flatten)} {toHex (dictIndexPage xs)}"
        else if enc = "bss" then
          let sz := ((ty.drop 4).toString.toNat?).getD 0
          toHex (byteStreamSplit sz xs)
        else "SKIP"
      | none => "bad-op"
    else "SKIP"

def parseBwOp (t : String) : Option BwOp :=
  let k := (t.take 1).toString
  let f := (t.drop 1).toString.splitOn ":"
  match k, f with
  | "v", [w, v] => do pure (.value (← w.toNat?) (← v.toNat?))
  | "a", [n, v] => do pure (.aligned (← n.toNat?) (← v.toNat?))
  | "s", [n] => do pure (.skip (← n.toNat?))
  | "p", [n] => do pure (.nextPtr (← n.toNat?))
  | "w", [o, v] => do pure (.writeAt (← o.toNat?) (← v.toNat?))
  | "o", [o, v] => do pure (.alignedAt (← o.toNat?) (← v.toNat?))
  | "q", [v] => do pure (.vlq (← v.toNat?))
  | "z", [v] => do pure (.zigzag (← parseInt v))
  | "f", _ => some .flush
  | _, _ => none

def parseBrOp (t : String) : Option BrOp :=
  let k := (t.take 1).toString
  let f := (t.drop 1).toString.splitOn ":"
  match k, f with
  | "v", [w] => do pure (.value (← w.toNat?))
  | "b", [n, w] => do pure (.batch (← n.toNat?) (← w.toNat?))
  | "k", [n, w] => do pure (.skip (← n.toNat?) (← w.toNat?))
  | "a", [n] => do pure (.aligned (← n.toNat?))
  | "y", [n] => do pure (.alignedBytes (← n.toNat?))
  | "q", _ => some .vlq
  | "z", _ => some .zigzag
  | "o", _ => some .offset
  | _, _ => none

def brRun (total : Nat) : List BrOp → List Bool → List String → String
  | [], _, acc => ";".intercalate acc.reverse
  | op :: ops, bits, acc =>
    match brStep total bits op with
    | none => "PANIC"
    | some (o, bits') => brRun total ops bits' (o :: acc)

/-- `LevelEncoder` script: `b<levels>` = put_with_observer(buffer), `n<value>:<count>` =
put_n_with_observer, `F` = flush_to (ends a page, the encoder is reused); pages in order -/
def parseLvlOps (s : String) : Option (List (List Nat)) :=
  if s = "-" then some [[]] else
  ((s.splitOn ";").foldlM (fun (acc : List (List Nat) × List Nat) t =>
    let k := (t.take 1).toString
    let body := (t.drop 1).toString
    if k = "F" then some (acc.1 ++ [acc.2], [])
    else if k = "b" then
      if body = "" then some acc
      else (parseList (fun x => x.toNat?) (body.replace "." ",")).map (fun l => (acc.1, acc.2 ++ l))
    else if k = "n" then
      match body.splitOn ":" with
      | [v, c] => do pure (acc.1, acc.2 ++ List.replicate (← c.toNat?) (← v.toNat?))
      | _ => none
    else none) ([], [])).map (fun acc => acc.1 ++ [acc.2])

def handle (toks : List String) : String :=
  match toks with
  -- end-to-end: the expected read-back is the canonical dump carried by the case
  | "e2e" :: _props :: _plan :: _rbs :: rest => " ".intercalate rest
  | ["vlq", v] =>
    match v.toNat? with
    | some v =>
      let model := ((BitWriter.putVlq {} v).consume)
      let back := match getVlq (bitsOfBytes model) with
        | .ok x [] => toString x
        | _ => "?"
      check s!"{toHex model} {back}" s!"{toHex (uleb (v % 2 ^ 64))} {v % 2 ^ 64}"
    | none => "bad-op"
  | ["vlq-dec", h] =>
    match parseHex h with
    | some bs =>
      match getVlq (bitsOfBytes bs) with
      | .ok x rest => s!"ok:{x}:{rest.length / 8}"
      | .eof => "none"
    | none => "bad-op"
  | ["zz", v] =>
    match parseInt v with
    | some v =>
      let u := zigzagEnc (BitVec.ofInt 64 v)
      let model := (BitWriter.putVlq {} u.toNat).consume
      let back := match getVlq (bitsOfBytes model) with
        | .ok x [] => toString (zigzagDec (BitVec.ofNat 64 x)).toInt
        | _ => "?"
      check s!"{toHex model} {back}" s!"{toHex (uleb (zigzag v))} {unzigzag (zigzag v)}"
    | none => "bad-op"
  | ["bitpack", w, vals] =>
    match w.toNat?, parseNats vals with
    | some w, some xs =>
      let model := (xs.foldl (fun b v => b.putValue v w) ({} : BitWriter)).consume
      check (toHex model) (toHex (packBytes w xs))
    | _, _ => "bad-op"
  | ["bitunpack", w, n, h] =>
    match w.toNat?, n.toNat?, parseHex h with
    | some w, some n, some bs =>
      let bits := bitsOfBytes bs
      let k := if bits.length < w * n then bits.length / w else n
      showList toString (unpack w k bits)
    | _, _, _ => "bad-op"
  | ["rle-enc", w, vals] =>
    match w.toNat?, parseNats vals with
    | some w, some xs =>
      let model := rleEncode w xs
      let spec := encodeRuns w (rleRuns xs)
      if model ≠ spec then s!"MODEL-SPEC-MISMATCH model={toHex model} spec={toHex spec}"
      else if rleDecode w model xs.length ≠ .ok xs then
        s!"MODEL-SPEC-MISMATCH decode={showRes toString (rleDecode w model xs.length)}"
      else toHex model
    | _, _ => "bad-op"
  | ["rle-dec", w, n, h] =>
    match w.toNat?, n.toNat?, parseHex h with
    | some w, some n, some bs => showRes toString (rleDecode w bs n)
    | _, _, _ => "bad-op"
  | ["delta-dec", ty, cap, h] =>
    match cap.toNat?, parseHex h with
    | some cap, some bs =>
      if ty = "i32" then showRes (showSigned 32) (deltaDecode 32 bs cap)
      else showRes (showSigned 64) (deltaDecode 64 bs cap)
    | _, _ => "bad-op"
  | ["enc", enc, ty, vals] => encOp enc ty vals
  | ["levels", _variant, path, rows] => levelsOp path rows
  | ["bw", script] =>
    match (script.splitOn ";").mapM parseBwOp with
    | some ops =>
      let s := ops.foldl BitWriter.step ({} : BitWriter)
      s!"{toHex s.consume} {s.bytesWritten}"
    | none => "bad-op"
  | ["br", h, script] =>
    match parseHex h, (script.splitOn ";").mapM parseBrOp with
    | some bs, some ops => brRun (8 * bs.length) ops (bitsOfBytes bs) []
    | _, _ => "bad-op"
  | ["lvl", ver, maxLevel, script] =>
    match maxLevel.toNat?, parseLvlOps script with
    | some ml, some pages =>
      "/".intercalate (pages.map (fun levels =>
        let body := rleEncode (numRequiredBits ml) levels
        if ver = "v1" then toHex (leBytes 4 body.length ++ body) else toHex body))
    | _, _ => "bad-op"
  -- round trip through a compression codec: the expected output is the input
  | ["codec", _name, h] => h
  | _ => "bad-op"

end ArrowModel.C05
