import ArrowModel.C05.Spec
import ArrowModel.C05.Model
import Std.Tactic.BVDecide
/-
C05 — helper lemmas: bit strings, ULEB128, bit packing, and the invariant of the run-level
`RleEncoder` state machine.  Property statements live in `Theorems.lean`.
-/
namespace ArrowModel.C05
open ArrowModel.Generated.C05


theorem bitsLE_length (w v : Nat) : (bitsLE w v).length = w := by simp [bitsLE]

theorem bitsLE_succ (w v : Nat) : bitsLE (w + 1) v = v.testBit 0 :: bitsLE w (v / 2) := by
  unfold bitsLE
  rw [List.range_succ_eq_map]
  simp [List.map_map, Function.comp_def, Nat.testBit_succ]

theorem ofBits_bitsLE (w : Nat) : ∀ v, ofBits (bitsLE w v) = v % 2 ^ w := by
  induction w with
  | zero => intro v; simp [bitsLE, ofBits, Nat.mod_one]
  | succ w ih =>
    intro v
    rw [bitsLE_succ, ofBits, ih, Nat.pow_succ', Nat.mod_mul]
    have : (if v.testBit 0 = true then 1 else 0) = v % 2 := by
      rw [Nat.testBit_zero]; rcases Nat.mod_two_eq_zero_or_one v with h | h <;> simp [h]
    omega

theorem ofBits_lt (bs : List Bool) : ofBits bs < 2 ^ bs.length := by
  induction bs with
  | nil => simp [ofBits]
  | cons b bs ih => simp only [ofBits, List.length_cons, Nat.pow_succ]; split <;> omega

theorem zigzag_roundtrip (v : BitVec 64) : zigzagDec (zigzagEnc v) = v := by
  unfold zigzagDec zigzagEnc ZIGZAG_ENC_SHL ZIGZAG_ENC_SAR ZIGZAG_DEC_SHR
  bv_decide

/-! ### bit packing -/


/-- field `i` of a packed value list is value `i` (truncated to the width) -/
theorem fieldAt_pack (w : Nat) : ∀ (vals : List Nat) (rest : List Bool) (i : Nat) (h : i < vals.length),
    fieldAt (vals.flatMap (bitsLE w) ++ rest) w i = vals[i] % 2 ^ w := by
  intro vals
  induction vals with
  | nil => intro rest i h; simp at h
  | cons v vs ih =>
    intro rest i h
    cases i with
    | zero =>
      simp only [fieldAt, List.flatMap_cons, Nat.zero_mul, List.drop_zero, List.append_assoc, List.getElem_cons_zero]
      rw [List.take_left' (bitsLE_length w v), ofBits_bitsLE]
    | succ i =>
      have h' : i < vs.length := by simpa using h
      have := ih rest i h'
      simp only [fieldAt, List.flatMap_cons, List.append_assoc, List.getElem_cons_succ] at this ⊢
      rw [show (i + 1) * w = w + i * w by rw [Nat.add_mul]; omega, ← List.drop_drop,
        List.drop_left' (bitsLE_length w v)]
      exact this

theorem unpack_pack (w : Nat) (vals : List Nat) (rest : List Bool) (k : Nat) (hk : k ≤ vals.length)
    (hv : ∀ v ∈ vals, v < 2 ^ w) :
    unpack w k (vals.flatMap (bitsLE w) ++ rest) = vals.take k := by
  apply List.ext_getElem
  · simp [unpack]; omega
  · intro i h1 h2
    have hi : i < k := by simpa [unpack] using h1
    have hi' : i < vals.length := by omega
    simp only [unpack, List.getElem_map, List.getElem_range, List.getElem_take]
    rw [fieldAt_pack w vals rest i hi']
    exact Nat.mod_eq_of_lt (hv _ (List.getElem_mem hi'))

/-! ### ULEB128 -/


theorem bitsOfBytes_cons (b : Nat) (bs : List Nat) : bitsOfBytes (b :: bs) = bitsLE 8 b ++ bitsOfBytes bs := by
  simp [bitsOfBytes]

theorem bitsOfBytes_append (a b : List Nat) : bitsOfBytes (a ++ b) = bitsOfBytes a ++ bitsOfBytes b := by
  simp [bitsOfBytes]

theorem bitsOfBytes_length (bs : List Nat) : (bitsOfBytes bs).length = 8 * bs.length := by
  induction bs with
  | nil => simp [bitsOfBytes]
  | cons b bs ih => rw [bitsOfBytes_cons, List.length_append, bitsLE_length, ih, List.length_cons]; omega

theorem alignBits_bytes (bs : List Nat) : alignBits (bitsOfBytes bs) = bitsOfBytes bs := by
  unfold alignBits; rw [bitsOfBytes_length]; simp

theorem byte_facts : ∀ m, m < 128 →
    (m + 128) &&& 127 = m ∧ (m + 128) &&& 128 ≠ 0 ∧ m &&& 127 = m ∧ m &&& 128 = 0 := by decide

theorem uleb_lt (n : Nat) (h : n < 128) : uleb n = [n] := by rw [uleb]; simp [h]
theorem uleb_ge (n : Nat) (h : ¬ n < 128) : uleb n = (n % 128 + 128) :: uleb (n / 128) := by
  rw [uleb]; simp [h]

theorem u64_or (a b : Nat) : u64 (a ||| b) = u64 a ||| u64 b := by
  unfold u64; exact Nat.or_mod_two_pow ..

theorem shift_split (n s : Nat) : n <<< s = ((n % 128) <<< s) ||| ((n / 128) <<< (s + 7)) := by
  apply Nat.eq_of_testBit_eq
  intro i
  simp only [Nat.testBit_or, Nat.testBit_shiftLeft, show (128:Nat) = 2 ^ 7 from rfl, Nat.testBit_mod_two_pow,
    Nat.testBit_div_two_pow]
  by_cases h1 : s ≤ i
  · by_cases h2 : s + 7 ≤ i
    · have a1 : ¬ (i - s < 7) := by omega
      have a2 : i - (s + 7) + 7 = i - s := by omega
      simp [h1, h2, a1, a2]
    · have a1 : i - s < 7 := by omega
      simp [h1, h2, a1]
  · have h2 : ¬ (s + 7 ≤ i) := by omega
    simp [h1, h2]

/-- **ULEB128 round trip, reader side**: the `get_vlq_int` loop reads back what the format's
`varint-encode` wrote, and stops exactly behind it. -/
theorem getVlqLoop_uleb : ∀ (left n shift acc : Nat) (rest : List Nat), n < 2 ^ (7 * (left + 1)) →
    getVlqLoop (left + 1) shift acc (bitsOfBytes (uleb n ++ rest)) =
      .ok (acc ||| u64 (n <<< shift)) (bitsOfBytes rest) := by
  intro left
  induction left with
  | zero =>
    intro n shift acc rest h
    have hn : n < 128 := by simpa using h
    obtain ⟨_, _, f3, f4⟩ := byte_facts n hn
    rw [uleb_lt n hn, List.singleton_append, bitsOfBytes_cons, getVlqLoop]
    have hl : ¬ ((bitsLE 8 n ++ bitsOfBytes rest).length < 8) := by simp [bitsLE_length]
    simp only [hl, if_false]
    rw [List.take_left' (bitsLE_length 8 n), List.drop_left' (bitsLE_length 8 n), ofBits_bitsLE,
      Nat.mod_eq_of_lt (by omega : n < 2 ^ 8)]
    simp [VLQ_PAYLOAD_MASK, VLQ_CONT_BIT, f3, f4]
  | succ left ih =>
    intro n shift acc rest h
    by_cases hn : n < 128
    · obtain ⟨_, _, f3, f4⟩ := byte_facts n hn
      rw [uleb_lt n hn, List.singleton_append, bitsOfBytes_cons, getVlqLoop]
      have hl : ¬ ((bitsLE 8 n ++ bitsOfBytes rest).length < 8) := by simp [bitsLE_length]
      simp only [hl, if_false]
      rw [List.take_left' (bitsLE_length 8 n), List.drop_left' (bitsLE_length 8 n), ofBits_bitsLE,
        Nat.mod_eq_of_lt (by omega : n < 2 ^ 8)]
      simp [VLQ_PAYLOAD_MASK, VLQ_CONT_BIT, f3, f4]
    · have hm : n % 128 < 128 := Nat.mod_lt _ (by decide)
      obtain ⟨f1, f2, _, _⟩ := byte_facts (n % 128) hm
      rw [uleb_ge n hn, List.cons_append, bitsOfBytes_cons, getVlqLoop]
      have hl : ¬ ((bitsLE 8 (n % 128 + 128) ++ bitsOfBytes (uleb (n / 128) ++ rest)).length < 8) := by
        simp [bitsLE_length]
      simp only [hl, if_false]
      rw [List.take_left' (bitsLE_length 8 _), List.drop_left' (bitsLE_length 8 _), ofBits_bitsLE,
        Nat.mod_eq_of_lt (by omega : n % 128 + 128 < 2 ^ 8)]
      have hd : n / 128 < 2 ^ (7 * (left + 1)) := by
        rw [Nat.div_lt_iff_lt_mul (by decide)]
        calc n < 2 ^ (7 * (left + 1 + 1)) := h
          _ = 2 ^ (7 * (left + 1)) * 128 := by rw [show 7 * (left + 1 + 1) = 7 * (left + 1) + 7 by omega, Nat.pow_add]
      simp only [VLQ_PAYLOAD_MASK, VLQ_CONT_BIT, VLQ_READ_SHIFT, f1, f2, if_false]
      rw [ih (n / 128) (shift + 7) _ rest hd, Nat.or_assoc, ← u64_or, ← shift_split]

theorem getVlq_uleb (n : Nat) (rest : List Nat) (h : n < 2 ^ 64) :
    getVlq (bitsOfBytes (uleb n ++ rest)) = .ok n (bitsOfBytes rest) := by
  unfold getVlq
  rw [alignBits_bytes, show MAX_VLQ_BYTE_LEN = 9 + 1 from rfl,
    getVlqLoop_uleb 9 n 0 0 rest (by calc n < 2 ^ 64 := h
                                      _ ≤ 2 ^ (7 * (9 + 1)) := by decide)]
  simp [u64, Nat.mod_eq_of_lt h]

/-! ### the run-level encoder -/


/-- structural well-formedness of a run -/
def Run.Ok : Run → Prop
  | .rle c _ => 0 < c
  | .packed vs => 0 < vs.length ∧ vs.length % 8 = 0

theorem runsValues_append (a b : List Run) : runsValues (a ++ b) = runsValues a ++ runsValues b := by
  simp [runsValues]

theorem runsValues_single (r : Run) : runsValues [r] = r.values := by simp [runsValues]

/-- the values handed to the encoder that are not yet part of a completed or open run -/
def RunEnc.pending (s : RunEnc) : List Nat := if 8 ≤ s.rep then List.replicate s.rep s.cur else s.buffered

structure RunEnc.Inv (s : RunEnc) (xs : List Nat) : Prop where
  vals : runsValues s.done ++ s.opn ++ s.pending = xs
  acc : 8 ≤ s.rep → s.buffered = [] ∧ s.opn = []
  buf : s.rep < 8 → s.buffered.length < 8 ∧ ∃ pre, s.buffered = pre ++ List.replicate s.rep s.cur
  opn8 : s.opn.length % 8 = 0
  ok : ∀ r ∈ s.done, r.Ok

theorem RunEnc.inv_init : RunEnc.Inv {} [] := by
  refine ⟨by simp [RunEnc.pending, runsValues], by simp, by simp, by simp, by simp⟩

theorem replicate_eq_of_append {pre : List Nat} {n : Nat} {c : Nat} (h : (pre ++ List.replicate n c).length = n) :
    pre = [] := by
  have : pre.length = 0 := by simpa using h
  exact List.length_eq_zero_iff.mp this

/-- `push` after the counters were updated: `s.rep ≥ 1` counts the value being pushed -/
theorem RunEnc.push_inv (s : RunEnc) (value : Nat) (ys : List Nat)
    (h1 : 1 ≤ s.rep) (h8 : s.rep ≤ 8)
    (hl : s.buffered.length < 8)
    (hpre : ∃ pre, s.buffered ++ [value] = pre ++ List.replicate s.rep s.cur)
    (hv : runsValues s.done ++ s.opn ++ (s.buffered ++ [value]) = ys)
    (ho : s.opn.length % 8 = 0) (hok : ∀ r ∈ s.done, r.Ok) :
    (s.push value).Inv ys := by
  unfold RunEnc.push
  simp only [BIT_PACK_GROUP_SIZE]
  by_cases hfull : (s.buffered ++ [value]).length = 8
  · simp only [hfull, if_true]
    unfold RunEnc.flushBufferedValues
    simp only [BIT_PACK_GROUP_SIZE, MAX_GROUPS_PER_BIT_PACKED_RUN]
    by_cases hr : s.rep ≥ 8
    · have hr8 : s.rep = 8 := by omega
      obtain ⟨pre, hp⟩ := hpre
      have hpe : pre = [] := by
        apply replicate_eq_of_append (n := s.rep) (c := s.cur)
        rw [← hp, hfull, hr8]
      subst hpe
      simp only [List.nil_append] at hp
      simp only [hr, if_true]
      by_cases hop : s.opn.length > 0
      · simp only [hop, if_true, RunEnc.finishBitPackedRun]
        refine ⟨?_, ?_, ?_, ?_, ?_⟩
        · simp only [RunEnc.pending, hr8, Nat.le_refl, if_true, runsValues_append, runsValues_single, Run.values]
          rw [← hv, hp, hr8]; simp
        · intro _; simp
        · intro h; simp at h; omega
        · simp
        · intro r hr'
          simp only [List.mem_append, List.mem_singleton] at hr'
          rcases hr' with h | h
          · exact hok r h
          · subst h; exact ⟨hop, ho⟩
      · have hop' : s.opn = [] := List.length_eq_zero_iff.mp (by omega)
        simp only [hop, if_false]
        refine ⟨?_, ?_, ?_, ?_, ?_⟩
        · simp only [RunEnc.pending, hr8, Nat.le_refl, if_true]
          rw [← hv, hp, hr8]
        · intro _; exact ⟨rfl, hop'⟩
        · intro h; simp at h; omega
        · exact ho
        · exact hok
    · simp only [hr, if_false]
      have hlen : (s.opn ++ (s.buffered ++ [value])).length % 8 = 0 := by
        rw [List.length_append, hfull]; omega
      have hpos : 0 < (s.opn ++ (s.buffered ++ [value])).length := by
        rw [List.length_append, hfull]; omega
      by_cases hg : (s.opn.length + (s.buffered ++ [value]).length) / 8 + 1 ≥ 64
      · simp only [hg, RunEnc.flushBitPackedRun, RunEnc.finishBitPackedRun, if_true]
        refine ⟨?_, ?_, ?_, ?_, ?_⟩
        · simp only [RunEnc.pending, runsValues_append, runsValues_single, Run.values]
          rw [← hv]; simp
        · intro h; simp at h
        · intro _; exact ⟨by simp, ⟨[], by simp⟩⟩
        · simp
        · intro r hr'
          simp only [List.mem_append, List.mem_singleton] at hr'
          rcases hr' with h | h
          · exact hok r h
          · subst h; exact ⟨hpos, hlen⟩
      · simp only [hg, RunEnc.flushBitPackedRun, Bool.false_eq_true, if_false]
        refine ⟨?_, ?_, ?_, ?_, ?_⟩
        · simp only [RunEnc.pending]
          rw [← hv]; simp
        · intro h; simp at h
        · intro _; exact ⟨by simp, ⟨[], by simp⟩⟩
        · exact hlen
        · exact hok
  · simp only [hfull, if_false]
    have hlt : (s.buffered ++ [value]).length < 8 := by
      have : (s.buffered ++ [value]).length = s.buffered.length + 1 := by simp
      omega
    have hr : s.rep < 8 := by
      obtain ⟨pre, hp⟩ := hpre
      have := congrArg List.length hp
      simp only [List.length_append, List.length_replicate, List.length_cons, List.length_nil] at this
      simp only [List.length_append, List.length_cons, List.length_nil] at hlt
      omega
    refine ⟨?_, ?_, ?_, ?_, ?_⟩
    · simp only [RunEnc.pending]
      rw [if_neg (by omega)]; exact hv
    · intro h; exact absurd h (by simp; omega)
    · intro _; exact ⟨hlt, hpre⟩
    · exact ho
    · exact hok

theorem RunEnc.put_inv (s : RunEnc) (xs : List Nat) (value : Nat) (h : s.Inv xs) :
    (s.put value).Inv (xs ++ [value]) := by
  unfold RunEnc.put
  simp only [BIT_PACK_GROUP_SIZE]
  by_cases hc : s.cur = value
  · simp only [hc, if_true]
    by_cases hgt : s.rep + 1 > 8
    · simp only [hgt, if_true]
      have h8 : 8 ≤ s.rep := by omega
      obtain ⟨hb, ho⟩ := h.acc h8
      refine ⟨?_, ?_, ?_, ?_, ?_⟩
      · have hv := h.vals
        simp only [RunEnc.pending, h8, if_true] at hv
        simp only [RunEnc.pending, show 8 ≤ s.rep + 1 by omega, if_true]
        rw [← hv, List.replicate_succ', hc]; simp
      · intro _; exact ⟨hb, ho⟩
      · intro h'; simp at h'; omega
      · exact h.opn8
      · exact h.ok
    · simp only [hgt, if_false]
      have hlt : s.rep < 8 := by omega
      obtain ⟨hbl, pre, hp⟩ := h.buf hlt
      apply RunEnc.push_inv
      · simp
      · simp; omega
      · exact hbl
      · refine ⟨pre, ?_⟩
        simp only []
        rw [hp, List.replicate_succ', hc]; simp
      · have hv := h.vals
        simp only [RunEnc.pending, show ¬ 8 ≤ s.rep by omega, if_false] at hv
        simp only []
        rw [← hv]; simp
      · exact h.opn8
      · exact h.ok
  · simp only [hc, if_false]
    by_cases h8 : s.rep ≥ 8
    · simp only [h8, if_true, RunEnc.flushRleRun]
      obtain ⟨hb, ho⟩ := h.acc h8
      apply RunEnc.push_inv
      · simp
      · simp
      · simp
      · exact ⟨[], by simp⟩
      · have hv := h.vals
        simp only [RunEnc.pending, show 8 ≤ s.rep from h8, if_true, ho] at hv
        simp only [runsValues_append, runsValues_single, Run.values, ho]
        rw [← hv]; simp
      · exact h.opn8
      · intro r hr
        simp only [List.mem_append, List.mem_singleton] at hr
        rcases hr with h' | h'
        · exact h.ok r h'
        · subst h'; show 0 < s.rep; omega
    · simp only [h8, if_false]
      have hlt : s.rep < 8 := by omega
      obtain ⟨hbl, pre, hp⟩ := h.buf hlt
      apply RunEnc.push_inv
      · simp
      · simp
      · exact hbl
      · exact ⟨s.buffered, by simp⟩
      · have hv := h.vals
        simp only [RunEnc.pending, show ¬ 8 ≤ s.rep by omega, if_false] at hv
        simp only []
        rw [← hv]; simp
      · exact h.opn8
      · exact h.ok

theorem RunEnc.foldl_inv (xs : List Nat) : ∀ (s : RunEnc) (pre : List Nat), s.Inv pre →
    (xs.foldl RunEnc.put s).Inv (pre ++ xs) := by
  induction xs with
  | nil => intro s pre h; simpa using h
  | cons x xs ih =>
    intro s pre h
    rw [List.foldl_cons, show pre ++ x :: xs = (pre ++ [x]) ++ xs by simp]
    exact ih _ _ (RunEnc.put_inv s pre x h)

/-- `flush` closes everything: the completed runs denote the input followed by fewer than 8
zeros of padding, and every run is well formed -/
theorem RunEnc.flush_inv (s : RunEnc) (xs : List Nat) (h : s.Inv xs) :
    (∃ k, k < 8 ∧ runsValues s.flush.done = xs ++ List.replicate k 0) ∧ ∀ r ∈ s.flush.done, r.Ok := by
  unfold RunEnc.flush
  simp only [BIT_PACK_GROUP_SIZE]
  by_cases hany : s.opn.length > 0 ∨ s.rep > 0 ∨ s.buffered.length > 0
  · simp only [hany, if_true]
    by_cases hrle : s.rep > 0 ∧ s.opn.length = 0 ∧ (s.rep = s.buffered.length ∨ s.buffered.length = 0)
    · simp only [hrle, RunEnc.flushRleRun]
      obtain ⟨hr0, ho, hrb⟩ := hrle
      have ho' : s.opn = [] := List.length_eq_zero_iff.mp ho
      have hpend : s.pending = List.replicate s.rep s.cur := by
        unfold RunEnc.pending
        by_cases h8 : 8 ≤ s.rep
        · simp [h8]
        · simp only [h8, if_false]
          obtain ⟨hbl, pre, hp⟩ := h.buf (by omega)
          rcases hrb with hrb | hrb
          · have : pre = [] := by
              apply replicate_eq_of_append (n := s.rep) (c := s.cur); rw [← hp]; omega
            subst this; simpa using hp
          · have := congrArg List.length hp
            simp at this; omega
      constructor
      · refine ⟨0, by omega, ?_⟩
        have hv := h.vals
        rw [hpend, ho'] at hv
        show runsValues (s.done ++ [Run.rle s.rep s.cur]) = _
        simp only [runsValues_append, runsValues_single, Run.values]
        rw [← hv]; simp
      · intro r hr
        have hr : r ∈ s.done ++ [Run.rle s.rep s.cur] := hr
        simp only [List.mem_append, List.mem_singleton] at hr
        rcases hr with h' | h'
        · exact h.ok r h'
        · subst h'; exact hr0
    · simp only [hrle, if_false]
      have hlt : s.rep < 8 := by
        apply Classical.byContradiction
        intro h8
        obtain ⟨hb, ho⟩ := h.acc (by omega)
        exact hrle ⟨by omega, by simp [ho], Or.inr (by simp [hb])⟩
      obtain ⟨hbl, pre, hp⟩ := h.buf hlt
      have hv := h.vals
      simp only [RunEnc.pending, show ¬ 8 ≤ s.rep by omega, if_false] at hv
      by_cases hb : s.buffered.length > 0
      · simp only [hb, if_true, RunEnc.flushBitPackedRun, RunEnc.finishBitPackedRun]
        constructor
        · refine ⟨8 - s.buffered.length, by omega, ?_⟩
          simp only [runsValues_append, runsValues_single, Run.values]
          rw [← hv]; simp
        · intro r hr
          simp only [List.mem_append, List.mem_singleton] at hr
          rcases hr with h' | h'
          · exact h.ok r h'
          · subst h'
            have := h.opn8
            constructor
            · simp; omega
            · simp; omega
      · have hb0 : s.buffered = [] := List.length_eq_zero_iff.mp (by omega)
        simp only [hb, if_false, RunEnc.flushBitPackedRun, RunEnc.finishBitPackedRun, if_true]
        have hop : 0 < s.opn.length := by
          apply Classical.byContradiction
          intro hop
          have hb0' : s.buffered.length = 0 := by omega
          have hr0 : s.rep > 0 := by rcases hany with h' | h' | h' <;> omega
          exact hrle ⟨hr0, by omega, Or.inr hb0'⟩
        constructor
        · refine ⟨0, by omega, ?_⟩
          simp only [runsValues_append, runsValues_single, Run.values]
          rw [← hv, hb0]; simp
        · intro r hr
          simp only [List.mem_append, List.mem_singleton] at hr
          rcases hr with h' | h'
          · exact h.ok r h'
          · subst h'
            have := h.opn8
            constructor
            · simp [hb0]; omega
            · simp [hb0]; omega
  · simp only [hany, if_false]
    have ho : s.opn = [] := List.length_eq_zero_iff.mp (by omega)
    have hb : s.buffered = [] := List.length_eq_zero_iff.mp (by omega)
    have hr : s.rep = 0 := by omega
    constructor
    · refine ⟨0, by omega, ?_⟩
      have hv := h.vals
      simp only [RunEnc.pending, hr, ho, hb] at hv
      rw [← hv]; simp
    · exact h.ok

/-- the run decomposition chosen by `RleEncoder` denotes the input (plus < 8 zeros of padding) -/
theorem rleRuns_values (xs : List Nat) :
    (∃ k, k < 8 ∧ runsValues (rleRuns xs) = xs ++ List.replicate k 0) ∧ ∀ r ∈ rleRuns xs, r.Ok := by
  unfold rleRuns
  have := RunEnc.foldl_inv xs {} [] RunEnc.inv_init
  simpa using RunEnc.flush_inv _ _ (by simpa using this)


/-! ### bytes ↔ bits -/


theorem ofBits_append (a b : List Bool) : ofBits (a ++ b) = ofBits a + 2 ^ a.length * ofBits b := by
  induction a with
  | nil => simp [ofBits]
  | cons x a ih =>
    simp only [List.cons_append, ofBits, ih, List.length_cons, Nat.pow_succ]
    have : 2 ^ a.length * 2 * ofBits b = 2 * (2 ^ a.length * ofBits b) := by
      rw [Nat.mul_comm (2 ^ a.length) 2, Nat.mul_assoc]
    split <;> omega

theorem leBytes_length (k v : Nat) : (leBytes k v).length = k := by
  induction k generalizing v with
  | zero => simp [leBytes]
  | succ k ih => simp [leBytes, ih]

theorem ofBits_leBytes (k : Nat) : ∀ v, ofBits (bitsOfBytes (leBytes k v)) = v % 2 ^ (8 * k) := by
  induction k with
  | zero => intro v; simp [leBytes, bitsOfBytes, ofBits, Nat.mod_one]
  | succ k ih =>
    intro v
    rw [leBytes, bitsOfBytes_cons, ofBits_append, bitsLE_length, ofBits_bitsLE, ih,
      show 8 * (k + 1) = 8 + 8 * k by omega, Nat.pow_add, Nat.mod_mul]
    have e1 : (2:Nat) ^ 8 = 256 := by decide
    rw [e1]
    have : v % 256 % 256 = v % 256 := Nat.mod_mod _ _
    omega

theorem bitsLE_ofBits (a : List Bool) : bitsLE a.length (ofBits a) = a := by
  induction a with
  | nil => simp [bitsLE]
  | cons x a ih =>
    rw [List.length_cons, bitsLE_succ, ofBits]
    have h1 : ((if x = true then 1 else 0) + 2 * ofBits a) / 2 = ofBits a := by split <;> omega
    have h2 : ((if x = true then 1 else 0) + 2 * ofBits a).testBit 0 = x := by
      rw [Nat.testBit_zero]; cases x <;> simp <;> omega
    rw [h1, h2, ih]

theorem bytesOfBits_cons8 (a b : List Bool) (ha : a.length = 8) :
    bytesOfBits (a ++ b) = ofBits a :: bytesOfBits b := by
  unfold bytesOfBits
  rw [List.length_append, ha, show (8 + b.length + 7) / 8 = (b.length + 7) / 8 + 1 by omega,
    List.range_succ_eq_map]
  simp only [List.map_cons, List.map_map, Nat.mul_zero, List.drop_zero]
  rw [List.take_left' ha]
  congr 1
  apply List.map_congr_left
  intro k _
  simp only [Function.comp]
  rw [show 8 * (k + 1) = 8 + 8 * k by omega, ← List.drop_drop, List.drop_left' ha]

theorem bitsOfBytes_bytesOfBits : ∀ (n : Nat) (bits : List Bool), bits.length = 8 * n →
    bitsOfBytes (bytesOfBits bits) = bits := by
  intro n
  induction n with
  | zero => intro bits h; have : bits = [] := List.length_eq_zero_iff.mp (by omega); subst this; simp [bytesOfBits, bitsOfBytes]
  | succ n ih =>
    intro bits h
    have h8 : (bits.take 8).length = 8 := by rw [List.length_take]; omega
    have hd : (bits.drop 8).length = 8 * n := by rw [List.length_drop]; omega
    conv => lhs; rw [← List.take_append_drop 8 bits]
    rw [bytesOfBits_cons8 _ _ h8, bitsOfBytes_cons, ih _ hd]
    have := bitsLE_ofBits (bits.take 8)
    rw [h8] at this
    rw [this, List.take_append_drop]

theorem flatMap_bitsLE_length (w : Nat) (vs : List Nat) : (vs.flatMap (bitsLE w)).length = vs.length * w := by
  induction vs with
  | nil => simp
  | cons v vs ih => rw [List.flatMap_cons, List.length_append, bitsLE_length, ih, List.length_cons]; rw [Nat.add_mul]; omega

theorem bitsOfBytes_packBytes (w : Nat) (vs : List Nat) (h : vs.length % 8 = 0) :
    bitsOfBytes (packBytes w vs) = vs.flatMap (bitsLE w) := by
  unfold packBytes
  apply bitsOfBytes_bytesOfBits (vs.length / 8 * w)
  rw [flatMap_bitsLE_length]
  have : vs.length = 8 * (vs.length / 8) := by omega
  calc vs.length * w = 8 * (vs.length / 8) * w := by rw [← this]
    _ = 8 * (vs.length / 8 * w) := by rw [Nat.mul_assoc]


/-! ### the decoder on valid run sequences -/


theorem getAligned_leBytes (k v : Nat) (rest : List Nat) :
    getAligned k (bitsOfBytes (leBytes k v ++ rest)) = some (v % 2 ^ (8 * k), bitsOfBytes rest) := by
  unfold getAligned
  rw [alignBits_bytes, bitsOfBytes_append]
  have hl : (bitsOfBytes (leBytes k v)).length = 8 * k := by rw [bitsOfBytes_length, leBytes_length]
  have : ¬ ((bitsOfBytes (leBytes k v) ++ bitsOfBytes rest).length < 8 * k) := by
    rw [List.length_append, hl]; omega
  simp only [this, if_false]
  rw [List.take_left' hl, List.drop_left' hl, ofBits_leBytes]

theorem sar1_small (u : Nat) (h : u < 2 ^ 63) : sar1 u = u / 2 := by simp [sar1, h]

theorem and_one (n : Nat) : n &&& 1 = n % 2 := by
  have := Nat.and_two_pow_sub_one_eq_mod n 1
  simpa using this

/-- `reload` on an RLE run of the format -/
theorem reload_rle (w c v : Nat) (rest : List Nat) (hc0 : 0 < c) (hc : c < 2 ^ 31) (hv : v < 2 ^ w) :
    reload w (bitsOfBytes (encodeRun w (.rle c v) ++ rest)) = .rle c v (bitsOfBytes rest) := by
  unfold reload encodeRun
  rw [List.append_assoc, getVlq_uleb (2 * c) _ (by omega)]
  have h1 : ¬ (2 * c = 0) := by omega
  have h2 : ¬ ((2 * c) &&& DEC_INDICATOR_FLAG_MASK = 1) := by
    simp only [DEC_INDICATOR_FLAG_MASK]; rw [and_one]; omega
  simp only [h1, h2, if_false]
  have hk : ceilDiv w 8 = (w + 7) / 8 := by unfold ceilDiv; rfl
  rw [hk, getAligned_leBytes]
  have hv' : v % 2 ^ (8 * ((w + 7) / 8)) = v := by
    apply Nat.mod_eq_of_lt
    calc v < 2 ^ w := hv
      _ ≤ 2 ^ (8 * ((w + 7) / 8)) := Nat.pow_le_pow_right (by decide) (by omega)
  have hs : u32 (sar1 (2 * c)) = c := by
    rw [sar1_small _ (by omega)]; unfold u32; omega
  simp only [hv', hs]

/-- `reload` on a bit-packed run of the format -/
theorem reload_packed (w : Nat) (vs : List Nat) (rest : List Nat) (hl : vs.length % 8 = 0) (hlt : vs.length < 2 ^ 31) :
    reload w (bitsOfBytes (encodeRun w (.packed vs) ++ rest)) =
      .packed vs.length (vs.flatMap (bitsLE w) ++ bitsOfBytes rest) := by
  unfold reload encodeRun
  rw [List.append_assoc, getVlq_uleb (2 * (vs.length / 8) + 1) _ (by omega)]
  have h1 : ¬ (2 * (vs.length / 8) + 1 = 0) := by omega
  have h2 : (2 * (vs.length / 8) + 1) &&& DEC_INDICATOR_FLAG_MASK = 1 := by
    simp only [DEC_INDICATOR_FLAG_MASK]; rw [and_one]; omega
  simp only [h1, h2, if_false, if_true]
  have hs : u32 (u64 (sar1 (2 * (vs.length / 8) + 1) * BIT_PACK_GROUP_SIZE)) = vs.length := by
    rw [sar1_small _ (by omega)]; unfold u32 u64; simp only [BIT_PACK_GROUP_SIZE]; omega
  rw [hs, bitsOfBytes_append, bitsOfBytes_packBytes w vs hl]

theorem getBatchLoop_zero (w fuel : Nat) (bits : List Bool) (rl bl cur : Nat) :
    getBatchLoop w fuel bits rl bl cur 0 = .ok [] := by
  cases fuel <;> simp [getBatchLoop]

theorem encodeRuns_cons (w : Nat) (r : Run) (rs : List Run) :
    encodeRuns w (r :: rs) = encodeRun w r ++ encodeRuns w rs := by simp [encodeRuns]

theorem runsValues_cons (r : Run) (rs : List Run) : runsValues (r :: rs) = r.values ++ runsValues rs := by
  simp [runsValues]

theorem take_min_left (n : Nat) (l : List Nat) : l.take (min n l.length) = l.take n := by
  by_cases h : n ≤ l.length
  · rw [Nat.min_eq_left h]
  · have h' : l.length ≤ n := by omega
    rw [Nat.min_eq_right h', List.take_of_length_le h', List.take_of_length_le (Nat.le_refl _)]

/-- **format-level round trip**: the `get_batch` loop started in front of any valid run
sequence returns its first `n` values -/
theorem getBatchLoop_runs (w : Nat) : ∀ (runs : List Run), (∀ r ∈ runs, r.Valid w) →
    ∀ (n fuel cur : Nat), n ≤ (runsValues runs).length → 2 * runs.length + 1 ≤ fuel →
    getBatchLoop w fuel (bitsOfBytes (encodeRuns w runs)) 0 0 cur n = .ok ((runsValues runs).take n) := by
  intro runs
  induction runs with
  | nil =>
    intro _ n fuel cur hn hf
    have : n = 0 := by simpa [runsValues] using hn
    subst this
    rw [getBatchLoop_zero]; simp
  | cons r rs ih =>
    intro hvalid n fuel cur hn hf
    have hvr := hvalid r (by simp)
    have hvrs : ∀ r' ∈ rs, r'.Valid w := fun r' h => hvalid r' (by simp [h])
    by_cases hn0 : n = 0
    · subst hn0; rw [getBatchLoop_zero]; simp
    obtain ⟨f, rfl⟩ : ∃ f, fuel = f + 1 := ⟨fuel - 1, by omega⟩
    obtain ⟨f', rfl⟩ : ∃ f', f = f' + 1 := ⟨f - 1, by simp at hf; omega⟩
    have hf' : 2 * rs.length + 1 ≤ f' := by simp at hf; omega
    rw [runsValues_cons] at hn ⊢
    rw [getBatchLoop, encodeRuns_cons]
    simp only [hn0, if_false, Nat.lt_irrefl]
    cases r with
    | rle c v =>
      obtain ⟨hc0, hc, hv⟩ := hvr
      rw [reload_rle w c v _ hc0 hc hv]
      simp only []
      rw [getBatchLoop]
      simp only [hn0, if_false, hc0, if_true, Run.values]
      by_cases hle : n ≤ c
      · rw [Nat.min_eq_left hle, Nat.sub_self, getBatchLoop_zero]
        simp only [DecRes.prepend, List.append_nil]
        rw [List.take_append_of_le_length (by simpa using hle), List.take_replicate, Nat.min_eq_left hle]
      · have hgt : c < n := by omega
        have hk : min n c = c := Nat.min_eq_right (by omega)
        have hn' : n - c ≤ (runsValues rs).length := by
          simp only [Run.values, List.length_append, List.length_replicate] at hn; omega
        rw [hk, Nat.sub_self, ih hvrs (n - c) f' v hn' hf']
        simp only [DecRes.prepend]
        have h1 : (List.replicate c v).take n = List.replicate c v :=
          List.take_of_length_le (by rw [List.length_replicate]; omega)
        rw [List.take_append, h1]
        simp
    | packed vs =>
      obtain ⟨hl0, hl8, hlt, hv⟩ := hvr
      rw [reload_packed w vs _ hl8 hlt]
      simp only []
      rw [getBatchLoop]
      simp only [hn0, if_false, Nat.lt_irrefl, hl0, if_true, Run.values]
      have hbits : ¬ ((vs.flatMap (bitsLE w) ++ bitsOfBytes (encodeRuns w rs)).length < w * min n vs.length) := by
        rw [List.length_append, flatMap_bitsLE_length]
        have : w * min n vs.length ≤ vs.length * w := by
          rw [Nat.mul_comm]; exact Nat.mul_le_mul_right _ (Nat.min_le_right _ _)
        omega
      have hm0 : ¬ (min n vs.length = 0) := by
        have : 0 < min n vs.length := Nat.lt_min.mpr ⟨by omega, hl0⟩
        omega
      simp only [hbits, if_false, hm0]
      rw [unpack_pack w vs _ _ (Nat.min_le_right _ _) hv, take_min_left]
      by_cases hle : n ≤ vs.length
      · rw [Nat.min_eq_left hle, Nat.sub_self, getBatchLoop_zero]
        simp only [DecRes.prepend, List.append_nil]
        rw [List.take_append_of_le_length hle]
      · have hgt : vs.length < n := by omega
        have hk : min n vs.length = vs.length := Nat.min_eq_right (by omega)
        have hn' : n - vs.length ≤ (runsValues rs).length := by
          simp only [Run.values, List.length_append] at hn; omega
        rw [hk, Nat.sub_self, List.drop_left' (flatMap_bitsLE_length w vs),
          ih hvrs (n - vs.length) f' cur hn' hf']
        simp only [DecRes.prepend]
        have h1 : vs.take n = vs := List.take_of_length_le (by omega)
        rw [List.take_append, h1]

theorem uleb_length_pos (n : Nat) : 0 < (uleb n).length := by
  by_cases h : n < 128
  · rw [uleb_lt n h]; simp
  · rw [uleb_ge n h]; simp

theorem encodeRun_length_pos (w : Nat) (r : Run) : 0 < (encodeRun w r).length := by
  cases r with
  | rle c v => have := uleb_length_pos (2 * c); simp only [encodeRun, List.length_append]; omega
  | packed vs => have := uleb_length_pos (2 * (vs.length / 8) + 1); simp only [encodeRun, List.length_append]; omega

theorem encodeRuns_length (w : Nat) (runs : List Run) : runs.length ≤ (encodeRuns w runs).length := by
  induction runs with
  | nil => simp
  | cons r rs ih =>
    rw [encodeRuns_cons, List.length_append, List.length_cons]
    have := encodeRun_length_pos w r
    omega

/-- `RleDecoder::set_data` + `get_batch(n)` on any valid run sequence -/
theorem rleDecode_runs (w : Nat) (runs : List Run) (hvalid : ∀ r ∈ runs, r.Valid w) (n : Nat)
    (hn : n ≤ (runsValues runs).length) :
    rleDecode w (encodeRuns w runs) n = .ok ((runsValues runs).take n) := by
  simp only [rleDecode]
  cases runs with
  | nil =>
    have : n = 0 := by simpa [runsValues] using hn
    subst this
    have hv : getVlq (bitsOfBytes (encodeRuns w [])) = .eof := by
      simp only [encodeRuns, List.flatMap_nil, bitsOfBytes, getVlq, alignBits, List.length_nil, List.drop_nil]
      rw [getVlqLoop.eq_def]; simp
    simp only [reload, hv, getBatchLoop_zero, runsValues, List.flatMap_nil, List.take_nil]
  | cons r rs =>
    by_cases hn0 : n = 0
    · subst hn0
      cases r with
      | rle c v =>
        obtain ⟨hc0, hc, hv⟩ := hvalid (Run.rle c v) (by simp)
        rw [encodeRuns_cons, reload_rle w c v _ hc0 hc hv]
        simp [getBatchLoop_zero]
      | packed vs =>
        obtain ⟨hl0, hl8, hlt, hv⟩ := hvalid (Run.packed vs) (by simp)
        rw [encodeRuns_cons, reload_packed w vs _ hl8 hlt]
        simp [getBatchLoop_zero]
    · have hlen := encodeRuns_length w (r :: rs)
      have key := getBatchLoop_runs w (r :: rs) hvalid n
        (n + (bitsOfBytes (encodeRuns w (r :: rs))).length + 2 + 1) 0 hn
        (by rw [bitsOfBytes_length]; omega)
      rw [getBatchLoop] at key
      simp only [hn0, if_false, Nat.lt_irrefl] at key
      cases r with
      | rle c v =>
        obtain ⟨hc0, hc, hv⟩ := hvalid (Run.rle c v) (by simp)
        rw [encodeRuns_cons, reload_rle w c v _ hc0 hc hv] at key ⊢
        exact key
      | packed vs =>
        obtain ⟨hl0, hl8, hlt, hv⟩ := hvalid (Run.packed vs) (by simp)
        rw [encodeRuns_cons, reload_packed w vs _ hl8 hlt] at key ⊢
        exact key

theorem mem_runsValues (runs : List Run) (r : Run) (x : Nat) (hr : r ∈ runs) (hx : x ∈ r.values) :
    x ∈ runsValues runs := by
  unfold runsValues; exact List.mem_flatMap.mpr ⟨r, hr, hx⟩

theorem values_length_le (runs : List Run) (r : Run) (hr : r ∈ runs) :
    r.values.length ≤ (runsValues runs).length := by
  induction runs with
  | nil => simp at hr
  | cons a as ih =>
    rw [runsValues_cons, List.length_append]
    rcases List.mem_cons.mp hr with h | h
    · subst h; omega
    · have := ih h; omega

/-- well-formed runs denoting values `< 2^w`, fewer than `2^31` in total, are valid -/
theorem valid_of_ok (w : Nat) (runs : List Run) (hok : ∀ r ∈ runs, r.Ok)
    (hv : ∀ x ∈ runsValues runs, x < 2 ^ w) (hl : (runsValues runs).length < 2 ^ 31) :
    ∀ r ∈ runs, r.Valid w := by
  intro r hr
  have hlen := values_length_le runs r hr
  cases r with
  | rle c v =>
    have h0 : 0 < c := hok _ hr
    simp only [Run.values, List.length_replicate] at hlen
    refine ⟨h0, by omega, ?_⟩
    exact hv v (mem_runsValues runs _ v hr (by simp [Run.values]; omega))
  | packed vs =>
    obtain ⟨h0, h8⟩ := hok _ hr
    simp only [Run.values] at hlen
    exact ⟨h0, h8, by omega, fun x hx => hv x (mem_runsValues runs _ x hr hx)⟩

theorem rle_roundtrip_runs (w : Nat) (xs : List Nat) (hv : ∀ x ∈ xs, x < 2 ^ w) (hl : xs.length + 8 < 2 ^ 31) :
    rleDecode w (encodeRuns w (rleRuns xs)) xs.length = .ok xs := by
  obtain ⟨⟨k, hk, hvals⟩, hok⟩ := rleRuns_values xs
  have hvalid := valid_of_ok w (rleRuns xs) hok
    (by rw [hvals]; intro x hx
        rcases List.mem_append.mp hx with h | h
        · exact hv x h
        · rw [(List.mem_replicate.mp h).2]; exact Nat.two_pow_pos w)
    (by rw [hvals]; simp; omega)
  rw [rleDecode_runs w _ hvalid xs.length (by rw [hvals]; simp), hvals, List.take_left' rfl]


/-! ### Dremel: record assembly inverts shredding -/


/-- shape of a shredded value: non-empty, the first entry carries `r`, all later entries have
`rep > k`, every entry has `dfn ≥ d` -/
structure ShredShape (d k r : Nat) (es : List Entry) : Prop where
  ne : ∃ e rest, es = e :: rest ∧ e.rep = r ∧ ∀ x ∈ rest, k < x.rep
  dfn : ∀ x ∈ es, d ≤ x.dfn

theorem shredShape_flatMap {α : Type} (f : α → List Entry) (d k : Nat) (xs : List α)
    (h : ∀ x, ShredShape d (k + 1) (k + 1) (f x)) :
    (∀ e ∈ xs.flatMap f, k < e.rep) ∧ (∀ e ∈ xs.flatMap f, d ≤ e.dfn) := by
  constructor
  · intro e he
    obtain ⟨x, _, hx⟩ := List.mem_flatMap.mp he
    obtain ⟨e0, rest, heq, hr, hrest⟩ := (h x).ne
    rw [heq] at hx
    rcases List.mem_cons.mp hx with h1 | h1
    · subst h1; omega
    · have := hrest e h1; omega
  · intro e he
    obtain ⟨x, _, hx⟩ := List.mem_flatMap.mp he
    exact (h x).dfn e hx

theorem shred_shape : ∀ (p : List Layer) (d k r : Nat) (v : ValOf p), ShredShape d k r (shred p d k r v) := by
  intro p
  induction p with
  | nil => intro d k r v; exact ⟨⟨_, [], rfl, rfl, by simp⟩, by simp [shred]⟩
  | cons l p ih =>
    cases l with
    | opt =>
      intro d k r v
      have key : ∀ v : Option (ValOf p), ShredShape d k r (shred (.opt :: p) d k r v) := by
        intro v
        cases v with
        | none => exact ⟨⟨_, [], rfl, rfl, by simp⟩, by simp [shred]⟩
        | some x =>
          have := ih (d + 1) k r x
          exact ⟨this.ne, fun e he => by have := this.dfn e he; omega⟩
      exact key v
    | rep =>
      intro d k r v
      have key : ∀ v : List (ValOf p), ShredShape d k r (shred (.rep :: p) d k r v) := by
        intro v
        cases v with
        | nil => exact ⟨⟨_, [], rfl, rfl, by simp⟩, by simp [shred]⟩
        | cons x xs =>
          have h1 := ih (d + 1) (k + 1) r x
          have h2 := shredShape_flatMap (shred p (d + 1) (k + 1) (k + 1)) (d + 1) k xs (fun y => ih _ _ _ y)
          obtain ⟨e0, rest, heq, hr, hrest⟩ := h1.ne
          show ShredShape d k r (shred p (d + 1) (k + 1) r x ++ xs.flatMap (shred p (d + 1) (k + 1) (k + 1)))
          refine ⟨⟨e0, rest ++ xs.flatMap (shred p (d + 1) (k + 1) (k + 1)), by rw [heq]; rfl, hr, ?_⟩, ?_⟩
          · intro y hy
            rcases List.mem_append.mp hy with h | h
            · have := hrest y h; omega
            · exact h2.1 y h
          · intro y hy
            rcases List.mem_append.mp hy with h | h
            · have := h1.dfn y h; omega
            · have := h2.2 y h; omega
      exact key v

theorem groups_ne (lvl : Nat) (e : Entry) (es : List Entry) : groups lvl (e :: es) ≠ [] := by
  cases es with
  | nil => simp [groups]
  | cons e' es =>
    rw [groups]
    split
    · split <;> simp
    · simp

/-- a chunk (first entry, then entries with `rep > lvl`) followed by nothing or by an entry
with `rep ≤ lvl` is cut off as one group -/
theorem groups_chunk (lvl : Nat) (tail : List Entry) (ht : ∀ e ∈ tail.head?, e.rep ≤ lvl) :
    ∀ (rest : List Entry) (e : Entry), (∀ x ∈ rest, lvl < x.rep) →
      groups lvl (e :: rest ++ tail) = (e :: rest) :: groups lvl tail := by
  intro rest
  induction rest with
  | nil =>
    intro e _
    cases tail with
    | nil => simp [groups]
    | cons t ts =>
      have : t.rep ≤ lvl := ht t (by simp)
      simp only [List.nil_append, List.cons_append]
      rw [groups]
      simp [show ¬ lvl < t.rep by omega]
  | cons y ys ih =>
    intro e h
    have hy : lvl < y.rep := h y (by simp)
    have := ih y (fun x hx => h x (by simp [hx]))
    simp only [List.cons_append] at this ⊢
    rw [groups]
    simp only [hy, if_true, this]

theorem mapOpt_map_some {α β : Type} (f : α → Option β) (g : β → α) (h : ∀ y, f (g y) = some y) (ys : List β) :
    mapOpt f (ys.map g) = some ys := by
  induction ys with
  | nil => rfl
  | cons y ys ih => simp [mapOpt, h y, ih]

/-- cutting a concatenation of shredded elements gives the elements back -/
theorem groups_flatMap (p : List Layer) (d k : Nat) (xs : List (ValOf p)) :
    groups k (xs.flatMap (shred p d k k)) = xs.map (shred p d k k) := by
  induction xs with
  | nil => simp [groups]
  | cons x xs ih =>
    obtain ⟨e, rest, heq, _, hrest⟩ := (shred_shape p d k k x).ne
    rw [List.flatMap_cons, List.map_cons, heq, groups_chunk k _ ?_ rest e hrest, ih]
    intro t ht
    cases xs with
    | nil => simp at ht
    | cons x' xs' =>
      obtain ⟨e', rest', heq', hr', _⟩ := (shred_shape p d k k x').ne
      rw [List.flatMap_cons, heq'] at ht
      simp at ht; subst ht; omega

/-- **record assembly inverts shredding**, for every layer path and every value -/
theorem assemble_shred : ∀ (p : List Layer) (d k r : Nat) (v : ValOf p),
    assemble p d k (shred p d k r v) = some v := by
  intro p
  induction p with
  | nil => intro d k r v; rfl
  | cons l p ih =>
    cases l with
    | opt =>
      intro d k r v
      have key : ∀ v : Option (ValOf p), assemble (.opt :: p) d k (shred (.opt :: p) d k r v) = some v := by
        intro v
        cases v with
        | none =>
          show assemble (.opt :: p) d k [⟨r, d, none⟩] = _
          simp only [assemble, Nat.le_refl, if_true]; rfl
        | some x =>
          obtain ⟨e, rest, heq, _, _⟩ := (shred_shape p (d + 1) k r x).ne
          have hd := (shred_shape p (d + 1) k r x).dfn e (by rw [heq]; simp)
          show assemble (.opt :: p) d k (shred p (d + 1) k r x) = _
          have := ih (d + 1) k r x
          rw [heq] at this ⊢
          simp only [assemble, show ¬ e.dfn ≤ d by omega, if_false, this, Option.map_some]; rfl
      exact key v
    | rep =>
      intro d k r v
      have key : ∀ v : List (ValOf p), assemble (.rep :: p) d k (shred (.rep :: p) d k r v) = some v := by
        intro v
        cases v with
        | nil =>
          show assemble (.rep :: p) d k [⟨r, d, none⟩] = _
          simp only [assemble, Nat.le_refl, if_true]; rfl
        | cons x xs =>
          obtain ⟨e, rest, heq, _, hrest⟩ := (shred_shape p (d + 1) (k + 1) r x).ne
          have hd := (shred_shape p (d + 1) (k + 1) r x).dfn e (by rw [heq]; simp)
          show assemble (.rep :: p) d k
            (shred p (d + 1) (k + 1) r x ++ xs.flatMap (shred p (d + 1) (k + 1) (k + 1))) = _
          have hg : groups (k + 1) (shred p (d + 1) (k + 1) r x ++ xs.flatMap (shred p (d + 1) (k + 1) (k + 1)))
              = shred p (d + 1) (k + 1) r x :: xs.map (shred p (d + 1) (k + 1) (k + 1)) := by
            rw [heq, groups_chunk (k + 1) _ ?_ rest e hrest, groups_flatMap]
            intro t ht
            cases xs with
            | nil => simp at ht
            | cons x' xs' =>
              obtain ⟨e', rest', heq', hr', _⟩ := (shred_shape p (d + 1) (k + 1) (k + 1) x').ne
              rw [List.flatMap_cons, heq'] at ht
              simp at ht; subst ht; omega
          rw [heq] at hg ⊢
          simp only [List.cons_append, assemble, show ¬ e.dfn ≤ d by omega, if_false]
          simp only [List.cons_append] at hg
          rw [hg, mapOpt, ← heq, ih (d + 1) (k + 1) r x,
            mapOpt_map_some (assemble p (d + 1) (k + 1)) (shred p (d + 1) (k + 1) (k + 1)) (fun y => ih _ _ _ y)]
          simp; rfl
      exact key v

/-- a whole column -/
theorem assembleCol_shredCol (p : List Layer) (rows : List (ValOf p)) :
    assembleCol p (shredCol p rows) = some rows := by
  unfold assembleCol shredCol
  rw [groups_flatMap, mapOpt_map_some (assemble p 0 0) (shred p 0 0 0) (fun y => assemble_shred p 0 0 0 y)]

end ArrowModel.C05
