import ArrowModel.C05.Model
/-
C05 — lemmas about the run-batched `LevelInfoBuilder` model (`bwrite`) versus the textbook
slot-by-slot writer (`slotLv` / `rangeLv`) on the same physical arrays.
-/
namespace ArrowModel.C05
open ArrowModel.Generated.C05

@[ext] theorem Lv.ext' {a b : Lv} (h1 : a.reps = b.reps) (h2 : a.defs = b.defs) (h3 : a.idxs = b.idxs) : a = b := by
  cases a; cases b; simp_all

@[simp] theorem Lv.nil_app (a : Lv) : Lv.nil.app a = a := by cases a; simp [Lv.nil, Lv.app]
@[simp] theorem Lv.app_nil (a : Lv) : a.app Lv.nil = a := by cases a; simp [Lv.nil, Lv.app]
theorem Lv.app_assoc (a b c : Lv) : (a.app b).app c = a.app (b.app c) := by simp [Lv.app]
@[simp] theorem Lv.cat_nil : Lv.cat [] = Lv.nil := rfl
@[simp] theorem Lv.cat_cons (a : Lv) (l : List Lv) : Lv.cat (a :: l) = a.app (Lv.cat l) := rfl
theorem Lv.cat_append (l1 l2 : List Lv) : Lv.cat (l1 ++ l2) = (Lv.cat l1).app (Lv.cat l2) := by
  induction l1 with
  | nil => simp
  | cons a l ih => simp [ih, Lv.app_assoc]

theorem Lv.cat_reps (l : List Lv) : (Lv.cat l).reps = l.flatMap (·.reps) := by
  induction l with
  | nil => rfl
  | cons a l ih => simp [Lv.app, ih]
theorem Lv.cat_defs (l : List Lv) : (Lv.cat l).defs = l.flatMap (·.defs) := by
  induction l with
  | nil => rfl
  | cons a l ih => simp [Lv.app, ih]
theorem Lv.cat_idxs (l : List Lv) : (Lv.cat l).idxs = l.flatMap (·.idxs) := by
  induction l with
  | nil => rfl
  | cons a l ih => simp [Lv.app, ih]

/-- concatenation over a range splits at any point -/
theorem cat_range_split (S : Nat → Lv) (a m n : Nat) :
    Lv.cat ((List.range' a (m + n)).map S) =
      (Lv.cat ((List.range' a m).map S)).app (Lv.cat ((List.range' (a + m) n).map S)) := by
  rw [← Lv.cat_append, ← List.map_append, List.range'_append_1]

theorem uniform_eq_cat (r d : Nat) (s n : Nat) :
    Lv.uniform r d n = Lv.cat ((List.range' s n).map (fun _ => (⟨[r], [d], []⟩ : Lv))) := by
  induction n generalizing s with
  | zero => simp [Lv.uniform, Lv.nil]
  | succ n ih =>
    rw [List.range'_succ, List.map_cons, Lv.cat_cons, ← ih (s + 1)]
    simp [Lv.uniform, Lv.app, List.replicate_succ]

/-- **run batching is sound**: if what is emitted for a run of equally classified slots is the
concatenation of what the textbook writer emits slot by slot, then emitting run by run over
the maximal runs gives the slot-by-slot concatenation of the whole range -/
theorem runsLoop_cat {κ : Type} [DecidableEq κ] (cls : Nat → κ) (E : κ × Nat × Nat → Lv) (S : Nat → Lv) (lo hi : Nat)
    (H : ∀ kind s e, lo ≤ s → s < e → e ≤ hi → (∀ i, s ≤ i → i < e → cls i = kind) →
      E (kind, s, e) = Lv.cat ((List.range' s (e - s)).map S)) :
    ∀ (n i : Nat) (rk : κ) (rs : Nat), lo ≤ rs → rs < i → i + n = hi → (∀ j, rs ≤ j → j < i → cls j = rk) →
      Lv.cat ((runsLoop cls n i rk rs).map E) = Lv.cat ((List.range' rs (i + n - rs)).map S) := by
  intro n
  induction n with
  | zero =>
    intro i rk rs h0 h1 hh h2
    simp only [runsLoop, List.map_cons, List.map_nil, Lv.cat_cons, Lv.cat_nil, Lv.app_nil, Nat.add_zero]
    exact H rk rs i h0 h1 (by omega) h2
  | succ n ih =>
    intro i rk rs h0 h1 hh h2
    rw [runsLoop]
    by_cases hc : cls i ≠ rk
    · rw [if_pos hc]
      simp only [List.map_cons, Lv.cat_cons]
      have hinv : ∀ j, i ≤ j → j < i + 1 → cls j = cls i := by
        intro j hj1 hj2
        have : j = i := by omega
        subst this; rfl
      rw [H rk rs i h0 h1 (by omega) h2, ih (i + 1) (cls i) i (by omega) (by omega) (by omega) hinv]
      have e1 : i + (n + 1) - rs = (i - rs) + (n + 1) := by omega
      have e2 : i + 1 + n - i = n + 1 := by omega
      have e3 : rs + (i - rs) = i := by omega
      rw [e1, cat_range_split S rs (i - rs) (n + 1), e2, e3]
    · have hc' : cls i = rk := by simpa using hc
      rw [if_neg hc]
      have hinv : ∀ j, rs ≤ j → j < i + 1 → cls j = rk := by
        intro j hj1 hj2
        by_cases hji : j = i
        · subst hji; exact hc'
        · exact h2 j hj1 (by omega)
      rw [ih (i + 1) rk rs h0 (by omega) (by omega) hinv]
      have : i + 1 + n - rs = i + (n + 1) - rs := by omega
      rw [this]

theorem runsOf_cat {κ : Type} [DecidableEq κ] (cls : Nat → κ) (E : κ × Nat × Nat → Lv) (S : Nat → Lv) (a b : Nat)
    (H : ∀ kind s e, a ≤ s → s < e → e ≤ b → (∀ i, s ≤ i → i < e → cls i = kind) →
      E (kind, s, e) = Lv.cat ((List.range' s (e - s)).map S)) :
    Lv.cat ((runsOf cls a b).map E) = Lv.cat ((List.range' a (b - a)).map S) := by
  unfold runsOf
  by_cases h : b ≤ a
  · simp [h, show b - a = 0 by omega]
  · simp only [h, if_false]
    have hinv : ∀ j, a ≤ j → j < a + 1 → cls j = cls a := by
      intro j h1 h2
      have : j = a := by omega
      subst this; rfl
    rw [runsLoop_cat cls E S a b H (b - a - 1) (a + 1) (cls a) a (Nat.le_refl _) (by omega) (by omega) hinv]
    have : a + 1 + (b - a - 1) - a = b - a := by omega
    rw [this]

/-- closed form of the textbook writer on a leaf -/
theorem rangeLv_leaf (nl : Bool) (valid : Option (List Bool)) (n d k a b : Nat) :
    rangeLv (.leaf nl valid n) d k a b =
      ⟨List.replicate (b - a) k,
       (List.range' a (b - a)).map (fun i => if isValidAt valid i then d + b2n nl else d + b2n nl - 1),
       (List.range' a (b - a)).filter (fun i => isValidAt valid i)⟩ := by
  unfold rangeLv
  generalize b - a = len
  induction len generalizing a with
  | zero => rfl
  | succ len ih =>
    rw [List.range'_succ, List.map_cons, Lv.cat_cons, ih (a + 1)]
    by_cases hv : isValidAt valid a <;> simp [slotLv, hv, Lv.app, List.replicate_succ, List.filter_cons]

theorem nullCount_all (bs : List Bool) (h : nullCount bs = bs.length) (i : Nat) (hi : i < bs.length) :
    bs.getD i true = false := by
  unfold nullCount at h
  have := (List.length_filter_eq_length_iff.mp h) bs[i] (List.getElem_mem hi)
  rw [List.getD_eq_getElem?_getD, List.getElem?_eq_getElem hi]
  simpa using this

theorem getD_take_drop (bs : List Bool) (a len i : Nat) (hi : i < len) :
    ((bs.drop a).take len).getD i true = bs.getD (a + i) true := by
  simp [List.getD_eq_getElem?_getD, List.getElem?_take, hi, List.getElem?_drop]

/-- `write_leaf` — all three paths (all-null, bulk fill incl. the `+ range.start` rebase of
`non_null_indices`, per element) — produces what the textbook writer produces -/
theorem writeLeaf_eq (nl : Bool) (valid : Option (List Bool)) (n d k a b : Nat)
    (hwf : ∀ bs, valid = some bs → bs.length = n) (hb : b ≤ n) :
    writeLeaf nl valid d k a b = rangeLv (.leaf nl valid n) d k a b := by
  rw [rangeLv_leaf]
  unfold writeLeaf
  cases valid with
  | none =>
    simp only [isValidAt, if_true]
    ext1
    · rfl
    · simp [List.map_const']
    · exact (List.filter_eq_self.mpr (by simp)).symm
  | some bs =>
    have hlen := hwf bs rfl
    simp only [isValidAt]
    by_cases hall : nullCount bs = bs.length
    · simp only [hall, if_true, Lv.uniform]
      have hf : ∀ i ∈ List.range' a (b - a), bs.getD i true = false := by
        intro i hi
        have := List.mem_range'_1.mp hi
        exact nullCount_all bs hall i (by omega)
      ext1
      · rfl
      · simp only
        rw [List.map_congr_left (g := fun _ => d + b2n nl - 1) (by intro i hi; simp only [hf i hi]; rfl)]
        simp [List.map_const']
      · simp only
        rw [List.filter_eq_nil_iff.mpr (by intro i hi; simp only [hf i hi]; decide)]
    · simp only [hall, if_false]
      have hdefs : ∀ (f : Bool → Nat), (List.range (b - a)).map (fun i => f (bs.getD (a + i) true)) =
          (List.range' a (b - a)).map (fun i => f (bs.getD i true)) := by
        intro f; rw [List.range'_eq_map_range, List.map_map]; rfl
      have hidx : ((List.range (b - a)).filter (fun i => bs.getD (a + i) true)).map (fun i => i + a) =
          (List.range' a (b - a)).filter (fun i => bs.getD i true) := by
        rw [List.range'_eq_map_range, List.filter_map]
        apply List.map_congr_left
        intro i _; omega
      by_cases hbulk : BULK_FILL_MIN_LEN ≤ b - a ∧ bs.length ≤ nullCount bs * BULK_FILL_NULL_FACTOR
      · simp only [hbulk, and_self, if_true]
        ext1
        · rfl
        · simp only
          rw [List.range'_eq_map_range, List.map_map]
          apply List.map_congr_left
          intro i hi
          simp only [Function.comp]
          rw [getD_take_drop bs a (b - a) i (List.mem_range.mp hi)]
          by_cases h : bs.getD (a + i) true = true
          · have h' : bs[a + i]?.getD true = true := by rw [← List.getD_eq_getElem?_getD]; exact h
            rw [if_pos h]; simp [isValidAt, h']
          · have h' : bs[a + i]?.getD true = false := by rw [← List.getD_eq_getElem?_getD]; simpa using h
            rw [if_neg h]; simp [isValidAt, h']
        · simp only
          rw [← hidx]
          congr 1
          apply List.filter_congr
          intro i hi
          rw [getD_take_drop bs a (b - a) i (List.mem_range.mp hi)]
      · simp only [hbulk, if_false]
        ext1
        · rfl
        · simp only
          apply List.map_congr_left
          intro i _
          by_cases h : bs.getD i true = true
          · have h' : bs[i]?.getD true = true := by rw [← List.getD_eq_getElem?_getD]; exact h
            rw [if_pos h]; simp [isValidAt, h']
          · have h' : bs[i]?.getD true = false := by rw [← List.getD_eq_getElem?_getD]; simpa using h
            rw [if_neg h]; simp [isValidAt, h']
        · simp only
          exact hidx

/-- `write_struct`: all-null fast path and null / non-null run batching -/
theorem writeStruct_eq (nl : Bool) (valid : Option (List Bool)) (c : PArr) (d k a b : Nat)
    (hwf : ∀ bs, valid = some bs → bs.length = c.len) (hab : a ≤ b) (hb : b ≤ c.len)
    (ih : ∀ d k a b, a ≤ b → b ≤ c.len → bwrite c d k a b = rangeLv c d k a b) :
    writeStruct nl valid (bwrite c) d k a b = rangeLv (.strct nl valid c) d k a b := by
  unfold writeStruct
  cases valid with
  | none =>
    simp only []
    rw [ih _ _ _ _ hab hb]
    unfold rangeLv
    congr 1
  | some bs =>
    have hlen := hwf bs rfl
    simp only []
    by_cases hall : nullCount bs = bs.length
    · simp only [hall, if_true]
      unfold rangeLv
      rw [uniform_eq_cat k (d + b2n nl - 1) a (b - a)]
      congr 1
      apply List.map_congr_left
      intro i hi
      have := List.mem_range'_1.mp hi
      have hf := nullCount_all bs hall i (by omega)
      have hv' : isValidAt (some bs) i = false := hf
      simp [slotLv, hv']
    · simp only [hall, if_false]
      unfold rangeLv
      apply runsOf_cat
      intro kind s e hs hse he hk
      cases kind with
      | true =>
        simp only [if_true]
        rw [ih _ _ _ _ (by omega) (by omega)]
        unfold rangeLv
        congr 1
        apply List.map_congr_left
        intro i hi
        have := List.mem_range'_1.mp hi
        have hv' : isValidAt (some bs) i = true := hk i (by omega) (by omega)
        simp [slotLv, hv']
      | false =>
        simp only [Bool.false_eq_true, if_false]
        rw [uniform_eq_cat k (d + b2n nl - 1) s (e - s)]
        congr 1
        apply List.map_congr_left
        intro i hi
        have := List.mem_range'_1.mp hi
        have hv' : isValidAt (some bs) i = false := hk i (by omega) (by omega)
        simp [slotLv, hv']


/-! ### lists: re-stamping of slot starts (`write_list_direct`) -/

theorem foldl_set_length (f : Nat → Nat) (ps : List Nat) (v : Nat) : ∀ (l : List Nat),
    (ps.foldl (fun l i => l.set (f i) v) l).length = l.length := by
  induction ps with
  | nil => intro l; rfl
  | cons p ps ih => intro l; rw [List.foldl_cons, ih]; simp

theorem foldl_set_left (f : Nat → Nat) (ps : List Nat) (v : Nat) (B : List Nat) : ∀ (A : List Nat),
    (∀ p ∈ ps, f p < A.length) →
    ps.foldl (fun l i => l.set (f i) v) (A ++ B) = ps.foldl (fun l i => l.set (f i) v) A ++ B := by
  induction ps with
  | nil => intro A _; rfl
  | cons p ps ih =>
    intro A h
    rw [List.foldl_cons, List.foldl_cons, List.set_append_left _ _ (h p (by simp))]
    exact ih _ (by intro q hq; simpa using h q (by simp [hq]))

theorem mono_chain (o : Nat → Nat) (s : Nat) : ∀ m, (∀ i, s ≤ i → i < s + m → o i < o (i + 1)) →
    ∀ j, j ≤ m → o s + j ≤ o (s + j) := by
  intro m h j
  induction j with
  | zero => intro _; simp
  | succ j ih =>
    intro hj
    have := ih (by omega)
    have := h (s + j) (by omega) (by omega)
    rw [show s + (j + 1) = s + j + 1 by omega]; omega

/-- the sequence of `rep_levels[..] = list_start_rep` writes of a non-empty run turns a uniform
batch into "slot start, then continuation entries" slot by slot -/
theorem stampDirect_replicate (o : Nat → Nat) (k K s : Nat) : ∀ m,
    (∀ i, s ≤ i → i < s + m → o i < o (i + 1)) →
    stampDirect o k s (s + m) (List.replicate (o (s + m) - o s) K) =
      (List.range' s m).flatMap (fun i => k :: List.replicate (o (i + 1) - o i - 1) K) := by
  intro m
  induction m with
  | zero => intro _; simp [stampDirect]
  | succ m ih =>
    intro h
    have hm := ih (fun i h1 h2 => h i h1 (by omega))
    have hch := mono_chain o s (m + 1) h
    have h1 := hch m (by omega)
    have h2 := h (s + m) (by omega) (by omega)
    unfold stampDirect at hm ⊢
    rw [show s + (m + 1) - s = m + 1 by omega, List.range'_concat, List.foldl_append]
    rw [show s + m - s = m by omega] at hm
    simp only [List.foldl_cons, List.foldl_nil, Nat.one_mul]
    have e : s + (m + 1) = s + m + 1 := by omega
    have hsplit : List.replicate (o (s + (m + 1)) - o s) K =
        List.replicate (o (s + m) - o s) K ++ List.replicate (o (s + m + 1) - o (s + m)) K := by
      rw [List.replicate_append_replicate, e]
      congr 1
      omega
    have hpos : ∀ p ∈ List.range' s m, (fun i => o i - o s) p < (List.replicate (o (s + m) - o s) K).length := by
      intro p hp
      have hp' := List.mem_range'_1.mp hp
      have c1 := hch (p - s) (by omega)
      have c2 := mono_chain o p (s + m - p) (fun i h1 h2 => h i (by omega) (by omega)) (s + m - p) (Nat.le_refl _)
      rw [show s + (p - s) = p by omega] at c1
      rw [show p + (s + m - p) = s + m by omega] at c2
      simp only [List.length_replicate]
      omega
    rw [hsplit, foldl_set_left (fun i => o i - o s) _ _ _ _ hpos, hm]
    have hlen : ((List.range' s m).flatMap (fun i => k :: List.replicate (o (i + 1) - o i - 1) K)).length =
        o (s + m) - o s := by
      rw [← hm, foldl_set_length (fun i => o i - o s), List.length_replicate]
    rw [List.set_append_right _ _ (by rw [hlen]; exact Nat.le_refl _), hlen, Nat.sub_self, List.flatMap_append]
    congr 1
    have : o (s + m + 1) - o (s + m) = (o (s + m + 1) - o (s + m) - 1) + 1 := by omega
    rw [this, List.replicate_succ]
    simp


/-- below the last list every slot is one entry whose repetition level is the one handed down -/
theorem slotLv_noList (c : PArr) (hc : c.noList = true) : ∀ (d k r j : Nat),
    slotLv c d k r j = ⟨[r], (slotLv c d k 0 j).defs, (slotLv c d k 0 j).idxs⟩ := by
  induction c with
  | leaf nl valid n =>
    intro d k r j
    by_cases h : isValidAt valid j <;> simp [slotLv, h]
  | strct nl valid c ih =>
    intro d k r j
    have hc' : c.noList = true := hc
    by_cases h : isValidAt valid j
    · simp only [slotLv, h, if_true]
      rw [ih hc' (d + b2n nl) k r j]
    · simp [slotLv, h]
  | list nl valid offs c _ => simp [PArr.noList] at hc

theorem rangeLv_reps_noList (c : PArr) (hc : c.noList = true) (d k a b : Nat) :
    (rangeLv c d k a b).reps = List.replicate (b - a) k := by
  unfold rangeLv
  generalize b - a = len
  induction len generalizing a with
  | zero => rfl
  | succ len ih =>
    rw [List.range'_succ, List.map_cons, Lv.cat_cons, slotLv_noList c hc]
    simp only [Lv.app, ih (a + 1), List.replicate_succ]
    rfl

theorem rangeLv_split (c : PArr) (d k a m n : Nat) :
    rangeLv c d k a (a + (m + n)) = (rangeLv c d k a (a + m)).app (rangeLv c d k (a + m) (a + m + n)) := by
  unfold rangeLv
  rw [show a + (m + n) - a = m + n by omega, show a + m - a = m by omega, show a + m + n - (a + m) = n by omega]
  exact cat_range_split _ a m n

/-- the child range of a run of list slots is the concatenation of the slots' child ranges -/
theorem rangeLv_offsets (c : PArr) (D K : Nat) (o : Nat → Nat) (s : Nat) : ∀ m,
    (∀ i, s ≤ i → i < s + m → o i < o (i + 1)) →
    rangeLv c D K (o s) (o (s + m)) =
      Lv.cat ((List.range' s m).map (fun i => rangeLv c D K (o i) (o (i + 1)))) := by
  intro m
  induction m with
  | zero => intro _; simp [rangeLv]
  | succ m ih =>
    intro h
    have hm := ih (fun i h1 h2 => h i h1 (by omega))
    have h1 := mono_chain o s (m + 1) h m (by omega)
    have h2 := h (s + m) (by omega) (by omega)
    rw [List.range'_concat, List.map_append, Lv.cat_append, ← hm]
    simp only [Nat.one_mul, List.map_cons, List.map_nil, Lv.cat_cons, Lv.cat_nil, Lv.app_nil]
    have e1 : o (s + (m + 1)) = o s + ((o (s + m) - o s) + (o (s + m + 1) - o (s + m))) := by
      rw [show s + (m + 1) = s + m + 1 by omega]; omega
    have e2 : o (s + m) = o s + (o (s + m) - o s) := by omega
    have e3 : o (s + m + 1) = o s + (o (s + m) - o s) + (o (s + m + 1) - o (s + m)) := by omega
    rw [e1, rangeLv_split]
    rw [← e2]
    have e4 : o (s + m) + (o (s + m + 1) - o (s + m)) = o (s + m + 1) := by omega
    rw [e4]

/-- one non-empty list slot as the textbook writes it, versus the child range of that slot -/
theorem listSlot_eq (c : PArr) (hc : c.noList = true) (D k a b : Nat) (hab : a < b) :
    (slotLv c D (k + 1) k a).app (Lv.cat ((List.range' (a + 1) (b - a - 1)).map (slotLv c D (k + 1) (k + 1)))) =
      ⟨k :: List.replicate (b - a - 1) (k + 1), (rangeLv c D (k + 1) a b).defs, (rangeLv c D (k + 1) a b).idxs⟩ := by
  have hr : rangeLv c D (k + 1) a b =
      (slotLv c D (k + 1) (k + 1) a).app (Lv.cat ((List.range' (a + 1) (b - a - 1)).map (slotLv c D (k + 1) (k + 1)))) := by
    unfold rangeLv
    rw [show b - a = (b - a - 1) + 1 by omega, List.range'_succ]
    rfl
  have hrest : (Lv.cat ((List.range' (a + 1) (b - a - 1)).map (slotLv c D (k + 1) (k + 1)))).reps =
      List.replicate (b - a - 1) (k + 1) := by
    have := rangeLv_reps_noList c hc D (k + 1) (a + 1) b
    unfold rangeLv at this
    rw [show b - (a + 1) = b - a - 1 by omega] at this
    exact this
  rw [hr, slotLv_noList c hc D (k + 1) k a, slotLv_noList c hc D (k + 1) (k + 1) a]
  simp only [Lv.app, hrest, List.cons_append, List.nil_append]

/-- **`write_list_direct` on one non-empty run**: child batch + re-stamping = slot by slot -/
theorem listRun_direct (c : PArr) (hc : c.noList = true) (o : Nat → Nat) (D k s m : Nat)
    (h : ∀ i, s ≤ i → i < s + m → o i < o (i + 1)) :
    ({ rangeLv c D (k + 1) (o s) (o (s + m)) with
        reps := stampDirect o k s (s + m) (rangeLv c D (k + 1) (o s) (o (s + m))).reps } : Lv) =
      Lv.cat ((List.range' s m).map (fun i =>
        (slotLv c D (k + 1) k (o i)).app
          (Lv.cat ((List.range' (o i + 1) (o (i + 1) - o i - 1)).map (slotLv c D (k + 1) (k + 1)))))) := by
  have hT : (List.range' s m).map (fun i =>
        (slotLv c D (k + 1) k (o i)).app
          (Lv.cat ((List.range' (o i + 1) (o (i + 1) - o i - 1)).map (slotLv c D (k + 1) (k + 1))))) =
      (List.range' s m).map (fun i => (⟨k :: List.replicate (o (i + 1) - o i - 1) (k + 1),
        (rangeLv c D (k + 1) (o i) (o (i + 1))).defs, (rangeLv c D (k + 1) (o i) (o (i + 1))).idxs⟩ : Lv)) := by
    apply List.map_congr_left
    intro i hi
    have := List.mem_range'_1.mp hi
    exact listSlot_eq c hc D k (o i) (o (i + 1)) (h i (by omega) (by omega))
  rw [hT]
  have hsplit := rangeLv_offsets c D (k + 1) o s m h
  ext1
  · simp only [rangeLv_reps_noList c hc, stampDirect_replicate o k (k + 1) s m h, Lv.cat_reps,
      List.flatMap_map]
  · simp only [Lv.cat_defs, List.flatMap_map]
    rw [hsplit, Lv.cat_defs, List.flatMap_map]
  · simp only [Lv.cat_idxs, List.flatMap_map]
    rw [hsplit, Lv.cat_idxs, List.flatMap_map]


/-- `write_list_impl` + `write_list_direct`: Null / Empty / NonEmpty run classification,
batched child write and re-stamping -/
theorem writeListImpl_eq (nl : Bool) (valid : Option (List Bool)) (offs : List Nat) (c : PArr) (hc : c.noList = true)
    (d k a b : Nat)
    (hmono : ∀ i, i + 1 < offs.length → offs.getD i 0 ≤ offs.getD (i + 1) 0)
    (hin : ∀ i, i < offs.length → offs.getD i 0 ≤ c.len)
    (hab : a ≤ b) (hb : b ≤ offs.length - 1)
    (ih : ∀ d k a b, a ≤ b → b ≤ c.len → bwrite c d k a b = rangeLv c d k a b) :
    writeListImpl nl valid offs true (bwrite c) d k a b = rangeLv (.list nl valid offs c) d k a b := by
  unfold writeListImpl
  simp only []
  unfold rangeLv
  apply runsOf_cat
  intro kind s e hs hse he hk
  cases kind with
  | null =>
    simp only []
    rw [uniform_eq_cat k (d + b2n nl + 1 - 2) s (e - s)]
    congr 1
    apply List.map_congr_left
    intro i hi
    have := List.mem_range'_1.mp hi
    have hki := hk i (by omega) (by omega)
    have hv' : (!isValidAt valid i) = true := by
      by_cases h : (!isValidAt valid i) = true
      · exact h
      · rw [if_neg h] at hki; split at hki <;> cases hki
    simp [slotLv, hv']
  | empty =>
    simp only []
    rw [uniform_eq_cat k (d + b2n nl + 1 - 1) s (e - s)]
    congr 1
    apply List.map_congr_left
    intro i hi
    have := List.mem_range'_1.mp hi
    have hki := hk i (by omega) (by omega)
    have hv' : ¬ ((!isValidAt valid i) = true) := by
      intro h; rw [if_pos h] at hki; cases hki
    rw [if_neg hv'] at hki
    have ho : offs.getD i 0 = offs.getD (i + 1) 0 := by
      by_cases h : offs.getD i 0 = offs.getD (i + 1) 0
      · exact h
      · rw [if_neg h] at hki; cases hki
    simp only [slotLv, hv', if_false, ho, if_true]
    simp
  | nonEmpty =>
    simp only [if_true]
    have hrun : ∀ i, s ≤ i → i < s + (e - s) →
        ¬ ((!isValidAt valid i) = true) ∧ offs.getD i 0 < offs.getD (i + 1) 0 := by
      intro i h1 h2
      have hki := hk i h1 (by omega)
      have hv' : ¬ ((!isValidAt valid i) = true) := by
        intro h; rw [if_pos h] at hki; cases hki
      rw [if_neg hv'] at hki
      have hne : ¬ (offs.getD i 0 = offs.getD (i + 1) 0) := by
        intro h; rw [if_pos h] at hki; cases hki
      have := hmono i (by omega)
      exact ⟨hv', by omega⟩
    have hchain := mono_chain (fun i => offs.getD i 0) s (e - s) (fun i h1 h2 => (hrun i h1 h2).2) (e - s) (Nat.le_refl _)
    simp only [show s + (e - s) = e by omega] at hchain
    rw [ih _ _ _ _ (by omega) (hin e (by omega))]
    have key := listRun_direct c hc (fun i => offs.getD i 0) (d + b2n nl + 1) k s (e - s)
      (fun i h1 h2 => (hrun i h1 h2).2)
    simp only [show s + (e - s) = e by omega] at key
    rw [key]
    congr 1
    apply List.map_congr_left
    intro i hi
    have := List.mem_range'_1.mp hi
    obtain ⟨hv', hlt⟩ := hrun i (by omega) (by omega)
    simp only [slotLv, hv', if_false, show ¬ (offs.getD i 0 = offs.getD (i + 1) 0) by omega]
    simp


/-- `write_list`: all-null fast path, else `write_list_impl` -/
theorem writeList_eq (nl : Bool) (valid : Option (List Bool)) (offs : List Nat) (c : PArr) (hc : c.noList = true)
    (d k a b : Nat)
    (hwf : ∀ bs, valid = some bs → bs.length = offs.length - 1)
    (hmono : ∀ i, i + 1 < offs.length → offs.getD i 0 ≤ offs.getD (i + 1) 0)
    (hin : ∀ i, i < offs.length → offs.getD i 0 ≤ c.len)
    (hab : a ≤ b) (hb : b ≤ offs.length - 1)
    (ih : ∀ d k a b, a ≤ b → b ≤ c.len → bwrite c d k a b = rangeLv c d k a b) :
    writeList nl valid offs true (bwrite c) d k a b = rangeLv (.list nl valid offs c) d k a b := by
  unfold writeList
  cases valid with
  | none => exact writeListImpl_eq nl none offs c hc d k a b hmono hin hab hb ih
  | some bs =>
    simp only []
    by_cases hall' : nullCount bs = bs.length
    · rw [if_pos hall']
      have hlen := hwf bs rfl
      unfold rangeLv
      rw [uniform_eq_cat k (d + b2n nl + 1 - 2) a (b - a)]
      congr 1
      apply List.map_congr_left
      intro i hi
      have := List.mem_range'_1.mp hi
      have hv' : isValidAt (some bs) i = false := nullCount_all bs hall' i (by omega)
      simp [slotLv, hv']
    · rw [if_neg hall']
      exact writeListImpl_eq nl (some bs) offs c hc d k a b hmono hin hab hb ih

/-- arrays with at most one list level on the leaf path (every list's elements are leaf / struct
chains): these take the `write_list_direct` re-stamping -/
def PArr.Direct : PArr → Prop
  | .leaf .. => True
  | .strct _ _ c => c.Direct
  | .list _ _ _ c => c.noList = true ∧ c.Direct

/-- **the run-batched `LevelInfoBuilder` equals the textbook row-by-row writer** -/
theorem bwrite_eq_rangeLv : ∀ (arr : PArr), arr.WF → arr.Direct →
    ∀ (d k a b : Nat), a ≤ b → b ≤ arr.len → bwrite arr d k a b = rangeLv arr d k a b := by
  intro arr
  induction arr with
  | leaf nl valid n =>
    intro hwf _ d k a b _ hb
    exact writeLeaf_eq nl valid n d k a b hwf hb
  | strct nl valid c ih =>
    intro hwf hd d k a b hab hb
    exact writeStruct_eq nl valid c d k a b hwf.1 hab hb (ih hwf.2 hd)
  | list nl valid offs c ih =>
    intro hwf hd d k a b hab hb
    obtain ⟨h1, h2, h3, h4⟩ := hwf
    have : bwrite (.list nl valid offs c) d k a b = writeList nl valid offs c.noList (bwrite c) d k a b := rfl
    rw [this, hd.1]
    exact writeList_eq nl valid offs c hd.1 d k a b h1 h2 h3 hab hb (ih h4 hd.2)

end ArrowModel.C05
