/-
C05 — specification: the Parquet level/value *formats* the round-trip property appeals to
(LSB-first bit packing, ULEB128, zig-zag, the RLE / bit-packing hybrid grammar) and the
textbook Dremel shredding of a nested column.  Import-free.
-/
namespace ArrowModel.C05

/-! ### bits and bytes -/

/-- the `w` low bits of `v`, least significant first -/
def bitsLE (w v : Nat) : List Bool := (List.range w).map (fun i => v.testBit i)

/-- number denoted by a bit list, least significant first -/
def ofBits : List Bool → Nat
  | [] => 0
  | b :: bs => (if b then 1 else 0) + 2 * ofBits bs

/-- field number `i` of width `w` in a bit string -/
def fieldAt (bits : List Bool) (w i : Nat) : Nat := ofBits ((bits.drop (i * w)).take w)

/-- a byte string as a bit string (LSB-first inside each byte — the Parquet bit order) -/
def bitsOfBytes (bs : List Nat) : List Bool := bs.flatMap (bitsLE 8)

/-- a bit string as bytes, the last byte zero padded -/
def bytesOfBits (bits : List Bool) : List Nat :=
  (List.range ((bits.length + 7) / 8)).map (fun k => ofBits ((bits.drop (8 * k)).take 8))

/-- `n` little-endian bytes of `v` -/
def leBytes : Nat → Nat → List Nat
  | 0, _ => []
  | n + 1, v => v % 256 :: leBytes n (v / 256)

/-- bit packing of a value list at width `w`: what the format calls `bit-packed-values` -/
def packBytes (w : Nat) (vals : List Nat) : List Nat := bytesOfBits (vals.flatMap (bitsLE w))

/-! ### ULEB128 and zig-zag -/

/-- unsigned LEB128 (`varint-encode` of the format document) -/
def uleb (n : Nat) : List Nat :=
  if h : n < 128 then [n] else (n % 128 + 128) :: uleb (n / 128)
termination_by n
decreasing_by omega

/-- zig-zag of a signed 64-bit integer, as an unsigned 64-bit pattern -/
def zigzag (v : Int) : Nat := if 0 ≤ v then (2 * v).toNat else (-2 * v - 1).toNat

/-- inverse of `zigzag` -/
def unzigzag (u : Nat) : Int := if u % 2 = 0 then (u / 2 : Nat) else -((u / 2 : Nat) : Int) - 1

/-! ### RLE / bit-packing hybrid (Encodings.md, "RLE = 3") -/

/-- one run of the grammar -/
inductive Run where
  /-- `rle-run`: `count` repetitions of `value` -/
  | rle (count value : Nat)
  /-- `bit-packed-run`: the values (a multiple of 8 of them) -/
  | packed (vals : List Nat)
  deriving Repr, DecidableEq

/-- the values a run denotes -/
def Run.values : Run → List Nat
  | .rle c v => List.replicate c v
  | .packed vs => vs

/-- `run := <bit-packed-run> | <rle-run>` at bit width `w` -/
def encodeRun (w : Nat) : Run → List Nat
  | .rle c v => uleb (2 * c) ++ leBytes ((w + 7) / 8) v
  | .packed vs => uleb (2 * (vs.length / 8) + 1) ++ packBytes w vs

/-- `encoded-data := <run>*` -/
def encodeRuns (w : Nat) (runs : List Run) : List Nat := runs.flatMap (encodeRun w)

/-- the value sequence a run list denotes -/
def runsValues (runs : List Run) : List Nat := runs.flatMap Run.values

/-- a run list a conforming reader must accept at width `w`: non-empty runs, bit-packed runs
in whole groups of 8, values fitting the width, counts fitting the reader's 32-bit counters -/
def Run.Valid (w : Nat) : Run → Prop
  | .rle c v => 0 < c ∧ c < 2 ^ 31 ∧ v < 2 ^ w
  | .packed vs => 0 < vs.length ∧ vs.length % 8 = 0 ∧ vs.length < 2 ^ 31 ∧ ∀ v ∈ vs, v < 2 ^ w

/-! ### Dremel shredding along one leaf path

A leaf path through a nested Arrow type is a list of *layers*: `opt` for every nullable
node (nullable leaf, nullable struct, the validity of a nullable list) and `rep` for every
list node.  A nullable `List` is `opt :: rep :: elem`, a non-null list `rep :: elem`, a
nullable leaf `[opt]`, a non-null struct adds nothing.  Each `opt` and each `rep` adds one
definition level; each `rep` adds one repetition level — exactly the level arithmetic of
`LevelInfoBuilder::try_new`. -/

inductive Layer where
  | opt
  | rep
  deriving Repr, DecidableEq

/-- values of the column type described by a path; the leaf holds a `Nat` -/
def ValOf : List Layer → Type
  | [] => Nat
  | .opt :: p => Option (ValOf p)
  | .rep :: p => List (ValOf p)

/-- one entry of the shredded column: repetition level, definition level, leaf value if
the definition level is maximal -/
structure Entry where
  rep : Nat
  dfn : Nat
  val : Option Nat
  deriving Repr, DecidableEq

/-- textbook shredding of one value: `d` = definition level reached so far, `k` = number of
enclosing lists, `r` = repetition level to stamp on the first entry emitted. -/
def shred : (p : List Layer) → (d k r : Nat) → ValOf p → List Entry
  | [], d, _, r, v => [⟨r, d, some v⟩]
  | .opt :: p, d, k, r, v =>
    match (v : Option (ValOf p)) with
    | none => [⟨r, d, none⟩]
    | some x => shred p (d + 1) k r x
  | .rep :: p, d, k, r, v =>
    match (v : List (ValOf p)) with
    | [] => [⟨r, d, none⟩]
    | x :: xs => shred p (d + 1) (k + 1) r x ++ xs.flatMap (shred p (d + 1) (k + 1) (k + 1))

/-- a column is a list of rows; every row starts at repetition level 0 -/
def shredCol (p : List Layer) (rows : List (ValOf p)) : List Entry :=
  rows.flatMap (shred p 0 0 0)

/-- maximal definition level of a path -/
def maxDef (p : List Layer) : Nat := p.length

end ArrowModel.C05
