import ArrowModel.C16.StepInv
namespace ArrowModel.C16

/-! ### frame lemmas: which bytes and which slots an operation can touch -/

theorem regionBytes_set {s s' : State} {r : Nat} {reg reg' : Region} (hr : s'.regions = s.regions.set r reg')
    (h : s.regions[r]? = some reg) (r' : Nat) :
    regionBytes s' r' = if r' = r then reg'.bytes else regionBytes s r' := by
  have hlt := (List.getElem?_eq_some_iff.mp h).1
  by_cases e : r' = r
  · subst e; simp [regionBytes, hr, hlt]
  · simp [regionBytes, hr, e, Ne.symm e]

theorem regionBytes_push {s s' : State} {reg : Region} (hr : s'.regions = s.regions ++ [reg]) (r' : Nat)
    (hlt : r' < s.regions.length) : regionBytes s' r' = regionBytes s r' := by
  simp [regionBytes, hr, List.getElem?_append, hlt]

theorem decOwner_regions (o : Nat) (s : State) : (decOwner o s).1.regions = s.regions := (decOwner_frame o s).1

theorem decOne_length (r : Nat) (s : State) : (decOne r s).1.regions.length = s.regions.length := by
  unfold decOne
  split
  · rfl
  · split
    · split
      · simp
      · rw [decOwner_regions]; simp
    · simp [setRegion]

theorem drain_length (fuel : Nat) : ∀ (p : List Nat) (s : State), (drain fuel p s).regions.length = s.regions.length := by
  induction fuel with
  | zero => intro p s; rfl
  | succ f ih =>
    intro p s
    cases p with
    | nil => rfl
    | cons r rest => simp only [drain]; rw [ih, decOne_length]

theorem dropSlot_length (s : State) (i : Nat) : (dropSlot s i).regions.length = s.regions.length := by
  unfold dropSlot
  split
  · simp only [dropRegions, drain_length]; rfl
  · simp only [dropRegions, drain_length]; rfl
  · simp only [dropRegions, drain_length, decOwner_regions]; rfl
  · rfl

theorem dropSlot_bytes (s : State) (i r : Nat) : regionBytes (dropSlot s i) r = regionBytes s r := by
  unfold dropSlot
  split
  · simp only [dropRegions, drain_bytes]; rfl
  · simp only [dropRegions, drain_bytes]; rfl
  · simp only [dropRegions, drain_bytes]
    simp only [regionBytes, decOwner_regions]; rfl
  · rfl

theorem allocStd_bytes (s : State) (d : Nat) (bytes : List Nat) (cap align : Nat) (asMut : Bool) (r : Nat)
    (hlt : r < s.regions.length) : regionBytes (allocStd s d bytes cap align asMut).1 r = regionBytes s r := by
  unfold allocStd; split
  · exact regionBytes_push (s := s) rfl r hlt
  · rfl

theorem allocStd_length (s : State) (d : Nat) (bytes : List Nat) (cap align : Nat) (asMut : Bool) :
    s.regions.length ≤ (allocStd s d bytes cap align asMut).1.regions.length := by
  unfold allocStd; split
  · simp [setSlot, pushRegion]
  · exact Nat.le_refl _

theorem allocStd_slots (s : State) (d : Nat) (bytes : List Nat) (cap align : Nat) (asMut : Bool) (j : Nat)
    (hne : j ≠ d) : (allocStd s d bytes cap align asMut).1.slots[j]? = s.slots[j]? := by
  unfold allocStd; split
  · simp [setSlot, pushRegion, List.getElem?_set, Ne.symm hne]
  · rfl

theorem allocCustomFresh_bytes (s : State) (d : Nat) (bytes : List Nat) (r : Nat)
    (hlt : r < s.regions.length) : regionBytes (allocCustomFresh s d bytes).1 r = regionBytes s r := by
  unfold allocCustomFresh; split
  · exact regionBytes_push (s := pushOwner s { rc := 1, drops := 0, held := [] }) rfl r hlt
  · rfl

theorem allocCustomFresh_slots (s : State) (d : Nat) (bytes : List Nat) (j : Nat)
    (hne : j ≠ d) : (allocCustomFresh s d bytes).1.slots[j]? = s.slots[j]? := by
  unfold allocCustomFresh; split
  · simp [setSlot, pushRegion, pushOwner, List.getElem?_set, Ne.symm hne]
  · rfl

theorem allocCustomShared_bytes (s : State) (d : Nat) (bytes : List Nat) (o r : Nat)
    (hlt : r < s.regions.length) : regionBytes (allocCustomShared s d bytes o).1 r = regionBytes s r := by
  unfold allocCustomShared; split
  · rename_i ow _ _
    exact regionBytes_push (s := setOwner s o { ow with rc := ow.rc + 1 }) rfl r hlt
  · rfl

theorem allocCustomShared_length (s : State) (d : Nat) (bytes : List Nat) (o : Nat) :
    s.regions.length ≤ (allocCustomShared s d bytes o).1.regions.length := by
  unfold allocCustomShared; split
  · simp [setSlot, pushRegion, setOwner]
  · exact Nat.le_refl _

theorem allocCustomShared_slots (s : State) (d : Nat) (bytes : List Nat) (o j : Nat)
    (hne : j ≠ d) : (allocCustomShared s d bytes o).1.slots[j]? = s.slots[j]? := by
  unfold allocCustomShared; split
  · simp [setSlot, pushRegion, setOwner, List.getElem?_set, Ne.symm hne]
  · rfl

theorem addHandle_bytes (s : State) (d : Nat) (hd : Handle) (r : Nat) :
    regionBytes (addHandle s d hd).1 r = regionBytes s r := by
  unfold addHandle; split
  · rename_i reg _ hr
    rw [regionBytes_set (s := s) (reg' := { reg with rc := reg.rc + 1 }) rfl hr]
    split
    · subst_vars; simp [regionBytes, hr]
    · rfl
  · rfl

theorem addHandle_slots (s : State) (d : Nat) (hd : Handle) (j : Nat) (hne : j ≠ d) :
    (addHandle s d hd).1.slots[j]? = s.slots[j]? := by
  unfold addHandle; split
  · simp [setSlot, setRegion, List.getElem?_set, Ne.symm hne]
  · rfl

theorem holdOne_bytes (s : State) (o : Nat) (hd : Handle) (r : Nat) :
    regionBytes (holdOne s o hd) r = regionBytes s r := by
  unfold holdOne; split
  · rename_i reg ow hr ho
    show regionBytes (setRegion s hd.region { reg with rc := reg.rc + 1 }) r = _
    rw [regionBytes_set (s := s) (reg' := { reg with rc := reg.rc + 1 }) rfl hr]
    split
    · subst_vars; simp [regionBytes, hr]
    · rfl
  · rfl

theorem holdAll_bytes (o : Nat) : ∀ (hs : List Handle) (s : State) (r : Nat),
    regionBytes (holdAll s o hs) r = regionBytes s r := by
  intro hs; induction hs with
  | nil => intro s r; rfl
  | cons hd rest ih => intro s r; simp only [holdAll]; rw [ih, holdOne_bytes]

theorem holdAll_slots (o : Nat) : ∀ (hs : List Handle) (s : State), (holdAll s o hs).slots = s.slots := by
  intro hs; induction hs with
  | nil => intro s; rfl
  | cons hd rest ih => intro s; simp only [holdAll]; rw [ih, holdOne_slots]

theorem importAll_frame (o : Nat) : ∀ (hs : List Handle) (ds : List Nat) (s : State) (r : Nat),
    r < s.regions.length →
    regionBytes (importAll s o hs ds) r = regionBytes s r ∧
    ∀ j, j ∉ ds → (importAll s o hs ds).slots[j]? = s.slots[j]? := by
  intro hs; induction hs with
  | nil => intro ds s r _; simp [importAll]
  | cons hd rest ih =>
    intro ds s r hlt
    cases ds with
    | nil => simp [importAll]
    | cons d ds =>
      simp only [importAll]
      split
      · have := ih ds (allocStd s d [] 0 Generated.C16.ALIGNMENT_X86_64 false).1 r
          (Nat.lt_of_lt_of_le hlt (allocStd_length _ _ _ _ _ _))
        refine ⟨by rw [this.1, allocStd_bytes _ _ _ _ _ _ _ hlt], ?_⟩
        intro j hj; simp at hj
        rw [this.2 j hj.2, allocStd_slots _ _ _ _ _ _ _ hj.1]
      · have := ih ds (allocCustomShared s d (view s hd) o).1 r
          (Nat.lt_of_lt_of_le hlt (allocCustomShared_length _ _ _ _))
        refine ⟨by rw [this.1, allocCustomShared_bytes _ _ _ _ _ hlt], ?_⟩
        intro j hj; simp at hj
        rw [this.2 j hj.2, allocCustomShared_slots _ _ _ _ _ hj.1]

/-- replacing the content of slot `i` by a fresh region (drop + allocate) -/
theorem replace_bytes (s : State) (i : Nat) (b : List Nat) (c a : Nat) (m : Bool) (r : Nat) (hlt : r < s.regions.length) :
    regionBytes (allocStd (dropSlot s i) i b c a m).1 r = regionBytes s r ∧
    r < (allocStd (dropSlot s i) i b c a m).1.regions.length := by
  have h1 : r < (dropSlot s i).regions.length := by rw [dropSlot_length]; exact hlt
  exact ⟨by rw [allocStd_bytes _ _ _ _ _ _ _ h1, dropSlot_bytes], Nat.lt_of_lt_of_le h1 (allocStd_length _ _ _ _ _ _)⟩

theorem recap_bytes (s : State) (r0 : Nat) (reg : Region) (bs : List Nat) (c : Nat) (hr : s.regions[r0]? = some reg) (r : Nat) :
    regionBytes (recap s r0 reg bs c) r = if r = r0 then bs else regionBytes s r :=
  regionBytes_set (s := s) (s' := recap s r0 reg bs c)
    (reg' := { reg with bytes := bs, cap := c, claimed := reg.claimed.map (fun _ => c) }) rfl hr r

/-- region `r` is visible through something the operation does not consume: a client variable
outside the operation's target slots, or a handle kept by an owner (exported struct, wrapper) -/
def Protected (s : State) (tg : List Nat) (r : Nat) : Prop :=
  (∃ (j : Nat) (sl : Slot), j ∉ tg ∧ s.slots[j]? = some sl ∧ sl.region? = some r) ∨ 1 ≤ heldRefs s r

theorem protected_lt {s : State} (h : Inv s) {tg : List Nat} {r : Nat} (hp : Protected s tg r) :
    r < s.regions.length := by
  have h0 := h.rc_eq r
  simp only [referenced, countIn_nil] at h0
  have : 1 ≤ rcOf s r := by
    rcases hp with ⟨j, sl, _, hj, hr⟩ | hh
    · have := slot_refs_le hj r; simp [Slot.refs, hr] at this; omega
    · omega
  cases hreg : s.regions[r]? with
  | none => simp [rcOf, hreg] at this
  | some reg => exact (List.getElem?_eq_some_iff.mp hreg).1

/-- a protected region has at least two handles if a target slot also refers to it -/
theorem protected_not_unique {s : State} (h : Inv s) {tg : List Nat} {r i : Nat} {sl : Slot}
    (hp : Protected s tg r) (hi : i ∈ tg) (hs : s.slots[i]? = some sl) (hr : sl.region? = some r) :
    rcOf s r ≠ 1 := by
  have h0 := h.rc_eq r
  simp only [referenced, countIn_nil] at h0
  rcases hp with ⟨j, sl', hj, hj2, hr2⟩ | hh
  · have hne : j ≠ i := by intro e; subst e; exact hj hi
    have := sumMap_ge2 (Slot.refs r) s.slots j i _ _ hne hj2 hs
    simp only [Slot.refs, hr, hr2, if_true, slotRefs] at *
    omega
  · have := slot_refs_le hs r
    simp only [Slot.refs, hr, if_true] at this
    omega

/-- rewriting the bytes of a region that only the target slot `i` refers to -/
theorem setBytes_protected {s : State} (h : Inv s) {tg : List Nat} {r r0 i : Nat} {sl : Slot} {reg : Region}
    (hp : Protected s tg r) (hi : i ∈ tg) (hs : s.slots[i]? = some sl) (hr : sl.region? = some r0)
    (hreg : s.regions[r0]? = some reg) (h1 : reg.rc = 1) {s' : State} {reg' : Region}
    (hregs : s'.regions = s.regions.set r0 reg') : regionBytes s' r = regionBytes s r := by
  rw [regionBytes_set hregs hreg]
  split
  · subst_vars
    have := protected_not_unique h hp hi hs hr
    rw [rcOf_some hreg] at this; exact absurd h1 this
  · rfl

theorem step_bytes (s : State) (op : Op) (h : Inv s) (r : Nat) (hp : Protected s op.targets r) :
    regionBytes (step s op).1 r = regionBytes s r := by
  have hlt := protected_lt h hp
  cases op with
  | allocVec d len cap t seed =>
    simp only [step, opAllocVec]; split
    · exact allocStd_bytes _ _ _ _ _ _ _ hlt
    · rfl
  | allocMut d len cap seed =>
    simp only [step, opAllocMut]; split
    · exact allocStd_bytes _ _ _ _ _ _ _ hlt
    · rfl
  | allocCustom d len seed => exact allocCustomFresh_bytes _ _ _ _ hlt
  | clone i d =>
    simp only [step, opClone]; split
    · exact addHandle_bytes _ _ _ _
    · rfl
  | slice i d off len =>
    simp only [step, opSlice]; split
    · split
      · exact addHandle_bytes _ _ _ _
      · rfl
    · rfl
  | drop i =>
    simp only [step, opDrop]; split
    · rfl
    · exact dropSlot_bytes _ _ _
    · rfl
  | intoMutable i =>
    simp only [step, opIntoMutable]; split
    · rename_i hd hi
      split
      · rename_i reg hr
        split
        · rename_i hc
          exact setBytes_protected h hp (by simp [Op.targets]) hi rfl hr (canMutate_rc hc) (s' := setSlot (setRegion s hd.region { reg with bytes := reg.bytes.take hd.len }) i (.mut hd.region hd.len)) rfl
        · rfl
      · rfl
    · rfl
  | intoVec i t =>
    simp only [step, opIntoVec]; split
    · split
      · split
        · rw [allocStd_bytes _ _ _ _ _ _ _ (by rw [dropSlot_length]; exact hlt), dropSlot_bytes]
        · rfl
      · rfl
    · rfl
  | freeze i =>
    simp only [step, opFreeze]; split <;> rfl
  | write i pos val =>
    simp only [step, opWrite]; split
    · rename_i r0 l hi
      split
      · rename_i reg hr
        split
        · have := h.mut_excl i r0 l hi; rw [rcOf_some hr] at this
          exact setBytes_protected h hp (by simp [Op.targets]) hi rfl hr this (s' := setRegion s r0 _) rfl
        · rfl
      · rfl
    · rfl
  | extend i n val =>
    simp only [step, opExtend]; split
    · rename_i r0 l hi
      split
      · rename_i reg hr
        have := h.mut_excl i r0 l hi; rw [rcOf_some hr] at this
        exact setBytes_protected h hp (by simp [Op.targets]) hi rfl hr this
          (reg' := { reg with bytes := reg.bytes ++ List.replicate n (val % 256), cap := grownCap reg.cap (l + n), claimed := reg.claimed.map (fun _ => grownCap reg.cap (l + n)) }) rfl
      · rfl
    · rfl
  | truncate i len =>
    simp only [step, opTruncate]; split
    · rename_i r0 l hi
      split
      · rename_i reg hr
        split
        · rfl
        · have := h.mut_excl i r0 l hi; rw [rcOf_some hr] at this
          exact setBytes_protected h hp (by simp [Op.targets]) hi rfl hr this
            (s' := setSlot (setRegion s r0 { reg with bytes := reg.bytes.take len }) i (.mut r0 len)) rfl
      · rfl
    · rfl
  | claim i p =>
    simp only [step, opClaim]; split
    · rename_i r0 hb
      split
      · rename_i reg hr
        show regionBytes (setRegion s r0 { reg with claimed := some reg.cap, claimPool := p }) r = _
        rw [regionBytes_set (s := s) (reg' := { reg with claimed := some reg.cap, claimPool := p }) rfl hr]
        split
        · subst_vars; simp [regionBytes, hr]
        · rfl
      · rfl
    · rfl
  | wrap i d off len =>
    simp only [step, opWrap]; split
    · rename_i hd0 hi0
      split
      · split
        · rename_i s1 heq
          rw [holdOne_bytes]
          have := allocCustomFresh_bytes s d (((view s hd0).drop off).take len) r hlt
          rw [heq] at this; exact this
        · rfl
      · rfl
    · rfl
  | bitAssign i j bop boff blen =>
    simp only [step, opBitAssign]; split
    · rename_i hd g hi hj
      split
      · rename_i reg hr
        split
        · split
          · rename_i hc
            exact setBytes_protected h hp (by simp [Op.targets]) hi rfl hr (canMutate_rc hc) (s' := setRegion s hd.region _) rfl
          · rw [allocStd_bytes _ _ _ _ _ _ _ (by rw [dropSlot_length]; exact hlt), dropSlot_bytes]
        · rfl
      · rfl
    · rfl
  | exportFfi srcs d =>
    simp only [step, opExportFfi]; split
    · split
      · rw [holdAll_bytes]; rfl
      · rfl
    · rfl
  | importFfi i dsts =>
    simp only [step, opImportFfi]; split
    · split
      · split
        · rw [dropSlot_bytes, (importAll_frame _ _ _ s r hlt).1]
        · rfl
      · rfl
    · rfl
  | unaryMut i delta =>
    simp only [step, opUnaryMut]; split
    · rename_i hd hi
      split
      · rename_i reg hr
        split
        · rw [allocStd_bytes _ _ _ _ _ _ _ (by rw [dropSlot_length]; exact hlt), dropSlot_bytes]
        · rfl
      · rfl
    · rfl
  | allocGen d len cap align seed asMut zeroed =>
    simp only [step, opAllocGen]; split
    · exact allocStd_bytes _ _ _ _ _ _ _ hlt
    · rfl
  | resize i n val =>
    simp only [step, opResize]; split
    · rename_i r0 l hi
      split
      · simp only [opExtend, hi]
        split
        · rename_i reg hr
          have := h.mut_excl i r0 l hi; rw [rcOf_some hr] at this
          exact setBytes_protected h hp (by simp [Op.targets]) hi rfl hr this
            (reg' := { reg with bytes := reg.bytes ++ List.replicate (n - l) (val % 256), cap := grownCap reg.cap (l + (n - l)), claimed := reg.claimed.map (fun _ => grownCap reg.cap (l + (n - l))) }) rfl
        · rfl
      · simp only [opTruncate, hi]
        split
        · rename_i reg hr
          split
          · rfl
          · have := h.mut_excl i r0 l hi; rw [rcOf_some hr] at this
            exact setBytes_protected h hp (by simp [Op.targets]) hi rfl hr this
              (s' := setSlot (setRegion s r0 { reg with bytes := reg.bytes.take n }) i (.mut r0 n)) rfl
        · rfl
    · rfl
  | shrinkBuf i =>
    simp only [step, opShrinkBuf]; split
    · rename_i hd hi
      split
      · rename_i reg hr
        have key : ∀ desired hd', regionBytes (shrinkTo s i hd reg desired hd').1 r = regionBytes s r := by
          intro desired hd'
          unfold shrinkTo; split
          · rename_i hc
            exact setBytes_protected h hp (by simp [Op.targets]) hi rfl hr hc.2.1
              (s' := setSlot (recap s hd.region reg (reg.bytes.take desired) desired) i (.buf hd'))
              (reg' := { reg with bytes := reg.bytes.take desired, cap := desired, claimed := reg.claimed.map (fun _ => desired) }) rfl
          · rfl
        split <;> exact key _ _
      · rfl
    · rfl
  | shrinkMut i =>
    simp only [step, opShrinkMut]; split
    · rename_i r0 l hi
      split
      · rename_i reg hr
        split
        · rw [recap_bytes _ _ _ _ _ hr]
          split
          · subst_vars; simp [regionBytes, hr]
          · rfl
        · rfl
      · rfl
    · rfl
  | roundTrip srcs =>
    simp only [step, opRoundTrip]; split
    · split <;> rfl
    · rfl
  | binaryMut i j =>
    simp only [step, opBinaryMut]; split
    · split
      · split
        · split
          · exact (replace_bytes _ _ _ _ _ _ _ hlt).1
          · rfl
        · rfl
      · rfl
    · rfl
  | unaryMut2 v n delta =>
    simp only [step, opUnaryMut2]; split
    · split
      · have key : ∀ (s1 : State) okn validity hv, r < s1.regions.length → regionBytes s1 r = regionBytes s r →
            regionBytes (um2Finish s1 v n delta hv okn validity).1 r = regionBytes s r := by
          intro s1 okn validity hv hl1 he1
          unfold um2Finish; split
          · rename_i reg hreg
            split
            · have a := replace_bytes s1 v ((reg.bytes.take hv.len).map (fun b => (b + delta) % 256)) (builderCap reg hv.len) 1 false r hl1
              have b := replace_bytes _ n validity validity.length 1 false r a.2
              rw [b.1, a.1, he1]
            · rw [(replace_bytes s1 n validity validity.length 1 false r hl1).1, he1]
          · exact he1
        apply key
        · split
          · rw [dropSlot_length]; exact hlt
          · exact hlt
        · split
          · exact dropSlot_bytes _ _ _
          · rfl
      · rfl
    · rfl

theorem setSlot_other (s : State) (i j : Nat) (sl : Slot) (hne : j ≠ i) : (setSlot s i sl).slots[j]? = s.slots[j]? := by
  simp [setSlot, List.getElem?_set, Ne.symm hne]

theorem dropSlot_other (s : State) (i j : Nat) (hne : j ≠ i) : (dropSlot s i).slots[j]? = s.slots[j]? := by
  rw [dropSlot_slots]; simp [List.getElem?_set, Ne.symm hne]

/-- an operation leaves every slot outside its targets alone -/
theorem step_slots (s : State) (op : Op) (j : Nat) (hj : j ∉ op.targets) :
    (step s op).1.slots[j]? = s.slots[j]? := by
  cases op with
  | allocVec d len cap t seed =>
    simp only [Op.targets, List.mem_singleton] at hj
    simp only [step, opAllocVec]; split
    · exact allocStd_slots _ _ _ _ _ _ _ hj
    · rfl
  | allocMut d len cap seed =>
    simp only [Op.targets, List.mem_singleton] at hj
    simp only [step, opAllocMut]; split
    · exact allocStd_slots _ _ _ _ _ _ _ hj
    · rfl
  | allocCustom d len seed =>
    simp only [Op.targets, List.mem_singleton] at hj
    exact allocCustomFresh_slots _ _ _ _ hj
  | clone i d =>
    simp only [Op.targets, List.mem_singleton] at hj
    simp only [step, opClone]; split
    · exact addHandle_slots _ _ _ _ hj
    · rfl
  | slice i d off len =>
    simp only [Op.targets, List.mem_singleton] at hj
    simp only [step, opSlice]; split
    · split
      · exact addHandle_slots _ _ _ _ hj
      · rfl
    · rfl
  | drop i =>
    simp only [Op.targets, List.mem_singleton] at hj
    simp only [step, opDrop]; split
    · rfl
    · exact dropSlot_other _ _ _ hj
    · rfl
  | intoMutable i =>
    simp only [Op.targets, List.mem_singleton] at hj
    simp only [step, opIntoMutable]; split
    · split
      · split
        · exact setSlot_other _ _ _ _ hj
        · rfl
      · rfl
    · rfl
  | intoVec i t =>
    simp only [Op.targets, List.mem_singleton] at hj
    simp only [step, opIntoVec]; split
    · split
      · split
        · rw [allocStd_slots _ _ _ _ _ _ _ hj, dropSlot_other _ _ _ hj]
        · rfl
      · rfl
    · rfl
  | freeze i =>
    simp only [Op.targets, List.mem_singleton] at hj
    simp only [step, opFreeze]; split
    · exact setSlot_other _ _ _ _ hj
    · rfl
  | write i pos val =>
    simp only [step, opWrite]; split
    · split
      · split <;> rfl
      · rfl
    · rfl
  | extend i n val =>
    simp only [Op.targets, List.mem_singleton] at hj
    simp only [step, opExtend]; split
    · split
      · exact setSlot_other _ _ _ _ hj
      · rfl
    · rfl
  | truncate i len =>
    simp only [Op.targets, List.mem_singleton] at hj
    simp only [step, opTruncate]; split
    · split
      · split
        · rfl
        · exact setSlot_other _ _ _ _ hj
      · rfl
    · rfl
  | claim i p =>
    simp only [step, opClaim]; split
    · split <;> rfl
    · rfl
  | wrap i d off len =>
    simp only [Op.targets, List.mem_singleton] at hj
    simp only [step, opWrap]; split
    · rename_i hd0 hi0
      split
      · split
        · rename_i s1 heq
          rw [holdOne_slots]
          have := allocCustomFresh_slots s d (((view s hd0).drop off).take len) j hj
          rw [heq] at this; exact this
        · rfl
      · rfl
    · rfl
  | bitAssign i k bop boff blen =>
    simp only [Op.targets, List.mem_singleton] at hj
    simp only [step, opBitAssign]; split
    · split
      · split
        · split
          · rfl
          · rw [allocStd_slots _ _ _ _ _ _ _ hj, dropSlot_other _ _ _ hj]
        · rfl
      · rfl
    · rfl
  | exportFfi srcs d =>
    simp only [Op.targets, List.mem_singleton] at hj
    simp only [step, opExportFfi]; split
    · split
      · rw [holdAll_slots]; exact setSlot_other _ _ _ _ hj
      · rfl
    · rfl
  | importFfi i dsts =>
    simp only [Op.targets, List.mem_cons, not_or] at hj
    simp only [step, opImportFfi]; split
    · split
      · split
        · rw [dropSlot_other _ _ _ hj.1]
          -- `importAll` only fills the destination slots (whatever the region index)
          have : ∀ (o : Nat) (hs : List Handle) (ds : List Nat) (s : State), j ∉ ds →
              (importAll s o hs ds).slots[j]? = s.slots[j]? := by
            intro o
            intro hs
            induction hs with
            | nil => intro ds s _; simp [importAll]
            | cons hd rest ih =>
              intro ds s hds
              cases ds with
              | nil => simp [importAll]
              | cons d ds =>
                simp only [importAll]
                simp at hds
                split
                · rw [ih ds _ hds.2, allocStd_slots _ _ _ _ _ _ _ hds.1]
                · rw [ih ds _ hds.2, allocCustomShared_slots _ _ _ _ _ hds.1]
          exact this _ _ _ _ hj.2
        · rfl
      · rfl
    · rfl
  | unaryMut i delta =>
    simp only [Op.targets, List.mem_singleton] at hj
    simp only [step, opUnaryMut]; split
    · split
      · split
        · rw [allocStd_slots _ _ _ _ _ _ _ hj, dropSlot_other _ _ _ hj]
        · rfl
      · rfl
    · rfl
  | allocGen d len cap align seed asMut zeroed =>
    simp only [Op.targets, List.mem_singleton] at hj
    simp only [step, opAllocGen]; split
    · exact allocStd_slots _ _ _ _ _ _ _ hj
    · rfl
  | resize i n val =>
    simp only [Op.targets, List.mem_singleton] at hj
    simp only [step, opResize]; split
    · rename_i r0 l hi
      split
      · simp only [opExtend, hi]
        split
        · exact setSlot_other _ _ _ _ hj
        · rfl
      · simp only [opTruncate, hi]
        split
        · split
          · rfl
          · exact setSlot_other _ _ _ _ hj
        · rfl
    · rfl
  | shrinkBuf i =>
    simp only [Op.targets, List.mem_singleton] at hj
    simp only [step, opShrinkBuf]; split
    · split
      · have key : ∀ hd reg desired hd', (shrinkTo s i hd reg desired hd').1.slots[j]? = s.slots[j]? := by
          intro hd reg desired hd'
          unfold shrinkTo; split
          · exact setSlot_other _ _ _ _ hj
          · rfl
        split <;> exact key _ _ _ _
      · rfl
    · rfl
  | shrinkMut i =>
    simp only [step, opShrinkMut]; split
    · split
      · split <;> rfl
      · rfl
    · rfl
  | roundTrip srcs =>
    simp only [step, opRoundTrip]; split
    · split <;> rfl
    · rfl
  | binaryMut i k =>
    simp only [Op.targets, List.mem_singleton] at hj
    simp only [step, opBinaryMut]; split
    · split
      · split
        · split
          · rw [allocStd_slots _ _ _ _ _ _ _ hj, dropSlot_other _ _ _ hj]
          · rfl
        · rfl
      · rfl
    · rfl
  | unaryMut2 v n delta =>
    simp only [Op.targets, List.mem_cons, List.mem_singleton, not_or, List.not_mem_nil, or_false] at hj
    simp only [step, opUnaryMut2]; split
    · split
      · have key : ∀ (s1 : State) okn validity hv, s1.slots[j]? = s.slots[j]? →
            (um2Finish s1 v n delta hv okn validity).1.slots[j]? = s.slots[j]? := by
          intro s1 okn validity hv he1
          unfold um2Finish; split
          · split
            · rw [allocStd_slots _ _ _ _ _ _ _ hj.2, dropSlot_other _ _ _ hj.2, allocStd_slots _ _ _ _ _ _ _ hj.1, dropSlot_other _ _ _ hj.1, he1]
            · rw [allocStd_slots _ _ _ _ _ _ _ hj.2, dropSlot_other _ _ _ hj.2, he1]
          · exact he1
        apply key
        split
        · exact dropSlot_other _ _ _ hj.2
        · rfl
      · rfl
    · rfl

end ArrowModel.C16
