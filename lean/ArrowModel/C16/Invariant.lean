import ArrowModel.C16.Lemmas
namespace ArrowModel.C16

/-- a region is rewritten without touching its count, kind or release state; the pool
follows the reservation -/
theorem inv_updRegion {s s' : State} {p : List Nat} {r : Nat} {reg reg' : Region} (h : InvP s p)
    (hr : s.regions[r]? = some reg) (hregs : s'.regions = s.regions.set r reg')
    (hown : s'.owners = s.owners) (hsl : s'.slots = s.slots)
    (hpool : ∀ q, s'.pool q + reg.claimIn q = s.pool q + reg'.claimIn q)
    (h1 : reg'.rc = reg.rc) (h2 : reg'.kind = reg.kind) (h3 : reg'.released = reg.released)
    (h4 : reg'.relCount = reg.relCount) (h5 : reg'.released = true → reg'.claimed = none)
    (h6 : ∀ c, reg'.claimed = some c → c = reg'.cap) : InvP s' p := by
  have hrc : ∀ r', rcOf s' r' = rcOf s r' := by
    intro r'; rw [rcOf_set hregs hr r']; split
    · subst_vars; rw [rcOf_some hr, h1]
    · rfl
  have href : ∀ r', referenced s' r' = referenced s r' := by
    intro r'; simp only [referenced, slotRefs, heldRefs, hown, hsl]
  refine ⟨?_, ?_, ?_, ?_, ?_, ?_⟩
  · intro r'; rw [hrc, href]; exact h.rc_eq r'
  · intro o
    have := ownedBy_set hregs hr o
    have h0 := h.own_eq o
    simp only [Region.ownedBy, h2, h3] at this
    simp only [ownerRefs, ownRc, hown, hsl] at *
    omega
  · intro r' x hh
    rw [hregs] at hh
    rcases regions_set_get hh with ⟨_, e⟩ | ⟨_, e⟩
    · subst e
      have hok := h.reg_ok r reg hr
      exact ⟨by rw [h3, h1]; exact hok.rel_iff, by rw [h4, h3]; exact hok.rel_count, h5, h6⟩
    · exact h.reg_ok r' x e
  · intro o ow hh; rw [hown] at hh; exact h.own_ok o ow hh
  · intro q
    have := claimSum_set hregs hr q
    have hp := h.pool_eq q
    have hge := sumMap_ge (Region.claimIn q) s.regions r reg hr
    have hq := hpool q
    omega
  · intro i r' l hh
    rw [hsl] at hh
    rw [hrc]; exact h.mut_excl i r' l hh

/-- a slot is rewritten to another handle on the same region -/
theorem inv_retag {s s' : State} {p : List Nat} {i : Nat} {old new : Slot} (h : InvP s p)
    (hi : s.slots[i]? = some old) (hsl : s'.slots = s.slots.set i new)
    (hregs : s'.regions = s.regions) (hown : s'.owners = s.owners) (hpool : s'.pool = s.pool)
    (hreg : new.region? = old.region?) (hffi : ∀ o, new.ffiRefs o = old.ffiRefs o)
    (hmut : ∀ r l, new = .mut r l → rcOf s r = 1) : InvP s' p := by
  have hrc : ∀ r', rcOf s' r' = rcOf s r' := by intro r'; simp only [rcOf, hregs]
  refine ⟨?_, ?_, ?_, ?_, ?_, ?_⟩
  · intro r'
    have := slotRefs_set hsl hi r'
    have h0 := h.rc_eq r'
    simp only [Slot.refs, hreg] at this
    simp only [referenced, heldRefs, hown, hrc] at *
    omega
  · intro o
    have := ffiRefs_set hsl hi o
    have h0 := h.own_eq o
    rw [hffi] at this
    simp only [ownerRefs, ownRc, hown, hregs] at *
    omega
  · intro r' x hh; rw [hregs] at hh; exact h.reg_ok r' x hh
  · intro o ow hh; rw [hown] at hh; exact h.own_ok o ow hh
  · intro q; rw [hpool, hregs]; exact h.pool_eq q
  · intro k r' l hh
    rw [hsl, List.getElem?_set] at hh
    rw [hrc]
    by_cases e : i = k
    · subst e
      simp [(List.getElem?_eq_some_iff.mp hi).1] at hh
      exact hmut r' l hh
    · simp [e] at hh; exact h.mut_excl k r' l hh

theorem rcOf_len (s : State) : rcOf s s.regions.length = 0 := by simp [rcOf]
theorem ownRc_len (s : State) : ownRc s s.owners.length = 0 := by simp [ownRc]

theorem getElem?_append_some {α : Type} {l : List α} {a x : α} {k : Nat} (h : (l ++ [a])[k]? = some x) :
    (k = l.length ∧ x = a) ∨ (k ≠ l.length ∧ l[k]? = some x) := by
  rw [List.getElem?_append] at h
  by_cases e : k < l.length
  · simp [e] at h; right; exact ⟨by omega, List.getElem?_eq_some_iff.mpr ⟨e, h⟩⟩
  · simp [e] at h
    have : k - l.length = 0 := by
      cases hh : k - l.length with
      | zero => rfl
      | succ m => simp [hh] at h
    simp [this] at h
    left; exact ⟨by omega, h.symm⟩

/-- a fresh region with one handle in the empty slot `d`; the owner side is abstract -/
theorem inv_pushRegion {s s' : State} {d : Nat} {reg : Region} {new : Slot} (h : Inv s)
    (hd : s.slots[d]? = some .empty) (hregs : s'.regions = s.regions ++ [reg])
    (hsl : s'.slots = s.slots.set d new) (hnew : new.region? = some s.regions.length)
    (hnffi : ∀ o, new.ffiRefs o = 0) (hpool : s'.pool = s.pool)
    (c1 : reg.rc = 1) (c2 : reg.released = false) (c3 : reg.relCount = 0) (c4 : reg.claimed = none)
    (hown_eq : ∀ o, ownRc s' o = ownRc s o + reg.ownedBy o)
    (hheld : ∀ r, heldRefs s' r = heldRefs s r)
    (hown_ok : ∀ (o : Nat) ow, s'.owners[o]? = some ow → OwnerOk ow) : Inv s' := by
  have hrc := rcOf_push hregs
  have hz : referenced s s.regions.length = 0 := by
    have := h.rc_eq s.regions.length; rw [rcOf_len] at this; simp at this; omega
  refine ⟨?_, ?_, ?_, hown_ok, ?_, ?_⟩
  · intro r'
    have := slotRefs_set hsl hd r'
    have h0 := h.rc_eq r'
    simp only [Slot.refs, hnew] at this
    have he : (Slot.empty).region? = none := rfl
    simp only [he] at this
    simp only [referenced, hheld, hrc, countIn_nil] at *
    by_cases e : r' = s.regions.length
    · subst e; simp at this; simp [c1]; omega
    · have e2 : ¬ (s.regions.length = r') := fun x => e x.symm
      simp [e2] at this; simp [e]; omega
  · intro o
    have := ffiRefs_set hsl hd o
    have h0 := h.own_eq o
    rw [hnffi] at this
    simp only [Slot.ffiRefs] at this
    simp only [ownerRefs, hregs, sumMap_append, sumMap, hown_eq] at *
    simp at this
    omega
  · intro r' x hh
    rw [hregs] at hh
    rcases getElem?_append_some hh with ⟨_, e⟩ | ⟨_, e⟩
    · subst e; exact ⟨by simp [c1, c2], by simp [c2, c3], by simp [c2], by simp [c4]⟩
    · exact h.reg_ok r' x e
  · intro q; rw [hpool, hregs, sumMap_append]; simp [sumMap, Region.claimIn, c4]; exact h.pool_eq q
  · intro k r' l hh
    rw [hsl, List.getElem?_set] at hh
    rw [hrc]
    by_cases e : d = k
    · subst e
      simp [(List.getElem?_eq_some_iff.mp hd).1] at hh
      subst hh
      simp [Slot.region?] at hnew
      simp [hnew, c1]
    · simp [e] at hh
      have hm := h.mut_excl k r' l hh
      have : r' ≠ s.regions.length := by intro e2; rw [e2, rcOf_len] at hm; omega
      simp [this, hm]

theorem inv_allocStd (s : State) (d : Nat) (bytes : List Nat) (cap align : Nat) (asMut : Bool) (h : Inv s) :
    Inv (allocStd s d bytes cap align asMut).1 := by
  unfold allocStd
  split
  · rename_i hd
    refine inv_pushRegion (reg := mkRegion bytes cap (.standard align)) h hd rfl rfl ?_ ?_ rfl rfl rfl rfl rfl ?_ (fun _ => rfl) h.own_ok
    · cases asMut <;> rfl
    · intro o; cases asMut <;> rfl
    · intro o; simp [Region.ownedBy, mkRegion]; rfl
  · exact h

theorem heldRefs_push {s s' : State} {ow : Owner} (hr : s'.owners = s.owners ++ [ow]) (r : Nat) :
    heldRefs s' r = heldRefs s r + ow.heldRefs r := by
  simp [heldRefs, hr, sumMap_append, sumMap]

theorem inv_allocCustomFresh (s : State) (d : Nat) (bytes : List Nat) (h : Inv s) :
    Inv (allocCustomFresh s d bytes).1 := by
  unfold allocCustomFresh
  split
  · rename_i hd
    refine inv_pushRegion (reg := mkRegion bytes bytes.length (.custom s.owners.length)) h hd rfl rfl rfl (fun _ => rfl) rfl rfl rfl rfl rfl ?_ ?_ ?_
    · intro o
      rw [ownRc_push (s := s) (ow := { rc := 1, drops := 0, held := [] }) rfl o]
      by_cases e : o = s.owners.length
      · subst e; simp [ownRc_len, Region.ownedBy, mkRegion]
      · have : ¬ (s.owners.length = o) := fun x => e x.symm
        simp [e, Region.ownedBy, mkRegion, this]
    · intro r
      rw [heldRefs_push (s := s) (ow := { rc := 1, drops := 0, held := [] }) rfl r]
      simp [Owner.heldRefs, sumMap]
    · intro o ow hh
      rcases getElem?_append_some (l := s.owners) hh with ⟨_, e⟩ | ⟨_, e⟩
      · subst e; exact ⟨by simp, by simp⟩
      · exact h.own_ok o ow e
  · exact h

/-- `ownerRefs ≥ 1` for an owner held in an ffi slot -/
theorem ffi_slot_rc {s : State} (h : Inv s) {i o : Nat} (hi : s.slots[i]? = some (.ffi o)) : 1 ≤ ownRc s o := by
  have := sumMap_ge (Slot.ffiRefs o) s.slots i _ hi
  have h0 := h.own_eq o
  simp [Slot.ffiRefs, ownerRefs] at *
  omega

theorem inv_allocCustomShared (s : State) (d : Nat) (bytes : List Nat) (o : Nat) (h : Inv s)
    (hlive : 1 ≤ ownRc s o) : Inv (allocCustomShared s d bytes o).1 := by
  unfold allocCustomShared
  split
  · rename_i ow hd ho
    refine inv_pushRegion (reg := mkRegion bytes bytes.length (.custom o)) h hd rfl rfl rfl (fun _ => rfl) rfl rfl rfl rfl rfl ?_ ?_ ?_
    · intro o'
      rw [ownRc_set (s := s) (ow' := { ow with rc := ow.rc + 1 }) rfl ho o']
      by_cases e : o' = o
      · subst e; simp [ownRc_some ho, Region.ownedBy, mkRegion]
      · have : ¬ (o = o') := fun x => e x.symm
        simp [e, Region.ownedBy, mkRegion, this]
    · intro r
      have := heldRefs_set (s := s) (ow' := { ow with rc := ow.rc + 1 }) (s' := setOwner s o { ow with rc := ow.rc + 1 }) rfl ho r
      simp only [Owner.heldRefs] at this
      show heldRefs (setOwner s o { ow with rc := ow.rc + 1 }) r = _
      omega
    · intro o' ow' hh
      rcases owners_set_get hh with ⟨_, e⟩ | ⟨_, e⟩
      · subst e
        have hok := h.own_ok o ow ho
        rw [ownRc_some ho] at hlive
        have hne : ow.rc ≠ 0 := by omega
        have hd := hok.drops_eq
        rw [if_neg hne] at hd
        exact ⟨by simp [hd], by intro h; simp at h⟩
      · exact h.own_ok o' ow' e
  · exact h

/-- a fresh exported struct in the empty slot `d`, holding nothing yet -/
theorem inv_exportFresh (s : State) (d : Nat) (h : Inv s) (hd : s.slots[d]? = some .empty) :
    Inv (setSlot (pushOwner s { rc := 1, drops := 0, held := [] }) d (.ffi s.owners.length)) := by
  refine ⟨?_, ?_, ?_, ?_, ?_, ?_⟩
  · intro r
    have := slotRefs_set (s := s) (s' := setSlot (pushOwner s { rc := 1, drops := 0, held := [] }) d (.ffi s.owners.length)) rfl hd r
    have h0 := h.rc_eq r
    have hh := heldRefs_push (s := s) (s' := setSlot (pushOwner s { rc := 1, drops := 0, held := [] }) d (.ffi s.owners.length)) (ow := { rc := 1, drops := 0, held := [] }) rfl r
    simp only [Slot.refs, Slot.region?] at this
    simp only [referenced, hh, Owner.heldRefs, sumMap] at *
    show rcOf s r = _
    simp at this
    omega
  · intro o
    have := ffiRefs_set (s := s) (s' := setSlot (pushOwner s { rc := 1, drops := 0, held := [] }) d (.ffi s.owners.length)) rfl hd o
    have h0 := h.own_eq o
    rw [ownRc_push (s := s) (ow := { rc := 1, drops := 0, held := [] }) rfl o]
    simp only [ownerRefs] at *
    show _ = sumMap (Region.ownedBy o) s.regions + _
    simp only [Slot.ffiRefs] at this
    by_cases e : o = s.owners.length
    · subst e; rw [ownRc_len] at h0; simp at this; simp; omega
    · have : ¬ (s.owners.length = o) := fun x => e x.symm
      simp [this] at *; simp [e]; omega
  · exact h.reg_ok
  · intro o ow hh
    rcases getElem?_append_some (l := s.owners) hh with ⟨_, e⟩ | ⟨_, e⟩
    · subst e; exact ⟨by simp, by simp⟩
    · exact h.own_ok o ow e
  · exact h.pool_eq
  · intro k r l hh
    show rcOf s r = 1
    simp only [setSlot, pushOwner, List.getElem?_set] at hh
    by_cases e : d = k
    · subst e; simp [(List.getElem?_eq_some_iff.mp hd).1] at hh
    · simp [e] at hh; exact h.mut_excl k r l hh

/-- **no use after release** (slot form): the region of a live handle exists, has a positive
count and has not been released -/
theorem live_of_slot {s : State} (h : Inv s) {i r : Nat} {sl : Slot} (hi : s.slots[i]? = some sl)
    (hr : sl.region? = some r) : ∃ reg, s.regions[r]? = some reg ∧ 1 ≤ reg.rc ∧ reg.released = false := by
  have h1 := slot_refs_le hi r
  have h0 := h.rc_eq r
  simp only [Slot.refs, hr, if_true, referenced, countIn_nil] at *
  cases hreg : s.regions[r]? with
  | none => simp [rcOf, hreg] at h0; omega
  | some reg =>
    rw [rcOf_some hreg] at h0
    refine ⟨reg, rfl, by omega, ?_⟩
    cases hx : reg.released with
    | false => rfl
    | true => have := (h.reg_ok r reg hreg).rel_iff.mp hx; omega

/-- a region with a mutable handle has no other handle in any slot -/
theorem mut_unique {s : State} (h : Inv s) {i k r l : Nat} {sl : Slot} (hk : s.slots[k]? = some (.mut r l))
    (hi : s.slots[i]? = some sl) (hr : sl.region? = some r) : i = k := by
  by_cases e : i = k
  · exact e
  · exfalso
    have h2 := sumMap_ge2 (Slot.refs r) s.slots i k _ _ e hi hk
    have h0 := h.rc_eq r
    have hm := h.mut_excl k r l hk
    have hmr : (Slot.mut r l).region? = some r := rfl
    simp only [Slot.refs, hr, hmr, if_true, referenced, countIn_nil, slotRefs] at *
    omega

/-- one more handle on region `r` (which a `Buffer` in slot `i` already references), placed
in the empty slot `d` -/
theorem inv_addRefSlot {s s' : State} {d r i : Nat} {reg : Region} {hd' h0 : Handle} (h : Inv s)
    (hd : s.slots[d]? = some .empty) (hr : s.regions[r]? = some reg)
    (hregs : s'.regions = s.regions.set r { reg with rc := reg.rc + 1 })
    (hsl : s'.slots = s.slots.set d (.buf hd')) (hown : s'.owners = s.owners) (hpool : s'.pool = s.pool)
    (hsrc : s.slots[i]? = some (.buf h0)) (hreg0 : h0.region = r) (hreg : hd'.region = r) : Inv s' := by
  obtain ⟨reg0, hr0, hpos, hnrel⟩ := live_of_slot h hsrc (r := r) (by simp [Slot.region?, hreg0])
  rw [hr] at hr0; cases hr0
  have hrc := rcOf_set hregs hr
  refine ⟨?_, ?_, ?_, ?_, ?_, ?_⟩
  · intro r'
    have := slotRefs_set hsl hd r'
    have h0 := h.rc_eq r'
    rw [hrc]
    have e1 : (Slot.buf hd').region? = some r := by simp [Slot.region?, hreg]
    have e2 : (Slot.empty).region? = none := rfl
    simp only [Slot.refs, e1, e2] at this
    simp only [referenced, countIn_nil, heldRefs, hown] at *
    by_cases e : r' = r
    · subst e; rw [rcOf_some hr] at h0; simp at this; simp; omega
    · have : ¬ (r = r') := fun x => e x.symm
      simp [this] at *; simp [e]; omega
  · intro o
    have := ownedBy_set hregs hr o
    have hf := ffiRefs_set hsl hd o
    have h0 := h.own_eq o
    simp only [Region.ownedBy, Slot.ffiRefs] at this hf
    simp only [ownerRefs, ownRc, hown] at *
    simp at hf
    omega
  · intro r' x hh
    rw [hregs] at hh
    rcases regions_set_get hh with ⟨_, e⟩ | ⟨_, e⟩
    · subst e
      have hok := h.reg_ok _ reg hr
      exact ⟨by simp [hnrel], by simpa using hok.rel_count, by simp [hnrel], by simpa using hok.claim_cap⟩
    · exact h.reg_ok r' x e
  · intro o ow hh; rw [hown] at hh; exact h.own_ok o ow hh
  · intro q
    have := claimSum_set hregs hr q
    have hp := h.pool_eq q
    simp only [Region.claimIn] at this
    rw [hpool]
    omega
  · intro k r' l hh
    rw [hsl, List.getElem?_set] at hh
    by_cases e : d = k
    · subst e; simp [(List.getElem?_eq_some_iff.mp hd).1] at hh
    · simp [e] at hh
      rw [hrc]
      by_cases e2 : r' = r
      · subst e2
        have := mut_unique h hh hsrc (by simp [Slot.region?, hreg0])
        subst this; rw [hsrc] at hh; cases hh
      · simp [e2]; exact h.mut_excl k r' l hh

theorem inv_addHandle (s : State) (d : Nat) (hd' : Handle) (h : Inv s) {i : Nat} {h0 : Handle}
    (hsrc : s.slots[i]? = some (.buf h0)) (hreg : h0.region = hd'.region) : Inv (addHandle s d hd').1 := by
  unfold addHandle
  split
  · rename_i reg hd hr
    exact inv_addRefSlot h hd hr rfl rfl rfl rfl hsrc hreg rfl
  · exact h

/-- one more handle on region `r` (which a `Buffer` in slot `i` already references), kept by
the live owner `o` -/
theorem inv_addRefHeld {s s' : State} {o r i : Nat} {reg : Region} {ow : Owner} {hd' h0 : Handle} (h : Inv s)
    (hr : s.regions[r]? = some reg) (ho : s.owners[o]? = some ow)
    (hregs : s'.regions = s.regions.set r { reg with rc := reg.rc + 1 })
    (hown : s'.owners = s.owners.set o { ow with held := ow.held ++ [hd'] })
    (hsl : s'.slots = s.slots) (hpool : s'.pool = s.pool)
    (hsrc : s.slots[i]? = some (.buf h0)) (hreg0 : h0.region = r) (hreg : hd'.region = r)
    (hlive : 1 ≤ ow.rc) : Inv s' := by
  obtain ⟨reg0, hr0, hpos, hnrel⟩ := live_of_slot h hsrc (r := r) (by simp [Slot.region?, hreg0])
  rw [hr] at hr0; cases hr0
  have hrc := rcOf_set hregs hr
  refine ⟨?_, ?_, ?_, ?_, ?_, ?_⟩
  · intro r'
    have := heldRefs_set hown ho r'
    have h0 := h.rc_eq r'
    rw [hrc]
    simp only [Owner.heldRefs, sumMap_append, sumMap, Handle.refs, hreg] at this
    simp only [referenced, countIn_nil, slotRefs, hsl] at *
    by_cases e : r' = r
    · subst e; rw [rcOf_some hr] at h0; simp at this; simp; omega
    · have : ¬ (r = r') := fun x => e x.symm
      simp [this] at *; simp [e]; omega
  · intro o'
    have := ownedBy_set hregs hr o'
    have h0 := h.own_eq o'
    rw [ownRc_set hown ho o']
    simp only [Region.ownedBy] at this
    simp only [ownerRefs, hsl] at *
    by_cases e : o' = o
    · subst e; rw [ownRc_some ho] at h0; simp; omega
    · simp [e]; omega
  · intro r' x hh
    rw [hregs] at hh
    rcases regions_set_get hh with ⟨_, e⟩ | ⟨_, e⟩
    · subst e
      have hok := h.reg_ok _ reg hr
      exact ⟨by simp [hnrel], by simpa using hok.rel_count, by simp [hnrel], by simpa using hok.claim_cap⟩
    · exact h.reg_ok r' x e
  · intro o' ow' hh
    rw [hown] at hh
    rcases owners_set_get hh with ⟨_, e⟩ | ⟨_, e⟩
    · subst e
      have hok := h.own_ok o ow ho
      exact ⟨by simpa using hok.drops_eq, by intro hz; simp at hz; omega⟩
    · exact h.own_ok o' ow' e
  · intro q
    have := claimSum_set hregs hr q
    have hp := h.pool_eq q
    simp only [Region.claimIn] at this
    rw [hpool]
    omega
  · intro k r' l hh
    rw [hsl] at hh
    rw [hrc]
    by_cases e2 : r' = r
    · subst e2
      have := mut_unique h hh hsrc (by simp [Slot.region?, hreg0])
      subst this; rw [hsrc] at hh; cases hh
    · simp [e2]; exact h.mut_excl k r' l hh

theorem inv_holdOne (s : State) (o : Nat) (hd' : Handle) (h : Inv s) {i : Nat} {h0 : Handle}
    (hsrc : s.slots[i]? = some (.buf h0)) (hreg : h0.region = hd'.region) (hlive : 1 ≤ ownRc s o) :
    Inv (holdOne s o hd') := by
  unfold holdOne
  split
  · rename_i reg ow hr ho
    rw [ownRc_some ho] at hlive
    exact inv_addRefHeld h hr ho rfl rfl rfl rfl hsrc hreg rfl hlive
  · exact h


/-- clearing a slot that held a handle on `r` leaves one decrement of `r` pending -/
theorem invP_clearSlot {s : State} {i r : Nat} {sl : Slot} (h : Inv s) (hi : s.slots[i]? = some sl)
    (hr : sl.region? = some r) : InvP (setSlot s i .empty) [r] := by
  have hnf : ∀ o, sl.ffiRefs o = 0 := by
    intro o; cases sl <;> simp [Slot.ffiRefs, Slot.region?] at *
  refine ⟨?_, ?_, h.reg_ok, h.own_ok, h.pool_eq, ?_⟩
  · intro r'
    have := slotRefs_set (s := s) (s' := setSlot s i .empty) rfl hi r'
    have h0 := h.rc_eq r'
    have e2 : (Slot.empty).region? = none := rfl
    simp only [Slot.refs, hr, e2] at this
    have hh : heldRefs (setSlot s i .empty) r' = heldRefs s r' := rfl
    show rcOf s r' = _
    simp only [referenced, countIn_cons, countIn_nil, hh] at *
    by_cases e : r = r'
    · subst e; simp at this; simp; omega
    · simp [e] at this; simp [e]; omega
  · intro o
    have := ffiRefs_set (s := s) (s' := setSlot s i .empty) rfl hi o
    have h0 := h.own_eq o
    rw [hnf] at this
    simp only [Slot.ffiRefs] at this
    show ownRc s o = _
    simp only [ownerRefs] at *
    show _ = sumMap (Region.ownedBy o) s.regions + _
    simp at this
    omega
  · intro k r' l hh
    show rcOf s r' = 1
    simp only [setSlot, List.getElem?_set] at hh
    by_cases e : i = k
    · subst e; simp [(List.getElem?_eq_some_iff.mp hi).1] at hh
    · simp [e] at hh; exact h.mut_excl k r' l hh

theorem decOne_slots (r : Nat) (s : State) : (decOne r s).1.slots = s.slots := by
  unfold decOne
  split
  · rfl
  · split
    · split
      · rfl
      · exact (decOwner_frame _ _).2
    · rfl

theorem drain_slots (fuel : Nat) : ∀ (p : List Nat) (s : State), (drain fuel p s).slots = s.slots := by
  induction fuel with
  | zero => intro p s; rfl
  | succ f ih =>
    intro p s
    cases p with
    | nil => rfl
    | cons r rest => simp only [drain]; rw [ih, decOne_slots]

theorem set_same {α : Type} (l : List α) (i : Nat) (a : α) (h : l[i]? = some a) : l.set i a = l := by
  induction l generalizing i with
  | nil => rfl
  | cons x xs ih =>
    cases i with
    | zero => simp at h; simp [h]
    | succ i => simp at h; simp [ih i h]

/-- dropping a slot only empties that slot -/
theorem dropSlot_slots (s : State) (i : Nat) : (dropSlot s i).slots = s.slots.set i .empty := by
  unfold dropSlot
  split
  · simp only [dropRegions, drain_slots]; rfl
  · simp only [dropRegions, drain_slots]; rfl
  · simp only [dropRegions, drain_slots, (decOwner_frame _ _).2]; rfl
  · rename_i h1 h2 h3
    cases hi : s.slots[i]? with
    | none => rw [List.set_eq_of_length_le (by simpa using hi)]
    | some sl =>
      cases sl with
      | empty => rw [set_same _ _ _ hi]
      | buf h => exact absurd hi (h1 h)
      | «mut» r l => exact absurd hi (h2 r l)
      | ffi o => exact absurd hi (h3 o)

theorem inv_dropSlot (s : State) (i : Nat) (h : Inv s) : Inv (dropSlot s i) := by
  unfold dropSlot
  split
  · rename_i hd hi
    exact (dropRegions_spec _ _ (invP_clearSlot h hi rfl)).1
  · rename_i r l hi
    exact (dropRegions_spec _ _ (invP_clearSlot h hi rfl)).1
  · rename_i o hi
    -- the struct's own reference is dropped
    have hs : ∀ r, rcOf (setSlot s i .empty) r = referenced (setSlot s i .empty) r + countIn r [] := by
      intro r
      have := slotRefs_set (s := s) (s' := setSlot s i .empty) rfl hi r
      have h0 := h.rc_eq r
      simp only [Slot.refs, Slot.region?] at this
      have hh : heldRefs (setSlot s i .empty) r = heldRefs s r := rfl
      show rcOf s r = _
      simp only [referenced, countIn_nil, hh] at *
      simp at this
      omega
    have ho : ∀ o', ownRc (setSlot s i .empty) o' = ownerRefs (setSlot s i .empty) o' + if o' = o then 1 else 0 := by
      intro o'
      have := ffiRefs_set (s := s) (s' := setSlot s i .empty) rfl hi o'
      have h0 := h.own_eq o'
      simp only [Slot.ffiRefs] at this
      show ownRc s o' = _
      simp only [ownerRefs] at *
      show _ = sumMap (Region.ownedBy o') s.regions + _ + _
      by_cases e : o' = o
      · subst e; simp at this; simp; omega
      · have : ¬ (Slot.ffi o = Slot.ffi o') := by intro hh; injection hh with hh; exact e hh.symm
        simp [this] at *; simp [e]; omega
    have sp := decOwner_spec (setSlot s i .empty) o [] hs ho h.own_ok
    simp only at sp
    obtain ⟨a1, a2, a3, a4, a5, a6, a7⟩ := sp
    have hinv : InvP (decOwner o (setSlot s i .empty)).1 (decOwner o (setSlot s i .empty)).2 := by
      refine ⟨by simpa using a1, a2, ?_, a3, ?_, ?_⟩
      · intro r' reg' hh; rw [a4] at hh; exact h.reg_ok r' reg' hh
      · intro q; rw [a6, a4]; exact h.pool_eq q
      · intro k r' l hh
        rw [a5] at hh
        have e : rcOf (decOwner o (setSlot s i .empty)).1 r' = rcOf s r' := by simp only [rcOf, a4]; rfl
        rw [e]
        simp only [setSlot, List.getElem?_set] at hh
        by_cases e : i = k
        · subst e; simp [(List.getElem?_eq_some_iff.mp hi).1] at hh
        · simp [e] at hh; exact h.mut_excl k r' l hh
    exact (dropRegions_spec _ _ hinv).1
  · exact h

end ArrowModel.C16
