import ArrowModel.C16.Model
namespace ArrowModel.C16

theorem sumMap_append {α : Type} (f : α → Nat) (a b : List α) :
    sumMap f (a ++ b) = sumMap f a + sumMap f b := by
  induction a with
  | nil => simp [sumMap]
  | cons x xs ih => simp [sumMap, ih]; omega

theorem sumMap_set {α : Type} (f : α → Nat) (l : List α) (i : Nat) (a x : α) (h : l[i]? = some x) :
    sumMap f (l.set i a) + f x = sumMap f l + f a := by
  induction l generalizing i with
  | nil => simp at h
  | cons y ys ih =>
    cases i with
    | zero => simp at h; subst h; simp [sumMap]; omega
    | succ i => simp at h; have := ih i h; simp [sumMap]; omega

theorem sumMap_congr {α : Type} (f g : α → Nat) (l : List α) (h : ∀ x ∈ l, f x = g x) :
    sumMap f l = sumMap g l := by
  induction l with
  | nil => rfl
  | cons y ys ih => simp [sumMap, h y (by simp), ih (fun x hx => h x (by simp [hx]))]

theorem sumMap_ge {α : Type} (f : α → Nat) (l : List α) (i : Nat) (x : α) (h : l[i]? = some x) :
    f x ≤ sumMap f l := by
  induction l generalizing i with
  | nil => simp at h
  | cons y ys ih =>
    cases i with
    | zero => simp at h; subst h; simp [sumMap]
    | succ i => simp at h; have := ih i h; simp [sumMap]; omega

theorem sumMap_ge2 {α : Type} (f : α → Nat) (l : List α) (i j : Nat) (x y : α) (hij : i ≠ j)
    (hi : l[i]? = some x) (hj : l[j]? = some y) : f x + f y ≤ sumMap f l := by
  induction l generalizing i j with
  | nil => simp at hi
  | cons z zs ih =>
    cases i with
    | zero =>
      cases j with
      | zero => exact absurd rfl hij
      | succ j => simp at hi hj; subst hi; have := sumMap_ge f zs j y hj; simp [sumMap]; omega
    | succ i =>
      cases j with
      | zero => simp at hi hj; subst hj; have := sumMap_ge f zs i x hi; simp [sumMap]; omega
      | succ j => simp at hi hj; have := ih i j (by omega) hi hj; simp [sumMap]; omega

theorem sumMap_eq_zero {α : Type} (f : α → Nat) (l : List α) (h : sumMap f l = 0) (i : Nat) (x : α)
    (hx : l[i]? = some x) : f x = 0 := by
  have := sumMap_ge f l i x hx; omega

theorem sumMap_map {α β : Type} (f : β → Nat) (g : α → β) (l : List α) :
    sumMap f (l.map g) = sumMap (fun a => f (g a)) l := by
  induction l with
  | nil => rfl
  | cons y ys ih => simp [sumMap, ih]

/-! ### accessors and the invariant -/

def rcOf (s : State) (r : Nat) : Nat := match s.regions[r]? with | some reg => reg.rc | none => 0
def ownRc (s : State) (o : Nat) : Nat := match s.owners[o]? with | some ow => ow.rc | none => 0
/-- number of pending decrements of region `r` in a work list -/
def countIn (r : Nat) (p : List Nat) : Nat := sumMap (fun x => if x = r then 1 else 0) p

/-- bytes region `reg` has reserved in pool `p` -/
def Region.claimIn (p : Nat) (reg : Region) : Nat := if reg.claimPool = p then reg.claimed.getD 0 else 0

structure RegionOk (reg : Region) : Prop where
  rel_iff : reg.released = true ↔ reg.rc = 0
  rel_count : reg.relCount = if reg.released then 1 else 0
  rel_claim : reg.released = true → reg.claimed = none
  claim_cap : ∀ c, reg.claimed = some c → c = reg.cap

structure OwnerOk (ow : Owner) : Prop where
  drops_eq : ow.drops = if ow.rc = 0 then 1 else 0
  held_nil : ow.rc = 0 → ow.held = []

/-- the invariant, generalised to the middle of a release cascade: `p` are the regions that
still have a decrement pending -/
structure InvP (s : State) (p : List Nat) : Prop where
  rc_eq : ∀ r, rcOf s r = referenced s r + countIn r p
  own_eq : ∀ o, ownRc s o = ownerRefs s o
  reg_ok : ∀ (r : Nat) reg, s.regions[r]? = some reg → RegionOk reg
  own_ok : ∀ (o : Nat) ow, s.owners[o]? = some ow → OwnerOk ow
  pool_eq : ∀ p, s.pool p = sumMap (Region.claimIn p) s.regions
  mut_excl : ∀ (i : Nat) r l, s.slots[i]? = some (.mut r l) → rcOf s r = 1

abbrev Inv (s : State) : Prop := InvP s []

theorem countIn_cons (r x : Nat) (p : List Nat) : countIn r (x :: p) = (if x = r then 1 else 0) + countIn r p := rfl
theorem countIn_append (r : Nat) (p q : List Nat) : countIn r (p ++ q) = countIn r p + countIn r q :=
  sumMap_append _ p q
@[simp] theorem countIn_nil (r : Nat) : countIn r [] = 0 := rfl

theorem rcOf_some {s : State} {r : Nat} {reg : Region} (h : s.regions[r]? = some reg) : rcOf s r = reg.rc := by
  simp [rcOf, h]
theorem ownRc_some {s : State} {o : Nat} {ow : Owner} (h : s.owners[o]? = some ow) : ownRc s o = ow.rc := by
  simp [ownRc, h]

/-- `decOwner` in a state where owner `o` has one reference too many (the one being dropped) -/
theorem decOwner_spec (s : State) (o : Nat) (p : List Nat)
    (rc_eq : ∀ r, rcOf s r = referenced s r + countIn r p)
    (own_eq : ∀ o', ownRc s o' = ownerRefs s o' + if o' = o then 1 else 0)
    (own_ok : ∀ (o : Nat) ow, s.owners[o]? = some ow → OwnerOk ow) :
    let res := decOwner o s
    (∀ r, rcOf res.1 r = referenced res.1 r + countIn r (res.2 ++ p)) ∧
    (∀ o', ownRc res.1 o' = ownerRefs res.1 o') ∧
    (∀ (o : Nat) ow, res.1.owners[o]? = some ow → OwnerOk ow) ∧
    res.1.regions = s.regions ∧ res.1.slots = s.slots ∧ res.1.pool = s.pool ∧
    heldTotal res.1 + res.2.length = heldTotal s := by
  intro res
  simp only [res, decOwner]
  cases ho : s.owners[o]? with
  | none =>
    have := own_eq o
    simp [ownRc, ho] at this
  | some ow =>
    have hrc : ow.rc = ownerRefs s o + 1 := by have := own_eq o; simpa [ownRc, ho] using this
    have hok := own_ok o ow ho
    by_cases h1 : ow.rc ≤ 1
    · simp only [h1, if_true]
      have hz : ownerRefs s o = 0 := by omega
      refine ⟨?_, ?_, ?_, rfl, rfl, rfl, ?_⟩
      · intro r
        have hrq := rc_eq r
        rw [countIn_append]
        have : heldRefs s r = heldRefs (setOwner s o { ow with rc := 0, drops := ow.drops + 1, held := [] }) r + countIn r (ow.held.map Handle.region) := by
          have := sumMap_set (Owner.heldRefs r) s.owners o { ow with rc := 0, drops := ow.drops + 1, held := [] } ow ho
          simp only [heldRefs, setOwner]
          have e : countIn r (ow.held.map Handle.region) = Owner.heldRefs r ow := by
            simp only [countIn, Owner.heldRefs, sumMap_map]; rfl
          simp [Owner.heldRefs, sumMap] at this
          rw [e]; simp [Owner.heldRefs] at *; omega
        simp only [referenced] at *
        have hs : slotRefs (setOwner s o { ow with rc := 0, drops := ow.drops + 1, held := [] }) r = slotRefs s r := rfl
        have hr : rcOf (setOwner s o { ow with rc := 0, drops := ow.drops + 1, held := [] }) r = rcOf s r := rfl
        omega
      · intro o'
        have hor : ownerRefs (setOwner s o { ow with rc := 0, drops := ow.drops + 1, held := [] }) o' = ownerRefs s o' := rfl
        rw [hor]
        by_cases e : o' = o
        · subst e
          simp [ownRc, setOwner, (List.getElem?_eq_some_iff.mp ho).1]
          omega
        · have := own_eq o'
          simp [e] at this
          simp [ownRc, setOwner, Ne.symm e] at *
          exact this
      · intro o' ow' h'
        simp only [setOwner, List.getElem?_set] at h'
        split at h'
        · split at h'
          · cases h'
            have hne : ow.rc ≠ 0 := by omega
            have hd := hok.drops_eq
            rw [if_neg hne] at hd
            exact ⟨by simp [hd], by simp⟩
          · cases h'
        · exact own_ok o' ow' h'
      · have := sumMap_set (fun ow => ow.held.length) s.owners o { ow with rc := 0, drops := ow.drops + 1, held := [] } ow ho
        simp [heldTotal, setOwner] at *
        omega
    · simp only [h1, if_false]
      refine ⟨?_, ?_, ?_, rfl, rfl, rfl, ?_⟩
      · intro r
        have hh : heldRefs (setOwner s o { ow with rc := ow.rc - 1 }) r = heldRefs s r := by
          have := sumMap_set (Owner.heldRefs r) s.owners o { ow with rc := ow.rc - 1 } ow ho
          simp [heldRefs, setOwner, Owner.heldRefs] at *
          omega
        have := rc_eq r
        simp only [referenced, List.nil_append] at *
        have hs : slotRefs (setOwner s o { ow with rc := ow.rc - 1 }) r = slotRefs s r := rfl
        have hr : rcOf (setOwner s o { ow with rc := ow.rc - 1 }) r = rcOf s r := rfl
        omega
      · intro o'
        have hor : ownerRefs (setOwner s o { ow with rc := ow.rc - 1 }) o' = ownerRefs s o' := rfl
        rw [hor]
        by_cases e : o' = o
        · subst e
          simp [ownRc, setOwner, (List.getElem?_eq_some_iff.mp ho).1]
          omega
        · have := own_eq o'
          simp [e] at this
          simp [ownRc, setOwner, Ne.symm e] at *
          exact this
      · intro o' ow' h'
        simp only [setOwner, List.getElem?_set] at h'
        split at h'
        · split at h'
          · cases h'
            have : ow.rc ≠ 0 := by omega
            have h2 : ow.rc - 1 ≠ 0 := by omega
            have hd := hok.drops_eq
            rw [if_neg this] at hd
            exact ⟨by simp [hd, h2], by intro h; simp at h; omega⟩
          · cases h'
        · exact own_ok o' ow' h'
      · have := sumMap_set (fun ow => ow.held.length) s.owners o { ow with rc := ow.rc - 1 } ow ho
        simp [heldTotal, setOwner] at *
        omega

/-! ### how the observations move under the elementary state updates

Stated on field equalities so that they apply to any `{ s with … }`. -/

theorem rcOf_set {s s' : State} {r : Nat} {reg reg' : Region} (hr : s'.regions = s.regions.set r reg')
    (h : s.regions[r]? = some reg) (r' : Nat) : rcOf s' r' = if r' = r then reg'.rc else rcOf s r' := by
  have hlt := (List.getElem?_eq_some_iff.mp h).1
  by_cases e : r' = r
  · subst e; simp [rcOf, hr, hlt]
  · simp [rcOf, hr, e, Ne.symm e]

theorem rcOf_push {s s' : State} {reg : Region} (hr : s'.regions = s.regions ++ [reg]) (r' : Nat) :
    rcOf s' r' = if r' = s.regions.length then reg.rc else rcOf s r' := by
  by_cases e : r' = s.regions.length
  · subst e; simp [rcOf, hr]
  · simp only [rcOf, hr, e, if_false, List.getElem?_append]
    by_cases h : r' < s.regions.length
    · simp [h]
    · have : r' - s.regions.length ≠ 0 := by omega
      have h2 : s.regions.length ≤ r' := by omega
      simp [h, List.getElem?_eq_none h2]
      cases hh : r' - s.regions.length with
      | zero => omega
      | succ k => simp

theorem ownRc_set {s s' : State} {o : Nat} {ow ow' : Owner} (hr : s'.owners = s.owners.set o ow')
    (h : s.owners[o]? = some ow) (o' : Nat) : ownRc s' o' = if o' = o then ow'.rc else ownRc s o' := by
  have hlt := (List.getElem?_eq_some_iff.mp h).1
  by_cases e : o' = o
  · subst e; simp [ownRc, hr, hlt]
  · simp [ownRc, hr, e, Ne.symm e]

theorem ownRc_push {s s' : State} {ow : Owner} (hr : s'.owners = s.owners ++ [ow]) (o' : Nat) :
    ownRc s' o' = if o' = s.owners.length then ow.rc else ownRc s o' := by
  by_cases e : o' = s.owners.length
  · subst e; simp [ownRc, hr]
  · simp only [ownRc, hr, e, if_false, List.getElem?_append]
    by_cases h : o' < s.owners.length
    · simp [h]
    · have h2 : s.owners.length ≤ o' := by omega
      simp [h, List.getElem?_eq_none h2]
      cases hh : o' - s.owners.length with
      | zero => omega
      | succ k => simp

theorem slotRefs_set {s s' : State} {i : Nat} {old new : Slot} (hs : s'.slots = s.slots.set i new)
    (h : s.slots[i]? = some old) (r : Nat) : slotRefs s' r + old.refs r = slotRefs s r + new.refs r := by
  simp only [slotRefs, hs]; exact sumMap_set _ _ _ _ _ h

theorem ffiRefs_set {s s' : State} {i : Nat} {old new : Slot} (hs : s'.slots = s.slots.set i new)
    (h : s.slots[i]? = some old) (o : Nat) :
    sumMap (Slot.ffiRefs o) s'.slots + old.ffiRefs o = sumMap (Slot.ffiRefs o) s.slots + new.ffiRefs o := by
  simp only [hs]; exact sumMap_set _ _ _ _ _ h

theorem ownedBy_set {s s' : State} {r : Nat} {reg reg' : Region} (hr : s'.regions = s.regions.set r reg')
    (h : s.regions[r]? = some reg) (o : Nat) :
    sumMap (Region.ownedBy o) s'.regions + reg.ownedBy o = sumMap (Region.ownedBy o) s.regions + reg'.ownedBy o := by
  simp only [hr]; exact sumMap_set _ _ _ _ _ h

theorem claimSum_set {s s' : State} {r : Nat} {reg reg' : Region} (hr : s'.regions = s.regions.set r reg')
    (h : s.regions[r]? = some reg) (p : Nat) :
    sumMap (Region.claimIn p) s'.regions + reg.claimIn p =
      sumMap (Region.claimIn p) s.regions + reg'.claimIn p := by
  simp only [hr]; exact sumMap_set _ _ _ _ _ h

theorem heldRefs_set {s s' : State} {o : Nat} {ow ow' : Owner} (hr : s'.owners = s.owners.set o ow')
    (h : s.owners[o]? = some ow) (r : Nat) :
    heldRefs s' r + ow.heldRefs r = heldRefs s r + ow'.heldRefs r := by
  simp only [heldRefs, hr]; exact sumMap_set _ _ _ _ _ h

theorem slot_refs_le {s : State} {i : Nat} {sl : Slot} (h : s.slots[i]? = some sl) (r : Nat) :
    sl.refs r ≤ slotRefs s r := sumMap_ge _ _ _ _ h

theorem regions_set_get {l : List Region} {r r' : Nat} {reg' x : Region}
    (h : (l.set r reg')[r']? = some x) : (r' = r ∧ x = reg') ∨ (r' ≠ r ∧ l[r']? = some x) := by
  rw [List.getElem?_set] at h
  by_cases e : r = r'
  · simp [e] at h; left; exact ⟨e.symm, h.2.symm⟩
  · simp [e] at h; right; exact ⟨Ne.symm e, h⟩

theorem owners_set_get {l : List Owner} {r r' : Nat} {reg' x : Owner}
    (h : (l.set r reg')[r']? = some x) : (r' = r ∧ x = reg') ∨ (r' ≠ r ∧ l[r']? = some x) := by
  rw [List.getElem?_set] at h
  by_cases e : r = r'
  · simp [e] at h; left; exact ⟨e.symm, h.2.symm⟩
  · simp [e] at h; right; exact ⟨Ne.symm e, h⟩

/-- `decOne` keeps the generalised invariant, with the released owner's handles added to the
work list, and uses up one unit of fuel -/
theorem decOne_spec (s : State) (r : Nat) (rest : List Nat) (h : InvP s (r :: rest)) :
    InvP (decOne r s).1 ((decOne r s).2 ++ rest) ∧ (decOne r s).1.slots = s.slots ∧
    heldTotal (decOne r s).1 + (decOne r s).2.length = heldTotal s := by
  have hrc := h.rc_eq r
  rw [countIn_cons] at hrc
  simp only [if_true] at hrc
  unfold decOne
  cases hr : s.regions[r]? with
  | none => simp [rcOf, hr] at hrc; omega
  | some reg =>
    simp only
    rw [rcOf_some hr] at hrc
    have hok := h.reg_ok r reg hr
    obtain ⟨bytes, cap, kind, rc, released, relCount, claimed, claimPool⟩ := reg
    simp only at hrc ⊢
    by_cases h1 : rc ≤ 1
    · simp only [h1, if_true]
      have hz : referenced s r = 0 := by omega
      have hz2 : countIn r rest = 0 := by omega
      have hnr : released = false := by
        cases hx : released with
        | false => rfl
        | true => have := hok.rel_iff.mp (by simpa using hx); simp at this; omega
      -- the state after the region itself is released
      let s1 : State := { s with regions := s.regions.set r { bytes, cap, kind, rc := 0, released := true, relCount := relCount + 1, claimed := none, claimPool }, pool := poolAdjust s.pool claimPool (claimed.getD 0) 0 }
      have rc1 : ∀ r', rcOf s1 r' = referenced s1 r' + countIn r' rest := by
        intro r'
        rw [rcOf_set (s' := s1) rfl hr r']
        have : referenced s1 r' = referenced s r' := rfl
        rw [this]
        by_cases e : r' = r
        · subst e; simp; omega
        · have := h.rc_eq r'; rw [countIn_cons] at this; simp [Ne.symm e] at this; simp [e]; omega
      have regok1 : ∀ (r' : Nat) reg', s1.regions[r']? = some reg' → RegionOk reg' := by
        intro r' reg' hh
        rcases regions_set_get hh with ⟨_, e⟩ | ⟨_, e⟩
        · subst e
          have hc := hok.rel_count
          simp [hnr] at hc
          exact ⟨by simp, by simp [hc], by simp, by simp⟩
        · exact h.reg_ok r' reg' e
      have pool1 : ∀ p, s1.pool p = sumMap (Region.claimIn p) s1.regions := by
        intro p
        have := claimSum_set (s' := s1) rfl hr p
        have hp := h.pool_eq p
        have hge := sumMap_ge (Region.claimIn p) s.regions r _ hr
        simp only [Region.claimIn] at this hge
        show poolAdjust s.pool claimPool (claimed.getD 0) 0 p = _
        unfold poolAdjust
        by_cases e : p = claimPool
        · subst e; simp at this hge ⊢; omega
        · have e2 : ¬ (claimPool = p) := fun x => e x.symm
          simp [e, e2] at this hge ⊢; omega
      have mut1 : ∀ (i : Nat) r' l, s1.slots[i]? = some (.mut r' l) → rcOf s1 r' = 1 := by
        intro i r' l hh
        have hm := h.mut_excl i r' l hh
        rw [rcOf_set (s' := s1) rfl hr r']
        by_cases e : r' = r
        · subst e
          have := slot_refs_le (s := s) hh r'
          simp [Slot.refs, Slot.region?, referenced] at this hz
          omega
        · simp [e, hm]
      cases kind with
      | standard a =>
        simp only
        refine ⟨⟨by simpa using rc1, ?_, regok1, h.own_ok, pool1, mut1⟩, by simp, by simp [heldTotal]⟩
        intro o
        have := ownedBy_set (s' := s1) rfl hr o
        have h0 := h.own_eq o
        simp [Region.ownedBy] at this
        show ownRc s o = ownerRefs s1 o
        simp only [ownerRefs] at *
        show _ = sumMap (Region.ownedBy o) s1.regions + sumMap (Slot.ffiRefs o) s.slots
        omega
      | custom o =>
        simp only
        have own1 : ∀ o', ownRc s1 o' = ownerRefs s1 o' + if o' = o then 1 else 0 := by
          intro o'
          have := ownedBy_set (s' := s1) rfl hr o'
          have h0 := h.own_eq o'
          simp only [Region.ownedBy, hnr] at this
          show ownRc s o' = _
          simp only [ownerRefs] at *
          show _ = sumMap (Region.ownedBy o') s1.regions + sumMap (Slot.ffiRefs o') s.slots + _
          by_cases e : o' = o
          · subst e; simp at this; simp; omega
          · have e2 : ¬ (Kind.custom o = Kind.custom o') := by intro hh; injection hh with hh; exact e hh.symm
            simp [e2] at this; simp [e]; omega
        have sp := decOwner_spec s1 o rest rc1 own1 h.own_ok
        simp only at sp
        obtain ⟨a1, a2, a3, a4, a5, a6, a7⟩ := sp
        refine ⟨⟨a1, a2, ?_, a3, ?_, ?_⟩, a5, ?_⟩
        · intro r' reg' hh; rw [a4] at hh; exact regok1 r' reg' hh
        · rw [a6, a4]; exact pool1
        · intro i r' l hh
          rw [a5] at hh
          have := mut1 i r' l hh
          have e : rcOf (decOwner o s1).1 r' = rcOf s1 r' := by simp only [rcOf, a4]
          exact e ▸ this
        · exact a7
    · simp only [h1, if_false, List.nil_append]
      let s1 : State := setRegion s r { bytes, cap, kind, rc := rc - 1, released, relCount, claimed, claimPool }
      have hnr : released = false := by
        cases hx : released with
        | false => rfl
        | true => have := hok.rel_iff.mp (by simpa using hx); simp at this; omega
      refine ⟨⟨?_, ?_, ?_, h.own_ok, ?_, ?_⟩, rfl, by simp [heldTotal, setRegion]⟩
      · intro r'
        rw [rcOf_set (s' := s1) rfl hr r']
        have : referenced s1 r' = referenced s r' := rfl
        rw [this]
        by_cases e : r' = r
        · subst e; simp; omega
        · have := h.rc_eq r'; rw [countIn_cons] at this; simp [Ne.symm e] at this; simp [e]; omega
      · intro o
        have := ownedBy_set (s' := s1) rfl hr o
        have h0 := h.own_eq o
        simp only [Region.ownedBy] at this
        show ownRc s o = ownerRefs s1 o
        simp only [ownerRefs] at *
        show _ = sumMap (Region.ownedBy o) s1.regions + sumMap (Slot.ffiRefs o) s.slots
        omega
      · intro r' reg' hh
        rcases regions_set_get hh with ⟨_, e⟩ | ⟨_, e⟩
        · subst e
          exact ⟨by simp [hnr]; omega, by simpa using hok.rel_count, by simp [hnr], by simpa using hok.claim_cap⟩
        · exact h.reg_ok r' reg' e
      · intro p
        have := claimSum_set (s' := s1) rfl hr p
        have hp := h.pool_eq p
        simp only [Region.claimIn] at this
        show s.pool p = sumMap (Region.claimIn p) s1.regions
        omega
      · intro i r' l hh
        have hm := h.mut_excl i r' l hh
        rw [rcOf_set (s' := s1) rfl hr r']
        by_cases e : r' = r
        · subst e; rw [rcOf_some hr] at hm; simp at hm; omega
        · simp [e, hm]


theorem drain_spec (fuel : Nat) : ∀ (p : List Nat) (s : State), InvP s p → heldTotal s + p.length < fuel →
    Inv (drain fuel p s) ∧ (drain fuel p s).slots = s.slots := by
  induction fuel with
  | zero => intro p s _ h; omega
  | succ f ih =>
    intro p s hinv hf
    cases p with
    | nil => simp [drain]; exact hinv
    | cons r rest =>
      simp only [drain]
      obtain ⟨h1, h2, h3⟩ := decOne_spec s r rest hinv
      have := ih ((decOne r s).2 ++ rest) (decOne r s).1 h1 (by simp at hf ⊢; omega)
      exact ⟨this.1, this.2.trans h2⟩

theorem dropRegions_spec (s : State) (p : List Nat) (h : InvP s p) :
    Inv (dropRegions s p) ∧ (dropRegions s p).slots = s.slots :=
  drain_spec _ p s h (by omega)

/-! bytes are not touched by releasing -/
theorem decOwner_frame (o : Nat) (s : State) :
    (decOwner o s).1.regions = s.regions ∧ (decOwner o s).1.slots = s.slots := by
  unfold decOwner; split
  · exact ⟨rfl, rfl⟩
  · split <;> exact ⟨rfl, rfl⟩

theorem decOne_bytes (r : Nat) (s : State) (r' : Nat) : regionBytes (decOne r s).1 r' = regionBytes s r' := by
  unfold decOne
  split
  · rfl
  · rename_i reg hr
    obtain ⟨hlt, hget⟩ := List.getElem?_eq_some_iff.mp hr
    split
    · split
      · simp only [regionBytes, List.getElem?_set]
        by_cases e : r = r'
        · subst e; simp [hlt, hget]
        · simp [e]
      · simp only [regionBytes, (decOwner_frame _ _).1, List.getElem?_set]
        by_cases e : r = r'
        · subst e; simp [hlt, hget]
        · simp [e]
    · simp only [regionBytes, setRegion, List.getElem?_set]
      by_cases e : r = r'
      · subst e; simp [hlt, hget]
      · simp [e]

theorem drain_bytes (fuel : Nat) : ∀ (p : List Nat) (s : State) (r' : Nat),
    regionBytes (drain fuel p s) r' = regionBytes s r' := by
  induction fuel with
  | zero => intro p s r'; rfl
  | succ f ih =>
    intro p s r'
    cases p with
    | nil => rfl
    | cons r rest => simp only [drain]; rw [ih, decOne_bytes]

end ArrowModel.C16
