import ArrowModel.C16.StepInv
/-
C16 — property theorems.  "While anything refers to a memory region its bytes do not change
and its owner is not released; after the last reference is dropped, in any order, the owner is
released exactly once; the pool reports the total size of live claimed regions."

Every statement quantifies over **all operation histories** `ops : List Op` from the empty
state (`run (init n) ops`) — any interleaving of alloc / clone / slice / wrap / export /
import / in-place mutation / claim / drop, any drop order — and is proved by induction over
the history through the invariant `Inv` (`StepInv.lean`: `step_inv`, `run_inv`).
The model keeps `Arc`-style stored counts; the statements compare them with the naive
counting definitions of `Spec.lean` (`referenced`, `ownerRefs`, `poolExpected`).
-/
namespace ArrowModel.C16

/-- a reachable state -/
def reach (n : Nat) (ops : List Op) : State := run (init n) ops

theorem reach_inv (n : Nat) (ops : List Op) : Inv (reach n ops) := run_inv ops _ (inv_init n)

/-- **The `Arc` count of a region is the number of live handles on it** (client variables
plus handles kept by exported structs / wrapping owners), in every reachable state. -/
theorem count_is_handles (n : Nat) (ops : List Op) (r : Nat) (reg : Region)
    (h : (reach n ops).regions[r]? = some reg) : reg.rc = referenced (reach n ops) r := by
  have := (reach_inv n ops).rc_eq r
  rw [rcOf_some h] at this; simpa using this

/-- **Each region is released exactly once, and only after its last handle is dropped**:
in every reachable state a region is released iff no handle refers to it, and its release has
then run exactly once (never twice, never early), whatever the order of the drops and
however the handles were spread over clones, slices, wrappers and exported structs. -/
theorem region_released_exactly_once (n : Nat) (ops : List Op) (r : Nat) (reg : Region)
    (h : (reach n ops).regions[r]? = some reg) :
    (reg.released = true ↔ referenced (reach n ops) r = 0) ∧
    reg.relCount = (if referenced (reach n ops) r = 0 then 1 else 0) := by
  have hc := count_is_handles n ops r reg h
  have hok := (reach_inv n ops).reg_ok r reg h
  refine ⟨by rw [← hc]; exact hok.rel_iff, ?_⟩
  rw [hok.rel_count, ← hc]
  cases hx : reg.released with
  | true => have := hok.rel_iff.mp hx; simp [this]
  | false =>
    have : reg.rc ≠ 0 := fun e => by have := hok.rel_iff.mpr e; simp [hx] at this
    simp [this]

/-- **Each owner (custom allocation, wrapper, exported `FFI_ArrowArray`) is dropped exactly
once, and only after the last region / variable referring to it is gone** — including across
export → import chains, where the imported regions' owner is the exported struct, whose
release in turn drops the handles it kept. -/
theorem owner_dropped_exactly_once (n : Nat) (ops : List Op) (o : Nat) (ow : Owner)
    (h : (reach n ops).owners[o]? = some ow) :
    ow.drops = (if ownerRefs (reach n ops) o = 0 then 1 else 0) ∧ ow.drops ≤ 1 := by
  have hc := (reach_inv n ops).own_eq o
  rw [ownRc_some h] at hc
  have hok := (reach_inv n ops).own_ok o ow h
  rw [← hc, hok.drops_eq]
  constructor
  · rfl
  · split <;> omega

/-- **No use after release** (client variables): the region behind every live `Buffer` /
`MutableBuffer` exists, has a positive count and has not been released. -/
theorem no_use_after_release (n : Nat) (ops : List Op) (i r : Nat) (sl : Slot)
    (hi : (reach n ops).slots[i]? = some sl) (hr : sl.region? = some r) :
    ∃ reg, (reach n ops).regions[r]? = some reg ∧ reg.released = false ∧ 1 ≤ reg.rc := by
  obtain ⟨reg, h1, h2, h3⟩ := live_of_slot (reach_inv n ops) hi hr
  exact ⟨reg, h1, h3, h2⟩

/-- **No use after release** (exported structs and wrappers): every handle kept by an owner
points to an unreleased region — an exported array keeps its buffers alive until its release
callback has run. -/
theorem held_not_released (n : Nat) (ops : List Op) (o : Nat) (ow : Owner) (hd : Handle)
    (ho : (reach n ops).owners[o]? = some ow) (hm : hd ∈ ow.held) :
    ∃ reg, (reach n ops).regions[hd.region]? = some reg ∧ reg.released = false := by
  have hinv := reach_inv n ops
  have h1 : 1 ≤ ow.heldRefs hd.region := by
    obtain ⟨k, hk⟩ := List.getElem?_of_mem hm
    have := sumMap_ge (Handle.refs hd.region) ow.held k hd hk
    simpa [Owner.heldRefs, Handle.refs] using this
  have h2 : ow.heldRefs hd.region ≤ heldRefs (reach n ops) hd.region := sumMap_ge _ _ o ow ho
  have h0 := hinv.rc_eq hd.region
  simp only [referenced, countIn_nil] at h0
  cases hreg : (reach n ops).regions[hd.region]? with
  | none => simp [rcOf, hreg] at h0; omega
  | some reg =>
    rw [rcOf_some hreg] at h0
    refine ⟨reg, rfl, ?_⟩
    cases hx : reg.released with
    | false => rfl
    | true => have := (hinv.reg_ok _ reg hreg).rel_iff.mp hx; omega

/-- **Pool accounting**: at every quiescent point `TrackingMemoryPool::used()` equals the sum
of the capacities of the live claimed regions — no reservation is leaked by a release or a
conversion, none is counted twice by a re-claim or by clones of the same region. -/
theorem pool_is_live_claimed (n : Nat) (ops : List Op) :
    (reach n ops).pool = poolExpected (reach n ops) := by
  have hinv := reach_inv n ops
  rw [hinv.pool_eq]
  unfold poolExpected
  generalize hS : reach n ops = S at *
  have key : ∀ (l : List Region), (∀ reg ∈ l, RegionOk reg) →
      sumMap (fun reg => reg.claimed.getD 0) l = sumMap Region.claimedCap l := by
    intro l hl
    apply sumMap_congr
    intro reg hm
    have hok := hl reg hm
    unfold Region.claimedCap
    cases hx : reg.released with
    | true => simp [hok.rel_claim hx]
    | false =>
      cases hc : reg.claimed with
      | none => simp
      | some c => simp [hok.claim_cap c hc]
  apply key
  intro reg hm
  obtain ⟨k, hk⟩ := List.getElem?_of_mem hm
  exact hinv.reg_ok k reg hk

/-- **A `MutableBuffer` is the only handle on its region.** -/
theorem mutable_is_exclusive (n : Nat) (ops : List Op) (i r l : Nat)
    (hi : (reach n ops).slots[i]? = some (.mut r l)) : referenced (reach n ops) r = 1 := by
  have hinv := reach_inv n ops
  have := hinv.rc_eq r
  rw [hinv.mut_excl i r l hi] at this
  simpa using this.symm

/-! ### non-vacuity: non-trivial reachable states -/

/-- a shared standard buffer, one clone dropped, then made mutable, written, frozen, claimed;
a custom buffer wrapped twice and dropped owner-first: all checks of `specOk` hold and the
cascade released both wrappers and the user allocation exactly once -/
example :
    let s := reach 4 [.allocVec 0 16 16 1 5, .clone 0 1, .intoMutable 0, .drop 1, .intoMutable 0,
      .write 0 3 255, .freeze 0, .claim 0, .allocCustom 1 8 3, .wrap 1 2 2 4, .wrap 2 3 1 2,
      .drop 1, .drop 2, .drop 3]
    specOk s = true ∧ s.pool = 16 ∧ s.owners.map Owner.drops = [1, 1, 1] ∧
    s.regions.map Region.released = [false, true, true, true] := by decide

/-- export two buffers, drop the originals, import: the imported regions keep the struct (and
through it the original regions) alive; dropping them in any order releases everything once -/
example :
    let s := reach 5 [.allocVec 0 8 8 1 1, .allocVec 1 4 4 1 2, .exportFfi [0, 1] 2, .drop 0, .drop 1,
      .importFfi 2 [3, 4]]
    specOk s = true ∧ s.owners.map Owner.drops = [0] ∧ s.regions.map Region.released = [false, false, false, false] ∧
    (step (step s (.drop 4)).1 (.drop 3)).1.regions.map Region.relCount = [1, 1, 1, 1] ∧
    (step (step s (.drop 3)).1 (.drop 4)).1.owners.map Owner.drops = [1] := by decide

end ArrowModel.C16
