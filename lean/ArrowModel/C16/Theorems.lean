import ArrowModel.C16.StepInv
import ArrowModel.C16.Frame
/-
C16 — property theorems.  "While anything refers to a memory region its bytes do not change
and its owner is not released; after the last reference is dropped, in any order, the owner is
released exactly once; the pool reports the total size of live claimed regions."

Every statement quantifies over **all operation histories** `ops : List Op` from the empty
state (`run (init n) ops`) — any interleaving of alloc / clone / slice / wrap / export /
import / in-place mutation / claim / drop, any drop order — and is proved by induction over
the history through the invariant `Inv` (`StepInv.lean`: `step_inv`, `run_inv`).
The model keeps `Arc`-style stored counts; the statements compare them with the naive
counting definitions of `Spec.lean` (`referenced`, `ownerRefs`, `poolExpected`).
-/
namespace ArrowModel.C16

/-- a reachable state -/
def reach (n : Nat) (ops : List Op) : State := run (init n) ops

theorem reach_inv (n : Nat) (ops : List Op) : Inv (reach n ops) := run_inv ops _ (inv_init n)

/-- **The `Arc` count of a region is the number of live handles on it** (client variables
plus handles kept by exported structs / wrapping owners), in every reachable state. -/
theorem count_is_handles (n : Nat) (ops : List Op) (r : Nat) (reg : Region)
    (h : (reach n ops).regions[r]? = some reg) : reg.rc = referenced (reach n ops) r := by
  have := (reach_inv n ops).rc_eq r
  rw [rcOf_some h] at this; simpa using this

/-- **Each region is released exactly once, and only after its last handle is dropped**:
in every reachable state a region is released iff no handle refers to it, and its release has
then run exactly once (never twice, never early), whatever the order of the drops and
however the handles were spread over clones, slices, wrappers and exported structs. -/
theorem region_released_exactly_once (n : Nat) (ops : List Op) (r : Nat) (reg : Region)
    (h : (reach n ops).regions[r]? = some reg) :
    (reg.released = true ↔ referenced (reach n ops) r = 0) ∧
    reg.relCount = (if referenced (reach n ops) r = 0 then 1 else 0) := by
  have hc := count_is_handles n ops r reg h
  have hok := (reach_inv n ops).reg_ok r reg h
  refine ⟨by rw [← hc]; exact hok.rel_iff, ?_⟩
  rw [hok.rel_count, ← hc]
  cases hx : reg.released with
  | true => have := hok.rel_iff.mp hx; simp [this]
  | false =>
    have : reg.rc ≠ 0 := fun e => by have := hok.rel_iff.mpr e; simp [hx] at this
    simp [this]

/-- **Each owner (custom allocation, wrapper, exported `FFI_ArrowArray`) is dropped exactly
once, and only after the last region / variable referring to it is gone** — including across
export → import chains, where the imported regions' owner is the exported struct, whose
release in turn drops the handles it kept. -/
theorem owner_dropped_exactly_once (n : Nat) (ops : List Op) (o : Nat) (ow : Owner)
    (h : (reach n ops).owners[o]? = some ow) :
    ow.drops = (if ownerRefs (reach n ops) o = 0 then 1 else 0) ∧ ow.drops ≤ 1 := by
  have hc := (reach_inv n ops).own_eq o
  rw [ownRc_some h] at hc
  have hok := (reach_inv n ops).own_ok o ow h
  rw [← hc, hok.drops_eq]
  constructor
  · rfl
  · split <;> omega

/-- **No use after release** (client variables): the region behind every live `Buffer` /
`MutableBuffer` exists, has a positive count and has not been released. -/
theorem no_use_after_release (n : Nat) (ops : List Op) (i r : Nat) (sl : Slot)
    (hi : (reach n ops).slots[i]? = some sl) (hr : sl.region? = some r) :
    ∃ reg, (reach n ops).regions[r]? = some reg ∧ reg.released = false ∧ 1 ≤ reg.rc := by
  obtain ⟨reg, h1, h2, h3⟩ := live_of_slot (reach_inv n ops) hi hr
  exact ⟨reg, h1, h3, h2⟩

/-- **No use after release** (exported structs and wrappers): every handle kept by an owner
points to an unreleased region — an exported array keeps its buffers alive until its release
callback has run. -/
theorem held_not_released (n : Nat) (ops : List Op) (o : Nat) (ow : Owner) (hd : Handle)
    (ho : (reach n ops).owners[o]? = some ow) (hm : hd ∈ ow.held) :
    ∃ reg, (reach n ops).regions[hd.region]? = some reg ∧ reg.released = false := by
  have hinv := reach_inv n ops
  have h1 : 1 ≤ ow.heldRefs hd.region := by
    obtain ⟨k, hk⟩ := List.getElem?_of_mem hm
    have := sumMap_ge (Handle.refs hd.region) ow.held k hd hk
    simpa [Owner.heldRefs, Handle.refs] using this
  have h2 : ow.heldRefs hd.region ≤ heldRefs (reach n ops) hd.region := sumMap_ge _ _ o ow ho
  have h0 := hinv.rc_eq hd.region
  simp only [referenced, countIn_nil] at h0
  cases hreg : (reach n ops).regions[hd.region]? with
  | none => simp [rcOf, hreg] at h0; omega
  | some reg =>
    rw [rcOf_some hreg] at h0
    refine ⟨reg, rfl, ?_⟩
    cases hx : reg.released with
    | false => rfl
    | true => have := (hinv.reg_ok _ reg hreg).rel_iff.mp hx; omega

/-- **Pool accounting, per pool**: at every quiescent point, for every pool `p`,
`p.used()` equals the sum of the capacities of the live regions whose reservation is held in
`p` — no reservation is leaked by a release or a conversion, none is counted twice by a
re-claim or by clones of the same region, and re-claiming a region (through any of its handles)
into another pool moves its whole charge from the old pool to the new one. -/
theorem pool_is_live_claimed (n : Nat) (ops : List Op) (p : Nat) :
    (reach n ops).pool p = poolExpected (reach n ops) p := by
  have hinv := reach_inv n ops
  rw [hinv.pool_eq p]
  unfold poolExpected
  generalize reach n ops = S at *
  apply sumMap_congr
  intro reg hm
  obtain ⟨k, hk⟩ := List.getElem?_of_mem hm
  have hok := hinv.reg_ok k reg hk
  unfold Region.claimIn Region.claimedCap
  split
  · cases hx : reg.released with
    | true => simp [hok.rel_claim hx]
    | false =>
      cases hc : reg.claimed with
      | none => simp
      | some c => simp [hok.claim_cap c hc]
  · rfl

/-- **Re-claiming moves the charge**: claiming, through the handle in slot `i`, a live region
that is currently charged to pool `a` into a different pool `b` leaves `a` with exactly the
region's capacity less and `b` with exactly its capacity more (and every other pool
unchanged) — the step-level statement behind `pool_is_live_claimed`. -/
theorem reclaim_moves_charge (s : State) (i r a b : Nat) (reg : Region) (h : Inv s)
    (hi : (s.slots[i]?).bind Slot.region? = some r) (hr : s.regions[r]? = some reg)
    (hc : reg.claimed = some reg.cap) (ha : reg.claimPool = a) (hab : a ≠ b) :
    (step s (.claim i b)).1.pool a + reg.cap = s.pool a ∧
    (step s (.claim i b)).1.pool b = s.pool b + reg.cap ∧
    ∀ q, q ≠ a → q ≠ b → (step s (.claim i b)).1.pool q = s.pool q := by
  have hle := claimed_le_pool h hr
  rw [hc, ha] at hle
  simp only [Option.getD_some] at hle
  simp only [step, opClaim, hi, hr, poolAdjust, hc, ha, Option.getD_some]
  refine ⟨?_, ?_, ?_⟩
  · simp [hab]; omega
  · have : ¬ (b = a) := fun x => hab x.symm
    simp [this]
  · intro q hqa hqb; simp [hqa, hqb]

/-- **A `MutableBuffer` is the only handle on its region.** -/
theorem mutable_is_exclusive (n : Nat) (ops : List Op) (i r l : Nat)
    (hi : (reach n ops).slots[i]? = some (.mut r l)) : referenced (reach n ops) r = 1 := by
  have hinv := reach_inv n ops
  have := hinv.rc_eq r
  rw [hinv.mut_excl i r l hi] at this
  simpa using this.symm

/-! ### (1) immutability -/

/-- **One step never changes what a surviving `Buffer` sees**: if slot `j` holds a `Buffer`
and the operation does not consume or overwrite slot `j`, then after the operation slot `j`
holds the same `Buffer` and the bytes visible through it are the same — whatever the
operation does to other handles on the same region (`into_mutable`, `into_vec`, `unary_mut`,
mask `&=`, writes through a `MutableBuffer`, drops, export / import …). -/
theorem view_stable_step (s : State) (op : Op) (h : Inv s) (j : Nat) (hd : Handle)
    (hj : s.slots[j]? = some (.buf hd)) (hnt : j ∉ op.targets) :
    (step s op).1.slots[j]? = some (.buf hd) ∧ view (step s op).1 hd = view s hd := by
  refine ⟨by rw [step_slots s op j hnt]; exact hj, ?_⟩
  unfold view
  rw [step_bytes s op h hd.region (Or.inl ⟨j, _, hnt, hj, rfl⟩)]

/-- **Bytes seen through any live immutable handle are constant over its lifetime**: over
every history, from every reachable state, as long as no operation consumes slot `j` the
`Buffer` in it stays there and shows the same bytes. -/
theorem view_constant_over_lifetime (ops : List Op) : ∀ (s : State), Inv s → ∀ (j : Nat) (hd : Handle),
    s.slots[j]? = some (.buf hd) → (∀ op ∈ ops, j ∉ op.targets) →
    (run s ops).slots[j]? = some (.buf hd) ∧ view (run s ops) hd = view s hd := by
  induction ops with
  | nil => intro s _ j hd hj _; exact ⟨hj, rfl⟩
  | cons op ops ih =>
    intro s h j hd hj hall
    have h1 := view_stable_step s op h j hd hj (hall op (by simp))
    have h2 := ih (step s op).1 (step_inv s op h) j hd h1.1 (fun o ho => hall o (by simp [ho]))
    exact ⟨h2.1, h2.2.trans h1.2⟩

/-- **An exported struct (or wrapper) sees constant bytes too**: no operation changes the
bytes of a region while some owner keeps a handle on it. -/
theorem held_bytes_stable_step (s : State) (op : Op) (h : Inv s) (r : Nat) (hh : 1 ≤ heldRefs s r) :
    regionBytes (step s op).1 r = regionBytes s r :=
  step_bytes s op h r (Or.inr hh)

/-- **A region is mutated only while exactly one handle refers to it** (contrapositive of the
frame): if an operation changes the bytes of an existing region then nothing outside the
operation's own target slots refers to that region and no owner holds it. -/
theorem mutated_only_if_unique (s : State) (op : Op) (h : Inv s) (r : Nat)
    (hne : regionBytes (step s op).1 r ≠ regionBytes s r) :
    heldRefs s r = 0 ∧ ∀ (j : Nat) (sl : Slot), s.slots[j]? = some sl → sl.region? = some r → j ∈ op.targets := by
  constructor
  · cases hh : heldRefs s r with
    | zero => rfl
    | succ k => exact absurd (step_bytes s op h r (Or.inr (by omega))) hne
  · intro j sl hj hr
    by_cases e : j ∈ op.targets
    · exact e
    · exact absurd (step_bytes s op h r (Or.inl ⟨j, sl, e, hj, hr⟩)) hne

/-- non-vacuity: slot 1 shares slot 0's region; `into_mutable` on slot 0 declines, so a later
"write" is inapplicable and slot 1's view is what it was; after slot 1 is dropped the same
conversion succeeds and the write goes through -/
example :
    let s := reach 3 [.allocVec 0 8 8 1 1, .clone 0 1]
    let s' := run s [.intoMutable 0, .write 0 0 99, .unaryMut 0 1]
    (s.slots[1]? = some (.buf ⟨0, 0, 8⟩)) ∧ view s' ⟨0, 0, 8⟩ = view s ⟨0, 0, 8⟩ ∧
    view (run s [.drop 1, .intoMutable 0, .write 0 0 99, .freeze 0]) ⟨0, 0, 8⟩ ≠ view s ⟨0, 0, 8⟩ := by decide

/-- **The source still has the shape the model mirrors.**  The guard conditions and statement
orders that `Model.lean` hard-codes (offset / uniqueness / deallocation guards of `into_mutable`
and `into_vec`, custom owners rejected before the reservation is taken, `claim` replacing the
reservation, the reservation moving through `freeze`, the in-place-or-copy split of the mask
operators, `into_builder` dropping the array first, the one-shot FFI release and the owner clone
per imported buffer, the three branches of `align_nulls`) and the capacity constants are re-extracted from /repo on every run
(tools/items/C16.py); an edit to any of them makes its item LOST and this obligation fail. -/
theorem source_shape_intact :
    Generated.C16.WITH_CAPACITY_ROUND_lost = false ∧
    Generated.C16.RESERVE_ROUND_lost = false ∧
    Generated.C16.RESERVE_GROWTH_lost = false ∧
    Generated.C16.SHRINK_ROUND_lost = false ∧
    Generated.C16.ALIGNMENT_X86_64_lost = false ∧
    Generated.C16.SHAPE_INTO_MUTABLE_lost = false ∧
    Generated.C16.SHAPE_INTO_MUTABLE_FROM_BYTES_lost = false ∧
    Generated.C16.SHAPE_FROM_BYTES_lost = false ∧
    Generated.C16.SHAPE_INTO_VEC_CUSTOM_lost = false ∧
    Generated.C16.SHAPE_INTO_VEC_LAYOUT_lost = false ∧
    Generated.C16.SHAPE_INTO_VEC_RESERVATION_lost = false ∧
    Generated.C16.SHAPE_BYTES_CLAIM_lost = false ∧
    Generated.C16.SHAPE_MUTABLE_CLAIM_lost = false ∧
    Generated.C16.SHAPE_INTO_BUFFER_lost = false ∧
    Generated.C16.SHAPE_TRACKER_DROP_lost = false ∧
    Generated.C16.SHAPE_BIT_ASSIGN_lost = false ∧
    Generated.C16.SHAPE_BIT_ASSIGN_COPY_lost = false ∧
    Generated.C16.SHAPE_INTO_BUILDER_lost = false ∧
    Generated.C16.SHAPE_INTO_BUILDER_VALUES_lost = false ∧
    Generated.C16.SHAPE_FFI_DROP_lost = false ∧
    Generated.C16.SHAPE_FFI_RELEASE_lost = false ∧
    Generated.C16.SHAPE_FFI_RELEASE_ONCE_lost = false ∧
    Generated.C16.SHAPE_FFI_EXPORT_CLONES_lost = false ∧
    Generated.C16.SHAPE_FFI_IMPORT_OWNER_lost = false ∧
    Generated.C16.SHAPE_FFI_IMPORT_CLONE_lost = false ∧
    Generated.C16.SHAPE_ALIGN_NULLS_SAME_lost = false ∧
    Generated.C16.SHAPE_ALIGN_NULLS_COPY_lost = false ∧
    Generated.C16.SHAPE_ALIGN_NULLS_CALL_lost = false := by decide

/-! ### (5) validity across the C Data Interface -/

/-- **The exported validity bitmap lines up with the exported array offset**: for every data
offset, validity offset and length (the validity range lying inside its buffer), bit
`data_offset + i` of the bitmap `FFI_ArrowArray::new` exports is the validity of element `i` —
so the consumer, which reads the bitmap at the array's `offset`, sees the exported null
positions (and hence the exported null count). -/
theorem align_nulls_exact (dataOff : Nat) (vb : List Bool) (nullsOff len i : Nat)
    (hin : nullsOff + len ≤ vb.length) (hi : i < len) :
    (alignNullsBits dataOff vb nullsOff len)[dataOff + i]? = vb[nullsOff + i]? := by
  unfold alignNullsBits
  split
  · subst_vars; rfl
  · split
    · subst_vars
      simp [List.getElem?_take, hi, List.getElem?_drop]
    · rw [List.getElem?_append_right (by simp)]
      simp [List.getElem?_take, hi, List.getElem?_drop]

/-- non-vacuity: data offset 8, validity offset 16 (the shape a sliced kernel result has) -/
example : (alignNullsBits 8 ((List.range 40).map (fun k => k % 5 != 0)) 16 9)[8 + 4]? = some (20 % 5 != 0) := by decide

/-! ### non-vacuity: non-trivial reachable states -/

/-- a shared standard buffer, one clone dropped, then made mutable, written, frozen, claimed;
a custom buffer wrapped twice and dropped owner-first: all checks of `specOk` hold and the
cascade released both wrappers and the user allocation exactly once -/
example :
    let s := reach 4 [.allocVec 0 16 16 1 5, .clone 0 1, .intoMutable 0, .drop 1, .intoMutable 0,
      .write 0 3 255, .freeze 0, .claim 0 0, .allocCustom 1 8 3, .wrap 1 2 2 4, .wrap 2 3 1 2,
      .drop 1, .drop 2, .drop 3]
    specOk s = true ∧ s.pool 0 = 16 ∧ s.owners.map Owner.drops = [1, 1, 1] ∧
    s.regions.map Region.released = [false, true, true, true] := by decide

/-- claim through one handle into pool 0, re-claim through a slice of the same region into
pool 2, claim a second region into pool 2 as well, drop the first region's handles -/
example :
    let s := reach 4 [.allocVec 0 16 24 1 5, .slice 0 1 4 8, .claim 0 0, .claim 1 2, .allocMut 2 3 100 1, .claim 2 2]
    specOk s = true ∧ (s.pool 0, s.pool 1, s.pool 2) = (0, 0, 24 + 128) ∧
    ((run s [.drop 0, .drop 1]).pool 2 = 128) := by decide

/-- export two buffers, drop the originals, import: the imported regions keep the struct (and
through it the original regions) alive; dropping them in any order releases everything once -/
example :
    let s := reach 5 [.allocVec 0 8 8 1 1, .allocVec 1 8 8 1 2, .exportFfi [0, 1] 2, .drop 0, .drop 1,
      .importFfi 2 [3, 4]]
    specOk s = true ∧ s.owners.map Owner.drops = [0] ∧ s.regions.map Region.released = [false, false, false, false] ∧
    (step (step s (.drop 4)).1 (.drop 3)).1.regions.map Region.relCount = [1, 1, 1, 1] ∧
    (step (step s (.drop 3)).1 (.drop 4)).1.owners.map Owner.drops = [1] := by decide

end ArrowModel.C16
