import ArrowModel.Common.Proto
import ArrowModel.C16.Spec
import ArrowModel.C16.Model
/-
C16 driver.  A case is one operation history:

  C16 hist  <nslots> <op>;<op>;…      (buffer level, harness h-buffer/c16)
  C16 ahist <nslots> <op>;<op>;…      (array / C-Data-Interface level, harness h-core/c16a)
  C16 mt <threads> <iters> <len>      (thorough tier search aid, harness h-buffer/c16)

Each op is `name:arg:arg…`.  The answer has one group per step,
`<outcome>/<used() of pool 0.1.2>/<owners dropped in this step>/<slots whose visible content changed>`,
and ends with the drop count of every owner.  After every step the specification check
`specOk` (released ⇔ unreferenced, exactly once; every pool = Σ capacity of the live regions claimed in it)
is evaluated on the model state; a failure is reported as `MODEL-SPEC-MISMATCH`.
-/
namespace ArrowModel.C16
open ArrowModel.Proto
open ArrowModel.Generated.C16

def parseOp (s : String) : Option Op :=
  let f := s.splitOn ":"
  let ns := f.drop 1 |>.map String.toNat?
  match f.head?, ns with
  | some "av", [some d, some len, some cap, some t, some seed] => some (.allocVec d len cap t seed)
  -- `Buffer::from_slice_ref` / `From<&[u8]>`: MutableBuffer::with_capacity(len) + extend, frozen
  | some "as", [some d, some len, some seed] =>
    some (.allocGen d len (roundUp len WITH_CAPACITY_ROUND) ALIGNMENT_X86_64 seed false false)
  -- `MutableBuffer::from_len_zeroed(len)`: capacity exactly `len`
  | some "az", [some d, some len] => some (.allocGen d len len ALIGNMENT_X86_64 0 true true)
  | some "rs", [some i, some n, some val] => some (.resize i n val)
  | some "mc", [some i] => some (.truncate i 0)
  | some "sf", [some i] => some (.shrinkBuf i)
  | some "ms", [some i] => some (.shrinkMut i)
  | some "bm", [some i, some j] => some (.binaryMut i j)
  | some "u2", [some v, some n, some delta] => some (.unaryMut2 v n delta)
  -- trailing `how` fields select which public entry point the harness calls; same effect
  | some "sl", [some i, some d, some off, some len, some _] => some (.slice i d off len)
  | some "wp", [some i, some d, some off, some len, some _] => some (.wrap i d off len)
  | some "um", [some i, some delta, some _] => some (.unaryMut i delta)
  | some "im", [some i, some _] => some (.intoMutable i)
  | some "am", [some d, some len, some cap, some seed] => some (.allocMut d len cap seed)
  | some "ac", [some d, some len, some seed] => some (.allocCustom d len seed)
  | some "cl", [some i, some d] => some (.clone i d)
  | some "sl", [some i, some d, some off, some len] => some (.slice i d off len)
  | some "dr", [some i] => some (.drop i)
  | some "im", [some i] => some (.intoMutable i)
  | some "iv", [some i, some t] => some (.intoVec i t)
  | some "fz", [some i] => some (.freeze i)
  | some "wr", [some i, some pos, some val] => some (.write i pos val)
  | some "ex", [some i, some n, some val] => some (.extend i n val)
  | some "tr", [some i, some len] => some (.truncate i len)
  -- `cm:<slot>` (pool 0), `cm:<slot>:<pool>`, `cm:<slot>:<pool>:<how>` (`how` = which API of the
  -- handle the harness calls: Buffer / BooleanBuffer / Array `claim`; same region-level effect)
  | some "cm", [some i] => some (.claim i 0)
  | some "cm", [some i, some p] => some (.claim i p)
  | some "cm", [some i, some p, some _] => some (.claim i p)
  | some "wp", [some i, some d, some off, some len] => some (.wrap i d off len)
  | some "um", [some i, some delta] => some (.unaryMut i delta)
  | some "ba", _ =>
    match f with
    | _ :: i :: j :: op :: boff :: blen :: _ =>
      let bop : Option BitOp := match op with | "a" => some .and | "o" => some .or | "x" => some .xor | _ => none
      match i.toNat?, j.toNat?, bop, boff.toNat?, blen.toNat? with
      | some i, some j, some bop, some boff, some blen => some (.bitAssign i j bop boff blen)
      | _, _, _, _, _ => none
    | _ => none
  | some "rt", _ =>
    match f with
    | _ :: srcs :: _ =>
      match (srcs.splitOn "+").mapM String.toNat? with
      | some srcs => some (.roundTrip srcs)
      | none => none
    | _ => none
  | some "xf", _ =>
    match f with
    | _ :: srcs :: d :: _ =>
      match (srcs.splitOn "+").mapM String.toNat?, d.toNat? with
      | some srcs, some d => some (.exportFfi srcs d)
      | _, _ => none
    | _ => none
  | some "if", _ =>
    match f with
    | _ :: i :: dsts :: _ =>
      match i.toNat?, (if dsts = "-" then some [] else (dsts.splitOn "+").mapM String.toNat?) with
      | some i, some dsts => some (.importFfi i dsts)
      | _, _ => none
    | _ => none
  | _, _ => none

def digest (bs : List Nat) : Nat := bs.foldl (fun acc b => (acc * 31 + b + 1) % 1000003) 7

def regionOf (s : State) (r : Nat) : Region :=
  (s.regions[r]?).getD (mkRegion [] 0 (.standard 0))

/-- what is visible of a slot: kind, length, content digest, and for a `Buffer` its
`strong_count()`, `ptr_offset()` and `capacity()` (for a `MutableBuffer` its `capacity()`) -/
def showSlot (s : State) : Slot → String
  | .empty => "e"
  | .buf h => s!"b{h.len}.{digest (view s h)}.c{(regionOf s h.region).rc}.o{h.off}.k{(regionOf s h.region).cap}"
  | .mut r l => s!"m{l}.{digest ((regionBytes s r).take l)}.k{(regionOf s r).cap}"
  | .ffi _ => "x"

def showOut : Out → String
  | .ok => "ok"
  | .declined => "no"
  | .panic => "panic"
  | .bad => "bad"

def slotViews (s : State) : List String := s.slots.map (showSlot s)

def changed (a b : List String) : List String :=
  ((List.range b.length).filter (fun i => a[i]? != b[i]?)).map (fun i => s!"{i}={b.getD i ""}")

def dropsOf (s : State) : List Nat := s.owners.map Owner.drops

def newlyDropped (a b : State) : List Nat :=
  (List.range b.owners.length).filter (fun o =>
    ((a.owners[o]?).map Owner.drops).getD 0 != ((b.owners[o]?).map Owner.drops).getD 0)

def runHist (s : State) (ops : List Op) : List String × State × Option Nat :=
  let rec go (s : State) (k : Nat) (acc : List String) (bad : Option Nat) : List Op → List String × State × Option Nat
    | [] => (acc.reverse, s, bad)
    | op :: rest =>
      let (s', out) := step s op
      let line := s!"{showOut out}/{".".intercalate ((List.range numPools).map (fun p => toString (s'.pool p)))}/{showList toString (newlyDropped s s')}/{showList id (changed (slotViews s) (slotViews s'))}"
      go s' (k + 1) (line :: acc) (if bad.isNone && !specOk s' then some k else bad) rest
  go s 0 [] none ops

def handleHist (n ops : String) : String :=
  match n.toNat?, (if ops = "-" then some [] else (ops.splitOn ";").mapM parseOp) with
  | some n, some ops =>
    let (lines, s, bad) := runHist (init n) ops
    let ans := " ".intercalate (lines ++ [s!"D={showList toString (dropsOf s)}"])
    match bad with
    | some k => s!"MODEL-SPEC-MISMATCH model={ans} spec=specOk fails after step {k}"
    | none => ans
  | _, _ => "bad-op"

/-- the multi-threaded search aid (`C16 mt <threads> <iters> <len>`): under the assumption that
`Arc` operations are linearizable every schedule is some sequential history of the same
clone / failed-`into_mutable` / drop steps; the model is run on one such history (iterations
capped, the shape repeats) and must end with exactly one drop of the owner. -/
def handleMt (th it len : Nat) : String :=
  let body : List Op := [.clone 0 1, .clone 1 2, .intoMutable 2, .drop 2, .drop 1]
  let ops : List Op := [.allocCustom 0 len 3] ++ (List.replicate (th * min it 20) body).flatten ++ [.drop 0]
  let s := run (init 3) ops
  if specOk s then s!"D={showList toString (dropsOf s)}" else "MODEL-SPEC-MISMATCH model=mt spec=specOk fails"

/-- bits of a byte string, LSB first -/
def bitsOfBytes (bs : List Nat) : List Bool :=
  (bs.map (fun b => (List.range 8).map (fun k => b.testBit k))).flatten

/-- `C16 ffin <kind> <dataOff> <nullsOff> <len> <how> <validity buffer hex>`: an array with
`ArrayData::offset = dataOff` whose `NullBuffer` is bits `[nullsOff, nullsOff+len)` of the given
buffer is exported and imported again.  Answer: exported `offset`, exported `null_count`, bits
`[offset, offset+len)` of the exported bitmap (`-` when no bitmap is exported because nothing is
null, `?` for the stream interface where the struct is not accessible), imported validity,
imported null count (recounted from the imported bitmap). -/
def handleFfin (dataOff nullsOff len how : Nat) (hex : String) : String :=
  match parseHex hex with
  | some bytes =>
    let vb := bitsOfBytes bytes
    if nullsOff + len > vb.length then "bad-op" else
    let valid := (vb.drop nullsOff).take len
    let nulls := (valid.filter (fun b => !b)).length
    let exported := alignNullsBits dataOff vb nullsOff len
    let seen := (List.range len).map (fun i => (exported[dataOff + i]?).getD false)
    if seen != valid then s!"MODEL-SPEC-MISMATCH model={showBits seen} spec={showBits valid}" else
    let e := if how = 2 then "?" else if nulls = 0 then "-" else showBits seen
    s!"o{dataOff} n{nulls} e{e} i{showBits seen} c{nulls}"
  | none => "bad-op"

def handle (toks : List String) : String :=
  match toks with
  | ["hist", n, ops] => handleHist n ops
  | ["ahist", n, ops] => handleHist n ops
  | ["ffin", kind, d, n, len, how, hex] =>
    match kind.toNat?, d.toNat?, n.toNat?, len.toNat?, how.toNat? with
    | some kind, some d, some n, some len, some how =>
      -- kinds ≥ 2 are typed arrays (data offset 0 only); the hand-built ArrayData (kind 1) cannot
      -- travel as a record batch column without being re-based
      if (kind ≥ 2 ∧ d ≠ 0) ∨ (kind = 1 ∧ how = 2) ∨ kind > 7 then "bad-op" else handleFfin d n len how hex
    | _, _, _, _, _ => "bad-op"
  | ["mt", th, it, len] =>
    match th.toNat?, it.toNat?, len.toNat? with
    | some th, some it, some len => handleMt th it len
    | _, _, _ => "bad-op"
  | _ => "bad-op"

end ArrowModel.C16
