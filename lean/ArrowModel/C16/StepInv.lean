import ArrowModel.C16.Invariant
namespace ArrowModel.C16

theorem claimed_le_pool {s : State} {p : List Nat} (h : InvP s p) {r : Nat} {reg : Region}
    (hr : s.regions[r]? = some reg) : reg.claimed.getD 0 ≤ s.pool reg.claimPool := by
  rw [h.pool_eq]
  have := sumMap_ge (Region.claimIn reg.claimPool) s.regions r reg hr
  simpa [Region.claimIn] using this

/-- only the bytes of a region change -/
theorem inv_setBytes {s : State} {p : List Nat} (h : InvP s p) {r : Nat} {reg : Region}
    (hr : s.regions[r]? = some reg) (bs : List Nat) : InvP (setRegion s r { reg with bytes := bs }) p :=
  inv_updRegion (reg' := { reg with bytes := bs }) h hr rfl rfl rfl (fun _ => rfl) rfl rfl rfl rfl
    (h.reg_ok r reg hr).rel_claim (h.reg_ok r reg hr).claim_cap

theorem inv_opAllocVec (s : State) (d len cap t seed : Nat) (h : Inv s) : Inv (opAllocVec s d len cap t seed).1 := by
  unfold opAllocVec; split
  · exact inv_allocStd _ _ _ _ _ _ h
  · exact h

theorem inv_opAllocMut (s : State) (d len cap seed : Nat) (h : Inv s) : Inv (opAllocMut s d len cap seed).1 := by
  unfold opAllocMut; split
  · exact inv_allocStd _ _ _ _ _ _ h
  · exact h

theorem inv_opClone (s : State) (i d : Nat) (h : Inv s) : Inv (opClone s i d).1 := by
  unfold opClone; split
  · rename_i hd hi; exact inv_addHandle _ _ _ h hi rfl
  · exact h

theorem inv_opSlice (s : State) (i d off len : Nat) (h : Inv s) : Inv (opSlice s i d off len).1 := by
  unfold opSlice; split
  · rename_i hd hi he
    split
    · exact inv_addHandle _ _ _ h hi rfl
    · exact h
  · exact h

theorem inv_opDrop (s : State) (i : Nat) (h : Inv s) : Inv (opDrop s i).1 := by
  unfold opDrop; split
  · exact h
  · exact inv_dropSlot _ _ h
  · exact h

theorem canMutate_rc {reg : Region} {hd : Handle} (h : canMutate reg hd = true) : reg.rc = 1 := by
  simp [canMutate] at h; exact h.1.2

theorem inv_opIntoMutable (s : State) (i : Nat) (h : Inv s) : Inv (opIntoMutable s i).1 := by
  unfold opIntoMutable; split
  · rename_i hd hi
    split
    · rename_i reg hr
      split
      · rename_i hc
        have h1 := inv_setBytes h hr (reg.bytes.take hd.len)
        refine inv_retag (s := setRegion s hd.region { reg with bytes := reg.bytes.take hd.len }) h1 hi rfl rfl rfl rfl rfl (fun _ => rfl) ?_
        intro r l e; cases e
        rw [rcOf_set (s := s) (reg' := { reg with bytes := reg.bytes.take hd.len }) rfl hr]
        simp [canMutate_rc hc]
      · exact h
    · exact h
  · exact h

theorem inv_opIntoVec (s : State) (i t : Nat) (h : Inv s) : Inv (opIntoVec s i t).1 := by
  unfold opIntoVec; split
  · split
    · split
      · exact inv_allocStd _ _ _ _ _ _ (inv_dropSlot _ _ h)
      · exact h
    · exact h
  · exact h

theorem inv_opFreeze (s : State) (i : Nat) (h : Inv s) : Inv (opFreeze s i).1 := by
  unfold opFreeze; split
  · rename_i r l hi
    exact inv_retag h hi rfl rfl rfl rfl rfl (fun _ => rfl) (by intro r l e; cases e)
  · exact h

theorem inv_opWrite (s : State) (i pos val : Nat) (h : Inv s) : Inv (opWrite s i pos val).1 := by
  unfold opWrite; split
  · split
    · rename_i reg hr
      split
      · exact inv_setBytes h hr _
      · exact h
    · exact h
  · exact h

theorem inv_opTruncate (s : State) (i len : Nat) (h : Inv s) : Inv (opTruncate s i len).1 := by
  unfold opTruncate; split
  · rename_i r l hi
    split
    · rename_i reg hr
      split
      · exact h
      · have h1 := inv_setBytes h hr (reg.bytes.take len)
        refine inv_retag (s := setRegion s r { reg with bytes := reg.bytes.take len }) h1 hi rfl rfl rfl rfl rfl (fun _ => rfl) ?_
        intro r' l' e; cases e
        rw [rcOf_set (s := s) (reg' := { reg with bytes := reg.bytes.take len }) rfl hr]
        simp
        have := h.mut_excl i r l hi
        rwa [rcOf_some hr] at this
    · exact h
  · exact h

theorem inv_opExtend (s : State) (i n val : Nat) (h : Inv s) : Inv (opExtend s i n val).1 := by
  unfold opExtend; split
  · rename_i r l hi
    split
    · rename_i reg hr
      simp only
      obtain ⟨reg0, hr0, hpos, hnrel⟩ := live_of_slot h hi (r := r) rfl
      rw [hr] at hr0; cases hr0
      have hle := claimed_le_pool h hr
      let reg' : Region := { reg with bytes := reg.bytes ++ List.replicate n (val % 256), cap := grownCap reg.cap (l + n), claimed := reg.claimed.map (fun _ => grownCap reg.cap (l + n)) }
      let s1 : State := { setRegion s r reg' with pool := poolAdjust s.pool reg.claimPool (reg.claimed.getD 0) ((reg.claimed.map (fun _ => grownCap reg.cap (l + n))).getD 0) }
      have h1 : Inv s1 := by
        refine inv_updRegion (reg' := reg') h hr rfl rfl rfl ?_ rfl rfl rfl rfl ?_ ?_
        · intro q
          show poolAdjust s.pool reg.claimPool (reg.claimed.getD 0) ((reg.claimed.map (fun _ => grownCap reg.cap (l + n))).getD 0) q + reg.claimIn q = s.pool q + reg'.claimIn q
          unfold poolAdjust Region.claimIn
          by_cases e : q = reg.claimPool
          · subst e; simp [reg']; omega
          · have e2 : ¬ (reg.claimPool = q) := fun x => e x.symm
            simp [e, e2, reg']
        · intro hx; simp [reg', hnrel] at hx
        · intro c hc
          show c = grownCap reg.cap (l + n)
          have hc' : reg.claimed.map (fun _ => grownCap reg.cap (l + n)) = some c := hc
          cases hcl : reg.claimed with
          | none => simp [hcl] at hc'
          | some x => simp [hcl] at hc'; exact hc'.symm
      refine inv_retag (s := s1) h1 hi rfl rfl rfl rfl rfl (fun _ => rfl) ?_
      intro r' l' e; cases e
      rw [rcOf_set (s := s) (s' := s1) (reg' := reg') rfl hr]
      simp [reg']
      have := h.mut_excl i r l hi
      rwa [rcOf_some hr] at this
    · exact h
  · exact h

theorem inv_opClaim (s : State) (i p : Nat) (h : Inv s) : Inv (opClaim s i p).1 := by
  unfold opClaim; split
  · rename_i r hb
    split
    · rename_i reg hr
      cases hi : s.slots[i]? with
      | none => simp [hi] at hb
      | some sl =>
        simp [hi] at hb
        obtain ⟨reg0, hr0, hpos, hnrel⟩ := live_of_slot h hi hb
        rw [hr] at hr0; cases hr0
        have hle := claimed_le_pool h hr
        refine inv_updRegion (reg' := { reg with claimed := some reg.cap, claimPool := p }) h hr rfl rfl rfl ?_ rfl rfl rfl rfl ?_ ?_
        · intro q
          show poolAdjust (poolAdjust s.pool reg.claimPool (reg.claimed.getD 0) 0) p 0 reg.cap q + reg.claimIn q = s.pool q + _
          unfold poolAdjust Region.claimIn
          by_cases e : q = reg.claimPool <;> by_cases e3 : q = p
          · subst e; subst e3; simp; omega
          · subst e; have : ¬ (p = reg.claimPool) := fun x => e3 x.symm
            simp [e3, this]; omega
          · subst e3; have : ¬ (reg.claimPool = q) := fun x => e x.symm
            simp [e, this]
          · have e2 : ¬ (reg.claimPool = q) := fun x => e x.symm
            have e4 : ¬ (p = q) := fun x => e3 x.symm
            simp [e, e2, e3, e4]
        · intro hx; simp [hnrel] at hx
        · intro c hc; simp at hc; exact hc.symm
    · exact h
  · exact h

theorem inv_opUnaryMut (s : State) (i delta : Nat) (h : Inv s) : Inv (opUnaryMut s i delta).1 := by
  unfold opUnaryMut; split
  · split
    · rename_i reg hr
      split
      · exact inv_allocStd _ _ _ _ _ _ (inv_dropSlot _ _ h)
      · exact h
    · exact h
  · exact h

theorem inv_opBitAssign (s : State) (i j : Nat) (op : BitOp) (boff blen : Nat) (h : Inv s) :
    Inv (opBitAssign s i j op boff blen).1 := by
  unfold opBitAssign; split
  · split
    · rename_i reg hr
      split
      · split
        · exact inv_setBytes h hr _
        · exact inv_allocStd _ _ _ _ _ _ (inv_dropSlot _ _ h)
      · exact h
    · exact h
  · exact h

theorem allocCustomFresh_ok {s s1 : State} {d : Nat} {bytes : List Nat}
    (h : allocCustomFresh s d bytes = (s1, Out.ok)) :
    s.slots[d]? = some .empty ∧
    s1 = setSlot (pushRegion (pushOwner s { rc := 1, drops := 0, held := [] })
      (mkRegion bytes bytes.length (.custom s.owners.length))) d (.buf ⟨s.regions.length, 0, bytes.length⟩) := by
  unfold allocCustomFresh at h
  split at h
  · rename_i hd; simp at h; exact ⟨hd, h.symm⟩
  · simp at h

theorem inv_opWrap (s : State) (i d off len : Nat) (h : Inv s) : Inv (opWrap s i d off len).1 := by
  unfold opWrap; split
  · rename_i hd hi
    split
    · split
      · rename_i s1 heq
        obtain ⟨hde, hs1⟩ := allocCustomFresh_ok heq
        have hinv1 : Inv s1 := by have := inv_allocCustomFresh s d (((view s hd).drop off).take len) h; rw [heq] at this; exact this
        have hne : d ≠ i := by intro e; subst e; rw [hi] at hde; cases hde
        have hsrc : s1.slots[i]? = some (.buf hd) := by
          rw [hs1]; simp only [setSlot, pushRegion, pushOwner, List.getElem?_set]; simp [hne, hi]
        have hlive : 1 ≤ ownRc s1 s.owners.length := by
          rw [hs1]
          rw [ownRc_push (s := s) (ow := { rc := 1, drops := 0, held := [] }) rfl]
          simp
        exact inv_holdOne s1 _ hd hinv1 hsrc rfl hlive
      · exact h
    · exact h
  · exact h

theorem holdOne_slots (s : State) (o : Nat) (hd : Handle) : (holdOne s o hd).slots = s.slots := by
  unfold holdOne; split <;> rfl

theorem holdOne_ownRc (s : State) (o : Nat) (hd : Handle) (o' : Nat) : ownRc (holdOne s o hd) o' = ownRc s o' := by
  unfold holdOne; split
  · rename_i reg ow hr ho
    rw [ownRc_set (s := setRegion s hd.region { reg with rc := reg.rc + 1 }) (ow' := { ow with held := ow.held ++ [hd] }) rfl ho]
    split
    · subst_vars; exact (ownRc_some ho).symm
    · rfl
  · rfl

theorem inv_holdAll (o : Nat) : ∀ (hs : List Handle) (s : State), Inv s → 1 ≤ ownRc s o →
    (∀ hd ∈ hs, ∃ i : Nat, s.slots[i]? = some (.buf hd)) → Inv (holdAll s o hs) := by
  intro hs
  induction hs with
  | nil => intro s h _ _; exact h
  | cons hd rest ih =>
    intro s h hl hsrc
    simp only [holdAll]
    obtain ⟨i, hi⟩ := hsrc hd (by simp)
    refine ih _ (inv_holdOne s o hd h hi rfl hl) (by rw [holdOne_ownRc]; exact hl) ?_
    intro hd' hm
    obtain ⟨k, hk⟩ := hsrc hd' (by simp [hm])
    exact ⟨k, by rw [holdOne_slots]; exact hk⟩

theorem handlesOf_mem (s : State) : ∀ (srcs : List Nat) (hs : List Handle), handlesOf s srcs = some hs →
    ∀ hd ∈ hs, ∃ i : Nat, s.slots[i]? = some (.buf hd) := by
  intro srcs
  induction srcs with
  | nil => intro hs h hd hm; simp [handlesOf] at h; subst h; simp at hm
  | cons i rest ih =>
    intro hs h hd hm
    simp only [handlesOf] at h
    split at h
    · rename_i h0 hs0 hi hrest
      simp at h; subst h
      simp at hm
      rcases hm with e | e
      · subst e; exact ⟨i, hi⟩
      · exact ih hs0 hrest hd e
    · simp at h

theorem inv_opExportFfi (s : State) (srcs : List Nat) (d : Nat) (h : Inv s) : Inv (opExportFfi s srcs d).1 := by
  unfold opExportFfi; split
  · rename_i hs hh hd
    split
    case isFalse => exact h
    simp only
    refine inv_holdAll _ hs _ (inv_exportFresh s d h hd) ?_ ?_
    · show 1 ≤ ownRc (pushOwner s { rc := 1, drops := 0, held := [] }) s.owners.length
      rw [ownRc_push (s := s) (ow := { rc := 1, drops := 0, held := [] }) rfl]; simp
    · intro hd' hm
      obtain ⟨k, hk⟩ := handlesOf_mem s srcs hs hh hd' hm
      refine ⟨k, ?_⟩
      have hne : d ≠ k := by intro e; subst e; rw [hk] at hd; cases hd
      simp only [setSlot, pushOwner, List.getElem?_set]; simp [hne, hk]
  · exact h

theorem allocStd_slot_other (s : State) (d : Nat) (bytes : List Nat) (cap align : Nat) (asMut : Bool) (i : Nat)
    (sl : Slot) (hi : s.slots[i]? = some sl) (hne : sl ≠ .empty) :
    (allocStd s d bytes cap align asMut).1.slots[i]? = some sl := by
  unfold allocStd; split
  · rename_i hd
    have : d ≠ i := by intro e; subst e; rw [hi] at hd; cases hd; exact hne rfl
    simp only [setSlot, pushRegion, List.getElem?_set]; simp [this, hi]
  · exact hi

theorem allocCustomShared_slot_other (s : State) (d : Nat) (bytes : List Nat) (o : Nat) (i : Nat)
    (sl : Slot) (hi : s.slots[i]? = some sl) (hne : sl ≠ .empty) :
    (allocCustomShared s d bytes o).1.slots[i]? = some sl := by
  unfold allocCustomShared; split
  · rename_i hd _
    have : d ≠ i := by intro e; subst e; rw [hi] at hd; cases hd; exact hne rfl
    simp only [setSlot, pushRegion, setOwner, List.getElem?_set]; simp [this, hi]
  · exact hi

theorem inv_importAll (o i : Nat) : ∀ (hs : List Handle) (ds : List Nat) (s : State), Inv s →
    s.slots[i]? = some (.ffi o) → Inv (importAll s o hs ds) ∧ (importAll s o hs ds).slots[i]? = some (.ffi o) := by
  intro hs
  induction hs with
  | nil => intro ds s h hi; simp [importAll]; exact ⟨h, hi⟩
  | cons hd rest ih =>
    intro ds s h hi
    cases ds with
    | nil => simp [importAll]; exact ⟨h, hi⟩
    | cons d ds =>
      simp only [importAll]
      split
      · exact ih ds _ (inv_allocStd _ _ _ _ _ _ h) (allocStd_slot_other _ _ _ _ _ _ _ _ hi (by simp))
      · exact ih ds _ (inv_allocCustomShared _ _ _ _ h (ffi_slot_rc h hi)) (allocCustomShared_slot_other _ _ _ _ _ _ hi (by simp))

theorem inv_opImportFfi (s : State) (i : Nat) (dsts : List Nat) (h : Inv s) : Inv (opImportFfi s i dsts).1 := by
  unfold opImportFfi; split
  · rename_i o hi
    split
    · split
      · exact inv_dropSlot _ _ (inv_importAll o i _ _ s h hi).1
      · exact h
    · exact h
  · exact h

/-- new bytes / capacity for the live region behind slot `i`; the reservation follows -/
theorem inv_recap {s : State} (h : Inv s) {i r : Nat} {sl : Slot} {reg : Region} (hi : s.slots[i]? = some sl)
    (hsr : sl.region? = some r) (hr : s.regions[r]? = some reg) (bytes : List Nat) (cap' : Nat) :
    Inv (recap s r reg bytes cap') := by
  obtain ⟨reg0, hr0, hpos, hnrel⟩ := live_of_slot h hi hsr
  rw [hr] at hr0; cases hr0
  have hle := claimed_le_pool h hr
  refine inv_updRegion (reg' := { reg with bytes := bytes, cap := cap', claimed := reg.claimed.map (fun _ => cap') }) h hr rfl rfl rfl ?_ rfl rfl rfl rfl ?_ ?_
  · intro q
    show poolAdjust s.pool reg.claimPool (reg.claimed.getD 0) ((reg.claimed.map (fun _ => cap')).getD 0) q + reg.claimIn q = s.pool q + _
    unfold poolAdjust Region.claimIn
    by_cases e : q = reg.claimPool
    · subst e; simp; omega
    · have e2 : ¬ (reg.claimPool = q) := fun x => e x.symm
      simp [e, e2]
  · intro hx; simp [hnrel] at hx
  · intro c hc
    show c = cap'
    have hc' : reg.claimed.map (fun _ => cap') = some c := hc
    cases hcl : reg.claimed with
    | none => simp [hcl] at hc'
    | some x => simp [hcl] at hc'; exact hc'.symm

theorem inv_opAllocGen (s : State) (d len cap align seed : Nat) (asMut zeroed : Bool) (h : Inv s) :
    Inv (opAllocGen s d len cap align seed asMut zeroed).1 := by
  unfold opAllocGen; split
  · exact inv_allocStd _ _ _ _ _ _ h
  · exact h

theorem inv_opResize (s : State) (i n val : Nat) (h : Inv s) : Inv (opResize s i n val).1 := by
  unfold opResize; split
  · split
    · exact inv_opExtend _ _ _ _ h
    · exact inv_opTruncate _ _ _ h
  · exact h

theorem inv_shrinkTo (s : State) (i : Nat) (hd : Handle) (reg : Region) (desired : Nat) (hd' : Handle) (h : Inv s)
    (hi : s.slots[i]? = some (.buf hd)) (hr : s.regions[hd.region]? = some reg) (hreg : hd'.region = hd.region) :
    Inv (shrinkTo s i hd reg desired hd').1 := by
  unfold shrinkTo; split
  · have h1 := inv_recap h hi rfl hr (reg.bytes.take desired) desired
    exact inv_retag (s := recap s hd.region reg _ _) h1 hi rfl rfl rfl rfl (by simp [Slot.region?, hreg]) (fun _ => rfl)
      (by intro r l e; cases e)
  · exact h

theorem inv_opShrinkBuf (s : State) (i : Nat) (h : Inv s) : Inv (opShrinkBuf s i).1 := by
  unfold opShrinkBuf; split
  · rename_i hd hi
    split
    · rename_i reg hr
      split
      · exact inv_shrinkTo _ _ _ _ _ _ h hi hr rfl
      · exact inv_shrinkTo _ _ _ _ _ _ h hi hr rfl
    · exact h
  · exact h

theorem inv_opShrinkMut (s : State) (i : Nat) (h : Inv s) : Inv (opShrinkMut s i).1 := by
  unfold opShrinkMut; split
  · rename_i r l hi
    split
    · rename_i reg hr
      simp only
      split
      · exact inv_recap h hi rfl hr _ _
      · exact h
    · exact h
  · exact h

theorem inv_opRoundTrip (s : State) (srcs : List Nat) (h : Inv s) : Inv (opRoundTrip s srcs).1 := by
  unfold opRoundTrip; split
  · split <;> exact h
  · exact h

theorem inv_opBinaryMut (s : State) (i j : Nat) (h : Inv s) : Inv (opBinaryMut s i j).1 := by
  unfold opBinaryMut; split
  · split
    · split
      · split
        · exact inv_allocStd _ _ _ _ _ _ (inv_dropSlot _ _ h)
        · exact h
      · exact h
    · exact h
  · exact h

theorem inv_um2Finish (s1 : State) (v n delta : Nat) (hv : Handle) (okn : Bool) (validity : List Nat)
    (h : Inv s1) : Inv (um2Finish s1 v n delta hv okn validity).1 := by
  unfold um2Finish; split
  · split
    · exact inv_allocStd _ _ _ _ _ _ (inv_dropSlot _ _ (inv_allocStd _ _ _ _ _ _ (inv_dropSlot _ _ h)))
    · exact inv_allocStd _ _ _ _ _ _ (inv_dropSlot _ _ h)
  · exact h

theorem inv_opUnaryMut2 (s : State) (v n delta : Nat) (h : Inv s) : Inv (opUnaryMut2 s v n delta).1 := by
  unfold opUnaryMut2; split
  · split
    · apply inv_um2Finish
      split
      · exact inv_dropSlot _ _ h
      · exact h
    · exact h
  · exact h

/-- **every operation preserves the invariant** -/
theorem step_inv (s : State) (op : Op) (h : Inv s) : Inv (step s op).1 := by
  cases op with
  | allocVec d len cap t seed => exact inv_opAllocVec s d len cap t seed h
  | allocMut d len cap seed => exact inv_opAllocMut s d len cap seed h
  | allocCustom d len seed => exact inv_allocCustomFresh s d _ h
  | clone i d => exact inv_opClone s i d h
  | slice i d off len => exact inv_opSlice s i d off len h
  | drop i => exact inv_opDrop s i h
  | intoMutable i => exact inv_opIntoMutable s i h
  | intoVec i t => exact inv_opIntoVec s i t h
  | freeze i => exact inv_opFreeze s i h
  | write i pos val => exact inv_opWrite s i pos val h
  | extend i n val => exact inv_opExtend s i n val h
  | truncate i len => exact inv_opTruncate s i len h
  | claim i p => exact inv_opClaim s i p h
  | wrap i d off len => exact inv_opWrap s i d off len h
  | bitAssign i j op boff blen => exact inv_opBitAssign s i j op boff blen h
  | exportFfi srcs d => exact inv_opExportFfi s srcs d h
  | importFfi i dsts => exact inv_opImportFfi s i dsts h
  | unaryMut i delta => exact inv_opUnaryMut s i delta h
  | allocGen d len cap align seed asMut zeroed => exact inv_opAllocGen s d len cap align seed asMut zeroed h
  | resize i n val => exact inv_opResize s i n val h
  | shrinkBuf i => exact inv_opShrinkBuf s i h
  | shrinkMut i => exact inv_opShrinkMut s i h
  | roundTrip srcs => exact inv_opRoundTrip s srcs h
  | binaryMut i j => exact inv_opBinaryMut s i j h
  | unaryMut2 v n delta => exact inv_opUnaryMut2 s v n delta h

theorem inv_init (n : Nat) : Inv (init n) := by
  refine ⟨?_, ?_, ?_, ?_, fun _ => rfl, ?_⟩
  · intro r
    have : ∀ m, sumMap (Slot.refs r) (List.replicate m Slot.empty) = 0 := by
      intro m; induction m with
      | zero => rfl
      | succ m ih => simp [List.replicate_succ, sumMap, ih, Slot.refs, Slot.region?]
    simp [rcOf, init, referenced, slotRefs, heldRefs, sumMap, this]
  · intro o
    have : ∀ m, sumMap (Slot.ffiRefs o) (List.replicate m Slot.empty) = 0 := by
      intro m; induction m with
      | zero => rfl
      | succ m ih => simp [List.replicate_succ, sumMap, ih, Slot.ffiRefs]
    simp [ownRc, init, ownerRefs, sumMap, this]
  · intro r reg hh; simp [init] at hh
  · intro o ow hh; simp [init] at hh
  · intro i r l hh
    simp only [init, List.getElem?_replicate] at hh
    split at hh <;> simp at hh

/-- **the invariant holds after every history** -/
theorem run_inv (ops : List Op) : ∀ (s : State), Inv s → Inv (run s ops) := by
  induction ops with
  | nil => intro s h; exact h
  | cons op ops ih => intro s h; exact ih _ (step_inv s op h)

end ArrowModel.C16
